import RotondaModel.Proofs.RibMetrics
/-!
C15, RIB unit: the metrics of `rib_unit/{metrics,status_reporter,statistics}.rs` against the history
of `Update`s the unit processed.  Model: `Model/RibMetrics.lean` on top of `Model/Rib.lean`
(`St.run` pairs C01's RIB content with the metric record).  Every statement quantifies over every list
of `Update`s (Single / Bulk / Withdraw / WithdrawBulk / pass-through kinds; any payload: both SAFI
tables, any ingress id, Fresh / Mrt / Reprocess context, re-announcements, withdrawals of routes never
announced), of any length, and over both settings of C01's and this area's variants unless it says
otherwise.  Reading guide: `notes/RibMetrics.md`.
-/
namespace Rotonda.RibMetrics
open Rotonda.Rib

/-! ### The RIB half of the combined run is C01's run -/

theorem rib_payloads (v : MVariant) (ps : List Payload) (s : St) :
    (ps.foldl (St.payload v) s).rib = ps.foldl Rib.insertPayload s.rib := by
  induction ps generalizing s with
  | nil => rfl
  | cons p ps ih => simp only [List.foldl_cons, ih, St.payload]

theorem rib_apply (rv : Rotonda.Rib.Variant) (v : MVariant) (s : St) (u : Update) :
    (St.apply rv v s u).rib = s.rib.apply rv u := by
  cases u <;> simp [St.apply, Rib.apply, rib_payloads, St.payload]

/-- The RIB content reached by the metrics model is the one C01's `Rib.applyAll` reaches. -/
theorem C15rib_state_is_C01_run (rv : Rotonda.Rib.Variant) (v : MVariant) (s : St) (us : List Update) :
    (St.runFrom rv v s us).rib = Rib.applyAll rv s.rib us := by
  induction us generalizing s with
  | nil => rfl
  | cons u us ih => simp only [St.runFrom, Rib.applyAll, List.foldl_cons] at ih ⊢; rw [ih, rib_apply]

theorem applyAll_append (rv : Rotonda.Rib.Variant) (r : Rib) (a b : List Update) :
    Rib.applyAll rv r (a ++ b) = Rib.applyAll rv (Rib.applyAll rv r a) b := by
  simp [Rib.applyAll, List.foldl_append]

/-- … and for a history of source events it is C01's `run`. -/
theorem C15rib_history_is_C01_run (rv : Rotonda.Rib.Variant) (v : MVariant) (h : History) :
    (runHistory rv v h).rib = Rotonda.Rib.run rv h := by
  unfold runHistory St.run
  rw [C15rib_state_is_C01_run]
  show Rib.applyAll rv Rib.empty _ = runFrom rv Rib.empty h
  generalize Rib.empty = r
  induction h generalizing r with
  | nil => rfl
  | cons e h ih => simp only [List.flatMap_cons, applyAll_append, runFrom, List.foldl_cons] at ih ⊢; exact ih _

/-! ### Every counter equals the number of the events it names -/

theorem Inv_payloads {v : MVariant} (ps : List Payload) {ks : List Kind} {s : St} (h : Inv v ks s.mx s.rib) :
    Inv v (ks ++ kindsP s.rib ps) (ps.foldl (St.payload v) s).mx (ps.foldl (St.payload v) s).rib := by
  induction ps generalizing ks s with
  | nil => simpa [kindsP] using h
  | cons p ps ih =>
    have := ih (ks := ks ++ [kind s.rib p]) (s := St.payload v s p) (Inv_payload h p)
    simpa [kindsP, St.payload, List.append_assoc] using this

theorem Inv_apply {rv : Rotonda.Rib.Variant} {v : MVariant} {ks : List Kind} {s : St} (u : Update)
    (h : Inv v ks s.mx s.rib) :
    Inv v (ks ++ kindsP s.rib (payloadsOf u)) (St.apply rv v s u).mx (St.apply rv v s u).rib := by
  have hcore : ∀ s' : St, Inv v (ks ++ kindsP s.rib (payloadsOf u)) s'.mx s'.rib →
      Inv v (ks ++ kindsP s.rib (payloadsOf u)) ((Rib.forwards u).foldl Metrics.gate s'.mx) s'.rib :=
    fun s' h' => Inv_core h' (core_foldl_gate _ _)
  cases u with
  | single p =>
    have := Inv_payloads (v := v) [p] h
    exact hcore (St.payload v s p) (by simpa [payloadsOf] using this)
  | bulk ps => exact hcore (ps.foldl (St.payload v) s) (by simpa [payloadsOf] using Inv_payloads (v := v) ps h)
  | withdraw m af =>
    exact hcore ⟨s.rib.apply rv (.withdraw m af), s.mx⟩
      (by simpa [payloadsOf, kindsP] using Inv_shape h (shape_apply_nonpayload rv s.rib (.withdraw m af) rfl))
  | withdrawBulk ms =>
    exact hcore ⟨s.rib.apply rv (.withdrawBulk ms), s.mx⟩
      (by simpa [payloadsOf, kindsP] using Inv_shape h (shape_apply_nonpayload rv s.rib (.withdrawBulk ms) rfl))
  | endOfStream => exact hcore ⟨s.rib, s.mx⟩ (by simpa [payloadsOf, kindsP] using h)
  | outputStream => exact hcore ⟨s.rib, s.mx⟩ (by simpa [payloadsOf, kindsP] using h)
  | queryResult => exact hcore ⟨s.rib, s.mx⟩ (by simpa [payloadsOf, kindsP] using h)

theorem Inv_run {rv : Rotonda.Rib.Variant} {v : MVariant} (us : List Update) {ks : List Kind} {s : St}
    (h : Inv v ks s.mx s.rib) :
    Inv v (ks ++ kindsFrom rv s.rib us) (St.runFrom rv v s us).mx (St.runFrom rv v s us).rib := by
  induction us generalizing ks s with
  | nil => simpa [kindsFrom, St.runFrom] using h
  | cons u us ih =>
    have := ih (Inv_apply (rv := rv) u h)
    simpa [kindsFrom, St.runFrom, rib_apply, List.append_assoc] using this

/-- **Counters are exact.** After any history of updates, with `ks` the classification of its payload
    events against the RIB content before each (C01's `Rib.apply`):
    * hard failures   = `Reprocess` payloads + withdrawals of a prefix the store has no slot for
                        (never announced, never withdrawn before, in that SAFI table);
    * unique prefixes = items = announcements of a prefix without a slot (so a second route of a known
                        prefix, a re-announcement, and an announcement after a blind withdrawal do **not** count);
    * modified        = announcements of a prefix with a slot (identical re-announcements and first routes
                        of another ingress included) + (as written) every withdrawal the store accepted;
    * withdrawn       = withdrawal payloads whose prefix has a slot (whether or not the ingress ever
                        announced it, whether or not it is already withdrawn);
    * withdrawals-without-announcement, insert retries, update duration: never written, 0;
    * announced ≡ unique prefixes − withdrawn (mod 2^64): it wraps below zero;
    * session withdrawals (`Withdraw`, `WithdrawBulk`) and pass-through updates count nowhere. -/
theorem C15rib_counters_exact (rv : Rotonda.Rib.Variant) (v : MVariant) (us : List Update) :
    let m := (St.run rv v us).mx
    let ks := kinds rv us
    m.hardFailures = cnt .reprocess ks + cnt .blindWithdraw ks ∧
    m.uniquePrefixes = cnt .newPrefix ks ∧
    m.items = cnt .newPrefix ks ∧
    m.modified = cnt .knownPrefix ks + (if v.wdEffectFix then 0 else cnt .withdraw ks) ∧
    m.withdrawn = cnt .withdraw ks ∧
    m.wdNoAnn = 0 ∧ m.insertRetries = 0 ∧ m.updateDur = 0 ∧
    (m.announced + cnt .withdraw ks) % W = cnt .newPrefix ks % W ∧ m.announced < W := by
  have h := Inv_run (rv := rv) (v := v) us (s := St.empty) (ks := []) (Inv_empty v)
  simp only [List.nil_append] at h
  exact ⟨h.hf, h.up, h.it, h.md, h.wd, h.na, h.rt, h.ud, h.an, h.lt⟩

example : (St.run {} {} [.single ⟨⟨⟨.v4, 8, 10⟩, false, 3⟩, .fresh, .active, 2⟩,
                         .single ⟨⟨⟨.v4, 8, 10⟩, false, 0⟩, .fresh, .withdrawn, 2⟩]).mx.withdrawn = 1 := by decide

/-- While withdrawals accepted by the store do not outnumber new prefixes, `announced` has not wrapped:
    it is exactly their difference. -/
theorem C15rib_announced_no_wrap (rv : Rotonda.Rib.Variant) (v : MVariant) (us : List Update)
    (hle : cnt .withdraw (kinds rv us) ≤ cnt .newPrefix (kinds rv us)) (hlt : cnt .newPrefix (kinds rv us) < W) :
    (St.run rv v us).mx.announced = cnt .newPrefix (kinds rv us) - cnt .withdraw (kinds rv us) := by
  obtain ⟨_, _, _, _, _, _, _, _, an, lt⟩ := C15rib_counters_exact rv v us
  unfold W at *
  omega

def gateOf (m : Metrics) : Nat × Nat × Nat := (m.gUpdates, m.gDropped, m.gSetSize)

theorem gateOf_payload (v : MVariant) (m : Metrics) (rep : Report) (pl : Payload) :
    gateOf (m.payload v rep pl) = gateOf m := by
  cases rep with
  | failed => rfl
  | ok pn =>
    cases hst : pl.status <;> cases hw : v.wdEffectFix <;> cases pn <;>
      simp [Metrics.payload, Metrics.insertOk, Metrics.effect, gateOf, hst, hw]

theorem gateOf_payloads (v : MVariant) (ps : List Payload) (s : St) :
    gateOf (ps.foldl (St.payload v) s).mx = gateOf s.mx := by
  induction ps generalizing s with
  | nil => rfl
  | cons p ps ih => simp only [List.foldl_cons, ih, St.payload, gateOf_payload]

/-- The gate's counters: one update (dropped, no link is attached) per forwarded update. -/
theorem C15rib_gate_exact (rv : Rotonda.Rib.Variant) (v : MVariant) (s : St) (us : List Update) :
    (St.runFrom rv v s us).mx.gUpdates = s.mx.gUpdates + (us.flatMap Rib.forwards).length ∧
    (St.runFrom rv v s us).mx.gDropped = s.mx.gDropped + (us.flatMap Rib.forwards).length := by
  induction us generalizing s with
  | nil => simp [St.runFrom]
  | cons u us ih =>
    have h1 := ih (St.apply rv v s u)
    have h2 : (St.apply rv v s u).mx.gUpdates = s.mx.gUpdates + (Rib.forwards u).length ∧
              (St.apply rv v s u).mx.gDropped = s.mx.gDropped + (Rib.forwards u).length := by
      have key : ∀ m : Metrics, gateOf m = gateOf s.mx →
          ((Rib.forwards u).foldl Metrics.gate m).gUpdates = s.mx.gUpdates + (Rib.forwards u).length ∧
          ((Rib.forwards u).foldl Metrics.gate m).gDropped = s.mx.gDropped + (Rib.forwards u).length := by
        intro m hm
        have := gUpdates_foldl_gate (Rib.forwards u) m
        simp only [gateOf, Prod.mk.injEq] at hm
        omega
      cases u with
      | single p => exact key _ (gateOf_payloads v [p] s)
      | bulk ps => exact key _ (gateOf_payloads v ps s)
      | withdraw m af => exact key _ rfl
      | withdrawBulk ms => exact key _ rfl
      | endOfStream => exact key _ rfl
      | outputStream => exact key _ rfl
      | queryResult => exact key _ rfl
    simp only [St.runFrom, List.foldl_cons, List.flatMap_cons, List.length_append] at h1 ⊢
    omega

/-! ### Session-level withdrawals are not metered at all -/

/-- `Update::Withdraw` / `WithdrawBulk` (peer down, session end, BMP termination, disconnect) change no
    metric whatsoever, however many routes they withdraw. -/
theorem C15rib_session_withdraw_unmetered (rv : Rotonda.Rib.Variant) (v : MVariant) (s : St) :
    (∀ m af, (St.apply rv v s (.withdraw m af)).mx = s.mx) ∧
    (∀ ms, (St.apply rv v s (.withdrawBulk ms)).mx = s.mx) := by
  constructor <;> intros <;> simp [St.apply, Rib.forwards]

/-! ### Where the exported values disagree with what their names and help texts say (code as written)

Witness updates: prefix 10.1.1.0/24, ingress ids 2 and 3. The engine replays each of these first. -/

def P : Prefix := ⟨.v4, 24, 655617⟩
def ann (m : Mui) (a : AttrId) (mc : Bool := false) : Update := .single ⟨⟨P, mc, a⟩, .fresh, .active, m⟩
def wdr (m : Mui) (mc : Bool := false) : Update := .single ⟨⟨P, mc, 0⟩, .fresh, .withdrawn, m⟩

/-- "the number of announced routes stored in the rib" equals the number of records a query reports active. -/
def announced_agrees_full : Prop :=
  ∀ (rv : Rotonda.Rib.Variant) (us : List Update),
    (St.run rv mAsWritten us).mx.announced = ribNumActive (St.run rv mAsWritten us).rib

/-- announce, withdraw, withdraw again: the second withdrawal finds no active route and still subtracts;
    the `AtomicUsize` wraps to 2^64 - 1 while the RIB holds no active route. -/
theorem C15rib_announced_underflow_counterexample :
    (St.run {} mAsWritten [ann 2 3, wdr 2, wdr 2]).mx.announced = 18446744073709551615 ∧
    ribNumActive (St.run {} mAsWritten [ann 2 3, wdr 2, wdr 2]).rib = 0 ∧ ¬ announced_agrees_full := by
  refine ⟨by decide, by decide, fun h => ?_⟩
  have := h {} [ann 2 3, wdr 2, wdr 2]
  revert this; decide

/-- `rib_unit_num_routes_announced` is exported with type Counter, yet it decreases. -/
theorem C15rib_announced_decreases_counterexample :
    (St.run {} mAsWritten [ann 2 3, wdr 2]).mx.announced < (St.run {} mAsWritten [ann 2 3]).mx.announced := by decide

/-- A second ingress announces the same prefix: two routes are stored and active, `items` ("items (e.g.
    routes) stored") and `announced` stay 1, and the new route is counted as a *modified* announcement. -/
theorem C15rib_items_counterexample :
    let s := St.run {} mAsWritten [ann 2 3, ann 3 4]
    s.mx.items = 1 ∧ ribNumRecs s.rib = 2 ∧ s.mx.announced = 1 ∧ ribNumActive s.rib = 2 ∧ s.mx.modified = 1 := by decide

/-- A withdrawal for a prefix the store never saw is rejected by the store (hard failure) but creates the
    slot; the announcement that follows is then "not new": the RIB holds one prefix with one active route,
    `unique_prefixes`, `items` and `announced` say 0 — for ever. -/
theorem C15rib_unique_prefixes_counterexample :
    let s := St.run {} mAsWritten [wdr 2, ann 2 3]
    s.mx.uniquePrefixes = 0 ∧ s.mx.items = 0 ∧ s.mx.announced = 0 ∧ s.mx.hardFailures = 1 ∧
    hasRec s.rib.unicast P = true ∧ ribNumActive s.rib = 1 := by decide

/-- Withdrawals without a corresponding announcement are never counted as such: the blind one is an
    "insert hard failure", the one for an ingress that never announced the (known) prefix is a withdrawn
    route (and takes one off `announced` although the only route is still active). -/
theorem C15rib_wd_without_announcement_counterexample :
    (St.run {} mAsWritten [wdr 2]).mx.wdNoAnn = 0 ∧ (St.run {} mAsWritten [wdr 2]).mx.hardFailures = 1 ∧
    (let s := St.run {} mAsWritten [ann 2 3, wdr 3]
     s.mx.wdNoAnn = 0 ∧ s.mx.withdrawn = 1 ∧ s.mx.announced = 0 ∧ ribNumActive s.rib = 1) := by decide

/-- A session-level withdrawal withdraws the route; no metric moves. -/
theorem C15rib_session_withdraw_counterexample :
    let s := St.run {} mAsWritten [ann 2 3, .withdraw 2 none]
    s.mx.announced = 1 ∧ s.mx.withdrawn = 0 ∧ ribNumActive s.rib = 0 := by decide

/-- One announcement, one withdrawal, no re-announcement: "modified route announcements processed" = 1
    (as written); 0 once the withdrawal is reported as a withdrawal only. -/
theorem C15rib_modified_counterexample :
    (St.run {} mAsWritten [ann 2 3, wdr 2]).mx.modified = 1 ∧
    (St.run {} { wdEffectFix := true } [ann 2 3, wdr 2]).mx.modified = 0 := by decide

/-! ### Counters never decrease — except `announced` -/

theorem runFrom_append (rv : Rotonda.Rib.Variant) (v : MVariant) (s : St) (us vs : List Update) :
    St.runFrom rv v s (us ++ vs) = St.runFrom rv v (St.runFrom rv v s us) vs := by
  simp [St.runFrom, List.foldl_append]

/-- **No counter ever decreases except `announced`.** Take any history of updates `us`, from any state,
    and any continuation `vs` of it: every metric exported with type Counter other than
    `rib_unit_num_routes_announced` (unique prefixes, insert retries, hard failures, modified
    announcements, withdrawn routes, withdrawals without announcement), both gate counters, and the
    `items` gauge are at least what they were after `us`. Both settings of every variant.
    (`announced` does decrease: `C15rib_announced_decreases_counterexample`; the last conjunct repeats
    that witness against the as-written code.) -/
theorem C15rib_counters_monotone (rv : Rotonda.Rib.Variant) (v : MVariant) (s : St) (us vs : List Update) :
    Mono (St.runFrom rv v s us).mx (St.runFrom rv v s (us ++ vs)).mx ∧
    (St.run {} mAsWritten ([ann 2 3] ++ [wdr 2])).mx.announced < (St.run {} mAsWritten [ann 2 3]).mx.announced := by
  refine ⟨?_, by decide⟩
  rw [runFrom_append]
  exact Mono_runFrom rv v vs _

/-- non-vacuity: a continuation that moves four of the counters strictly. -/
example :
    let a := (St.run {} mAsWritten [ann 2 3]).mx
    let b := (St.run {} mAsWritten ([ann 2 3] ++ [wdr 2, wdr 2 true, ann 3 4])).mx
    Mono a b ∧ a.withdrawn < b.withdrawn ∧ a.modified < b.modified ∧ a.hardFailures < b.hardFailures ∧ a.gUpdates < b.gUpdates :=
  ⟨(C15rib_counters_monotone {} mAsWritten St.empty [ann 2 3] [wdr 2, wdr 2 true, ann 3 4]).1,
   by decide, by decide, by decide, by decide⟩

/-! ### Durations -/

/-- **Every end-to-end sample is zero as written and reflects the payload's age with the repaired
    operand order.** After any history of updates every per-ingress `rib_unit_e2e_duration` sample has
    the class of the duration variant (`false` = the exported value is 0 whatever the delay, because
    `payload.received.duration_since(post_insert)` saturates; `true` = `post_insert.duration_since(
    payload.received)`, the payload's age), and `rib_unit_insert_duration` holds a measurement only in
    the repaired variant. -/
theorem C15rib_durations (rv : Rotonda.Rib.Variant) (v : MVariant) (us : List Update) :
    (∀ x ∈ (St.run rv v us).mx.e2e, x.2 = v.durationFix) ∧
    ((St.run rv v us).mx.insertDurSet = true → v.durationFix = true) := by
  have h := Dur_runFrom rv us (s := St.empty) (Dur_empty v)
  exact ⟨h.e2e, h.ins⟩

theorem EK_runFrom (rv : Rotonda.Rib.Variant) (v : MVariant) (us : List Update) {ms : List Mui} {s : St}
    (h : EK ms s.mx) : EK (ms ++ okMuisFrom rv s.rib us) (St.runFrom rv v s us).mx := by
  induction us generalizing ms s with
  | nil => simpa [okMuisFrom, St.runFrom] using h
  | cons u us ih =>
    have := ih (EK_apply rv v h u)
    simpa [okMuisFrom, St.runFrom, rib_apply, List.append_assoc] using this

/-- **Which ingresses have a sample, and what it shows.** After any history of updates the per-ingress
    `rib_unit_e2e_duration` block has exactly one sample per ingress id for which the store accepted at
    least one payload (announcement, or withdrawal of a prefix with a slot; `Reprocess` payloads and
    blind withdrawals do not count, session-level withdrawals neither), and that sample has the class of
    the duration variant. (The code drops a sample 60 s after its last update; metrics are read earlier.) -/
theorem C15rib_e2e_ingresses (rv : Rotonda.Rib.Variant) (v : MVariant) (us : List Update) :
    ((St.run rv v us).mx.e2e.map Prod.fst).Nodup ∧
    ∀ ing, ing ∈ okMuis rv us ↔ (ing, v.durationFix) ∈ (St.run rv v us).mx.e2e := by
  have h := EK_runFrom rv v us (s := St.empty) (ms := []) EK_empty
  simp only [List.nil_append] at h
  refine ⟨h.nd, fun ing => ?_⟩
  rw [show okMuis rv us = okMuisFrom rv St.empty.rib us from rfl, ← h.mem ing]
  show _ ∈ List.map Prod.fst (St.run rv v us).mx.e2e ↔ _
  constructor
  · intro hm
    obtain ⟨x, hx, rfl⟩ := List.mem_map.mp hm
    have := (C15rib_durations rv v us).1 x hx
    rw [← this]; exact hx
  · intro hm; exact List.mem_map.mpr ⟨_, hm, rfl⟩

/-- non-vacuity: ingress 2 is accepted, ingress 3 only sends a blind withdrawal, ingress 4 only a
    `Reprocess` payload, ingress 5 withdraws a prefix it never announced (accepted: the slot exists). -/
example : okMuis {} [ann 2 3, wdr 3 true, .single ⟨⟨P, false, 1⟩, .reprocess, .active, 4⟩, wdr 5] = [2, 5] ∧
    (St.run {} mAsWritten [ann 2 3, wdr 3 true, .single ⟨⟨P, false, 1⟩, .reprocess, .active, 4⟩, wdr 5]).mx.e2e
      = [(2, false), (5, false)] := by decide

/-- as written: all zero; repaired: all aged. -/
theorem C15rib_durations_split (rv : Rotonda.Rib.Variant) (w : Bool) (us : List Update) :
    (∀ x ∈ (St.run rv { durationFix := false, wdEffectFix := w } us).mx.e2e, x.2 = false) ∧
    (∀ x ∈ (St.run rv { durationFix := true, wdEffectFix := w } us).mx.e2e, x.2 = true) :=
  ⟨(C15rib_durations rv _ us).1, (C15rib_durations rv _ us).1⟩

/-- non-vacuity: two ingresses, two samples. -/
example : (St.run {} mAsWritten [ann 2 3, ann 3 4, wdr 2]).mx.e2e = [(2, false), (3, false)] ∧
          (St.run {} { durationFix := true } [ann 2 3, ann 3 4, wdr 2]).mx.e2e = [(2, true), (3, true)] := by decide

/-- "the time taken from initial receipt to completed insertion": every sample reflects the payload's age. -/
def durations_full : Prop :=
  ∀ (rv : Rotonda.Rib.Variant) (us : List Update), ∀ x ∈ (St.run rv mAsWritten us).mx.e2e, x.2 = true

/-- One announcement of a payload received 3 s before: the sample of ingress 2 is 0 as written (and the
    insert duration was never a measurement); with the operands the right way round it shows the age. -/
theorem C15rib_durations_counterexample :
    (St.run {} mAsWritten [ann 2 3]).mx.e2e = [(2, false)] ∧
    (St.run {} mAsWritten [ann 2 3]).mx.insertDurSet = false ∧
    (St.run {} { durationFix := true } [ann 2 3]).mx.e2e = [(2, true)] ∧ ¬ durations_full := by
  refine ⟨by decide, by decide, by decide, fun h => ?_⟩
  have := h {} [ann 2 3] (2, false) (by decide)
  revert this; decide

/-! ### `unique_prefixes`: prefixes with at least one record, unless a withdrawal came first -/

/-- **Guarded partial.** For any history of updates (announce / withdraw / session-withdraw cycles, both
    SAFI tables, any ingress ids and contexts, any length) in which no withdrawal payload names a prefix
    the store has no slot for (`blindWithdraw`: never announced and never withdrawn before in that
    table), `rib_unit_num_unique_prefixes` (= `rib_unit_num_items`) is exactly the number of prefixes
    with at least one record, unicast table plus multicast table, of the RIB content the unit holds —
    which is C01's `Rib.applyAll` of the same updates (`C15rib_state_is_C01_run`). -/
theorem C15rib_unique_prefixes_partial (rv : Rotonda.Rib.Variant) (v : MVariant) (us : List Update)
    (hg : noKind .blindWithdraw (kinds rv us) = true) :
    ∃ nu nm, CountsPrefixes (St.run rv v us).rib.unicast nu ∧ CountsPrefixes (St.run rv v us).rib.multicast nm ∧
      (St.run rv v us).mx.uniquePrefixes = nu + nm ∧ (St.run rv v us).mx.items = nu + nm ∧
      (St.run rv v us).rib = Rib.applyAll rv Rib.empty us := by
  have h0 := cnt_zero_of_noKind hg
  have hi : Inv v (kinds rv us) (St.run rv v us).mx (St.run rv v us).rib := by
    have := Inv_run (rv := rv) (v := v) us (s := St.empty) (ks := []) (Inv_empty v)
    simp only [List.nil_append] at this; exact this
  have hrib : (St.run rv v us).rib = Rib.applyAll rv Rib.empty us := C15rib_state_is_C01_run rv v St.empty us
  have hr : RP (kinds rv us) (St.run rv v us).rib := by
    have := RP_applyAll rv us (ks := []) RP_empty
    simp only [List.nil_append] at this; rw [hrib]; exact this
  have hf := hr.full h0
  have h1 := hi.kn
  have h2 := hi.up
  have h3 := hi.it
  simp only [K] at h1
  exact ⟨_, _, counts_of_full hr.pu hf.1, counts_of_full hr.pm hf.2, by omega, by omega, hrib⟩

/-- The same for a history of source events (C01's `History`): the RIB content is C01's `run`. -/
theorem C15rib_unique_prefixes_history (rv : Rotonda.Rib.Variant) (v : MVariant) (h : History)
    (hg : noKind .blindWithdraw (kinds rv (h.flatMap (Ev.updates rv))) = true) :
    ∃ nu nm, CountsPrefixes (Rotonda.Rib.run rv h).unicast nu ∧ CountsPrefixes (Rotonda.Rib.run rv h).multicast nm ∧
      (runHistory rv v h).mx.uniquePrefixes = nu + nm ∧ (runHistory rv v h).mx.items = nu + nm := by
  obtain ⟨nu, nm, h1, h2, h3, h4, _⟩ := C15rib_unique_prefixes_partial rv v _ hg
  rw [← C15rib_history_is_C01_run rv v h]
  exact ⟨nu, nm, h1, h2, h3, h4⟩

/-- non-vacuity: two ingresses announce, one withdraws and re-announces, a session goes down, a second
    prefix in the multicast table: the guard holds and the counter is 2. -/
example :
    noKind .blindWithdraw (kinds {} [ann 2 3, ann 3 4, wdr 2, ann 2 5, .withdraw 3 none, ann 2 3 true, wdr 3 true]) = true ∧
    (St.run {} mAsWritten [ann 2 3, ann 3 4, wdr 2, ann 2 5, .withdraw 3 none, ann 2 3 true, wdr 3 true]).mx.uniquePrefixes = 2 := by
  decide

/-- The unguarded statement. -/
def unique_prefixes_full : Prop :=
  ∀ (rv : Rotonda.Rib.Variant) (v : MVariant) (us : List Update),
    ∃ nu nm, CountsPrefixes (St.run rv v us).rib.unicast nu ∧ CountsPrefixes (St.run rv v us).rib.multicast nm ∧
      (St.run rv v us).mx.uniquePrefixes = nu + nm

/-- It fails: a withdrawal of a prefix the store never saw, then its announcement. The guard is false
    for this history, one prefix has a record, the counter says 0. -/
theorem C15rib_unique_prefixes_not_full :
    noKind .blindWithdraw (kinds {} [wdr 2, ann 2 3]) = false ∧
    hasRec (St.run {} mAsWritten [wdr 2, ann 2 3]).rib.unicast P = true ∧
    (St.run {} mAsWritten [wdr 2, ann 2 3]).mx.uniquePrefixes = 0 ∧ ¬ unique_prefixes_full := by
  refine ⟨by decide, by decide, by decide, fun h => ?_⟩
  obtain ⟨nu, nm, ⟨l, _, hl, hlen⟩, _, hup⟩ := h {} mAsWritten [wdr 2, ann 2 3]
  have hmem : P ∈ l := (hl P).2 (by decide)
  have hpos := List.length_pos_of_mem hmem
  have h0 : (St.run {} mAsWritten [wdr 2, ann 2 3]).mx.uniquePrefixes = 0 := by decide
  omega

end Rotonda.RibMetrics
