import RotondaModel.Proofs.PipeMrt
import RotondaModel.Props.C01
import RotondaModel.Props.C03
/-!
# PipeMrt — C16 stated where the property speaks: the RIB after an MRT import

`Model/PipeMrt.lean` composes the mrt-file-in model (`Model/Mrt.lean`, C16) with the RIB model
(`Model/Rib.lean`, C01–C03). All theorems are about `importFile` / `importQueue`: the ingress register
and the **RIB** after the unit has processed a file / a queue of files, for files and queues of any
length; `ι` interprets the MRT model's prefix numbers (`ι.OK`: injective per family).

Refinement (no guard, every queue, every variant, whatever fails)
* `PipeMrt_refines_C01`   RIB after a queue = C01's `runFrom` over the history the queue denotes
                          (`queueHist`); register = `queueReg`. `PipeMrt_key`: per key, the fold of C01's `specEv`.
* `PipeMrt_agrees_with_C16` register and enqueuer answers are those of `Mrt.runQueue` (the C16 model).
Dump clause
* `PipeMrt_dump`          any well-formed dump, into any RIB: every key `(prefix, base + peer index)` named
                          by an entry holds the attributes of the last such entry, active; nothing else changes.
  `PipeMrt_dump_query`    into the empty RIB: `Rib::match_prefix` answers exactly the dump's entries.
  `PipeMrt_dump_attribution` the id of an entry is registered to the entry's peer of the peer index table.
Updates clause
* `PipeMrt_updates`       any file without a peer index table: RIB = C01 replay of the file's UPDATEs and
                          effective state changes in file order, one stable id per peer (`fileEventsM`).
  `PipeMrt_updates_attribution` that id is registered to that peer.
* `PipeMrt_C01`           C01's own statement over the MRT path: for queues without an effective state
                          change, `match_prefix` answers exactly `last` of the queue's history.
State-change clause
* `PipeMrt_state_change`  exact, per id. `PipeMrt_state_change_full` (def, per **peer**, reachable states),
  `PipeMrt_state_change_repaired`, `PipeMrt_state_change_partial`, `PipeMrt_state_change_counterexample`
  (two dumps naming one peer: the peer index loop registers it twice, one id stays active).
  `PipeMrt_two_entries_counterexample`: the same defect as two RIB entries for one peer.
Updates after a state change (C03 through MRT)
* `PipeMrt_reannounce_full` (def), `PipeMrt_flap_exact`, `PipeMrt_flap_counterexample`, `PipeMrt_flap_repaired`.
Queue clause
* `PipeMrt_queue_order`, `PipeMrt_queue_dead`, `PipeMrt_unreadable_noop`, `PipeMrt_dump_cut`.
-/
namespace Rotonda.PipeMrt

open Rotonda
open Rotonda.Rib (Rib)

/-- The variant of /repo today: the three C16 sites are repaired; the peer index loop and the RIB's
    session-level withdrawal are as written. -/
def tree : Variant := ⟨⟨.repaired, .repaired, .repaired⟩, .asWritten, Rib.asWritten⟩

def peerA : Mrt.Peer := ⟨0, 65001⟩
def peerB : Mrt.Peer := ⟨1, 65002⟩
def dumpA : Mrt.File := ⟨.plain, [.peerIndex [peerA], .rib false 0 [(0, 1)]]⟩
def reg0 : Mrt.Reg := ⟨2, []⟩
def st0 : State := ⟨reg0, Rib.Rib.empty⟩

theorem ιNum_ok : PfxInterp.OK ιNum :=
  ⟨fun _ _ => rfl, fun v6 n n' h => by simpa [ιNum] using h⟩

/-! ## 1. The composition refines C01 -/

/-- **Refinement.** For every queue of files (any records, any compression, whatever the reader gives up
    on), every variant, from every register and RIB: the RIB afterwards is C01's replay of the history
    the queue denotes, and the register is `queueReg`. -/
theorem PipeMrt_refines_C01 (ι : PfxInterp) (v : Variant) (parent : Nat) (s : State) (fs : List Mrt.File) :
    (importQueue ι v parent s fs).st.rib = Rib.runFrom (ribVariant v) s.rib (queueHist ι v parent s.reg fs)
    ∧ (importQueue ι v parent s fs).st.reg = queueReg v parent s.reg fs :=
  ⟨importQueue_rib ι v parent fs s, importQueue_reg ι v parent fs s⟩

/-- … hence, per SAFI table, prefix and ingress id, stored record and session marker are the fold of
    C01's per-event specification over that history; and the RIB stays well-formed. -/
theorem PipeMrt_key (ι : PfxInterp) (v : Variant) (parent : Nat) (s : State) (hr : s.rib.WF) (fs : List Mrt.File)
    (mc : Bool) (p : Rib.Prefix) (m : Nat) :
    (importQueue ι v parent s fs).st.rib.abs mc p m
      = (queueHist ι v parent s.reg fs).foldl (Rib.specEv (ribVariant v) mc p m) (s.rib.abs mc p m)
    ∧ (importQueue ι v parent s fs).st.rib.WF := by
  rw [importQueue_rib]
  exact ⟨Rib.abs_runFrom _ _ _ hr mc p m, Rib.WF_runFrom _ _ _ hr⟩

example : (importQueue ιNum tree 1 st0 [dumpA, ⟨.gzip, [.msg peerA (.update false [0] [] 2), .msg peerB (.update false [0, 1] [] 3)]⟩]).st.rib.query (ιNum false 0)
    = [⟨2, .active, 2⟩, ⟨3, .active, 3⟩] := by decide

/-- With the peer index loop as written the register and the enqueuer answers are exactly those of the
    C16 model's `runQueue`. -/
theorem PipeMrt_agrees_with_C16 (ι : PfxInterp) (v : Variant) (hv : v.dumpreg = .asWritten) (parent : Nat)
    (fs : List Mrt.File) (s : State) :
    (importQueue ι v parent s fs).st.reg = (Mrt.runQueue v.mrt parent s.reg fs).reg
    ∧ (importQueue ι v parent s fs).resps = (Mrt.runQueue v.mrt parent s.reg fs).resps := by
  induction fs generalizing s with
  | nil => exact ⟨rfl, rfl⟩
  | cons f fs ih =>
    have hp := processFile_asWritten v hv parent s.reg f
    by_cases hd : dies v parent s.reg f
    · rw [importQueue_dead ι v parent s f fs hd]
      obtain ⟨h1, h2⟩ := hd
      rw [hp] at h1
      simp [Mrt.runQueue, h1, h2, importFile, hp]
    · rw [importQueue_live ι v parent s f fs hd]
      have hs : (importFile ι v parent s f).reg = (Mrt.processFile v.mrt parent s.reg f).reg := by
        simp [importFile, hp]
      have := ih (importFile ι v parent s f)
      rw [hs] at this
      simp only [Mrt.runQueue]
      split
      · rename_i h1 h2; exact absurd ⟨by rw [hp]; exact h1, h2⟩ hd
      · exact ⟨this.1, by rw [this.2]⟩

/-! ## 2. The dump clause -/

/-- **C16 (dump), at the RIB.** Any readable file `peer index table :: well-formed unicast RIB records`
    (any number of peers, records, entries), imported into *any* RIB: every key `(prefix, base + peer
    index)` that some entry names ends up **active with the attributes of the last such entry**; every
    other key — other prefixes, other ids, the multicast table — and all session markers are untouched;
    the file ends normally and its peers are registered under consecutive ids with this unit as parent. -/
theorem PipeMrt_dump (ι : PfxInterp) (v : Variant) (hv : v.dumpreg = .asWritten) (parent : Nat) (s : State)
    (hr : s.rib.WF) (c : Mrt.Comp) (hc : c.readable = true) (ps : List Mrt.Peer)
    (ribs : List (Bool × Nat × List (Nat × Nat))) (h : Mrt.wellFormedRibs ps.length ribs = true) :
    let f : Mrt.File := ⟨c, .peerIndex ps :: ribs.map Mrt.ribRec⟩
    let s' := importFile ι v parent s f
    (∀ mc p m, s'.rib.get mc p m =
        match (if mc then none else lastAttr ι p m (dumpFlat s.reg.next ribs)) with
        | some a => some (.active, a)
        | none => s.rib.get mc p m)
    ∧ (∀ mc fam, (s'.rib.store mc).wd fam = (s.rib.store mc).wd fam)
    ∧ s'.rib.WF ∧ fileStatus v parent s f = .ok
    ∧ s'.reg.next = s.reg.next + ps.length
    ∧ s'.reg.infos = s.reg.infos ++ ((List.range ps.length).zip ps).map (fun e => (s.reg.next + e.1, parent, e.2)) := by
  intro f s'
  have hd := Mrt.C16_dump v.mrt parent s.reg c hc ps ribs h
  simp only at hd
  obtain ⟨hout, hst, hnext, hinfos⟩ := hd
  have hp := processFile_asWritten v hv parent s.reg f
  have hrib : s'.rib = s.rib.applyAll v.rib (singlesOf ι (dumpFlat s.reg.next ribs)) := by
    simp only [s', importFile, fileUpdates, hp, f, hout, dumpSpec_eq_flat, annotate_singles]
    rfl
  refine ⟨?_, ?_, ?_, ?_, ?_, ?_⟩
  · intro mc p m; rw [hrib]; exact get_singles ι v.rib _ s.rib hr mc p m
  · intro mc fam; rw [hrib]; exact wd_singles ι v.rib _ s.rib mc fam
  · rw [hrib]; exact WF_singles ι v.rib _ s.rib hr
  · simp only [fileStatus, hp, f]; exact hst
  · simp only [s', importFile, hp, f]; exact hnext
  · simp only [s', importFile, hp, f]; exact hinfos

/-- **… the RIB holds exactly the dump's entries.** Into the empty RIB: `Rib::match_prefix(p)` answers
    `(m, st, a)` iff the status is active and `a` is the attribute set of the last entry of the dump
    that names `p` for the peer whose id is `m` — for every prefix `p` whatsoever. -/
theorem PipeMrt_dump_query (ι : PfxInterp) (v : Variant) (hv : v.dumpreg = .asWritten) (parent : Nat) (reg : Mrt.Reg)
    (c : Mrt.Comp) (hc : c.readable = true) (ps : List Mrt.Peer)
    (ribs : List (Bool × Nat × List (Nat × Nat))) (h : Mrt.wellFormedRibs ps.length ribs = true)
    (p : Rib.Prefix) (m : Nat) (st : Rib.Status) (a : Nat) :
    (⟨m, st, a⟩ : Rib.Rec) ∈ (importFile ι v parent ⟨reg, Rib.Rib.empty⟩ ⟨c, .peerIndex ps :: ribs.map Mrt.ribRec⟩).rib.query p {}
      ↔ st = .active ∧ lastAttr ι p m (dumpFlat reg.next ribs) = some a := by
  obtain ⟨hget, hwd, hwf, -⟩ := PipeMrt_dump ι v hv parent ⟨reg, Rib.Rib.empty⟩ Rib.Rib.WF_empty c hc ps ribs h
  simp only at hget hwd hwf
  have hother : ∀ m', (importFile ι v parent ⟨reg, Rib.Rib.empty⟩ ⟨c, .peerIndex ps :: ribs.map Mrt.ribRec⟩).rib.get (!false) p m' = none := by
    intro m'; rw [hget]; rfl
  rw [Rib.Rib.mem_query_of_empty _ hwf p false hother]
  have hw := hwd false p.fam
  have hg := hget false p m
  simp only [Rib.Rib.get] at hg
  have hw0 : (Rib.Rib.empty.store false).wd p.fam = [] := by cases p.fam <;> rfl
  simp only [Rib.Rib.entry, Rib.Store.entry, hg, hw, hw0, Bool.false_eq_true, if_false, List.not_mem_nil]
  cases lastAttr ι p m (dumpFlat reg.next ribs) with
  | none => simp [Rib.Rib.empty, Rib.Rib.store, Rib.Store.get, Rib.lookup]
  | some a' =>
    simp only [Option.some.injEq, Prod.mk.injEq]
    constructor
    · rintro ⟨h1, h2⟩; exact ⟨h1.symm, h2⟩
    · rintro ⟨h1, h2⟩; exact ⟨h1.symm, h2⟩

/-- **… each attributed to the right peer**: the id `base + idx` under which entry `(idx, _)` is stored is
    registered, with this unit as parent, to peer number `idx` of the file's peer index table. -/
theorem PipeMrt_dump_attribution (ι : PfxInterp) (v : Variant) (hv : v.dumpreg = .asWritten) (parent : Nat) (s : State)
    (c : Mrt.Comp) (hc : c.readable = true) (ps : List Mrt.Peer)
    (ribs : List (Bool × Nat × List (Nat × Nat))) (h : Mrt.wellFormedRibs ps.length ribs = true)
    (idx : Nat) (hidx : idx < ps.length) :
    (s.reg.next + idx, parent, ps[idx]) ∈ (importFile ι v parent s ⟨c, .peerIndex ps :: ribs.map Mrt.ribRec⟩).reg.infos := by
  have hd := Mrt.C16_dump v.mrt parent s.reg c hc ps ribs h
  simp only at hd
  have hp := processFile_asWritten v hv parent s.reg ⟨c, .peerIndex ps :: ribs.map Mrt.ribRec⟩
  simp only [importFile, hp, hd.2.2.2, List.mem_append, List.mem_map]
  refine Or.inr ⟨(idx, ps[idx]), ?_, rfl⟩
  rw [List.mem_iff_getElem]
  exact ⟨idx, by simp [hidx], by simp⟩

-- two peers, three records, a duplicate entry (the later one wins), into the empty RIB
example : let f : Mrt.File := ⟨.bzip2, [.peerIndex [peerA, peerB], .rib false 0 [(0, 1), (1, 2)], .rib true 1 [(1, 3)], .rib false 0 [(0, 3)]]⟩
    let s := importFile ιNum tree 1 st0 f
    s.rib.query (ιNum false 0) = [⟨2, .active, 3⟩, ⟨3, .active, 2⟩] ∧ s.rib.query (ιNum true 1) = [⟨3, .active, 3⟩]
      ∧ s.rib.query (ιNum false 1) = [] ∧ s.reg.infos = [(2, 1, peerA), (3, 1, peerB)] := by decide

/-! ## 3. The updates clause -/

theorem find_mem (r : Mrt.Reg) (par : Nat) (q : Mrt.Peer) (id : Nat) (h : r.find (some par) q = some id) :
    (id, par, q) ∈ r.infos := by
  rw [find_eq] at h
  cases hf : r.infos.find? (fun e => decide (e.2.1 = par ∧ e.2.2 = q)) with
  | none => rw [hf] at h; cases h
  | some e =>
    rw [hf] at h
    simp only [Option.map_some, Option.some.injEq] at h
    have he := List.mem_of_find?_eq_some hf
    have hp := List.find?_some hf
    simp only [decide_eq_true_eq] at hp
    obtain ⟨a, b, c⟩ := e
    simp only at hp h
    obtain ⟨rfl, rfl⟩ := hp
    subst h
    exact he

/-- **C16 (updates), at the RIB.** Any readable file that does not start with a peer index table — any
    record mix, any length, wherever the reader gives up —, imported into any RIB: the RIB afterwards is
    C01's replay of the file's UPDATE records (announcements, and the withdrawals `process_message`
    keeps) and its effective Established→Idle state changes, **in file order**, every record of peer `q`
    under **one** ingress id, the one the register answers for `q` after the file. A state change is
    effective iff the site is repaired and the peer is known at that point (registered before the file
    or seen in an earlier UPDATE of it). -/
theorem PipeMrt_updates (ι : PfxInterp) (v : Variant) (parent : Nat) (s : State) (f : Mrt.File)
    (hc : f.comp.readable = true) (hn : noPeerIndex f.recs = true) :
    let s' := importFile ι v parent s f
    s'.rib = Rib.runFrom (ribVariant v) s.rib
      (fileEventsM ι v.mrt (idIn s'.reg parent) (knownIn s.reg parent) f.recs) := by
  intro s'
  have hp := processFile_updates v parent s.reg f hc hn
  have hreg : s'.reg = (Mrt.msgLoop v.mrt parent s.reg f.recs).reg := by simp [s', importFile, hp]
  rw [importFile_rib, hp, hreg]
  congr 1
  apply histOf_msgLoop
  intro q id hq
  simp [idIn, hq]

/-- … for a file made only of BGP4MP messages and state changes this is `fileEvents` (nothing makes the
    reader give up). -/
theorem PipeMrt_updates_supported (ι : PfxInterp) (v : Variant) (parent : Nat) (s : State) (c : Mrt.Comp)
    (hc : c.readable = true) (recs : List Mrt.Rec) (h : recs.all Mrt.Rec.isBgp4mpSupported = true) :
    let s' := importFile ι v parent s ⟨c, recs⟩
    s'.rib = Rib.runFrom (ribVariant v) s.rib (fileEvents ι v.mrt (idIn s'.reg parent) (knownIn s.reg parent) recs) := by
  intro s'
  have hn : noPeerIndex recs = true := by
    cases recs with
    | nil => rfl
    | cons r rest => cases r <;> simp_all [noPeerIndex, Mrt.Rec.isBgp4mpSupported]
  rw [← fileEventsM_eq ι v.mrt _ recs h]
  exact PipeMrt_updates ι v parent s ⟨c, recs⟩ hc hn

/-- … and the id answered for a peer is registered to exactly that peer under this unit. -/
theorem PipeMrt_updates_attribution (r : Mrt.Reg) (parent : Nat) (q : Mrt.Peer) (h : knownIn r parent q = true) :
    (idIn r parent q, parent, q) ∈ r.infos := by
  unfold knownIn at h
  unfold idIn
  cases hf : r.find (some parent) q with
  | none => simp [hf] at h
  | some id => exact find_mem r parent q id hf

example : let f : Mrt.File := ⟨.plain, [.msg peerA (.update false [0, 1] [] 1), .stateChange peerB 6 1, .msg peerB (.update false [0] [] 2),
      .msg peerA (.update false [4] [0, 4] 3), .otherType, .msg peerA (.update false [2] [] 1)]⟩
    let s := importFile ιNum tree 1 st0 f
    s.rib.query (ιNum false 0) = [⟨2, .withdrawn, 1⟩, ⟨3, .active, 2⟩] ∧ s.rib.query (ιNum false 4) = [⟨2, .active, 3⟩]
      ∧ s.rib.query (ιNum false 2) = [] ∧ s.reg.infos = [(2, 1, peerA), (3, 1, peerB)] := by decide

/-- **C01 over the MRT path.** For every queue whose history contains no effective state change (overlap
    site repaired, as in /repo today): `Rib::match_prefix(p)` on the RIB after the queue answers exactly
    C01's specification `last` of the queue's history — for each id the attributes of its most recent
    announcement of `p`, active, or withdrawn if its most recent mention was a withdrawal. -/
theorem PipeMrt_C01 (ι : PfxInterp) (hι : ι.OK) (v : Variant) (hov : v.mrt.ov = .repaired) (parent : Nat) (reg : Mrt.Reg)
    (fs : List Mrt.File) (hu : (queueHist ι v parent reg fs).all Rib.Ev.isUpd = true)
    (p : Rib.Prefix) (m : Nat) (st : Rib.Status) (a : Nat) :
    (⟨m, st, a⟩ : Rib.Rec) ∈ (importQueue ι v parent ⟨reg, Rib.Rib.empty⟩ fs).st.rib.query p {}
      ↔ Rib.last (queueHist ι v parent reg fs) p m = some (st, a) := by
  rw [importQueue_rib]
  apply Rib.C01_guarded (ribVariant v) _ hu (Or.inr (queueHist_noOverlap ι hι v hov parent fs reg)) p
  simp [Rib.singleSafi, queueHist_unicast]

example : (queueHist ιNum tree 1 reg0 [dumpA, ⟨.plain, [.msg peerA (.update false [0] [0, 1] 2), .stateChange peerA 1 6]⟩]).all Rib.Ev.isUpd = true
    ∧ Rib.last (queueHist ιNum tree 1 reg0 [dumpA, ⟨.plain, [.msg peerA (.update false [0] [0, 1] 2), .stateChange peerA 1 6]⟩]) (ιNum false 0) 2
        = some (.active, 2) := by decide

/-! ## 4. The state-change clause -/

/-- **Exact, per ingress id** (state-change site repaired): importing `STATE_CHANGE q Established→Idle`
    when the register answers `id` for `q` makes every route stored under `id` — both tables, every
    prefix — reported withdrawn with its attributes kept, changes no route of any other id, and leaves
    the register alone. -/
theorem PipeMrt_state_change (ι : PfxInterp) (v : Variant) (hsc : v.mrt.sc = .repaired) (parent : Nat) (s : State)
    (c : Mrt.Comp) (hc : c.readable = true) (q : Mrt.Peer) (id : Nat) (hf : s.reg.find (some parent) q = some id) :
    let s' := importFile ι v parent s ⟨c, [.stateChange q Mrt.established Mrt.idle]⟩
    s'.reg = s.reg ∧ ∀ mc p m, s'.rib.entry mc p m = if m = id then (s.rib.entry mc p m).map Rib.setWithdrawn else s.rib.entry mc p m := by
  intro s'
  have := importFile_stateChange ι v hsc parent s c hc q
  rw [hf] at this
  simp only [s', this, true_and]
  intro mc p m
  exact entry_withdraw v.rib s.rib id mc p m

/-- The clause at full strength, per **peer**: in every state reachable by importing a queue into an empty
    RIB (from a register without duplicate identities), an Established→Idle state change of peer `q`
    withdraws the routes of **every** ingress id registered to `q` under this unit. -/
def PipeMrt_state_change_full (ι : PfxInterp) (v : Variant) : Prop :=
  ∀ (parent : Nat) (r0 : Mrt.Reg), NoDupIdent r0 → ∀ (fs : List Mrt.File) (q : Mrt.Peer) (c : Mrt.Comp), c.readable = true →
    ∀ id ∈ idsOf (importQueue ι v parent ⟨r0, Rib.Rib.empty⟩ fs).st.reg parent q, ∀ (mc : Bool) (p : Rib.Prefix),
      (importFile ι v parent (importQueue ι v parent ⟨r0, Rib.Rib.empty⟩ fs).st ⟨c, [.stateChange q Mrt.established Mrt.idle]⟩).rib.entry mc p id
        = ((importQueue ι v parent ⟨r0, Rib.Rib.empty⟩ fs).st.rib.entry mc p id).map Rib.setWithdrawn

/-- **Repaired** (the state change looks the peer up with the parent id, and the peer index loop looks a
    peer up before registering it): the clause holds — an identity is never registered twice. -/
theorem PipeMrt_state_change_repaired (ι : PfxInterp) (v : Variant) (hsc : v.mrt.sc = .repaired)
    (hdr : v.dumpreg = .repaired) : PipeMrt_state_change_full ι v := by
  intro parent r0 h0 fs q c hc id hid mc p
  have hnd : NoDupIdent (importQueue ι v parent ⟨r0, Rib.Rib.empty⟩ fs).st.reg := by
    rw [importQueue_reg]; exact NoDup_queueReg v hdr parent fs r0 h0
  have hf := find_of_mem _ hnd id parent q ((mem_idsOf _ _ _ _).mp hid)
  have := (PipeMrt_state_change ι v hsc parent _ c hc q id hf).2 mc p id
  simpa using this

/-- **Any variant with the state-change site repaired**, guard: the peer has exactly one id. -/
theorem PipeMrt_state_change_partial (ι : PfxInterp) (v : Variant) (hsc : v.mrt.sc = .repaired) (parent : Nat) (s : State)
    (c : Mrt.Comp) (hc : c.readable = true) (q : Mrt.Peer) (id : Nat) (h1 : idsOf s.reg parent q = [id])
    (mc : Bool) (p : Rib.Prefix) :
    (importFile ι v parent s ⟨c, [.stateChange q Mrt.established Mrt.idle]⟩).rib.entry mc p id
      = (s.rib.entry mc p id).map Rib.setWithdrawn := by
  have hf : s.reg.find (some parent) q = some id := by
    rw [find_eq]
    have hm : id ∈ idsOf s.reg parent q := by rw [h1]; exact List.mem_singleton.mpr rfl
    cases hx : s.reg.infos.find? (fun e => decide (e.2.1 = parent ∧ e.2.2 = q)) with
    | none =>
      rw [List.find?_eq_none] at hx
      exact absurd (by simp) (hx _ ((mem_idsOf _ _ _ _).mp hm))
    | some e =>
      have he := List.mem_of_find?_eq_some hx
      have hp := List.find?_some hx
      simp only [decide_eq_true_eq] at hp
      have : e.1 ∈ idsOf s.reg parent q := by
        rw [mem_idsOf]
        obtain ⟨a, b, c'⟩ := e
        simp only at hp
        obtain ⟨rfl, rfl⟩ := hp
        exact he
      rw [h1, List.mem_singleton] at this
      simp [this]
  have := (PipeMrt_state_change ι v hsc parent s c hc q id hf).2 mc p id
  simpa using this

/-- **As the tree stands the clause fails**: two dumps that name the same peer (the next RIB snapshot of
    the same collector, or the same file queued twice) leave the peer with ingress ids 2 and 3, the state
    change withdraws id 2 only, the route stored under id 3 stays active. The engine replays this queue first. -/
theorem PipeMrt_state_change_counterexample : ¬ PipeMrt_state_change_full ιNum tree := by
  intro h
  have := h 1 reg0 (by simp [NoDupIdent, reg0]) [dumpA, dumpA] peerA .plain rfl 3 (by decide) false (ιNum false 0)
  revert this
  decide

/-- The same defect seen by a query: after the two dumps `match_prefix` reports two entries whose ingress
    ids are both registered to the one peer. -/
theorem PipeMrt_two_entries_counterexample :
    let s := (importQueue ιNum tree 1 st0 [dumpA, dumpA]).st
    s.rib.query (ιNum false 0) = [⟨2, .active, 1⟩, ⟨3, .active, 1⟩] ∧ idsOf s.reg 1 peerA = [2, 3] := by decide

-- the guard of the partial theorem is satisfiable in a state with routes of two peers; the repaired variant has one id
example : idsOf (importQueue ιNum tree 1 st0 [⟨.plain, [.peerIndex [peerA, peerB], .rib false 0 [(0, 1), (1, 2)]]⟩]).st.reg 1 peerB = [3] := by decide
example : idsOf (importQueue ιNum { tree with dumpreg := .repaired } 1 st0 [dumpA, dumpA]).st.reg 1 peerA = [2] := by decide

/-! ## 5. Updates after a state change (C03 through the MRT path) -/

/-- "… then reflects the BGP4MP updates applied in file order", for the last UPDATE of a queue: after any
    queue, an UPDATE record of peer `q` announcing prefix number `n` (and not withdrawing it) leaves that
    prefix **active** with the UPDATE's attributes under `q`'s id. -/
def PipeMrt_reannounce_full (ι : PfxInterp) (v : Variant) : Prop :=
  ∀ (parent : Nat) (r0 : Mrt.Reg) (fs : List Mrt.File) (c : Mrt.Comp), c.readable = true →
    ∀ (q : Mrt.Peer) (v6 : Bool) (ann wd : List Nat) (a n : Nat), n ∈ ann → n ∉ Mrt.keptWd v.mrt ann wd →
      let s := (importQueue ι v parent ⟨r0, Rib.Rib.empty⟩ fs).st
      let s' := importFile ι v parent s ⟨c, [.msg q (.update v6 ann wd a)]⟩
      s'.rib.entry false (ι v6 n) (idIn s'.reg parent q) = some (.active, a)

theorem reannounce_run (ι : PfxInterp) (v : Variant) (parent : Nat) (r0 : Mrt.Reg) (fs : List Mrt.File) (c : Mrt.Comp)
    (hc : c.readable = true) (q : Mrt.Peer) (v6 : Bool) (ann wd : List Nat) (a : Nat) :
    let s := (importQueue ι v parent ⟨r0, Rib.Rib.empty⟩ fs).st
    let s' := importFile ι v parent s ⟨c, [.msg q (.update v6 ann wd a)]⟩
    s'.rib = Rib.run (ribVariant v) (queueHist ι v parent r0 fs ++
      .upd (idIn s'.reg parent q) (.ok a (ann.map (nlri ι v6)) ((Mrt.keptWd v.mrt ann wd).map (nlri ι v6))) :: []) := by
  intro s s'
  have h1 := PipeMrt_updates ι v parent s ⟨c, [.msg q (.update v6 ann wd a)]⟩ hc rfl
  simp only [fileEventsM] at h1
  rw [Rib.run, runFrom_append, ← importQueue_rib ι v parent fs ⟨r0, Rib.Rib.empty⟩]
  exact h1

/-- **As written, exactly** (`withdraw_for_ingress` sets the store's global marker, nothing clears it):
    the prefix is reported `withdrawn` iff an effective Established→Idle state change of that peer's id
    occurred **anywhere earlier in the queue**, `active` otherwise. -/
theorem PipeMrt_flap_exact (ι : PfxInterp) (hι : ι.OK) (v : Variant) (hv : v.rib.perRecordWithdraw = false)
    (parent : Nat) (r0 : Mrt.Reg) (fs : List Mrt.File) (c : Mrt.Comp) (hc : c.readable = true)
    (q : Mrt.Peer) (v6 : Bool) (ann wd : List Nat) (a n : Nat) (hn : n ∈ ann) (hw : n ∉ Mrt.keptWd v.mrt ann wd) :
    let s := (importQueue ι v parent ⟨r0, Rib.Rib.empty⟩ fs).st
    let s' := importFile ι v parent s ⟨c, [.msg q (.update v6 ann wd a)]⟩
    s'.rib.entry false (ι v6 n) (idIn s'.reg parent q)
      = some (if (queueHist ι v parent r0 fs).any (Rib.Ev.downs (idIn s'.reg parent q)) then .withdrawn else .active, a) := by
  intro s s'
  have hvar : ribVariant v = Rib.asWritten := by
    simp only [ribVariant, Rib.asWritten]
    cases hr : v.rib
    simp_all
  rw [reannounce_run ι v parent r0 fs c hc q v6 ann wd a, hvar]
  apply Rib.C03_flap_exact
  · exact (mem_map_nlri ι hι v6 n ann).mpr hn
  · intro h; exact hw ((mem_map_nlri ι hι v6 n _).mp h)
  · rfl

/-- **As written the clause fails**: announce, Established→Idle, announce again — the new route is
    reported withdrawn (C03's defect through the MRT path). The engine replays this file first. -/
theorem PipeMrt_flap_counterexample : ¬ PipeMrt_reannounce_full ιNum tree := by
  intro h
  have := h 1 reg0 [⟨.plain, [.msg peerA (.update false [0] [] 1), .stateChange peerA 6 1]⟩] .plain rfl peerA false [0] [] 2 0
    (by decide) (by decide)
  revert this
  decide

/-- **Per-record withdrawal (C03's repair): the clause holds**, for every queue. -/
theorem PipeMrt_flap_repaired (ι : PfxInterp) (hι : ι.OK) (v : Variant) (hv : v.rib.perRecordWithdraw = true) :
    PipeMrt_reannounce_full ι v := by
  intro parent r0 fs c hc q v6 ann wd a n hn hw s s'
  rw [reannounce_run ι v parent r0 fs c hc q v6 ann wd a]
  apply Rib.C03_repaired (ribVariant v) hv
  · exact (mem_map_nlri ι hι v6 n ann).mpr hn
  · intro h; exact hw ((mem_map_nlri ι hι v6 n _).mp h)
  · rfl

example : (importQueue ιNum { tree with rib := { perRecordWithdraw := true } } 1 st0
    [⟨.plain, [.msg peerA (.update false [0] [] 1), .stateChange peerA 6 1, .msg peerA (.update false [0] [] 2)]⟩]).st.rib.query (ιNum false 0)
    = [⟨2, .active, 2⟩] := by decide

/-! ## 6. The queue clause -/

/-- **Queue order** (a panic is confined to its file, as in /repo today): the state after a queue is the
    left fold of `importFile` over the files in queue order, and every enqueuer is answered. -/
theorem PipeMrt_queue_order (ι : PfxInterp) (v : Variant) (hiso : v.mrt.iso = .repaired) (parent : Nat)
    (fs : List Mrt.File) (s : State) :
    (importQueue ι v parent s fs).st = fs.foldl (importFile ι v parent) s
    ∧ (importQueue ι v parent s fs).resps = fs.map fun _ => true := by
  induction fs generalizing s with
  | nil => exact ⟨rfl, rfl⟩
  | cons f fs ih =>
    have hd : ¬ dies v parent s.reg f := fun h => by have h2 := h.2; rw [hiso] at h2; cases h2
    rw [importQueue_live ι v parent s f fs hd]
    exact ⟨(ih _).1, by simp [(ih _).2]⟩

/-- **As written** a file that panics ends the queue: its own delivered part is in the RIB, no later file
    is imported, no enqueuer from it on is answered. -/
theorem PipeMrt_queue_dead (ι : PfxInterp) (v : Variant) (hiso : v.mrt.iso = .asWritten) (parent : Nat) (s : State)
    (f : Mrt.File) (fs : List Mrt.File) (hp : fileStatus v parent s f = .panic) :
    importQueue ι v parent s (f :: fs) = ⟨importFile ι v parent s f, (f :: fs).map fun _ => false⟩ :=
  importQueue_dead ι v parent s f fs ⟨hp, hiso⟩

/-- **An unreadable file affects only itself** — in fact nothing: a missing or undecodable file leaves the
    register and the RIB exactly as they were. -/
theorem PipeMrt_unreadable_noop (ι : PfxInterp) (v : Variant) (parent : Nat) (s : State) (f : Mrt.File)
    (h : f.comp.readable = false) : importFile ι v parent s f = s := by
  simp [importFile, fileUpdates, processFile_unreadable v parent s.reg f h, annotate, Rib.Rib.applyAll]

/-- **A file that fails changes nothing beyond what it had already delivered — and keeps that.** A dump
    whose reader panics at record `bad` (anything but a non-empty unicast RIB record: a multicast/generic
    subtype, an empty RIB record, any BGP4MP record, an unsupported type, a second peer index table) after
    the well-formed records `ribs`: the register and the RIB are exactly those after the well-formed
    file `peer index :: ribs` — the entries before `bad` stay (no rollback), no record after it (RIB or
    BGP4MP) is applied —, and the file's status is `panic`. -/
theorem PipeMrt_dump_cut (ι : PfxInterp) (v : Variant) (hv : v.dumpreg = .asWritten) (parent : Nat) (s : State)
    (c : Mrt.Comp) (hc : c.readable = true) (ps : List Mrt.Peer) (ribs : List (Bool × Nat × List (Nat × Nat)))
    (h : Mrt.wellFormedRibs ps.length ribs = true) (bad : Mrt.Rec) (hb : stopsDump bad = true) (rest : List Mrt.Rec) :
    importFile ι v parent s ⟨c, .peerIndex ps :: (ribs.map Mrt.ribRec ++ bad :: rest)⟩
      = importFile ι v parent s ⟨c, .peerIndex ps :: ribs.map Mrt.ribRec⟩
    ∧ fileStatus v parent s ⟨c, .peerIndex ps :: (ribs.map Mrt.ribRec ++ bad :: rest)⟩ = .panic := by
  have hgood := Mrt.C16_dump v.mrt parent s.reg c hc ps ribs h
  simp only at hgood
  obtain ⟨h1, h2, h3⟩ := Mrt.registerAll_spec s.reg parent ps
  have hcut : Mrt.processFile v.mrt parent s.reg ⟨c, .peerIndex ps :: (ribs.map Mrt.ribRec ++ bad :: rest)⟩
      = ⟨(Mrt.registerAll s.reg parent ps).1, Mrt.dumpSpec s.reg.next ribs, .panic⟩ := by
    simp only [Mrt.processFile, hc, Bool.not_true, Bool.false_eq_true, if_false]
    rw [show Mrt.registerAll s.reg parent ps = ((Mrt.registerAll s.reg parent ps).1, (Mrt.registerAll s.reg parent ps).2) from rfl, h1]
    simp only [dumpLoop_cut s.reg.next ps.length ribs bad rest h hb]
  have hreg : (Mrt.processFile v.mrt parent s.reg ⟨c, .peerIndex ps :: ribs.map Mrt.ribRec⟩).reg = (Mrt.registerAll s.reg parent ps).1 := by
    cases hr : (Mrt.registerAll s.reg parent ps).1
    rw [hr] at h2 h3
    cases hq : (Mrt.processFile v.mrt parent s.reg ⟨c, .peerIndex ps :: ribs.map Mrt.ribRec⟩).reg
    rw [hq] at hgood
    simp_all
  constructor
  · simp only [importFile, fileUpdates, processFile_asWritten v hv, hcut, hreg, hgood.1, dumpSpec_eq_flat, annotate_singles]
  · simp only [fileStatus, processFile_asWritten v hv, hcut]

-- the dump of the corpus case: two entries delivered, then a multicast subtype; the third entry and the file's BGP4MP record never arrive
example : let f : Mrt.File := ⟨.plain, [.peerIndex [peerA, peerB], .rib false 0 [(0, 1)], .rib false 1 [(1, 2)], .ribOther, .rib false 2 [(0, 3)], .msg peerA (.update false [4] [] 1)]⟩
    fileStatus tree 1 st0 f = .panic ∧ (importFile ιNum tree 1 st0 f).rib.query (ιNum false 1) = [⟨3, .active, 2⟩]
      ∧ (importFile ιNum tree 1 st0 f).rib.query (ιNum false 2) = [] ∧ (importFile ιNum tree 1 st0 f).rib.query (ιNum false 4) = [] := by decide

end Rotonda.PipeMrt
