import RotondaModel.Model.Mrt
import RotondaModel.Generated.MrtDispatch
/-!
# Extraction tie: mrt-file-in's record type / subtype dispatch

`Generated/MrtDispatch.lean` is regenerated on every run (`tools/extract_mrtdispatch.py`) from the source text of
`src/units/mrt_file_in/unit.rs` (`process_file`) and of the dependency routecore's `src/mrt.rs`
(`UpdateIterator::next`, `RibEntryIterator::next`, the subtype numbers).  `Model/Mrt.lean` (C16) abstracts an MRT
record to one of seven classes; this file fixes, by subtype number, which class each record belongs to
(`dumpClass`, `msgClass`: the classification the model's header documents) and proves that the model treats each
class the way the extracted tables say: imported with which family, handled by which handler, `todo!()` (a panic),
or skipped.
-/
namespace Rotonda.Mrt
open Rotonda.Generated

/-- A TABLE_DUMP_V2 record met by the dump loop, by subtype number (model header: RIB_IPV4/6_UNICAST yield entries,
    every other subtype is `ribOther`). -/
inductive DumpClass | rib (v6 : Bool) | other
  deriving DecidableEq, Repr

def dumpClass (n : Nat) : DumpClass := if n = 2 then .rib false else if n = 4 then .rib true else .other

/-- A BGP4MP record met by the message loop, by subtype number (model header: 1, 4 = `msg`; 0, 5 = `stateChange`;
    6, 7 and unknown = `localMsg`). -/
inductive MsgClass | msg | stateChange | localMsg
  deriving DecidableEq, Repr

def msgClass (n : Nat) : MsgClass :=
  if n = 1 ∨ n = 4 then .msg else if n = 0 ∨ n = 5 then .stateChange else .localMsg

def famName (v6 : Bool) : String := match v6 with | false => "Ipv4Unicast" | true => "Ipv6Unicast"

def lookupName {α} (k : String) : List (String × α) → Option α
  | [] => none
  | e :: l => if e.1 = k then some e.2 else lookupName k l

/-- **TABLE_DUMP_V2 subtypes.** Exactly the subtypes routecore turns into entries are the model's `rib` records, with
    the family routecore gives them; every other subtype in routecore's table is `todo!()` there and `ribOther` here. -/
theorem tableDump_class_eq_generated : ∀ e ∈ MrtDispatch.tableDumpSubtypes,
    e.2.2 = (match dumpClass e.1 with | .rib v6 => some (famName v6) | .other => none) := by decide

/-- Every family routecore's dump iterator can yield is one `process_file` imports (its skip arm is dead code for
    routecore's iterator), so a `rib` record's entries all leave as `Update::Single`, as in `dumpEntries`. -/
theorem dump_families_imported : ∀ e ∈ MrtDispatch.tableDumpSubtypes, ∀ f, e.2.2 = some f → f ∈ MrtDispatch.dumpImported := by
  decide

theorem dump_imported_eq_model : MrtDispatch.dumpImported = [famName false, famName true] := by decide

/-- A `todo!()` subtype in the dump part is a panic of the model, whatever follows; nothing of that record is sent. -/
theorem dumpLoop_todo_panics (map : List Nat) (rest : List Rec) : dumpLoop map (.ribOther :: rest) = ([], true) := rfl

/-- An imported entry leaves as `Update::Single` tagged with the id of its peer index entry. -/
theorem dumpLoop_imports (map : List Nat) (v6 : Bool) (pfx idx a id : Nat) (h : map[idx]? = some id) :
    dumpLoop map [.rib v6 pfx [(idx, a)]] = ([.single v6 pfx id a], false) := by
  simp [dumpLoop, dumpEntries, h]

/-- **BGP4MP subtypes.** The subtypes routecore parses are the model's `msg` / `stateChange` records and
    `process_file` gives them to the handler of that kind; the subtypes that are `todo!()` in routecore — and any
    unknown subtype — are the model's `localMsg`. -/
def msgRowOk (e : Nat × String × MrtDispatch.SubAct) : Bool :=
  match msgClass e.1 with
  | .msg => e.2.2 == .parsed && lookupName e.2.1 MrtDispatch.bgp4mpHandler == some .message
  | .stateChange => e.2.2 == .parsed && lookupName e.2.1 MrtDispatch.bgp4mpHandler == some .stateChange
  | .localMsg => e.2.2 == .todo && lookupName e.2.1 MrtDispatch.bgp4mpHandler == none

theorem bgp4mp_class_eq_generated : ∀ e ∈ MrtDispatch.bgp4mpSubtypes, msgRowOk e = true := by decide

theorem bgp4mp_unknown_eq_generated : MrtDispatch.bgp4mpUnknownSubtype = .todo
    ∧ ∀ n, (∀ e ∈ MrtDispatch.bgp4mpSubtypes, e.1 ≠ n) → msgClass n = .localMsg := by
  refine ⟨rfl, ?_⟩
  intro n h
  simp only [MrtDispatch.bgp4mpSubtypes, List.mem_cons, List.not_mem_nil, or_false, forall_eq_or_imp, forall_eq] at h
  simp only [msgClass]
  have h0 : n ≠ 0 := fun e => h.1 e.symm
  have h1 : n ≠ 1 := fun e => h.2.1 e.symm
  have h4 : n ≠ 4 := fun e => h.2.2.1 e.symm
  have h5 : n ≠ 5 := fun e => h.2.2.2.1 e.symm
  simp [h0, h1, h4, h5]

/-- A `todo!()` subtype in the messages part is a panic of the model; what came before stays sent. -/
theorem msgLoop_todo_panics (v : Variant) (parent : Nat) (reg : Reg) (rest : List Rec) :
    msgLoop v parent reg (.localMsg :: rest) = ⟨reg, [], .panic⟩ := rfl

/-- MRT types other than `messageMrtTypes` (the TABLE_DUMP_V2 records of a mixed file) are skipped by the message loop. -/
theorem msgLoop_skips_table_dump (v : Variant) (parent : Nat) (reg : Reg) (rest : List Rec) :
    MrtDispatch.messageMrtTypes = ["Bgp4Mp", "Bgp4MpEt"]
    ∧ (∀ ps, msgLoop v parent reg (.peerIndex ps :: rest) = msgLoop v parent reg rest)
    ∧ (∀ v6 pfx es, msgLoop v parent reg (.rib v6 pfx es :: rest) = msgLoop v parent reg rest)
    ∧ msgLoop v parent reg (.ribOther :: rest) = msgLoop v parent reg rest :=
  ⟨rfl, fun _ => rfl, fun _ _ _ => rfl, rfl⟩

/-- The handlers: a `message` record of an UPDATE leaves as one `Update::Bulk`, a `stateChange` record at most as a withdrawal. -/
theorem msgLoop_handlers (v : Variant) (parent : Nat) (reg : Reg) (p : Peer) (v6 : Bool) (ann wd : List Nat) (a old new : Nat) :
    (∃ id, (msgLoop v parent reg [.msg p (.update v6 ann wd a)]).out = [.bulk id v6 ann (keptWd v ann wd)])
    ∧ (∀ u ∈ (msgLoop v parent reg [.stateChange p old new]).out, ∃ id, u = .withdraw id) := by
  constructor
  · simp only [msgLoop]
    cases reg.find (some parent) p <;> exact ⟨_, rfl⟩
  · simp only [msgLoop, List.append_nil]
    intro u hu
    split at hu
    · split at hu
      · exact ⟨_, List.mem_singleton.mp hu⟩
      · cases hu
    all_goals (try cases hu)

def compOfGen : MrtDispatch.Comp → Comp
  | .gzip => .gzip | .bzip2 => .bzip2 | .plain => .plain

/-- The decoders `process_file` chooses by extension are the model's three readable encodings. -/
theorem comp_eq_generated : MrtDispatch.compOfExt = [("bz2", .bzip2), ("gz", .gzip)] ∧ MrtDispatch.compDefault = .plain
    ∧ ∀ c, (compOfGen c).readable = true := by
  refine ⟨rfl, rfl, ?_⟩
  intro c; cases c <;> rfl

/-- The dump part runs only for a file whose first record is a peer index table (`if let Ok(pi) = mrt_file.pi()`). -/
theorem dump_only_after_peer_index (v : Variant) (parent : Nat) (reg : Reg) (f : File)
    (hr : f.comp.readable = true) (h : ∀ ps rest, f.recs ≠ .peerIndex ps :: rest) :
    processFile v parent reg f = msgLoop v parent reg f.recs := by
  unfold processFile
  simp only [hr, Bool.not_true, Bool.false_eq_true, if_false]

end Rotonda.Mrt
