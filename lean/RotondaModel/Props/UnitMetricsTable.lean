import RotondaModel.Props.UnitMetrics
import RotondaModel.Generated.UnitMetrics
/-!
# UnitMetrics — every metric family of the library (table extracted from the source text)

* `table_all_understood`, `table_consistent`   no two `Metric::new` constants of the library write one family name with
                                               conflicting TYPE or HELP
* `model_constants_in_table`, `model_shapes_in_source`   the model's metric constants and the order of its `append`
                                               calls are the ones in the source text
* `assemble_consistent_meta`                   whatever sources a process assembles, its header lines never conflict
-/
namespace Rotonda.UnitMetrics

open Rotonda.ConnMetrics (Str Metric Call Rec PType MUnit Line linesOf callLines recLine fullName)

/-! ## every metric family of the library (extracted table `Generated/UnitMetrics.lean`) -/

open Rotonda.Generated.UnitMetrics (Entry table tokioAppends)

/-- Every entry of the extracted table is understood (no unknown `MetricType` / `MetricUnit`). -/
theorem table_all_understood : tableMetrics.length = table.length := by decide +kernel

/-- Two metrics that write the same family name agree on `# TYPE` and `# HELP`. -/
def consistentB (ms : List Metric) : Bool :=
  ms.all fun a => ms.all fun b => fullName a none != fullName b none || (a.mtype == b.mtype && a.help == b.help)

/-- **No two metric constants of the library write one family name with conflicting TYPE or HELP** (checked on the
    table extracted from the source text on every run: a new `Metric::new` that reuses a name with another type
    breaks this proof). -/
theorem table_consistent : consistentB tableMetrics = true := by decide +kernel

/-- The metric constants of the model are the ones in the source (name, help text, type, unit). -/
theorem model_constants_in_table :
    [mEstablished, mLost, mConnErr, mPublish, mPubErr, mInflight, mGateUpdates, mGateDropped, mGateSetSize,
      mGateWhen, mGateAgo, mFiltered, mAssemble].all (fun m => tableMetrics.contains m) = true := by decide +kernel

/-- The order in which the three sources hand their constants to `Target` (extracted) is the order of the model's
    `mqttCalls` / `filterCalls` / `gateCalls`. -/
theorem model_shapes_in_source :
    Rotonda.Generated.UnitMetrics.mqttAppends.map String.toList =
      ["CONNECTION_ESTABLISHED_METRIC".toList, "CONNECTION_LOST_COUNT_METRIC".toList, "CONNECTION_ERROR_COUNT_METRIC".toList,
        "IN_FLIGHT_COUNT_PER_TOPIC_METRIC".toList, "PUBLISH_ERROR_COUNT_PER_TOPIC_METRIC".toList,
        "PUBLISH_COUNT_PER_TOPIC_METRIC".toList] ∧
    Rotonda.Generated.UnitMetrics.filterAppends.length = 2 ∧
    Rotonda.Generated.UnitMetrics.filterNested.map String.toList = ["gate".toList] ∧
    Rotonda.Generated.UnitMetrics.gateAppends.map String.toList =
      ["NUM_UPDATES_METRIC".toList, "NUM_DROPPED_UPDATES_METRIC".toList, "UPDATE_WHEN_METRIC".toList,
        "UPDATE_AGO_METRIC".toList, "UPDATE_SET_SIZE_METRIC".toList, "UPDATE_WHEN_METRIC".toList,
        "UPDATE_AGO_METRIC".toList] := by decide +kernel

/-- The header lines of an exposition never contradict each other. -/
def ConsistentMeta (ls : List Line) : Prop :=
  (∀ n t1 t2, Line.type n t1 ∈ ls → Line.type n t2 ∈ ls → t1 = t2) ∧
  (∀ n d1 d2, Line.help n d1 ∈ ls → Line.help n d2 ∈ ls → d1 = d2)

theorem meta_of_calls {cs : List Call} {l : Line} (h : l ∈ linesOf cs) :
    (∀ n t, l = .type n t → ∃ c ∈ cs, n = fullName c.metric none ∧ t = c.metric.mtype) ∧
    (∀ n d, l = .help n d → ∃ c ∈ cs, n = fullName c.metric none ∧ d = c.metric.help) := by
  simp only [linesOf, List.mem_flatMap] at h
  obtain ⟨c, hc, hl⟩ := h
  unfold callLines at hl
  constructor
  · intro n t e
    subst e
    cases hm : c.metric.mtype <;> simp [hm] at hl <;>
      (rcases hl with ⟨a, b⟩ | ⟨r, _, hr⟩
       · exact ⟨c, hc, a, by rw [hm]; exact b⟩
       · simp [recLine] at hr)
  · intro n d e
    subst e
    cases hm : c.metric.mtype <;> simp [hm] at hl <;>
      (rcases hl with ⟨a, b⟩ | ⟨r, _, hr⟩
       · exact ⟨c, hc, a, b⟩
       · simp [recLine] at hr)

/-- **Whatever set of sources a process assembles, in whatever state and order**: if their metrics are constants of
    the library, no family name is announced with two different TYPEs or HELP texts (code as written: the lines may
    *repeat* — the listed finding — but never conflict). -/
theorem assemble_consistent_meta (cs : List Call) (h : ∀ c ∈ cs, c.metric ∈ tableMetrics) :
    ConsistentMeta (linesOf cs) := by
  have key : ∀ a ∈ tableMetrics, ∀ b ∈ tableMetrics, fullName a none = fullName b none →
      a.mtype = b.mtype ∧ a.help = b.help := by
    intro a ha b hb e
    have := table_consistent
    simp only [consistentB, List.all_eq_true] at this
    have := this a ha b hb
    simp only [e, bne_self_eq_false, Bool.false_or, Bool.and_eq_true, beq_iff_eq] at this
    exact this
  constructor
  · intro n t1 t2 h1 h2
    obtain ⟨c1, hc1, e1, f1⟩ := (meta_of_calls h1).1 n t1 rfl
    obtain ⟨c2, hc2, e2, f2⟩ := (meta_of_calls h2).1 n t2 rfl
    rw [f1, f2]
    exact (key _ (h c1 hc1) _ (h c2 hc2) (e1 ▸ e2)).1
  · intro n d1 d2 h1 h2
    obtain ⟨c1, hc1, e1, f1⟩ := (meta_of_calls h1).2 n d1 rfl
    obtain ⟨c2, hc2, e2, f2⟩ := (meta_of_calls h2).2 n d2 rfl
    rw [f1, f2]
    exact (key _ (h c1 hc1) _ (h c2 hc2) (e1 ▸ e2)).2

example : ∀ c ∈ mqttCalls ['u'] MqttRec.zero, c.metric ∈ tableMetrics := by decide +kernel

/-! ## the tokio task metrics (`src/tokio.rs`) -/

def lowerStr (s : String) : List Char := s.toList.map Char.toLower

/-- The `append_simple` calls of `TokioTaskMetrics::append` whose constant is fed a field of another name. -/
def misfed : List (String × String) := tokioAppends.filter (fun p => lowerStr p.1 != p.2.toList)

/-- **Every task metric is fed the field it is named after — except, at most, the two listed ones**
    (`task_total_scheduled_duration` is fed `total_scheduled_count`, `task_total_slow_poll_duration` is fed
    `total_idled_count`; dormant: no task is ever instrumented, every task metric is 0 in every deployment). A new
    mis-fed constant breaks this proof; a repaired `append` keeps it. -/
theorem tokio_fields :
    misfed.all (fun p => p.1.toList == "TOTAL_SCHEDULED_DURATION".toList || p.1.toList == "TOTAL_SLOW_POLL_DURATION".toList)
      = true := by decide +kernel

/-- Every constant `TokioTaskMetrics::append` names is in the table, and the calls are well-formed. -/
theorem tokio_calls_wf (unit : Str) : (tokioCalls unit).all Call.wf = true ∧ (tokioCalls unit).length = tokioAppends.length := by
  have h : tokioMetrics.all Metric.ok = true ∧ tokioMetrics.length = tokioAppends.length := by decide +kernel
  refine ⟨?_, by simp [tokioCalls, h.2]⟩
  simp only [tokioCalls, List.all_map, List.all_eq_true]
  intro m hm
  exact simple_wf m unit _ (List.all_eq_true.mp h.1 m hm) (by decide)

end Rotonda.UnitMetrics
