import RotondaModel.Proofs.BmpIo
/-!
# C06 — no bytes from a peer can panic or wedge a BMP receiver

Statements only. Model: `Model/BmpIo.lean` (`bmp_read`, `BmpStream::next`, the read loop of
`read_from_router`); table and constants: `Generated/BmpIo.lean` (extracted from io.rs each run).
Every theorem quantifies over *all* reader scripts (bytes, I/O faults of any kind at any
position, gate termination), all parsers `valid`, all message handlers `h`.

`asWritten` is io.rs at the pinned commit (no check between `let len = …` and
`msg_buf.resize(len, 0u8)`); `repaired` rejects `len < 6` with `InvalidData` there;
`sourceVariant` is whatever guard the extractor found in the current source text.
-/
namespace Rotonda.BmpIo

/-! ## Clause 1: never panics -/

/-- The clause at full strength for a variant of the code: whatever the reader script, one
    `bmp_read` never panics — given a parser (`routecore`, outside the model) that does not panic
    itself. That assumption is the explicit hypothesis `∀ bs, valid bs ≠ .crash`. -/
def C06_no_panic_full (v : Variant) : Prop :=
  ∀ (valid : List Nat → Verdict), (∀ bs, valid bs ≠ .crash) → ∀ (s : Src), (readFrame v valid s).1.isPanic = false

/-- Holds for every variant whose length guard covers the slice start (5): in particular the
    proposed repair, and the current source as soon as the extractor sees such a guard. -/
theorem C06_no_panic_guarded (v : Variant) (hv : sliceStart ≤ v.minLen) : C06_no_panic_full v :=
  fun valid hp s => readFrame_no_panic v hv valid hp s

theorem C06_no_panic_repaired : C06_no_panic_full repaired :=
  C06_no_panic_guarded repaired (by decide)

/-- About the code that exists *now*: if the extracted guard covers the slice start, the current
    `bmp_read` never panics. (On the pinned tree `srcMinLen = 0`, so the hypothesis is false and
    the counterexample below applies instead.) -/
theorem C06_no_panic_source (h : sliceStart ≤ srcMinLen) : C06_no_panic_full sourceVariant :=
  C06_no_panic_guarded sourceVariant h

/-- The code as written violates the clause: the 5 bytes `03 00 00 00 00` (version 3, declared
    length 0) make `resize(0)` shrink the buffer and `&mut msg_buf[5..]` panic. -/
theorem C06_no_panic_counterexample : ¬ C06_no_panic_full asWritten := by
  intro h
  exact absurd (h (fun _ => .accept) (by intro bs; decide) [.byte 3, .byte 0, .byte 0, .byte 0, .byte 0]) (by decide)

/-- What does hold as written, with the excluded inputs named exactly: `bmp_read` panics at the
    slice **iff** all five header bytes arrived and the declared length is below 5. -/
theorem C06_no_panic_partial (valid : List Nat → Verdict) (s : Src) :
    (readFrame asWritten valid s).1 = .panic .slice ↔
      ∃ hdr s1, readExact hdrSize s [] = (.ok hdr, s1) ∧ declaredLen hdr < sliceStart :=
  readFrame_asWritten_panic_iff valid s

/-- Session level: with the guard, no script makes the read loop record a panic or unwind —
    given a parser and a message handler (state machine, filter, gate) that do not panic
    themselves; both assumptions are explicit hypotheses, and the engine's panic oracle watches
    the real ones. -/
theorem C06_session_no_panic {σ Out : Type} (v : Variant) (hv : sliceStart ≤ v.minLen)
    (h : Handler σ Out) (hh : ∀ st i bs, (h.step st i bs).2.2 ≠ .crash)
    (valid : Nat → List Nat → Verdict) (hp : ∀ i bs, valid i bs ≠ .crash)
    (s : Src) (st : σ) :
    (runLoop v h valid s st).evs.any Ev.isPanic = false ∧ (runLoop v h valid s st).fin ≠ .panicked :=
  loop_no_panic v hv h hh valid hp _ s st 0

/-- …and as written a session does unwind on the witness (nothing after the loop runs: C07). -/
theorem C06_session_panic_counterexample :
    (runLoop asWritten trivialHandler (fun _ _ => .accept)
      [.byte 3, .byte 0, .byte 0, .byte 0, .byte 0] ()).fin = .panicked := by decide

/-! ## Clause 2: never stops making progress -/

/-- Every `bmp_read` that returns at all (i.e. is not left waiting on a silent, open connection)
    consumes at least one scripted item of a non-empty script, and on the empty script (peer
    closed) it returns `UnexpectedEof`. -/
theorem C06_frame_progress (v : Variant) (valid : List Nat → Verdict) (s : Src) :
    (s ≠ [] → (readFrame v valid s).1 ≠ .pending → (readFrame v valid s).2.length < s.length) ∧
    (s = [] → readFrame v valid s = (.ioErr .unexpectedEof, [])) :=
  ⟨readFrame_progress v valid s, fun h => h ▸ readFrame_nil v valid⟩

/-- The read loop ends on every finite script, for every variant, parser and handler: with
    `length + 1` iterations of fuel it never runs out (so the number of iterations is bounded by
    the number of scripted items + 1, and the loop is left through one of its real exits or is
    waiting for bytes on a connection the script leaves open and silent — never spinning).
    The extracted `is_fatal` table enters only through `isFatal .unexpectedEof = true`; if the
    source ever makes end-of-input non-fatal this obligation breaks (and the real loop would spin). -/
theorem C06_progress {σ Out : Type} (v : Variant) (h : Handler σ Out)
    (valid : Nat → List Nat → Verdict) (s : Src) (st : σ) :
    (runLoop v h valid s st).fin ≠ .fuel :=
  loop_fuel v h valid (by decide) _ s st 0 (Nat.lt_succ_self _)

/-- More fuel changes nothing: the bound `length + 1` is not an artefact of the chosen fuel. -/
theorem C06_progress_any_fuel {σ Out : Type} (v : Variant) (h : Handler σ Out)
    (valid : Nat → List Nat → Verdict) (s : Src) (st : σ) (fuel : Nat) (hf : s.length < fuel) :
    (loop v h valid fuel s st 0).fin ≠ .fuel :=
  loop_fuel v h valid (by decide) fuel s st 0 hf

/-- The loop never reads beyond what was scripted. -/
theorem C06_rest_le {σ Out : Type} (v : Variant) (h : Handler σ Out)
    (valid : Nat → List Nat → Verdict) (s : Src) (st : σ) :
    (runLoop v h valid s st).rest.length ≤ s.length :=
  loop_rest_le v h valid _ s st 0

/-! ## Clause 3: malformed input is contained -/

/-- A complete frame (declared length ≥ 5 and ≥ the guard, no fault inside) is consumed exactly,
    whatever the parser says: a frame rejected by the parser costs exactly its own bytes, the next
    `bmp_read` starts at the next frame boundary. -/
theorem C06_framing_in_sync (v : Variant) (valid : List Nat → Verdict) (hdr body : List Nat) (rest : Src)
    (hh : hdr.length = hdrSize) (hlen : declaredLen hdr = sliceStart + body.length)
    (hmin : v.minLen ≤ declaredLen hdr) :
    readFrame v valid ((hdr ++ body).map Item.byte ++ rest) =
      (match valid (hdr ++ body) with
        | .accept => .frame (hdr ++ body) | .reject => .parseErr | .crash => .panic .parser, rest) :=
  readFrame_exact v valid hdr body rest hh hlen hmin

/-- A frame the parser rejects changes no session state: the loop either ends this session
    (if the extracted table calls the mapped kind fatal) or continues on the remaining script with
    the *same* handler state. -/
theorem C06_contained {σ Out : Type} (v : Variant) (h : Handler σ Out)
    (valid : Nat → List Nat → Verdict) (fuel : Nat) (s s' : Src) (st : σ) (i : Nat)
    (hrf : readFrame v (valid i) s = (.parseErr, s')) :
    let r := loop v h valid (fuel + 1) s st i
    (isFatal parseErrKind = true → r.evs.length = 1 ∧ r.st = st ∧ r.fin = .fatal parseErrKind) ∧
    (isFatal parseErrKind = false →
      r.st = (loop v h valid fuel s' st (i + 1)).st ∧
      r.evs.length = (loop v h valid fuel s' st (i + 1)).evs.length + 1) := by
  intro r
  have hr : r = loop v h valid (fuel + 1) s st i := rfl
  unfold loop at hr
  rw [hrf] at hr
  simp only at hr
  constructor
  · intro hf
    rw [hf] at hr
    simp only at hr
    rw [hr]
    simp
  · intro hf
    rw [hf] at hr
    simp only at hr
    rw [hr]
    simp

/-! ## Non-vacuity -/

/-- A well-formed 6-byte frame followed by a fault and more bytes: guards of the theorems above
    are satisfiable, and the loop really processes it. -/
example :
    let s : Src := [.byte 3, .byte 0, .byte 0, .byte 0, .byte 6, .byte 4, .fault .interrupted, .byte 3]
    (runLoop repaired trivialHandler (fun _ _ => .accept) s ()).fin = .fatal .unexpectedEof ∧
    countMsgs (runLoop repaired trivialHandler (fun _ _ => .accept) s ()).evs = 1 ∧
    countIoErrs (runLoop repaired trivialHandler (fun _ _ => .accept) s ()).evs = 2 := by decide

/-- The guard of `C06_no_panic_partial` excludes something real (the witness) and admits
    something real (declared length 5: accepted by the framing, left to the parser). -/
example : (readFrame asWritten (fun _ => .reject) [.byte 3, .byte 0, .byte 0, .byte 0, .byte 5]).1 = .parseErr := by decide
example : (readFrame asWritten (fun _ => .reject) [.byte 3, .byte 0, .byte 0, .byte 0, .byte 4]).1 = .panic .slice := by decide
example : (readFrame repaired (fun _ => .reject) [.byte 3, .byte 0, .byte 0, .byte 0, .byte 4]).1 = .ioErr .invalidData := by decide
/-- The parser hypothesis of the no-panic theorems is not idle: a parser that panics makes the
    (repaired) framing panic too — which is what the real routecore does in an overflow-checked
    build for one malformed Peer Up (see notes/C06.md). -/
example : (readFrame repaired (fun _ => .crash) [.byte 3, .byte 0, .byte 0, .byte 0, .byte 6, .byte 3]).1 = .panic .parser := by decide
/-- …and so is the handler hypothesis: a handler that panics on its second message unwinds the
    session there (what the real state machine does for one malformed Peer Up, see notes). -/
example : (runLoop repaired (crashingHandler (some 1)) (fun _ _ => .accept)
    [.byte 3, .byte 0, .byte 0, .byte 0, .byte 6, .byte 4, .byte 3, .byte 0, .byte 0, .byte 0, .byte 6, .byte 3] 0).fin = .panicked := by decide
/-- `C06_framing_in_sync`'s hypotheses are satisfiable. -/
example : [3, 0, 0, 0, 7].length = hdrSize ∧ declaredLen [3, 0, 0, 0, 7] = sliceStart + [4, 9].length ∧
    repaired.minLen ≤ declaredLen [3, 0, 0, 0, 7] := by decide

end Rotonda.BmpIo
