import RotondaModel.Proofs.RibQuery
/-!
# C11 — RIB HTTP answers match what is stored

For every RIB content, limits, ingress register and request (`Url` = parsed path prefix +
decoded query parameters), no bound on sizes. `handle` is the transliteration of
`PrefixesApi::handle_prefix_query` (`Model/RibQuery.lean`); `Spec.*` is the property's own
vocabulary (`Proofs/RibQuery.lean`).

The code as written violates five clauses; each has a variant flag, a guarded theorem (the
guard names exactly what is excluded), and a kernel-checked counterexample whose witness the
engine replays on the real code first:
`community` (community filters never match), `lesszero` (a stored default route is never among
the less-specifics), `mcast` (multicast entries hidden unless the unicast answer is empty),
`more` (the store's more-specifics set is wrong; as written the model takes the dependency's
answer as an input and the theorem assumes the contract `ObsContract`),
`lessstop` (the store's less-specifics walk ends at the first record-less prefix slot, which a
withdrawal of a never-announced prefix leaves behind; found through the history stream, builder U).
With all five repaired the guards are vacuous and the statements are the property at full
strength (`C11_full_repaired`).
-/
namespace Rotonda.RibQuery

/-- No record-less slot of either store strictly covers the queried prefix. -/
def NoEmptySlotAbove (rib : Rib) (q : Prefix) : Prop :=
  ∀ e, e ∈ rib.unicast.empty ∨ e ∈ rib.multicast.empty → strictlyCovers e q = false

theorem cutShort_false_of_none (s : Store) (q : Prefix) (r : Rec)
    (h : ∀ e, e ∈ s.empty → strictlyCovers e q = false) : s.cutShort q r = false := by
  simp only [Store.cutShort, List.any_eq_false, Bool.and_eq_true, decide_eq_true_eq, not_and]
  intro e he hc
  rw [h e he] at hc
  cases hc

/-- What each as-written variant excludes. All five disjunctions hold for `repaired`. -/
structure Guards (v : Variant) (rib : Rib) (req : Request) (obsU obsM : List Prefix) : Prop where
  community : v.community = true ∨ NoCommunityFilter req.filters
  mcast : v.mcast = true ∨ rib.multicast.recs = []
  lesszero : v.lesszero = true ∨ ∀ r ∈ rib.stored, r.pfx.len ≠ 0
  more : v.more = true ∨ (ObsContract rib.unicast req.q obsU ∧ ObsContract rib.multicast req.q obsM)
  lessstop : v.lessstop = true ∨ NoEmptySlotAbove rib req.q

theorem Guards.of_repaired (rib : Rib) (req : Request) (obsU obsM : List Prefix) :
    Guards repaired rib req obsU obsM :=
  ⟨Or.inl rfl, Or.inl rfl, Or.inl rfl, Or.inl rfl, Or.inl rfl⟩

/-- `data` = exactly the stored entries of the queried prefix that pass the filters. -/
theorem C11_data (v : Variant) (rib : Rib) (lim : Limits) (reg : Register) (url : Url)
    (obsU obsM : List Prefix) (req : Request)
    (hreq : parseRequest lim url = .ok req) (hfmt : req.format = .json)
    (g : Guards v rib req obsU obsM) (r : Rec) :
    r ∈ (handle v rib lim reg url obsU obsM).data ↔
      r ∈ rib.stored ∧ Spec.inData req.q r ∧ Spec.passes reg req.filters r := by
  have hs := Rib.matchPrefix_sections v rib req.q req.inc.less req.inc.more obsU obsM g.mcast
  rw [handle_json v rib lim reg url obsU obsM req hreq hfmt, mem_mkJson_data _ _ _ _ hs.pfx_none,
    hs.data, includeItem_iff v reg req.filters r g.community, Spec.inData, and_assoc]

/-- `lessSpecifics` exists iff requested and holds exactly the entries of stored prefixes that
strictly cover the queried one, narrowed by the filters. -/
theorem C11_less (v : Variant) (rib : Rib) (lim : Limits) (reg : Register) (url : Url)
    (obsU obsM : List Prefix) (req : Request)
    (hreq : parseRequest lim url = .ok req) (hfmt : req.format = .json)
    (g : Guards v rib req obsU obsM) :
    (handle v rib lim reg url obsU obsM).less.isSome = req.inc.less ∧
    ∀ r, r ∈ (handle v rib lim reg url obsU obsM).less.getD [] ↔
      req.inc.less = true ∧ r ∈ rib.stored ∧ Spec.inLess req.q r ∧ Spec.passes reg req.filters r := by
  have hs := Rib.matchPrefix_sections v rib req.q req.inc.less req.inc.more obsU obsM g.mcast
  rw [handle_json v rib lim reg url obsU obsM req hreq hfmt, mkJson_less]
  constructor
  · cases req.inc.less <;> simp
  · intro r
    have hz : ∀ r, r ∈ rib.stored → (v.lesszero = true ∨ r.pfx.len ≠ 0) :=
      fun r hr => g.lesszero.imp id (fun h => h r hr)
    cases hl : req.inc.less
    · simp
    · rw [hl] at hs
      simp only [if_true, Option.getD_some, List.mem_filter, hs.less,
        includeItem_iff v reg req.filters r g.community, Spec.inLess, true_and]
      have hstop : ∀ r, r ∈ rib.stored → (v.lessstop = true ∨
          ((r ∈ rib.unicast.items ∧ rib.unicast.cutShort req.q r = false) ∨
           (r ∈ rib.multicast.items ∧ rib.multicast.cutShort req.q r = false))) := by
        intro r hr
        rcases g.lessstop with h | h
        · exact Or.inl h
        · right
          rcases List.mem_append.1 hr with hu | hm
          · exact Or.inl ⟨hu, cutShort_false_of_none _ _ _ (fun e he => h e (Or.inl he))⟩
          · exact Or.inr ⟨hm, cutShort_false_of_none _ _ _ (fun e he => h e (Or.inr he))⟩
      constructor
      · rintro ⟨⟨hr, hc, _⟩, hp⟩; exact ⟨hr, hc, hp⟩
      · rintro ⟨hr, hc, hp⟩; exact ⟨⟨hr, hc, hz r hr, hstop r hr⟩, hp⟩

/-- `moreSpecifics` exists iff requested and holds exactly the entries of stored prefixes the
queried one strictly covers, narrowed by the filters. -/
theorem C11_more (v : Variant) (rib : Rib) (lim : Limits) (reg : Register) (url : Url)
    (obsU obsM : List Prefix) (req : Request)
    (hreq : parseRequest lim url = .ok req) (hfmt : req.format = .json)
    (g : Guards v rib req obsU obsM) :
    (handle v rib lim reg url obsU obsM).more.isSome = req.inc.more ∧
    ∀ r, r ∈ (handle v rib lim reg url obsU obsM).more.getD [] ↔
      req.inc.more = true ∧ r ∈ rib.stored ∧ Spec.inMore req.q r ∧ Spec.passes reg req.filters r := by
  have hs := Rib.matchPrefix_sections v rib req.q req.inc.less req.inc.more obsU obsM g.mcast
  rw [handle_json v rib lim reg url obsU obsM req hreq hfmt, mkJson_more]
  constructor
  · cases req.inc.more <;> simp
  · intro r
    cases hm : req.inc.more
    · simp
    · rw [hm] at hs
      simp only [if_true, Option.getD_some, List.mem_filter, hs.more,
        includeItem_iff v reg req.filters r g.community, Spec.inMore, true_and]
      cases hv : v.more
      · -- as observed: the dependency's answer, assumed to meet its contract
        obtain ⟨cu, cm⟩ := g.more.resolve_left (by simp [hv])
        simp only [Bool.false_eq_true, if_false]
        constructor
        · rintro ⟨⟨hr, ho⟩, hp⟩
          refine ⟨hr, ?_, hp⟩
          rcases ho with ⟨_, ho⟩ | ⟨_, ho⟩
          · exact ((cu r.pfx).1 ho).2
          · exact ((cm r.pfx).1 ho).2
        · rintro ⟨hr, hc, hp⟩
          refine ⟨⟨hr, ?_⟩, hp⟩
          rcases List.mem_append.1 hr with h | h
          · exact Or.inl ⟨h, (cu r.pfx).2 ⟨⟨r, h, rfl⟩, hc⟩⟩
          · exact Or.inr ⟨h, (cm r.pfx).2 ⟨⟨r, h, rfl⟩, hc⟩⟩
      · simp only [if_true]
        constructor
        · rintro ⟨⟨hr, hc⟩, hp⟩; exact ⟨hr, hc, hp⟩
        · rintro ⟨hr, hc, hp⟩; exact ⟨⟨hr, hc⟩, hp⟩

/-- An answer is sound and complete: a JSON answer whose three sections hold exactly the
stored entries in the right relation to the queried prefix that pass the filters. -/
def SoundComplete (resp : Resp) (rib : Rib) (reg : Register) (req : Request) : Prop :=
  resp.isJson = true ∧
  (∀ r, r ∈ resp.data ↔ r ∈ rib.stored ∧ Spec.inData req.q r ∧ Spec.passes reg req.filters r) ∧
  (resp.less.isSome = req.inc.less ∧ ∀ r, r ∈ resp.less.getD [] ↔
    req.inc.less = true ∧ r ∈ rib.stored ∧ Spec.inLess req.q r ∧ Spec.passes reg req.filters r) ∧
  (resp.more.isSome = req.inc.more ∧ ∀ r, r ∈ resp.more.getD [] ↔
    req.inc.more = true ∧ r ∈ rib.stored ∧ Spec.inMore req.q r ∧ Spec.passes reg req.filters r)

theorem C11_sound_complete (v : Variant) (rib : Rib) (lim : Limits) (reg : Register) (url : Url)
    (obsU obsM : List Prefix) (req : Request)
    (hreq : parseRequest lim url = .ok req) (hfmt : req.format = .json)
    (g : Guards v rib req obsU obsM) :
    SoundComplete (handle v rib lim reg url obsU obsM) rib reg req :=
  ⟨by rw [handle_json v rib lim reg url obsU obsM req hreq hfmt]; rfl,
   C11_data v rib lim reg url obsU obsM req hreq hfmt g,
   C11_less v rib lim reg url obsU obsM req hreq hfmt g,
   C11_more v rib lim reg url obsU obsM req hreq hfmt g⟩

/-- The property at full strength for one variant of the code, with a dependency that meets
its more-specifics contract. -/
def C11_full (v : Variant) : Prop :=
  ∀ (rib : Rib) (lim : Limits) (reg : Register) (url : Url) (req : Request),
    parseRequest lim url = .ok req → req.format = .json →
    SoundComplete
      (handle v rib lim reg url (contractObs rib.unicast req.q) (contractObs rib.multicast req.q))
      rib reg req

/-- With the four repairs the property holds for every RIB, register, limits and request. -/
theorem C11_full_repaired : C11_full repaired := fun rib lim reg url req hreq hfmt =>
  C11_sound_complete repaired rib lim reg url _ _ req hreq hfmt (Guards.of_repaired ..)

/-- Whatever the variant and without any guard: no answer contains an entry that is not stored. -/
theorem C11_no_unstored_entry (v : Variant) (rib : Rib) (lim : Limits) (reg : Register) (url : Url)
    (obsU obsM : List Prefix) (r : Rec)
    (h : r ∈ (handle v rib lim reg url obsU obsM).data ∨
         r ∈ (handle v rib lim reg url obsU obsM).less.getD [] ∨
         r ∈ (handle v rib lim reg url obsU obsM).more.getD []) :
    r ∈ rib.stored := by
  unfold handle at h
  cases hreq : parseRequest lim url with
  | error e => simp [hreq, Resp.data, Resp.less, Resp.more] at h
  | ok req =>
    simp only [hreq] at h
    cases hf : req.format with
    | dump => simp [hf, Resp.data, Resp.less, Resp.more] at h
    | other => simp [hf, Resp.data, Resp.less, Resp.more] at h
    | json =>
      simp only [hf] at h
      apply Rib.matchPrefix_stored v rib req.q req.inc.less req.inc.more obsU obsM r
      rcases h with h | h | h
      · left
        simp only [mkJson, Resp.data] at h
        split at h
        · exact (List.mem_filter.1 h).1
        · simp at h
      · right; left
        rw [mkJson_less] at h
        split at h
        · exact (List.mem_filter.1 (by simpa using h)).1
        · simp at h
      · right; right
        rw [mkJson_more] at h
        split at h
        · exact (List.mem_filter.1 (by simpa using h)).1
        · simp at h

/-- A more-specifics query for a prefix shorter than the configured limit is refused (400),
for every variant, RIB and whatever else the query string contains. -/
theorem C11_limit (v : Variant) (rib : Rib) (lim : Limits) (reg : Register) (url : Url)
    (obsU obsM : List Prefix) (q : Prefix)
    (hq : url.pfx = some q) (hm : requestsMore url.params = true) (hl : q.len < lim.shortest q) :
    ∃ k, handle v rib lim reg url obsU obsM = .badRequest k ∧ (k = .limit ∨ k = .badInclude) := by
  have herr : ∀ xs inc e, parseIncludeItems xs inc = .error e → e = .badInclude := by
    intro xs
    induction xs with
    | nil => intro inc e h; simp [parseIncludeItems] at h
    | cons x xs ih =>
      intro inc e h
      unfold parseIncludeItems at h
      split at h
      · exact ih _ _ h
      · split at h
        · exact ih _ _ h
        · cases h; rfl
  unfold requestsMore at hm
  unfold handle parseRequest parseInclude
  simp only [hq]
  generalize "include".toList = key at hm ⊢
  cases hf : firstIdx key url.params 0 with
  | none => simp [hf] at hm
  | some t =>
    obtain ⟨i, fam, val⟩ := t
    simp only [hf] at hm ⊢
    cases hp : parseIncludeItems (splitComma val) ⟨false, false⟩ with
    | error e =>
      have he : e = .badInclude := herr _ _ _ hp
      subst he
      exact ⟨.badInclude, rfl, Or.inr rfl⟩
    | ok inc =>
      have hmore : inc.more = true := parseIncludeItems_more _ _ _ hp (Or.inl hm)
      refine ⟨.limit, ?_, Or.inl rfl⟩
      simp [hmore, hl]

/-! ## Filter laws (the intent recorded in the retired `http/tests.rs`) -/

/-- No filters: everything is kept. -/
theorem C11_no_filters_all (v : Variant) (reg : Register) (all : Bool) (r : Rec) :
    includeItem v reg ⟨all, [], []⟩ r = true := by
  simp [includeItem]

/-- `any` (default): kept iff some select matches (or there is none) and no discard matches. -/
theorem C11_any_semantics (reg : Register) (sel dis : List FilterKind) (r : Rec) :
    includeItem repaired reg ⟨false, sel, dis⟩ r = true ↔
      (sel = [] ∨ ∃ k ∈ sel, Spec.matchesKind reg r k) ∧ ¬ ∃ k ∈ dis, Spec.matchesKind reg r k := by
  rw [includeItem_iff repaired reg _ r (Or.inl rfl)]
  simp only [Spec.passes, Bool.false_eq_true, if_false]
  constructor
  · rintro ⟨hs, hd⟩
    refine ⟨hs, ?_⟩
    rcases hd with hd | hd
    · subst hd; simp
    · exact hd
  · rintro ⟨hs, hd⟩; exact ⟨hs, Or.inr hd⟩

/-- `all`: kept iff every select matches and not every discard matches (or there is none). -/
theorem C11_all_semantics (reg : Register) (sel dis : List FilterKind) (r : Rec) :
    includeItem repaired reg ⟨true, sel, dis⟩ r = true ↔
      (∀ k ∈ sel, Spec.matchesKind reg r k) ∧ (dis = [] ∨ ¬ ∀ k ∈ dis, Spec.matchesKind reg r k) := by
  rw [includeItem_iff repaired reg _ r (Or.inl rfl)]
  simp only [Spec.passes, if_true]
  constructor
  · rintro ⟨hs, hd⟩
    refine ⟨?_, hd⟩
    rcases hs with hs | hs
    · subst hs; simp
    · exact hs
  · rintro ⟨hs, hd⟩; exact ⟨Or.inr hs, hd⟩

/-- Discard overrides select (`any`): a matching discard removes the entry whatever is selected. -/
theorem C11_discard_overrides_select (reg : Register) (sel dis : List FilterKind) (r : Rec)
    (k : FilterKind) (hk : k ∈ dis) (hm : Spec.matchesKind reg r k) :
    includeItem repaired reg ⟨false, sel, dis⟩ r = false := by
  cases h : includeItem repaired reg ⟨false, sel, dis⟩ r with
  | false => rfl
  | true => exact absurd ⟨k, hk, hm⟩ ((C11_any_semantics reg sel dis r).1 h).2

/-- Discard overrides select (`all`): if every discard matches (and there is one) the entry is removed. -/
theorem C11_discard_all_overrides_select (reg : Register) (sel dis : List FilterKind) (r : Rec)
    (hne : dis ≠ []) (hm : ∀ k ∈ dis, Spec.matchesKind reg r k) :
    includeItem repaired reg ⟨true, sel, dis⟩ r = false := by
  cases h : includeItem repaired reg ⟨true, sel, dis⟩ r with
  | false => rfl
  | true => exact (((C11_all_semantics reg sel dis r).1 h).2.elim hne (fun h => h hm)).elim

/-- AS-path filters are equality on the hop list; a path with an AS_SET hop never matches. -/
theorem C11_as_path_equality (r : Rec) (want : List Nat) :
    matchAsPath r want = true ↔ r.attrs.asPath = some (want.map Hop.asn) :=
  matchAsPath_iff r want

/-! ## Counterexamples for the code as written (witnesses replayed by the engine) -/

section Witnesses

def pfx (len bits : Nat) : Prefix := ⟨.v4, len, bits⟩
def rec1 (p : Prefix) (mui id : Nat) (path : List Nat) (c : List Community) : Rec :=
  ⟨p, mui, .active, ⟨id, some (path.map Hop.asn), c⟩⟩
def lim0 : Limits := ⟨8, 19⟩
def urlOf (p : Prefix) (q : String) : Url := ⟨some p, parseQuery q.toList⟩

/-- `GET /prefixes/10.0.0.0/8?select[community]=1:2` on a RIB whose only route carries 1:2. -/
def wCommunityRib : Rib := ⟨⟨[rec1 (pfx 8 10) 1 1 [1, 2] [.std 1 2]], [], []⟩, ⟨[], [], []⟩⟩
def wCommunityUrl : Url := urlOf (pfx 8 10) "select[community]=1:2"

theorem C11_community_counterexample : ¬ C11_full { repaired with community := false } := by
  intro h
  have hreq : parseRequest lim0 wCommunityUrl
      = .ok ⟨pfx 8 10, ⟨false, false⟩, ⟨false, [.community (.std 1 2)], []⟩, .json⟩ := by rfl
  have := (h wCommunityRib lim0 [(1, some 65001)] wCommunityUrl _ hreq rfl).2.1
    (rec1 (pfx 8 10) 1 1 [1, 2] [.std 1 2])
  revert this
  decide

/-- `GET /prefixes/10.0.0.0/8?include=lessSpecifics` with a stored default route. -/
def wLessZeroRib : Rib :=
  ⟨⟨[rec1 (pfx 0 0) 1 1 [1] [], rec1 (pfx 8 10) 1 2 [1] []], [], []⟩, ⟨[], [], []⟩⟩
def wLessZeroUrl : Url := urlOf (pfx 8 10) "include=lessSpecifics"

theorem C11_lesszero_counterexample : ¬ C11_full { repaired with lesszero := false } := by
  intro h
  have hreq : parseRequest lim0 wLessZeroUrl
      = .ok ⟨pfx 8 10, ⟨true, false⟩, ⟨false, [], []⟩, .json⟩ := by rfl
  have := (h wLessZeroRib lim0 [] wLessZeroUrl _ hreq rfl).2.2.1.2 (rec1 (pfx 0 0) 1 1 [1] [])
  revert this
  decide

/-- `GET /prefixes/10.0.0.0/8` when the prefix is stored both unicast and multicast. -/
def wMcastRib : Rib :=
  ⟨⟨[rec1 (pfx 8 10) 1 1 [1] []], [], []⟩, ⟨[rec1 (pfx 8 10) 2 2 [2] []], [], []⟩⟩
def wMcastUrl : Url := urlOf (pfx 8 10) ""

theorem C11_mcast_counterexample : ¬ C11_full { repaired with mcast := false } := by
  intro h
  have hreq : parseRequest lim0 wMcastUrl
      = .ok ⟨pfx 8 10, ⟨false, false⟩, ⟨false, [], []⟩, .json⟩ := by rfl
  have := (h wMcastRib lim0 [] wMcastUrl _ hreq rfl).2.1 (rec1 (pfx 8 10) 2 2 [2] [])
  revert this
  decide

/-- `GET /prefixes/10.1.1.0/24?include=lessSpecifics`: 10.0.0.0/8 is stored, and 10.1.0.0/16 is a
record-less slot (a source withdrew 10.1.0.0/16 without ever having announced it). The store's
less-specifics walk (/23, /22, … towards /1) ends at the /16, so the /8 is never reported. -/
def wLessStopRib : Rib :=
  ⟨⟨[rec1 (pfx 8 10) 1 1 [1] []], [], [pfx 16 2561]⟩, ⟨[], [], []⟩⟩
def wLessStopUrl : Url := urlOf (pfx 24 655617) "include=lessSpecifics"

theorem C11_lessstop_counterexample : ¬ C11_full { repaired with lessstop := false } := by
  intro h
  have hreq : parseRequest lim0 wLessStopUrl
      = .ok ⟨pfx 24 655617, ⟨true, false⟩, ⟨false, [], []⟩, .json⟩ := by rfl
  have := (h wLessStopRib lim0 [] wLessStopUrl _ hreq rfl).2.2.1.2 (rec1 (pfx 8 10) 1 1 [1] [])
  revert this
  decide

/-- What rotonda-store 0.4.1 answers for the more-specifics of 151.7.0.0/17 when
151.7.0.0/17 and 151.7.128.0/18 are stored: `[151.7.128.0/18]`, a prefix the queried one does
not cover. The dependency's contract is violated, and the answer shows the wrong entry. -/
def wMoreStore : Store :=
  ⟨[rec1 (pfx 17 77326) 1 1 [1] [], rec1 (pfx 18 154655) 2 2 [2] []], [], []⟩
def wMoreObs : List Prefix := [pfx 18 154655]

theorem C11_more_contract_counterexample : ¬ ObsContract wMoreStore (pfx 17 77326) wMoreObs := by
  intro h
  have := (h (pfx 18 154655)).1 (by decide)
  revert this
  decide

theorem C11_more_counterexample :
    rec1 (pfx 18 154655) 2 2 [2] [] ∈
      ((handle asWritten ⟨wMoreStore, ⟨[], [], []⟩⟩ lim0 [] (urlOf (pfx 17 77326) "include=moreSpecifics")
        wMoreObs []).more.getD []) ∧
    ¬ Spec.inMore (pfx 17 77326) (rec1 (pfx 18 154655) 2 2 [2] []) := by
  decide

end Witnesses

/-! ## Non-vacuity -/

/-- The hypotheses of the theorems are satisfiable by a non-trivial request: nested prefixes,
both includes, a select and a discard; the repaired model returns the expected sections. -/
def exRib : Rib :=
  ⟨⟨[rec1 (pfx 0 0) 1 1 [1] [], rec1 (pfx 8 10) 1 2 [1, 2] [.std 1 2], rec1 (pfx 16 2561) 2 3 [3] [],
     rec1 (pfx 24 655617) 1 4 [1, 2] []], [2], []⟩,
   ⟨[rec1 (pfx 16 2561) 7 5 [1, 2] [.std 1 2]], [], []⟩⟩
def exUrl : Url :=
  urlOf (pfx 16 2561) "include=lessSpecifics,moreSpecifics&select[as_path]=1,2&discard[peer_as]=7"

example : ∃ req, parseRequest lim0 exUrl = .ok req ∧ req.format = .json ∧
    req.inc = ⟨true, true⟩ ∧ req.filters = ⟨false, [.asPath [1, 2]], [.peerAs 7]⟩ :=
  ⟨_, rfl, rfl, rfl, rfl⟩

example :
    (handle repaired exRib lim0 [(7, some 7)] exUrl [] []).data = [] ∧
    ((handle repaired exRib lim0 [(7, some 7)] exUrl [] []).less.getD []).map (·.attrs.id) = [2] ∧
    ((handle repaired exRib lim0 [(7, some 7)] exUrl [] []).more.getD []).map (·.attrs.id) = [4] ∧
    (handle repaired exRib lim0 [(1, some 7)] exUrl [] []).less = some [] := by
  decide

/-- The guards of the as-written variant are satisfiable by a non-trivial RIB and request
(no multicast, no default route, no community filter, a contract-abiding store answer, no
record-less slot) … -/
example : Guards asWritten ⟨wMoreStore, ⟨[], [], []⟩⟩
    ⟨pfx 17 77326, ⟨true, true⟩, ⟨false, [.asPath [1]], []⟩, .json⟩ [] [] :=
  ⟨Or.inr (by intro k hk; simp at hk; subst hk; rfl), Or.inr rfl,
   Or.inr (by decide),
   Or.inr ⟨by
     intro p
     simp only [List.not_mem_nil, false_iff]
     rintro ⟨⟨r, hr, rfl⟩, hne, hc⟩
     simp [wMoreStore, Store.items, Store.item] at hr
     rcases hr with rfl | rfl
     · exact hne rfl
     · revert hc; decide,
    by intro p; simp [Store.items]⟩,
   Or.inr (by intro e he; simp [wMoreStore] at he)⟩

/-- … and each guard excludes something real (see the four counterexamples above): e.g. the
limit clause refuses the /7 query of the witness RIB. -/
example : handle asWritten wCommunityRib lim0 [] (urlOf (pfx 7 5) "include=moreSpecifics") [] []
    = .badRequest .limit := by rfl

end Rotonda.RibQuery
