import RotondaModel.Proofs.RibConc
/-!
# C09 — concurrent sessions never lose, corrupt or stall each other's RIB updates

Model: `Model/RibConc.lean` (`asWritten` = rotonda @ pinned commit on rotonda-store 0.4.1,
`repaired` = `Rib::withdraw_for_ingress` under a mutex).  Writers own disjoint sets of
ingress ids (`Owned`), share prefixes, and are interleaved by an arbitrary schedule
(`sched : List Nat`, any length, any order, unfair ones included).
-/
namespace Rotonda.RibConc

/-- Every ingress id a writer's program mentions is owned by that writer. -/
def Owned (own : Mui → Nat) (v : Variant) (progs : List (List Op)) : Prop :=
  ∀ i prog, progs[i]? = some prog → ∀ μ ∈ compile v prog, ∀ m, microMui μ = some m → own m = i

def pcMicro : PC → List Micro
  | .idle => []
  | .loaded t m _ _ => [.mark t m]

/-- The invariant of every reachable state, both variants. -/
structure Inv (own : Mui → Nat) (v : Variant) (progs : List (List Op)) (s : Sys) : Prop where
  /-- ghost bookkeeping: completed ++ current ++ remaining = the compiled program -/
  prog_ok : ∀ i th, s.threads[i]? = some th →
    th.done.reverse ++ pcMicro th.pc ++ th.todo = compile v (progs.getD i [])
  own_ok : ∀ i th, s.threads[i]? = some th →
    ∀ μ, (μ ∈ th.done ∨ μ ∈ pcMicro th.pc ∨ μ ∈ th.todo) → ∀ m, microMui μ = some m → own m = i
  /-- the record of `(p, m)` is what `m`'s owner has written so far -/
  recs_ok : ∀ i th, s.threads[i]? = some th → ∀ p m, own m = i →
    lget s.recs (p, m) = entryOf th.done (p, m)
  /-- the marker set of tree `t` holds `m` iff `m`'s owner has completed `mark t m` -/
  marks_ok : ∀ i th, s.threads[i]? = some th → ∀ t m, own m = i →
    (m ∈ (treeGet s.trees t).2 ↔ Micro.mark t m ∈ th.done)
  /-- inside the CAS loop: the loaded pointer is not from the future, and as long as it is
      still current the bitmap to install is the current one plus `m` -/
  cas_ok : ∀ (i : Nat) (th : Thread), s.threads[i]? = some th → ∀ t m cur new, th.pc = PC.loaded t m cur new →
    cur ≤ (treeGet s.trees t).1 ∧ (cur = (treeGet s.trees t).1 → new = m :: (treeGet s.trees t).2)

theorem inv_init (own : Mui → Nat) (v : Variant) (progs : List (List Op)) (h : Owned own v progs) :
    Inv own v progs (init v progs) := by
  have hth : ∀ (i : Nat) (th : Thread), (init v progs).threads[i]? = some th →
      ∃ prog, progs[i]? = some prog ∧ th = (⟨compile v prog, .idle, [], 0⟩ : Thread) := by
    intro i th hi
    simp only [init, List.getElem?_map] at hi
    cases hp : progs[i]? with
    | none => simp [hp] at hi
    | some prog => simp [hp] at hi; exact ⟨prog, rfl, hi.symm⟩
  refine ⟨?_, ?_, ?_, ?_, ?_⟩
  · intro i th hi
    obtain ⟨prog, hp, rfl⟩ := hth i th hi
    simp [pcMicro, List.getD, hp]
  · intro i th hi μ hμ m hm
    obtain ⟨prog, hp, rfl⟩ := hth i th hi
    simp [pcMicro] at hμ
    exact h i prog hp μ hμ m hm
  · intro i th hi p m _
    obtain ⟨prog, hp, rfl⟩ := hth i th hi
    simp [init, entryOf]
  · intro i th hi t m _
    obtain ⟨prog, hp, rfl⟩ := hth i th hi
    simp [init, treeGet]
  · intro i th hi t m cur new hpc
    obtain ⟨prog, hp, rfl⟩ := hth i th hi
    cases hpc

/-- Two different writers never act on the same ingress id. -/
private theorem other_mui {own : Mui → Nat} {i j : Nat} {m m' : Mui} (hm : own m = i) (hm' : own m' = j)
    (hij : j ≠ i) : m' ≠ m := by
  intro e; subst e; exact hij (hm'.symm.trans hm)

theorem inv_step (own : Mui → Nat) (v : Variant) (progs : List (List Op)) (s : Sys) (j : Nat)
    (h : Inv own v progs s) : Inv own v progs (step s j) := by
  unfold step
  split
  · exact h
  · rename_i th hj
    have hprog := h.prog_ok j th hj
    have hown := h.own_ok j th hj
    split
    · -- inside the CAS loop
      rename_i t m cur new hpc
      have hcas := h.cas_ok j th hj t m cur new hpc
      have hmj : own m = j := hown (.mark t m) (by simp [hpc, pcMicro]) m rfl
      dsimp only
      split
      · -- CAS succeeds
        rename_i hptr
        have hnew : new = m :: (treeGet s.trees t).2 := hcas.2 hptr.symm
        refine ⟨?_, ?_, ?_, ?_, ?_⟩
        · intro i th' hi
          rcases threads_set_cases hi with ⟨rfl, rfl⟩ | ⟨_, hi'⟩
          · simpa [pcMicro, hpc] using hprog
          · exact h.prog_ok i th' hi'
        · intro i th' hi μ hμ m' hm'
          rcases threads_set_cases hi with ⟨rfl, rfl⟩ | ⟨_, hi'⟩
          · apply hown μ _ m' hm'
            simp only [pcMicro, List.mem_cons, List.not_mem_nil, false_or] at hμ
            rcases hμ with (rfl | hμ) | hμ
            · right; left; simp [hpc, pcMicro]
            · left; exact hμ
            · right; right; exact hμ
          · exact h.own_ok i th' hi' μ hμ m' hm'
        · intro i th' hi p m' hm'
          rcases threads_set_cases hi with ⟨rfl, rfl⟩ | ⟨_, hi'⟩
          · simpa [entryOf, entryStep] using h.recs_ok _ th hj p m' hm'
          · exact h.recs_ok i th' hi' p m' hm'
        · intro i th' hi t' m' hm'
          simp only [treeGet_cons]
          rcases threads_set_cases hi with ⟨rfl, rfl⟩ | ⟨hne, hi'⟩
          · by_cases ht : t = t'
            · subst ht
              simp only [if_true, hnew, List.mem_cons, Micro.mark.injEq, true_and]
              rw [h.marks_ok _ th hj t m' hm']
            · have ht' : ¬ t' = t := fun e => ht e.symm
              simp only [ht, if_false, List.mem_cons, Micro.mark.injEq, ht', false_and, false_or]
              exact h.marks_ok _ th hj t' m' hm'
          · by_cases ht : t = t'
            · subst ht
              have hne' : m ≠ m' := other_mui hm' hmj (fun e => hne e.symm)
              simp only [if_true, hnew, List.mem_cons]
              rw [← h.marks_ok i th' hi' t m' hm']
              constructor
              · rintro (e | e)
                · exact absurd e.symm hne'
                · exact e
              · exact Or.inr
            · simp only [ht, if_false]
              exact h.marks_ok i th' hi' t' m' hm'
        · intro i th' hi t' m' cur' new' hpc'
          simp only [treeGet_cons]
          rcases threads_set_cases hi with ⟨rfl, rfl⟩ | ⟨_, hi'⟩
          · cases hpc'
          · have := h.cas_ok i th' hi' t' m' cur' new' hpc'
            by_cases ht : t = t'
            · subst ht
              simp only [if_true]
              exact ⟨by omega, fun e => by omega⟩
            · simp only [ht, if_false]
              exact this
      · -- CAS fails: `current` stays stale
        rename_i hptr
        refine ⟨?_, ?_, ?_, ?_, ?_⟩
        · intro i th' hi
          rcases threads_set_cases hi with ⟨rfl, rfl⟩ | ⟨_, hi'⟩
          · simpa [pcMicro, hpc] using hprog
          · exact h.prog_ok i th' hi'
        · intro i th' hi μ hμ m' hm'
          rcases threads_set_cases hi with ⟨rfl, rfl⟩ | ⟨_, hi'⟩
          · apply hown μ _ m' hm'
            simpa [pcMicro, hpc] using hμ
          · exact h.own_ok i th' hi' μ hμ m' hm'
        · intro i th' hi p m' hm'
          rcases threads_set_cases hi with ⟨rfl, rfl⟩ | ⟨_, hi'⟩
          · exact h.recs_ok _ th hj p m' hm'
          · exact h.recs_ok i th' hi' p m' hm'
        · intro i th' hi t' m' hm'
          rcases threads_set_cases hi with ⟨rfl, rfl⟩ | ⟨_, hi'⟩
          · exact h.marks_ok _ th hj t' m' hm'
          · exact h.marks_ok i th' hi' t' m' hm'
        · intro i th' hi t' m' cur' new' hpc'
          rcases threads_set_cases hi with ⟨rfl, rfl⟩ | ⟨_, hi'⟩
          · cases hpc'
            exact ⟨hcas.1, fun e => absurd e.symm hptr⟩
          · exact h.cas_ok i th' hi' t' m' cur' new' hpc'
    · -- idle
      rename_i hpc
      split
      · exact h
      · -- ins
        rename_i p m a rest htodo
        have hmj : own m = j := hown (.ins p m a) (by simp [htodo]) m rfl
        refine ⟨?_, ?_, ?_, ?_, ?_⟩
        · intro i th' hi
          rcases threads_set_cases hi with ⟨rfl, rfl⟩ | ⟨_, hi'⟩
          · simpa [pcMicro, hpc, htodo] using hprog
          · exact h.prog_ok i th' hi'
        · intro i th' hi μ hμ m' hm'
          rcases threads_set_cases hi with ⟨rfl, rfl⟩ | ⟨_, hi'⟩
          · apply hown μ _ m' hm'
            simp only [List.mem_cons, hpc, pcMicro, List.not_mem_nil, false_or] at hμ
            rcases hμ with (rfl | hμ) | hμ
            · right; right; simp [htodo]
            · left; exact hμ
            · right; right; simp [htodo, hμ]
          · exact h.own_ok i th' hi' μ hμ m' hm'
        · intro i th' hi p' m' hm'
          simp only [lget_recStep]
          rcases threads_set_cases hi with ⟨rfl, rfl⟩ | ⟨hne, hi'⟩
          · simp only [entryOf]; rw [h.recs_ok _ th hj p' m' hm']
          · rw [entryStep_other _ _ _ _ (fun m'' e => by cases e; exact other_mui hm' hmj (fun e => hne e.symm))]
            exact h.recs_ok i th' hi' p' m' hm'
        · intro i th' hi t' m' hm'
          rcases threads_set_cases hi with ⟨rfl, rfl⟩ | ⟨_, hi'⟩
          · simpa using h.marks_ok _ th hj t' m' hm'
          · exact h.marks_ok i th' hi' t' m' hm'
        · intro i th' hi t' m' cur' new' hpc'
          rcases threads_set_cases hi with ⟨rfl, rfl⟩ | ⟨_, hi'⟩
          · simp [hpc] at hpc'
          · exact h.cas_ok i th' hi' t' m' cur' new' hpc'
      · -- wdp
        rename_i p m rest htodo
        have hmj : own m = j := hown (.wdp p m) (by simp [htodo]) m rfl
        refine ⟨?_, ?_, ?_, ?_, ?_⟩
        · intro i th' hi
          rcases threads_set_cases hi with ⟨rfl, rfl⟩ | ⟨_, hi'⟩
          · simpa [pcMicro, hpc, htodo] using hprog
          · exact h.prog_ok i th' hi'
        · intro i th' hi μ hμ m' hm'
          rcases threads_set_cases hi with ⟨rfl, rfl⟩ | ⟨_, hi'⟩
          · apply hown μ _ m' hm'
            simp only [List.mem_cons, hpc, pcMicro, List.not_mem_nil, false_or] at hμ
            rcases hμ with (rfl | hμ) | hμ
            · right; right; simp [htodo]
            · left; exact hμ
            · right; right; simp [htodo, hμ]
          · exact h.own_ok i th' hi' μ hμ m' hm'
        · intro i th' hi p' m' hm'
          simp only [lget_recStep]
          rcases threads_set_cases hi with ⟨rfl, rfl⟩ | ⟨hne, hi'⟩
          · simp only [entryOf]; rw [h.recs_ok _ th hj p' m' hm']
          · rw [entryStep_other _ _ _ _ (fun m'' e => by cases e; exact other_mui hm' hmj (fun e => hne e.symm))]
            exact h.recs_ok i th' hi' p' m' hm'
        · intro i th' hi t' m' hm'
          rcases threads_set_cases hi with ⟨rfl, rfl⟩ | ⟨_, hi'⟩
          · simpa using h.marks_ok _ th hj t' m' hm'
          · exact h.marks_ok i th' hi' t' m' hm'
        · intro i th' hi t' m' cur' new' hpc'
          rcases threads_set_cases hi with ⟨rfl, rfl⟩ | ⟨_, hi'⟩
          · simp [hpc] at hpc'
          · exact h.cas_ok i th' hi' t' m' cur' new' hpc'
      · -- mark: the load
        rename_i t m rest htodo
        refine ⟨?_, ?_, ?_, ?_, ?_⟩
        · intro i th' hi
          rcases threads_set_cases hi with ⟨rfl, rfl⟩ | ⟨_, hi'⟩
          · simpa [pcMicro, hpc, htodo] using hprog
          · exact h.prog_ok i th' hi'
        · intro i th' hi μ hμ m' hm'
          rcases threads_set_cases hi with ⟨rfl, rfl⟩ | ⟨_, hi'⟩
          · apply hown μ _ m' hm'
            simp only [pcMicro, List.mem_cons, List.not_mem_nil, or_false] at hμ
            rcases hμ with hμ | rfl | hμ
            · left; exact hμ
            · right; right; simp [htodo]
            · right; right; simp [htodo, hμ]
          · exact h.own_ok i th' hi' μ hμ m' hm'
        · intro i th' hi p' m' hm'
          rcases threads_set_cases hi with ⟨rfl, rfl⟩ | ⟨_, hi'⟩
          · exact h.recs_ok _ th hj p' m' hm'
          · exact h.recs_ok i th' hi' p' m' hm'
        · intro i th' hi t' m' hm'
          rcases threads_set_cases hi with ⟨rfl, rfl⟩ | ⟨_, hi'⟩
          · exact h.marks_ok _ th hj t' m' hm'
          · exact h.marks_ok i th' hi' t' m' hm'
        · intro i th' hi t' m' cur' new' hpc'
          rcases threads_set_cases hi with ⟨rfl, rfl⟩ | ⟨_, hi'⟩
          · cases hpc'
            exact ⟨Nat.le_refl _, fun _ => rfl⟩
          · exact h.cas_ok i th' hi' t' m' cur' new' hpc'
      · -- lock
        rename_i rest htodo
        split
        · refine ⟨?_, ?_, ?_, ?_, ?_⟩
          · intro i th' hi
            rcases threads_set_cases hi with ⟨rfl, rfl⟩ | ⟨_, hi'⟩
            · simpa [pcMicro, hpc, htodo] using hprog
            · exact h.prog_ok i th' hi'
          · intro i th' hi μ hμ m' hm'
            rcases threads_set_cases hi with ⟨rfl, rfl⟩ | ⟨_, hi'⟩
            · apply hown μ _ m' hm'
              simp only [List.mem_cons, hpc, pcMicro, List.not_mem_nil, false_or] at hμ
              rcases hμ with (rfl | hμ) | hμ
              · right; right; simp [htodo]
              · left; exact hμ
              · right; right; simp [htodo, hμ]
            · exact h.own_ok i th' hi' μ hμ m' hm'
          · intro i th' hi p' m' hm'
            rcases threads_set_cases hi with ⟨rfl, rfl⟩ | ⟨_, hi'⟩
            · simpa [entryOf, entryStep] using h.recs_ok _ th hj p' m' hm'
            · exact h.recs_ok i th' hi' p' m' hm'
          · intro i th' hi t' m' hm'
            rcases threads_set_cases hi with ⟨rfl, rfl⟩ | ⟨_, hi'⟩
            · simpa using h.marks_ok _ th hj t' m' hm'
            · exact h.marks_ok i th' hi' t' m' hm'
          · intro i th' hi t' m' cur' new' hpc'
            rcases threads_set_cases hi with ⟨rfl, rfl⟩ | ⟨_, hi'⟩
            · simp [hpc] at hpc'
            · exact h.cas_ok i th' hi' t' m' cur' new' hpc'
        · exact h
      · -- unlock
        rename_i rest htodo
        refine ⟨?_, ?_, ?_, ?_, ?_⟩
        · intro i th' hi
          rcases threads_set_cases hi with ⟨rfl, rfl⟩ | ⟨_, hi'⟩
          · simpa [pcMicro, hpc, htodo] using hprog
          · exact h.prog_ok i th' hi'
        · intro i th' hi μ hμ m' hm'
          rcases threads_set_cases hi with ⟨rfl, rfl⟩ | ⟨_, hi'⟩
          · apply hown μ _ m' hm'
            simp only [List.mem_cons, hpc, pcMicro, List.not_mem_nil, false_or] at hμ
            rcases hμ with (rfl | hμ) | hμ
            · right; right; simp [htodo]
            · left; exact hμ
            · right; right; simp [htodo, hμ]
          · exact h.own_ok i th' hi' μ hμ m' hm'
        · intro i th' hi p' m' hm'
          rcases threads_set_cases hi with ⟨rfl, rfl⟩ | ⟨_, hi'⟩
          · simpa [entryOf, entryStep] using h.recs_ok _ th hj p' m' hm'
          · exact h.recs_ok i th' hi' p' m' hm'
        · intro i th' hi t' m' hm'
          rcases threads_set_cases hi with ⟨rfl, rfl⟩ | ⟨_, hi'⟩
          · simpa using h.marks_ok _ th hj t' m' hm'
          · exact h.marks_ok i th' hi' t' m' hm'
        · intro i th' hi t' m' cur' new' hpc'
          rcases threads_set_cases hi with ⟨rfl, rfl⟩ | ⟨_, hi'⟩
          · simp [hpc] at hpc'
          · exact h.cas_ok i th' hi' t' m' cur' new' hpc'

theorem inv_run (own : Mui → Nat) (v : Variant) (progs : List (List Op)) (sched : List Nat)
    (h : Owned own v progs) : Inv own v progs (run (init v progs) sched) := by
  unfold run
  suffices ∀ s, Inv own v progs s → Inv own v progs (sched.foldl step s) from this _ (inv_init own v progs h)
  induction sched with
  | nil => intro s hs; exact hs
  | cons j sched ih => intro s hs; exact ih _ (inv_step own v progs s j hs)

/-! ## Clause 1: last write wins, per (prefix, peer), under every interleaving -/

/-- **C09 (last write).** For every set of writer programs with disjoint ingress ids, every
    schedule of any length and every `(prefix, ingress id)`: what a query sees at that point
    is exactly what the id's owner has written so far (`specView` of the owner's completed
    actions) — no other writer's action, in any interleaving, has lost, replaced or altered it. -/
theorem C09_last_write (own : Mui → Nat) (v : Variant) (progs : List (List Op)) (sched : List Nat)
    (hown : Owned own v progs) (i : Nat) (th : Thread)
    (hi : (run (init v progs) sched).threads[i]? = some th) (p : Pfx) (m : Mui) (hm : own m = i) :
    (run (init v progs) sched).view p m = specView th.done p m := by
  have h := inv_run own v progs sched hown
  unfold Sys.view viewOf specView
  rw [h.recs_ok i th hi p m hm]
  congr 1
  funext x
  congr 1
  congr 1
  have := h.marks_ok i th hi (treeOf p) m hm
  by_cases hc : m ∈ (treeGet (run (init v progs) sched).trees (treeOf p)).2
  · simp [hc, this.mp hc]
  · have h2 : Micro.mark (treeOf p) m ∉ th.done := fun e => hc (this.mpr e)
    simp [hc, h2]

/-- **C09 (last write, completed writers).** Once the owner of `m` has finished its program —
    whatever the other writers did or are still doing — the RIB shows for `(p, m)` exactly
    what running the owner's program ALONE, update by update, on an empty RIB shows. -/
theorem C09_last_write_final (own : Mui → Nat) (v : Variant) (progs : List (List Op)) (sched : List Nat)
    (hown : Owned own v progs) (i : Nat) (th : Thread)
    (hi : (run (init v progs) sched).threads[i]? = some th) (hfin : th.finished = true)
    (p : Pfx) (m : Mui) (hm : own m = i) :
    (run (init v progs) sched).view p m = (seqRun (progs.getD i [])).view p m := by
  rw [C09_last_write own v progs sched hown i th hi p m hm, seqRun_view v]
  have h := (inv_run own v progs sched hown).prog_ok i th hi
  simp only [Thread.finished, Bool.and_eq_true, List.isEmpty_iff, beq_iff_eq] at hfin
  rw [hfin.1, hfin.2] at h
  simp only [pcMicro, List.append_nil] at h
  rw [← h, List.reverse_reverse]

/-! ## Clause 2: every completed session-wide withdrawal has taken effect -/

/-- **C09 (withdrawal effective).** In every reachable state, for every writer and every
    marker action `mark t m` it has completed, `m` is in tree `t`'s withdrawn set — no
    concurrent CAS of another writer has dropped it. -/
theorem C09_withdraw_effective (own : Mui → Nat) (v : Variant) (progs : List (List Op)) (sched : List Nat)
    (hown : Owned own v progs) (i : Nat) (th : Thread)
    (hi : (run (init v progs) sched).threads[i]? = some th) (t : Tree) (m : Mui)
    (hdone : Micro.mark t m ∈ th.done) :
    m ∈ (treeGet (run (init v progs) sched).trees t).2 := by
  have h := inv_run own v progs sched hown
  have hm : own m = i := h.own_ok i th hi (.mark t m) (Or.inl hdone) m rfl
  exact (h.marks_ok i th hi t m hm).mpr hdone

/-- … and therefore every route of that ingress id in that tree is reported withdrawn. -/
theorem C09_withdraw_visible (own : Mui → Nat) (v : Variant) (progs : List (List Op)) (sched : List Nat)
    (hown : Owned own v progs) (i : Nat) (th : Thread)
    (hi : (run (init v progs) sched).threads[i]? = some th) (p : Pfx) (m : Mui)
    (hdone : Micro.mark (treeOf p) m ∈ th.done) (x : Bool × Attr)
    (hv : (run (init v progs) sched).view p m = some x) : x.1 = true := by
  have hin := C09_withdraw_effective own v progs sched hown i th hi (treeOf p) m hdone
  unfold Sys.view viewOf at hv
  cases hl : lget (run (init v progs) sched).recs (p, m) with
  | none => simp [hl] at hv
  | some y =>
    simp only [hl, Option.map_some, Option.some.injEq] at hv
    subst hv
    simp [hin]

/-! ## Clause 3: boundedness — false for the code as written -/

/-- Pointers never decrease, and a writer whose loaded pointer is stale stays in its CAS
    loop, with the same stale pointer, whatever anybody does next. -/
theorem stale_step (s : Sys) (i j : Nat) (th : Thread) (t : Tree) (m : Mui) (cur : Nat) (new : List Mui)
    (hi : s.threads[i]? = some th) (hpc : th.pc = .loaded t m cur new) (hlt : cur < (treeGet s.trees t).1) :
    ∃ th' new', (step s j).threads[i]? = some th' ∧ th'.pc = .loaded t m cur new' ∧
      th'.todo = th.todo ∧ cur < (treeGet (step s j).trees t).1 := by
  by_cases hij : j = i
  · subst hij
    unfold step
    simp only [hi, hpc]
    have hne : ¬ (treeGet s.trees t).1 = cur := by omega
    simp only [hne, if_false]
    exact ⟨_, _, threads_set_self hi, rfl, rfl, hlt⟩
  · -- another writer (or nobody) moves
    have hkeep : ∀ th'' : Thread, (s.threads.set j th'')[i]? = some th := by
      intro th''; rw [List.getElem?_set_ne hij]; exact hi
    unfold step
    split
    · exact ⟨th, new, hi, hpc, rfl, hlt⟩
    · rename_i thj hj
      split
      · rename_i t' m' cur' new' hpc'
        dsimp only
        split
        · refine ⟨th, new, hkeep _, hpc, rfl, ?_⟩
          simp only [treeGet_cons]
          split
          · rename_i ht; subst ht; simp only; omega
          · exact hlt
        · exact ⟨th, new, hkeep _, hpc, rfl, hlt⟩
      · split
        · exact ⟨th, new, hi, hpc, rfl, hlt⟩
        · exact ⟨th, new, hkeep _, hpc, rfl, hlt⟩
        · exact ⟨th, new, hkeep _, hpc, rfl, hlt⟩
        · exact ⟨th, new, hkeep _, hpc, rfl, hlt⟩
        · split
          · exact ⟨th, new, hkeep _, hpc, rfl, hlt⟩
          · exact ⟨th, new, hi, hpc, rfl, hlt⟩
        · exact ⟨th, new, hkeep _, hpc, rfl, hlt⟩

/-- **Starvation lemma (general).** Once a writer's first CAS has failed (its loaded pointer
    is older than the tree's), it never leaves the CAS loop: for every continuation schedule,
    of any length, it is still in the loop with the same stale pointer. Either variant. -/
theorem stale_forever (sched : List Nat) (s : Sys) (i : Nat) (th : Thread) (t : Tree) (m : Mui) (cur : Nat)
    (new : List Mui) (hi : s.threads[i]? = some th) (hpc : th.pc = .loaded t m cur new)
    (hlt : cur < (treeGet s.trees t).1) :
    ∃ th' new', (run s sched).threads[i]? = some th' ∧ th'.pc = .loaded t m cur new' ∧ th'.todo = th.todo := by
  induction sched generalizing s th new with
  | nil => exact ⟨th, new, hi, hpc, rfl⟩
  | cons j sched ih =>
    obtain ⟨th1, new1, h1, hpc1, htodo1, hlt1⟩ := stale_step s i j th t m cur new hi hpc hlt
    obtain ⟨th2, new2, h2, hpc2, htodo2⟩ := ih (step s j) th1 new1 h1 hpc1 hlt1
    exact ⟨th2, new2, h2, hpc2, htodo2.trans htodo1⟩

/-- Two BMP/BGP sessions end at the same time. -/
def witnessProgs : List (List Op) := [[.withdraw 1 none], [.withdraw 2 none]]

/-- A loads, B loads, B's CAS succeeds. -/
def witnessPrefix : List Nat := [0, 1, 1]

/-- **C09 starvation (as written).** After the three steps `A.load; B.load; B.cas`, writer A
    never finishes its `Update::Withdraw`: for EVERY continuation schedule — in particular
    `A.cas^n` for every `n`, i.e. however many steps A itself takes — A is still inside
    `mark_mui_as_withdrawn`. -/
theorem C09_starvation (sched : List Nat) :
    ∃ th, (run (init asWritten witnessProgs) (witnessPrefix ++ sched)).threads[0]? = some th
      ∧ th.finished = false := by
  have hrun : run (init asWritten witnessProgs) (witnessPrefix ++ sched)
      = run (run (init asWritten witnessProgs) witnessPrefix) sched := by
    simp [run, List.foldl_append]
  rw [hrun]
  obtain ⟨th', new', h1, hpc, _⟩ := stale_forever sched (run (init asWritten witnessProgs) witnessPrefix) 0
    ⟨[.mark 1 1, .mark 2 1, .mark 3 1], .loaded 0 1 0 [1], [], 1⟩ 0 1 0 [1] (by decide) rfl (by decide)
  refine ⟨th', h1, ?_⟩
  simp [Thread.finished, hpc]

/-- The full boundedness clause: whatever the schedule, a writer that has executed as many
    own steps as its program costs has finished. -/
def C09_bounded_full (v : Variant) : Prop :=
  ∀ (own : Mui → Nat) (progs : List (List Op)) (sched : List Nat) (i : Nat) (th : Thread),
    Owned own v progs → (run (init v progs) sched).threads[i]? = some th →
    cost (compile v (progs.getD i [])) ≤ th.steps → th.finished = true

/-- Decide-checked finite witness: after `A.load; B.load; B.cas; A.cas × 12` writer A has
    executed 13 own steps (its whole `Withdraw` costs 8) and is still in the loop, while B
    needs only its remaining 6 steps to finish. -/
theorem C09_starvation_witness :
    ((run (init asWritten witnessProgs) (witnessPrefix ++ List.replicate 12 0 ++ List.replicate 6 1)).threads.map
      fun th => (th.finished, th.steps)) = [(false, 13), (true, 8)] := by decide

theorem witness_owned : Owned (fun m => m - 1) asWritten witnessProgs := by
  intro i prog hi μ hμ m hm
  match i, hi with
  | 0, hi =>
    simp only [witnessProgs, List.getElem?_cons_zero, Option.some.injEq] at hi
    subst hi
    simp [compile, compileOp, compileWithdraw, asWritten] at hμ
    rcases hμ with rfl | rfl | rfl | rfl <;> (cases hm; rfl)
  | 1, hi =>
    simp only [witnessProgs, List.getElem?_cons_succ, List.getElem?_cons_zero, Option.some.injEq] at hi
    subst hi
    simp [compile, compileOp, compileWithdraw, asWritten] at hμ
    rcases hμ with rfl | rfl | rfl | rfl <;> (cases hm; rfl)
  | n + 2, hi => simp [witnessProgs] at hi

/-- **C09 boundedness fails for the code as written.** -/
theorem C09_bounded_counterexample : ¬ C09_bounded_full asWritten := by
  intro h
  have hw := C09_starvation_witness
  have := h (fun m => m - 1) witnessProgs (witnessPrefix ++ List.replicate 12 0 ++ List.replicate 6 1) 0
    ⟨[.mark 1 1, .mark 2 1, .mark 3 1], .loaded 0 1 0 [2], [], 13⟩ witness_owned (by decide) (by decide)
  simp [Thread.finished] at this

/-! ## Clause 3, repaired variant: every update completes within its cost in own steps -/

/-- The invariant of the repaired variant (`withdraw_for_ingress` under a mutex). -/
structure LInv (progs : List (List Op)) (s : Sys) : Prop where
  /-- a thread is inside the critical section iff it holds the mutex -/
  wb_ok : ∀ (i : Nat) (th : Thread), s.threads[i]? = some th → wbT (decide (s.lock = some i)) th = true
  /-- the pointer a thread has loaded is still the current one: its first CAS succeeds -/
  fresh : ∀ (i : Nat) (th : Thread), s.threads[i]? = some th → ∀ t m cur new,
    th.pc = PC.loaded t m cur new → cur = (treeGet s.trees t).1
  /-- executed steps + steps still needed = cost of the program -/
  acct : ∀ (i : Nat) (th : Thread), s.threads[i]? = some th →
    th.steps + remaining th = cost (compile repaired (progs.getD i []))
  holder : ∀ k, s.lock = some k → ∃ th, s.threads[k]? = some th

theorem linv_init (progs : List (List Op)) : LInv progs (init repaired progs) := by
  have hth : ∀ (i : Nat) (th : Thread), (init repaired progs).threads[i]? = some th →
      ∃ prog, progs[i]? = some prog ∧ th = (⟨compile repaired prog, .idle, [], 0⟩ : Thread) := by
    intro i th hi
    simp only [init, List.getElem?_map] at hi
    cases hp : progs[i]? with
    | none => simp [hp] at hi
    | some prog => simp [hp] at hi; exact ⟨prog, rfl, hi.symm⟩
  refine ⟨?_, ?_, ?_, ?_⟩
  · intro i th hi
    obtain ⟨prog, hp, rfl⟩ := hth i th hi
    simp [init, wbT, wb_compile]
  · intro i th hi t m cur new hpc
    obtain ⟨prog, hp, rfl⟩ := hth i th hi
    cases hpc
  · intro i th hi
    obtain ⟨prog, hp, rfl⟩ := hth i th hi
    simp [remaining, List.getD, hp]
  · intro k hk
    simp [init] at hk

private theorem holds_of_loaded {progs : List (List Op)} {s : Sys} (h : LInv progs s) {i : Nat} {th : Thread}
    (hi : s.threads[i]? = some th) {t : Tree} {m : Mui} {cur : Nat} {new : List Mui}
    (hpc : th.pc = PC.loaded t m cur new) : s.lock = some i := by
  have := h.wb_ok i th hi
  simp only [wbT, hpc, Bool.and_eq_true, decide_eq_true_eq] at this
  exact this.1

theorem linv_step (progs : List (List Op)) (s : Sys) (j : Nat) (h : LInv progs s) : LInv progs (step s j) := by
  unfold step
  split
  · exact h
  · rename_i th hj
    have hwb := h.wb_ok j th hj
    have hacct := h.acct j th hj
    split
    · -- inside the CAS loop
      rename_i t m cur new hpc
      have hfresh := h.fresh j th hj t m cur new hpc
      have hlock : s.lock = some j := holds_of_loaded h hj hpc
      dsimp only
      split
      · -- CAS succeeds
        refine ⟨?_, ?_, ?_, ?_⟩
        · intro i th' hi
          rcases threads_set_cases hi with ⟨rfl, rfl⟩ | ⟨_, hi'⟩
          · simp only [wbT, hpc, Bool.and_eq_true] at hwb
            simpa [wbT] using hwb.2
          · exact h.wb_ok i th' hi'
        · intro i th' hi t' m' cur' new' hpc'
          rcases threads_set_cases hi with ⟨rfl, rfl⟩ | ⟨hne, hi'⟩
          · cases hpc'
          · have := holds_of_loaded h hi' hpc'
            rw [hlock] at this
            exact absurd (Option.some.inj this).symm hne
        · intro i th' hi
          rcases threads_set_cases hi with ⟨rfl, rfl⟩ | ⟨_, hi'⟩
          · simp only [remaining, hpc] at hacct
            simp only [remaining]
            omega
          · exact h.acct i th' hi'
        · intro k hk
          obtain ⟨thk, hthk⟩ := h.holder k hk
          by_cases hkj : k = j
          · subst hkj; exact ⟨_, threads_set_self hj⟩
          · exact ⟨thk, by rw [List.getElem?_set_ne (fun e => hkj e.symm)]; exact hthk⟩
      · -- CAS fails: impossible under the mutex
        rename_i hptr
        exact absurd hfresh.symm hptr
    · -- idle
      rename_i hpc
      split
      · exact h
      · -- ins
        rename_i p m a rest htodo
        refine ⟨?_, ?_, ?_, ?_⟩
        · intro i th' hi
          rcases threads_set_cases hi with ⟨rfl, rfl⟩ | ⟨_, hi'⟩
          · simpa [wbT, hpc, htodo, wb] using hwb
          · exact h.wb_ok i th' hi'
        · intro i th' hi t' m' cur' new' hpc'
          rcases threads_set_cases hi with ⟨rfl, rfl⟩ | ⟨_, hi'⟩
          · simp [hpc] at hpc'
          · exact h.fresh i th' hi' t' m' cur' new' hpc'
        · intro i th' hi
          rcases threads_set_cases hi with ⟨rfl, rfl⟩ | ⟨_, hi'⟩
          · simp only [remaining, hpc, htodo, cost, microCost] at hacct
            simp only [remaining, hpc]
            omega
          · exact h.acct i th' hi'
        · intro k hk
          obtain ⟨thk, hthk⟩ := h.holder k hk
          by_cases hkj : k = j
          · subst hkj; exact ⟨_, threads_set_self hj⟩
          · exact ⟨thk, by rw [List.getElem?_set_ne (fun e => hkj e.symm)]; exact hthk⟩
      · -- wdp
        rename_i p m rest htodo
        refine ⟨?_, ?_, ?_, ?_⟩
        · intro i th' hi
          rcases threads_set_cases hi with ⟨rfl, rfl⟩ | ⟨_, hi'⟩
          · simpa [wbT, hpc, htodo, wb] using hwb
          · exact h.wb_ok i th' hi'
        · intro i th' hi t' m' cur' new' hpc'
          rcases threads_set_cases hi with ⟨rfl, rfl⟩ | ⟨_, hi'⟩
          · simp [hpc] at hpc'
          · exact h.fresh i th' hi' t' m' cur' new' hpc'
        · intro i th' hi
          rcases threads_set_cases hi with ⟨rfl, rfl⟩ | ⟨_, hi'⟩
          · simp only [remaining, hpc, htodo, cost, microCost] at hacct
            simp only [remaining, hpc]
            omega
          · exact h.acct i th' hi'
        · intro k hk
          obtain ⟨thk, hthk⟩ := h.holder k hk
          by_cases hkj : k = j
          · subst hkj; exact ⟨_, threads_set_self hj⟩
          · exact ⟨thk, by rw [List.getElem?_set_ne (fun e => hkj e.symm)]; exact hthk⟩
      · -- mark: the load
        rename_i t m rest htodo
        refine ⟨?_, ?_, ?_, ?_⟩
        · intro i th' hi
          rcases threads_set_cases hi with ⟨rfl, rfl⟩ | ⟨_, hi'⟩
          · simpa [wbT, hpc, htodo, wb] using hwb
          · exact h.wb_ok i th' hi'
        · intro i th' hi t' m' cur' new' hpc'
          rcases threads_set_cases hi with ⟨rfl, rfl⟩ | ⟨_, hi'⟩
          · cases hpc'; rfl
          · exact h.fresh i th' hi' t' m' cur' new' hpc'
        · intro i th' hi
          rcases threads_set_cases hi with ⟨rfl, rfl⟩ | ⟨_, hi'⟩
          · simp only [remaining, hpc, htodo, cost, microCost] at hacct
            simp only [remaining]
            omega
          · exact h.acct i th' hi'
        · intro k hk
          obtain ⟨thk, hthk⟩ := h.holder k hk
          by_cases hkj : k = j
          · subst hkj; exact ⟨_, threads_set_self hj⟩
          · exact ⟨thk, by rw [List.getElem?_set_ne (fun e => hkj e.symm)]; exact hthk⟩
      · -- lock
        rename_i rest htodo
        split
        · -- the mutex is free
          rename_i hnone
          refine ⟨?_, ?_, ?_, ?_⟩
          · intro i th' hi
            rcases threads_set_cases hi with ⟨rfl, rfl⟩ | ⟨hne, hi'⟩
            · simpa [wbT, hpc, htodo, wb, hnone] using hwb
            · have := h.wb_ok i th' hi'
              have hji : ¬ j = i := fun e => hne e.symm
              simpa [hnone, hji] using this
          · intro i th' hi t' m' cur' new' hpc'
            rcases threads_set_cases hi with ⟨rfl, rfl⟩ | ⟨_, hi'⟩
            · simp [hpc] at hpc'
            · exact h.fresh i th' hi' t' m' cur' new' hpc'
          · intro i th' hi
            rcases threads_set_cases hi with ⟨rfl, rfl⟩ | ⟨_, hi'⟩
            · simp only [remaining, hpc, htodo, cost, microCost] at hacct
              simp only [remaining, hpc]
              omega
            · exact h.acct i th' hi'
          · intro k hk
            simp only [Option.some.injEq] at hk
            subst hk
            exact ⟨_, threads_set_self hj⟩
        · exact h
      · -- unlock
        rename_i rest htodo
        have hheld : s.lock = some j := by
          simp only [wbT, hpc, htodo, wb, Bool.and_eq_true, decide_eq_true_eq] at hwb
          exact hwb.1
        refine ⟨?_, ?_, ?_, ?_⟩
        · intro i th' hi
          rcases threads_set_cases hi with ⟨rfl, rfl⟩ | ⟨hne, hi'⟩
          · simp only [wbT, hpc, htodo, wb, Bool.and_eq_true] at hwb
            simpa [wbT, hpc] using hwb.2
          · have := h.wb_ok i th' hi'
            have hji : ¬ j = i := fun e => hne e.symm
            simpa [hheld, hji] using this
        · intro i th' hi t' m' cur' new' hpc'
          rcases threads_set_cases hi with ⟨rfl, rfl⟩ | ⟨_, hi'⟩
          · simp [hpc] at hpc'
          · exact h.fresh i th' hi' t' m' cur' new' hpc'
        · intro i th' hi
          rcases threads_set_cases hi with ⟨rfl, rfl⟩ | ⟨_, hi'⟩
          · simp only [remaining, hpc, htodo, cost, microCost] at hacct
            simp only [remaining, hpc]
            omega
          · exact h.acct i th' hi'
        · intro k hk
          cases hk

theorem linv_run (progs : List (List Op)) (sched : List Nat) : LInv progs (run (init repaired progs) sched) := by
  unfold run
  suffices ∀ s, LInv progs s → LInv progs (sched.foldl step s) from this _ (linv_init progs)
  induction sched with
  | nil => intro s hs; exact hs
  | cons j sched ih => intro s hs; exact ih _ (linv_step progs s j hs)

/-- **C09 boundedness, repaired.** With `Rib::withdraw_for_ingress` under a mutex: under every
    schedule, a writer that has executed as many own steps as its program costs (1 per
    record action / lock / unlock, 2 per marker set: load + ONE compare-exchange) has
    finished; equivalently no update ever needs more than its cost in own steps. A step on
    which the writer is blocked on the mutex is not an own step (see `C09_repaired_progress`
    for why it cannot stay blocked unless the holder is denied the CPU). -/
theorem C09_bounded_repaired : C09_bounded_full repaired := by
  intro own progs sched i th _ hi hcost
  have h := (linv_run progs sched).acct i th hi
  have hrem : remaining th = 0 := by omega
  unfold remaining at hrem
  have htodo : th.todo = [] := by
    cases hl : th.todo with
    | nil => rfl
    | cons μ l =>
      have := cost_pos_of_ne_nil th.todo (by simp [hl])
      omega
  have hpc : th.pc = .idle := by
    cases hp : th.pc with
    | idle => rfl
    | loaded t m cur new => simp [hp] at hrem
  simp [Thread.finished, htodo, hpc]

/-- **C09 progress, repaired (no deadlock, the mutex is always released).** In every reachable
    state in which some writer has not finished, some writer can execute a step; and a writer
    blocked on the mutex is blocked by a holder that is itself never blocked. -/
theorem C09_repaired_progress (progs : List (List Op)) (sched : List Nat) (i : Nat) (th : Thread)
    (hi : (run (init repaired progs) sched).threads[i]? = some th) (hunf : th.finished = false) :
    ∃ j thj thj', (run (init repaired progs) sched).threads[j]? = some thj ∧
      (step (run (init repaired progs) sched) j).threads[j]? = some thj' ∧ thj'.steps = thj.steps + 1 := by
  have h := linv_run progs sched
  generalize run (init repaired progs) sched = s at *
  -- a thread that is in the loop, or whose next action is not a `lock` on a held mutex, can step
  have enabled : ∀ (j : Nat) (thj : Thread), s.threads[j]? = some thj →
      (thj.pc ≠ .idle ∨ (∃ μ rest, thj.todo = μ :: rest ∧ (μ = .lock → s.lock = none))) →
      ∃ thj', (step s j).threads[j]? = some thj' ∧ thj'.steps = thj.steps + 1 := by
    intro j thj hj hen
    unfold step
    simp only [hj]
    cases hpc : thj.pc with
    | loaded t m cur new =>
      dsimp only
      split
      · exact ⟨_, threads_set_self hj, rfl⟩
      · exact ⟨_, threads_set_self hj, rfl⟩
    | idle =>
      rcases hen with hne | ⟨μ, rest, htodo, hlk⟩
      · exact absurd hpc hne
      · simp only [htodo]
        cases μ with
        | ins p m a => exact ⟨_, threads_set_self hj, rfl⟩
        | wdp p m => exact ⟨_, threads_set_self hj, rfl⟩
        | mark t m => exact ⟨_, threads_set_self hj, rfl⟩
        | unlock => exact ⟨_, threads_set_self hj, rfl⟩
        | lock =>
          simp only [hlk rfl]
          exact ⟨_, threads_set_self hj, rfl⟩
  by_cases hpc : th.pc = .idle
  · cases htodo : th.todo with
    | nil => simp [Thread.finished, hpc, htodo] at hunf
    | cons μ rest =>
      by_cases hblocked : μ = .lock ∧ s.lock ≠ none
      · -- blocked on the mutex: its holder can step
        obtain ⟨k, hk⟩ := Option.ne_none_iff_exists'.mp hblocked.2
        obtain ⟨thk, hthk⟩ := h.holder k hk
        have hwbk := h.wb_ok k thk hthk
        simp only [hk, decide_true] at hwbk
        obtain ⟨thk', h1, h2⟩ := enabled k thk hthk (by
          by_cases hpk : thk.pc = .idle
          · right
            simp only [wbT, hpk] at hwbk
            cases htk : thk.todo with
            | nil => simp [htk, wb] at hwbk
            | cons μ' rest' =>
              refine ⟨μ', rest', rfl, fun e => ?_⟩
              subst e
              simp [htk, wb] at hwbk
          · left; exact hpk)
        exact ⟨k, thk, thk', hthk, h1, h2⟩
      · obtain ⟨th', h1, h2⟩ := enabled i th hi (Or.inr ⟨μ, rest, htodo, fun e => by
          by_cases hl : s.lock = none
          · exact hl
          · exact absurd ⟨e, hl⟩ hblocked⟩)
        exact ⟨i, th, th', hi, h1, h2⟩
  · obtain ⟨th', h1, h2⟩ := enabled i th hi (Or.inl hpc)
    exact ⟨i, th, th', hi, h1, h2⟩

/-! ## Non-vacuity -/

/-- A non-trivial reachable state (as written): three writers sharing prefixes 0 and 4, a
    failed-then-stuck CAS is avoided by the schedule, one session-wide withdrawal completes;
    the last-write theorem's conclusion is about real content. -/
example :
    let progs : List (List Op) :=
      [[.single (.ann 0 1 10), .withdraw 1 none, .single (.ann 0 1 11)],
       [.bulk [.ann 0 2 20, .ann 4 2 21], .single (.wd 0 2)],
       [.single (.ann 0 3 30)]]
    let s := run (init asWritten progs) [0, 1, 2, 0, 0, 1, 0, 0, 1, 0, 0, 0, 0, 0]
    s.threads.map (·.finished) = [true, true, true]
      ∧ s.view 0 1 = some (true, 11) ∧ s.view 0 2 = some (true, 20) ∧ s.view 4 2 = some (false, 21)
      ∧ s.view 0 3 = some (false, 30)
      ∧ (seqRun (progs.getD 0 [])).view 0 1 = some (true, 11) := by decide

/-- `Owned` is satisfiable by programs that really share prefixes. -/
example : Owned (fun m => m - 1) asWritten [[.single (.ann 0 1 10)], [.single (.ann 0 2 20)]] := by
  intro i prog hi μ hμ m hm
  match i, hi with
  | 0, hi => simp at hi; subst hi; simp [compile, compileOp, compilePl] at hμ; subst hμ; cases hm; rfl
  | 1, hi => simp at hi; subst hi; simp [compile, compileOp, compilePl] at hμ; subst hμ; cases hm; rfl
  | n + 2, hi => simp at hi

/-- The same starving schedule on the repaired variant: B is blocked while A holds the
    mutex, both finish, A within its 10 own steps. -/
theorem C09_repaired_witness :
    ((run (init repaired witnessProgs) (witnessPrefix ++ List.replicate 9 0 ++ List.replicate 10 1)).threads.map
      fun th => (th.finished, th.steps)) = [(true, 10), (true, 10)] := by decide

end Rotonda.RibConc
