import RotondaModel.Proofs.Rib
import RotondaModel.Proofs.Session
/-!
# C02 — Losing a session withdraws exactly that session's routes and nothing else

Two layers.
RIB layer (`Model/Rib.lean`): a session end reaches the RIB unit as `Withdraw(id, None)` (`Ev.down`) or
`WithdrawBulk(ids)` (`Ev.downBulk`).
* `C02_isolation`   for every reachable RIB, every session-end event and every key `(table, prefix, source)`:
                    a source that is not named by the event keeps its stored record **and** its marker
                    (so status and attributes are untouched), a source that is named is reported
                    "withdrawn, attributes kept" (or still absent). Every variant.
* `C02_frame`       more generally *no* event changes anything of a key it does not touch (other peers'
                    UPDATEs included).
* `C02_bulk_order`  the order and multiplicity of ids inside a `WithdrawBulk` is irrelevant.
Session layer (`Model/Session.lean`): which ids a session end names, and which id a peer gets.
* `C02_complete`    after any sequence of Peer Up / Peer Down / foreign registrations on a connected
                    router, the connection-end epilogue `ids_for_parent(router id)` contains the id of
                    every peer that is up; `terminate` names exactly the up peers' ids.
* `C02_identity_full`           peers with distinct per-peer headers get distinct ingress ids — FALSE:
* `C02_identity_counterexample` two Peer Ups whose headers differ only in the BGP id (likewise only the
                    route distinguisher, the L flag, the peer type 0/1/2) are both up and share one id.
* `C02_identity_partial`        two up peers share an id only if they agree on (address, AS, rib type):
                    under the guard "distinct on (address, AS, rib type)" ids are distinct.
-/
namespace Rotonda.Rib

/-- The ids a session-end event names. -/
def Ev.isDown : Ev → Bool
  | .upd .. => false
  | _ => true

/-- No event changes the abstract state of a key it does not touch. -/
theorem C02_frame (v : Variant) (h : History) (e : Ev) (mc : Bool) (p : Prefix) (m : Mui)
    (hu : e.touches mc p m = false) :
    (run v (h ++ [e])).abs mc p m = (run v h).abs mc p m := by
  rw [entry_run_append, List.foldl_cons, List.foldl_nil, specEv_untouched v mc p m _ e hu]

/-- **Isolation.** A session end changes nothing for a source it does not name — stored record,
    marker, hence reported status and attributes — and reports every route of a source it names as
    withdrawn with unchanged attributes. -/
theorem C02_isolation (v : Variant) (h : History) (d : Ev) (hd : d.isDown = true) (mc : Bool) (p : Prefix) (m : Mui) :
    (d.downs m = false → (run v (h ++ [d])).abs mc p m = (run v h).abs mc p m) ∧
    (d.downs m = true → (run v (h ++ [d])).entry mc p m = ((run v h).entry mc p m).map setWithdrawn) := by
  constructor
  · intro hn
    apply C02_frame
    cases d with
    | upd m' u => simp [Ev.isDown] at hd
    | down m' => simpa [Ev.touches] using hn
    | downBulk ms => simpa [Ev.touches] using hn
  · intro hy
    have := C03_stale_aux v h d mc p m hy
    exact this
where
  C03_stale_aux (v : Variant) (h : History) (d : Ev) (mc : Bool) (p : Prefix) (m : Mui) (hy : d.downs m = true) :
      (run v (h ++ [d])).entry mc p m = ((run v h).entry mc p m).map setWithdrawn := by
    rw [Rib.entry_eq_abs, Rib.entry_eq_abs, entry_run_append, List.foldl_cons, List.foldl_nil]
    cases d with
    | upd m' u => simp [Ev.downs] at hy
    | down m' =>
      simp only [Ev.downs, decide_eq_true_eq] at hy
      simp [specEv, hy, entry_specDown]
    | downBulk ms =>
      simp only [Ev.downs, List.contains_eq_mem, decide_eq_true_eq] at hy
      simp [specEv, hy, entry_specDown]

example : let h : History := [.upd 2 (.ok 5 [⟨⟨.v4, 8, 10⟩, .unicast⟩] []), .upd 3 (.ok 6 [⟨⟨.v4, 8, 10⟩, .unicast⟩] [])]
    (run asWritten (h ++ [.down 2])).query ⟨.v4, 8, 10⟩ = [⟨2, .withdrawn, 5⟩, ⟨3, .active, 6⟩] := by decide

/-- Only membership matters in a `WithdrawBulk`: order and duplicates are irrelevant. -/
theorem C02_bulk_order (v : Variant) (h : History) (ms ms' : List Mui) (hperm : ∀ m, m ∈ ms ↔ m ∈ ms')
    (mc : Bool) (p : Prefix) (m : Mui) :
    (run v (h ++ [.downBulk ms])).abs mc p m = (run v (h ++ [.downBulk ms'])).abs mc p m := by
  rw [entry_run_append, entry_run_append]
  simp only [List.foldl_cons, List.foldl_nil, specEv]
  by_cases hm : m ∈ ms
  · simp [hm, (hperm m).mp hm]
  · have : m ∉ ms' := fun h' => hm ((hperm m).mpr h')
    simp [hm, this]

end Rotonda.Rib

namespace Rotonda.Session

/-- **Completeness.** Whatever Peer Ups, Peer Downs and foreign registrations happened since the router
    connected, the connection-end epilogue names the id of every peer that is up. -/
theorem C02_complete (reg : Register) (rid : Nat) (hreg : RegOk reg) (ops : List Op) :
    let w := runOps (World.connected reg rid) ops
    ∀ e ∈ w.rt.peers, e.2 ∈ disconnectIds w := by
  intro w e he
  have hi : Inv w := Inv_runOps ops _ (Inv_connected reg rid hreg)
  have hg := hi.peers_info e he
  have hm := mem_of_get _ _ _ hg
  simp only [disconnectIds, Register.idsForParent, List.mem_map, List.mem_filter, decide_eq_true_eq]
  refine ⟨(e.2, query w.rt e.1), ⟨hm, ?_⟩, rfl⟩
  rfl

/-- `terminate` names exactly the ids of the up peers. -/
theorem C02_terminate_exact (w : World) (id : Nat) : id ∈ terminateIds w ↔ ∃ h, (h, id) ∈ w.rt.peers := by
  simp [terminateIds]

def gold : Pph := ⟨0, 0, 0, 167772161, 65001, 16843009⟩
def reg0 : Register := ⟨3, [(1, ⟨0, 0, 0, 9⟩), (2, ⟨1, 3405803777, 0, 9⟩)]⟩   -- unit = 1, router = 2

example : RegOk reg0 := ⟨by decide, by decide⟩

/-- The identity clause as stated: distinct per-peer headers never share an ingress id. -/
def C02_identity_full : Prop :=
  ∀ (reg : Register) (rid : Nat), RegOk reg → ∀ ops : List Op,
    let w := runOps (World.connected reg rid) ops
    ∀ e1 ∈ w.rt.peers, ∀ e2 ∈ w.rt.peers, e1.1 ≠ e2.1 → e1.2 ≠ e2.2

/-- Two peers that differ only in their BGP id are both up and share ingress id 3. -/
theorem C02_identity_counterexample : ¬ C02_identity_full := by
  intro hf
  have := hf reg0 2 ⟨by decide, by decide⟩ [.peerUp gold, .peerUp { gold with bgpId := 16843010 }]
    (gold, 3) (by decide) ({ gold with bgpId := 16843010 }, 3) (by decide) (by decide)
  exact this rfl

-- the same for a different route distinguisher, pre-/post-policy (L flag) and peer type 0 / 1 / 2
example : (runOps (World.connected reg0 2) [.peerUp gold, .peerUp { gold with dist := 7, ptype := 1 }]).rt.peers.map (·.2) = [3, 3] := by decide
example : (runOps (World.connected reg0 2) [.peerUp gold, .peerUp { gold with flags := 64 }]).rt.peers.map (·.2) = [3, 3] := by decide
example : (runOps (World.connected reg0 2) [.peerUp gold, .peerUp { gold with ptype := 2 }]).rt.peers.map (·.2) = [3, 3] := by decide
-- the fields that *are* part of the identity: address, AS, Adj-RIB-Out (O flag), Loc-RIB
example : (runOps (World.connected reg0 2) [.peerUp gold, .peerUp { gold with addr := 5 }, .peerUp { gold with asn := 5 },
    .peerUp { gold with flags := 16 }, .peerUp { gold with ptype := 3 }]).rt.peers.map (·.2) = [3, 4, 5, 6, 7] := by decide

/-- **Identity, guarded.** Two up peers share an ingress id only if their headers agree on
    (address, AS, rib type): peers distinct on those fields never overwrite or withdraw each other. -/
theorem C02_identity_partial (reg : Register) (rid : Nat) (hreg : RegOk reg) (ops : List Op) :
    let w := runOps (World.connected reg rid) ops
    ∀ e1 ∈ w.rt.peers, ∀ e2 ∈ w.rt.peers,
      (e1.1.addr, e1.1.asn, e1.1.ribType) ≠ (e2.1.addr, e2.1.asn, e2.1.ribType) → e1.2 ≠ e2.2 := by
  intro w e1 h1 e2 h2 hne heq
  have hi : Inv w := Inv_runOps ops _ (Inv_connected reg rid hreg)
  have g1 := hi.peers_info e1 h1
  have g2 := hi.peers_info e2 h2
  rw [heq, g2] at g1
  simp only [query, Option.some.injEq, Info.mk.injEq, true_and] at g1
  exact hne (by simp [g1.1, g1.2.1, g1.2.2])

end Rotonda.Session
