import RotondaModel.Proofs.MqttConn
/-!
# MqttConn: the mqtt-out target beyond the publish queue (extends C17; C13 for `Reconfigure`)

Statements only; the invariants are in `Proofs/MqttConn.lean`. Every theorem quantifies over the
variant (unless it names one), the configuration table and the whole script: no bound on length.
-/
namespace Rotonda.MqttConn

/-! ## witnesses (replayed on the real code by the engine before anything else) -/

def cfgA : Cfg := ⟨0, 0, 0, 0, 1, 1, 1, 0⟩
/-- another client id: forces a reconnect -/
def cfgB : Cfg := ⟨1, 0, 0, 0, 1, 1, 1, 0⟩
/-- another `connect_retry_secs` only -/
def cfgR : Cfg := ⟨0, 0, 0, 0, 3, 1, 1, 0⟩
/-- other credentials only -/
def cfgU : Cfg := ⟨0, 0, 0, 0, 1, 1, 1, 2⟩

/-- `0.0.0.0.1.1.1.0;1.0.0.0.1.1.1.0|I;Ea;Im0,r1,m1;Ea;Im2` -/
def witnessReconnect : List Step :=
  [.burst [], .ev .accept, .burst [.msg 0, .cmd (.reconf 1), .msg 1], .ev .accept, .burst [.msg 2]]
/-- `0.0.0.0.1.1.1.0|Im0,m1;Ea;Im2` -/
def witnessStart : List Step := [.burst [.msg 0, .msg 1], .ev .accept, .burst [.msg 2]]
/-- `0.0.0.0.1.1.1.0;0.0.0.0.3.1.1.0|I;Ea;Ir1;Ed;T;T;T;Ea` -/
def witnessRetry : List Step :=
  [.burst [], .ev .accept, .burst [.cmd (.reconf 1)], .ev .drop, .tick, .tick, .tick, .ev .accept]
/-- `0.0.0.0.1.1.1.0;0.0.0.0.1.1.1.2|I;Ea;Ir1;Im0` -/
def witnessCred : List Step := [.burst [], .ev .accept, .burst [.cmd (.reconf 1)], .burst [.msg 0]]
/-- `0.0.0.0.1.1.1.0|I;Ea;Im0,x` -/
def witnessTerm : List Step := [.burst [], .ev .accept, .burst [.msg 0, .cmd .term]]

/-! ## 1. nothing is invented, duplicated or reordered -/

/-- **Conservation, FIFO.** After any script: the messages taken from the publish queue so far
(handed to a client, or — in the `New` window — to nobody), followed by the messages still queued,
are exactly the messages `direct_update` accepted, in the order it accepted them. -/
theorem MqttConn_fifo_conservation (v : Variants) (cfgs : List Cfg) (steps : List Step) :
    consumed (run v cfgs steps).log ++ (run v cfgs steps).q.map (·.id) = (run v cfgs steps).enq :=
  (run_inv v cfgs steps).cons

/-- **At most once, in arrival order, over all connections.** The numbers of the messages handed
to `Client::publish` over the whole run — across every reconnect — are strictly increasing: no
message reaches a client twice (nothing is re-sent after a reconnect), and the overall order (not
merely the order per topic) is the order of arrival. -/
theorem MqttConn_at_most_once_in_order (v : Variants) (cfgs : List Cfg) (steps : List Step) :
    (attempted (run v cfgs steps).log).Pairwise (· < ·) :=
  attempted_sorted (run_inv v cfgs steps)

example : attempted (run asWritten [cfgA, cfgB] witnessReconnect).log = [2] := by decide

/-- **Every accepted message is accounted for.** A message `direct_update` accepted was handed to
a client, or taken while there was no client (`void`), or is still queued. -/
theorem MqttConn_accounted (v : Variants) (cfgs : List Cfg) (steps : List Step) :
    ∀ i ∈ (run v cfgs steps).enq,
      i ∈ attempted (run v cfgs steps).log ∨ i ∈ voided (run v cfgs steps).log
        ∨ i ∈ (run v cfgs steps).q.map (·.id) :=
  accounted (run_inv v cfgs steps)

/-- **A publish has exactly one outcome.** The publishes that did not return at once are, in
order, the ones that completed (accepted or cancelled by `publish_max_secs`) followed by the one
the run loop is blocked in, if any; there is never more than one. -/
theorem MqttConn_pending_resolved (v : Variants) (cfgs : List Cfg) (steps : List Step) :
    pendingIds (run v cfgs steps).log
      = completedIds (run v cfgs steps).log ++ ((run v cfgs steps).blocked.toList.map (·.m.id)) :=
  (run_inv v cfgs steps).pend

/-- **No publish on a connection after its `disconnect`.** -/
theorem MqttConn_no_publish_after_disconnect (v : Variants) (cfgs : List Cfg) (steps : List Step) :
    (run v cfgs steps).log.foldl discCheck (some []) ≠ none := by
  have h := (run_inv v cfgs steps).disc
  obtain ⟨ds, h1, _⟩ := h
  simp [h1]

/-! ## 2. what is lost, and when -/

/-- **The loss window, exactly.** One round of the run loop (not blocked, not terminated) loses
the *whole* publish queue when, after the queued commands have been handled, the connection is
one that has no client yet (the target has just started, or a `Reconfigure` among those commands
forced a reconnect) and the target was not told to terminate; otherwise it loses nothing. The lost
messages are counted as published. The repaired loop never loses anything this way. -/
theorem MqttConn_loss_window (v : Variants) (phase : Nat) (st : St) :
    voided (drain v phase st).log = voided st.log ++
      (if (handleCmds v { st with cmds := [] } st.cmds).term then [] else
        match (handleCmds v { st with cmds := [] } st.cmds).conn with
        | .fresh => if v.voidFix then [] else st.q.map (·.id)
        | .running _ => []) :=
  drain_voided v phase st

example : voided (drain asWritten 0 { init [cfgA] with q := [⟨7, 0, 0⟩, ⟨8, 1, 0⟩] }).log = [7, 8] := by decide

/-- **The target's counters.** "Published" counts the messages a client accepted *plus* the ones
taken while there was no client; "publish errors" counts the failed and timed-out publishes. -/
theorem MqttConn_counters (v : Variants) (cfgs : List Cfg) (steps : List Step) :
    (run v cfgs steps).okCnt = (accepted (run v cfgs steps).log).length + (voided (run v cfgs steps).log).length
      ∧ (run v cfgs steps).peCnt = (failed (run v cfgs steps).log).length :=
  (run_inv v cfgs steps).cnt

/-- A command leaves a connection without client exactly when it is a `Reconfigure` that changes
client id, destination or queue size (or, repaired, the credentials). -/
theorem MqttConn_reconnect_iff (v : Variants) (st : St) (k c : Nat) (h : st.conn = .running c) :
    (handleCmd v st (.reconf k)).conn = .fresh ↔ needsReconnect v st.cur (st.cfgs.getD k st.cur) = true := by
  cases hn : needsReconnect v st.cur (st.cfgs.getD k st.cur) <;> simp only [handleCmd, hn] <;> simp [h]

/-- The repaired run loop never takes a message while there is no client. -/
theorem MqttConn_repaired_never_voids (v : Variants) (hv : v.voidFix = true) (cfgs : List Cfg)
    (steps : List Step) : voided (run v cfgs steps).log = [] :=
  run_no_void v hv cfgs steps

/-- The full clause: while the broker accepts every publish and nobody terminates the target,
every message handed in is accepted by a client exactly once, in order. -/
def exactlyOnce_full (v : Variants) : Prop :=
  ∀ (cfgs : List Cfg) (steps : List Step), steps.all healthy = true →
    accepted (run v cfgs steps).log = List.range (run v cfgs steps).nextId

/-- **Exactly once, repaired.** Whatever is reconfigured, however often the connection is lost,
refused and re-established. -/
theorem MqttConn_exactly_once_repaired (v : Variants) (hv : v.voidFix = true) : exactlyOnce_full v :=
  fun cfgs steps h => by
    have := healthy_exact v cfgs steps h
    rw [this.1, ← voided_nil_consumed (run_no_void v hv cfgs steps), this.2]

/-- **Exactly once, as written, outside the loss window.** -/
theorem MqttConn_exactly_once_partial (v : Variants) (cfgs : List Cfg) (steps : List Step)
    (h : steps.all healthy = true) (hvoid : voided (run v cfgs steps).log = []) :
    accepted (run v cfgs steps).log = List.range (run v cfgs steps).nextId := by
  have := healthy_exact v cfgs steps h
  rw [this.1, ← voided_nil_consumed hvoid, this.2]

/-- **Messages are lost across a reconnecting `Reconfigure`** (and counted as published): the broker
accepts everything, nothing is terminated, three messages are handed in, one reaches a client. -/
theorem MqttConn_exactly_once_counterexample : ¬ exactlyOnce_full asWritten := by
  intro h
  have := h [cfgA, cfgB] witnessReconnect (by decide)
  revert this
  decide

theorem MqttConn_lost_at_start_counterexample :
    let st := run asWritten [cfgA] witnessStart
    accepted st.log = [2] ∧ voided st.log = [0, 1] ∧ st.okCnt = 3 := by decide

example : accepted (run repaired [cfgA, cfgB] witnessReconnect).log = [0, 1, 2] := by decide

/-! ## 3. termination -/

/-- **Nothing moves after `Terminate`.** -/
theorem MqttConn_terminated_is_final (v : Variants) (st : St) (h : st.term = true) (steps : List Step) :
    (steps.foldl (step v) st).log = st.log ∧ (steps.foldl (step v) st).q = st.q
      ∧ (steps.foldl (step v) st).term = true :=
  term_final v steps st h

/-- **`Terminate` drops the queue.** The message is accepted by `direct_update`, the command
overtakes it in the biased `select!`, the target stops, the message is never published. -/
theorem MqttConn_terminate_drops_counterexample :
    let st := run asWritten [cfgA] witnessTerm
    st.term = true ∧ st.enq = [0] ∧ attempted st.log = [] ∧ st.q.map (·.id) = [0] := by decide

/-! ## 4. `Reconfigure` of a running target (C13: "adopt changed settings") -/

/-- **The connection in use is the one the held settings describe**: client id, destination and
queue size always; the credentials and the reconnect delay in the repaired variants. -/
theorem MqttConn_connection_follows_config (v : Variants) (cfgs : List Cfg) (steps : List Step) :
    let st := run v cfgs steps
    st.connCfg.cid = st.cur.cid ∧ st.connCfg.dest = st.cur.dest ∧ st.connCfg.qs = st.cur.qs
      ∧ (v.credFix = true → st.connCfg.user = st.cur.user)
      ∧ (v.retryFix = true → st.retry = st.cur.retry) :=
  (run_inv v cfgs steps).cfg

/-- **The new `connect_retry_secs` is not adopted** by a running connection: it gets the value of the
configuration that is being replaced. -/
theorem MqttConn_retry_stale_counterexample :
    let st := run asWritten [cfgA, cfgR] witnessRetry
    st.cur.retry = 3 ∧ st.retry = 1 := by decide

example : (run repaired [cfgA, cfgR] witnessRetry).retry = 3 := by decide

/-- **New credentials are ignored**: no reconnect, the connection keeps the old ones. -/
theorem MqttConn_credentials_ignored_counterexample :
    let st := run asWritten [cfgA, cfgU] witnessCred
    st.cur.user = 2 ∧ st.connCfg.user = 0 ∧ st.conn = .running 0 := by decide

example : (run repaired [cfgA, cfgU] witnessCred).connCfg.user = 2 := by decide

/-- A `Reconfigure` stores the whole new configuration (topic template, qos, `publish_max_secs`
take effect for the next message handed in / published). -/
theorem MqttConn_reconfigure_stores_all (v : Variants) (st : St) (k : Nat) (h : k < st.cfgs.length) :
    (handleCmd v st (.reconf k)).cur = st.cfgs[k] := by
  unfold handleCmd
  simp only [List.getD_eq_getElem?_getD, List.getElem?_eq_getElem h, Option.getD_some]
  split <;> simp [disconnect] <;> split <;> rfl

/-! ## 5. connection handling -/

/-- **Nothing is polled during a back-off**: a broker event that arrives while the event-loop task
sleeps only queues. -/
theorem MqttConn_backoff_silent (st : St) (e : EvLoop) (b : Nat × Nat) (x : Ev)
    (h : st.ev = some e) (hb : e.backoff = some b) : (brokerEvent st x).log = st.log := by
  simp [brokerEvent, h, hb]

/-- **The target publishes whether or not the broker has accepted the connection**: the client is
handed over before anything is connected, and `publish` is called as soon as there is a client.
(With the real client the request waits in the library's queue.) -/
theorem MqttConn_publishes_before_connack :
    let st := run asWritten [cfgA] [.burst [], .burst [.msg 0]]
    st.up = false ∧ attempted st.log = [0] := by decide

end Rotonda.MqttConn
