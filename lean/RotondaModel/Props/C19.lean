import RotondaModel.Proofs.Escape
/-!
# C19 — text supplied by routers is always escaped in HTML output

Statements only (plus top-level proofs and non-vacuity examples).

The page templates are **extracted** from `router_info/response.rs` and `router_list/response.rs`
(`Generated/Escape.lean`, regenerated on every run): every format-string hole carries the expression
that reaches it and its class (`escaped` iff it flows through `html_escape::encode_safe`, `safe` =
numeric / typed / configuration, `raw` otherwise, `nested` = assembled from other templates).
The theorems are of two kinds: general ones about *any* template (what the classes guarantee), and
ones instantiated at the extracted templates, stated so that they hold both for the tree as written
(the router-info page has raw holes) and for a repaired tree (it has none).

"Structure of the document" is the *skeleton*: the sequence of `<`, `>`, `"`, `'` characters. If
the skeleton of a page does not depend on the router-supplied strings, no tag or attribute boundary
can be created, closed or moved by them.
-/
namespace Rotonda.Escape

/-! ## `html_escape::encode_safe` -/

/-- The output of `encode_safe` contains none of `<`, `>`, `"`, `'` — for every input. -/
theorem encodeSafe_inert (s : List Char) : skeleton (encodeSafe s) = [] := skeleton_encodeSafe s

def entities : List (List Char) :=
  [['&', 'a', 'm', 'p', ';'], ['&', 'l', 't', ';'], ['&', 'g', 't', ';'], ['&', 'q', 'u', 'o', 't', ';'],
   ['&', '#', 'x', '2', '7', ';'], ['&', '#', 'x', '2', 'F', ';']]

/-- … and every `&` in it starts an entity: each input character becomes either one of the six
    entities or itself, and in the latter case it is neither `&` nor structural. -/
theorem encodeSafe_entities (c : Char) :
    encodeSafeC c ∈ entities ∨ (encodeSafeC c = [c] ∧ c ≠ '&' ∧ structural c = false) := by
  unfold encodeSafeC
  split <;> try (left; simp [entities]; done)
  rename_i h1 h2 h3 h4 h5 h6
  right
  refine ⟨rfl, h1, ?_⟩
  have a : (c == '<') = false := by simpa using h2
  have b : (c == '>') = false := by simpa using h3
  have d : (c == '"') = false := by simpa using h4
  have e : (c == '\'') = false := by simpa using h5
  simp [structural, a, b, d, e]

/-- Slicing the escaped text (the router list cuts it at 61 bytes) cannot bring a structural
    character back. -/
theorem slice61_inert (s : List Char) : skeleton (slice61 (encodeSafe s)) = [] := skeleton_slice61 s

example : encodeSafe "<a href='x'>&\"/".toList = "&lt;a href=&#x27;x&#x27;&gt;&amp;&quot;&#x2F;".toList := by decide

/-! ## What the hole classes guarantee, for any template -/

/-- If no hole of a template is raw or nested, the skeleton of the rendered text is the skeleton of
    the template's own text — **for every assignment of strings to the holes**. -/
theorem C19_html (t : Template) (h : AllEscaped t) (inp : Env) :
    skeleton (render t inp) = skeleton (lits t) :=
  skeleton_render_closed t h inp

/-- Guarded version for templates with open holes: it still holds whenever the strings that reach
    the raw / nested holes happen to be free of structural characters. -/
theorem C19_html_partial (t : Template) (inp : Env)
    (h : ∀ s ∈ t, ∀ e cls sl why, s = .hole e cls sl why → isOpenHole s = true → skeleton (inp e) = []) :
    skeleton (render t inp) = skeleton (lits t) :=
  skeleton_render_calm t inp h

/-- And the guard is necessary: every raw hole is exploitable — the string `<` in that one field
    (all other fields empty) changes the skeleton. -/
theorem C19_raw_breaks (t : Template) (e : String) (sl : Bool) (why : String)
    (h : Seg.hole e .raw sl why ∈ t) :
    ∃ inp : Env, (∀ e', e' ≠ e → inp e' = []) ∧ skeleton (render t inp) ≠ skeleton (lits t) := by
  refine ⟨attack e, fun e' hne => by simp [attack, hne], ?_⟩
  intro heq
  have := skeleton_render_attack_gt e t sl why h
  rw [heq] at this
  exact Nat.lt_irrefl _ this

example : ∃ inp : Env, skeleton (render [.lit "<td>", .hole "sys_name" .raw false "", .lit "</td>"] inp)
    ≠ skeleton (lits [.lit "<td>", .hole "sys_name" .raw false "", .lit "</td>"]) := by
  obtain ⟨inp, _, h⟩ := C19_raw_breaks [.lit "<td>", .hole "sys_name" .raw false "", .lit "</td>"] "sys_name" false ""
    (by simp)
  exact ⟨inp, h⟩

example : AllEscaped [.lit "<td>", .hole "sys_name" .escaped true "", .lit "</td>"] := by decide

/-! ## The extracted templates -/

/-- Every extracted template, as written or repaired: the skeleton is the template's own whenever
    its open holes receive harmless text (for templates without open holes: always). -/
theorem C19_templates_partial : ∀ nt ∈ Generated.templates, ∀ inp : Env,
    (∀ s ∈ nt.2, ∀ e cls sl why, s = .hole e cls sl why → isOpenHole s = true → skeleton (inp e) = []) →
    skeleton (render nt.2 inp) = skeleton (lits nt.2) :=
  fun nt _ inp h => skeleton_render_calm nt.2 inp h

/-- The full claim about the extracted templates: no raw hole anywhere. -/
def C19_templates_full : Prop := ∀ nt ∈ Generated.templates, rawHoles nt.2 = []

instance : Decidable C19_templates_full := by unfold C19_templates_full; exact inferInstance

/-- Whatever raw hole the extractor finds in the current tree is a counterexample to the property
    on that template (vacuous on a tree without raw holes). -/
theorem C19_templates_counterexample : ∀ nt ∈ Generated.templates, ∀ e sl why,
    Seg.hole e .raw sl why ∈ nt.2 →
    ∃ inp : Env, (∀ e', e' ≠ e → inp e' = []) ∧ skeleton (render nt.2 inp) ≠ skeleton (lits nt.2) :=
  fun nt _ e sl why h => C19_raw_breaks nt.2 e sl why h

/-- The router list (header, both row templates, footer) has no open hole: sysName and sysDescr
    flow through `encode_safe`. (Breaks if the escaping is removed.) -/
theorem C19_router_list_templates :
    AllEscaped Generated.routerList_build_response_header_0
    ∧ AllEscaped Generated.routerList_build_response_body_0
    ∧ AllEscaped Generated.routerList_build_response_body_1
    ∧ AllEscaped Generated.routerList_build_response_footer_0
    ∧ AllEscaped Generated.routerList_build_response_footer_1
    ∧ AllEscaped Generated.routerList_build_response_footer_2
    ∧ AllEscaped Generated.routerList_build_response_footer_3 := by
  decide

/-- **Router list page.** Two lists of routers of the same shape (same number of rows, the same
    rows having TLVs) give pages with the same skeleton — whatever sysName / sysDescr say. -/
theorem C19_router_list_page (rows rows' : List (Option (List Char × List Char)))
    (shape : rows.map Option.isSome = rows'.map Option.isSome) :
    skeleton (listPage rows) = skeleton (listPage rows') := by
  have hl := C19_router_list_templates
  have hrow : ∀ r : Option (List Char × List Char), skeleton (listRow r) =
      skeleton (lits (if r.isSome then Generated.routerList_build_response_body_0
                      else Generated.routerList_build_response_body_1)) := by
    intro r
    cases r with
    | none => exact C19_html _ hl.2.2.1 _
    | some p => exact C19_html _ hl.2.1 _
  have hrows : ∀ (a b : List (Option (List Char × List Char))), a.map Option.isSome = b.map Option.isSome →
      skeleton (a.flatMap listRow) = skeleton (b.flatMap listRow) := by
    intro a
    induction a with
    | nil => intro b hb; cases b with
      | nil => rfl
      | cons _ _ => simp at hb
    | cons x a ih => intro b hb; cases b with
      | nil => simp at hb
      | cons y b =>
        simp only [List.map_cons, List.cons.injEq] at hb
        simp only [List.flatMap_cons, skeleton_append, hrow, hb.1, ih b hb.2]
  simp only [listPage, skeleton_append, hrows rows rows' shape]

example : skeleton (listPage [some ("<script>".toList, "'\"".toList), none])
    = skeleton (listPage [some ([], []), none]) :=
  C19_router_list_page _ _ rfl

end Rotonda.Escape
