import RotondaModel.Model.Mrt
/-!
# C16 — MRT import reproduces the file

Model: `Model/Mrt.lean` (`processFile`, `runQueue`). Statements are at the
level of the `Update`s that leave the unit's gate (what a downstream RIB
applies, C01's subject) and of the ingress register.
-/
namespace Rotonda.Mrt

/-! ## helper lemmas -/

theorem registerAll_spec (r : Reg) (parent : Nat) (ps : List Peer) :
    (registerAll r parent ps).2 = (List.range ps.length).map (r.next + ·) ∧
    (registerAll r parent ps).1.next = r.next + ps.length ∧
    (registerAll r parent ps).1.infos =
      r.infos ++ ((List.range ps.length).zip ps).map (fun e => (r.next + e.1, parent, e.2)) := by
  induction ps generalizing r with
  | nil => simp [registerAll]
  | cons p ps ih =>
    have h := ih (r.register parent p).1
    simp only [Reg.register] at h
    obtain ⟨h1, h2, h3⟩ := h
    simp only [registerAll, Reg.register, List.length_cons]
    refine ⟨?_, ?_, ?_⟩
    · rw [h1, List.range_succ_eq_map]
      simp [Nat.add_assoc, Nat.add_comm 1]
    · rw [h2]; omega
    · rw [h3, List.range_succ_eq_map]
      simp [List.zip_map_left, Nat.add_assoc, Nat.add_comm 1, Function.comp_def]

/-- A dump body that the reader can walk: only unicast RIB records, none empty, every peer index inside the table. -/
def wellFormedRibs (npeers : Nat) : List (Bool × Nat × List (Nat × Nat)) → Bool
  | [] => true
  | (_, _, es) :: rest => !es.isEmpty && es.all (fun e => e.1 < npeers) && wellFormedRibs npeers rest

def ribRec (r : Bool × Nat × List (Nat × Nat)) : Rec := .rib r.1 r.2.1 r.2.2

/-- The spec of the dump part: one `Single` per entry, in file order, with the id registered for its peer. -/
def dumpSpec (base : Nat) (ribs : List (Bool × Nat × List (Nat × Nat))) : List Upd :=
  ribs.flatMap fun r => r.2.2.map fun e => .single r.1 r.2.1 (base + e.1) e.2

theorem dumpEntries_ok (v6 : Bool) (pfx base n : Nat) (es : List (Nat × Nat))
    (h : es.all (fun e => e.1 < n) = true) :
    dumpEntries v6 pfx ((List.range n).map (base + ·)) es =
      (es.map fun e => .single v6 pfx (base + e.1) e.2, false) := by
  induction es with
  | nil => rfl
  | cons e es ih =>
    simp only [List.all_cons, Bool.and_eq_true, decide_eq_true_eq] at h
    obtain ⟨he, hes⟩ := h
    obtain ⟨idx, a⟩ := e
    simp only at he
    simp [dumpEntries, he, ih hes]

theorem dumpLoop_ok (base n : Nat) (ribs : List (Bool × Nat × List (Nat × Nat)))
    (h : wellFormedRibs n ribs = true) :
    dumpLoop ((List.range n).map (base + ·)) (ribs.map ribRec) = (dumpSpec base ribs, false) := by
  induction ribs with
  | nil => rfl
  | cons r ribs ih =>
    obtain ⟨v6, pfx, es⟩ := r
    simp only [wellFormedRibs, Bool.and_eq_true, Bool.not_eq_true', List.isEmpty_eq_false_iff] at h
    obtain ⟨⟨hne, hall⟩, hrest⟩ := h
    cases es with
    | nil => exact absurd rfl hne
    | cons e es =>
      simp only [List.map_cons, ribRec, dumpLoop, dumpEntries_ok v6 pfx base n (e :: es) hall, ih hrest]
      simp [dumpSpec]

theorem msgLoop_ribs (v : Variant) (parent : Nat) (reg : Reg) (ribs : List (Bool × Nat × List (Nat × Nat))) :
    msgLoop v parent reg (ribs.map ribRec) = ⟨reg, [], .ok⟩ := by
  induction ribs with
  | nil => rfl
  | cons r ribs ih => simp [ribRec, msgLoop, ih]

/-! ## the dump part -/

/-- **C16 (dump).** For every readable file made of a peer index table of any
    size followed by any number of well-formed IPv4/IPv6 unicast RIB records:
    the unit registers one ingress id per peer (consecutive, with this unit as
    parent) and emits exactly one `Single` per RIB entry, in file order,
    attributed to the id of the entry's peer (`base + peer index`), then ends
    normally. -/
theorem C16_dump (v : Variant) (parent : Nat) (reg : Reg) (c : Comp) (hc : c.readable = true)
    (ps : List Peer) (ribs : List (Bool × Nat × List (Nat × Nat)))
    (h : wellFormedRibs ps.length ribs = true) :
    let r := processFile v parent reg ⟨c, .peerIndex ps :: ribs.map ribRec⟩
    r.out = dumpSpec reg.next ribs ∧ r.status = .ok ∧ r.reg.next = reg.next + ps.length ∧
    r.reg.infos = reg.infos ++ ((List.range ps.length).zip ps).map (fun e => (reg.next + e.1, parent, e.2)) := by
  obtain ⟨h1, h2, h3⟩ := registerAll_spec reg parent ps
  simp only [processFile, hc, Bool.not_true, Bool.false_eq_true, if_false]
  rw [show registerAll reg parent ps = ((registerAll reg parent ps).1, (registerAll reg parent ps).2) from rfl, h1]
  simp only [dumpLoop_ok reg.next ps.length ribs h]
  simp only [msgLoop, msgLoop_ribs]
  simp [h2, h3]

example : (processFile asWritten 1 ⟨2, []⟩ ⟨.gzip, [.peerIndex [⟨0, 65001⟩, ⟨3, 65002⟩], .rib false 0 [(0, 1), (1, 2)], .rib true 1 [(1, 3)]]⟩).out
    = [.single false 0 2 1, .single false 0 3 2, .single true 1 3 3] := by decide

/-! ## the messages part -/

def Rec.isBgp4mpSupported : Rec → Bool
  | .msg _ _ => true
  | .stateChange _ _ _ => true
  | _ => false

/-- The exploded content of the UPDATE messages of a file, in file order. -/
def updatesOf : List Rec → List (Peer × Bool × List Nat × List Nat)
  | [] => []
  | .msg p (.update v6 ann wd _) :: rest => (p, v6, ann, wd) :: updatesOf rest
  | _ :: rest => updatesOf rest

def bulksOf : List Upd → List (Nat × Bool × List Nat × List Nat)
  | [] => []
  | .bulk id v6 ann wd :: rest => (id, v6, ann, wd) :: bulksOf rest
  | _ :: rest => bulksOf rest

theorem bulksOf_append (a b : List Upd) : bulksOf (a ++ b) = bulksOf a ++ bulksOf b := by
  induction a with
  | nil => rfl
  | cons u a ih => cases u <;> simp [bulksOf, ih]

theorem bulksOf_withdraws (w : List Upd) (h : ∀ u ∈ w, ∃ id, u = .withdraw id) : bulksOf w = [] := by
  induction w with
  | nil => rfl
  | cons u w ih =>
    obtain ⟨id, rfl⟩ := h u (by simp)
    simp [bulksOf, ih (fun u' hu' => h u' (by simp [hu']))]

/-- One UPDATE as RFC 4271 4.3 reads it: "an UPDATE message [that includes] the same address
    prefix in the WITHDRAWN ROUTES and Network Layer Reachability Information fields [is
    treated] as though the WITHDRAWN ROUTES do not contain the address prefix": its
    announcements, and its withdrawals of prefixes it does not announce. -/
def effective (u : Bool × List Nat × List Nat) : Bool × List Nat × List Nat :=
  (u.1, u.2.1, u.2.2.filter (fun p => !u.2.1.contains p))

/-- What the code does, for every variant: one `Bulk` per UPDATE, in file order, carrying its
    announcements and `keptWd` of its withdrawals. -/
theorem updates_in_order_gen (v : Variant) (parent : Nat) (reg : Reg) (recs : List Rec)
    (h : recs.all Rec.isBgp4mpSupported = true) :
    ((bulksOf (msgLoop v parent reg recs).out).map fun b => b.2) =
      (updatesOf recs).map (fun u => (u.2.1, u.2.2.1, keptWd v u.2.2.1 u.2.2.2)) ∧
    (msgLoop v parent reg recs).status = .ok := by
  induction recs generalizing reg with
  | nil => simp [msgLoop, bulksOf, updatesOf]
  | cons r recs ih =>
    simp only [List.all_cons, Bool.and_eq_true] at h
    obtain ⟨hr, hrest⟩ := h
    cases r with
    | msg p m =>
      cases m with
      | update v6 ann wd a =>
        simp only [msgLoop, bulksOf, updatesOf, List.map_cons]
        split <;> (rename_i heq; simp [ih _ hrest])
      | other => simpa [msgLoop, updatesOf] using ih reg hrest
      | garbage => simpa [msgLoop, updatesOf] using ih reg hrest
    | stateChange p old new =>
      have hw : ∀ w : List Upd, (∀ u ∈ w, ∃ id, u = .withdraw id) →
          bulksOf (w ++ (msgLoop v parent reg recs).out) = bulksOf (msgLoop v parent reg recs).out := by
        intro w hw; rw [bulksOf_append, bulksOf_withdraws w hw]; rfl
      simp only [msgLoop, updatesOf]
      refine ⟨?_, (ih reg hrest).2⟩
      rw [hw]
      · exact (ih reg hrest).1
      · intro u hu
        split at hu
        · split at hu
          · simp only [List.mem_singleton] at hu; exact ⟨_, hu⟩
          · simp at hu
        · simp at hu
    | _ => simp [Rec.isBgp4mpSupported] at hr

/-- The clause at full strength: for every file made only of BGP4MP messages and state
    changes (any number, any peers), the `Bulk` updates that leave the gate are, one for one
    and in file order, the UPDATE messages of the file with their announcements and
    withdrawals as RFC 4271 4.3 reads them — none lost, none invented, none reordered, and a
    prefix that one UPDATE both withdraws and announces leaves as its announcement only —
    and processing ends normally. -/
def C16_updates_full (v : Variant) : Prop :=
  ∀ (parent : Nat) (reg : Reg) (recs : List Rec), recs.all Rec.isBgp4mpSupported = true →
    ((bulksOf (msgLoop v parent reg recs).out).map fun b => b.2) = (updatesOf recs).map (fun u => effective u.2) ∧
    (msgLoop v parent reg recs).status = .ok

/-- **C16 (updates in file order). Repaired (`explode_update` in `process_message`): the
    clause holds**, whatever the other sites are. -/
theorem C16_updates_in_order (v : Variant) (hv : v.ov = .repaired) : C16_updates_full v := by
  intro parent reg recs h
  have := updates_in_order_gen v parent reg recs h
  simpa [keptWd, hv, effective] using this

/-- **As written (`explode_announcements` then `explode_withdrawals`)**: one `Bulk` per UPDATE in
    file order carrying *all* its announcements followed by *all* its withdrawals … -/
theorem C16_updates_as_written (v : Variant) (hv : v.ov = .asWritten) (parent : Nat) (reg : Reg)
    (recs : List Rec) (h : recs.all Rec.isBgp4mpSupported = true) :
    ((bulksOf (msgLoop v parent reg recs).out).map fun b => b.2) = (updatesOf recs).map (fun u => u.2) ∧
    (msgLoop v parent reg recs).status = .ok := by
  have := updates_in_order_gen v parent reg recs h
  simpa [keptWd, hv] using this

/-- … which is the clause on every file none of whose UPDATEs withdraws a prefix it announces
    (guard, decidable; any variant). -/
theorem C16_updates_partial (v : Variant) (parent : Nat) (reg : Reg) (recs : List Rec)
    (h : recs.all Rec.isBgp4mpSupported = true)
    (hno : ∀ u ∈ updatesOf recs, ∀ p ∈ u.2.2.2, p ∉ u.2.2.1) :
    ((bulksOf (msgLoop v parent reg recs).out).map fun b => b.2) = (updatesOf recs).map (fun u => effective u.2) ∧
    (msgLoop v parent reg recs).status = .ok := by
  have hg := updates_in_order_gen v parent reg recs h
  refine ⟨?_, hg.2⟩
  rw [hg.1]
  apply List.map_congr_left
  intro u hu
  have hf : u.2.2.2.filter (fun p => !u.2.2.1.contains p) = u.2.2.2 := by
    rw [List.filter_eq_self]; intro p hp; simpa using hno u hu p hp
  simp only [keptWd, effective]
  cases v.ov
  · simp only [hf]
  · rfl

/-- **As written the clause fails**: one UPDATE that withdraws and announces 203.0.113.7/32
    (prefix number 4) leaves the gate as `+p -p`. The engine replays this file first. -/
theorem C16_updates_counterexample : ¬ C16_updates_full asWritten := by
  intro h
  have := (h 1 ⟨2, []⟩ [.msg ⟨0, 65001⟩ (.update false [4] [4] 1)] (by decide)).1
  revert this; decide

/-- **An overlapped prefix yields exactly its announcement** (repaired, any file at all, any
    record mix): no `Bulk` that leaves the gate withdraws a prefix it announces. -/
theorem C16_overlap_yields_only_announcement (v : Variant) (hv : v.ov = .repaired) (parent : Nat)
    (reg : Reg) (recs : List Rec) :
    ∀ b ∈ bulksOf (msgLoop v parent reg recs).out, ∀ p ∈ b.2.2.1, p ∉ b.2.2.2 := by
  induction recs generalizing reg with
  | nil => simp [msgLoop, bulksOf]
  | cons r recs ih =>
    cases r with
    | msg q m =>
      cases m with
      | update v6 ann wd a =>
        simp only [msgLoop]
        split <;>
          (simp only [bulksOf, List.mem_cons]
           intro b hb p hp
           rcases hb with rfl | hb
           · simp only [keptWd, hv, List.mem_filter] at hp ⊢
             intro hc; simp [hp] at hc
           · exact ih _ b hb p hp)
      | other => simpa [msgLoop] using ih reg
      | garbage => simpa [msgLoop] using ih reg
    | stateChange q old new =>
      simp only [msgLoop]
      have hw : ∀ w : List Upd, (∀ u ∈ w, ∃ id, u = .withdraw id) →
          bulksOf (w ++ (msgLoop v parent reg recs).out) = bulksOf (msgLoop v parent reg recs).out := by
        intro w hw; rw [bulksOf_append, bulksOf_withdraws w hw]; rfl
      rw [hw]
      · exact ih reg
      · intro u hu
        split at hu
        · split at hu
          · simp only [List.mem_singleton] at hu; exact ⟨_, hu⟩
          · simp at hu
        · simp at hu
    | peerIndex ps => simpa [msgLoop] using ih reg
    | rib v6 pfx es => simpa [msgLoop] using ih reg
    | ribOther => simpa [msgLoop] using ih reg
    | localMsg => simp [msgLoop, bulksOf]
    | otherType => simp [msgLoop, bulksOf]

-- non-vacuity: an UPDATE announcing 4 and 1 and withdrawing 4 and 2 leaves as +4 +1 -2 (repaired), +4 +1 -4 -2 (as written)
example : (msgLoop repaired 1 ⟨2, []⟩ [.msg ⟨0, 65001⟩ (.update false [4, 1] [4, 2] 1)]).out = [.bulk 2 false [4, 1] [2]] ∧
    (msgLoop asWritten 1 ⟨2, []⟩ [.msg ⟨0, 65001⟩ (.update false [4, 1] [4, 2] 1)]).out = [.bulk 2 false [4, 1] [4, 2]] := by decide

/-- **C16 (attribution).** An UPDATE of a peer already registered under this
    unit (by an earlier dump or an earlier message) is attributed to that
    peer's id, and the register is left unchanged by it. -/
theorem C16_attribution_known (v : Variant) (parent : Nat) (reg : Reg) (p : Peer) (id : Nat)
    (v6 : Bool) (ann wd : List Nat) (a : Nat) (rest : List Rec)
    (h : reg.find (some parent) p = some id) :
    msgLoop v parent reg (.msg p (.update v6 ann wd a) :: rest) =
      ⟨(msgLoop v parent reg rest).reg, .bulk id v6 ann (keptWd v ann wd) :: (msgLoop v parent reg rest).out, (msgLoop v parent reg rest).status⟩ := by
  simp [msgLoop, h]

/-- … and an UPDATE of an unknown peer registers it (fresh id, this unit as
    parent), so that the next message of the same peer finds that id. -/
theorem C16_attribution_fresh (parent : Nat) (reg : Reg) (p : Peer)
    (h : reg.find (some parent) p = none) :
    (reg.register parent p).1.find (some parent) p = some reg.next := by
  simp only [Reg.find] at h ⊢
  split at h
  · simp at h
  · rename_i hnone
    simp only [Reg.register, List.find?_append, hnone]
    simp

/-! ## state changes -/

/-- The clause at full strength: an Established→Idle state change of a peer registered under this unit withdraws that peer's id. -/
def C16_state_change_full (v : Variant) : Prop :=
  ∀ parent reg p id rest, reg.find (some parent) p = some id →
    .withdraw id ∈ (msgLoop v parent reg (.stateChange p established idle :: rest)).out

/-- **Repaired (`with_parent(parent_id)` in the query): the clause holds.** -/
theorem C16_state_change (v : Variant) (hv : v.sc = .repaired) : C16_state_change_full v := by
  intro parent reg p id rest h
  simp [msgLoop, hv, h]

/-- **As written: no input whatsoever makes the unit emit a withdrawal.** -/
theorem C16_as_written_never_withdraws (v : Variant) (hv : v.sc = .asWritten) (parent : Nat)
    (reg : Reg) (recs : List Rec) (id : Nat) : .withdraw id ∉ (msgLoop v parent reg recs).out := by
  induction recs generalizing reg with
  | nil => simp [msgLoop]
  | cons r recs ih =>
    cases r with
    | msg p m =>
      cases m with
      | update v6 ann wd a => simp only [msgLoop]; split <;> simp [ih]
      | other => simpa [msgLoop] using ih reg
      | garbage => simpa [msgLoop] using ih reg
    | stateChange p old new => simp [msgLoop, hv, Reg.find, ih]
    | peerIndex ps => simpa [msgLoop] using ih reg
    | rib v6 pfx es => simpa [msgLoop] using ih reg
    | ribOther => simpa [msgLoop] using ih reg
    | localMsg => simp [msgLoop]
    | otherType => simp [msgLoop]

theorem C16_state_change_counterexample : ¬ C16_state_change_full asWritten := by
  intro h
  have := h 1 ⟨3, [(2, 1, ⟨0, 65001⟩)]⟩ ⟨0, 65001⟩ 2 [] (by decide)
  exact C16_as_written_never_withdraws asWritten rfl _ _ _ _ this

-- the premise of the clause is satisfiable: after a dump the peer is found
example : (processFile asWritten 1 ⟨2, []⟩ ⟨.plain, [.peerIndex [⟨0, 65001⟩], .rib false 0 [(0, 1)]]⟩).reg.find (some 1) ⟨0, 65001⟩ = some 2 := by decide

/-! ## the queue -/

/-- **C16 (queue order).** As long as no file panics, the queue is processed
    strictly in order: the output is the concatenation, in queue order, of each
    file's own output, each file starting from the register the previous one
    left, and every enqueuer is answered. -/
theorem C16_queue_order (v : Variant) (parent : Nat) (reg : Reg) (f : File) (fs : List File)
    (h : (processFile v parent reg f).status ≠ .panic) :
    runQueue v parent reg (f :: fs) =
      ⟨(runQueue v parent (processFile v parent reg f).reg fs).reg,
       (processFile v parent reg f).out ++ (runQueue v parent (processFile v parent reg f).reg fs).out,
       true :: (runQueue v parent (processFile v parent reg f).reg fs).resps⟩ := by
  simp only [runQueue]
  split
  · rename_i hs _; exact absurd hs h
  · rfl

/-- **C16 (an unreadable file affects only itself), I/O and decoding errors.**
    A missing or undecodable file contributes nothing, changes nothing, and
    the rest of the queue is processed as if it had not been there. -/
theorem C16_unreadable_isolated (v : Variant) (parent : Nat) (reg : Reg) (f : File) (fs : List File)
    (h : f.comp.readable = false) :
    runQueue v parent reg (f :: fs) =
      ⟨(runQueue v parent reg fs).reg, (runQueue v parent reg fs).out, true :: (runQueue v parent reg fs).resps⟩ := by
  have hp : processFile v parent reg f = ⟨reg, [], .err⟩ := by simp [processFile, h]
  rw [C16_queue_order v parent reg f fs (by rw [hp]; simp), hp]
  simp

/-- The clause at full strength: whatever a file does, the files queued after it are processed and every enqueuer is answered. -/
def C16_isolation_full (v : Variant) : Prop :=
  ∀ parent reg f fs,
    (runQueue v parent reg (f :: fs)).resps = true :: (runQueue v parent (processFile v parent reg f).reg fs).resps ∧
    (runQueue v parent reg (f :: fs)).out = (processFile v parent reg f).out ++ (runQueue v parent (processFile v parent reg f).reg fs).out

/-- **Repaired (each file in its own task): full isolation.** -/
theorem C16_isolation (v : Variant) (hv : v.iso = .repaired) : C16_isolation_full v := by
  intro parent reg f fs
  simp only [runQueue, hv]
  split
  · rename_i h; cases h
  · simp

/-- **As written: one panicking file (here: a multicast RIB subtype) silences the queue.** -/
theorem C16_isolation_counterexample : ¬ C16_isolation_full asWritten := by
  intro h
  have := (h 1 ⟨2, []⟩ ⟨.plain, [.peerIndex [⟨0, 65001⟩], .ribOther]⟩
    [⟨.plain, [.peerIndex [⟨3, 65002⟩], .rib true 1 [(0, 2)]]⟩]).1
  revert this; decide

/-! ## the peer index loop (`dumpreg` site)

`processFileD d` / `runQueueD d` are `process_file` / the queue consumer with the peer index loop as
written (`d = .asWritten`: `register()` + `update_info` per entry, no lookup — these *are*
`processFile` / `runQueue`, so every theorem above speaks about them) or repaired
(`d = .repaired`: `find_or_register_peer` per entry). Everything above that goes through `msgLoop`
only does not depend on the site. -/

theorem processFileD_asWritten (v : Variant) (parent : Nat) (reg : Reg) (f : File) :
    processFileD .asWritten v parent reg f = processFile v parent reg f := by
  simp only [processFileD, processFile, peerIndexLoop]

theorem runQueueD_asWritten (v : Variant) (parent : Nat) (reg : Reg) (fs : List File) :
    runQueueD .asWritten v parent reg fs = runQueue v parent reg fs := by
  induction fs generalizing reg with
  | nil => rfl
  | cons f fs ih => simp only [runQueueD, runQueue, processFileD_asWritten, ih]

/-! ### the register: lookups are stable, identities registered once stay registered once
(the register lemmas of `Proofs/PipeMrt.lean`, restated here because that file imports this one) -/

theorem Reg.find_eq (r : Reg) (par : Nat) (q : Peer) :
    r.find (some par) q = (r.infos.find? (fun e => decide (e.2.1 = par ∧ e.2.2 = q))).map (·.1) := by
  simp only [Reg.find]
  split <;> rename_i h <;> rw [h] <;> rfl

theorem Reg.find_register (r : Reg) (par par' : Nat) (p q : Peer) :
    (r.register par p).1.find (some par') q =
      match r.find (some par') q with
      | some id => some id
      | none => if par = par' ∧ p = q then some r.next else none := by
  simp only [Reg.find_eq, Reg.register, List.find?_append]
  cases r.infos.find? (fun e => decide (e.2.1 = par' ∧ e.2.2 = q)) with
  | some e => rfl
  | none =>
    by_cases h : par = par' ∧ p = q
    · simp [h]
    · simp [h]

/-- `find_or_register_peer`, as `process_message` and the repaired peer index loop use it. -/
def Reg.lookupOrRegister (r : Reg) (par : Nat) (p : Peer) : Reg × Nat :=
  match r.find (some par) p with
  | some id => (r, id)
  | none => r.register par p

theorem Reg.lookupOrRegister_find (r : Reg) (par : Nat) (p : Peer) :
    (r.lookupOrRegister par p).1.find (some par) p = some (r.lookupOrRegister par p).2 := by
  unfold Reg.lookupOrRegister
  cases h : r.find (some par) p with
  | some id => exact h
  | none => rw [Reg.find_register, h]; simp [Reg.register]

theorem Reg.lookupOrRegister_mono (r : Reg) (par : Nat) (p q : Peer) (id : Nat)
    (h : r.find (some par) q = some id) : (r.lookupOrRegister par p).1.find (some par) q = some id := by
  unfold Reg.lookupOrRegister
  cases r.find (some par) p with
  | some _ => exact h
  | none => rw [Reg.find_register, h]

theorem msgLoop_update (v : Variant) (par : Nat) (reg : Reg) (p : Peer) (v6 : Bool) (ann wd : List Nat)
    (a : Nat) (rest : List Rec) :
    msgLoop v par reg (.msg p (.update v6 ann wd a) :: rest) =
      ⟨(msgLoop v par (reg.lookupOrRegister par p).1 rest).reg,
       .bulk (reg.lookupOrRegister par p).2 v6 ann (keptWd v ann wd) :: (msgLoop v par (reg.lookupOrRegister par p).1 rest).out,
       (msgLoop v par (reg.lookupOrRegister par p).1 rest).status⟩ := by
  simp only [msgLoop, Reg.lookupOrRegister]
  cases reg.find (some par) p <;> rfl

theorem lookupAll_cons (r : Reg) (par : Nat) (p : Peer) (ps : List Peer) :
    lookupAll r par (p :: ps) =
      ((lookupAll (r.lookupOrRegister par p).1 par ps).1,
       (r.lookupOrRegister par p).2 :: (lookupAll (r.lookupOrRegister par p).1 par ps).2) := by
  simp only [lookupAll, Reg.lookupOrRegister]
  cases r.find (some par) p <;> rfl

/-- A peer that the register answers an id for keeps that id through a peer index loop … -/
theorem lookupAll_find_mono (par : Nat) (ps : List Peer) (r : Reg) (q : Peer) (id : Nat)
    (h : r.find (some par) q = some id) : (lookupAll r par ps).1.find (some par) q = some id := by
  induction ps generalizing r with
  | nil => exact h
  | cons p ps ih => rw [lookupAll_cons]; exact ih _ (r.lookupOrRegister_mono par p q id h)

/-- … and through the messages pass of a file. -/
theorem msgLoop_find_mono (v : Variant) (par : Nat) (recs : List Rec) (reg : Reg) (q : Peer) (id : Nat)
    (h : reg.find (some par) q = some id) : (msgLoop v par reg recs).reg.find (some par) q = some id := by
  induction recs generalizing reg with
  | nil => exact h
  | cons r recs ih =>
    cases r with
    | msg p m =>
      cases m with
      | update v6 ann wd a => rw [msgLoop_update]; exact ih _ (reg.lookupOrRegister_mono par p q id h)
      | other => simpa [msgLoop] using ih reg h
      | garbage => simpa [msgLoop] using ih reg h
    | stateChange p old new => simpa [msgLoop] using ih reg h
    | peerIndex ps => simpa [msgLoop] using ih reg h
    | rib v6 pfx es => simpa [msgLoop] using ih reg h
    | ribOther => simpa [msgLoop] using ih reg h
    | localMsg => simpa [msgLoop] using h
    | otherType => simpa [msgLoop] using h

/-- The ids registered for peer `q` under unit `par`. -/
def Reg.idsOf (r : Reg) (par : Nat) (q : Peer) : List Nat :=
  (r.infos.filter fun e => e.2.1 = par ∧ e.2.2 = q).map (·.1)

/-- No identity `(parent, address, ASN)` is registered twice. -/
def Reg.OneIdPerPeer (r : Reg) : Prop := (r.infos.map (·.2)).Nodup

instance (r : Reg) : Decidable r.OneIdPerPeer := by unfold Reg.OneIdPerPeer; infer_instance

theorem Reg.find_none_iff (r : Reg) (par : Nat) (q : Peer) :
    r.find (some par) q = none ↔ (par, q) ∉ r.infos.map (·.2) := by
  rw [Reg.find_eq, Option.map_eq_none_iff, List.find?_eq_none]
  constructor
  · intro h hm
    obtain ⟨e, he, heq⟩ := List.mem_map.mp hm
    apply h e he
    simp only [decide_eq_true_eq]
    exact ⟨by rw [heq], by rw [heq]⟩
  · intro h e he hp
    simp only [decide_eq_true_eq] at hp
    exact h (List.mem_map.mpr ⟨e, he, Prod.ext hp.1 hp.2⟩)

theorem inj_of_nodup_map {α β : Type} (f : α → β) (l : List α) (h : (l.map f).Nodup) (x y : α)
    (hx : x ∈ l) (hy : y ∈ l) (hxy : f x = f y) : x = y := by
  induction l with
  | nil => cases hx
  | cons a l ih =>
    simp only [List.map_cons, List.nodup_cons, List.mem_map, not_exists, not_and] at h
    rcases List.mem_cons.mp hx with rfl | hx' <;> rcases List.mem_cons.mp hy with rfl | hy'
    · rfl
    · exact absurd hxy.symm (h.1 y hy')
    · exact absurd hxy (h.1 x hx')
    · exact ih h.2 hx' hy'

/-- With identities registered once, the lookup answers *the* id of the peer. -/
theorem Reg.find_of_mem (r : Reg) (h : r.OneIdPerPeer) (id par : Nat) (q : Peer) (hm : (id, par, q) ∈ r.infos) :
    r.find (some par) q = some id := by
  rw [Reg.find_eq]
  cases hf : r.infos.find? (fun e => decide (e.2.1 = par ∧ e.2.2 = q)) with
  | none =>
    rw [List.find?_eq_none] at hf
    exact absurd (by simp) (hf _ hm)
  | some e =>
    have he := List.mem_of_find?_eq_some hf
    have hp := List.find?_some hf
    simp only [decide_eq_true_eq] at hp
    have : e = (id, par, q) :=
      inj_of_nodup_map (fun (x : Nat × Nat × Peer) => x.2) r.infos h e _ he hm (Prod.ext hp.1 hp.2)
    simp [this]

theorem Reg.mem_idsOf (r : Reg) (par : Nat) (q : Peer) (id : Nat) :
    id ∈ r.idsOf par q ↔ (id, par, q) ∈ r.infos := by
  simp only [Reg.idsOf, List.mem_map, List.mem_filter, decide_eq_true_eq]
  constructor
  · rintro ⟨e, ⟨he, h1, h2⟩, rfl⟩
    obtain ⟨a, b, c⟩ := e
    simp only at h1 h2
    subst h1 h2
    exact he
  · intro h
    exact ⟨_, ⟨h, rfl, rfl⟩, rfl⟩

theorem length_le_one_of_nodup_const {α : Type} (a : α) (l : List α) (hn : l.Nodup) (hc : ∀ x ∈ l, x = a) :
    l.length ≤ 1 := by
  match l, hn, hc with
  | [], _, _ => simp
  | [_], _, _ => simp
  | x :: y :: l, hn, hc =>
    have hx := hc x (by simp)
    have hy := hc y (by simp)
    simp only [List.nodup_cons, List.mem_cons, not_or] at hn
    exact absurd (hx.trans hy.symm) hn.1.1

/-- Identities registered once: no peer holds two ids. -/
theorem Reg.idsOf_length_le_one (r : Reg) (h : r.OneIdPerPeer) (par : Nat) (q : Peer) :
    (r.idsOf par q).length ≤ 1 := by
  have hs : ((r.infos.filter fun e => e.2.1 = par ∧ e.2.2 = q).map (·.2)).Nodup :=
    List.Nodup.sublist (List.Sublist.map _ List.filter_sublist) h
  have hc : ∀ x ∈ (r.infos.filter fun e => e.2.1 = par ∧ e.2.2 = q).map (·.2), x = (par, q) := by
    intro x hx
    obtain ⟨e, he, rfl⟩ := List.mem_map.mp hx
    simp only [List.mem_filter, decide_eq_true_eq] at he
    exact Prod.ext he.2.1 he.2.2
  have := length_le_one_of_nodup_const (par, q) _ hs hc
  simpa [Reg.idsOf] using this

theorem Reg.OneIdPerPeer_register (r : Reg) (par : Nat) (p : Peer) (h : r.OneIdPerPeer)
    (hf : r.find (some par) p = none) : (r.register par p).1.OneIdPerPeer := by
  rw [Reg.find_none_iff] at hf
  simp only [Reg.OneIdPerPeer, Reg.register, List.map_append, List.map_cons, List.map_nil]
  rw [List.nodup_append]
  refine ⟨h, by simp, ?_⟩
  intro a ha b hb
  simp only [List.mem_singleton] at hb
  subst hb
  intro e
  exact hf (e ▸ ha)

theorem Reg.OneIdPerPeer_lookupOrRegister (r : Reg) (par : Nat) (p : Peer) (h : r.OneIdPerPeer) :
    (r.lookupOrRegister par p).1.OneIdPerPeer := by
  unfold Reg.lookupOrRegister
  cases hf : r.find (some par) p with
  | some id => exact h
  | none => exact r.OneIdPerPeer_register par p h hf

theorem OneIdPerPeer_msgLoop (v : Variant) (par : Nat) (recs : List Rec) (reg : Reg) (h : reg.OneIdPerPeer) :
    (msgLoop v par reg recs).reg.OneIdPerPeer := by
  induction recs generalizing reg with
  | nil => exact h
  | cons r recs ih =>
    cases r with
    | msg p m =>
      cases m with
      | update v6 ann wd a => rw [msgLoop_update]; exact ih _ (reg.OneIdPerPeer_lookupOrRegister par p h)
      | other => simpa [msgLoop] using ih reg h
      | garbage => simpa [msgLoop] using ih reg h
    | stateChange p old new => simpa [msgLoop] using ih reg h
    | peerIndex ps => simpa [msgLoop] using ih reg h
    | rib v6 pfx es => simpa [msgLoop] using ih reg h
    | ribOther => simpa [msgLoop] using ih reg h
    | localMsg => simpa [msgLoop] using h
    | otherType => simpa [msgLoop] using h

theorem OneIdPerPeer_lookupAll (par : Nat) (ps : List Peer) (r : Reg) (h : r.OneIdPerPeer) :
    (lookupAll r par ps).1.OneIdPerPeer := by
  induction ps generalizing r with
  | nil => exact h
  | cons p ps ih => rw [lookupAll_cons]; exact ih _ (r.OneIdPerPeer_lookupOrRegister par p h)

theorem processFileD_unreadable (d : Site) (v : Variant) (parent : Nat) (reg : Reg) (f : File)
    (h : f.comp.readable = false) : processFileD d v parent reg f = ⟨reg, [], .err⟩ := by
  simp [processFileD, h]

/-- One file, repaired loop: identities registered once stay registered once, whatever the file is
    (unreadable, panicking half way, dump, update file, both). -/
theorem OneIdPerPeer_processFileD (v : Variant) (parent : Nat) (reg : Reg) (f : File) (h : reg.OneIdPerPeer) :
    (processFileD .repaired v parent reg f).reg.OneIdPerPeer := by
  by_cases hc : f.comp.readable = true
  · simp only [processFileD, peerIndexLoop, hc, Bool.not_true, Bool.false_eq_true, if_false]
    split
    · rename_i ps rest heq
      have h1 := OneIdPerPeer_lookupAll parent ps reg h
      split
      · exact h1
      · exact OneIdPerPeer_msgLoop _ _ _ _ h1
    · exact OneIdPerPeer_msgLoop _ _ _ _ h
  · rw [processFileD_unreadable .repaired v parent reg f (by simpa using hc)]
    exact h

/-- **C16 (one peer, one id), invariant form.** Repaired peer index loop, any queue of any files, any
    other variant, starting from a register in which no identity is registered twice (a fresh unit's
    register, `⟨2, []⟩`, is one): afterwards no identity is registered twice either. -/
theorem C16_one_id_invariant (v : Variant) (parent : Nat) (fs : List File) (reg : Reg) (h : reg.OneIdPerPeer) :
    (runQueueD .repaired v parent reg fs).reg.OneIdPerPeer := by
  induction fs generalizing reg with
  | nil => exact h
  | cons f fs ih =>
    have h1 := OneIdPerPeer_processFileD v parent reg f h
    simp only [runQueueD]
    split
    · exact h1
    · exact ih _ h1

/-- The clause at full strength: after any queue, no identity `(parent, address, ASN)` holds two
    ingress ids (given that none did before). -/
def C16_one_id_full (d : Site) : Prop :=
  ∀ (v : Variant) (parent : Nat) (reg : Reg) (fs : List File), reg.OneIdPerPeer →
    ∀ par q, ((runQueueD d v parent reg fs).reg.idsOf par q).length ≤ 1

/-- **Repaired (`find_or_register_peer` in the peer index loop): the clause holds.** -/
theorem C16_one_id : C16_one_id_full .repaired := by
  intro v parent reg fs h par q
  exact Reg.idsOf_length_le_one _ (C16_one_id_invariant v parent fs reg h) par q

example : (⟨2, []⟩ : Reg).OneIdPerPeer := by decide
example : (runQueueD .repaired repaired 1 ⟨2, []⟩
    [⟨.plain, [.peerIndex [⟨0, 65001⟩], .rib false 0 [(0, 1)]]⟩, ⟨.plain, [.peerIndex [⟨0, 65001⟩], .rib false 0 [(0, 1)]]⟩]).reg.idsOf 1 ⟨0, 65001⟩ = [2] := by decide

/-- **As written the clause fails**: the same dump queued twice (or the next snapshot of the same
    collector) leaves peer 10.0.0.1 AS65001 with ids 2 and 3. The engine replays this queue first. -/
theorem C16_one_id_counterexample : ¬ C16_one_id_full .asWritten := by
  intro h
  have := h repaired 1 ⟨2, []⟩
    [⟨.plain, [.peerIndex [⟨0, 65001⟩], .rib false 0 [(0, 1)]]⟩, ⟨.plain, [.peerIndex [⟨0, 65001⟩], .rib false 0 [(0, 1)]]⟩]
    (by decide) 1 ⟨0, 65001⟩
  revert this; decide

/-- **Consequence for attribution (repaired).** After any queue, every registered id is *the* id of
    its peer: the register answers exactly that id for the peer (so, by `C16_attribution_known`,
    every later UPDATE of the peer is attributed to it, and, by `C16_state_change`, an
    Established→Idle state change withdraws it), and no other id is registered for the peer. -/
theorem C16_one_id_attribution (v : Variant) (parent : Nat) (reg : Reg) (fs : List File) (h : reg.OneIdPerPeer)
    (id par : Nat) (q : Peer) (hm : (id, par, q) ∈ (runQueueD .repaired v parent reg fs).reg.infos) :
    (runQueueD .repaired v parent reg fs).reg.find (some par) q = some id ∧
    ∀ id' ∈ (runQueueD .repaired v parent reg fs).reg.idsOf par q, id' = id := by
  have hn := C16_one_id_invariant v parent fs reg h
  refine ⟨Reg.find_of_mem _ hn id par q hm, ?_⟩
  intro id' hid'
  have hm' := (Reg.mem_idsOf _ par q id').mp hid'
  have := inj_of_nodup_map (fun (x : Nat × Nat × Peer) => x.2) _ hn _ _ hm' hm rfl
  exact congrArg (·.1) this

/-- A peer index table none of whose entries is known, and which lists no peer twice. -/
def freshTable (reg : Reg) (parent : Nat) (ps : List Peer) : Prop :=
  ps.Nodup ∧ ∀ p ∈ ps, reg.find (some parent) p = none

instance (reg : Reg) (parent : Nat) (ps : List Peer) : Decidable (freshTable reg parent ps) := by
  unfold freshTable; infer_instance

theorem registerAll_eq_lookupAll (parent : Nat) (ps : List Peer) (reg : Reg) (h : freshTable reg parent ps) :
    registerAll reg parent ps = lookupAll reg parent ps := by
  induction ps generalizing reg with
  | nil => rfl
  | cons p ps ih =>
    obtain ⟨hn, hf⟩ := h
    simp only [List.nodup_cons] at hn
    have hp := hf p (by simp)
    have h1 : freshTable (reg.register parent p).1 parent ps := by
      refine ⟨hn.2, ?_⟩
      intro q hq
      rw [Reg.find_register, hf q (by simp [hq])]
      have : ¬ (p = q) := fun e => hn.1 (e ▸ hq)
      simp [this]
    have := ih _ h1
    simp only [registerAll, lookupAll, hp]
    rw [this]

/-- **As written, guarded**: on a file without a peer index table, or whose table is fresh
    (`freshTable`: names no known peer and no peer twice — decidable), the code as written *is* the
    repaired code; in particular it keeps identities registered once. -/
theorem C16_one_id_partial (v : Variant) (parent : Nat) (reg : Reg) (f : File)
    (hg : ∀ ps rest, f.recs = .peerIndex ps :: rest → freshTable reg parent ps) :
    processFileD .asWritten v parent reg f = processFileD .repaired v parent reg f ∧
    (reg.OneIdPerPeer → (processFile v parent reg f).reg.OneIdPerPeer) := by
  have heq : processFileD .asWritten v parent reg f = processFileD .repaired v parent reg f := by
    simp only [processFileD, peerIndexLoop]
    split
    · rfl
    · split
      · rename_i ps rest heq
        rw [registerAll_eq_lookupAll parent ps reg (hg ps rest heq)]
      · rfl
  refine ⟨heq, fun h => ?_⟩
  rw [← processFileD_asWritten, heq]
  exact OneIdPerPeer_processFileD v parent reg f h

example : freshTable ⟨3, [(2, 1, ⟨0, 65001⟩)]⟩ 1 [⟨3, 65002⟩, ⟨0, 65002⟩] := by decide
example : ¬ freshTable ⟨3, [(2, 1, ⟨0, 65001⟩)]⟩ 1 [⟨3, 65002⟩, ⟨0, 65001⟩] := by decide

/-! ### the dump part, repaired loop -/

/-- The spec of the dump part for any `ingress_map`: one `Single` per entry, in file order, with the id the map holds for its peer index. -/
def dumpSpecBy (map : List Nat) (ribs : List (Bool × Nat × List (Nat × Nat))) : List Upd :=
  ribs.flatMap fun r => r.2.2.map fun e => .single r.1 r.2.1 (map.getD e.1 0) e.2

theorem dumpEntries_okBy (v6 : Bool) (pfx : Nat) (map : List Nat) (es : List (Nat × Nat))
    (h : es.all (fun e => e.1 < map.length) = true) :
    dumpEntries v6 pfx map es = (es.map fun e => .single v6 pfx (map.getD e.1 0) e.2, false) := by
  induction es with
  | nil => rfl
  | cons e es ih =>
    simp only [List.all_cons, Bool.and_eq_true, decide_eq_true_eq] at h
    obtain ⟨he, hes⟩ := h
    obtain ⟨idx, a⟩ := e
    simp only at he
    simp [dumpEntries, he, ih hes, List.getD_eq_getElem?_getD]

theorem dumpLoop_okBy (map : List Nat) (ribs : List (Bool × Nat × List (Nat × Nat)))
    (h : wellFormedRibs map.length ribs = true) :
    dumpLoop map (ribs.map ribRec) = (dumpSpecBy map ribs, false) := by
  induction ribs with
  | nil => rfl
  | cons r ribs ih =>
    obtain ⟨v6, pfx, es⟩ := r
    simp only [wellFormedRibs, Bool.and_eq_true, Bool.not_eq_true', List.isEmpty_eq_false_iff] at h
    obtain ⟨⟨hne, hall⟩, hrest⟩ := h
    cases es with
    | nil => exact absurd rfl hne
    | cons e es =>
      simp only [List.map_cons, ribRec, dumpLoop, dumpEntries_okBy v6 pfx map (e :: es) hall, ih hrest]
      simp [dumpSpecBy]

/-- The repaired peer index loop: one map slot per entry; afterwards the register answers, for the
    peer of every entry, the id in that entry's slot. -/
theorem lookupAll_spec (parent : Nat) (ps : List Peer) (r : Reg) :
    (lookupAll r parent ps).2.length = ps.length ∧
    ∀ i (hi : i < ps.length), (lookupAll r parent ps).1.find (some parent) ps[i] = some ((lookupAll r parent ps).2.getD i 0) := by
  induction ps generalizing r with
  | nil => exact ⟨rfl, fun i hi => absurd hi (by simp)⟩
  | cons p ps ih =>
    obtain ⟨h1, h2⟩ := ih (r.lookupOrRegister parent p).1
    rw [lookupAll_cons]
    refine ⟨by simp [h1], ?_⟩
    intro i hi
    cases i with
    | zero =>
      simp only [List.getElem_cons_zero, List.getD_cons_zero]
      exact lookupAll_find_mono parent ps _ p _ (r.lookupOrRegister_find parent p)
    | succ i =>
      simp only [List.getElem_cons_succ, List.getD_cons_succ]
      exact h2 i (by simpa using hi)

/-- **C16 (dump), repaired peer index loop.** For every readable file made of a peer index table of
    any size followed by any number of well-formed unicast RIB records, from any register: exactly
    one `Single` per RIB entry, in file order, carrying the id in its peer's slot of the map; that id
    is the one the register answers for the entry's peer afterwards; **a peer the register knew
    before keeps its id** (also when the table lists a peer twice: both slots hold one id); the file
    ends normally. -/
theorem C16_dump_repaired (v : Variant) (parent : Nat) (reg : Reg) (c : Comp) (hc : c.readable = true)
    (ps : List Peer) (ribs : List (Bool × Nat × List (Nat × Nat)))
    (h : wellFormedRibs ps.length ribs = true) :
    let r := processFileD .repaired v parent reg ⟨c, .peerIndex ps :: ribs.map ribRec⟩
    let map := (lookupAll reg parent ps).2
    r.out = dumpSpecBy map ribs ∧ r.status = .ok ∧ r.reg = (lookupAll reg parent ps).1 ∧
    (∀ i (hi : i < ps.length), r.reg.find (some parent) ps[i] = some (map.getD i 0)) ∧
    (∀ i (hi : i < ps.length) id, reg.find (some parent) ps[i] = some id → map.getD i 0 = id) := by
  obtain ⟨h1, h2⟩ := lookupAll_spec parent ps reg
  have hr : processFileD .repaired v parent reg ⟨c, .peerIndex ps :: ribs.map ribRec⟩ =
      ⟨(lookupAll reg parent ps).1, dumpSpecBy (lookupAll reg parent ps).2 ribs, .ok⟩ := by
    simp only [processFileD, peerIndexLoop, hc, Bool.not_true, Bool.false_eq_true, if_false]
    rw [dumpLoop_okBy _ ribs (by rw [h1]; exact h)]
    simp only [msgLoop, msgLoop_ribs]
    simp
  simp only [hr, true_and]
  refine ⟨h2, ?_⟩
  intro i hi id hid
  have := lookupAll_find_mono parent ps reg ps[i] id hid
  rw [h2 i hi] at this
  exact Option.some.inj this

-- the second snapshot of a collector: the known peer keeps id 2, the new one gets 3; a table listing a peer twice
example : (processFileD .repaired repaired 1 ⟨3, [(2, 1, ⟨0, 65001⟩)]⟩ ⟨.gzip, [.peerIndex [⟨3, 65002⟩, ⟨0, 65001⟩], .rib false 0 [(0, 1), (1, 2)]]⟩).out
    = [.single false 0 3 1, .single false 0 2 2] := by decide
example : (processFileD .repaired repaired 1 ⟨2, []⟩ ⟨.plain, [.peerIndex [⟨0, 65001⟩, ⟨0, 65001⟩], .rib false 0 [(0, 1), (1, 2)]]⟩).out
    = [.single false 0 2 1, .single false 0 2 2] := by decide

/-! ### the queue, either loop -/

/-- **C16 (queue order)**, either peer index loop. -/
theorem C16_queue_order_dumpreg (d : Site) (v : Variant) (parent : Nat) (reg : Reg) (f : File) (fs : List File)
    (h : (processFileD d v parent reg f).status ≠ .panic) :
    runQueueD d v parent reg (f :: fs) =
      ⟨(runQueueD d v parent (processFileD d v parent reg f).reg fs).reg,
       (processFileD d v parent reg f).out ++ (runQueueD d v parent (processFileD d v parent reg f).reg fs).out,
       true :: (runQueueD d v parent (processFileD d v parent reg f).reg fs).resps⟩ := by
  simp only [runQueueD]
  split
  · rename_i hs _; exact absurd hs h
  · rfl

/-- **C16 (an unreadable file affects only itself)**, either peer index loop. -/
theorem C16_unreadable_isolated_dumpreg (d : Site) (v : Variant) (parent : Nat) (reg : Reg) (f : File) (fs : List File)
    (h : f.comp.readable = false) :
    runQueueD d v parent reg (f :: fs) =
      ⟨(runQueueD d v parent reg fs).reg, (runQueueD d v parent reg fs).out, true :: (runQueueD d v parent reg fs).resps⟩ := by
  have hp := processFileD_unreadable d v parent reg f h
  rw [C16_queue_order_dumpreg d v parent reg f fs (by rw [hp]; simp), hp]
  simp

def C16_isolation_fullD (d : Site) (v : Variant) : Prop :=
  ∀ parent reg f fs,
    (runQueueD d v parent reg (f :: fs)).resps = true :: (runQueueD d v parent (processFileD d v parent reg f).reg fs).resps ∧
    (runQueueD d v parent reg (f :: fs)).out = (processFileD d v parent reg f).out ++ (runQueueD d v parent (processFileD d v parent reg f).reg fs).out

/-- **Full isolation (each file in its own task)**, either peer index loop. -/
theorem C16_isolation_dumpreg (d : Site) (v : Variant) (hv : v.iso = .repaired) : C16_isolation_fullD d v := by
  intro parent reg f fs
  simp only [runQueueD, hv]
  split
  · rename_i h; cases h
  · simp

end Rotonda.Mrt
