import RotondaModel.Model.Mrt
/-!
# C16 — MRT import reproduces the file

Model: `Model/Mrt.lean` (`processFile`, `runQueue`). Statements are at the
level of the `Update`s that leave the unit's gate (what a downstream RIB
applies, C01's subject) and of the ingress register.
-/
namespace Rotonda.Mrt

/-! ## helper lemmas -/

theorem registerAll_spec (r : Reg) (parent : Nat) (ps : List Peer) :
    (registerAll r parent ps).2 = (List.range ps.length).map (r.next + ·) ∧
    (registerAll r parent ps).1.next = r.next + ps.length ∧
    (registerAll r parent ps).1.infos =
      r.infos ++ ((List.range ps.length).zip ps).map (fun e => (r.next + e.1, parent, e.2)) := by
  induction ps generalizing r with
  | nil => simp [registerAll]
  | cons p ps ih =>
    have h := ih (r.register parent p).1
    simp only [Reg.register] at h
    obtain ⟨h1, h2, h3⟩ := h
    simp only [registerAll, Reg.register, List.length_cons]
    refine ⟨?_, ?_, ?_⟩
    · rw [h1, List.range_succ_eq_map]
      simp [Nat.add_assoc, Nat.add_comm 1]
    · rw [h2]; omega
    · rw [h3, List.range_succ_eq_map]
      simp [List.zip_map_left, Nat.add_assoc, Nat.add_comm 1, Function.comp_def]

/-- A dump body that the reader can walk: only unicast RIB records, none empty, every peer index inside the table. -/
def wellFormedRibs (npeers : Nat) : List (Bool × Nat × List (Nat × Nat)) → Bool
  | [] => true
  | (_, _, es) :: rest => !es.isEmpty && es.all (fun e => e.1 < npeers) && wellFormedRibs npeers rest

def ribRec (r : Bool × Nat × List (Nat × Nat)) : Rec := .rib r.1 r.2.1 r.2.2

/-- The spec of the dump part: one `Single` per entry, in file order, with the id registered for its peer. -/
def dumpSpec (base : Nat) (ribs : List (Bool × Nat × List (Nat × Nat))) : List Upd :=
  ribs.flatMap fun r => r.2.2.map fun e => .single r.1 r.2.1 (base + e.1) e.2

theorem dumpEntries_ok (v6 : Bool) (pfx base n : Nat) (es : List (Nat × Nat))
    (h : es.all (fun e => e.1 < n) = true) :
    dumpEntries v6 pfx ((List.range n).map (base + ·)) es =
      (es.map fun e => .single v6 pfx (base + e.1) e.2, false) := by
  induction es with
  | nil => rfl
  | cons e es ih =>
    simp only [List.all_cons, Bool.and_eq_true, decide_eq_true_eq] at h
    obtain ⟨he, hes⟩ := h
    obtain ⟨idx, a⟩ := e
    simp only at he
    simp [dumpEntries, he, ih hes]

theorem dumpLoop_ok (base n : Nat) (ribs : List (Bool × Nat × List (Nat × Nat)))
    (h : wellFormedRibs n ribs = true) :
    dumpLoop ((List.range n).map (base + ·)) (ribs.map ribRec) = (dumpSpec base ribs, false) := by
  induction ribs with
  | nil => rfl
  | cons r ribs ih =>
    obtain ⟨v6, pfx, es⟩ := r
    simp only [wellFormedRibs, Bool.and_eq_true, Bool.not_eq_true', List.isEmpty_eq_false_iff] at h
    obtain ⟨⟨hne, hall⟩, hrest⟩ := h
    cases es with
    | nil => exact absurd rfl hne
    | cons e es =>
      simp only [List.map_cons, ribRec, dumpLoop, dumpEntries_ok v6 pfx base n (e :: es) hall, ih hrest]
      simp [dumpSpec]

theorem msgLoop_ribs (v : Variant) (parent : Nat) (reg : Reg) (ribs : List (Bool × Nat × List (Nat × Nat))) :
    msgLoop v parent reg (ribs.map ribRec) = ⟨reg, [], .ok⟩ := by
  induction ribs with
  | nil => rfl
  | cons r ribs ih => simp [ribRec, msgLoop, ih]

/-! ## the dump part -/

/-- **C16 (dump).** For every readable file made of a peer index table of any
    size followed by any number of well-formed IPv4/IPv6 unicast RIB records:
    the unit registers one ingress id per peer (consecutive, with this unit as
    parent) and emits exactly one `Single` per RIB entry, in file order,
    attributed to the id of the entry's peer (`base + peer index`), then ends
    normally. -/
theorem C16_dump (v : Variant) (parent : Nat) (reg : Reg) (c : Comp) (hc : c.readable = true)
    (ps : List Peer) (ribs : List (Bool × Nat × List (Nat × Nat)))
    (h : wellFormedRibs ps.length ribs = true) :
    let r := processFile v parent reg ⟨c, .peerIndex ps :: ribs.map ribRec⟩
    r.out = dumpSpec reg.next ribs ∧ r.status = .ok ∧ r.reg.next = reg.next + ps.length ∧
    r.reg.infos = reg.infos ++ ((List.range ps.length).zip ps).map (fun e => (reg.next + e.1, parent, e.2)) := by
  obtain ⟨h1, h2, h3⟩ := registerAll_spec reg parent ps
  simp only [processFile, hc, Bool.not_true, Bool.false_eq_true, if_false]
  rw [show registerAll reg parent ps = ((registerAll reg parent ps).1, (registerAll reg parent ps).2) from rfl, h1]
  simp only [dumpLoop_ok reg.next ps.length ribs h]
  simp only [msgLoop, msgLoop_ribs]
  simp [h2, h3]

example : (processFile asWritten 1 ⟨2, []⟩ ⟨.gzip, [.peerIndex [⟨0, 65001⟩, ⟨3, 65002⟩], .rib false 0 [(0, 1), (1, 2)], .rib true 1 [(1, 3)]]⟩).out
    = [.single false 0 2 1, .single false 0 3 2, .single true 1 3 3] := by decide

/-! ## the messages part -/

def Rec.isBgp4mpSupported : Rec → Bool
  | .msg _ _ => true
  | .stateChange _ _ _ => true
  | _ => false

/-- The exploded content of the UPDATE messages of a file, in file order. -/
def updatesOf : List Rec → List (Peer × Bool × List Nat × List Nat)
  | [] => []
  | .msg p (.update v6 ann wd _) :: rest => (p, v6, ann, wd) :: updatesOf rest
  | _ :: rest => updatesOf rest

def bulksOf : List Upd → List (Nat × Bool × List Nat × List Nat)
  | [] => []
  | .bulk id v6 ann wd :: rest => (id, v6, ann, wd) :: bulksOf rest
  | _ :: rest => bulksOf rest

theorem bulksOf_append (a b : List Upd) : bulksOf (a ++ b) = bulksOf a ++ bulksOf b := by
  induction a with
  | nil => rfl
  | cons u a ih => cases u <;> simp [bulksOf, ih]

theorem bulksOf_withdraws (w : List Upd) (h : ∀ u ∈ w, ∃ id, u = .withdraw id) : bulksOf w = [] := by
  induction w with
  | nil => rfl
  | cons u w ih =>
    obtain ⟨id, rfl⟩ := h u (by simp)
    simp [bulksOf, ih (fun u' hu' => h u' (by simp [hu']))]

/-- One UPDATE as RFC 4271 4.3 reads it: "an UPDATE message [that includes] the same address
    prefix in the WITHDRAWN ROUTES and Network Layer Reachability Information fields [is
    treated] as though the WITHDRAWN ROUTES do not contain the address prefix": its
    announcements, and its withdrawals of prefixes it does not announce. -/
def effective (u : Bool × List Nat × List Nat) : Bool × List Nat × List Nat :=
  (u.1, u.2.1, u.2.2.filter (fun p => !u.2.1.contains p))

/-- What the code does, for every variant: one `Bulk` per UPDATE, in file order, carrying its
    announcements and `keptWd` of its withdrawals. -/
theorem updates_in_order_gen (v : Variant) (parent : Nat) (reg : Reg) (recs : List Rec)
    (h : recs.all Rec.isBgp4mpSupported = true) :
    ((bulksOf (msgLoop v parent reg recs).out).map fun b => b.2) =
      (updatesOf recs).map (fun u => (u.2.1, u.2.2.1, keptWd v u.2.2.1 u.2.2.2)) ∧
    (msgLoop v parent reg recs).status = .ok := by
  induction recs generalizing reg with
  | nil => simp [msgLoop, bulksOf, updatesOf]
  | cons r recs ih =>
    simp only [List.all_cons, Bool.and_eq_true] at h
    obtain ⟨hr, hrest⟩ := h
    cases r with
    | msg p m =>
      cases m with
      | update v6 ann wd a =>
        simp only [msgLoop, bulksOf, updatesOf, List.map_cons]
        split <;> (rename_i heq; simp [ih _ hrest])
      | other => simpa [msgLoop, updatesOf] using ih reg hrest
      | garbage => simpa [msgLoop, updatesOf] using ih reg hrest
    | stateChange p old new =>
      have hw : ∀ w : List Upd, (∀ u ∈ w, ∃ id, u = .withdraw id) →
          bulksOf (w ++ (msgLoop v parent reg recs).out) = bulksOf (msgLoop v parent reg recs).out := by
        intro w hw; rw [bulksOf_append, bulksOf_withdraws w hw]; rfl
      simp only [msgLoop, updatesOf]
      refine ⟨?_, (ih reg hrest).2⟩
      rw [hw]
      · exact (ih reg hrest).1
      · intro u hu
        split at hu
        · split at hu
          · simp only [List.mem_singleton] at hu; exact ⟨_, hu⟩
          · simp at hu
        · simp at hu
    | _ => simp [Rec.isBgp4mpSupported] at hr

/-- The clause at full strength: for every file made only of BGP4MP messages and state
    changes (any number, any peers), the `Bulk` updates that leave the gate are, one for one
    and in file order, the UPDATE messages of the file with their announcements and
    withdrawals as RFC 4271 4.3 reads them — none lost, none invented, none reordered, and a
    prefix that one UPDATE both withdraws and announces leaves as its announcement only —
    and processing ends normally. -/
def C16_updates_full (v : Variant) : Prop :=
  ∀ (parent : Nat) (reg : Reg) (recs : List Rec), recs.all Rec.isBgp4mpSupported = true →
    ((bulksOf (msgLoop v parent reg recs).out).map fun b => b.2) = (updatesOf recs).map (fun u => effective u.2) ∧
    (msgLoop v parent reg recs).status = .ok

/-- **C16 (updates in file order). Repaired (`explode_update` in `process_message`): the
    clause holds**, whatever the other sites are. -/
theorem C16_updates_in_order (v : Variant) (hv : v.ov = .repaired) : C16_updates_full v := by
  intro parent reg recs h
  have := updates_in_order_gen v parent reg recs h
  simpa [keptWd, hv, effective] using this

/-- **As written (`explode_announcements` then `explode_withdrawals`)**: one `Bulk` per UPDATE in
    file order carrying *all* its announcements followed by *all* its withdrawals … -/
theorem C16_updates_as_written (v : Variant) (hv : v.ov = .asWritten) (parent : Nat) (reg : Reg)
    (recs : List Rec) (h : recs.all Rec.isBgp4mpSupported = true) :
    ((bulksOf (msgLoop v parent reg recs).out).map fun b => b.2) = (updatesOf recs).map (fun u => u.2) ∧
    (msgLoop v parent reg recs).status = .ok := by
  have := updates_in_order_gen v parent reg recs h
  simpa [keptWd, hv] using this

/-- … which is the clause on every file none of whose UPDATEs withdraws a prefix it announces
    (guard, decidable; any variant). -/
theorem C16_updates_partial (v : Variant) (parent : Nat) (reg : Reg) (recs : List Rec)
    (h : recs.all Rec.isBgp4mpSupported = true)
    (hno : ∀ u ∈ updatesOf recs, ∀ p ∈ u.2.2.2, p ∉ u.2.2.1) :
    ((bulksOf (msgLoop v parent reg recs).out).map fun b => b.2) = (updatesOf recs).map (fun u => effective u.2) ∧
    (msgLoop v parent reg recs).status = .ok := by
  have hg := updates_in_order_gen v parent reg recs h
  refine ⟨?_, hg.2⟩
  rw [hg.1]
  apply List.map_congr_left
  intro u hu
  have hf : u.2.2.2.filter (fun p => !u.2.2.1.contains p) = u.2.2.2 := by
    rw [List.filter_eq_self]; intro p hp; simpa using hno u hu p hp
  simp only [keptWd, effective]
  cases v.ov
  · simp only [hf]
  · rfl

/-- **As written the clause fails**: one UPDATE that withdraws and announces 203.0.113.7/32
    (prefix number 4) leaves the gate as `+p -p`. The engine replays this file first. -/
theorem C16_updates_counterexample : ¬ C16_updates_full asWritten := by
  intro h
  have := (h 1 ⟨2, []⟩ [.msg ⟨0, 65001⟩ (.update false [4] [4] 1)] (by decide)).1
  revert this; decide

/-- **An overlapped prefix yields exactly its announcement** (repaired, any file at all, any
    record mix): no `Bulk` that leaves the gate withdraws a prefix it announces. -/
theorem C16_overlap_yields_only_announcement (v : Variant) (hv : v.ov = .repaired) (parent : Nat)
    (reg : Reg) (recs : List Rec) :
    ∀ b ∈ bulksOf (msgLoop v parent reg recs).out, ∀ p ∈ b.2.2.1, p ∉ b.2.2.2 := by
  induction recs generalizing reg with
  | nil => simp [msgLoop, bulksOf]
  | cons r recs ih =>
    cases r with
    | msg q m =>
      cases m with
      | update v6 ann wd a =>
        simp only [msgLoop]
        split <;>
          (simp only [bulksOf, List.mem_cons]
           intro b hb p hp
           rcases hb with rfl | hb
           · simp only [keptWd, hv, List.mem_filter] at hp ⊢
             intro hc; simp [hp] at hc
           · exact ih _ b hb p hp)
      | other => simpa [msgLoop] using ih reg
      | garbage => simpa [msgLoop] using ih reg
    | stateChange q old new =>
      simp only [msgLoop]
      have hw : ∀ w : List Upd, (∀ u ∈ w, ∃ id, u = .withdraw id) →
          bulksOf (w ++ (msgLoop v parent reg recs).out) = bulksOf (msgLoop v parent reg recs).out := by
        intro w hw; rw [bulksOf_append, bulksOf_withdraws w hw]; rfl
      rw [hw]
      · exact ih reg
      · intro u hu
        split at hu
        · split at hu
          · simp only [List.mem_singleton] at hu; exact ⟨_, hu⟩
          · simp at hu
        · simp at hu
    | peerIndex ps => simpa [msgLoop] using ih reg
    | rib v6 pfx es => simpa [msgLoop] using ih reg
    | ribOther => simpa [msgLoop] using ih reg
    | localMsg => simp [msgLoop, bulksOf]
    | otherType => simp [msgLoop, bulksOf]

-- non-vacuity: an UPDATE announcing 4 and 1 and withdrawing 4 and 2 leaves as +4 +1 -2 (repaired), +4 +1 -4 -2 (as written)
example : (msgLoop repaired 1 ⟨2, []⟩ [.msg ⟨0, 65001⟩ (.update false [4, 1] [4, 2] 1)]).out = [.bulk 2 false [4, 1] [2]] ∧
    (msgLoop asWritten 1 ⟨2, []⟩ [.msg ⟨0, 65001⟩ (.update false [4, 1] [4, 2] 1)]).out = [.bulk 2 false [4, 1] [4, 2]] := by decide

/-- **C16 (attribution).** An UPDATE of a peer already registered under this
    unit (by an earlier dump or an earlier message) is attributed to that
    peer's id, and the register is left unchanged by it. -/
theorem C16_attribution_known (v : Variant) (parent : Nat) (reg : Reg) (p : Peer) (id : Nat)
    (v6 : Bool) (ann wd : List Nat) (a : Nat) (rest : List Rec)
    (h : reg.find (some parent) p = some id) :
    msgLoop v parent reg (.msg p (.update v6 ann wd a) :: rest) =
      ⟨(msgLoop v parent reg rest).reg, .bulk id v6 ann (keptWd v ann wd) :: (msgLoop v parent reg rest).out, (msgLoop v parent reg rest).status⟩ := by
  simp [msgLoop, h]

/-- … and an UPDATE of an unknown peer registers it (fresh id, this unit as
    parent), so that the next message of the same peer finds that id. -/
theorem C16_attribution_fresh (parent : Nat) (reg : Reg) (p : Peer)
    (h : reg.find (some parent) p = none) :
    (reg.register parent p).1.find (some parent) p = some reg.next := by
  simp only [Reg.find] at h ⊢
  split at h
  · simp at h
  · rename_i hnone
    simp only [Reg.register, List.find?_append, hnone]
    simp

/-! ## state changes -/

/-- The clause at full strength: an Established→Idle state change of a peer registered under this unit withdraws that peer's id. -/
def C16_state_change_full (v : Variant) : Prop :=
  ∀ parent reg p id rest, reg.find (some parent) p = some id →
    .withdraw id ∈ (msgLoop v parent reg (.stateChange p established idle :: rest)).out

/-- **Repaired (`with_parent(parent_id)` in the query): the clause holds.** -/
theorem C16_state_change (v : Variant) (hv : v.sc = .repaired) : C16_state_change_full v := by
  intro parent reg p id rest h
  simp [msgLoop, hv, h]

/-- **As written: no input whatsoever makes the unit emit a withdrawal.** -/
theorem C16_as_written_never_withdraws (v : Variant) (hv : v.sc = .asWritten) (parent : Nat)
    (reg : Reg) (recs : List Rec) (id : Nat) : .withdraw id ∉ (msgLoop v parent reg recs).out := by
  induction recs generalizing reg with
  | nil => simp [msgLoop]
  | cons r recs ih =>
    cases r with
    | msg p m =>
      cases m with
      | update v6 ann wd a => simp only [msgLoop]; split <;> simp [ih]
      | other => simpa [msgLoop] using ih reg
      | garbage => simpa [msgLoop] using ih reg
    | stateChange p old new => simp [msgLoop, hv, Reg.find, ih]
    | peerIndex ps => simpa [msgLoop] using ih reg
    | rib v6 pfx es => simpa [msgLoop] using ih reg
    | ribOther => simpa [msgLoop] using ih reg
    | localMsg => simp [msgLoop]
    | otherType => simp [msgLoop]

theorem C16_state_change_counterexample : ¬ C16_state_change_full asWritten := by
  intro h
  have := h 1 ⟨3, [(2, 1, ⟨0, 65001⟩)]⟩ ⟨0, 65001⟩ 2 [] (by decide)
  exact C16_as_written_never_withdraws asWritten rfl _ _ _ _ this

-- the premise of the clause is satisfiable: after a dump the peer is found
example : (processFile asWritten 1 ⟨2, []⟩ ⟨.plain, [.peerIndex [⟨0, 65001⟩], .rib false 0 [(0, 1)]]⟩).reg.find (some 1) ⟨0, 65001⟩ = some 2 := by decide

/-! ## the queue -/

/-- **C16 (queue order).** As long as no file panics, the queue is processed
    strictly in order: the output is the concatenation, in queue order, of each
    file's own output, each file starting from the register the previous one
    left, and every enqueuer is answered. -/
theorem C16_queue_order (v : Variant) (parent : Nat) (reg : Reg) (f : File) (fs : List File)
    (h : (processFile v parent reg f).status ≠ .panic) :
    runQueue v parent reg (f :: fs) =
      ⟨(runQueue v parent (processFile v parent reg f).reg fs).reg,
       (processFile v parent reg f).out ++ (runQueue v parent (processFile v parent reg f).reg fs).out,
       true :: (runQueue v parent (processFile v parent reg f).reg fs).resps⟩ := by
  simp only [runQueue]
  split
  · rename_i hs _; exact absurd hs h
  · rfl

/-- **C16 (an unreadable file affects only itself), I/O and decoding errors.**
    A missing or undecodable file contributes nothing, changes nothing, and
    the rest of the queue is processed as if it had not been there. -/
theorem C16_unreadable_isolated (v : Variant) (parent : Nat) (reg : Reg) (f : File) (fs : List File)
    (h : f.comp.readable = false) :
    runQueue v parent reg (f :: fs) =
      ⟨(runQueue v parent reg fs).reg, (runQueue v parent reg fs).out, true :: (runQueue v parent reg fs).resps⟩ := by
  have hp : processFile v parent reg f = ⟨reg, [], .err⟩ := by simp [processFile, h]
  rw [C16_queue_order v parent reg f fs (by rw [hp]; simp), hp]
  simp

/-- The clause at full strength: whatever a file does, the files queued after it are processed and every enqueuer is answered. -/
def C16_isolation_full (v : Variant) : Prop :=
  ∀ parent reg f fs,
    (runQueue v parent reg (f :: fs)).resps = true :: (runQueue v parent (processFile v parent reg f).reg fs).resps ∧
    (runQueue v parent reg (f :: fs)).out = (processFile v parent reg f).out ++ (runQueue v parent (processFile v parent reg f).reg fs).out

/-- **Repaired (each file in its own task): full isolation.** -/
theorem C16_isolation (v : Variant) (hv : v.iso = .repaired) : C16_isolation_full v := by
  intro parent reg f fs
  simp only [runQueue, hv]
  split
  · rename_i h; cases h
  · simp

/-- **As written: one panicking file (here: a multicast RIB subtype) silences the queue.** -/
theorem C16_isolation_counterexample : ¬ C16_isolation_full asWritten := by
  intro h
  have := (h 1 ⟨2, []⟩ ⟨.plain, [.peerIndex [⟨0, 65001⟩], .ribOther]⟩
    [⟨.plain, [.peerIndex [⟨3, 65002⟩], .rib true 1 [(0, 2)]]⟩]).1
  revert this; decide

end Rotonda.Mrt
