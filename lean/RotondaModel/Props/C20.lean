import RotondaModel.Proofs.MrtApi
/-!
# C20 — the MRT queue endpoint only enqueues files inside its configured directory

Statements are about `Rotonda.MrtApi.processRequest`, the model of
`src/units/mrt_file_in/api.rs` `Processor::process_request`, for every API path, configuration,
request line, query string, queue state and **every** `canonicalize` (the file system is a
parameter: `Env.canon`), no bound on any length.
-/
namespace Rotonda.MrtApi

/-- `full_path.ancestors().any(|a| a == update_dir)` is exactly: same rootedness and the
    components of `update_dir` are a prefix of the components of `full_path`. -/
theorem ancestors_any_eq (p d : Path) :
    (ancestors p).any (· == d) = true ↔ d.abs = p.abs ∧ d.comps <+: p.comps := by
  rw [List.any_eq_true, ← mem_ancestors]
  constructor
  · rintro ⟨x, hx, he⟩
    have : x = d := by simpa using he
    exact this ▸ hx
  · intro h
    exact ⟨d, h, by simp⟩

example : (ancestors (parsePath [47, 100, 47, 97])).any (· == parsePath [47, 100]) = true := by decide
/-- a sibling whose *name* has the directory's name as a string prefix is not under it -/
example : (ancestors (parsePath [47, 100, 50, 47, 97])).any (· == parsePath [47, 100]) = false := by
  decide

/-- **Confinement.** Whatever is sent to the queue is what `canonicalize` returned for
    `canonicalize(update_path)` joined with the (relative) `file` parameter, and the components of
    the canonical update directory are a prefix of its components. Also: the request was a `GET`
    for `<api path>queue…`, a directory is configured and the queue still has a receiver. -/
theorem C20_confined (apiPath : Bytes) (cfg : Option Bytes) (env : Env) (isGet : Bool)
    (rawPath : Bytes) (query : Option Bytes) (st : Nat) (p : Bytes)
    (h : processRequest apiPath cfg env isGet rawPath query = .resp st (some p)) :
    ∃ up d file,
      cfg = some up ∧ env.canon up = some d ∧
      fileParam query = some file ∧ isRelative file = true ∧
      env.canon (push d file) = some p ∧
      (parsePath d).abs = (parsePath p).abs ∧ (parsePath d).comps <+: (parsePath p).comps ∧
      isGet = true ∧ env.rxOpen = true := by
  rcases processRequest_cases apiPath cfg env isGet rawPath query with hn | ⟨hg, _, hq⟩
  · rw [hn] at h; cases h
  · rw [hq] at h
    rcases queue_spec cfg env query with h4 | ⟨up, d, file, p', hc, hd, hf, hr, hp, hu, hs⟩
    · rw [h4] at h; cases h
    · rw [hs] at h
      have hp' : p' = p ∧ env.rxOpen = true := by
        rcases afterSend_cases env p' with ⟨_, h1⟩ | ⟨ho, _, h1⟩ | ⟨ho, _, h1⟩
        · rw [h1] at h; cases h
        · rw [h1] at h; cases h; exact ⟨rfl, ho⟩
        · rw [h1] at h; cases h; exact ⟨rfl, ho⟩
      obtain ⟨rfl, ho⟩ := hp'
      have hu' := (ancestors_any_eq (parsePath p') (parsePath d)).mp hu
      exact ⟨up, d, file, hc, hd, hf, hr, hp, hu'.1, hu'.2, hg, ho⟩

/-- non-vacuity: `GET /m/queue?file=a` with `update_path = /d`, `/d/a` existing: enqueued, 200 -/
def exEnv : Env :=
  { canon := fun k =>
      if k = [47, 100] then some [47, 100]
      else if k = [47, 100, 47, 97] then some [47, 100, 47, 97]
      else if k = [47, 100, 47, 46, 46, 47, 120] then some [47, 120]   -- /d/../x ↦ /x
      else none,
    rxOpen := true, reply := .ok }

example : processRequest [47, 109, 47] (some [47, 100]) exEnv true
    ([47, 109, 47] ++ sQueue) (some (sFile ++ [61, 97])) = .resp 200 (some [47, 100, 47, 97]) := by
  decide
/-- `file=../x` resolves outside: 400, nothing enqueued -/
example : processRequest [47, 109, 47] (some [47, 100]) exEnv true
    ([47, 109, 47] ++ sQueue) (some (sFile ++ [61, 46, 46, 47, 120])) = .resp 400 none := by
  decide
/-- percent-encoded `..%2Fx` is decoded before the join: same -/
example : processRequest [47, 109, 47] (some [47, 100]) exEnv true
    ([47, 109, 47] ++ sQueue) (some (sFile ++ [61, 46, 46, 37, 50, 70, 120])) = .resp 400 none := by
  decide

/-- **Rejections answer 400.** A handled request that enqueues nothing is answered 400. -/
theorem C20_reject_400 (apiPath : Bytes) (cfg : Option Bytes) (env : Env) (isGet : Bool)
    (rawPath : Bytes) (query : Option Bytes) (st : Nat)
    (h : processRequest apiPath cfg env isGet rawPath query = .resp st none) : st = 400 := by
  rcases processRequest_cases apiPath cfg env isGet rawPath query with hn | ⟨_, _, hq⟩
  · rw [hn] at h; cases h
  · rw [hq] at h
    rcases queue_spec cfg env query with h4 | ⟨_, _, _, p', _, _, _, _, _, _, hs⟩
    · rw [h4] at h; cases h; rfl
    · rw [hs] at h
      rcases afterSend_cases env p' with ⟨_, h1⟩ | ⟨_, _, h1⟩ | ⟨_, _, h1⟩ <;>
        (rw [h1] at h; cases h) <;> rfl

/-- An enqueue is answered 200 unless the queue consumer itself reported a failure. -/
theorem C20_enqueue_status (apiPath : Bytes) (cfg : Option Bytes) (env : Env) (isGet : Bool)
    (rawPath : Bytes) (query : Option Bytes) (st : Nat) (p : Bytes)
    (h : processRequest apiPath cfg env isGet rawPath query = .resp st (some p)) :
    (st = 200 ∧ (env.reply = .ok ∨ env.reply = .silent)) ∨
    (st = 400 ∧ (env.reply = .err ∨ env.reply = .dropped)) := by
  rcases processRequest_cases apiPath cfg env isGet rawPath query with hn | ⟨_, _, hq⟩
  · rw [hn] at h; cases h
  · rw [hq] at h
    rcases queue_spec cfg env query with h4 | ⟨_, _, _, p', _, _, _, _, _, _, hs⟩
    · rw [h4] at h; cases h
    · rw [hs] at h
      rcases afterSend_cases env p' with ⟨_, h1⟩ | ⟨_, hr, h1⟩ | ⟨_, hr, h1⟩
      · rw [h1] at h; cases h
      · rw [h1] at h; cases h; exact Or.inl ⟨rfl, hr⟩
      · rw [h1] at h; cases h; exact Or.inr ⟨rfl, hr⟩

example : processRequest [47, 109, 47] (some [47, 100]) { exEnv with reply := .err } true
    ([47, 109, 47] ++ sQueue) (some (sFile ++ [61, 97])) = .resp 400 (some [47, 100, 47, 97]) := by
  decide

/-- **Unconfigured.** Without `update_path` every handled request is answered 400 and nothing is
    enqueued, whatever the file system and the query look like. -/
theorem C20_unconfigured (apiPath : Bytes) (env : Env) (isGet : Bool) (rawPath : Bytes)
    (query : Option Bytes) :
    processRequest apiPath none env isGet rawPath query = .notHandled ∨
    processRequest apiPath none env isGet rawPath query = .resp 400 none := by
  rcases processRequest_cases apiPath none env isGet rawPath query with hn | ⟨_, _, hq⟩
  · exact Or.inl hn
  · right; rw [hq]; simp [queue, err400_eq]

example : processRequest [47, 109, 47] none exEnv true
    ([47, 109, 47] ++ sQueue) (some (sFile ++ [61, 97])) = .resp 400 none := by decide

/-- **No panic.** None of the `unwrap()`s of `api.rs` (all of them are
    `Response::builder()…unwrap()` with constant status and header) can fail. -/
theorem C20_no_panic (apiPath : Bytes) (cfg : Option Bytes) (env : Env) (isGet : Bool)
    (rawPath : Bytes) (query : Option Bytes) (site : String) :
    processRequest apiPath cfg env isGet rawPath query ≠ .panic site := by
  intro h
  rcases processRequest_cases apiPath cfg env isGet rawPath query with hn | ⟨_, _, hq⟩
  · rw [hn] at h; cases h
  · rw [hq] at h
    rcases queue_spec cfg env query with h4 | ⟨_, _, _, p', _, _, _, _, _, _, hs⟩
    · rw [h4] at h; cases h
    · rw [hs] at h
      rcases afterSend_cases env p' with ⟨_, h1⟩ | ⟨_, _, h1⟩ | ⟨_, _, h1⟩ <;>
        (rw [h1] at h; cases h)

/-- non-vacuity of `respond`'s panic branch: an invalid status *would* be a panic value, so
    `C20_no_panic` is a statement about the constants the code uses. -/
example : respond "x" 99 none = .panic "x" := by decide

end Rotonda.MrtApi
