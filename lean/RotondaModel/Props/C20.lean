import RotondaModel.Proofs.MrtApi
/-!
# C20 — the MRT queue endpoint only enqueues files inside its configured directory

Statements are about `Rotonda.MrtApi.processRequest`, the model of
`src/units/mrt_file_in/api.rs` `Processor::process_request`, for every API path, configuration,
request line, query string, queue state and **every** `canonicalize` (the file system is a
parameter: `Env.canon`), no bound on any length.
-/
namespace Rotonda.MrtApi

/-- `full_path.ancestors().any(|a| a == update_dir)` is exactly: same rootedness and the
    components of `update_dir` are a prefix of the components of `full_path`. -/
theorem ancestors_any_eq (p d : Path) :
    (ancestors p).any (· == d) = true ↔ d.abs = p.abs ∧ d.comps <+: p.comps := by
  rw [List.any_eq_true, ← mem_ancestors]
  constructor
  · rintro ⟨x, hx, he⟩
    have : x = d := by simpa using he
    exact this ▸ hx
  · intro h
    exact ⟨d, h, by simp⟩

example : (ancestors (parsePath [47, 100, 47, 97])).any (· == parsePath [47, 100]) = true := by decide
/-- a sibling whose *name* has the directory's name as a string prefix is not under it -/
example : (ancestors (parsePath [47, 100, 50, 47, 97])).any (· == parsePath [47, 100]) = false := by
  decide

/-- **Confinement.** Whatever is sent to the queue is what `canonicalize` returned for
    `canonicalize(update_path)` joined with the (relative) `file` parameter, and the components of
    the canonical update directory are a prefix of its components. Also: the request was a `GET`
    for `<api path>queue…`, a directory is configured and the queue still has a receiver. -/
theorem C20_confined (apiPath : Bytes) (cfg : Option Bytes) (env : Env) (isGet : Bool)
    (rawPath : Bytes) (query : Option Bytes) (st : Nat) (p : Bytes)
    (h : processRequest apiPath cfg env isGet rawPath query = .resp st (some p)) :
    ∃ up d file,
      cfg = some up ∧ env.canon up = some d ∧
      fileParam query = some file ∧ isRelative file = true ∧
      env.canon (push d file) = some p ∧
      (parsePath d).abs = (parsePath p).abs ∧ (parsePath d).comps <+: (parsePath p).comps ∧
      isGet = true ∧ env.rxOpen = true := by
  rcases processRequest_cases apiPath cfg env isGet rawPath query with hn | ⟨hg, _, hq⟩
  · rw [hn] at h; cases h
  · rw [hq] at h
    rcases queue_spec cfg env query with h4 | ⟨up, d, file, p', hc, hd, hf, hr, hp, hu, hs⟩
    · rw [h4] at h; cases h
    · rw [hs] at h
      have hp' : p' = p ∧ env.rxOpen = true := by
        rcases afterSend_cases env p' with ⟨_, h1⟩ | ⟨ho, _, h1⟩ | ⟨ho, _, h1⟩
        · rw [h1] at h; cases h
        · rw [h1] at h; cases h; exact ⟨rfl, ho⟩
        · rw [h1] at h; cases h; exact ⟨rfl, ho⟩
      obtain ⟨rfl, ho⟩ := hp'
      have hu' := (ancestors_any_eq (parsePath p') (parsePath d)).mp hu
      exact ⟨up, d, file, hc, hd, hf, hr, hp, hu'.1, hu'.2, hg, ho⟩

/-- non-vacuity: `GET /m/queue?file=a` with `update_path = /d`, `/d/a` existing: enqueued, 200 -/
def exEnv : Env :=
  { canon := fun k =>
      if k = [47, 100] then some [47, 100]
      else if k = [47, 100, 47, 97] then some [47, 100, 47, 97]
      else if k = [47, 100, 47, 46, 46, 47, 120] then some [47, 120]   -- /d/../x ↦ /x
      else none,
    rxOpen := true, reply := .ok }

example : processRequest [47, 109, 47] (some [47, 100]) exEnv true
    ([47, 109, 47] ++ sQueue) (some (sFile ++ [61, 97])) = .resp 200 (some [47, 100, 47, 97]) := by
  decide
/-- `file=../x` resolves outside: 400, nothing enqueued -/
example : processRequest [47, 109, 47] (some [47, 100]) exEnv true
    ([47, 109, 47] ++ sQueue) (some (sFile ++ [61, 46, 46, 47, 120])) = .resp 400 none := by
  decide
/-- percent-encoded `..%2Fx` is decoded before the join: same -/
example : processRequest [47, 109, 47] (some [47, 100]) exEnv true
    ([47, 109, 47] ++ sQueue) (some (sFile ++ [61, 46, 46, 37, 50, 70, 120])) = .resp 400 none := by
  decide

/-! ### File-system level

`Env.canon` instantiated with the model's own `realpath` over a finite tree of directories, files
and symbolic links (`canonFs`, compared with the real `std::fs::canonicalize` on every engine
case). -/

/-- `realpath` returns a *resolved location*: every component exists, none is a symbolic link,
    all but possibly the last are directories. -/
theorem canonFs_resolved (fs : Fs) (s : Bytes) (p : List Bytes) (h : canonFs fs s = .ok p) :
    Resolved fs p := (canonFs_ok h).1

/-- **Confinement over a file system.** Whatever symbolic links the tree contains and whatever the
    `file` parameter is, the enqueued path is the rendering of a resolved location `pcs` of the
    tree (link-free, existing), the update directory resolves to a link-free directory `dcs`, and
    `dcs` is a prefix of `pcs`: the file physically lies in the update directory's subtree. -/
theorem C20_confined_fs (fs : Fs) (apiPath : Bytes) (cfg : Option Bytes) (rxOpen : Bool)
    (reply : Reply) (isGet : Bool) (rawPath : Bytes) (query : Option Bytes) (st : Nat) (p : Bytes)
    (h : processRequest apiPath cfg ⟨canonOracle fs, rxOpen, reply⟩ isGet rawPath query
          = .resp st (some p)) :
    ∃ up dcs pcs, cfg = some up ∧ canonFs fs up = .ok dcs ∧
      Resolved fs dcs ∧ Resolved fs pcs ∧ p = render pcs ∧ dcs <+: pcs := by
  obtain ⟨up, d, file, hc, hd, _, _, hp, _, hpre, _, _⟩ :=
    C20_confined apiPath cfg _ isGet rawPath query st p h
  simp only [canonOracle] at hd hp
  cases hcd : canonFs fs up with
  | ok dcs =>
    rw [hcd] at hd
    cases hd
    cases hcp : canonFs fs (push (render dcs) file) with
    | ok pcs =>
      rw [hcp] at hp
      cases hp
      have hdo := canonFs_ok hcd
      have hpo := canonFs_ok hcp
      rw [parsePath_render dcs hdo.2, parsePath_render pcs hpo.2] at hpre
      exact ⟨up, dcs, pcs, hc, hcd, hdo.1, hpo.1, rfl, prefix_of_map_normal hpre⟩
    | err => rw [hcp] at hp; cases hp
    | escaped => rw [hcp] at hp; cases hp
    | fuelOut => rw [hcp] at hp; cases hp
  | err => rw [hcd] at hd; cases hd
  | escaped => rw [hcd] at hd; cases hd
  | fuelOut => rw [hcd] at hd; cases hd

/-- non-vacuity: `/@R@/u` (update dir) with a file `a`, a link `l -> ../o/s` to a file outside,
    a link `i -> a` to a file inside; `/@R@/o/s` outside. -/
def exFs : Fs := ⟨[
  ([rootName, [117]], .dir), ([rootName, [117], [97]], .file),
  ([rootName, [117], [108]], .link [46, 46, 47, 111, 47, 115]),
  ([rootName, [117], [105]], .link [97]),
  ([rootName, [111]], .dir), ([rootName, [111], [115]], .file)]⟩

/-- `/@R@/u` -/
def exUpd : Bytes := 47 :: rootName ++ [47, 117]

example : canonFs exFs (exUpd ++ [47, 108]) = .ok [rootName, [111], [115]] := by decide
/-- `file=a`: enqueued -/
example : processRequest [47, 109, 47] (some exUpd) ⟨canonOracle exFs, true, .ok⟩ true
    ([47, 109, 47] ++ sQueue) (some (sFile ++ [61, 97])) = .resp 200 (some (exUpd ++ [47, 97])) := by
  decide
/-- `file=i` (link to a file inside): the *target* is enqueued -/
example : processRequest [47, 109, 47] (some exUpd) ⟨canonOracle exFs, true, .ok⟩ true
    ([47, 109, 47] ++ sQueue) (some (sFile ++ [61, 105])) = .resp 200 (some (exUpd ++ [47, 97])) := by
  decide
/-- `file=l` (link to a file outside): 400, nothing enqueued -/
example : processRequest [47, 109, 47] (some exUpd) ⟨canonOracle exFs, true, .ok⟩ true
    ([47, 109, 47] ++ sQueue) (some (sFile ++ [61, 108])) = .resp 400 none := by
  decide

/-- **Rejections answer 400.** A handled request that enqueues nothing is answered 400. -/
theorem C20_reject_400 (apiPath : Bytes) (cfg : Option Bytes) (env : Env) (isGet : Bool)
    (rawPath : Bytes) (query : Option Bytes) (st : Nat)
    (h : processRequest apiPath cfg env isGet rawPath query = .resp st none) : st = 400 := by
  rcases processRequest_cases apiPath cfg env isGet rawPath query with hn | ⟨_, _, hq⟩
  · rw [hn] at h; cases h
  · rw [hq] at h
    rcases queue_spec cfg env query with h4 | ⟨_, _, _, p', _, _, _, _, _, _, hs⟩
    · rw [h4] at h; cases h; rfl
    · rw [hs] at h
      rcases afterSend_cases env p' with ⟨_, h1⟩ | ⟨_, _, h1⟩ | ⟨_, _, h1⟩ <;>
        (rw [h1] at h; cases h) <;> rfl

/-- An enqueue is answered 200 unless the queue consumer itself reported a failure. -/
theorem C20_enqueue_status (apiPath : Bytes) (cfg : Option Bytes) (env : Env) (isGet : Bool)
    (rawPath : Bytes) (query : Option Bytes) (st : Nat) (p : Bytes)
    (h : processRequest apiPath cfg env isGet rawPath query = .resp st (some p)) :
    (st = 200 ∧ (env.reply = .ok ∨ env.reply = .silent)) ∨
    (st = 400 ∧ (env.reply = .err ∨ env.reply = .dropped)) := by
  rcases processRequest_cases apiPath cfg env isGet rawPath query with hn | ⟨_, _, hq⟩
  · rw [hn] at h; cases h
  · rw [hq] at h
    rcases queue_spec cfg env query with h4 | ⟨_, _, _, p', _, _, _, _, _, _, hs⟩
    · rw [h4] at h; cases h
    · rw [hs] at h
      rcases afterSend_cases env p' with ⟨_, h1⟩ | ⟨_, hr, h1⟩ | ⟨_, hr, h1⟩
      · rw [h1] at h; cases h
      · rw [h1] at h; cases h; exact Or.inl ⟨rfl, hr⟩
      · rw [h1] at h; cases h; exact Or.inr ⟨rfl, hr⟩

example : processRequest [47, 109, 47] (some [47, 100]) { exEnv with reply := .err } true
    ([47, 109, 47] ++ sQueue) (some (sFile ++ [61, 97])) = .resp 400 (some [47, 100, 47, 97]) := by
  decide

/-- **Unconfigured.** Without `update_path` every handled request is answered 400 and nothing is
    enqueued, whatever the file system and the query look like. -/
theorem C20_unconfigured (apiPath : Bytes) (env : Env) (isGet : Bool) (rawPath : Bytes)
    (query : Option Bytes) :
    processRequest apiPath none env isGet rawPath query = .notHandled ∨
    processRequest apiPath none env isGet rawPath query = .resp 400 none := by
  rcases processRequest_cases apiPath none env isGet rawPath query with hn | ⟨_, _, hq⟩
  · exact Or.inl hn
  · right; rw [hq]; simp [queue, err400_eq]

example : processRequest [47, 109, 47] none exEnv true
    ([47, 109, 47] ++ sQueue) (some (sFile ++ [61, 97])) = .resp 400 none := by decide

/-- **No panic.** None of the `unwrap()`s of `api.rs` (all of them are
    `Response::builder()…unwrap()` with constant status and header) can fail. -/
theorem C20_no_panic (apiPath : Bytes) (cfg : Option Bytes) (env : Env) (isGet : Bool)
    (rawPath : Bytes) (query : Option Bytes) (site : String) :
    processRequest apiPath cfg env isGet rawPath query ≠ .panic site := by
  intro h
  rcases processRequest_cases apiPath cfg env isGet rawPath query with hn | ⟨_, _, hq⟩
  · rw [hn] at h; cases h
  · rw [hq] at h
    rcases queue_spec cfg env query with h4 | ⟨_, _, _, p', _, _, _, _, _, _, hs⟩
    · rw [h4] at h; cases h
    · rw [hs] at h
      rcases afterSend_cases env p' with ⟨_, h1⟩ | ⟨_, _, h1⟩ | ⟨_, _, h1⟩ <;>
        (rw [h1] at h; cases h)

/-- non-vacuity of `respond`'s panic branch: an invalid status *would* be a panic value, so
    `C20_no_panic` is a statement about the constants the code uses. -/
example : respond "x" 99 none = .panic "x" := by decide

end Rotonda.MrtApi
