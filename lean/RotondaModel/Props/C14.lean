import RotondaModel.Proofs.Ingress
import RotondaModel.Generated.Ingress
/-!
# C14 — ingress ids are unique per live source and stable across reconnects

Statements only (plus their top-level proofs and non-vacuity examples).
Model: `Model/Ingress.lean` (a transliteration of `src/ingress.rs` and of the
`find; else { register; update_info }` programs at its call sites).

Every operation of `Register` is one atomic step (one `fetch_add`, or one critical
section of the `RwLock`), so a concurrent execution from many threads *is* a merge
of the threads' operation lists; the theorems below quantify over **all** histories,
hence over all merges (`C14_unique_concurrent` spells that out).

Stated assumption (DESIGN §3): `Register.serial` is an `AtomicU32`; uniqueness is
proved for histories that do not wrap it (`r.serial + #registrations ≤ M`, `M = 2^32`),
and `C14_wrap_counterexample` shows the hypothesis is needed.
-/
namespace Rotonda.Ingress

def M32 : Nat := 4294967296

/-! ## Clause 1 — no two sources get the same id, even when registrations race -/

/-- For every history (every merge of every set of thread programs) that does not wrap the
    counter: the ids handed out by `fetch_add` are pairwise distinct — they are exactly
    `serial, serial+1, …` — and so are the ids the `register()` calls returned. -/
theorem C14_unique (M : Nat) (r : Register) (ops : List Op) (h : r.serial + regCount ops ≤ M) :
    allocs M r ops = List.range' r.serial (allocs M r ops).length
    ∧ (allocs M r ops).Nodup
    ∧ (regRets ops (run M r ops).2).Nodup := by
  have hle := allocs_length_le M ops r
  have heq := allocs_eq_range' M ops r _ rfl (by omega)
  have hnd : (allocs M r ops).Nodup := by rw [heq]; exact List.nodup_range'
  exact ⟨heq, hnd, (regRets_sublist_allocs M ops r).nodup hnd⟩

/-- The instance for the real register: fresh (`serial = 1`), 32-bit counter. -/
theorem C14_unique_u32 (ops : List Op) (h : regCount ops < M32 - 1) :
    (regRets ops (run M32 Register.new ops).2).Nodup :=
  (C14_unique M32 Register.new ops (by simp only [Register.new, M32] at *; omega)).2.2

/-- Spelled out for concurrency: whatever the thread programs and whatever the schedule, the
    `register()` calls of all threads together received pairwise distinct ids. -/
theorem C14_unique_concurrent (M : Nat) (r : Register) (progs : List (List Op)) (sched : List Nat)
    (h : r.serial + regCount ((interleave progs sched).map (·.2)) ≤ M) :
    (regRets ((interleave progs sched).map (·.2)) (runConc M r progs sched).2).Nodup :=
  (C14_unique M r _ h).2.2

example : (regRets ((interleave [[.reg, .reg], [.reg]] [1, 0, 0]).map (·.2))
            (runConc M32 Register.new [[.reg, .reg], [.reg]] [1, 0, 0]).2) = [1, 2, 3] := by decide

/-- The no-wrap hypothesis excludes something real: with a 2-bit counter the fifth registration
    repeats the first id. -/
theorem C14_wrap_counterexample :
    regRets [.reg, .reg, .reg, .reg, .reg] (run 4 Register.new [.reg, .reg, .reg, .reg, .reg]).2 = [1, 2, 3, 0, 1] := by
  decide

/-! ## Clause 4 — a metadata update keeps every field it does not supply -/

/-- After `update_info(id, new)` the entry is the field-wise merge (or `new` if there was none),
    and no other entry changed. -/
theorem C14_merge (r : Register) (id : Nat) (new : Info) :
    get (updateInfo r id new) id = some (match get r id with | some old => old.merge new | none => new)
    ∧ ∀ id', id' ≠ id → get (updateInfo r id new) id' = get r id' := by
  unfold get
  rw [updateInfo_info]
  exact ⟨lookup_insert_self _ _ _, fun id' h => lookup_insert_ne h _ _⟩

/-- The merge law, field by field, for the eight fields of `IngressInfo`: a supplied field wins,
    an omitted field is kept. -/
theorem C14_merge_fields (old new : Info) :
    (old.merge new).unitName = (if new.unitName.isSome then new.unitName else old.unitName)
    ∧ (old.merge new).parent = (if new.parent.isSome then new.parent else old.parent)
    ∧ (old.merge new).addr = (if new.addr.isSome then new.addr else old.addr)
    ∧ (old.merge new).asn = (if new.asn.isSome then new.asn else old.asn)
    ∧ (old.merge new).ribType = (if new.ribType.isSome then new.ribType else old.ribType)
    ∧ (old.merge new).filename = (if new.filename.isSome then new.filename else old.filename)
    ∧ (old.merge new).name = (if new.name.isSome then new.name else old.name)
    ∧ (old.merge new).desc = (if new.desc.isSome then new.desc else old.desc) := by
  refine ⟨?_, ?_, ?_, ?_, ?_, ?_, ?_, ?_⟩ <;> simp only [Info.merge, updField] <;> split <;> simp_all

/-- An update that supplies nothing changes nothing. -/
theorem C14_merge_empty (old : Info) : old.merge {} = old := by
  cases old; rfl

example : ({ parent := some 7, addr := some 3, name := some 1 } : Info).merge { name := some 2, desc := some 5 }
    = { parent := some 7, addr := some 3, name := some 2, desc := some 5 } := by decide

/-- `update_info` always answers `None` (the `HashMap::insert` it returns from runs after the
    key was removed) — the comment "returns the replaced info" in ingress.rs does not hold. -/
theorem updateRet_none (r : Register) (id : Nat) : updateRet r id = none := by
  unfold updateRet
  split
  · exact lookup_erase_self _ _
  · assumption

/-! ### Tie to the source text (extraction, `tools/extract_ingress.py`) -/

/-- Field access by the Rust field name. -/
def Info.field (i : Info) : String → Option Nat
  | "unit_name" => i.unitName
  | "parent_ingress" => i.parent
  | "remote_addr" => i.addr
  | "remote_asn" => i.asn
  | "rib_type" => i.ribType
  | "filename" => i.filename
  | "name" => i.name
  | "desc" => i.desc
  | _ => none

/-- The struct's field list and the list of `update_field!` lines extracted from ingress.rs are
    both the model's field list (a field added to the struct but forgotten in `update_info`
    breaks this), `register()` is a single `fetch_add`, the counter starts at 1. -/
theorem C14_extracted_shape :
    Generated.structFields = Info.fieldNames ∧ Generated.mergedFields = Info.fieldNames
    ∧ Generated.registerIsSingleFetchAdd = true ∧ Generated.initialSerial = Register.new.serial := by
  decide

/-- The model's merge is `update_field!` on every extracted field. -/
theorem C14_extracted_merge (old new : Info) :
    ∀ f ∈ Generated.mergedFields, (old.merge new).field f = updField (old.field f) (new.field f) := by
  simp [Generated.mergedFields, Info.field, Info.merge]

/-- The model's match conditions are exactly the extracted `is_some()` / `==` lists of
    `find_existing_peer` and `find_existing_bmp_router`. -/
theorem C14_extracted_match (q i : Info) :
    matchesLvl .peer q i = (Generated.peerRequired.all (fun f => (i.field f).isSome)
                            && Generated.peerCompared.all (fun f => i.field f == q.field f))
    ∧ matchesLvl .router q i = (Generated.routerRequired.all (fun f => (i.field f).isSome)
                            && Generated.routerCompared.all (fun f => i.field f == q.field f)) := by
  simp [matchesLvl, Generated.peerRequired, Generated.peerCompared, Generated.routerRequired,
        Generated.routerCompared, Info.field, Bool.and_assoc]

/-! ## Clause 3 — the children reported for a parent are exactly the sources registered under it -/

/-- In every reachable state (keys unique, see `C14_reachable_nodup`): `id` is reported for
    `p` iff `get id` has `parent_ingress = Some(p)`; and nothing is reported twice. -/
theorem C14_children (r : Register) (h : NodupKeys r.info) (p id : Nat) :
    (id ∈ idsForParent r p ↔ ∃ i, get r id = some i ∧ i.parent = some p)
    ∧ (idsForParent r p).Nodup := by
  constructor
  · simp only [idsForParent, List.mem_map, List.mem_filter, beq_iff_eq, get]
    constructor
    · rintro ⟨e, ⟨he, hp⟩, rfl⟩
      exact ⟨e.2, lookup_of_mem h he, hp⟩
    · rintro ⟨i, hl, hp⟩
      exact ⟨(id, i), ⟨mem_of_lookup hl, hp⟩, rfl⟩
  · unfold idsForParent
    exact (List.filter_sublist.map _).nodup h

/-- Keys stay unique along every history from a fresh register. -/
theorem C14_reachable_nodup (M : Nat) (ops : List Op) : NodupKeys (run M Register.new ops).1.info :=
  run_nodupKeys M ops (by simp [NodupKeys, Register.new])

example : idsForParent (run M32 Register.new
    [.reg, .reg, .upd 2 { parent := some 1 }, .reg, .upd 3 { parent := some 1 }, .reg, .upd 4 { parent := some 2 },
     .upd 3 { name := some 9 }]).1 1 = [2, 3] := by decide

/-! ## Clause 2 — looking a source up by its identity yields the id it had before -/

/-- What `find_existing_*` may answer (hash-map order is not modelled: `hint` ranges over all
    choices): always a stored entry that matches the query, `None` only if nothing matches, and
    every matching entry is a possible answer. -/
theorem C14_find_sound (lvl : Level) (r : Register) (q : Info) :
    (∀ hint e, pick (candidates lvl r q) hint = some e → e ∈ r.info ∧ matchesLvl lvl q e.2 = true)
    ∧ (∀ hint, pick (candidates lvl r q) hint = none → ∀ e ∈ r.info, matchesLvl lvl q e.2 = false)
    ∧ (NodupKeys r.info → ∀ e ∈ r.info, matchesLvl lvl q e.2 = true →
         pick (candidates lvl r q) (some e.1) = some e) := by
  refine ⟨?_, ?_, ?_⟩
  · intro hint e h
    have := pick_mem h
    simpa [candidates] using this
  · intro hint h e he
    have hc := pick_none h
    cases hm : matchesLvl lvl q e.2 with
    | false => rfl
    | true =>
      have : e ∈ candidates lvl r q := by simp [candidates, he, hm]
      rw [hc] at this; cases this
  · intro hn e he hm
    have hc : e ∈ candidates lvl r q := by simp [candidates, he, hm]
    have hnc : NodupKeys (candidates lvl r q) := by
      unfold NodupKeys candidates; exact (List.filter_sublist.map _).nodup hn
    simp [pick, lookup_of_mem hnc (show (e.1, e.2) ∈ candidates lvl r q from hc)]

/-- **Stability, state level.** If no two stored entries share an identity (`Unique`), a lookup
    by the identity of a stored entry answers exactly that entry — for every hash-map order. -/
theorem C14_stable (lvl : Level) (r : Register) (q : Info) (id : Nat) (i : Info)
    (hn : NodupKeys r.info) (hu : Unique lvl r.info) (hmem : (id, i) ∈ r.info)
    (hm : matchesLvl lvl q i = true) :
    ∀ hint, pick (candidates lvl r q) hint = some (id, i) :=
  pick_unique hn hu hmem hm

/-- The three call-site steps run without interruption are the atomic `findOrReg` operation. -/
theorem C14_callsite_atomic (M : Nat) (r : Register) (lvl : Level) (q : Info) (hint : Option Nat) (t : TState) :
    let s1 := microStep M r t (.find lvl q hint)
    let s2 := microStep M s1.1 s1.2 .regIfNone
    let s3 := microStep M s2.1 s2.2 (.updIfNew q)
    s3.1 = (step M r (.findOrReg lvl q hint)).1 ∧ Ret.id s3.2.cur = (step M r (.findOrReg lvl q hint)).2 := by
  simp only [microStep, step]
  cases pick (candidates lvl r q) hint <;> simp [register]

theorem step_findOrReg_of_pick (M : Nat) (r : Register) (lvl : Level) (q : Info) (hint : Option Nat)
    (e : Nat × Info) (h : pick (candidates lvl r q) hint = some e) :
    (step M r (.findOrReg lvl q hint)).2 = .id e.1 := by
  simp only [step, h]

theorem step_find_of_pick (M : Nat) (r : Register) (lvl : Level) (q : Info) (hint : Option Nat)
    (e : Nat × Info) (h : pick (candidates lvl r q) hint = some e) :
    (step M r (.find lvl q hint)).2 = .found (some e) := by
  simp only [step, h]

/-- After first contact through the call site there is an entry for `q` under the returned id. -/
theorem first_contact (lvl : Level) (M : Nat) (r : Register) (q : Info) (h1 : Option Nat)
    (inv : Inv lvl r) (complete : matchesLvl lvl q q = true) (hM : r.serial + 1 < M) :
    ∃ id i, (step M r (.findOrReg lvl q h1)).2 = .id id ∧ (id, i) ∈ (step M r (.findOrReg lvl q h1)).1.info
      ∧ matchesLvl lvl q i = true ∧ Inv lvl (step M r (.findOrReg lvl q h1)).1
      ∧ (step M r (.findOrReg lvl q h1)).1.serial ≤ r.serial + 1 := by
  simp only [step]
  cases hp : pick (candidates lvl r q) h1 with
  | some e =>
    have hmem := pick_mem hp
    simp only [candidates, List.mem_filter] at hmem
    exact ⟨e.1, e.2, rfl, hmem.1, hmem.2, inv, Nat.le_succ _⟩
  | none =>
    have := inv_findOrReg_new (M := M) (q := q) inv (pick_none hp) hM
    refine ⟨r.serial, q, rfl, this.2.2, complete, this.1, ?_⟩
    simp only [updateInfo_serial, register]
    rw [Nat.mod_eq_of_lt hM]
    exact Nat.le_refl _

/-- **Stability across reconnects, history level.** Start in any state satisfying the invariant
    (a fresh register does, `inv_new`). A source with a complete identity `q` makes first contact
    through the call site (`findOrReg`) and is given an id. Then *any* disciplined history follows
    (registrations, metadata updates of ids already handed out, reads, other sources coming and
    going through the same kind of call site — each call site run atomically), without wrapping
    the counter. When the source returns, both the call site and a plain `find_existing_*` answer
    the id it had before, whatever the hash-map order (`h1 h2`). -/
theorem C14_stable_history (lvl : Level) (M : Nat) (r : Register) (q : Info) (h1 h2 : Option Nat) (ops : List Op)
    (inv : Inv lvl r) (complete : matchesLvl lvl q q = true)
    (disc : disciplined lvl M (step M r (.findOrReg lvl q h1)).1 ops = true)
    (nowrap : r.serial + regCount ops + 2 < M) :
    let first := step M r (.findOrReg lvl q h1)
    let later := (run M first.1 ops).1
    (step M later (.findOrReg lvl q h2)).2 = first.2
    ∧ ∃ id i, first.2 = .id id ∧ (step M later (.find lvl q h2)).2 = .found (some (id, i)) := by
  intro first later
  obtain ⟨id, i, hret, hmem, hm, inv1, hser⟩ := first_contact lvl M r q h1 inv complete (by omega)
  have hrun := inv_run (lvl := lvl) (M := M) ops inv1 disc (by omega)
  obtain ⟨i', hmem', hm'⟩ := hrun.2 id i q hmem hm
  have hpick := pick_unique hrun.1.nodup hrun.1.unique hmem' hm'
  refine ⟨?_, id, i', hret, ?_⟩
  · show (step M (run M (step M r (.findOrReg lvl q h1)).1 ops).1 (.findOrReg lvl q h2)).2 = (step M r (.findOrReg lvl q h1)).2
    rw [hret]
    exact step_findOrReg_of_pick M _ lvl q h2 _ (hpick h2)
  · show (step M (run M (step M r (.findOrReg lvl q h1)).1 ops).1 (.find lvl q h2)).2 = _
    exact step_find_of_pick M _ lvl q h2 _ (hpick h2)

/-- Non-vacuity: a router connects (id 2 under unit 1), another router connects, metadata arrives,
    the first one reconnects: same id. -/
example :
    let q : Info := { parent := some 1, addr := some 3 }
    let ops : List Op := [.findOrReg .router { parent := some 1, addr := some 4 } none, .upd 2 { name := some 5 }, .reg]
    let r : Register := (run M32 Register.new [.reg]).1
    disciplined .router M32 (step M32 r (.findOrReg .router q none)).1 ops = true
    ∧ (step M32 r (.findOrReg .router q none)).2 = .id 2
    ∧ (step M32 (run M32 (step M32 r (.findOrReg .router q none)).1 ops).1 (.findOrReg .router q none)).2 = .id 2 := by
  decide

/-! ### What the guards exclude (both are things rotonda does) -/

/-- The full call-site claim: two sources presenting the same identity through
    find-else-register end up with one id, *for every interleaving of the three steps*. -/
def C14_callsite_full : Prop :=
  ∀ (lvl : Level) (q : Info) (sched : List Nat), matchesLvl lvl q q = true →
    let s := runSite M32 Register.new [siteProg lvl q none, siteProg lvl q none] sched
    ∀ t1 ∈ s.ts, ∀ t2 ∈ s.ts, t1.cur = t2.cur

def witnessQ : Info := { parent := some 7, addr := some 3, asn := some 65000 }

/-- It is false: both programs look up (nothing there), both register, both store. One identity,
    two ids; a later lookup may answer either. `Register` offers no atomic find-or-register, so
    the claim needs "no two concurrent call-site programs for one identity"
    (`C14_stable_history` is the guarded version: call sites run atomically). -/
theorem C14_callsite_counterexample : ¬ C14_callsite_full := by
  intro h
  have := h .peer witnessQ [0, 1, 0, 1, 0, 1] (by decide) ⟨none, 1⟩ (by decide) ⟨none, 2⟩ (by decide)
  exact absurd this (by decide)

theorem C14_callsite_counterexample_state :
    let s := runSite M32 Register.new [siteProg .peer witnessQ none, siteProg .peer witnessQ none] [0, 1, 0, 1, 0, 1]
    s.ts.map (·.cur) = [1, 2]
    ∧ (candidates .peer s.reg witnessQ).map (·.1) = [1, 2]
    ∧ (pick (candidates .peer s.reg witnessQ) (some 1)).map (·.1) = some 1
    ∧ (pick (candidates .peer s.reg witnessQ) (some 2)).map (·.1) = some 2 := by
  decide

/-- The same two programs one after the other: one id. -/
example : (runSite M32 Register.new [siteProg .peer witnessQ none, siteProg .peer witnessQ none] [0, 0, 0, 1, 1, 1]).ts.map (·.cur)
    = [1, 1] := by decide

/-- `register(); update_info(id, identity)` without a lookup (the MRT peer-index loop,
    mrt_file_in/unit.rs:355-366, run for a second file) is not a disciplined history, and it does
    give one identity two ids, after which the lookup is no longer determined. -/
theorem C14_undisciplined_counterexample :
    let ops : List Op := [.reg, .upd 1 witnessQ, .reg, .upd 2 witnessQ]
    disciplined .peer M32 Register.new ops = false
    ∧ (candidates .peer (run M32 Register.new ops).1 witnessQ).map (·.1) = [1, 2] := by
  decide

end Rotonda.Ingress
