import RotondaModel.Model.HttpRegistry
/-!
Registry churn (`http::Resources`; attached to C12): processors register and go away while requests are being
served, one of them in flight inside its processor.  Every request is answered by the first live processor that
serves its path in the list as it is *when the request is dispatched*; nothing is carried from one request to the next.
-/
namespace Rotonda.HttpRegistry

/-! ### `process_request`: the first live processor that answers -/

/-- **Dispatch law.** A request is answered by processor `id` exactly when the list splits into entries that do
    not serve the path (dead, or not responsible), then a live entry `id` that serves it. -/
theorem HR_dispatch_first_live_claimant (held : Option Nat) (r : Reg) (p id : Nat) (hp : p ≠ 0) :
    dispatch held r p = .proc id ↔
      ∃ pre e post, r = pre ++ e :: post ∧ e.id = id ∧ serves held p e = true ∧ ∀ x ∈ pre, serves held p x = false := by
  unfold dispatch
  simp only [hp, if_false]
  constructor
  · intro h
    cases hf : r.find? (serves held p) with
    | none => simp [hf] at h
    | some e =>
      simp only [hf, Ans.proc.injEq] at h
      obtain ⟨hs, pre, post, hr, hpre⟩ := List.find?_eq_some_iff_append.mp hf
      exact ⟨pre, e, post, hr, h, hs, fun x hx => by simpa using hpre x hx⟩
  · rintro ⟨pre, e, post, hr, hid, hs, hpre⟩
    have : r.find? (serves held p) = some e :=
      List.find?_eq_some_iff_append.mpr ⟨hs, pre, post, hr, fun x hx => by simp [hpre x hx]⟩
    simp [this, hid]

/-- 404 exactly when no live processor serves the path -/
theorem HR_dispatch_not_found (held : Option Nat) (r : Reg) (p : Nat) (hp : p ≠ 0) :
    dispatch held r p = .notFound ↔ ∀ x ∈ r, serves held p x = false := by
  unfold dispatch
  simp only [hp, if_false]
  cases hf : r.find? (serves held p) with
  | none => simp only [true_iff]; intro x hx; simpa using List.find?_eq_none.mp hf x hx
  | some e =>
    simp only [reduceCtorEq, false_iff]
    intro h
    have := List.find?_some hf
    rw [h e (List.mem_of_find?_eq_some hf)] at this
    cases this

theorem find_serves_filter_live (held : Option Nat) (p : Nat) (r : Reg) :
    (r.filter (live held)).find? (serves held p) = r.find? (serves held p) := by
  induction r with
  | nil => rfl
  | cons x r ih =>
    by_cases hl : live held x = true
    · simp only [List.filter_cons, hl, if_true, List.find?_cons, ih]
    · have hs : serves held p x = false := by simp [serves, hl]
      simp only [List.filter_cons, hl, Bool.false_eq_true, if_false, List.find?_cons, hs, ih]

/-- **Dead entries are invisible:** pruning them (what every registration does) never changes an answer. -/
theorem HR_dispatch_ignores_dead (held : Option Nat) (r : Reg) (p : Nat) :
    dispatch held (r.filter (live held)) p = dispatch held r p := by
  unfold dispatch; rw [find_serves_filter_live]

/-! ### `register`: prune, then head (sub-resource) or tail -/

/-- after a registration every entry but the new one is live -/
theorem HR_register_prunes (held : Option Nat) (r : Reg) (e x : Entry) (hx : x ∈ register held r e) :
    x = e ∨ (x ∈ r ∧ live held x = true) := by
  unfold register at hx
  split at hx
  · simp [List.mem_filter] at hx; exact hx
  · simp [List.mem_filter] at hx; exact hx.symm

/-- **A registration does not change the answer for a path the new processor does not serve** — however many dead
    entries it prunes, wherever the answering processor sat, whether the new one goes to the head or the tail. -/
theorem HR_register_other_path (held : Option Nat) (r : Reg) (e : Entry) (p : Nat)
    (he : serves held p e = false) : dispatch held (register held r e) p = dispatch held r p := by
  unfold dispatch register
  by_cases hp : p = 0
  · simp [hp]
  · simp only [hp, if_false]
    by_cases hs : e.sub = true
    · rw [if_pos hs, List.find?_cons, he, find_serves_filter_live]
    · rw [if_neg hs, List.find?_append, find_serves_filter_live, List.find?_cons, he, List.find?_nil, Option.or_none]

/-- a sub-resource that serves the path answers it from now on; any other new processor only where nobody did -/
theorem HR_register_serving (held : Option Nat) (r : Reg) (e : Entry) (p : Nat) (hp : p ≠ 0)
    (he : serves held p e = true) :
    dispatch held (register held r e) p =
      if e.sub then .proc e.id
      else match dispatch held r p with
        | .notFound => .proc e.id
        | a => a := by
  unfold dispatch register
  simp only [hp, if_false]
  by_cases hs : e.sub = true
  · rw [if_pos hs, if_pos hs, List.find?_cons, he]
  · rw [if_neg hs, if_neg hs, List.find?_append, find_serves_filter_live]
    cases hf : r.find? (serves held p) with
    | none => simp [he]
    | some x => simp

/-! ### No state between requests -/

/-- the state after a history -/
def stateAfter : St → List Ev → St
  | s, [] => s
  | s, ev :: evs => stateAfter (step s ev).1 evs

theorem run_append (s : St) (h t : List Ev) : run s (h ++ t) = run s h ++ run (stateAfter s h) t := by
  induction h generalizing s with
  | nil => rfl
  | cons ev h ih => simp [run, stateAfter, ih, List.append_assoc]

/-- **A request is answered from the registry as it is at that moment, exactly once, and leaves no trace.** -/
theorem HR_request_stateless (s : St) (p : Nat) :
    step s (.req p) = (s, [dispatch (holder s.inflight) s.reg p]) := rfl

/-- **Histories.** After any history the server is in the state it would be in had none of the completed
    requests ever been made: answers cannot depend on earlier requests. -/
theorem HR_no_state_between_requests (s : St) (h : List Ev) :
    stateAfter s (h.filter fun ev => match ev with | .req _ => false | _ => true) = stateAfter s h := by
  induction h generalizing s with
  | nil => rfl
  | cons ev h ih =>
    cases ev with
    | req p => simp only [List.filter_cons, Bool.false_eq_true, if_false, stateAfter]; exact ih s
    | reg id sub claims => simp only [List.filter_cons, if_true, stateAfter]; exact ih _
    | drop id => simp only [List.filter_cons, if_true, stateAfter]; exact ih _
    | «begin» p => simp only [List.filter_cons, if_true, stateAfter]; exact ih _
    | finish => simp only [List.filter_cons, if_true, stateAfter]; exact ih _

/-- events that neither start nor end the request in flight -/
def quiet : Ev → Bool
  | .begin _ => false
  | .finish => false
  | _ => true

theorem stateAfter_quiet_inflight (s : St) (mid : List Ev) (hq : ∀ ev ∈ mid, quiet ev = true) :
    (stateAfter s mid).inflight = s.inflight := by
  induction mid generalizing s with
  | nil => rfl
  | cons ev mid ih =>
    have h1 : (step s ev).1.inflight = s.inflight := by
      have := hq ev (by simp)
      cases ev <;> simp_all [step, quiet]
    simp only [stateAfter]
    rw [ih _ (fun e he => hq e (by simp [he])), h1]

/-- **The request in flight.** Whatever happens while it sits inside its processor — registrations (pruning,
    at the head or the tail), components going away (its own included), other requests — it gets exactly the
    answer of the first live processor serving its path in the list as it was when it was dispatched. -/
theorem HR_inflight_answer_fixed_at_dispatch (s : St) (hs : s.inflight = none) (p : Nat) (mid : List Ev)
    (hq : ∀ ev ∈ mid, quiet ev = true) :
    run (stateAfter s (.begin p :: mid)) [.finish] = [dispatch none s.reg p] := by
  have h0 : (step s (.begin p)).1.inflight = some (dispatch none s.reg p) := by simp [step, hs]
  have h1 := stateAfter_quiet_inflight (step s (.begin p)).1 mid hq
  rw [h0] at h1
  simp only [stateAfter, run, List.append_nil]
  generalize stateAfter (step s (.begin p)).1 mid = s' at h1
  simp [step, h1]

/-- the processor holding the request in flight stays live until the request is answered, even if its component
    goes away meanwhile; afterwards it is dead like any other dropped one -/
theorem HR_holder_stays_live (id : Nat) (e : Entry) (he : e.id = id) : live (some id) e = true := by
  simp [live, he]

/-! ### Non-vacuity: the enumerated interleaving that a remembered index gets wrong -/

/-- three dead processors, the slow one (2) at the tail, a registration while its request is in flight: every
    later request of path 2 is answered by 2, the others by their processors -/
example :
    answers [.reg 1 false [1, 9], .reg 10 false [5, 9], .reg 11 true [5, 9], .reg 12 false [5, 9], .reg 2 false [2, 9],
             .drop 10, .drop 11, .drop 12, .req 2, .req 9, .begin 2, .reg 3 false [3, 9], .req 1, .finish,
             .req 2, .req 2, .req 1, .req 3, .req 9, .req 5, .req 0]
      = [.proc 2, .proc 1, .proc 1, .proc 2, .proc 2, .proc 2, .proc 1, .proc 3, .proc 1, .notFound, .fixed] := by
  decide

example : dispatch none (register none [⟨1, true, false, [1]⟩, ⟨7, false, false, [2]⟩, ⟨2, true, false, [2]⟩] ⟨3, true, true, [3]⟩) 2
    = dispatch none [⟨1, true, false, [1]⟩, ⟨7, false, false, [2]⟩, ⟨2, true, false, [2]⟩] 2 :=
  HR_register_other_path none _ _ 2 (by decide)

example : run (stateAfter ⟨[⟨2, true, false, [2]⟩], none⟩ [.begin 2, .drop 2, .reg 3 true [2], .req 2]) [.finish] = [.proc 2] :=
  HR_inflight_answer_fixed_at_dispatch _ rfl 2 _ (by decide)

end Rotonda.HttpRegistry
