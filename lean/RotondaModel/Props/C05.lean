import RotondaModel.Proofs.Bmp
/-!
# C05 — a BMP session follows the RFC 7854 lifecycle for every order of messages

Statements (with their top-level proofs and non-vacuity examples) about
`Model/Bmp.lean`, the transliteration of
`src/units/bmp_tcp_in/state_machine/{machine.rs,processing.rs,states/*.rs}`.
Everything is for **every** message list of any length (`run … init ms`), every
header-to-register-key map `K`, and both variants unless a variant is named.

Inputs that are not modelled but supplied as tokens: what routecore's parser
says about the BGP UPDATE inside a Route Monitoring message (`Rm`).
-/
namespace Rotonda.Bmp

/-- Invariant of every reachable state: each up peer's register key resolves to
    the ingress id stored for it, and outside Dumping/Updating no peer is up. -/
structure Inv (K : Hdr → Key) (s : State) : Prop where
  reg_ok : ∀ p ∈ s.peers, lookupKey (K p.hdr) s.reg = some p.mui
  idle : (s.phase = .initiating ∨ s.phase = .terminated) → s.peers = []

theorem inv_init (K : Hdr → Key) : Inv K init :=
  ⟨fun _ hp => (nomatch hp), fun _ => rfl⟩

theorem step_st (v : Variant) (K : Hdr → Key) (s : State) (m : Msg) :
    (step v K s m).st = (stepCore v K s m).st := by
  cases h : (stepCore v K s m).out <;> simp [step, h]

theorem step_out (v : Variant) (K : Hdr → Key) (s : State) (m : Msg) :
    (step v K s m).out = (stepCore v K s m).out := by
  cases h : (stepCore v K s m).out <;> simp [step, h]

private theorem peerUp_reg_ok (K : Hdr → Key) (s : State) (h : Hdr) (e c : Bool)
    (hi : ∀ p ∈ s.peers, lookupKey (K p.hdr) s.reg = some p.mui) :
    ∀ p ∈ (peerUp K s h e c).st.peers,
      lookupKey (K p.hdr) (peerUp K s h e c).st.reg = some p.mui := by
  unfold peerUp regFor
  cases hk : lookupKey (K h) s.reg with
  | some id =>
    cases hf : findPeer h s.peers with
    | some p0 => simpa using hi
    | none =>
      intro p hp
      simp only [List.mem_append, List.mem_singleton] at hp
      rcases hp with hp | rfl
      · exact hi p hp
      · exact hk
  | none =>
    cases hf : findPeer h s.peers with
    | some p0 =>
      intro p hp
      exact lookupKey_append_some (hi p hp)
    | none =>
      intro p hp
      simp only [List.mem_append, List.mem_singleton] at hp
      rcases hp with hp | rfl
      · exact lookupKey_append_some (hi p hp)
      · exact lookupKey_append_none hk

private theorem peerUp_phase (K : Hdr → Key) (s : State) (h : Hdr) (e c : Bool) :
    (peerUp K s h e c).st.phase = s.phase := by
  unfold peerUp; split <;> rfl

private theorem peerDown_phase (v : Variant) (s : State) (h : Hdr) :
    (peerDown v s h).st.phase = s.phase := by
  unfold peerDown; split <;> rfl

private theorem peerDown_reg_ok (v : Variant) (K : Hdr → Key) (s : State) (h : Hdr)
    (hi : ∀ p ∈ s.peers, lookupKey (K p.hdr) s.reg = some p.mui) :
    ∀ p ∈ (peerDown v s h).st.peers, lookupKey (K p.hdr) (peerDown v s h).st.reg = some p.mui := by
  unfold peerDown
  split
  · intro p hp
    simp only [erasePeer, List.mem_filter] at hp
    exact hi p hp.1
  · exact hi

private theorem terminate_st (s : State) :
    (terminate s).st = { s with phase := .terminated, peers := [] } := by
  unfold terminate; split <;> rfl

private theorem routeMon_reg_ok (v : Variant) (d : Bool) (K : Hdr → Key) (s : State) (h : Hdr) (r : Rm)
    (hi : ∀ p ∈ s.peers, lookupKey (K p.hdr) s.reg = some p.mui) :
    ∀ p ∈ (routeMon v d s h r).st.peers,
      lookupKey (K p.hdr) (routeMon v d s h r).st.reg = some p.mui := by
  have f := routeMon_frame v d s h r
  intro p hp
  obtain ⟨q, hq, e1, e2⟩ := f.sub p hp
  rw [f.reg, ← e1, ← e2]
  exact hi q hq

/-- The invariant is preserved by every message. -/
theorem inv_step (v : Variant) (K : Hdr → Key) (s : State) (m : Msg) (hi : Inv K s) :
    Inv K (step v K s m).st := by
  rw [step_st]
  unfold stepCore
  cases hph : s.phase with
  | initiating =>
    cases m <;> first
      | exact hi
      | exact ⟨hi.reg_ok, by simp⟩
  | terminated => exact hi
  | dumping =>
    cases m with
    | init => exact hi
    | stats _ => exact hi
    | mirror _ => exact hi
    | peerUp h e c =>
      exact ⟨peerUp_reg_ok K s h e c hi.reg_ok, by simp [peerUp_phase, hph]⟩
    | peerDown h => exact ⟨peerDown_reg_ok v K s h hi.reg_ok, by simp [peerDown_phase, hph]⟩
    | routeMon h r =>
      refine ⟨routeMon_reg_ok v true K s h r hi.reg_ok, ?_⟩
      rcases (routeMon_frame v true s h r).phase with hp | ⟨_, hp⟩ <;> simp [hp, hph]
    | term => rw [terminate_st]; exact ⟨fun _ hp => (nomatch hp), fun _ => rfl⟩
  | updating =>
    cases m with
    | init => exact hi
    | stats _ => exact hi
    | mirror _ => exact hi
    | peerUp h e c =>
      exact ⟨peerUp_reg_ok K s h e c hi.reg_ok, by simp [peerUp_phase, hph]⟩
    | peerDown h => exact ⟨peerDown_reg_ok v K s h hi.reg_ok, by simp [peerDown_phase, hph]⟩
    | routeMon h r =>
      refine ⟨routeMon_reg_ok v false K s h r hi.reg_ok, ?_⟩
      rcases (routeMon_frame v false s h r).phase with hp | ⟨hd, _⟩
      · simp [hp, hph]
      · cases hd
    | term => rw [terminate_st]; exact ⟨fun _ hp => (nomatch hp), fun _ => rfl⟩

/-- Every state reached from `init` by any message list satisfies the invariant. -/
theorem inv_run (v : Variant) (K : Hdr → Key) (ms : List Msg) (s : State) (hi : Inv K s) :
    Inv K (run v K s ms) := by
  induction ms generalizing s with
  | nil => exact hi
  | cons m ms ih => exact ih _ (inv_step v K s m hi)

/-! ## Clause 3: the phases are only ever left in the forward direction -/

/-- The allowed edges of machine.rs:163-171. -/
def allowedEdge (a b : Phase) : Bool :=
  match a, b with
  | .initiating, .dumping => true
  | .dumping, .updating => true
  | .dumping, .terminated => true
  | .updating, .terminated => true
  | _, _ => false

/-- **C05 (one step).** A message leaves the phase unchanged or moves it along
    one of I→D, D→U, D→T, U→T — for every state, not only reachable ones. -/
theorem C05_edge (v : Variant) (K : Hdr → Key) (s : State) (m : Msg) :
    (step v K s m).st.phase = s.phase ∨ allowedEdge s.phase (step v K s m).st.phase = true := by
  rw [step_st]
  unfold stepCore
  cases hph : s.phase with
  | initiating => cases m <;> simp [allowedEdge, hph]
  | terminated => simp [hph]
  | dumping =>
    cases m with
    | init => simp [hph]
    | stats _ => simp [hph]
    | mirror _ => simp [hph]
    | peerUp h e c => simp [peerUp_phase, hph]
    | peerDown h => simp [peerDown_phase, hph]
    | routeMon h r =>
      rcases (routeMon_frame v true s h r).phase with hp | ⟨_, hp⟩ <;> simp [hp, hph, allowedEdge]
    | term => simp [terminate_st, allowedEdge]
  | updating =>
    cases m with
    | init => simp [hph]
    | stats _ => simp [hph]
    | mirror _ => simp [hph]
    | peerUp h e c => simp [peerUp_phase, hph]
    | peerDown h => simp [peerDown_phase, hph]
    | routeMon h r =>
      rcases (routeMon_frame v false s h r).phase with hp | ⟨hd, _⟩
      · simp [hp, hph]
      · cases hd
    | term => simp [terminate_st, allowedEdge]

theorem allowedEdge_lt {a b : Phase} (h : allowedEdge a b = true) : a.idx < b.idx := by
  cases a <;> cases b <;> simp [allowedEdge, Phase.idx] at h ⊢

/-- **C05 (monotone).** Over any message list the phase index never decreases:
    initiating ≤ dumping ≤ updating ≤ terminated. -/
theorem C05_monotone (v : Variant) (K : Hdr → Key) (s : State) (ms : List Msg) :
    s.phase.idx ≤ (run v K s ms).phase.idx := by
  induction ms generalizing s with
  | nil => exact Nat.le_refl _
  | cons m ms ih =>
    refine Nat.le_trans ?_ (ih _)
    rcases C05_edge v K s m with h | h
    · rw [h]; exact Nat.le_refl _
    · exact Nat.le_of_lt (allowedEdge_lt h)

example : (run asWritten id init [.init, .peerUp 0 true false,
    .routeMon 0 ⟨true, true, some 257, true, 0, 0, 0, true, true⟩, .term]).phase = .terminated := by decide

/-! ## Clause 2: a lifecycle violation is rejected, counted, and changes nothing -/

def hardFails : List Eff → Nat
  | [] => 0
  | .hardFail :: es => hardFails es + 1
  | _ :: es => hardFails es

theorem hardFails_append (a b : List Eff) : hardFails (a ++ b) = hardFails a + hardFails b := by
  induction a with
  | nil => simp [hardFails]
  | cons e a ih => cases e <;> simp [hardFails, ih] <;> omega

/-- **C05 (reject is a no-op), one step.** In a state satisfying the invariant,
    each of the four lifecycle violations (anything but Initiation first; Route
    Monitoring or Peer Down for a header that is not up; Peer Up for a header
    that is up; anything after Termination) yields `InvalidMessage`, leaves the
    whole state — phase, peer table, ingress register — exactly as it was, and
    is counted exactly once as unprocessable. -/
theorem C05_reject_noop_step (v : Variant) (K : Hdr → Key) (s : State) (m : Msg)
    (hi : Inv K s) (hv : lifecycleViolation s m = true) :
    (step v K s m).st = s ∧ (step v K s m).out = .invalid ∧ hardFails (step v K s m).effs = 1 := by
  have key : (stepCore v K s m).st = s ∧ (stepCore v K s m).out = .invalid ∧
      hardFails (stepCore v K s m).effs = 0 := by
    unfold lifecycleViolation at hv
    unfold stepCore
    cases hph : s.phase with
    | initiating => cases m <;> simp_all [hardFails]
    | terminated => simp [hardFails]
    | dumping =>
      rw [hph] at hv
      cases m with
      | init => simp at hv
      | stats _ => simp at hv
      | mirror _ => simp at hv
      | term => simp at hv
      | routeMon h r =>
        have hf : findPeer h s.peers = none := by simpa [isUp] using hv
        simp [routeMon, hf, hardFails]
      | peerDown h =>
        have hf : findPeer h s.peers = none := by simpa [isUp] using hv
        simp [peerDown, hf, hardFails]
      | peerUp h e c =>
        obtain ⟨p, hf⟩ : ∃ p, findPeer h s.peers = some p := by
          simpa [isUp, Option.isSome_iff_exists] using hv
        have hk := hi.reg_ok p (findPeer_some hf).1
        rw [(findPeer_some hf).2] at hk
        simp [peerUp, regFor, hf, hk, hardFails]
    | updating =>
      rw [hph] at hv
      cases m with
      | init => simp at hv
      | stats _ => simp at hv
      | mirror _ => simp at hv
      | term => simp at hv
      | routeMon h r =>
        have hf : findPeer h s.peers = none := by simpa [isUp] using hv
        simp [routeMon, hf, hardFails]
      | peerDown h =>
        have hf : findPeer h s.peers = none := by simpa [isUp] using hv
        simp [peerDown, hf, hardFails]
      | peerUp h e c =>
        obtain ⟨p, hf⟩ : ∃ p, findPeer h s.peers = some p := by
          simpa [isUp, Option.isSome_iff_exists] using hv
        have hk := hi.reg_ok p (findPeer_some hf).1
        rw [(findPeer_some hf).2] at hk
        simp [peerUp, regFor, hf, hk, hardFails]
  obtain ⟨h1, h2, h3⟩ := key
  have e : step v K s m =
      ⟨(stepCore v K s m).st, .invalid, (stepCore v K s m).effs ++ [.hardFail]⟩ := by
    simp [step, h2]
  rw [e]
  exact ⟨h1, rfl, by rw [hardFails_append, h3]; rfl⟩

/-- **C05 (reject is a no-op).** After *any* message list from the initial
    state, a lifecycle violation is rejected as a counted no-op. -/
theorem C05_reject_noop (v : Variant) (K : Hdr → Key) (ms : List Msg) (m : Msg)
    (hv : lifecycleViolation (run v K init ms) m = true) :
    (step v K (run v K init ms) m).st = run v K init ms ∧
    (step v K (run v K init ms) m).out = .invalid ∧
    hardFails (step v K (run v K init ms) m).effs = 1 :=
  C05_reject_noop_step v K _ m (inv_run v K ms init (inv_init K)) hv

-- non-vacuity: all four kinds of violation occur after real histories
example : lifecycleViolation (run asWritten id init []) (.peerUp 0 true false) = true := by decide
example : lifecycleViolation (run asWritten id init [.init]) (.peerDown 0) = true := by decide
example : lifecycleViolation (run asWritten id init [.init, .peerUp 0 true false]) (.peerUp 0 false false) = true := by decide
example : lifecycleViolation (run asWritten id init [.init, .term]) .init = true := by decide
-- … and a duplicate Peer Up for a header sharing its register key with another up header
example : lifecycleViolation (run asWritten (fun _ => 0) init [.init, .peerUp 0 true false, .peerUp 1 true false])
    (.peerUp 1 false false) = true := by decide

/-! ## Clause 1: route data is taken only from peers that are up -/

/-- **C05 (routes only from up peers).** Whenever a step hands routes downstream
    (`Update::Bulk`), the message was a Route Monitoring message for a header
    that is up in the state before the step, every route carries that peer's
    ingress id, and their numbers are what the parser extracted. -/
theorem C05_only_up (v : Variant) (K : Hdr → Key) (s : State) (m : Msg) (mui : Mui) (na nw : Nat)
    (ho : (step v K s m).out = .routing (.bulk mui na nw)) :
    ∃ h r p, m = .routeMon h r ∧ findPeer h s.peers = some p ∧ p.mui = mui ∧ na = r.na ∧ nw = r.nw := by
  rw [step_out] at ho
  have rm : ∀ d h r, (routeMon v d s h r).out = .routing (.bulk mui na nw) →
      ∃ p, findPeer h s.peers = some p ∧ p.mui = mui ∧ na = r.na ∧ nw = r.nw := by
    intro d h r ho
    rcases routeMon_out v d s h r with ⟨_, h2⟩ | ⟨p, hf, h2⟩
    · rw [h2] at ho; cases ho
    · refine ⟨p, hf, ?_⟩
      rcases h2 with ⟨_, h2⟩ | ⟨_, ⟨_, h2⟩ | h2⟩
      · rw [h2] at ho; cases ho
      · rw [h2] at ho; cases ho
      · rw [h2] at ho
        split at ho
        · cases ho
        · cases ho; exact ⟨rfl, rfl, rfl⟩
  unfold stepCore at ho
  cases hph : s.phase with
  | initiating => rw [hph] at ho; cases m <;> simp at ho
  | terminated => rw [hph] at ho; simp at ho
  | dumping =>
    rw [hph] at ho
    cases m with
    | init => simp at ho
    | stats _ => simp at ho
    | mirror _ => simp at ho
    | peerUp h e c => simp only [peerUp] at ho; split at ho <;> simp at ho
    | peerDown h => simp only [peerDown] at ho; split at ho <;> simp at ho
    | term => simp only [terminate] at ho; split at ho <;> simp at ho
    | routeMon h r =>
      obtain ⟨p, h1, h2⟩ := rm true h r ho
      exact ⟨h, r, p, rfl, h1, h2⟩
  | updating =>
    rw [hph] at ho
    cases m with
    | init => simp at ho
    | stats _ => simp at ho
    | mirror _ => simp at ho
    | peerUp h e c => simp only [peerUp] at ho; split at ho <;> simp at ho
    | peerDown h => simp only [peerDown] at ho; split at ho <;> simp at ho
    | term => simp only [terminate] at ho; split at ho <;> simp at ho
    | routeMon h r =>
      obtain ⟨p, h1, h2⟩ := rm false h r ho
      exact ⟨h, r, p, rfl, h1, h2⟩

example : (step asWritten id (run asWritten id init [.init, .peerUp 0 false false])
    (.routeMon 0 ⟨true, true, none, false, 2, 1, 257, true, true⟩)).out = .routing (.bulk 2 2 1) := by decide

/-! ## Clause 4: what goes downstream depends only on the message and the up set -/

/-- A message is well-formed for the variant if what the variant treats as an
    End-of-RIB marker carries no routes. For `repaired` this is a fact about the
    parser alone ("an UPDATE without NLRI explodes into no routes"); for
    `asWritten` it excludes real messages (see the counterexample). -/
def Msg.wf (v : Variant) : Msg → Prop
  | .routeMon _ r => Rm.wf v r
  | _ => True

/-- **C05 (downstream, guarded).** For every state satisfying the invariant and
    every well-formed message, the route data sent downstream is
    `expected m (upSet s)`: a function of the message and of the set of up
    peers (with their ingress ids) alone — not of the phase, the pending
    End-of-RIBs, the session configs or the register. -/
theorem C05_downstream_step (v : Variant) (K : Hdr → Key) (s : State) (m : Msg)
    (hi : Inv K s) (hw : m.wf v) :
    downstream (step v K s m).out = expected m (upSet s) := by
  rw [step_out]
  have rm : ∀ d h r, Rm.wf v r →
      downstream (routeMon v d s h r).out = expected (.routeMon h r) (upSet s) := by
    intro d h r hw
    simp only [expected, upSet, lookupUp_upSet]
    rcases routeMon_out v d s h r with ⟨hf, h2⟩ | ⟨p, hf, h2⟩
    · simp [hf, h2, downstream]
    · simp only [hf, Option.map_some]
      rcases h2 with ⟨hp, h2⟩ | ⟨hp, ⟨he, h2⟩ | h2⟩
      · rw [parseOutcome_none] at hp
        simp [h2, hp, downstream]
      · have hpp : (r.p4 || r.p2) = true := by
          cases hb : (r.p4 || r.p2)
          · exact absurd ((parseOutcome_none p.cfg4 r).mpr hb) hp
          · rfl
        obtain ⟨h0, h1⟩ := hw he
        rw [h2, hpp, h0, h1]
        cases r.xok && r.avok <;> simp [downstream]
      · have hpp : (r.p4 || r.p2) = true := by
          cases hb : (r.p4 || r.p2)
          · exact absurd ((parseOutcome_none p.cfg4 r).mpr hb) hp
          · rfl
        rw [h2, hpp]
        cases r.xok && r.avok <;> simp [downstream]
  have pd : ∀ h, downstream (peerDown v s h).out = expected (.peerDown h) (upSet s) := by
    intro h
    simp only [expected, upSet, lookupUp_upSet, peerDown]
    cases findPeer h s.peers <;> simp [downstream]
  have tm : downstream (terminate s).out = expected .term (upSet s) := by
    simp only [expected, upSet, terminate, List.map_map]
    have : ((fun (x : Hdr × Mui) => x.2) ∘ fun (p : Peer) => (p.hdr, p.mui)) = fun p => p.mui := rfl
    rw [this]
    cases hm : s.peers.map (·.mui) with
    | nil => simp [downstream]
    | cons a b => simp [downstream]
  unfold stepCore
  cases hph : s.phase with
  | initiating =>
    have he : upSet s = [] := by simp [upSet, hi.idle (Or.inl hph)]
    cases m <;> simp [downstream, expected, he, lookupUp]
  | terminated =>
    have he : upSet s = [] := by simp [upSet, hi.idle (Or.inr hph)]
    cases m <;> simp [downstream, expected, he, lookupUp]
  | dumping =>
    cases m with
    | init => simp [downstream, expected]
    | stats _ => simp [downstream, expected]
    | mirror _ => simp [downstream, expected]
    | peerUp h e c => simp only [peerUp]; split <;> simp [downstream, expected]
    | peerDown h => exact pd h
    | term => exact tm
    | routeMon h r => exact rm true h r hw
  | updating =>
    cases m with
    | init => simp [downstream, expected]
    | stats _ => simp [downstream, expected]
    | mirror _ => simp [downstream, expected]
    | peerUp h e c => simp only [peerUp]; split <;> simp [downstream, expected]
    | peerDown h => exact pd h
    | term => exact tm
    | routeMon h r => exact rm false h r hw

/-- The clause as the property states it: two histories that end with the same
    up set send the same thing downstream for the same message. -/
def C05_downstream_full (v : Variant) : Prop :=
  ∀ (K : Hdr → Key) (ms1 ms2 : List Msg) (m : Msg),
    upSet (run v K init ms1) = upSet (run v K init ms2) →
    downstream (step v K (run v K init ms1) m).out = downstream (step v K (run v K init ms2) m).out

/-- **C05 (downstream, partial).** The clause holds for both variants on all
    well-formed messages, after any two histories. -/
theorem C05_downstream_partial (v : Variant) (K : Hdr → Key) (ms1 ms2 : List Msg) (m : Msg)
    (hw : m.wf v) (hu : upSet (run v K init ms1) = upSet (run v K init ms2)) :
    downstream (step v K (run v K init ms1) m).out = downstream (step v K (run v K init ms2) m).out := by
  rw [C05_downstream_step v K _ m (inv_run v K ms1 init (inv_init K)) hw,
      C05_downstream_step v K _ m (inv_run v K ms2 init (inv_init K)) hw, hu]

/-- An UPDATE with an empty MP_UNREACH_NLRI (so `is_eor()` = IPv6 unicast) that
    also announces two IPv4 routes — real bytes: catalogue entry `E2` of the engine. -/
def eorWithRoutes : Rm := ⟨true, true, some 513, false, 2, 0, 257, true, true⟩
def plainEor : Rm := ⟨true, true, some 257, true, 0, 0, 0, true, true⟩

/-- **C05 (downstream) fails for the code as written.** Same message, same up
    set `{0 ↦ 2}`: in Dumping it completes the dump and its two routes are
    dropped; in Updating they are delivered. -/
theorem C05_downstream_counterexample : ¬ C05_downstream_full asWritten := by
  intro h
  have := h id [.init, .peerUp 0 true false]
               [.init, .peerUp 0 true false, .routeMon 0 plainEor] (.routeMon 0 eorWithRoutes)
  revert this
  decide

-- the guard of the partial theorem excludes exactly this message for `asWritten` …
example : ¬ Msg.wf asWritten (.routeMon 0 eorWithRoutes) := by
  simp [Msg.wf, Rm.wf, effEor, asWritten, eorWithRoutes]
-- … but not for `repaired`, where the witness is delivered in both phases
example : Msg.wf repaired (.routeMon 0 eorWithRoutes) := by
  simp [Msg.wf, Rm.wf, effEor, repaired, eorWithRoutes]
example : downstream (step repaired id (run repaired id init [.init, .peerUp 0 true false])
    (.routeMon 0 eorWithRoutes)).out = .routes 2 2 0 := by decide

/-- **C05 (downstream), repaired code.** With End-of-RIB recognised only on
    UPDATEs without NLRI, the clause holds for all messages, assuming only the
    parser contract that such an UPDATE explodes into no routes. -/
theorem C05_downstream_repaired (K : Hdr → Key) (ms1 ms2 : List Msg) (m : Msg)
    (hc : ∀ h r, m = .routeMon h r → r.pure = true → r.na = 0 ∧ r.nw = 0)
    (hu : upSet (run repaired K init ms1) = upSet (run repaired K init ms2)) :
    downstream (step repaired K (run repaired K init ms1) m).out =
    downstream (step repaired K (run repaired K init ms2) m).out := by
  refine C05_downstream_partial repaired K ms1 ms2 m ?_ hu
  cases m with
  | routeMon h r =>
    intro he
    cases hp : r.pure with
    | true => exact hc h r rfl hp
    | false => simp [effEor, repaired, hp] at he
  | _ => trivial

end Rotonda.Bmp
