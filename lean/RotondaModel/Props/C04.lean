import RotondaModel.Proofs.Codec
/-!
# C04 — each NLRI of an UPDATE becomes exactly one route with that UPDATE's attributes

`Model/Codec.lean` is the independent reference decoder (`decode`, `events`, `run`) and at
the same time the transliteration of `UpdateMessage::from_octets` +
`explode_announcements` / `explode_withdrawals` (`run`: the two composed directly) and of
the three ingress call sites (`explodeUpdate`, `runCaller`, `runBmpDumping`, `runMrt`), which
since commit 2186599 go through `explode_update` (RFC 4271 4.3: the withdrawal of an NLRI
that the same UPDATE announces is dropped; variant site `overlapKept`).
The engine `c04` ties it to the real code on the same PDU bytes.

All statements quantify over every UPDATE (any number of prefixes and attributes, any
attribute order / flags / extended length, any bytes following the PDU), no bounds.
-/
namespace Rotonda.Codec

/-! ## Round trips (the reference decoder really is a decoder) -/

/-- One prefix with clean pad bits: decoded exactly, rest untouched (both variants). -/
theorem C04_prefix_roundtrip (v : Variant) (mb : Nat) (p : Pfx) (rest : Bytes)
    (h : p.wfRfc mb) (hc : p.clean) : decPfx v mb (encPfx p ++ rest) = some (p, rest) := by
  rw [decPfx_enc v mb p rest h]
  unfold Pfx.clean at hc
  simp [hc, canon_of_clean p hc]

example : (⟨23, [10, 1, 2]⟩ : Pfx).wfRfc 4 ∧ (⟨23, [10, 1, 2]⟩ : Pfx).clean := by decide

/-- Repaired variant: any pad bits are accepted and cleared (RFC 4271 4.3). -/
theorem C04_prefix_roundtrip_masked (mb : Nat) (p : Pfx) (rest : Bytes) (h : p.wfRfc mb) :
    decPfx repaired mb (encPfx p ++ rest) = some (p.canon, rest) := by
  rw [decPfx_enc repaired mb p rest h]; simp [repaired]

/-- Code as written: a prefix with a non-zero pad bit is a parse error. -/
theorem C04_prefix_dirty_rejected (mb : Nat) (p : Pfx) (rest : Bytes) (h : p.wfRfc mb)
    (hd : ¬ p.clean) : decPfx asWritten mb (encPfx p ++ rest) = none := by
  rw [decPfx_enc asWritten mb p rest h]
  unfold Pfx.clean at hd
  simp [asWritten, hd]

example : (⟨7, [0x0b]⟩ : Pfx).wfRfc 4 ∧ ¬ (⟨7, [0x0b]⟩ : Pfx).clean := by decide

/-- A whole prefix field (any number of prefixes, lengths 0..8*mb). -/
theorem C04_prefixes_roundtrip (v : Variant) (mb : Nat) (ps : List Pfx)
    (h : ∀ p ∈ ps, p.wfRfc mb) (hc : ∀ p ∈ ps, p.clean) :
    decPfxs v mb (encPfxs ps) = some ps := by
  rw [decPfxs_enc v mb ps h (Or.inr hc), map_canon_of_clean ps hc]

/-- One attribute, 1- or 2-byte length as its extended-length flag says. -/
theorem C04_attr_roundtrip (a : Attr) (rest : Bytes) (h : a.wf) :
    decAttr (encAttr a ++ rest) = some (a, rest) := decAttr_enc a rest h

example (val : Bytes) (h : val.length = 300) :
    (⟨0x50, 2, val⟩ : Attr).wf ∧ (⟨0x40, 1, [0]⟩ : Attr).wf := by
  simp [Attr.wf, extBit, h]

theorem C04_attrs_roundtrip (as : List Attr) (h : ∀ a ∈ as, a.wf) :
    decAttrs (encAttrs as) = some as := decAttrs_enc as h

/-- Whole PDU (header, lengths, three sections): `decode (encode u) = u`. -/
theorem C04_roundtrip (v : Variant) (u : Upd) (extra : Bytes) (h : u.wfRfc) (hc : u.clean) :
    decode v (encode u ++ extra) = some u := by
  rw [decode_encode v u extra h (Or.inr hc), Upd.canon_of_clean u hc]

theorem C04_mp_reach_roundtrip (m : MpReach) : parseMpReach (encMpReach m) = some m :=
  parseMpReach_enc m

theorem C04_mp_unreach_roundtrip (m : MpUnreach) : parseMpUnreach (encMpUnreach m) = some m :=
  parseMpUnreach_enc m

/-! ## The property -/

/-- C04 at full strength for a given variant of the code: for every RFC-well-formed
    UPDATE (pad bits arbitrary, as RFC 4271 4.3 allows), whatever its MP attributes
    carry, the derived route events are exactly `specEvents`. -/
def C04_full (v : Variant) : Prop :=
  ∀ (as4 : Bool) (u : Upd) (r w : List (Fam × Pfx)) (extra : Bytes),
    u.wfRfc → ReachIs u.attrs r → UnreachIs u.attrs w →
    run v as4 (encode u ++ extra) = some (specEvents as4 u r w)

/-- With pad bits masked (the repair) C04 holds in full. -/
theorem C04_full_repaired (v : Variant) (hv : v.maskPad = true) : C04_full v := by
  intro as4 u r w extra hwf hr hw
  exact run_encode v as4 u r w extra hwf hr hw (Or.inl hv)

/-- The code as written satisfies C04 on every UPDATE whose prefixes all have zero pad
    bits (guard = `u.clean ∧ allClean r ∧ allClean w`). -/
theorem C04_partial (as4 : Bool) (u : Upd) (r w : List (Fam × Pfx)) (extra : Bytes)
    (hwf : u.wfRfc) (hr : ReachIs u.attrs r) (hw : UnreachIs u.attrs w)
    (hclean : u.clean ∧ allClean r ∧ allClean w) :
    run asWritten as4 (encode u ++ extra) = some (specEvents as4 u r w) :=
  run_encode asWritten as4 u r w extra hwf hr hw (Or.inr hclean)

/-- ORIGIN IGP, empty AS_PATH, NEXT_HOP 10.0.0.1, NLRI 10.0.0.0/7 sent as byte 0x0b. -/
def witness : Upd :=
  ⟨[], [⟨0x40, 1, [0]⟩, ⟨0x40, 2, []⟩, ⟨0x40, 3, [10, 0, 0, 1]⟩], [⟨7, [0x0b]⟩]⟩

theorem witness_wf : witness.wfRfc :=
  ⟨by decide, by decide, by decide, by decide, by decide, by decide, by decide⟩

/-- The code as written violates C04: the witness UPDATE announces 10.0.0.0/7 and
    yields no route at all. The engine replays these bytes on the real code first. -/
theorem C04_counterexample : ¬ C04_full asWritten := by
  intro h
  have h' := h true witness [] [] [] witness_wf (.absent (by decide)) (.absent (by decide))
  revert h'
  decide

/-- The defect characterised: the code as written derives *nothing* from any well-formed
    UPDATE that has a dirty pad bit in a conventional field (`from_octets` fails) ... -/
theorem C04_as_written_rejects_dirty (as4 : Bool) (u : Upd) (extra : Bytes) (hwf : u.wfRfc)
    (hd : ¬ u.clean) : run asWritten as4 (encode u ++ extra) = none := by
  unfold run; rw [decode_dirty u extra hwf hd]

/-- ... or in a supported-family MP_REACH / MP_UNREACH (`explode_*` fails). -/
theorem C04_as_written_rejects_dirty_mp (mb : Nat) (ps : List Pfx) (h : ∀ p ∈ ps, p.wfRfc mb)
    (hd : ∃ p ∈ ps, ¬ p.clean) : decPfxs asWritten mb (encPfxs ps) = none :=
  decPfxs_dirty mb ps h hd

/-- The encoder's output is an octet string (so `wfRfc`'s bounds are exactly what makes the
    length fields fit), and the round trips above therefore speak about real PDUs. -/
theorem C04_encode_octets (u : Upd) (hwf : u.wfRfc) (ho : u.octets) : ∀ b ∈ encode u, b < 256 :=
  encode_octets u hwf ho

/-- ... and the guard of `C04_partial` excludes something real: the witness is not clean. -/
example : ¬ witness.clean := by decide

/-- Non-vacuity of `C04_partial`: MP_REACH 2001:db8::/32 (IPv6 unicast) + conventional
    NLRI + a conventional withdrawal in one UPDATE satisfies all hypotheses. -/
def sample : Upd :=
  ⟨[⟨8, [10]⟩],
   [⟨0x40, 1, [0]⟩,
    ⟨0x90, 14, encMpReach ⟨2, 1, List.replicate 16 1, 0, encPfxs [⟨32, [0x20, 1, 0x0d, 0xb8]⟩]⟩⟩,
    ⟨0x40, 2, []⟩],
   [⟨24, [192, 0, 2]⟩]⟩

example : sample.wfRfc ∧ sample.clean ∧
    ReachIs sample.attrs [(.v6u, ⟨32, [0x20, 1, 0x0d, 0xb8]⟩)] ∧ UnreachIs sample.attrs [] :=
  ⟨⟨by decide, by decide, by decide, by decide, by decide, by decide, by decide⟩, by decide,
   .supported ⟨0x90, 14, encMpReach ⟨2, 1, List.replicate 16 1, 0, encPfxs [⟨32, [0x20, 1, 0x0d, 0xb8]⟩]⟩⟩
     2 1 (List.replicate 16 1) 0 .v6u [⟨32, [0x20, 1, 0x0d, 0xb8]⟩]
     (by decide) rfl (by decide) (by decide),
   .absent (by decide)⟩

example : run asWritten true (encode sample) =
    some [ann true sample.attrs .v6u ⟨32, [0x20, 1, 0x0d, 0xb8]⟩,
          ann true sample.attrs .v4u ⟨24, [192, 0, 2]⟩,
          wdr true .v4u ⟨8, [10]⟩] := by decide

/-! ## The ingress call sites (BGP session `process_update`, BMP Updating phase) -/

/-- C04 at a call site, at full strength for a given variant of the code: for every
    RFC-well-formed UPDATE the payloads handed to the gate are exactly `specUpdate`: one
    announcement per reachable prefix, one withdrawal per unreachable prefix *that the same
    UPDATE does not also announce* (RFC 4271 4.3). -/
def C04_caller_full (v : Variant) : Prop :=
  ∀ (as4 : Bool) (u : Upd) (r w : List (Fam × Pfx)) (extra : Bytes),
    u.wfRfc → ReachIs u.attrs r → UnreachIs u.attrs w →
    runCaller v as4 (encode u ++ extra) = some (specUpdate as4 u r w)

/-- With pad bits masked and `explode_update` at the call sites, C04 holds in full there. -/
theorem C04_caller_full_repaired (v : Variant) (hp : v.maskPad = true) (ho : v.overlapKept = false) :
    C04_caller_full v := by
  intro as4 u r w extra hwf hr hw
  exact runCaller_encode v as4 u r w extra hwf hr hw (Or.inl hp) (Or.inl ho)

/-- `explode_update` at the call sites, pad bits as written (the tree after commit 2186599):
    full on every UPDATE whose prefixes have zero pad bits, overlapping or not. -/
theorem C04_caller_overlap_repaired (v : Variant) (ho : v.overlapKept = false)
    (as4 : Bool) (u : Upd) (r w : List (Fam × Pfx)) (extra : Bytes)
    (hwf : u.wfRfc) (hr : ReachIs u.attrs r) (hw : UnreachIs u.attrs w)
    (hclean : u.clean ∧ allClean r ∧ allClean w) :
    runCaller v as4 (encode u ++ extra) = some (specUpdate as4 u r w) :=
  runCaller_encode v as4 u r w extra hwf hr hw (Or.inr hclean) (Or.inl ho)

/-- The code as written (separate `explode_announcements` / `explode_withdrawals` at the call
    sites): right on every UPDATE with zero pad bits in which no NLRI is both withdrawn and
    announced (guard = `noOverlap`, decidable). -/
theorem C04_caller_partial (as4 : Bool) (u : Upd) (r w : List (Fam × Pfx)) (extra : Bytes)
    (hwf : u.wfRfc) (hr : ReachIs u.attrs r) (hw : UnreachIs u.attrs w)
    (hclean : u.clean ∧ allClean r ∧ allClean w) (hno : noOverlap as4 u r w) :
    runCaller asWritten as4 (encode u ++ extra) = some (specUpdate as4 u r w) :=
  runCaller_encode asWritten as4 u r w extra hwf hr hw (Or.inr hclean) (Or.inr hno)

/-- ... and what it emits otherwise: both, the withdrawal after the announcement. -/
theorem C04_caller_as_written_keeps_withdrawal (v : Variant) (ho : v.overlapKept = true)
    (as4 : Bool) (u : Upd) (r w : List (Fam × Pfx)) (extra : Bytes)
    (hwf : u.wfRfc) (hr : ReachIs u.attrs r) (hw : UnreachIs u.attrs w)
    (hc : v.maskPad = true ∨ (u.clean ∧ allClean r ∧ allClean w)) :
    runCaller v as4 (encode u ++ extra) = some (specEvents as4 u r w) := by
  rw [runCaller_encode_gen v as4 u r w extra hwf hr hw hc]
  simp [specCaller, ho]

/-- ORIGIN, AS_PATH, NEXT_HOP; 203.0.113.0/24 in WITHDRAWN ROUTES and in NLRI. -/
def witnessOverlap : Upd :=
  ⟨[⟨24, [203, 0, 113]⟩], [⟨0x40, 1, [0]⟩, ⟨0x40, 2, []⟩, ⟨0x40, 3, [10, 0, 0, 1]⟩],
   [⟨24, [203, 0, 113]⟩]⟩

theorem witnessOverlap_wf : witnessOverlap.wfRfc :=
  ⟨by decide, by decide, by decide, by decide, by decide, by decide, by decide⟩

/-- Separate `explode_*` calls at a call site violate C04 there (the other sites repaired in
    this variant): the witness must yield the announcement of 203.0.113.0/24 and nothing
    else; it yields the announcement followed by the withdrawal. The engine replays these
    bytes through the real `Processor::process_update` first. -/
theorem C04_caller_counterexample : ¬ C04_caller_full ⟨true, false, false, true⟩ := by
  intro h
  have h' := h true witnessOverlap [] [] [] witnessOverlap_wf (.absent (by decide)) (.absent (by decide))
  revert h'
  decide

example : ¬ noOverlap true witnessOverlap [] [] ∧ witnessOverlap.clean := by decide

example : runCaller repaired true (encode witnessOverlap) =
      some [ann true witnessOverlap.attrs .v4u ⟨24, [203, 0, 113]⟩] ∧
    runCaller asWritten true (encode witnessOverlap) =
      some [ann true witnessOverlap.attrs .v4u ⟨24, [203, 0, 113]⟩, wdr true .v4u ⟨24, [203, 0, 113]⟩] ∧
    run repaired true (encode witnessOverlap) = run asWritten true (encode witnessOverlap) := by
  decide

/-- Non-vacuity of `C04_caller_partial` / `C04_caller_overlap_repaired`: `sample` has no overlap. -/
example : noOverlap true sample [(.v6u, ⟨32, [0x20, 1, 0x0d, 0xb8]⟩)] [] := by decide

/-! ## The BMP Route Monitoring path in the Dumping phase -/

/-- C04 for an UPDATE arriving in a BMP Route Monitoring message during the Dumping phase
    while no End-of-RIB is pending. -/
def C04_bmp_full (v : Variant) : Prop :=
  ∀ (as4 : Bool) (u : Upd) (r w : List (Fam × Pfx)) (extra : Bytes),
    u.wfRfc → ReachIs u.attrs r → UnreachIs u.attrs w →
    runBmpDumping v as4 (encode u ++ extra) = some (specUpdate as4 u r w)

theorem C04_bmp_full_repaired (v : Variant) (hp : v.maskPad = true) (he : v.eorDrops = false)
    (ho : v.overlapKept = false) : C04_bmp_full v := by
  intro as4 u r w extra hwf hr hw
  exact runBmpDumping_encode v as4 u r w extra hwf hr hw (Or.inl hp) (Or.inl he) (Or.inl ho)

/-- Code as written: fine unless routecore's `is_eor()` is true for an UPDATE that does
    carry routes, or an NLRI is both withdrawn and announced (guard: clean pad bits,
    `isEorRc u = false` or no route at all, `noOverlap`). -/
theorem C04_bmp_partial (as4 : Bool) (u : Upd) (r w : List (Fam × Pfx)) (extra : Bytes)
    (hwf : u.wfRfc) (hr : ReachIs u.attrs r) (hw : UnreachIs u.attrs w)
    (hclean : u.clean ∧ allClean r ∧ allClean w)
    (he : isEorRc u = false ∨ specEvents as4 u r w = []) (hno : noOverlap as4 u r w) :
    runBmpDumping asWritten as4 (encode u ++ extra) = some (specUpdate as4 u r w) :=
  runBmpDumping_encode asWritten as4 u r w extra hwf hr hw (Or.inr hclean) (Or.inr he) (Or.inr hno)

/-- ORIGIN, AS_PATH, NEXT_HOP, an *empty* MP_UNREACH for IPv4 unicast, NLRI 203.0.113.0/24. -/
def witnessBmp : Upd :=
  ⟨[], [⟨0x40, 1, [0]⟩, ⟨0x40, 2, []⟩, ⟨0x40, 3, [10, 0, 0, 1]⟩, ⟨0x80, 15, [0, 1, 1]⟩],
   [⟨24, [203, 0, 113]⟩]⟩

/-- The Dumping-phase End-of-RIB shortcut violates C04 (independently of the other sites:
    the variant here has them repaired): the witness announces 203.0.113.0/24 and
    yields no route. Replayed on the real state machine by the engine. -/
theorem C04_bmp_counterexample : ¬ C04_bmp_full ⟨true, true, false, false⟩ := by
  intro h
  have h' := h true witnessBmp [] [] []
    ⟨by decide, by decide, by decide, by decide, by decide, by decide, by decide⟩
    (.absent (by decide))
    (.supported ⟨0x80, 15, [0, 1, 1]⟩ 1 1 .v4u [] (by decide) rfl (by decide) (by decide))
  revert h'
  decide

example : isEorRc witnessBmp = true ∧ witnessBmp.clean := by decide

/-- ... and so do separate `explode_*` calls in `extract_route_monitoring_routes` (this site alone). -/
theorem C04_bmp_overlap_counterexample : ¬ C04_bmp_full ⟨true, false, false, true⟩ := by
  intro h
  have h' := h true witnessOverlap [] [] [] witnessOverlap_wf (.absent (by decide)) (.absent (by decide))
  revert h'
  decide

/-! ## The MRT update-file path -/

/-- C04 for an UPDATE read from a BGP4MP_MESSAGE (`as4 = false`) or BGP4MP_MESSAGE_AS4
    (`as4 = true`) record: the events carry the record's AS width. -/
def C04_mrt_full (v : Variant) : Prop :=
  ∀ (as4 : Bool) (u : Upd) (r w : List (Fam × Pfx)) (extra : Bytes),
    u.wfRfc → ReachIs u.attrs r → UnreachIs u.attrs w →
    runMrt v as4 (encode u ++ extra) = some (specUpdate as4 u r w)

theorem C04_mrt_full_repaired (v : Variant) (hp : v.maskPad = true) (hm : v.mrtForcesAs4 = false)
    (ho : v.overlapKept = false) : C04_mrt_full v := by
  intro as4 u r w extra hwf hr hw
  unfold runMrt
  rw [hm, Bool.false_or]
  exact runCaller_encode v as4 u r w extra hwf hr hw (Or.inl hp) (Or.inl ho)

/-- Code as written: right for AS4 records (clean pad bits, no NLRI both withdrawn and announced). -/
theorem C04_mrt_partial (u : Upd) (r w : List (Fam × Pfx)) (extra : Bytes)
    (hwf : u.wfRfc) (hr : ReachIs u.attrs r) (hw : UnreachIs u.attrs w)
    (hclean : u.clean ∧ allClean r ∧ allClean w) (hno : noOverlap true u r w) :
    runMrt asWritten true (encode u ++ extra) = some (specUpdate true u r w) := by
  unfold runMrt
  rw [Bool.or_true]
  exact runCaller_encode asWritten true u r w extra hwf hr hw (Or.inr hclean) (Or.inr hno)

/-- AS_PATH (64500 64501) in 2-octet encoding, NLRI 203.0.113.0/24. -/
def witnessMrt : Upd :=
  ⟨[], [⟨0x40, 1, [0]⟩, ⟨0x40, 2, [2, 2, 0xfb, 0xf4, 0xfb, 0xf5]⟩, ⟨0x40, 3, [10, 0, 0, 1]⟩],
   [⟨24, [203, 0, 113]⟩]⟩

/-- A 2-octet-AS record comes out tagged 4-octet-AS (the other sites repaired in
    this variant, so it is this site alone). -/
theorem C04_mrt_counterexample : ¬ C04_mrt_full ⟨true, false, true, false⟩ := by
  intro h
  have h' := h false witnessMrt [] [] []
    ⟨by decide, by decide, by decide, by decide, by decide, by decide, by decide⟩
    (.absent (by decide)) (.absent (by decide))
  revert h'
  decide

/-- Separate `explode_*` calls in mrt-in's `process_message` (this site alone). -/
theorem C04_mrt_overlap_counterexample : ¬ C04_mrt_full ⟨true, false, false, true⟩ := by
  intro h
  have h' := h true witnessOverlap [] [] [] witnessOverlap_wf (.absent (by decide)) (.absent (by decide))
  revert h'
  decide

/-! ## What `specEvents` says, clause by clause -/

/-- Exactly one event per prefix occurrence: nothing invented, duplicated or dropped,
    wire order kept, every prefix under the family of the field it came from. -/
theorem C04_one_event_per_prefix (as4 : Bool) (u : Upd) (r w : List (Fam × Pfx)) :
    (specEvents as4 u r w).map (fun e => (e.kind, e.fam, e.pfx)) =
      (r.map (fun fp => (Kind.announce, fp.1, fp.2.canon)) ++
        u.nlri.map (fun p => (Kind.announce, Fam.v4u, p.canon))) ++
      (w.map (fun fp => (Kind.withdraw, fp.1, fp.2.canon)) ++
        u.withdrawn.map (fun p => (Kind.withdraw, Fam.v4u, p.canon))) := by
  simp [specEvents, ann, wdr, List.map_map, Function.comp_def]

theorem C04_event_count (as4 : Bool) (u : Upd) (r w : List (Fam × Pfx)) :
    (specEvents as4 u r w).length = r.length + u.nlri.length + w.length + u.withdrawn.length := by
  simp [specEvents]; omega

/-- Every announcement carries precisely the UPDATE's attributes (all of them, in order,
    with the session's AS width); every withdrawal carries none. -/
theorem C04_attributes (as4 : Bool) (u : Upd) (r w : List (Fam × Pfx)) :
    ∀ e ∈ specEvents as4 u r w,
      e.as4 = as4 ∧ (e.kind = .announce → e.attrs = u.attrs) ∧ (e.kind = .withdraw → e.attrs = []) := by
  intro e he
  simp only [specEvents, List.mem_append, List.mem_map] at he
  rcases he with (⟨_, _, rfl⟩ | ⟨_, _, rfl⟩) | (⟨_, _, rfl⟩ | ⟨_, _, rfl⟩) <;> simp [ann, wdr]

/-- Nothing for unsupported families: an MP attribute of a family outside the four
    supported ones contributes no event and hides none of the others. -/
theorem C04_unsupported_family_yields_nothing (v : Variant) (as4 : Bool) (u : Upd) (extra : Bytes)
    (a : Attr) (m : MpReach) (hwf : u.wfRfc) (hc : u.clean)
    (h0 : firstOf 14 u.attrs = some a) (hv : a.value = encMpReach m) (hf : famOf m.afi m.safi = none)
    (h15 : firstOf 15 u.attrs = none) :
    run v as4 (encode u ++ extra) =
      some (u.nlri.map (ann as4 u.attrs .v4u) ++ u.withdrawn.map (wdr as4 .v4u)) := by
  have h := run_encode v as4 u [] [] extra hwf (.unsupported a m h0 hv hf) (.absent h15)
    (Or.inr ⟨hc, allClean_nil, allClean_nil⟩)
  rw [h]
  simp only [specEvents, List.map_nil, List.nil_append]
  have e1 : u.nlri.map (fun p => ann as4 u.attrs .v4u p.canon) = u.nlri.map (ann as4 u.attrs .v4u) :=
    List.map_congr_left (fun p hp => by rw [canon_of_clean p (hc.2 p hp)])
  have e2 : u.withdrawn.map (fun p => wdr as4 .v4u p.canon) = u.withdrawn.map (wdr as4 .v4u) :=
    List.map_congr_left (fun p hp => by rw [canon_of_clean p (hc.1 p hp)])
  rw [e1, e2]

/-- The End-of-RIB marker (no withdrawn routes, no NLRI, no attributes or only an empty
    MP_UNREACH) yields no route. -/
theorem C04_eor (v : Variant) (as4 : Bool) (u : Upd) (extra : Bytes) (hwf : u.wfRfc)
    (he : isEoR u = true) : run v as4 (encode u ++ extra) = some [] := by
  obtain ⟨wd, attrs, nlri⟩ := u
  simp only [isEoR, Bool.and_eq_true, List.isEmpty_iff] at he
  obtain ⟨⟨hw, hn⟩, hattrs⟩ := he
  subst hw; subst hn
  have hclean : (Upd.mk [] attrs []).clean := by
    unfold Upd.clean
    constructor <;> (intro p hp; simp at hp)
  unfold run
  rw [decode_encode v _ extra hwf (Or.inr hclean), Upd.canon_of_clean _ hclean]
  match attrs, hattrs with
  | [], _ => simp [events, announcements, withdrawals, firstOf]
  | [a], h =>
    simp only [List.isEmpty_cons, Bool.false_or, Bool.and_eq_true, beq_iff_eq] at h
    obtain ⟨hcode, hlen⟩ := h
    match hval : a.value, hlen with
    | [x, y, z], _ =>
      have h14 : firstOf 14 [a] = none := by simp [firstOf, hcode]
      have h15 : firstOf 15 [a] = some a := by simp [firstOf, hcode]
      simp only [events, announcements, withdrawals, h14, h15, hval, parseMpUnreach, List.map_nil]
      cases famOf (x * 256 + y) z <;> simp [decPfxs, decPfxsF]
  | _ :: _ :: _, h => simp at h

/-! ## What `specUpdate` adds (RFC 4271 4.3), clause by clause -/

/-- An overlapped prefix yields exactly its announcement: no payload of a call site withdraws
    an NLRI (family, prefix) that a payload of the same UPDATE announces. -/
theorem C04_overlap_yields_only_announcement (as4 : Bool) (u : Upd) (r w : List (Fam × Pfx)) :
    ∀ a ∈ specUpdate as4 u r w, a.kind = .announce →
      ∀ e ∈ specUpdate as4 u r w, e.kind = .withdraw → ¬ (a.fam = e.fam ∧ a.pfx = e.pfx) := by
  intro a ha hak e he hek
  rw [mem_specUpdate] at ha he
  have ha' : a ∈ specAnn as4 u r := by
    rcases ha with ha | ha
    · exact ha
    · have := specWdr_kind as4 u w a ha.1; rw [hak] at this; cases this
  rcases he with he | he
  · have := specAnn_kind as4 u r e he; rw [hek] at this; cases this
  · exact he.2 a ha'

/-- ... every announcement of the UPDATE is still there, once, in wire order ... -/
theorem C04_update_keeps_announcements (as4 : Bool) (u : Upd) (r w : List (Fam × Pfx)) :
    (specUpdate as4 u r w).filter (fun e => decide (e.kind = .announce)) =
      (specEvents as4 u r w).filter (fun e => decide (e.kind = .announce)) := by
  have h1 : (specAnn as4 u r).filter (fun e => decide (e.kind = .announce)) = specAnn as4 u r := by
    rw [List.filter_eq_self]; intro e he; simp [specAnn_kind as4 u r e he]
  have h2 : ∀ l : List Event, (∀ e ∈ l, e.kind = .withdraw) →
      l.filter (fun e => decide (e.kind = .announce)) = [] := by
    intro l hl; rw [List.filter_eq_nil_iff]; intro e he; simp [hl e he]
  rw [specEvents_eq]
  unfold specUpdate
  rw [List.filter_append, List.filter_append, h1, h2 _ (specWdr_kind as4 u w),
    h2 _ (fun e he => specWdr_kind as4 u w e (List.mem_filter.mp he).1)]

/-- ... every withdrawal of an NLRI the UPDATE does not announce is still there ... -/
theorem C04_update_keeps_other_withdrawals (as4 : Bool) (u : Upd) (r w : List (Fam × Pfx)) :
    ∀ e ∈ specEvents as4 u r w, e.kind = .withdraw →
      (∀ a ∈ specEvents as4 u r w, a.kind = .announce → ¬ (a.fam = e.fam ∧ a.pfx = e.pfx)) →
      e ∈ specUpdate as4 u r w := by
  intro e he hek hno
  rw [specEvents_eq, List.mem_append] at he
  rw [mem_specUpdate]
  rcases he with he | he
  · exact Or.inl he
  · refine Or.inr ⟨he, fun a ha => hno a ?_ (specAnn_kind as4 u r a ha)⟩
    rw [specEvents_eq]; exact List.mem_append_left _ ha

/-- ... nothing is invented or reordered (`specUpdate` is `specEvents` with elements removed) ... -/
theorem C04_update_sublist (as4 : Bool) (u : Upd) (r w : List (Fam × Pfx)) :
    (specUpdate as4 u r w).Sublist (specEvents as4 u r w) := by
  rw [specEvents_eq]
  exact List.Sublist.append (List.Sublist.refl _) List.filter_sublist

/-- ... and an UPDATE without overlap is not touched at all. -/
theorem C04_update_eq_of_no_overlap (as4 : Bool) (u : Upd) (r w : List (Fam × Pfx))
    (h : noOverlap as4 u r w) : specUpdate as4 u r w = specEvents as4 u r w :=
  specUpdate_of_noOverlap as4 u r w h

example : specUpdate true witnessOverlap [] [] = [ann true witnessOverlap.attrs .v4u ⟨24, [203, 0, 113]⟩] ∧
    (specEvents true witnessOverlap [] []).length = 2 := by decide

example : isEoR ⟨[], [], []⟩ = true ∧ isEoR ⟨[], [⟨0x80, 15, [0, 2, 1]⟩], []⟩ = true := by decide

end Rotonda.Codec
