import RotondaModel.Proofs.Mgr
/-!
# C13 — config (re)load applies exactly the difference and spares what is unchanged

Statements only (plus top-level proofs and non-vacuity examples).  Model: `Model/Mgr.lean`
(`preprocess` = `ConfigFile::new`, `deser` = which components/links serde produces, `step` =
`Manager::load` + `prepare` + `spawn_internal`).  `asWritten` is the code at the pinned commit;
`repaired` differs at two defect sites (`Variant`): the `unreachable!()`s of `remap_sources`, and
the survival of `GATES` / `pending_gates` across a failed load.

Quantifiers: every document (any number of components, any graph, any `sources` shapes), every
manager state, every sequence of loads — no bound on any of them.
-/
namespace Rotonda.Mgr

/-- Nothing is left over from an earlier load: the state of a fresh process, and (theorem
    `C13_success_leaves_clean`) of any process after a successful load. -/
def St.clean (s : St) : Prop := s.pending = [] ∧ s.gates = []

/-- What the file says must run: the units some component lists as a source, and all targets. -/
def Cfg.runningU (c : Cfg) : List (Name × Ty) :=
  (c.units.filter (fun u => c.links.contains u.name)).map (fun u => (u.name, u.ty))
def Cfg.runningT (c : Cfg) : List (Name × Ty) := c.targets.map (fun t => (t.name, t.ty))

/-- The configuration a load carries, if it is one that must succeed: it is TOML, it
    deserialises, the roto script compiles and every link names a unit of the file. -/
def Load.goodCfg (unreach : Bool) (l : Load) : Option Cfg :=
  if l.notToml || l.roto then none
  else match preprocess unreach l.doc with
    | .panic => none
    | .ok doc =>
      match deser doc with
      | none => none
      | some cfg => if cfg.links.all (fun n => cfg.unitNames.contains n) then some cfg else none

/-! ### `ConfigFile::new` never panics -/

/-- Full clause, code as written. **False.** -/
def C13_preprocess_no_panic_full : Prop := ∀ d : RawDoc, ∃ d', preprocess true d = .ok d'

/-- `[units.u0] type = "rib"  sources = 1` — `unreachable!()` at `config.rs:607`. -/
def witnessSources1 : RawDoc :=
  ⟨[⟨0, some 4, .one .bad, none, 0, none⟩], [⟨0, some 0, .one (.s 0), none, 0, none⟩]⟩

theorem C13_preprocess_panic_witness : (match preprocess true witnessSources1 with | .panic => true | .ok _ => false) = true := by
  decide

theorem C13_preprocess_no_panic_counterexample : ¬ C13_preprocess_no_panic_full := by
  intro h
  obtain ⟨d', hd⟩ := h witnessSources1
  have := C13_preprocess_panic_witness
  rw [hd] at this
  cases this

/-- Code as written, partial: no panic when every `source`/`sources` value is a string or an
    array of strings. -/
theorem C13_preprocess_no_panic_partial (d : RawDoc)
    (hu : ∀ c ∈ d.units, c.malformed = false) (ht : ∀ c ∈ d.targets, c.malformed = false) :
    ∃ d', preprocess true d = .ok d' := by
  unfold preprocess
  have h1 : d.units.any RawComp.malformed = false := by
    rw [List.any_eq_false]; intro c hc; simp [hu c hc]
  have h2 : d.targets.any RawComp.malformed = false := by
    rw [List.any_eq_false]; intro c hc; simp [ht c hc]
  simp [h1, h2]

/-- Repaired code: never, for any document. -/
theorem C13_preprocess_no_panic_repaired (d : RawDoc) : ∃ d', preprocess false d = .ok d' := by
  unfold preprocess; simp

/-- A load panics only through `ConfigFile::new` — and then nothing at all has changed. -/
theorem C13_panic_changes_nothing (v : Variant) (s s' : St) (l : Load)
    (h : step v s l = (s', .panic)) : s' = s := by
  unfold step at h
  by_cases hnt : l.notToml = true
  · simp [hnt] at h
  · simp only [hnt, Bool.false_eq_true, if_false] at h
    cases hpre : preprocess v.unreach l.doc with
    | panic => simp only [hpre] at h; injection h with h1 _; exact h1.symm
    | ok doc =>
      simp only [hpre] at h
      cases hde : deser doc with
      | none => simp [hde] at h
      | some cfg =>
        simp only [hde] at h
        by_cases hroto : l.roto = true
        · simp [hroto] at h
        · simp only [hroto, Bool.false_eq_true, if_false] at h
          split at h <;> (injection h with _ h2; cases h2)

theorem gates0_clean (v : Variant) (s : St) (hc : s.clean) : v.gates0 s = [] := by
  unfold Variant.gates0; simp [hc.2]
theorem pending0_clean (v : Variant) (s : St) (hc : s.clean) : v.pending0 s = [] := by
  unfold Variant.pending0; simp [hc.1]

/-! ### A successful load from a clean state applies exactly the difference -/

/-- **C13 (what runs afterwards).** After a successful load from a clean state — either variant —
    every link of the file names one of its units, exactly the referenced units and all targets
    are running, and the state is clean again. -/
theorem C13_running_after_success (v : Variant) (s s' : St) (l : Load) (acts : List Action)
    (hc : s.clean) (h : step v s l = (s', .ok acts)) :
    ∃ doc cfg, preprocess v.unreach l.doc = .ok doc ∧ deser doc = some cfg ∧
      (∀ n ∈ cfg.links, n ∈ cfg.unitNames) ∧
      s'.runU = cfg.runningU ∧ s'.runT = cfg.runningT ∧ s'.clean ∧
      acts = targetActions s.runT cfg.targets ++ unitActions s.runU (union [] cfg.links) cfg.units := by
  obtain ⟨doc, cfg, _, hpre, hde, _, hres, hacts, hs'⟩ := step_ok v s s' l acts h
  have hg : v.gates0 s = [] := gates0_clean v s hc
  have hp : v.pending0 s = [] := pending0_clean v s hc
  rw [hg, hp] at hs' hacts
  rw [hg] at hres
  have hmem : ∀ n, n ∈ union [] (union [] cfg.links) ↔ n ∈ cfg.links := by
    intro n; simp [mem_union]
  have hres' : ∀ n ∈ cfg.links, n ∈ cfg.unitNames := fun n hn => hres n (by simpa [mem_union] using hn)
  refine ⟨doc, cfg, hpre, hde, hres', ?_, ?_, ?_, ?_⟩
  · rw [hs']
    simp only [Cfg.runningU]
    congr 1
    apply List.filter_congr
    intro u _
    have := hmem u.name
    by_cases hm : u.name ∈ cfg.links
    · simp [hm, this.mpr hm]
    · have : u.name ∉ union [] (union [] cfg.links) := fun h => hm (this.mp h)
      simp [hm, this]
  · rw [hs']; rfl
  · rw [hs']
    refine ⟨?_, rfl⟩
    simp only
    rw [List.filter_eq_nil_iff]
    intro n hn
    have := hres' n ((hmem n).mp hn)
    simp [this]
  · rw [hacts]
    congr 1
    -- `union [] (union [] links)` and `union [] links` have the same members; `unitActions`
    -- only asks for membership
    have : ∀ n, (union [] (union [] cfg.links)).contains n = (union [] cfg.links).contains n := by
      intro n
      by_cases hm : n ∈ cfg.links
      · have a : n ∈ union [] (union [] cfg.links) := (hmem n).mpr hm
        have b : n ∈ union [] cfg.links := by simpa [mem_union] using hm
        simp [a, b]
      · have a : n ∉ union [] (union [] cfg.links) := fun h => hm ((hmem n).mp h)
        have b : n ∉ union [] cfg.links := by simpa [mem_union] using hm
        simp [a, b]
    unfold unitActions
    simp only [this]

/-- **C13 (exactly the difference, units).** From a clean state, the unit actions of a successful
    load are: spawn a referenced unit that is not running with that type; reconfigure a referenced
    unit running with the same type; terminate a running unit that is unreferenced or of another
    type, or that is no longer in the file. Nothing else. -/
theorem C13_diff_units (v : Variant) (s s' : St) (l : Load) (acts : List Action)
    (hc : s.clean) (h : step v s l = (s', .ok acts)) :
    ∃ cfg, l.goodCfg v.unreach = some cfg ∧
      (∀ n t, .spawnU n t ∈ acts ↔
        ∃ u ∈ cfg.units, u.name = n ∧ u.ty = t ∧ n ∈ cfg.links ∧ lookup n s.runU ≠ some t) ∧
      (∀ n, .reconfU n ∈ acts ↔
        ∃ u ∈ cfg.units, u.name = n ∧ n ∈ cfg.links ∧ lookup n s.runU = some u.ty) ∧
      (∀ n, .termU n ∈ acts ↔
        (∃ u ∈ cfg.units, u.name = n ∧ ∃ ty, lookup n s.runU = some ty ∧ (n ∉ cfg.links ∨ ty ≠ u.ty))
        ∨ (∃ ty, (n, ty) ∈ s.runU ∧ n ∉ cfg.unitNames)) := by
  obtain ⟨doc, cfg, hnt, hpre, hde, hroto, _, _, _⟩ := step_ok v s s' l acts h
  obtain ⟨doc', cfg', hpre', hde', hres, _, _, _, hacts⟩ := C13_running_after_success v s s' l acts hc h
  rw [hpre] at hpre'; cases hpre'
  rw [hde] at hde'; cases hde'
  have hgood : l.goodCfg v.unreach = some cfg := by
    unfold Load.goodCfg
    simp only [hnt, hroto, Bool.or_self, Bool.false_eq_true, if_false, hpre, hde]
    have : cfg.links.all (fun n => cfg.unitNames.contains n) = true := by
      rw [List.all_eq_true]; intro n hn; simpa using hres n hn
    rw [if_pos this]
  have hpm : ∀ n, n ∈ union [] cfg.links ↔ n ∈ cfg.links := by intro n; simp [mem_union]
  refine ⟨cfg, hgood, ?_, ?_, ?_⟩
  · intro n t
    rw [hacts, targetActions_eq, unitActions_eq]
    simp only [List.mem_append, List.mem_flatMap, List.mem_map]
    constructor
    · rintro ((⟨c, _, hm⟩ | ⟨e, _, he⟩) | (⟨u, hu, hm⟩ | ⟨e, _, he⟩))
      · rcases targetStep_kinds _ _ _ hm with ⟨_, _, h⟩ | ⟨_, h⟩ | ⟨_, h⟩ <;> cases h
      · cases he
      · obtain ⟨h1, h2, h3, h4⟩ := (mem_unitStep_spawn _ _ _ _ _).mp hm
        exact ⟨u, hu, h1, h2, (hpm n).mp h3, h4⟩
      · cases he
    · rintro ⟨u, hu, h1, h2, h3, h4⟩
      exact Or.inr (Or.inl ⟨u, hu, (mem_unitStep_spawn _ _ _ _ _).mpr ⟨h1, h2, (hpm n).mpr h3, h4⟩⟩)
  · intro n
    rw [hacts, targetActions_eq, unitActions_eq]
    simp only [List.mem_append, List.mem_flatMap, List.mem_map]
    constructor
    · rintro ((⟨c, _, hm⟩ | ⟨e, _, he⟩) | (⟨u, hu, hm⟩ | ⟨e, _, he⟩))
      · rcases targetStep_kinds _ _ _ hm with ⟨_, _, h⟩ | ⟨_, h⟩ | ⟨_, h⟩ <;> cases h
      · cases he
      · obtain ⟨h1, h2, h3⟩ := (mem_unitStep_reconf _ _ _ _).mp hm
        exact ⟨u, hu, h1, (hpm n).mp h2, h3⟩
      · cases he
    · rintro ⟨u, hu, h1, h2, h3⟩
      exact Or.inr (Or.inl ⟨u, hu, (mem_unitStep_reconf _ _ _ _).mpr ⟨h1, (hpm n).mpr h2, h3⟩⟩)
  · intro n
    rw [hacts, targetActions_eq, unitActions_eq]
    simp only [List.mem_append, List.mem_flatMap, List.mem_map, List.mem_filter]
    constructor
    · rintro ((⟨c, _, hm⟩ | ⟨e, _, he⟩) | (⟨u, hu, hm⟩ | ⟨e, ⟨he1, he2⟩, he⟩))
      · rcases targetStep_kinds _ _ _ hm with ⟨_, _, h⟩ | ⟨_, h⟩ | ⟨_, h⟩ <;> cases h
      · cases he
      · obtain ⟨h1, ty, h2, h3⟩ := (mem_unitStep_term _ _ _ _).mp hm
        refine Or.inl ⟨u, hu, h1, ty, h2, ?_⟩
        rcases h3 with h3 | h3
        · exact Or.inl (fun h => h3 ((hpm n).mpr h))
        · exact Or.inr h3
      · injection he with he; subst he
        refine Or.inr ⟨e.2, he1, ?_⟩
        simpa [Cfg.unitNames] using he2
    · rintro (⟨u, hu, h1, ty, h2, h3⟩ | ⟨ty, h1, h2⟩)
      · refine Or.inr (Or.inl ⟨u, hu, (mem_unitStep_term _ _ _ _).mpr ⟨h1, ty, h2, ?_⟩⟩)
        rcases h3 with h3 | h3
        · exact Or.inl (fun h => h3 ((hpm n).mp h))
        · exact Or.inr h3
      · refine Or.inr (Or.inr ⟨(n, ty), ⟨h1, ?_⟩, rfl⟩)
        simpa [Cfg.unitNames] using h2

/-- **C13 (exactly the difference, targets).** Same for targets (every target of the file runs). -/
theorem C13_diff_targets (v : Variant) (s s' : St) (l : Load) (acts : List Action)
    (hc : s.clean) (h : step v s l = (s', .ok acts)) :
    ∃ cfg, l.goodCfg v.unreach = some cfg ∧
      (∀ n ty, .spawnT n ty ∈ acts ↔ ∃ t ∈ cfg.targets, t.name = n ∧ t.ty = ty ∧ lookup n s.runT ≠ some ty) ∧
      (∀ n, .reconfT n ∈ acts ↔ ∃ t ∈ cfg.targets, t.name = n ∧ lookup n s.runT = some t.ty) ∧
      (∀ n, .termT n ∈ acts ↔
        (∃ t ∈ cfg.targets, t.name = n ∧ ∃ ty, lookup n s.runT = some ty ∧ ty ≠ t.ty)
        ∨ (∃ ty, (n, ty) ∈ s.runT ∧ n ∉ cfg.targets.map Comp.name)) := by
  obtain ⟨cfg, hgood, _, _, _⟩ := C13_diff_units v s s' l acts hc h
  obtain ⟨doc', cfg', hpre', hde', _, _, _, _, hacts⟩ := C13_running_after_success v s s' l acts hc h
  have : cfg' = cfg := by
    obtain ⟨doc, cfg2, hnt, hpre, hde, hroto, _, _, _⟩ := step_ok v s s' l acts h
    unfold Load.goodCfg at hgood
    simp only [hnt, hroto, Bool.or_self, Bool.false_eq_true, if_false, hpre', hde'] at hgood
    split at hgood
    · injection hgood
    · cases hgood
  subst this
  refine ⟨cfg', hgood, ?_, ?_, ?_⟩
  · intro n ty
    rw [hacts, targetActions_eq, unitActions_eq]
    simp only [List.mem_append, List.mem_flatMap, List.mem_map]
    constructor
    · rintro ((⟨c, hc', hm⟩ | ⟨e, _, he⟩) | (⟨u, _, hm⟩ | ⟨e, _, he⟩))
      · obtain ⟨h1, h2, h3⟩ := (mem_targetStep_spawn _ _ _ _).mp hm
        exact ⟨c, hc', h1, h2, h3⟩
      · cases he
      · rcases unitStep_kinds _ _ _ _ hm with ⟨_, _, h⟩ | ⟨_, h⟩ | ⟨_, h⟩ <;> cases h
      · cases he
    · rintro ⟨c, hc', h1, h2, h3⟩
      exact Or.inl (Or.inl ⟨c, hc', (mem_targetStep_spawn _ _ _ _).mpr ⟨h1, h2, h3⟩⟩)
  · intro n
    rw [hacts, targetActions_eq, unitActions_eq]
    simp only [List.mem_append, List.mem_flatMap, List.mem_map]
    constructor
    · rintro ((⟨c, hc', hm⟩ | ⟨e, _, he⟩) | (⟨u, _, hm⟩ | ⟨e, _, he⟩))
      · obtain ⟨h1, h2⟩ := (mem_targetStep_reconf _ _ _).mp hm
        exact ⟨c, hc', h1, h2⟩
      · cases he
      · rcases unitStep_kinds _ _ _ _ hm with ⟨_, _, h⟩ | ⟨_, h⟩ | ⟨_, h⟩ <;> cases h
      · cases he
    · rintro ⟨c, hc', h1, h2⟩
      exact Or.inl (Or.inl ⟨c, hc', (mem_targetStep_reconf _ _ _).mpr ⟨h1, h2⟩⟩)
  · intro n
    rw [hacts, targetActions_eq, unitActions_eq]
    simp only [List.mem_append, List.mem_flatMap, List.mem_map, List.mem_filter]
    constructor
    · rintro ((⟨c, hc', hm⟩ | ⟨e, ⟨he1, he2⟩, he⟩) | (⟨u, _, hm⟩ | ⟨e, _, he⟩))
      · obtain ⟨h1, ty, h2, h3⟩ := (mem_targetStep_term _ _ _).mp hm
        exact Or.inl ⟨c, hc', h1, ty, h2, h3⟩
      · injection he with he; subst he
        refine Or.inr ⟨e.2, he1, ?_⟩
        simpa using he2
      · rcases unitStep_kinds _ _ _ _ hm with ⟨_, _, h⟩ | ⟨_, h⟩ | ⟨_, h⟩ <;> cases h
      · cases he
    · rintro (⟨c, hc', h1, ty, h2, h3⟩ | ⟨ty, h1, h2⟩)
      · exact Or.inl (Or.inl ⟨c, hc', (mem_targetStep_term _ _ _).mpr ⟨h1, ty, h2, h3⟩⟩)
      · refine Or.inl (Or.inr ⟨(n, ty), ⟨h1, ?_⟩, rfl⟩)
        simpa using h2

/-- **C13 (unused units are not started).** From a clean state a successful load spawns only units
    that some component of the file lists as a source. -/
theorem C13_unused_not_started (v : Variant) (s s' : St) (l : Load) (acts : List Action)
    (hc : s.clean) (h : step v s l = (s', .ok acts)) :
    ∃ cfg, l.goodCfg v.unreach = some cfg ∧ ∀ n t, Action.spawnU n t ∈ acts → n ∈ cfg.links := by
  obtain ⟨cfg, hgood, hs, _, _⟩ := C13_diff_units v s s' l acts hc h
  exact ⟨cfg, hgood, fun n t hm => by obtain ⟨_, _, _, _, h3, _⟩ := (hs n t).mp hm; exact h3⟩

/-- non-vacuity: `a`(unused) `b` -> null, loaded into an empty manager, then `b` retyped -/
example :
    let d1 : RawDoc := ⟨[⟨0, some 0, .absent, none, 0, none⟩, ⟨1, some 0, .absent, none, 0, none⟩], [⟨0, some 0, .one (.s 1), none, 0, none⟩]⟩
    let d2 : RawDoc := ⟨[⟨0, some 0, .absent, none, 0, none⟩, ⟨1, some 1, .absent, none, 0, none⟩], [⟨0, some 0, .one (.s 1), none, 0, none⟩]⟩
    (run asWritten St.init [⟨false, d1, false, [], []⟩, ⟨false, d2, false, [], []⟩]).2
      = [.ok [.spawnT 0 0, .spawnU 1 0], .ok [.reconfT 0, .termU 1, .spawnU 1 1]] := by decide

/-! ### Failed loads -/

/-- A failed load is invisible to every later load (full clause, code as written). **False.** -/
def C13_failed_load_invisible_full : Prop :=
  ∀ (s : St) (l l2 : Load), s.clean → (∀ acts, (step asWritten s l).2 ≠ .ok acts) →
    (step asWritten (step asWritten s l).1 l2).2 = (step asWritten s l2).2

def unitsAH : List RawComp := (List.range 8).map fun i => ⟨i, some 0, .absent, none, 0, none⟩
def nullTo (name src : Name) : RawComp := ⟨name, some 0, .one (.s src), none, 0, none⟩

/-- Witness 1 (`pending_gates`): units u0..u7, targets t0..t7 -> u0..u7 and t8 -> a unit that does
    not exist. `prepare` fails on t8's link after it has moved some gates (here u0 and u6, as
    observed on the real code) into `pending_gates`. The next, valid, file uses only u0 —
    and u6, which nothing consumes, is started. -/
def w1bad : Load := ⟨false, ⟨unitsAH, (List.range 8).map (fun i => nullTo i i) ++ [nullTo 8 40]⟩, false, [], [0, 6]⟩
def w1good : Load := ⟨false, ⟨unitsAH, [nullTo 0 0]⟩, false, [], []⟩

theorem C13_stale_pending_witness :
    (run asWritten St.init [w1bad, w1good]).2 = [.err, .ok [.spawnT 0 0, .spawnU 0 0, .spawnU 6 0]]
    ∧ (run repaired St.init [w1bad, w1good]).2 = [.err, .ok [.spawnT 0 0, .spawnU 0 0]] := by decide

/-- Witness 2 (thread-local `GATES`): serde rejects a file (unknown target type) after it has
    created the link to u5. The next file is valid and has no u5: `prepare` finds the stale gate,
    reports an unresolved link and the valid file is refused. -/
def w2bad : Load := ⟨false, ⟨[⟨0, some 0, .absent, none, 0, none⟩, ⟨5, some 0, .absent, none, 0, none⟩],
  [nullTo 0 5, ⟨1, none, .one (.s 0), none, 0, none⟩]⟩, false, [5], []⟩
def w2good : Load := ⟨false, ⟨[⟨0, some 0, .absent, none, 0, none⟩], [nullTo 0 0]⟩, false, [], []⟩

theorem C13_stale_loader_gates_witness :
    (run asWritten St.init [w2bad, w2good]).2 = [.err, .err]
    ∧ (run repaired St.init [w2bad, w2good]).2 = [.err, .ok [.spawnT 0 0, .spawnU 0 0]] := by decide

theorem C13_failed_load_invisible_counterexample : ¬ C13_failed_load_invisible_full := by
  intro h
  have h1 : (step asWritten St.init w2bad).2 = .err := by decide
  have := h St.init w2bad w2good ⟨rfl, rfl⟩ (by intro acts; rw [h1]; intro h; cases h)
  revert this
  decide

/-- Code as written, partial: a failed load that left nothing behind (serde had created no link,
    `prepare` had moved no gate, the roto script was not the problem) changes nothing at all. -/
theorem C13_failed_load_changes_nothing_partial (s s' : St) (l : Load) (r : Result)
    (hc : s.clean) (h : step asWritten s l = (s', r)) (hr : ∀ acts, r ≠ .ok acts)
    (hres : l.residue = []) (hmoved : l.moved = []) (hroto : l.roto = false) : s' = s := by
  unfold step at h
  by_cases hnt : l.notToml = true
  · simp only [hnt, if_true] at h; injection h with h1 _; exact h1.symm
  · simp only [hnt, Bool.false_eq_true, if_false] at h
    cases hpre : preprocess asWritten.unreach l.doc with
    | panic => simp only [hpre] at h; injection h with h1 _; exact h1.symm
    | ok doc =>
      simp only [hpre] at h
      cases hde : deser doc with
      | none =>
        simp only [hde, hres, union_nil_right, gates0_clean _ s hc] at h
        injection h with h1 _
        rw [← h1]; cases s; simp only [St.clean] at hc; simp [hc.2]
      | some cfg =>
        simp only [hde, hroto, Bool.false_eq_true, if_false] at h
        split at h
        · injection h with h1 _
          rw [← h1]
          cases s
          simp only [St.clean] at hc
          simp [Variant.failPending, asWritten, hc.1, hc.2, hmoved, union_nil_right]
        · injection h with _ h2
          exact absurd h2.symm (hr _)

/-- **C13 (failed loads, repaired code).** The result of a load and what runs after it depend only
    on what is running — not on anything an earlier failed (or successful) load left in `GATES` or
    `pending_gates`. -/
theorem C13_repaired_ignores_leftovers (s1 s2 : St) (l : Load)
    (hU : s1.runU = s2.runU) (hT : s1.runT = s2.runT) :
    (step repaired s1 l).2 = (step repaired s2 l).2 ∧
    (step repaired s1 l).1.runU = (step repaired s2 l).1.runU ∧
    (step repaired s1 l).1.runT = (step repaired s2 l).1.runT := by
  unfold step
  by_cases hnt : l.notToml = true
  · simp [hnt, hU, hT]
  · simp only [hnt, Bool.false_eq_true, if_false]
    cases hpre : preprocess repaired.unreach l.doc with
    | panic => simp [hU, hT]
    | ok doc =>
      simp only
      cases hde : deser doc with
      | none => simp [hU, hT]
      | some cfg =>
        have g1 : repaired.gates0 s1 = [] := rfl
        have g2 : repaired.gates0 s2 = [] := rfl
        have p1 : repaired.pending0 s1 = [] := rfl
        have p2 : repaired.pending0 s2 = [] := rfl
        simp only [g1, g2, p1, p2]
        by_cases hroto : l.roto = true
        · simp [hroto, hU, hT]
        · simp only [hroto, Bool.false_eq_true, if_false]
          split <;> simp [hU, hT]

/-- **C13 (failed loads, repaired code).** A load that does not succeed leaves the running units
    and targets exactly as they were. (Also true of the code as written: only `spawn` touches them.) -/
theorem C13_failed_load_keeps_running (v : Variant) (s : St) (l : Load)
    (hr : ∀ acts, (step v s l).2 ≠ .ok acts) :
    (step v s l).1.runU = s.runU ∧ (step v s l).1.runT = s.runT := by
  unfold step at hr ⊢
  by_cases hnt : l.notToml = true
  · simp [hnt]
  · simp only [hnt, Bool.false_eq_true, if_false] at hr ⊢
    cases hpre : preprocess v.unreach l.doc with
    | panic => simp
    | ok doc =>
      simp only [hpre] at hr ⊢
      cases hde : deser doc with
      | none => simp
      | some cfg =>
        simp only [hde] at hr ⊢
        by_cases hroto : l.roto = true
        · simp [hroto]
        · simp only [hroto, Bool.false_eq_true, if_false] at hr ⊢
          split
          · simp
          · rename_i hres
            rw [if_neg hres] at hr
            exact absurd rfl (hr _)

/-- What a sequence of loads must leave running: that of the last load that carries a good
    configuration (`Load.goodCfg`), or what ran before if there is none. -/
def lastGood (cur : List (Name × Ty) × List (Name × Ty)) : List Load → List (Name × Ty) × List (Name × Ty)
  | [] => cur
  | l :: ls =>
    match l.goodCfg false with
    | some cfg => lastGood (cfg.runningU, cfg.runningT) ls
    | none => lastGood cur ls

/-- one repaired step, in closed form on the running sets -/
theorem step_repaired_running (s : St) (l : Load) :
    ((step repaired s l).1.runU, (step repaired s l).1.runT) =
      match l.goodCfg false with
      | some cfg => (cfg.runningU, cfg.runningT)
      | none => (s.runU, s.runT) := by
  unfold step Load.goodCfg
  by_cases hnt : l.notToml = true
  · simp [hnt]
  · simp only [hnt, Bool.false_eq_true, if_false, Bool.false_or]
    by_cases hroto : l.roto = true
    · simp only [hroto, if_true]
      cases hpre : preprocess repaired.unreach l.doc with
      | panic => rfl
      | ok doc =>
        simp only
        cases hde : deser doc <;> rfl
    · simp only [hroto, Bool.false_eq_true, if_false]
      have hu : repaired.unreach = false := rfl
      rw [hu]
      cases hpre : preprocess false l.doc with
      | panic => rfl
      | ok doc =>
        simp only
        cases hde : deser doc with
        | none => rfl
        | some cfg =>
          have g1 : repaired.gates0 s = [] := rfl
          have p1 : repaired.pending0 s = [] := rfl
          simp only [g1, p1]
          have hmem : ∀ n, n ∈ union [] cfg.links ↔ n ∈ cfg.links := by intro n; simp [mem_union]
          by_cases hany : ((union [] cfg.links).any fun n => !cfg.unitNames.contains n) = true
          · have hall : cfg.links.all (fun n => cfg.unitNames.contains n) = false := by
              rw [Bool.eq_false_iff]
              intro hall
              rw [List.all_eq_true] at hall
              rw [List.any_eq_true] at hany
              obtain ⟨n, hn, hnc⟩ := hany
              have := hall n ((hmem n).mp hn)
              have hmem' : n ∈ cfg.unitNames := by simpa using this
              simp [hmem'] at hnc
            rw [if_pos hany, hall]
            rfl
          · have hall : cfg.links.all (fun n => cfg.unitNames.contains n) = true := by
              rw [List.all_eq_true]
              intro n hn
              have hf : ((union [] cfg.links).any fun n => !cfg.unitNames.contains n) = false := by
                simpa using hany
              rw [List.any_eq_false] at hf
              have := hf n ((hmem n).mpr hn)
              simpa using this
            rw [if_neg hany, hall]
            simp only [if_true, Cfg.runningU, Cfg.runningT]
            congr 2
            apply List.filter_congr
            intro u _
            by_cases hm : u.name ∈ cfg.links
            · have a : u.name ∈ union [] (union [] cfg.links) := by simp [mem_union, hm]
              simp [hm, a]
            · have a : u.name ∉ union [] (union [] cfg.links) := by simp [mem_union, hm]
              simp [hm, a]

/-- **C13 (histories, repaired code).** After *any* sequence of loads — valid, malformed,
    unresolvable, in any order — the running units and targets are those of the last file that
    carried a good configuration; failed loads in between change nothing. -/
theorem C13_history_repaired (s : St) (loads : List Load) :
    ((run repaired s loads).1.runU, (run repaired s loads).1.runT) = lastGood (s.runU, s.runT) loads := by
  induction loads generalizing s with
  | nil => rfl
  | cons l ls ih =>
    simp only [run, lastGood]
    rw [ih]
    have := step_repaired_running s l
    cases hg : l.goodCfg false with
    | none => rw [hg] at this; simp only at this; rw [this]
    | some cfg => rw [hg] at this; simp only at this; rw [this]

/-- the history clause fails for the code as written: both witnesses end with a running set that
    is not that of the last good file -/
theorem C13_history_counterexample :
    ((run asWritten St.init [w1bad, w1good]).1.runU ≠ (lastGood ([], []) [w1bad, w1good]).1)
    ∧ ((run asWritten St.init [w2bad, w2good]).1.runU ≠ (lastGood ([], []) [w2bad, w2good]).1) := by
  decide

/-- Code as written, partial: a sequence of loads that all succeed-or-leave-nothing-behind. Stated
    for the simplest guard: every load carries a good configuration. -/
theorem C13_success_leaves_clean (v : Variant) (s s' : St) (l : Load) (acts : List Action)
    (hc : s.clean) (h : step v s l = (s', .ok acts)) : s'.clean := by
  obtain ⟨_, _, _, _, _, _, _, hcl, _⟩ := C13_running_after_success v s s' l acts hc h
  exact hcl

end Rotonda.Mgr
