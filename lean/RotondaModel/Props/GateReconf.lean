import RotondaModel.Proofs.GateReconf
/-!
GateReconf: the gate across `Reconfigure` (serves C08 and C13).

All statements quantify over **every trace** `tr : List Step` of the small-step relation from
`init ccap` (any length, any interleaving of publishers, links, agents, the root gate and clones)
and over every variant unless a variant is named.

C08 part (which links stay connected over a reconfigure, exactly once / in order, old generations):
`GR_exactly_once_in_order`, `GR_no_invention`, `GR_update_complete`, `GR_snapshot_is_map`,
`GR_map_is_current_generation` (+ `_repaired`), `GR_reconfigure_drops_all`,
`GR_old_generation_counterexample`, `GR_old_generation_repaired_witness`,
`GR_notify_starts_with_all_clones`, `GR_clone_follows_reconfigure`.

C13 part (a kept unit's gate keeps working after any number of reloads):
`GR_newest_agent_never_refused`, `GR_generation_steps_by_one`, `GR_clone_sender_current`
(+ counterexample as written before e536b86), `GR_root_never_stuck_except_full_clone`,
`GR_wedge_released_by_polling`, `GR_wedge_counterexample`, `GR_attach_behind_reconfigure_lost`,
`GR_notify_panic_counterexample`, `GR_no_panic_repaired`.
-/
namespace Rotonda.GateReconf
open Rotonda.Gate (seqsOf Slot Pub Msg mem_seqsOf)

/-! ## C08 across a reconfigure -/

/-- Per (slot, publisher) the sequence numbers pushed to a link are strictly increasing: exactly
    once and in publisher order, whatever reconfigurations, clones and stale commands do. -/
theorem GR_exactly_once_in_order (v : Variant) (ccap : Nat) (tr : List Step) (st : St)
    (h : run v (init ccap) tr = some st) (s : Slot) (p : Pub) :
    (seqsOf p (st.chans s).hist).Pairwise (· < ·) :=
  (inv_reachable h).1.sorted s p

/-- Nothing is delivered that the publisher has not published. -/
theorem GR_no_invention (v : Variant) (ccap : Nat) (tr : List Step) (st : St)
    (h : run v (init ccap) tr = some st) (s : Slot) (p : Pub) (q : Nat) (hq : (p, q) ∈ (st.chans s).hist) :
    q ≤ (st.pubs p).seq :=
  (inv_reachable h).1.le_seq s p q hq

/-- When `update_data` returns (`pubEnd` enabled: nothing left to serve) every slot of the snapshot
    it took holds this update, unless the link closed its own receiving end. -/
theorem GR_update_complete (v : Variant) (ccap : Nat) (tr : List Step) (st : St)
    (h : run v (init ccap) tr = some st) (p : Pub) (hend : (st.pubs p).sending = some []) (s : Slot)
    (hs : s ∈ (st.pubs p).snap) :
    (p, (st.pubs p).seq) ∈ (st.chans s).hist ∨ (st.chans s).open_ = false :=
  ((inv_reachable h).1.sendR p [] hend).2.2.2 s hs (by simp)

/-- The snapshot an update takes is the subscription map of that moment. -/
theorem GR_snapshot_is_map (v : Variant) (st st' : St) (p : Pub) (h : step v st (.pubBegin p) = some st') :
    (st'.pubs p).snap = st.updates ∧ (st'.pubs p).sending = some st.updates := by
  simp only [step] at h
  split at h
  · cases h; simp
  · cases h

/-- Every slot in the subscription map belongs to the generation the gate serves, or was put
    there by a clone's stale `FollowSubscribe` (ghost flag `res`). -/
theorem GR_map_is_current_generation (v : Variant) (ccap : Nat) (tr : List Step) (st : St)
    (h : run v (init ccap) tr = some st) (s : Slot) (hs : s ∈ st.updates) :
    ((st.chans s).acked = true ∧ (st.chans s).via = st.rx) ∨ (st.chans s).res = true :=
  (inv_reachable h).2.2.upd_cur s hs

/-- With the clone arms repaired (they only consume `FollowSubscribe`/`FollowUnsubscribe`): the map
    holds slots of the served generation only, so no update begun after a reconfigure is ever
    delivered to a subscription made through an older agent. -/
theorem GR_map_is_current_generation_repaired (v : Variant) (hv : v.followEdits = false) (ccap : Nat)
    (tr : List Step) (st : St) (h : run v (init ccap) tr = some st) (s : Slot) (hs : s ∈ st.updates) :
    (st.chans s).acked = true ∧ (st.chans s).via = st.rx := by
  rcases (inv_reachable h).2.2.upd_cur s hs with h1 | h1
  · exact h1
  · have := (inv_reachable h).2.2.res_rep hv s
    rw [this] at h1; cases h1

/-- Handling `Reconfigure` empties the map and moves to the next generation: no link stays
    connected, every downstream has to subscribe again through the new agent. -/
theorem GR_reconfigure_drops_all (v : Variant) (st : St) (g : Nat) (q : List Cmd) :
    (rootHandle v { st with chq := Rotonda.Gate.upd st.chq st.rx q, handled := st.handled + 1 } (.reconfigure g)).updates = []
    ∧ (rootHandle v { st with chq := Rotonda.Gate.upd st.chq st.rx q, handled := st.handled + 1 } (.reconfigure g)).rx = g := by
  simp [rootHandle, St.startNotify]

/-- The trace of the old-generation witness: clone 1 attached, link 0 subscribes through agent 0,
    reload, the clone handles the stale `FollowSubscribe 0` after the root gate installed the new
    map, the root publishes. -/
def oldGenTrace : List Step :=
  [.cloneNew 1, .cloneAttach 1, .rootProc, .linkSubscribe 0 1 0, .rootProc, .rootNotify, .rootNotify,
   .agentReconfigure, .rootProc, .rootNotify, .rootNotify, .cloneProc 1,
   .pubBegin 0, .pubDeliver 0 0, .pubEnd 0]

/-- As written: the slot of generation 0 is back in the map of generation 1 and receives an update
    that began after the reconfigure (for a direct link whose target is a kept unit this is a second
    delivery of everything, next to the new subscription). -/
theorem GR_old_generation_counterexample :
    (run asIs (init 16) oldGenTrace).map (fun st => (st.rx, st.updates, (st.chans 0).via, seqsOf 0 (st.chans 0).hist, (st.chans 0).res))
      = some (1, [0], 0, [1], true) := by decide

/-- The same trace with the clone arms repaired: the map of generation 1 stays empty, nothing is
    delivered to the old slot. -/
theorem GR_old_generation_repaired_witness :
    (run repaired (init 16) (oldGenTrace.filter (fun x => x != .pubDeliver 0 0))).map
        (fun st => (st.rx, st.updates, (st.chans 0).hist.length, (st.chans 0).res))
      = some (1, [], 0, false) := by decide

/-- Every notification (`FollowSubscribe`, `FollowUnsubscribe`, `FollowReconfigure`, `Terminate`)
    starts with the complete list of registered clones. -/
theorem GR_notify_starts_with_all_clones (st : St) (x : Cmd) (a : After) :
    (st.startNotify x a).busy = some { cmd := x, rest := st.clones, blocked := false, closedFound := false, after := a } := rfl

/-- A clone that takes `FollowReconfigure` off its queue reports `Reconfiguring` once more. -/
theorem GR_clone_follows_reconfigure (v : Variant) (st : St) (c : Pub) :
    ((cloneHandle v st c .followReconf).pubs c).reconfSeen = (st.pubs c).reconfSeen + 1 := by
  simp [cloneHandle]

/-! ## C13: the gate of a kept unit over any number of reloads -/

/-- The newest agent's channel is never a closed one: `Reconfigure`, `Terminate` and `Subscribe`
    sent through it are accepted whenever the bounded channel has room (never `Err(Gone)`). -/
theorem GR_newest_agent_never_refused (v : Variant) (ccap : Nat) (tr : List Step) (st : St)
    (h : run v (init ccap) tr = some st) (hroom : st.room (st.ngen - 1) = true) :
    st.rx ≤ st.ngen - 1 ∧ (step v st .agentReconfigure).isSome ∧ (step v st .agentTerminate).isSome := by
  have hG := (inv_reachable h).2.1
  have : st.rx ≤ st.ngen - 1 := by have := hG.rx_lt; omega
  refine ⟨this, ?_, ?_⟩ <;> simp [step, this, hroom]

/-- The generation the gate serves never goes back and moves one step at a time. -/
theorem GR_generation_steps_by_one (v : Variant) (ccap : Nat) (tr : List Step) (st st' : St) (x : Step)
    (h : run v (init ccap) tr = some st) (hs : step v st x = some st') :
    st'.rx = st.rx ∨ st'.rx = st.rx + 1 := by
  have hG := (inv_reachable h).2.1
  cases x with
  | rootProc =>
    simp only [step] at hs
    split at hs
    · cases hs
    · split at hs
      · cases hs
      · rename_i y q heq
        cases hs
        cases y with
        | reconfigure g =>
          right
          have : g = st.rx + 1 := hG.reconf_next st.rx g (by rw [heq]; exact List.mem_cons_self)
          simp [rootHandle, St.startNotify, this]
        | _ => left; simp [rootHandle, St.startNotify]
  | cloneProc c =>
    left
    simp only [step] at hs
    split at hs
    · split at hs
      · cases hs
      · rename_i y q heq
        cases hs
        cases y <;> simp only [cloneHandle] <;> (try split) <;> rfl
    · cases hs
  | _ =>
    left
    simp only [step] at hs
    repeat' split at hs
    all_goals first
      | (cases hs; done)
      | (cases hs; rfl)

/-- Current tree (e536b86): the sender clones attach and detach through always points at the
    channel the root gate reads, so an `AttachClone` is never sent into a closed channel. -/
theorem GR_clone_sender_current (v : Variant) (hv : v.staleSender = false) (ccap : Nat) (tr : List Step) (st : St)
    (h : run v (init ccap) tr = some st) : st.sendGen = st.rx :=
  (inv_reachable h).2.1.send_eq hv

/-- Before e536b86: after one reload a new clone's `AttachClone` goes into the closed channel, the
    clone has no sender left and observes `Terminated` although the gate lives
    (`sessions:new-router-dropped-after-reconfigure`). -/
theorem GR_clone_sender_counterexample :
    (run asWritten (init 16) [.agentReconfigure, .rootProc, .rootNotify, .cloneNew 1, .cloneAttach 1, .cloneClosed 1]).map
        (fun st => ((st.pubs 1).terminated, st.rootTerminated, st.clones)) = some (true, false, [])
    ∧ (run asIs (init 16) [.agentReconfigure, .rootProc, .rootNotify, .cloneNew 1, .cloneAttach 1, .rootProc]).map
        (fun st => ((st.pubs 1).terminated, st.clones)) = some (false, [1]) := by decide

/-- Deadlock freedom up to an unpolled clone: a root gate that is neither terminated nor panicked
    can always take its next step, unless it has nothing to do or it waits inside `notify_clones`
    for room in the queue of a clone that exists and whose queue is full. -/
theorem GR_root_never_stuck_except_full_clone (v : Variant) (st : St)
    (ht : st.rootTerminated = false) (hp : st.rootPanicked = false) :
    (st.busy = none ∧ st.chq st.rx = []) ∨ (step v st .rootProc).isSome ∨ (step v st .rootNotify).isSome
      ∨ ∃ c, st.wedgedOn c := by
  cases hb : st.busy with
  | none =>
    cases hq : st.chq st.rx with
    | nil => exact Or.inl ⟨rfl, rfl⟩
    | cons x q => right; left; simp [step, hb, ht, hp, hq]
  | some b =>
    right; right
    cases hr : b.rest with
    | nil => left; simp [step, hb, hp, hr]
    | cons c R =>
      by_cases ha : (st.pubs c).alive = true
      · by_cases hl : (st.pubs c).cmdq.length < st.ccap
        · left; simp [step, hb, hp, hr, ha, hl]
        · right; exact ⟨c, b, R, hb, hr, ha, Nat.le_of_not_lt hl⟩
      · left
        simp only [step, hb, hp, hr]
        simp only [ha]
        split
        · rename_i h; cases h
        · split <;> rfl

/-- The wedge is released by polling the clone: one `process()` step of that clone is enabled (if
    it has not observed termination) and afterwards the root gate's send goes through. -/
theorem GR_wedge_released_by_polling (v : Variant) (st : St) (c : Pub) (hc : c ≠ 0)
    (hw : st.wedgedOn c) (hle : (st.pubs c).cmdq.length ≤ st.ccap) (ht : (st.pubs c).terminated = false)
    (hp : st.rootPanicked = false) (hcap : 0 < st.ccap) :
    ∃ st', step v st (.cloneProc c) = some st' ∧ (step v st' .rootNotify).isSome := by
  obtain ⟨b, R, hb, hr, ha, hl⟩ := hw
  cases hq : (st.pubs c).cmdq with
  | nil => rw [hq] at hl; simp at hl; omega
  | cons x q =>
    refine ⟨cloneHandle v { st with pubs := Rotonda.Gate.upd st.pubs c { st.pubs c with cmdq := q, processed := (st.pubs c).processed + 1 } } c x,
      by simp [step, hc, ha, ht, hq], ?_⟩
    have hlen : q.length < st.ccap := by rw [hq] at hle; simp at hle; omega
    cases x <;> simp only [cloneHandle] <;> (try split) <;>
      simp [step, hb, hp, hr, ha, hlen]

/-- A clone that is never polled (`ccap = 2`, two subscriptions notified): the third notification
    parks the root gate; the reload and the shutdown sent through the newest agent stay queued
    (`gate:wedged-after-repeated-reloads` at the level of the gate). -/
def wedgeTrace : List Step :=
  [.cloneNew 1, .cloneAttach 1, .rootProc,
   .linkSubscribe 0 1 0, .rootProc, .rootNotify, .rootNotify,
   .linkSubscribe 1 1 0, .rootProc, .rootNotify, .rootNotify,
   .agentReconfigure, .rootProc, .rootBlock, .agentTerminate]

theorem GR_wedge_counterexample :
    (run asIs (init 2) wedgeTrace).map (fun st => (st.busy.map (·.blocked), (st.chq st.rx).length,
        (step asIs st .rootProc).isSome, (step asIs st .rootNotify).isSome, (step asIs st (.cloneProc 1)).isSome))
      = some (some true, 1, false, false, true) := by decide

/-- As written (also after e536b86): an `AttachClone` queued behind a `Reconfigure` that is
    already in the channel is discarded with the old channel; the clone observes `Terminated`
    while the gate lives. (The statement the area makes is "attaches or observes termination".) -/
theorem GR_attach_behind_reconfigure_lost :
    (run asIs (init 16) [.agentReconfigure, .cloneNew 1, .cloneAttach 1, .rootProc, .rootNotify, .cloneClosed 1]).map
        (fun st => ((st.pubs 1).terminated, st.rootTerminated, st.clones, st.rx)) = some (true, false, [], 1) := by decide

/-- As written: a clone dropped while the root gate waits for room in its queue makes the pending
    `send` fail and `.expect(..)` panic inside `process()`. -/
theorem GR_notify_panic_counterexample :
    (run asIs (init 1) [.cloneNew 1, .cloneAttach 1, .rootProc, .linkSubscribe 0 1 0, .rootProc, .rootNotify, .rootNotify,
        .linkSubscribe 1 1 0, .rootProc, .rootBlock, .cloneDrop 1, .rootNotify]).map (fun st => st.rootPanicked) = some true
    ∧ (run repaired (init 1) [.cloneNew 1, .cloneAttach 1, .rootProc, .linkSubscribe 0 1 0, .rootProc, .rootNotify, .rootNotify,
        .linkSubscribe 1 1 0, .rootProc, .rootBlock, .cloneDrop 1, .rootNotify, .rootNotify]).map
          (fun st => (st.rootPanicked, st.busy.isNone, st.clones)) = some (false, true, []) := by decide

/-- Repaired (`send` failure treated like a closed sender): the root gate never panics. -/
theorem GR_no_panic_repaired (v : Variant) (hv : v.notifyPanics = false) (ccap : Nat) (tr : List Step) (st : St)
    (h : run v (init ccap) tr = some st) : st.rootPanicked = false :=
  (inv_reachable h).2.1.no_panic hv

/-! ## Non-vacuity -/

/-- A reload with a polled clone: the downstream re-subscribes through the new agent, root gate and
    clone publish, the new link gets both updates in order, the old link nothing new. -/
example :
    (run asIs (init 16)
      [.cloneNew 1, .cloneAttach 1, .rootProc, .linkSubscribe 0 1 0, .rootProc, .rootNotify, .rootNotify, .cloneProc 1,
       .pubBegin 0, .pubDeliver 0 0, .pubEnd 0,
       .agentReconfigure, .rootProc, .rootNotify, .rootNotify, .cloneProc 1,
       .linkSubscribe 1 1 1, .rootProc, .rootNotify, .rootNotify, .cloneProc 1,
       .pubBegin 0, .pubDeliver 0 1, .pubEnd 0, .pubBegin 1, .pubDeliver 1 1, .pubEnd 1]).map
      (fun st => (st.rx, st.updates, seqsOf 0 (st.chans 0).hist, seqsOf 0 (st.chans 1).hist ++ seqsOf 1 (st.chans 1).hist,
        (st.pubs 1).reconfSeen))
      = some (1, [1], [1], [2, 1], 1) := by decide

/-- The hypotheses of `GR_wedge_released_by_polling` hold in the wedge witness. -/
example : ∃ st, run asIs (init 2) (wedgeTrace.take 14) = some st ∧ (st.pubs 1).terminated = false ∧
    (st.pubs 1).alive = true ∧ st.ccap ≤ (st.pubs 1).cmdq.length ∧ st.rootPanicked = false := by
  refine ⟨_, rfl, ?_, ?_, ?_, ?_⟩ <;> decide

/-- `GR_update_complete`'s guard excludes something real: a link that closed its end is skipped. -/
example :
    (run asIs (init 16) [.linkSubscribe 0 0 0, .rootProc, .rootNotify, .pubBegin 0, .linkDisconnect 0 false, .pubDeliver 0 0, .pubEnd 0]).map
      (fun st => ((st.chans 0).hist.length, (st.chans 0).open_, (st.pubs 0).snap)) = some (0, false, [0]) := by decide

end Rotonda.GateReconf
