import RotondaModel.Proofs.RotoMethods
/-!
# RotoMethods — the roto-callable methods mean what they say (C10, and C17 for `LogEntry`)

Statements only; helper lemmas are in `Proofs/RotoMethods.lean`, the model in
`Model/RotoMethods.lean`. Every theorem is followed by a non-vacuity `example`.
-/
namespace Rotonda.RotoMethods

/-! ## 1. NLRI counts -/

/-- `announcements_count` is the number of announced NLRI over the conventional field and
    MP_REACH_NLRI, for every UPDATE (saturating at `u32::MAX`, which a 4096-byte PDU cannot reach) -/
theorem RM_announcements_count (u : Upd) :
    announcementsCount u = min (u.reach.length + (mpNlri u.mpReach).length) u32Max := by
  simp only [announcementsCount, announcements, sat32, List.length_append]
  split <;> omega

theorem RM_announcements_count_exact (u : Upd)
    (h : u.reach.length + (mpNlri u.mpReach).length ≤ u32Max) :
    announcementsCount u = u.reach.length + (mpNlri u.mpReach).length := by
  rw [RM_announcements_count]; omega

example : announcementsCount ⟨none, none, none, 0, [1, 2], [3], some ⟨2, [4, 5, 6]⟩, none⟩ = 5 := by decide

/-- `withdrawals_count` likewise over withdrawn routes and MP_UNREACH_NLRI -/
theorem RM_withdrawals_count (u : Upd) :
    withdrawalsCount u = min (u.unreach.length + (mpNlri u.mpUnreach).length) u32Max := by
  simp only [withdrawalsCount, withdrawals, sat32, List.length_append]
  split <;> omega

theorem RM_withdrawals_count_exact (u : Upd)
    (h : u.unreach.length + (mpNlri u.mpUnreach).length ≤ u32Max) :
    withdrawalsCount u = u.unreach.length + (mpNlri u.mpUnreach).length := by
  rw [RM_withdrawals_count]; omega

example : withdrawalsCount ⟨none, none, none, 0, [1, 2], [3], none, some ⟨2, [7, 8]⟩⟩ = 3 := by decide

/-- the counts never mix the two directions: announcing does not change `withdrawals_count` -/
theorem RM_counts_independent (u : Upd) (r : List Nat) (m : Option Mp) :
    withdrawalsCount { u with reach := r, mpReach := m } = withdrawalsCount u ∧
    announcementsCount { u with unreach := r, mpUnreach := m } = announcementsCount u := by
  simp [withdrawalsCount, withdrawals, announcementsCount, announcements]

example : withdrawalsCount { Upd.empty with reach := [1], mpReach := some ⟨0, [2]⟩ } = 0 := by decide

/-- End-of-RIB (empty UPDATE, or only an empty MP_UNREACH): both counts are 0 -/
theorem RM_counts_eor (f : Nat) :
    announcementsCount Upd.empty = 0 ∧ withdrawalsCount Upd.empty = 0 ∧
    withdrawalsCount { Upd.empty with mpUnreach := some ⟨f, []⟩ } = 0 := by
  simp [announcementsCount, withdrawalsCount, announcements, withdrawals, mpNlri, Upd.empty, sat32]

/-! ## 2. AS_PATH readings agree with the segments, for every segment structure -/

/-- hop count: every ASN of a non-empty AS_SEQUENCE is one hop; an AS_SET, a confederation
    segment and an empty AS_SEQUENCE are one hop each -/
theorem RM_hopCount (p : List Seg) : hopCount p = (p.map segHopCount).sum := by
  induction p with
  | nil => rfl
  | cons s t ih => rw [hopCount_cons, ih]; simp

example : hopCount [⟨.seq, [65000, 200]⟩, ⟨.set, [1, 2, 3]⟩, ⟨.confSeq, [64512, 64513]⟩] = 4 := by decide

/-- `aspath_contains(a)` ⇔ `a` is a member of some AS_SEQUENCE segment (never of a set or a
    confederation segment), at any position and for any number of segments -/
theorem RM_aspath_contains (u : Upd) (a : Nat) :
    aspathContains u a = true ↔ ∃ p, u.aspath = some p ∧ ∃ s ∈ p, s.kind = .seq ∧ a ∈ s.asns := by
  unfold aspathContains
  cases h : u.aspath with
  | none => simp
  | some p =>
    simp only [List.any_eq_true, beq_iff_eq, Option.some.injEq, exists_eq_left']
    rw [← asn_mem_hops]
    constructor
    · rintro ⟨x, hx, rfl⟩; exact hx
    · intro hx; exact ⟨_, hx, rfl⟩

example : aspathContains ⟨some [⟨.seq, [1]⟩, ⟨.set, [7]⟩, ⟨.seq, [200]⟩], none, none, 0, [], [], none, none⟩ 200 = true
    ∧ aspathContains ⟨some [⟨.seq, [1]⟩, ⟨.set, [7]⟩], none, none, 0, [], [], none, none⟩ 7 = false := by decide

/-- the origin is decided by the LAST segment alone: its last ASN if it is an AS_SEQUENCE,
    nothing otherwise (AS_SET / confederation segment / empty sequence last) -/
theorem RM_origin_last_segment (p : List Seg) (s : Seg) :
    originAsn (p ++ [s]) = if s.kind = .seq then s.asns.getLast? else none := by
  unfold originAsn
  rw [origin_snoc]
  by_cases h : s.whole
  · rw [segHops_whole s h]
    simp only [Seg.whole] at h
    by_cases hk : s.kind = .seq
    · have : s.asns = [] := by
        cases hl : s.asns with
        | nil => rfl
        | cons a r => exact absurd ⟨hk, by rw [hl]; simp⟩ h
      simp [hk, this]
    · simp [hk]
  · rw [segHops_not_whole s h]
    simp only [Seg.whole, Classical.not_not] at h
    simp only [h.1, if_true, List.getLast?_map]
    cases s.asns.getLast? <;> rfl

theorem RM_origin_empty : originAsn [] = none := rfl

example : originAsn ([⟨.set, [9]⟩] ++ [⟨.seq, [65000, 200]⟩]) = some 200 := by decide
example : originAsn ([⟨.seq, [65000, 200]⟩] ++ [⟨.set, [1, 2]⟩]) = none := by decide

/-- `match_aspath_origin(a)` ⇔ the origin ASN exists and is `a` -/
theorem RM_match_origin (u : Upd) (a : Nat) :
    matchOrigin u a = true ↔ ∃ p, u.aspath = some p ∧ originAsn p = some a := by
  unfold matchOrigin originAsn
  cases h : u.aspath with
  | none => simp
  | some p =>
    simp only [Option.some.injEq, exists_eq_left', beq_iff_eq]
    cases ho : origin p with
    | none => simp
    | some x => cases x <;> simp

/-- `fmt_aspath_origin` prints exactly the ASN `match_aspath_origin` accepts -/
theorem RM_fmt_origin_agrees (u : Upd) (a : Nat) (h : matchOrigin u a = true) :
    fmtOrigin u = showAsn a := by
  obtain ⟨p, hp, ho⟩ := (RM_match_origin u a).mp h
  simp [fmtOrigin, hp, fmtOriginP, ho]

example : matchOrigin ⟨some [⟨.seq, [65000, 200]⟩], none, none, 0, [], [], none, none⟩ 200 = true := by decide

/-! ## 3. `fmt_*` output reads back to the path / the community list -/

/-- reading a printed AS_PATH back: bare numbers are one AS_SEQUENCE -/
def AspOut.decode : AspOut → List Seg
  | .plain l => [⟨.seq, l⟩]
  | .segs l => l

/-- `fmt_aspath` loses nothing: the printed structure reads back to the segments -/
theorem RM_fmt_aspath_decode (p : List Seg) : (fmtAspathS p).decode = p := by
  unfold fmtAspathS
  match p with
  | [] => rfl
  | [⟨k, l⟩] => cases k <;> rfl
  | _ :: _ :: _ => simp [isSingleSeq, AspOut.decode]

/-- the bare-number form is used exactly for a single AS_SEQUENCE -/
theorem RM_fmt_aspath_plain_iff (p : List Seg) (l : List Nat) :
    fmtAspathS p = .plain l ↔ p = [⟨.seq, l⟩] := by
  constructor
  · intro h
    have := RM_fmt_aspath_decode p
    rw [h] at this
    exact this.symm
  · rintro rfl; rfl

example : (fmtAspathS [⟨.seq, [65000, 200]⟩]).render = "65000 200" := by decide
example : (fmtAspathS [⟨.seq, [65000]⟩, ⟨.set, [1, 2]⟩]).render = "AS_SEQUENCE(AS65000), AS_SET(AS1, AS2)" := by decide

/-- the rendered string does not tell an absent AS_PATH, an empty one and one empty AS_SEQUENCE apart -/
theorem RM_fmt_aspath_empty_ambiguous :
    fmtAspath { Upd.empty with aspath := none } = "" ∧
    fmtAspath { Upd.empty with aspath := some [] } = "" ∧
    fmtAspath { Upd.empty with aspath := some [⟨.seq, []⟩] } = "" := by decide

/-- a route (rib-in-pre) sees the same hops as the UPDATE it came from, whatever the segment
    structure and length (the HopPath is recomposed in AS_SEQUENCE chunks of at most 255) -/
theorem RM_route_hops (p : List Seg) : hops (routePath p) = hops p := hops_routePath p

theorem RM_route_fmt_hops (p : List Seg) : hops (fmtAspathS (routePath p)).decode = hops p := by
  rw [RM_fmt_aspath_decode, RM_route_hops]

example : routePath [⟨.seq, [1]⟩, ⟨.seq, [2]⟩, ⟨.set, [3]⟩] = [⟨.seq, [1, 2]⟩, ⟨.set, [3]⟩] := by
  simp [routePath, hops, segHops, recompose, spanAsn, seqChunks, chunksOf]

theorem routePath_two_seq : routePath [⟨.seq, [65000]⟩, ⟨.seq, [200]⟩] = [⟨.seq, [65000, 200]⟩] := by
  simp [routePath, hops, segHops, recompose, spanAsn, seqChunks, chunksOf]

/-- but not the same TEXT: adjacent AS_SEQUENCE segments print as segments at bgp-in / bmp-in and
    as bare numbers at rib-in-pre -/
theorem RM_route_fmt_differs :
    (fmtAspathS [⟨.seq, [65000]⟩, ⟨.seq, [200]⟩]).render = "AS_SEQUENCE(AS65000), AS_SEQUENCE(AS200)" ∧
    (fmtAspathS (routePath [⟨.seq, [65000]⟩, ⟨.seq, [200]⟩])).render = "65000 200" := by
  rw [routePath_two_seq]; decide

/-- reading one printed standard community back -/
def CommOut.decode : CommOut → Option Nat
  | .named n => wellknownValue n
  | .unrec l => some (0xFFFF0000 + l)
  | .pair a t => some (a * 65536 + t)

/-- every standard community value prints to something that reads back to it -/
theorem RM_fmt_comm_decode (c : Nat) : (fmtCommS c).decode = some c := by
  unfold fmtCommS
  split
  · rename_i h
    cases hn : wellknownName c with
    | some n => simp only [CommOut.decode]; exact wellknownName_value c n hn
    | none => simp only [CommOut.decode, Option.some.injEq]; omega
  · simp only [CommOut.decode, Option.some.injEq]; omega

theorem RM_fmt_communities_decode (l : List Nat) : (l.map fmtCommS).mapM CommOut.decode = some l := by
  induction l with
  | nil => rfl
  | cons c t ih => simp [List.mapM_cons, RM_fmt_comm_decode, ih]

example : fmtComm 0xFFFFFF01 = "NO_EXPORT" ∧ fmtComm 0xFFFF1234 = "0xFFFF1234" ∧ fmtComm 0xfde80001 = "AS65000:1"
    ∧ fmtComm 10 = "AS0:10" := by decide

/-- `contains_large_community` is membership in the LARGE_COMMUNITIES attribute -/
theorem RM_contains_large (u : Upd) (c : Large) :
    containsLarge u c = true ↔ ∃ l, u.lcomms = some l ∧ c ∈ l := by
  unfold containsLarge
  cases u.lcomms with
  | none => simp
  | some l =>
    simp only [List.any_eq_true, beq_iff_eq, Option.some.injEq, exists_eq_left']
    constructor
    · rintro ⟨x, hx, rfl⟩; exact hx
    · intro hx; exact ⟨_, hx, rfl⟩

example : containsLarge { Upd.empty with lcomms := some [⟨65000, 1, 2⟩] } ⟨65000, 1, 2⟩ = true := by decide

/-! ## 4. The three receivers -/

/-- on a BMP message that is not RouteMonitoring every method yields the neutral value -/
theorem RM_bmp_neutral (m : Bmp) (ql : Large) (qa : Nat) (h : m.kind ≠ .routeMon) :
    obsBmp m ql qa = Obs.neutral := by
  unfold obsBmp Bmp.view
  cases hk : m.kind <;> simp_all

example : obsBmp ⟨.peerDown, 65000, some { Upd.empty with reach := [1] }⟩ ⟨1, 1, 1⟩ 1 = Obs.neutral := by decide

/-- so does a RouteMonitoring whose PDU does not parse -/
theorem RM_bmp_unparsable (m : Bmp) (ql : Large) (qa : Nat) (h : m.upd = none) :
    obsBmp m ql qa = Obs.neutral := by
  unfold obsBmp Bmp.view
  cases hk : m.kind <;> simp_all

/-- a RouteMonitoring answers exactly as the encapsulated UPDATE would at bgp-in -/
theorem RM_bmp_is_bgp (m : Bmp) (u : Upd) (ql : Large) (qa : Nat)
    (hk : m.kind = .routeMon) (hu : m.upd = some u) : obsBmp m ql qa = obsBgp u ql qa := by
  simp [obsBmp, Bmp.view, hk, hu, obsBgp]

example : (obsBmp ⟨.routeMon, 1, some { Upd.empty with reach := [1, 2] }⟩ ⟨1, 1, 1⟩ 1).annCount = 2 := by decide

/-- a withdrawn route (empty attribute map) yields the neutral value -/
theorem RM_route_withdrawal (ql : Large) (qa : Nat) : obsRoute ⟨none⟩ ql qa = Obs.neutral := rfl

theorem originAsn_routePath (p : List Seg) : originAsn (routePath p) = originAsn p := by
  simp [originAsn, origin, RM_route_hops]

/-- an announced route answers as its UPDATE does at bgp-in, for everything but the TEXT of
    `fmt_aspath` (see `RM_route_fmt_differs`; its hops agree by `RM_route_fmt_hops`) -/
theorem RM_route_agrees_bgp (u : Upd) (ql : Large) (qa : Nat) :
    (obsRoute ⟨some u⟩ ql qa).origin = (obsBgp u ql qa).origin ∧
    (obsRoute ⟨some u⟩ ql qa).comms = (obsBgp u ql qa).comms ∧
    (obsRoute ⟨some u⟩ ql qa).lcomms = (obsBgp u ql qa).lcomms ∧
    (obsRoute ⟨some u⟩ ql qa).hasLarge = (obsBgp u ql qa).hasLarge ∧
    (obsRoute ⟨some u⟩ ql qa).hasAsn = (obsBgp u ql qa).hasAsn ∧
    (obsRoute ⟨some u⟩ ql qa).originIs = (obsBgp u ql qa).originIs := by
  simp only [obsRoute, Route.view, Option.map_some, obsBgp, obsUpd, fmtOrigin, fmtCommunities,
    fmtLargeCommunities, containsLarge, aspathContains, matchOrigin]
  cases u.aspath with
  | none => simp
  | some p => simp [fmtOriginP, originAsn_routePath, RM_route_hops, origin]

example : (obsRoute ⟨some { Upd.empty with aspath := some [⟨.seq, [1]⟩, ⟨.seq, [2]⟩] }⟩ ⟨1, 1, 1⟩ 2).originIs = true := by
  rw [(RM_route_agrees_bgp _ _ _).2.2.2.2.2]; decide

/-! ## 5. `LogEntry` setters: each writes exactly its field(s), from the message -/

/-- frame: a setter changes no field but its own (`mp_reach` / `mp_unreach` own the count and
    the AFI/SAFI; `log_all` owns everything but the timestamp and the custom text) -/
theorem RM_setter_frame (m : Bmp) (e : Entry) :
    setter m (.custom s) e = { e with custom := (setter m (.custom s) e).custom } ∧
    setter m .originAs e = { e with originAs := (setter m .originAs e).originAs } ∧
    setter m .peerAs e = { e with peerAs := (setter m .peerAs e).peerAs } ∧
    setter m .asPathHops e = { e with asPathHops := (setter m .asPathHops e).asPathHops } ∧
    setter m .convReach e = { e with convReach := (setter m .convReach e).convReach } ∧
    setter m .convUnreach e = { e with convUnreach := (setter m .convUnreach e).convUnreach } ∧
    setter m .mpReach e = { e with mpReach := (setter m .mpReach e).mpReach,
                                   mpReachFam := (setter m .mpReach e).mpReachFam } ∧
    setter m .mpUnreach e = { e with mpUnreach := (setter m .mpUnreach e).mpUnreach,
                                     mpUnreachFam := (setter m .mpUnreach e).mpUnreachFam } ∧
    (setter m .logAll e).ts = e.ts ∧ (setter m .logAll e).custom = e.custom := by
  refine ⟨rfl, ?_, ?_, ?_, ?_, ?_, ?_, ?_, ?_, ?_⟩
  all_goals (simp only [setter, setMpReach, setMpUnreach]; (repeat' split) <;> rfl)

/-- no setter reads or writes the timestamp -/
def Entry.noTs (e : Entry) : Entry := { e with ts := false }

theorem setter_noTs (m : Bmp) (o : Op) (e : Entry) : (setter m o e).noTs = setter m o e.noTs := by
  cases o <;> simp only [setter, Entry.noTs, setMpReach, setMpUnreach] <;>
    (repeat' split) <;> first | rfl | simp_all

/-- what each setter writes for a RouteMonitoring message whose UPDATE parses -/
theorem RM_setter_values (m : Bmp) (u : Upd) (e : Entry) (hk : m.kind = .routeMon) (hu : m.upd = some u) :
    (setter m .peerAs e).peerAs = some m.pphAsn ∧
    (setter m .asPathHops e).asPathHops = u.aspath.map hopCount ∧
    (setter m .convReach e).convReach = u.reach.length ∧
    (setter m .convUnreach e).convUnreach = u.unreach.length ∧
    (setter m .originAs e).originAs = (match u.aspath.bind originAsn with | some a => some a | none => e.originAs) ∧
    (setter m .mpReach e).mpReach = (match u.mpReach with | some x => some x.nlri.length | none => e.mpReach) ∧
    (setter m .mpUnreach e).mpUnreach = (match u.mpUnreach with | some x => some x.nlri.length | none => e.mpUnreach) := by
  refine ⟨?_, ?_, ?_, ?_, ?_, ?_, ?_⟩
  · simp [setter, hk]
  · simp [setter, Bmp.view, hk, hu]
  · simp [setter, Bmp.view, hk, hu]
  · simp [setter, Bmp.view, hk, hu]
  · cases h : u.aspath.bind originAsn <;> simp [setter, Bmp.view, hk, hu, h]
  · cases h : u.mpReach <;> simp [setter, Bmp.view, hk, hu, h, setMpReach]
  · cases h : u.mpUnreach <;> simp [setter, Bmp.view, hk, hu, h, setMpUnreach]

example : (setter ⟨.routeMon, 65000, some { Upd.empty with aspath := some [⟨.seq, [1, 2]⟩, ⟨.set, [3]⟩] }⟩ .asPathHops Entry.new).asPathHops = some 3 := by decide

/-- `log_all` is all single setters together; on a path whose origin is not an ASN it CLEARS
    `origin_as` (the single setter leaves it alone) -/
theorem RM_logAll_values (m : Bmp) (u : Upd) (e : Entry) (hk : m.kind = .routeMon) (hu : m.upd = some u) :
    (setter m .logAll e).peerAs = some m.pphAsn ∧
    (setter m .logAll e).convReach = u.reach.length ∧
    (setter m .logAll e).convUnreach = u.unreach.length ∧
    (setter m .logAll e).asPathHops = (match u.aspath with | some p => some (hopCount p) | none => e.asPathHops) ∧
    (setter m .logAll e).originAs = (match u.aspath with | some p => originAsn p | none => e.originAs) ∧
    (setter m .logAll e).mpReach = (match u.mpReach with | some x => some x.nlri.length | none => e.mpReach) ∧
    (setter m .logAll e).mpUnreach = (match u.mpUnreach with | some x => some x.nlri.length | none => e.mpUnreach) := by
  simp only [setter, Bmp.view, hk, hu, setMpReach, setMpUnreach]
  cases u.aspath <;> cases u.mpReach <;> cases u.mpUnreach <;> simp

/-- the counts `log_all` writes add up to what `announcements_count` / `withdrawals_count` return -/
theorem RM_logAll_counts_agree (m : Bmp) (u : Upd) (hk : m.kind = .routeMon) (hu : m.upd = some u)
    (h1 : (announcements u).length ≤ u32Max) (h2 : (withdrawals u).length ≤ u32Max) :
    (setter m .logAll Entry.new).convReach + ((setter m .logAll Entry.new).mpReach).getD 0 = (obsBmp m ql qa).annCount ∧
    (setter m .logAll Entry.new).convUnreach + ((setter m .logAll Entry.new).mpUnreach).getD 0 = (obsBmp m ql qa).wdrCount := by
  have := RM_logAll_values m u Entry.new hk hu
  obtain ⟨_, h3, h4, _, _, h5, h6⟩ := this
  rw [h3, h4, h5, h6]
  simp only [obsBmp, Bmp.view, hk, hu, obsUpd, announcementsCount, withdrawalsCount, sat32, h1, h2, if_true]
  simp only [announcements, withdrawals, mpNlri, List.length_append]
  cases u.mpReach <;> cases u.mpUnreach <;> simp [Entry.new, Entry.default] <;> omega

example : (setter ⟨.routeMon, 1, some { Upd.empty with reach := [1], mpReach := some ⟨2, [2, 3]⟩ }⟩ .logAll Entry.new).mpReach = some 2 := by decide

/-- on anything but a RouteMonitoring no `BmpMsg`-reading setter writes anything -/
theorem RM_setter_neutral (m : Bmp) (o : Op) (e : Entry) (hk : m.kind ≠ .routeMon) (ho : ∀ s, o ≠ .custom s) :
    setter m o e = e := by
  cases o <;> simp only [setter, Bmp.view] <;> cases hm : m.kind <;> simp_all

example : setter ⟨.peerDown, 65000, none⟩ .logAll Entry.new = Entry.new := by decide

/-- a RouteMonitoring whose PDU does not parse: only the per-peer header's ASN is written -/
theorem RM_setter_unparsable (m : Bmp) (o : Op) (e : Entry) (hu : m.upd = none)
    (ho : ∀ s, o ≠ .custom s) (h1 : o ≠ .peerAs) (h2 : o ≠ .logAll) : setter m o e = e := by
  cases o <;> simp only [setter, Bmp.view] <;> cases hm : m.kind <;> simp_all

/-! ## 6. What reaches the output stream -/

/-- the documented meaning of a script's calls: `write_entry` emits the entry composed so far and
    a NEW (empty, freshly stamped) entry follows; `log_custom` emits its pair; setters compose -/
def specRun (m : Bmp) : List Op → Entry → List Out
  | [], _ => []
  | .writeEntry :: r, e => Out.entry e :: specRun m r Entry.new
  | .logCustom a b :: r, e => Out.custom a b :: specRun m r e
  | .custom s :: r, e => specRun m r (setter m (.custom s) e)
  | .originAs :: r, e => specRun m r (setter m .originAs e)
  | .peerAs :: r, e => specRun m r (setter m .peerAs e)
  | .asPathHops :: r, e => specRun m r (setter m .asPathHops e)
  | .convReach :: r, e => specRun m r (setter m .convReach e)
  | .convUnreach :: r, e => specRun m r (setter m .convUnreach e)
  | .mpReach :: r, e => specRun m r (setter m .mpReach e)
  | .mpUnreach :: r, e => specRun m r (setter m .mpUnreach e)
  | .logAll :: r, e => specRun m r (setter m .logAll e)

/-- the same with the entry that follows a `write_entry` as a parameter -/
def specRunWith (nxt : Entry) (m : Bmp) : List Op → Entry → List Out
  | [], _ => []
  | .writeEntry :: r, e => Out.entry e :: specRunWith nxt m r nxt
  | .logCustom a b :: r, e => Out.custom a b :: specRunWith nxt m r e
  | .custom s :: r, e => specRunWith nxt m r (setter m (.custom s) e)
  | .originAs :: r, e => specRunWith nxt m r (setter m .originAs e)
  | .peerAs :: r, e => specRunWith nxt m r (setter m .peerAs e)
  | .asPathHops :: r, e => specRunWith nxt m r (setter m .asPathHops e)
  | .convReach :: r, e => specRunWith nxt m r (setter m .convReach e)
  | .convUnreach :: r, e => specRunWith nxt m r (setter m .convUnreach e)
  | .mpReach :: r, e => specRunWith nxt m r (setter m .mpReach e)
  | .mpUnreach :: r, e => specRunWith nxt m r (setter m .mpUnreach e)
  | .logAll :: r, e => specRunWith nxt m r (setter m .logAll e)

theorem specRunWith_new (m : Bmp) (ops : List Op) (e : Entry) : specRunWith Entry.new m ops e = specRun m ops e := by
  induction ops generalizing e with
  | nil => rfl
  | cons o r ih => cases o <;> simp [specRunWith, specRun, ih]

def Variant.next (v : Variant) : Entry := if v.freshTs then Entry.new else Entry.default

/-- the code: outputs are appended in call order, one per `write_entry` / `log_custom` call -/
theorem run_msgs (v : Variant) (m : Bmp) (ops : List Op) (s : Stream) :
    (run v m ops s).msgs = s.msgs ++ specRunWith v.next m ops s.entry := by
  induction ops generalizing s with
  | nil => simp [run, specRunWith]
  | cons o r ih =>
    have hr : run v m (o :: r) s = run v m r (step v m s o) := rfl
    rw [hr, ih]
    cases o <;> simp [step, specRunWith, Variant.next]

/-- every output call is emitted exactly once, in call order, whatever else the script does -/
theorem RM_outputs_once_in_order (v : Variant) (m : Bmp) (ops : List Op) :
    (runFresh v m ops).map (fun o => match o with | .entry _ => true | .custom _ _ => false) =
    ops.filterMap (fun o => match o with | .writeEntry => some true | .logCustom _ _ => some false | _ => none) := by
  unfold runFresh
  rw [run_msgs]
  simp only [Stream.new, List.nil_append]
  generalize Entry.new = e
  induction ops generalizing e with
  | nil => rfl
  | cons o r ih => cases o <;> simp [specRunWith, ih]

example : (runFresh .asWritten noBmp [.writeEntry, .logCustom 1 2, .custom "x", .writeEntry]).length = 3 := by decide

/-- the full statement: the entries that reach the output stream are exactly what the script
    composed between two `write_entry` calls, each starting from a new, freshly stamped entry -/
def RM_entries_full (v : Variant) : Prop :=
  ∀ (m : Bmp) (ops : List Op), runFresh v m ops = specRun m ops Entry.new

theorem RM_entries_repaired (v : Variant) (h : v.freshTs = true) : RM_entries_full v := by
  intro m ops
  unfold runFresh
  rw [run_msgs]
  simp [Stream.new, Variant.next, h, specRunWith_new]

example : RM_entries_full .repaired := RM_entries_repaired _ rfl

/-- as written it fails: `take_entry` leaves `LogEntry::default()` behind, so the second entry of
    one filter call carries the Unix epoch as its timestamp -/
theorem RM_entries_counterexample : ¬ RM_entries_full .asWritten := by
  intro h
  have := h ⟨.routeMon, 65000, some Upd.empty⟩ [.logAll, .writeEntry, .peerAs, .writeEntry]
  revert this
  decide

/-- … and that is the only thing wrong: modulo the timestamp every emitted entry is exact -/
def Out.noTs : Out → Out
  | .entry e => .entry e.noTs
  | o => o

theorem specRunWith_noTs (n1 n2 : Entry) (hn : n1.noTs = n2.noTs) (m : Bmp) (ops : List Op) (e1 e2 : Entry)
    (he : e1.noTs = e2.noTs) :
    (specRunWith n1 m ops e1).map Out.noTs = (specRunWith n2 m ops e2).map Out.noTs := by
  induction ops generalizing e1 e2 with
  | nil => rfl
  | cons o r ih =>
    cases o <;> simp only [specRunWith, List.map_cons, Out.noTs]
    case writeEntry => rw [he, ih n1 n2 hn]
    case logCustom => rw [ih e1 e2 he]
    all_goals (apply ih; rw [setter_noTs, setter_noTs, he])

theorem RM_entries_partial (v : Variant) (m : Bmp) (ops : List Op) :
    (runFresh v m ops).map Out.noTs = (specRun m ops Entry.new).map Out.noTs := by
  unfold runFresh
  rw [run_msgs, ← specRunWith_new]
  simp only [Stream.new, List.nil_append]
  apply specRunWith_noTs
  · unfold Variant.next; split <;> rfl
  · rfl

/-- the first entry of a call is right, timestamp included -/
theorem RM_first_entry_exact (v : Variant) (m : Bmp) (pre post : List Op)
    (h : ∀ o ∈ pre, o ≠ .writeEntry) :
    ∃ cs rest, runFresh v m (pre ++ .writeEntry :: post) = cs ++ Out.entry (pre.foldl (fun e o => setter m o e) Entry.new) :: rest
      ∧ ∀ c ∈ cs, ∃ a b, c = Out.custom a b := by
  unfold runFresh
  rw [run_msgs]
  simp only [Stream.new, List.nil_append]
  generalize Entry.new = e
  induction pre generalizing e with
  | nil => exact ⟨[], specRunWith v.next m post v.next, by simp [specRunWith], by simp⟩
  | cons o r ih =>
    have hr := ih (fun o ho => h o (by simp [ho]))
    have ho : o ≠ .writeEntry := h o (by simp)
    cases o with
    | writeEntry => exact absurd rfl ho
    | logCustom a b =>
      obtain ⟨cs, rest, h1, h2⟩ := hr e
      refine ⟨Out.custom a b :: cs, rest, ?_, ?_⟩
      · simp only [List.cons_append, specRunWith, h1, List.foldl_cons, setter]
      · intro c hc; rcases List.mem_cons.mp hc with rfl | hc; exact ⟨a, b, rfl⟩; exact h2 c hc
    | _ => simpa [specRunWith] using hr _

/-! ### rib-in-pre: one stream for all routes of an `Update` -/

/-- the full statement at rib-in-pre: every route is its own filter call -/
def RM_routes_full (v : Variant) : Prop :=
  ∀ scripts : List (List Op), runRoutes v scripts = scripts.map fun ops => specRun noBmp ops Entry.new

theorem RM_routes_repaired : RM_routes_full .repaired := by
  intro scripts
  simp only [runRoutes, Variant.repaired, if_true]
  congr 1
  funext ops
  exact RM_entries_repaired _ rfl noBmp ops

/-- as written an entry composed for one route and not written is written for a later route of
    the same `Update` -/
theorem RM_routes_counterexample : ¬ RM_routes_full .asWritten := by
  intro h
  have := h [[.custom "x"], [.writeEntry]]
  revert this
  decide

/-- with the per-route stream alone (timestamp defect kept) the routes are still independent calls -/
theorem RM_routes_perRoute (v : Variant) (h : v.perRoute = true) (scripts : List (List Op)) :
    runRoutes v scripts = scripts.map (runFresh v noBmp) := by
  simp [runRoutes, h]

example : runRoutes .asWritten [[.custom "x"], [.writeEntry]] = [[], [.entry { Entry.new with custom := some "x" }]] := by decide

/-! #### guarded partial for the code as written -/

/-- the entry under construction after a script (companion of `specRunWith`) -/
def pend (nxt : Entry) (m : Bmp) : List Op → Entry → Entry
  | [], e => e
  | .writeEntry :: r, _ => pend nxt m r nxt
  | .logCustom _ _ :: r, e => pend nxt m r e
  | .custom s :: r, e => pend nxt m r (setter m (.custom s) e)
  | .originAs :: r, e => pend nxt m r (setter m .originAs e)
  | .peerAs :: r, e => pend nxt m r (setter m .peerAs e)
  | .asPathHops :: r, e => pend nxt m r (setter m .asPathHops e)
  | .convReach :: r, e => pend nxt m r (setter m .convReach e)
  | .convUnreach :: r, e => pend nxt m r (setter m .convUnreach e)
  | .mpReach :: r, e => pend nxt m r (setter m .mpReach e)
  | .mpUnreach :: r, e => pend nxt m r (setter m .mpUnreach e)
  | .logAll :: r, e => pend nxt m r (setter m .logAll e)

theorem run_entry (v : Variant) (m : Bmp) (ops : List Op) (s : Stream) :
    (run v m ops s).entry = pend v.next m ops s.entry := by
  induction ops generalizing s with
  | nil => rfl
  | cons o r ih =>
    have hr : run v m (o :: r) s = run v m r (step v m s o) := rfl
    rw [hr, ih]
    cases o <;> simp [step, pend, Variant.next]

/-- does a script leave a composed-but-unwritten entry behind? (`d`: something is pending already) -/
def pendDirty : List Op → Bool → Bool
  | [], d => d
  | .writeEntry :: r, _ => pendDirty r false
  | .logCustom _ _ :: r, d => pendDirty r d
  | _ :: r, _ => pendDirty r true

/-- guard: every setter call of the script is followed by a `write_entry` -/
def clean (ops : List Op) : Bool := !pendDirty ops false

theorem pend_clean (nxt : Entry) (hn : nxt.noTs = Entry.default) (m : Bmp) (ops : List Op) (d : Bool) (e : Entry)
    (hd : pendDirty ops d = false) (he : d = false → e.noTs = Entry.default) :
    (pend nxt m ops e).noTs = Entry.default := by
  induction ops generalizing d e with
  | nil => exact he (by simpa [pendDirty] using hd)
  | cons o r ih =>
    cases o
    case writeEntry => exact ih false nxt (by simpa [pendDirty] using hd) (fun _ => hn)
    case logCustom a b => exact ih d e (by simpa [pendDirty] using hd) he
    all_goals exact ih true _ (by simpa [pendDirty] using hd) (fun h => by cases h)

theorem next_noTs (v : Variant) : v.next.noTs = Entry.default := by
  unfold Variant.next; split <;> rfl

/-- the fold of `runRoutes` as written, from any stream whose entry is untouched -/
theorem routes_fold_partial (v : Variant) (scripts : List (List Op)) (h : ∀ ops ∈ scripts, clean ops = true)
    (s : Stream) (acc : List (List Out)) (hs : s.msgs = []) (he : s.entry.noTs = Entry.default) :
    ((scripts.foldl (fun (acc : Stream × List (List Out)) ops =>
        let s := run v noBmp ops acc.1
        ({ s with msgs := [] }, acc.2 ++ [s.msgs])) (s, acc)).2).map (·.map Out.noTs) =
    acc.map (·.map Out.noTs) ++ scripts.map fun ops => (specRun noBmp ops Entry.new).map Out.noTs := by
  induction scripts generalizing s acc with
  | nil => simp
  | cons ops r ih =>
    simp only [List.foldl_cons]
    rw [ih (fun o ho => h o (by simp [ho]))]
    · simp only [List.map_append, List.map_cons, List.map_nil, List.append_assoc, List.cons_append, List.nil_append]
      congr 2
      rw [run_msgs, hs, List.nil_append, ← specRunWith_new]
      exact specRunWith_noTs _ _ (next_noTs v) _ _ _ _ he
    · rfl
    · simp only
      rw [run_entry]
      have hc := h ops (by simp)
      simp only [clean, Bool.not_eq_true'] at hc
      exact pend_clean _ (next_noTs v) _ _ false _ hc (fun _ => he)

/-- as written: when no script leaves a composed entry unwritten, every route's outputs are exact
    modulo the timestamp -/
theorem RM_routes_partial (v : Variant) (scripts : List (List Op)) (h : ∀ ops ∈ scripts, clean ops = true) :
    (runRoutes v scripts).map (·.map Out.noTs) =
    scripts.map fun ops => (specRun noBmp ops Entry.new).map Out.noTs := by
  unfold runRoutes
  split
  · simp only [List.map_map]
    congr 1
    funext ops
    exact RM_entries_partial v noBmp ops
  · have := routes_fold_partial v scripts h Stream.new [] rfl rfl
    simpa using this

example : clean [.custom "x", .writeEntry, .logCustom 1 2] = true ∧ clean [.writeEntry, .custom "x"] = false := by decide

/-! ## 7. Sessions at bgp-in / bmp-in: message-locality -/

theorem runMsgs_fold (v : Variant) (h : v.perMsg = true) (calls : List (Bmp × List Op))
    (s : Stream) (acc : List (List Out)) :
    ((calls.foldl (fun (acc : Stream × List (List Out)) c =>
        let s := run v c.1 c.2 (if v.perMsg then Stream.new else acc.1)
        ({ s with msgs := [] }, acc.2 ++ [s.msgs])) (s, acc)).2) =
    acc ++ calls.map fun c => runFresh v c.1 c.2 := by
  induction calls generalizing s acc with
  | nil => simp
  | cons c r ih =>
    simp only [List.foldl_cons]
    rw [ih]
    simp [h, runFresh]

/-- with one stream per message the loop over a session is the per-message call, message by message -/
theorem runMsgs_perMsg (v : Variant) (h : v.perMsg = true) (calls : List (Bmp × List Op)) :
    runMsgs v calls = calls.map fun c => runFresh v c.1 c.2 := by
  unfold runMsgs
  rw [runMsgs_fold v h]; rfl

/-- **message-locality**: for every session and every script the outputs of message `k` are the
    outputs of one filter call on message `k` with a new stream -/
theorem RM_session_local (v : Variant) (h : v.perMsg = true) (tag : Nat) (a b : List Op) (msgs : List Bmp) :
    runSession v tag a b msgs = msgs.map fun m => runFresh v m (branch tag a b m) := by
  unfold runSession
  rw [runMsgs_perMsg v h, List.map_map]; rfl

/-- … hence a function of message `k` alone: whatever else the two sessions contain -/
theorem RM_session_message_alone (v : Variant) (h : v.perMsg = true) (tag : Nat) (a b : List Op)
    (m1 m2 : List Bmp) (k : Nat) (hk : m1[k]? = m2[k]?) :
    (runSession v tag a b m1)[k]? = (runSession v tag a b m2)[k]? := by
  rw [RM_session_local v h, RM_session_local v h, List.getElem?_map, List.getElem?_map, hk]

example : (runSession .asWritten 64999 [.custom "x"] [.writeEntry]
      [bgpMsg { Upd.empty with aspath := some [⟨.seq, [64999]⟩] }, bgpMsg Upd.empty])
    = [[], [.entry Entry.new]] := by decide

/-- per-message exactness over a whole session (repaired `take_entry`) -/
theorem RM_session_exact (v : Variant) (h1 : v.perMsg = true) (h2 : v.freshTs = true)
    (tag : Nat) (a b : List Op) (msgs : List Bmp) :
    runSession v tag a b msgs = msgs.map fun m => specRun m (branch tag a b m) Entry.new := by
  rw [RM_session_local v h1]
  congr 1; funext m
  exact RM_entries_repaired v h2 m _

/-- as written (any `take_entry`): exact modulo the timestamp -/
theorem RM_session_partial (v : Variant) (h1 : v.perMsg = true) (tag : Nat) (a b : List Op) (msgs : List Bmp) :
    (runSession v tag a b msgs).map (·.map Out.noTs) =
    msgs.map fun m => (specRun m (branch tag a b m) Entry.new).map Out.noTs := by
  rw [RM_session_local v h1, List.map_map]
  congr 1; funext m
  exact RM_entries_partial v m _

/-- a stream hoisted out of the per-message scope breaks locality: the text the script composes
    for a tagged message (and does not write) is written for the next, untagged one -/
theorem RM_session_hoisted_counterexample :
    runSession { Variant.repaired with perMsg := false } 64999 [.custom "x"] [.writeEntry]
      [bgpMsg { Upd.empty with aspath := some [⟨.seq, [64999]⟩] }, bgpMsg Upd.empty]
    = [[], [.entry { Entry.new with custom := some "x" }]] ∧
    runSession Variant.repaired 64999 [.custom "x"] [.writeEntry]
      [bgpMsg { Upd.empty with aspath := some [⟨.seq, [64999]⟩] }, bgpMsg Upd.empty]
    = [[], [.entry Entry.new]] := by decide

end Rotonda.RotoMethods
