import RotondaModel.Proofs.RotoMethods
/-!
# RotoMethods — the roto-callable methods mean what they say (C10, and C17 for `LogEntry`)

Statements only; helper lemmas are in `Proofs/RotoMethods.lean`, the model in
`Model/RotoMethods.lean`. Every theorem is followed by a non-vacuity `example`.
-/
namespace Rotonda.RotoMethods

/-! ## 1. NLRI counts -/

/-- `announcements_count` is the number of announced NLRI over the conventional field and
    MP_REACH_NLRI, for every UPDATE (saturating at `u32::MAX`, which a 4096-byte PDU cannot reach) -/
theorem RM_announcements_count (u : Upd) :
    announcementsCount u = min (u.reach.length + (mpNlri u.mpReach).length) u32Max := by
  simp only [announcementsCount, announcements, sat32, List.length_append]
  split <;> omega

theorem RM_announcements_count_exact (u : Upd)
    (h : u.reach.length + (mpNlri u.mpReach).length ≤ u32Max) :
    announcementsCount u = u.reach.length + (mpNlri u.mpReach).length := by
  rw [RM_announcements_count]; omega

example : announcementsCount ⟨none, none, none, 0, [1, 2], [3], some ⟨2, [4, 5, 6]⟩, none⟩ = 5 := by decide

/-- `withdrawals_count` likewise over withdrawn routes and MP_UNREACH_NLRI -/
theorem RM_withdrawals_count (u : Upd) :
    withdrawalsCount u = min (u.unreach.length + (mpNlri u.mpUnreach).length) u32Max := by
  simp only [withdrawalsCount, withdrawals, sat32, List.length_append]
  split <;> omega

theorem RM_withdrawals_count_exact (u : Upd)
    (h : u.unreach.length + (mpNlri u.mpUnreach).length ≤ u32Max) :
    withdrawalsCount u = u.unreach.length + (mpNlri u.mpUnreach).length := by
  rw [RM_withdrawals_count]; omega

example : withdrawalsCount ⟨none, none, none, 0, [1, 2], [3], none, some ⟨2, [7, 8]⟩⟩ = 3 := by decide

/-- the counts never mix the two directions: announcing does not change `withdrawals_count` -/
theorem RM_counts_independent (u : Upd) (r : List Nat) (m : Option Mp) :
    withdrawalsCount { u with reach := r, mpReach := m } = withdrawalsCount u ∧
    announcementsCount { u with unreach := r, mpUnreach := m } = announcementsCount u := by
  simp [withdrawalsCount, withdrawals, announcementsCount, announcements]

example : withdrawalsCount { Upd.empty with reach := [1], mpReach := some ⟨0, [2]⟩ } = 0 := by decide

/-- End-of-RIB (empty UPDATE, or only an empty MP_UNREACH): both counts are 0 -/
theorem RM_counts_eor (f : Nat) :
    announcementsCount Upd.empty = 0 ∧ withdrawalsCount Upd.empty = 0 ∧
    withdrawalsCount { Upd.empty with mpUnreach := some ⟨f, []⟩ } = 0 := by
  simp [announcementsCount, withdrawalsCount, announcements, withdrawals, mpNlri, Upd.empty, sat32]

/-! ## 2. AS_PATH readings agree with the segments, for every segment structure -/

/-- hop count: every ASN of a non-empty AS_SEQUENCE is one hop; an AS_SET, a confederation
    segment and an empty AS_SEQUENCE are one hop each -/
theorem RM_hopCount (p : List Seg) : hopCount p = (p.map segHopCount).sum := by
  induction p with
  | nil => rfl
  | cons s t ih => rw [hopCount_cons, ih]; simp

example : hopCount [⟨.seq, [65000, 200]⟩, ⟨.set, [1, 2, 3]⟩, ⟨.confSeq, [64512, 64513]⟩] = 4 := by decide

/-- `aspath_contains(a)` ⇔ `a` is a member of some AS_SEQUENCE segment (never of a set or a
    confederation segment), at any position and for any number of segments -/
theorem RM_aspath_contains (u : Upd) (a : Nat) :
    aspathContains u a = true ↔ ∃ p, u.aspath = some p ∧ ∃ s ∈ p, s.kind = .seq ∧ a ∈ s.asns := by
  unfold aspathContains
  cases h : u.aspath with
  | none => simp
  | some p =>
    simp only [List.any_eq_true, beq_iff_eq, Option.some.injEq, exists_eq_left']
    rw [← asn_mem_hops]
    constructor
    · rintro ⟨x, hx, rfl⟩; exact hx
    · intro hx; exact ⟨_, hx, rfl⟩

example : aspathContains ⟨some [⟨.seq, [1]⟩, ⟨.set, [7]⟩, ⟨.seq, [200]⟩], none, none, 0, [], [], none, none⟩ 200 = true
    ∧ aspathContains ⟨some [⟨.seq, [1]⟩, ⟨.set, [7]⟩], none, none, 0, [], [], none, none⟩ 7 = false := by decide

/-- the origin is decided by the LAST segment alone: its last ASN if it is an AS_SEQUENCE,
    nothing otherwise (AS_SET / confederation segment / empty sequence last) -/
theorem RM_origin_last_segment (p : List Seg) (s : Seg) :
    originAsn (p ++ [s]) = if s.kind = .seq then s.asns.getLast? else none := by
  unfold originAsn
  rw [origin_snoc]
  by_cases h : s.whole
  · rw [segHops_whole s h]
    simp only [Seg.whole] at h
    by_cases hk : s.kind = .seq
    · have : s.asns = [] := by
        cases hl : s.asns with
        | nil => rfl
        | cons a r => exact absurd ⟨hk, by rw [hl]; simp⟩ h
      simp [hk, this]
    · simp [hk]
  · rw [segHops_not_whole s h]
    simp only [Seg.whole, Classical.not_not] at h
    simp only [h.1, if_true, List.getLast?_map]
    cases s.asns.getLast? <;> rfl

theorem RM_origin_empty : originAsn [] = none := rfl

example : originAsn ([⟨.set, [9]⟩] ++ [⟨.seq, [65000, 200]⟩]) = some 200 := by decide
example : originAsn ([⟨.seq, [65000, 200]⟩] ++ [⟨.set, [1, 2]⟩]) = none := by decide

/-- `match_aspath_origin(a)` ⇔ the origin ASN exists and is `a` -/
theorem RM_match_origin (u : Upd) (a : Nat) :
    matchOrigin u a = true ↔ ∃ p, u.aspath = some p ∧ originAsn p = some a := by
  unfold matchOrigin originAsn
  cases h : u.aspath with
  | none => simp
  | some p =>
    simp only [Option.some.injEq, exists_eq_left', beq_iff_eq]
    cases ho : origin p with
    | none => simp
    | some x => cases x <;> simp

/-- `fmt_aspath_origin` prints exactly the ASN `match_aspath_origin` accepts -/
theorem RM_fmt_origin_agrees (u : Upd) (a : Nat) (h : matchOrigin u a = true) :
    fmtOrigin u = showAsn a := by
  obtain ⟨p, hp, ho⟩ := (RM_match_origin u a).mp h
  simp [fmtOrigin, hp, fmtOriginP, ho]

example : matchOrigin ⟨some [⟨.seq, [65000, 200]⟩], none, none, 0, [], [], none, none⟩ 200 = true := by decide

/-! ## 3. `fmt_*` output reads back to the path / the community list -/

/-- reading a printed AS_PATH back: bare numbers are one AS_SEQUENCE -/
def AspOut.decode : AspOut → List Seg
  | .plain l => [⟨.seq, l⟩]
  | .segs l => l

/-- `fmt_aspath` loses nothing: the printed structure reads back to the segments -/
theorem RM_fmt_aspath_decode (p : List Seg) : (fmtAspathS p).decode = p := by
  unfold fmtAspathS
  match p with
  | [] => rfl
  | [⟨k, l⟩] => cases k <;> rfl
  | _ :: _ :: _ => simp [isSingleSeq, AspOut.decode]

/-- the bare-number form is used exactly for a single AS_SEQUENCE -/
theorem RM_fmt_aspath_plain_iff (p : List Seg) (l : List Nat) :
    fmtAspathS p = .plain l ↔ p = [⟨.seq, l⟩] := by
  constructor
  · intro h
    have := RM_fmt_aspath_decode p
    rw [h] at this
    exact this.symm
  · rintro rfl; rfl

example : (fmtAspathS [⟨.seq, [65000, 200]⟩]).render = "65000 200" := by decide
example : (fmtAspathS [⟨.seq, [65000]⟩, ⟨.set, [1, 2]⟩]).render = "AS_SEQUENCE(AS65000), AS_SET(AS1, AS2)" := by decide

/-- the rendered string does not tell an absent AS_PATH, an empty one and one empty AS_SEQUENCE apart -/
theorem RM_fmt_aspath_empty_ambiguous :
    fmtAspath { Upd.empty with aspath := none } = "" ∧
    fmtAspath { Upd.empty with aspath := some [] } = "" ∧
    fmtAspath { Upd.empty with aspath := some [⟨.seq, []⟩] } = "" := by decide

/-- a route (rib-in-pre) sees the same hops as the UPDATE it came from, whatever the segment
    structure and length (the HopPath is recomposed in AS_SEQUENCE chunks of at most 255) -/
theorem RM_route_hops (p : List Seg) : hops (routePath p) = hops p := hops_routePath p

theorem RM_route_fmt_hops (p : List Seg) : hops (fmtAspathS (routePath p)).decode = hops p := by
  rw [RM_fmt_aspath_decode, RM_route_hops]

example : routePath [⟨.seq, [1]⟩, ⟨.seq, [2]⟩, ⟨.set, [3]⟩] = [⟨.seq, [1, 2]⟩, ⟨.set, [3]⟩] := by
  simp [routePath, hops, segHops, recompose, spanAsn, seqChunks, chunksOf]

theorem routePath_two_seq : routePath [⟨.seq, [65000]⟩, ⟨.seq, [200]⟩] = [⟨.seq, [65000, 200]⟩] := by
  simp [routePath, hops, segHops, recompose, spanAsn, seqChunks, chunksOf]

/-- but not the same TEXT: adjacent AS_SEQUENCE segments print as segments at bgp-in / bmp-in and
    as bare numbers at rib-in-pre -/
theorem RM_route_fmt_differs :
    (fmtAspathS [⟨.seq, [65000]⟩, ⟨.seq, [200]⟩]).render = "AS_SEQUENCE(AS65000), AS_SEQUENCE(AS200)" ∧
    (fmtAspathS (routePath [⟨.seq, [65000]⟩, ⟨.seq, [200]⟩])).render = "65000 200" := by
  rw [routePath_two_seq]; decide

/-- reading one printed standard community back -/
def CommOut.decode : CommOut → Option Nat
  | .named n => wellknownValue n
  | .unrec l => some (0xFFFF0000 + l)
  | .pair a t => some (a * 65536 + t)

/-- every standard community value prints to something that reads back to it -/
theorem RM_fmt_comm_decode (c : Nat) : (fmtCommS c).decode = some c := by
  unfold fmtCommS
  split
  · rename_i h
    cases hn : wellknownName c with
    | some n => simp only [CommOut.decode]; exact wellknownName_value c n hn
    | none => simp only [CommOut.decode, Option.some.injEq]; omega
  · simp only [CommOut.decode, Option.some.injEq]; omega

theorem RM_fmt_communities_decode (l : List Nat) : (l.map fmtCommS).mapM CommOut.decode = some l := by
  induction l with
  | nil => rfl
  | cons c t ih => simp [List.mapM_cons, RM_fmt_comm_decode, ih]

example : fmtComm 0xFFFFFF01 = "NO_EXPORT" ∧ fmtComm 0xFFFF1234 = "0xFFFF1234" ∧ fmtComm 0xfde80001 = "AS65000:1"
    ∧ fmtComm 10 = "AS0:10" := by decide

/-- `contains_large_community` is membership in the LARGE_COMMUNITIES attribute -/
theorem RM_contains_large (u : Upd) (c : Large) :
    containsLarge u c = true ↔ ∃ l, u.lcomms = some l ∧ c ∈ l := by
  unfold containsLarge
  cases u.lcomms with
  | none => simp
  | some l =>
    simp only [List.any_eq_true, beq_iff_eq, Option.some.injEq, exists_eq_left']
    constructor
    · rintro ⟨x, hx, rfl⟩; exact hx
    · intro hx; exact ⟨_, hx, rfl⟩

example : containsLarge { Upd.empty with lcomms := some [⟨65000, 1, 2⟩] } ⟨65000, 1, 2⟩ = true := by decide

/-! ## 4. The three receivers -/

/-- on a BMP message that is not RouteMonitoring every method yields the neutral value -/
theorem RM_bmp_neutral (m : Bmp) (ql : Large) (qa : Nat) (h : m.kind ≠ .routeMon) :
    obsBmp m ql qa = Obs.neutral := by
  unfold obsBmp Bmp.view
  cases hk : m.kind <;> simp_all

example : obsBmp ⟨.peerDown, 65000, some { Upd.empty with reach := [1] }⟩ ⟨1, 1, 1⟩ 1 = Obs.neutral := by decide

/-- so does a RouteMonitoring whose PDU does not parse -/
theorem RM_bmp_unparsable (m : Bmp) (ql : Large) (qa : Nat) (h : m.upd = none) :
    obsBmp m ql qa = Obs.neutral := by
  unfold obsBmp Bmp.view
  cases hk : m.kind <;> simp_all

/-- a RouteMonitoring answers exactly as the encapsulated UPDATE would at bgp-in -/
theorem RM_bmp_is_bgp (m : Bmp) (u : Upd) (ql : Large) (qa : Nat)
    (hk : m.kind = .routeMon) (hu : m.upd = some u) : obsBmp m ql qa = obsBgp u ql qa := by
  simp [obsBmp, Bmp.view, hk, hu, obsBgp]

example : (obsBmp ⟨.routeMon, 1, some { Upd.empty with reach := [1, 2] }⟩ ⟨1, 1, 1⟩ 1).annCount = 2 := by decide

/-- a withdrawn route (empty attribute map) yields the neutral value -/
theorem RM_route_withdrawal (ql : Large) (qa : Nat) : obsRoute ⟨none⟩ ql qa = Obs.neutral := rfl

theorem originAsn_routePath (p : List Seg) : originAsn (routePath p) = originAsn p := by
  simp [originAsn, origin, RM_route_hops]

/-- an announced route answers as its UPDATE does at bgp-in, for everything but the TEXT of
    `fmt_aspath` (see `RM_route_fmt_differs`; its hops agree by `RM_route_fmt_hops`) -/
theorem RM_route_agrees_bgp (u : Upd) (ql : Large) (qa : Nat) :
    (obsRoute ⟨some u⟩ ql qa).origin = (obsBgp u ql qa).origin ∧
    (obsRoute ⟨some u⟩ ql qa).comms = (obsBgp u ql qa).comms ∧
    (obsRoute ⟨some u⟩ ql qa).lcomms = (obsBgp u ql qa).lcomms ∧
    (obsRoute ⟨some u⟩ ql qa).hasLarge = (obsBgp u ql qa).hasLarge ∧
    (obsRoute ⟨some u⟩ ql qa).hasAsn = (obsBgp u ql qa).hasAsn ∧
    (obsRoute ⟨some u⟩ ql qa).originIs = (obsBgp u ql qa).originIs := by
  simp only [obsRoute, Route.view, Option.map_some, obsBgp, obsUpd, fmtOrigin, fmtCommunities,
    fmtLargeCommunities, containsLarge, aspathContains, matchOrigin]
  cases u.aspath with
  | none => simp
  | some p => simp [fmtOriginP, originAsn_routePath, RM_route_hops, origin]

example : (obsRoute ⟨some { Upd.empty with aspath := some [⟨.seq, [1]⟩, ⟨.seq, [2]⟩] }⟩ ⟨1, 1, 1⟩ 2).originIs = true := by
  rw [(RM_route_agrees_bgp _ _ _).2.2.2.2.2]; decide

end Rotonda.RotoMethods
