import RotondaModel.Proofs.HttpPages
import RotondaModel.Props.C19
/-!
HttpPages — the endpoints C12 and C19 left outside their models, with routers connected.
All theorems are over every world (router set, peer tables, strings of any length), every request.
-/
namespace Rotonda.HttpPages
open Rotonda.Http (Bytes startsWith stripPrefix Param getParam)
open Rotonda.Escape
open Rotonda.Escape.Generated
open Rotonda.HttpPages.Generated

/-! ## C19: no router-supplied string changes a page's skeleton -/

theorem info_body_openHoles : openHoles routerInfo_build_response_body_29 = ["error_report", "peer_report"] := by decide

theorem info_body_skeleton (v v' : InfoView) (hp : v.peers = v'.peers) (hr : v.ribs = v'.ribs) :
  skeleton (render routerInfo_build_response_body_29 (envOf
      [("sys_name", v.sysName), ("sys_desc", v.sysDesc), ("sys_extra", Escape.joinBar v.extra),
       ("error_report", []), ("peer_report", peerReport v)])) =
  skeleton (render routerInfo_build_response_body_29 (envOf
      [("sys_name", v'.sysName), ("sys_desc", v'.sysDesc), ("sys_extra", Escape.joinBar v'.extra),
       ("error_report", []), ("peer_report", peerReport v')])) := by
  apply skeleton_render_congr'
  intro e he
  rw [info_body_openHoles] at he
  simp only [List.mem_cons, List.not_mem_nil, or_false] at he
  rcases he with rfl | rfl
  · simp [envOf, List.find?]
  · simp [envOf, List.find?]
    exact skeleton_peerReport v v' hp hr

/-- **Router page.** Two views with the same peer table shape (per row: no block / flags block /
    prefixes block with n lines) and the same number of RIB resources give pages with the same
    skeleton — whatever sysName, sysDescr, the information strings and the request-derived base path are. -/
theorem HP_info_skeleton (v v' : InfoView) (hp : v.peers = v'.peers) (hr : v.ribs = v'.ribs) :
    skeleton (infoPage v) = skeleton (infoPage v') := by
  unfold infoPage
  simp only [skeleton_append, info_body_skeleton v v' hp hr]

example : skeleton (infoPage ⟨"/routers/<zq>".toList, "<script>".toList, "'\"".toList, ["</pre>".toList], some [.none, .flags, .prefixes 2], 1⟩)
    = skeleton (infoPage ⟨[], [], [], [], some [.none, .flags, .prefixes 2], 1⟩) :=
  HP_info_skeleton _ _ rfl rfl

/-- **Tracing page** (`/status/graph/traces/<n>`), whatever class the extractor finds for the message
    hole: messages free of structural characters leave the page's skeleton that of a page with as many
    empty messages. -/
theorem HP_graph_skeleton_partial (msgs : List (List Char)) (h : ∀ m ∈ msgs, skeleton m = []) :
    skeleton (graphPageText (some msgs)) = skeleton (graphPageText (some (msgs.map fun _ => []))) := by
  have hrow : ∀ m : List Char, skeleton m = [] → skeleton (traceRow m) = skeleton (traceRow []) := by
    intro m hm
    apply skeleton_render_congr'
    intro e _
    rw [envOf_single, envOf_single]
    split <;> simp [hm, skeleton_nil]
  have htab : skeleton (tracesTable msgs) = skeleton (tracesTable (msgs.map fun _ => [])) := by
    simp only [tracesTable, skeleton_append, skeleton_flatMap, List.flatMap_map]
    congr 2
    induction msgs with
    | nil => rfl
    | cons m ms ih =>
      simp only [List.flatMap_cons]
      rw [hrow m (h m List.mem_cons_self), ih (fun m' hm' => h m' (List.mem_cons_of_mem _ hm'))]
  unfold graphPageText
  apply skeleton_render_congr'
  intro e _
  rw [envOf_single, envOf_single]
  split
  · exact htab
  · rfl

/-- The guard is necessary as long as the extractor classifies the message hole `raw`: the one-character
    message `<` changes the row's skeleton (vacuous once the hole is escaped). -/
theorem HP_trace_raw_counterexample : ∀ e sl why, Seg.hole e .raw sl why ∈ graphTracesRow →
    ∃ inp : Env, (∀ e', e' ≠ e → inp e' = []) ∧ skeleton (render graphTracesRow inp) ≠ skeleton (lits graphTracesRow) :=
  fun e sl why h => C19_raw_breaks graphTracesRow e sl why h

/-- The full claim for the tracing page: no raw hole in its templates. False on a tree that interpolates
    `msg.msg` as it is (what reaches it is rotonda's own hex dump of the message: not listed as a finding). -/
def HP_graph_templates_full : Prop := ∀ nt ∈ HttpPages.Generated.templates, rawHoles nt.2 = []
instance : Decidable HP_graph_templates_full := by unfold HP_graph_templates_full; exact inferInstance

/-- Strings blanked: what is left of a page is its shape. -/
def Page.blank : Page → Page
  | .info v => .info { v with base := [], sysName := [], sysDesc := [], extra := [] }
  | .list rows => .list (rows.map (Option.map fun _ => ([], [])))
  | .graph msgs => .graph (msgs.map (List.map fun _ => []))
  | .json => .json
  | .text => .text

/-- Trace messages without structural characters (everything else needs no guard). -/
def Page.calm : Page → Prop
  | .graph (some msgs) => ∀ m ∈ msgs, skeleton m = []
  | _ => True

/-- **Every page**: its skeleton is the skeleton of its blanked shape. -/
theorem HP_page_skeleton (p : Page) (h : p.calm) : skeleton p.render = skeleton p.blank.render := by
  cases p with
  | info v => exact HP_info_skeleton _ _ rfl rfl
  | list rows =>
    apply C19_router_list_page
    rw [List.map_map]
    apply List.map_congr_left
    intro r _
    cases r <;> rfl
  | graph msgs =>
    cases msgs with
    | none => rfl
    | some ms => exact HP_graph_skeleton_partial ms h
  | json => rfl
  | text => rfl

/-- … in particular every page `respond` returns, for every request and every world. -/
theorem HP_respond_skeleton (v : Variant) (d : Http.Deps) (w : World) (req : Http.Req) (r : Resp)
    (_ : respond v d w req = .resp r) (hc : r.page.calm) :
    skeleton r.page.render = skeleton r.page.blank.render :=
  HP_page_skeleton r.page hc

/-! ## C12: one response with a documented status, 4xx for unknown routers / malformed parameters -/

theorem HP_non_get_405 (v : Variant) (d : Http.Deps) (w : World) (req : Http.Req) (h : req.method = .other) :
    respond v d w req = .resp ⟨405, .text, []⟩ := by
  simp [respond, h]

theorem process_ok (v : Variant) (d : Http.Deps) (w : World) (raw dec : Bytes) (ps : List Param) :
    (process v d w raw dec ps).ok v.listSlice := by
  unfold process
  exact orElse_ok _ _ _ (firstInfo_ok _ w dec _) (orElse_ok _ _ _ (tracerProc_ok _ dec)
    (orElse_ok _ _ _ (graphProc_ok _ w dec) (orElse_ok _ _ _ (listProc_ok v w dec ps) (ribProc_ok _ d w raw dec ps))))

theorem process_ok_guarded (v : Variant) (d : Http.Deps) (w : World) (raw dec : Bytes) (ps : List Param)
    (hg : v.listSlice = false ∨ ∀ r ∈ w.routers, r.sliceOk = true) : (process v d w raw dec ps).ok false := by
  unfold process
  exact orElse_ok _ _ _ (firstInfo_ok _ w dec _) (orElse_ok _ _ _ (tracerProc_ok _ dec)
    (orElse_ok _ _ _ (graphProc_ok _ w dec) (orElse_ok _ _ _ (listProc_ok_guarded v w dec ps hg) (ribProc_ok _ d w raw dec ps))))

/-- **Documented statuses.** Whenever the handler answers, for any variant, world and request, the
    status is one of 200, 400, 404, 405. -/
theorem HP_status_documented (v : Variant) (d : Http.Deps) (w : World) (req : Http.Req) (r : Resp)
    (h : respond v d w req = .resp r) : r.status = 200 ∨ r.status = 400 ∨ r.status = 404 ∨ r.status = 405 := by
  cases hm : req.method with
  | other =>
    rw [HP_non_get_405 v d w req hm] at h
    cases h; simp
  | get =>
    simp only [respond, hm] at h
    split at h
    · cases h; simp
    · have hok := process_ok v d w req.path (Http.decodedPath req.path) (queryParams req)
      split at h
      · cases h; simp
      · rename_i r' hp
        cases h
        rw [hp] at hok
        rcases hok with h | h <;> simp [h]
      · cases h

/-- **One well-formed answer, no panic**, for every request and world: with the list slice repaired,
    or — code as written — while no connected router's escaped sysName / sysDescr is cut inside a character. -/
theorem HP_answers (v : Variant) (d : Http.Deps) (w : World) (req : Http.Req)
    (hg : v.listSlice = false ∨ ∀ r ∈ w.routers, r.sliceOk = true) :
    ∃ r, respond v d w req = .resp r := by
  unfold respond
  cases hm : req.method with
  | other => exact ⟨_, rfl⟩
  | get =>
    simp only
    split
    · exact ⟨_, rfl⟩
    · have hok := process_ok_guarded v d w req.path (Http.decodedPath req.path) (queryParams req) hg
      cases hp : process v d w req.path (Http.decodedPath req.path) (queryParams req) with
      | none => exact ⟨_, rfl⟩
      | resp r' => exact ⟨_, rfl⟩
      | panic s => rw [hp] at hok; simp [PR.ok] at hok

theorem HP_no_panic_repaired (d : Http.Deps) (w : World) (req : Http.Req) : ∃ r, respond repaired d w req = .resp r :=
  HP_answers repaired d w req (Or.inl rfl)

theorem HP_no_panic_partial (d : Http.Deps) (w : World) (req : Http.Req) (hg : ∀ r ∈ w.routers, r.sliceOk = true) :
    ∃ r, respond asWritten d w req = .resp r :=
  HP_answers asWritten d w req (Or.inr hg)

/-- the full claim: the handler as written never panics -/
def HP_no_panic_full : Prop := ∀ (d : Http.Deps) (w : World) (req : Http.Req), ∃ r, respond asWritten d w req = .resp r

def depsNone : Http.Deps := { pfx := fun _ => .err, asn := fun _ => .err, community := fun _ => .err, fs := fun _ => .missing }

/-- one connected router whose sysName is sixty `a` and `é`: byte 61 of the escaped text is inside `é` -/
def witnessWorld : World :=
  { api := [47, 114, 111, 117, 116, 101, 114, 115, 47],
    routers := [{ id := 3, addr := [49], routerId := [51], tlvs := some ⟨List.replicate 60 97 ++ [195, 169], [100], []⟩, peers := [], sortVals := [] }],
    ribBase := [47, 112, 47], v4min := 8, v6min := 19, ribs := 1, traces := [] }

def witnessReq : Http.Req := { method := .get, path := [47, 114, 111, 117, 116, 101, 114, 115, 47], query := none, acceptEnc := none }

/-- **Counterexample**: `GET /routers/` while that router is connected panics the handler as written … -/
theorem HP_list_slice_counterexample : respond asWritten depsNone witnessWorld witnessReq = .panic .listSlice := by
  decide

/-- … and is answered by the repaired slice. -/
theorem HP_list_slice_repaired : ∃ r, respond repaired depsNone witnessWorld witnessReq = .resp r ∧ r.status = 200 := by
  refine ⟨_, rfl, ?_⟩
  decide

theorem HP_no_panic_counterexample : ¬ HP_no_panic_full := by
  intro h
  obtain ⟨r, hr⟩ := h depsNone witnessWorld witnessReq
  rw [HP_list_slice_counterexample] at hr
  cases hr

example : ∀ r ∈ ({ witnessWorld with routers := [{ id := 3, addr := [49], routerId := [51], tlvs := some ⟨[60, 122, 113, 62], [39], []⟩, peers := [], sortVals := [] }] } : World).routers,
    r.sliceOk = true := by decide

/-- **Unknown router ⇒ 404**: a GET below the unit's path whose router token no connected router answers
    to (by ingress id, router id, sysName or address), outside the other processors' paths. -/
theorem HP_unknown_router_404 (v : Variant) (d : Http.Deps) (w : World) (req : Http.Req) (tok : Bytes)
    (hm : req.method = .get) (hdec : Http.decodedPath req.path = w.api ++ tok) (htok : tok ≠ [])
    (hnone : ∀ r ∈ w.routers, r.answersTo (splitFocus tok).1 = false)
    (hfixed : ¬ (w.api ++ tok = Http.sMetrics ∨ w.api ++ tok = Http.sStatus))
    (htr : w.api ++ tok ≠ Http.sTracer) (hgr : startsWith (w.api ++ tok) Http.sGraph = false)
    (hrib : stripPrefix (w.api ++ tok) w.ribBase = none) :
    respond v d w req = .resp ⟨404, .text, []⟩ := by
  have hinfo : ∀ rs : List Router, (∀ r ∈ rs, r ∈ w.routers) → firstInfo w (w.api ++ tok) rs = .none := by
    intro rs
    induction rs with
    | nil => intro _; rfl
    | cons r rest ih =>
      intro hall
      have hr := hnone r (hall r List.mem_cons_self)
      have : infoProc w r (w.api ++ tok) = .none := by
        unfold infoProc
        by_cases h1 : startsWith (w.api ++ tok) w.api = true
        · simp [h1, hr]
        · simp [h1]
      unfold firstInfo
      rw [this]
      exact ih (fun r' hr' => hall r' (List.mem_cons_of_mem _ hr'))
  have hlist : ∀ ps, listProc v w (w.api ++ tok) ps = .none := by
    intro ps
    unfold listProc
    have : w.api ++ tok ≠ w.api := by
      intro h
      exact htok (List.append_right_eq_self.mp h)
    simp [this]
  have hribp : ∀ ps, ribProc d w req.path (w.api ++ tok) ps = .none := by
    intro ps
    unfold ribProc Http.ribProc
    simp [hrib]
  simp only [respond, hm, hdec]
  have hf : (decide (w.api ++ tok = Http.sMetrics) || decide (w.api ++ tok = Http.sStatus)) = false := by
    simp only [Bool.or_eq_false_iff, decide_eq_false_iff_not]
    exact ⟨fun h => hfixed (Or.inl h), fun h => hfixed (Or.inr h)⟩
  simp only [hf]
  unfold process
  rw [hinfo _ (fun r hr => List.mem_reverse.mp hr)]
  simp [orElse, tracerProc, htr, graphProc, hgr, hlist, hribp]

/-- **Malformed sort parameter ⇒ 400**: the unit's path itself (not shadowed by the manager's processors)
    with a `sort_by` / `sort_order` value `sort_routers` rejects. -/
theorem HP_bad_sort_400 (v : Variant) (d : Http.Deps) (w : World) (req : Http.Req)
    (hm : req.method = .get) (hdec : Http.decodedPath req.path = w.api)
    (hfixed : ¬ (w.api = Http.sMetrics ∨ w.api = Http.sStatus))
    (htr : w.api ≠ Http.sTracer) (hgr : startsWith w.api Http.sGraph = false)
    (hbad : sortRouters w (queryParams req) = none) :
    respond v d w req = .resp ⟨400, .text, []⟩ := by
  have hinfo : ∀ rs : List Router, firstInfo w w.api rs = .none := by
    intro rs
    induction rs with
    | nil => rfl
    | cons r rest ih =>
      have : infoProc w r w.api = .none := by
        unfold infoProc
        by_cases h1 : startsWith w.api w.api = true <;> simp [h1]
      unfold firstInfo
      rw [this]
      exact ih
  simp only [respond, hm, hdec]
  have hf : (decide (w.api = Http.sMetrics) || decide (w.api = Http.sStatus)) = false := by
    simp only [Bool.or_eq_false_iff, decide_eq_false_iff_not]
    exact ⟨fun h => hfixed (Or.inl h), fun h => hfixed (Or.inr h)⟩
  simp only [hf]
  unfold process
  rw [hinfo]
  simp [orElse, tracerProc, htr, graphProc, hgr, listProc, hbad]

/-- what `sort_routers` rejects, declaratively -/
theorem sortRouters_none_iff (w : World) (ps : List Param) :
    sortRouters w ps = none ↔
      (∃ m, getParam Http.sSortBy ps = some m ∧ m.value ≠ sAddr ∧ m.value ≠ sSysName ∧ m.value ≠ sSysDesc ∧ numericIdx m.value = none)
      ∨ (∃ m, getParam Http.sSortOrder ps = some m ∧ m.value ≠ Http.sAsc ∧ m.value ≠ Http.sDesc) := by
  unfold sortRouters sortKeys applyOrder
  cases h1 : getParam Http.sSortBy ps <;> cases h2 : getParam Http.sSortOrder ps <;> simp
  all_goals (repeat' split) <;> simp_all

example : sortRouters witnessWorld (Http.parseQuery [115, 111, 114, 116, 95, 98, 121, 61, 120]) = none := by decide

end Rotonda.HttpPages
