import RotondaModel.Proofs.ReconfUnits
/-!
# ReconfUnits — C13's clause "components whose name and type are unchanged keep running with their state
# (RIB contents, established sessions) and adopt changed settings", for bgp-tcp-in and file-out
(also C17 "exactly once, in order" across a reload for file-out, C07 for sessions ended by a Reconfigure).
Model: `Model/ReconfUnits.lean`; lemmas and invariants: `Proofs/ReconfUnits.lean`.
-/
namespace Rotonda.ReconfUnits

/-! ## bgp-tcp-in -/
namespace Bgp

/-! ### (i) adopted -/

/-- Full clause: after a Reconfigure every session that is still up is one the new configuration would have
    set up the same way (entry for its address, AS admitted, same OPEN parameters). -/
def Bgp_adopted_full (v : Variant) : Prop :=
  ∀ (u : Unit) (new : Cfg), Inv v u → new.wf → ∀ s ∈ (reconf v u new).1.live, valid new s

/-- As written the clause is false: `protocols` of the session's entry changes, the session stays up with the
    capabilities of the old entry (`PartialEq for PeerConfig` does not look at `protocols` / `addpath`). -/
def cexPeer : Peer := ⟨.pfx 30 1, .many [], 30, 0, 0, 0⟩
def cexCfg : Cfg := ⟨0, 64999, 9, [cexPeer]⟩
def cexUnit : Unit := (conn (init cexCfg) 0 5 65001).1

theorem cexUnit_inv (v : Variant) : Inv v cexUnit :=
  conn_inv (inv_init (by decide)) 0 5 65001

theorem Bgp_adopted_counterexample_protocols : ¬ Bgp_adopted_full asWritten := by
  intro h
  have := validB_of_valid (h cexUnit { cexCfg with peers := [{ cexPeer with protos := 1 }] } (cexUnit_inv _) (by decide)
    ⟨0, 5, 65001, 1, .pfx 30 1, cexCfg, openOf cexCfg cexPeer⟩ (by decide))
  revert this
  decide

/-- … and: an exact entry for the session's address is added that admits another AS only; the session, looked
    up by the key it was accepted under, stays up. -/
theorem Bgp_adopted_counterexample_rematch : ¬ Bgp_adopted_full asWritten := by
  intro h
  have := validB_of_valid (h cexUnit { cexCfg with peers := [cexPeer, ⟨.exact 5, .one 65002, 60, 0, 0, 1⟩] } (cexUnit_inv _) (by decide)
    ⟨0, 5, 65001, 1, .pfx 30 1, cexCfg, openOf cexCfg cexPeer⟩ (by decide))
  revert this
  decide

/-- Guarded partial (any variant): if no other entry takes over the address of a live session and `protocols`
    / `addpath` of its entry are unchanged — exactly what the code as written ignores — every kept session is
    valid under the new configuration, and the unit's invariant holds again. -/
theorem Bgp_adopted_partial (v : Variant) (u : Unit) (new : Cfg) (hi : Inv v u) (hw : new.wf)
    (hgm : guardMatch v u new) (hge : guardEq v u new) :
    (∀ s ∈ (reconf v u new).1.live, valid new s) ∧ Inv v (reconf v u new).1 :=
  ⟨fun s hs => ((reconf_inv hi hw hgm hge).2.2 s hs).valid, reconf_inv hi hw hgm hge⟩

example : guardMatch asWritten cexUnit { cexCfg with listen := 1 } ∧ guardEq asWritten cexUnit { cexCfg with listen := 1 } := by
  constructor <;> (right; decide)

/-- Repaired (`bgpmatch`, `bgpeq`): the full clause. -/
theorem Bgp_adopted_repaired (v : Variant) (hm : v.bgpmatch = .repaired) (he : v.bgpeq = .repaired) :
    Bgp_adopted_full v :=
  fun u new hi hw => (Bgp_adopted_partial v u new hi hw (Or.inl hm) (Or.inl he)).1

example : ∃ s ∈ (reconf repaired cexUnit { cexCfg with listen := 1 }).1.live, s.addr = 5 := by decide

/-- The unit's own part, every variant: the new configuration is the one every later connection is judged by,
    and the listener is bound to the new address. -/
theorem Bgp_unit_adopts (v : Variant) (u : Unit) (new : Cfg) :
    (reconf v u new).1.cfg = new ∧ (reconf v u new).1.bound = new.listen := ⟨rfl, rfl⟩

/-- A connection is judged by the configuration in force: not to the bound address ⇒ refused; no entry ⇒
    dropped; otherwise a negotiated session announces exactly what that configuration says. -/
theorem Bgp_conn_judged_by_current (u : Unit) (port a ras : Nat) :
    (port ≠ u.bound → (conn u port a ras).2 = .refused) ∧
    (port = u.bound → get u.cfg.peers a = none → (conn u port a ras).2 = .nocfg) ∧
    (∀ id op, (conn u port a ras).2 = .neg id op →
      ∃ p, get u.cfg.peers a = some p ∧ p.asns.accepts ras = true ∧ op = openOf u.cfg p ∧ port = u.bound) := by
  refine ⟨fun h => by simp [conn, h], fun h hn => by simp [conn, h, hn], ?_⟩
  intro id op h
  unfold conn at h
  split at h
  · cases h
  · rename_i hp
    split at h
    · cases h
    · rename_i p hg
      split at h
      · cases h
      · rename_i hacc
        split at h
        · cases h
        · simp only [Out.neg.injEq] at h
          exact ⟨p, hg, by simpa using hacc, h.2.symm, by simpa using hp⟩

/-- **History level** (every variant): along every good history — for the repaired variant: every history whose
    configurations have unique keys — the invariant holds: every live session is valid under the configuration
    in force, the listener is bound to its `listen`. -/
theorem Bgp_adopted_history (v : Variant) (c0 : Cfg) (es : List Ev) (hw : c0.wf) (hg : Good v (init c0) es) :
    let u := run v (init c0) es
    (∀ s ∈ u.live, valid u.cfg s) ∧ u.bound = u.cfg.listen ∧ u.cfg.wf := by
  have := inv_run (inv_init (v := v) hw) hg
  exact ⟨fun s hs => (this.2.2 s hs).valid, this.2.1, this.1⟩

theorem Bgp_adopted_history_repaired (c0 : Cfg) (es : List Ev) (hw : c0.wf) (hes : ∀ c, Ev.reconf c ∈ es → c.wf) :
    let u := run repaired (init c0) es
    (∀ s ∈ u.live, valid u.cfg s) ∧ u.bound = u.cfg.listen ∧ u.cfg.wf :=
  Bgp_adopted_history repaired c0 es hw (good_repaired rfl rfl _ _ hes)

example : Good asWritten (init cexCfg) [.conn 0 5 65001, .upd 0, .reconf { cexCfg with peers := [{ cexPeer with hold := 60 }] }, .conn 0 6 65001] := by
  refine ⟨trivial, trivial, ⟨by decide, Or.inr (by decide), Or.inr (by decide)⟩, trivial, trivial⟩

/-! ### (ii) state is kept -/

/-- Full clause: a session nothing of which changed (`unconcerned`: same local AS / BGP id, same entry for its
    address up to `name`; `listen` is free) survives the Reconfigure. -/
def Bgp_unconcerned_kept_full (v : Variant) : Prop :=
  ∀ (u : Unit) (new : Cfg) (s : Sess), Inv v u → new.wf → s ∈ u.live → unconcerned u.cfg new s →
    s ∈ (reconf v u new).1.live ∧ ∀ f, (s.id, f) ∉ endedBy v new u.live

/-- As written it is false: only `listen` changes, every session is disconnected. -/
theorem Bgp_unconcerned_kept_counterexample : ¬ Bgp_unconcerned_kept_full asWritten := by
  intro h
  have := h cexUnit { cexCfg with listen := 1 } ⟨0, 5, 65001, 1, .pfx 30 1, cexCfg, openOf cexCfg cexPeer⟩
    (cexUnit_inv _) (by decide) (by decide) ⟨rfl, rfl, cexPeer, cexPeer, by decide, by decide, rfl, rfl, rfl, rfl, rfl⟩
  have h1 := this.1
  revert h1
  decide

theorem kept_of_fate {v : Variant} {u : Unit} {new : Cfg} {s : Sess} (hs : s ∈ u.live) (hk : fate v s new = .keep)
    (hid : ∀ t ∈ u.live, t.id = s.id → t = s) :
    s ∈ (reconf v u new).1.live ∧ ∀ f, (s.id, f) ∉ endedBy v new u.live := by
  refine ⟨by simp [reconf, kept, hs, hk], ?_⟩
  intro f hf
  simp only [endedBy, List.mem_map, List.mem_filter, Prod.mk.injEq] at hf
  obtain ⟨t, ⟨ht, hne⟩, hid', _⟩ := hf
  have := hid t ht hid'
  subst this
  simp [hk] at hne

/-- Guarded partial (any variant): with `listen` unchanged (or the `bgplisten` site repaired) an unconcerned
    session is kept (ids of live sessions are distinct: `Register::register` hands out fresh ids). -/
theorem Bgp_unconcerned_kept_partial (v : Variant) (u : Unit) (new : Cfg) (s : Sess) (hi : Inv v u) (hw : new.wf)
    (hs : s ∈ u.live) (hu : unconcerned u.cfg new s) (hl : v.bgplisten = .repaired ∨ new.listen = u.cfg.listen)
    (hid : ∀ t ∈ u.live, t.id = s.id → t = s) :
    s ∈ (reconf v u new).1.live ∧ ∀ f, (s.id, f) ∉ endedBy v new u.live :=
  kept_of_fate hs (fate_keep_of_unconcerned (hi.2.2 s hs) hw hu hl) hid

/-- (iii) A Reconfigure to the identical configuration is a no-op: same unit state, nothing ended (every variant). -/
theorem Bgp_identical_noop (v : Variant) (u : Unit) (hi : Inv v u) : reconf v u u.cfg = (u, .reconf []) := by
  have hk : ∀ s ∈ u.live, fate v s u.cfg = .keep := by
    intro s hs
    have hsi := hi.2.2 s hs
    obtain ⟨cur, p, _, _, _, _, _, _, hget, _⟩ := id hsi
    exact fate_keep_of_unconcerned hsi hi.1 ⟨rfl, rfl, p, p, hget, hget, rfl, rfl, rfl, rfl, rfl⟩ (Or.inr rfl)
  have h1 : kept v u.cfg u.live = u.live := by
    unfold kept
    exact List.filter_eq_self.mpr (fun s hs => by simp [hk s hs])
  have h2 : endedBy v u.cfg u.live = [] := by
    unfold endedBy
    have : u.live.filter (fun s => fate v s u.cfg != .keep) = [] :=
      List.filter_eq_nil_iff.mpr (fun s hs => by simp [hk s hs])
    rw [this]; rfl
  simp only [reconf, h1, h2, ← hi.2.1]

example : reconf asWritten cexUnit cexUnit.cfg = (cexUnit, .reconf []) := Bgp_identical_noop _ _ (cexUnit_inv _)

/-- C07 for sessions a Reconfigure ends (every variant, under the invariant): every live session is either kept
    unchanged or appears in the list of ended sessions (each of which gets `live_sessions.remove` and one
    `Update::Withdraw`), and the `expect("must exist")` is never reached. -/
theorem Bgp_reconf_cleanup (v : Variant) (u : Unit) (new : Cfg) (hi : Inv v u) :
    (∀ s ∈ u.live, (s ∈ (reconf v u new).1.live ∧ fate v s new = .keep) ∨
      (s ∉ (reconf v u new).1.live ∧ (s.id, fate v s new) ∈ endedBy v new u.live ∧ fate v s new ≠ .panic)) ∧
    (reconf v u new).1.live.length + (endedBy v new u.live).length = u.live.length := by
  constructor
  · intro s hs
    by_cases hk : fate v s new = .keep
    · left; exact ⟨by simp [reconf, kept, hs, hk], hk⟩
    · right
      refine ⟨by simp [reconf, kept, hk], ?_, fate_ne_panic (hi.2.2 s hs) new⟩
      simp only [endedBy, List.mem_map, List.mem_filter]
      exact ⟨s, ⟨hs, by simpa using hk⟩, rfl⟩
  · simp only [reconf, kept, endedBy, List.length_map]
    induction u.live with
    | nil => rfl
    | cons s t ih =>
      simp only [List.filter_cons]
      by_cases hk : fate v s new = .keep <;> simp [hk] <;> omega

end Bgp

/-! ## file-out -/
namespace FileOut

/-- Full clause (i)+(ii) and C17 across reloads: the lines written are exactly the reference output — every
    record once, in order, in the file and format of the configuration in force when it was emitted. -/
def FO_adopted_full (v : Variant) : Prop :=
  ∀ (c : Cfg) (es : List Ev), (run v (init c) es).log = spec c es

/-- As written it is false: one reload of the *unchanged* configuration and the next record is lost. -/
theorem FO_adopted_counterexample : ¬ FO_adopted_full asWritten := by
  intro h
  have := h ⟨.json, 0⟩ [.emit 1, .reload true ⟨.json, 0⟩, .emit 2]
  revert this
  decide

/-- As written, every history: what is on disk is the reference output of the history **up to the first
    reload** under the start configuration; `format`, `filename` and the new link are ignored, everything
    emitted afterwards is lost. -/
theorem FO_asWritten_log (c : Cfg) (es : List Ev) :
    (run asWritten (init c) es).log = spec c (es.takeWhile (fun e => !isReload e)) := by
  simpa [init] using run_asWritten_log asWritten rfl (init c) rfl es

/-- Guarded partial: without a reload in the history the clause holds as written. -/
theorem FO_adopted_partial (c : Cfg) (es : List Ev) (h : ∀ e ∈ es, isReload e = false) :
    (run asWritten (init c) es).log = spec c es := by
  rw [FO_asWritten_log, takeWhile_no_reload es h]

example : (run asWritten (init ⟨.csv, 1⟩) [.emit 7, .pass, .emit 8]).log = [⟨1, .csv, 7⟩, ⟨1, .csv, 8⟩] := by decide

/-- Repaired: the full clause, for every history. -/
theorem FO_adopted_repaired : FO_adopted_full repaired := by
  intro c es
  simpa [init] using (run_repaired_log repaired rfl (init c) rfl es).1

example : (run repaired (init ⟨.json, 0⟩) [.emit 1, .reload false ⟨.csv, 1⟩, .emit 2]).log = [⟨0, .json, 1⟩, ⟨1, .csv, 2⟩] := by decide

/-- (ii) Written lines survive: whatever happens later (any variant, any state), what has been written stays a
    prefix of what is written — nothing is truncated, rewritten or reordered by a Reconfigure. -/
theorem FO_written_kept (v : Variant) (s : St) (es : List Ev) : s.log <+: (run v s es).log := by
  induction es generalizing s with
  | nil => exact List.prefix_refl _
  | cons e es ih => exact List.IsPrefix.trans (step_log_prefix v s e) (ih (step v s e))

/-- (iii) Full clause: a reload of the configuration in force changes nothing observable. -/
def FO_identical_noop_full (v : Variant) : Prop :=
  ∀ (c : Cfg) (es1 es2 : List Ev) (b : Bool),
    (run v (init c) (es1 ++ .reload b (cfgAfter c es1) :: es2)).log = (run v (init c) (es1 ++ es2)).log

theorem FO_identical_noop_counterexample : ¬ FO_identical_noop_full asWritten := by
  intro h
  have := h ⟨.json, 0⟩ [.emit 1] [.emit 2] true
  revert this
  decide

theorem FO_identical_noop_repaired : FO_identical_noop_full repaired := by
  intro c es1 es2 b
  rw [FO_adopted_repaired, FO_adopted_repaired, spec_append, spec_append]
  simp [spec]

/-- C17 across reloads, repaired: every emitted record exactly once, in emission order. -/
theorem FO_exactly_once_repaired (c : Cfg) (es : List Ev) :
    (run repaired (init c) es).log.map (·.r) = emitted es := by
  rw [FO_adopted_repaired, spec_records]

/-- … as written: exactly the records emitted before the first reload. -/
theorem FO_lost_after_reload_asWritten (c : Cfg) (es : List Ev) :
    (run asWritten (init c) es).log.map (·.r) = emitted (es.takeWhile (fun e => !isReload e)) := by
  rw [FO_asWritten_log, spec_records]

end FileOut

/-! ## filter -/
namespace Filter

/-- (i) one reload: the unit uses the new filter name and holds exactly the links of the new configuration. -/
theorem Filter_adopts (s : St) (c : Cfg) :
    (step s (.reload c)).name = c.name ∧ (step s (.reload c)).sources = c.sources.map (·, s.gen + 1) ∧
      ∀ u t, ((step (step s (.reload c)) (.eos u t)).out = s.out ++ [t] ↔ c.sources.contains u = true) := by
  refine ⟨rfl, rfl, ?_⟩
  intro u t
  by_cases h : u ∈ c.sources <;> simp [step, h]

/-- (i)+(ii), every history of notices and reloads: what is passed on is the reference output — a notice is
    passed on iff its upstream is a source of the configuration in force, in order, once; the filter name is
    that of the last load. No site of the filter unit deviates: no variant. -/
theorem Filter_history (c : Cfg) (es : List Ev) :
    (run (init c) es).out = spec c es ∧ (run (init c) es).name = (cfgAfter c es).name := by
  have := run_spec c (init c) ⟨rfl, rfl⟩ es
  exact ⟨by simpa [init] using this.1, this.2.2⟩

example : (run (init ⟨1, [0, 1]⟩) [.eos 0 5, .eos 2 6, .reload ⟨2, [1, 2]⟩, .eos 0 7, .eos 2 8]).out = [5, 8] := by decide

/-- (iii) a reload of the configuration in force changes nothing that is passed on. -/
theorem Filter_identical_noop (c : Cfg) (es1 es2 : List Ev) :
    (run (init c) (es1 ++ .reload (cfgAfter c es1) :: es2)).out = (run (init c) (es1 ++ es2)).out := by
  rw [(Filter_history c _).1, (Filter_history c _).1, spec_append, spec_append]
  simp [spec]

end Filter

/-! ## null-out -/
namespace NullOut

/-- After every history of reports and reloads the target's links are those of the last load (or of the start
    configuration), all pointing at the gates of that load; a report shows exactly these. -/
theorem Null_sources_history (srcs : List Nat) (es : List Ev) :
    (run (init srcs) es).sources = (lastSources srcs es).map (·, loads es) := by
  have := (run_sources srcs (init srcs) rfl es).1
  simpa [init] using this

example : (run (init [0, 2]) [.report, .reload [1], .report]).sources = [(1, 1)] := by decide

end NullOut

/-! ## mrt-file-in -/
namespace Mrt

/-- Full clause (i)+(ii): the files read are those of the start configuration followed by the reference output —
    a queue request is resolved in the `update_path` in force, a file newly listed in `filename` is read once. -/
def Mrt_adopted_full (v : Variant) : Prop :=
  ∀ (c : Cfg) (es : List Ev), (run v (init c) es).processed = c.files.map (none, ·) ++ spec c es

/-- As written: a file added to `filename` is never read … -/
theorem Mrt_adopted_counterexample_filename : ¬ Mrt_adopted_full asWritten := by
  intro h
  have := h ⟨[0], some 0⟩ [.reload ⟨[0, 2], some 0⟩]
  revert this
  decide

/-- … and a queue request after `update_path` changed is still resolved in the old directory. -/
theorem Mrt_adopted_counterexample_update_path : ¬ Mrt_adopted_full asWritten := by
  intro h
  have := h ⟨[0], some 0⟩ [.reload ⟨[0], some 1⟩, .api 1]
  revert this
  decide

/-- As written, every history: reloads are invisible — the endpoint keeps the directory it was built with. -/
theorem Mrt_asWritten_frozen (c : Cfg) (es : List Ev) :
    (run asWritten (init c) es).processed = c.files.map (none, ·) ++ frozen c.updir es := by
  simpa [init] using run_asWritten asWritten rfl (init c) es

/-- Guarded partial: if every reload carries the configuration in force (both settings the code ignores are
    unchanged) the clause holds as written; in particular (iii) an identical reload is a no-op. -/
theorem Mrt_adopted_partial (c : Cfg) (es : List Ev) (h : onlyIdentical c es) :
    (run asWritten (init c) es).processed = c.files.map (none, ·) ++ spec c es := by
  rw [Mrt_asWritten_frozen, spec_eq_frozen c es h]

example : onlyIdentical ⟨[0], some 0⟩ [.api 1, .reload ⟨[0], some 0⟩, .api 2] := ⟨rfl, trivial⟩

/-- Repaired: the full clause for every history. -/
theorem Mrt_adopted_repaired : Mrt_adopted_full repaired := by
  intro c es
  simpa [init] using run_repaired repaired rfl (init c) rfl es

example : (run repaired (init ⟨[0], some 0⟩) [.reload ⟨[0, 2], some 1⟩, .api 1]).processed = [(none, 0), (none, 2), (some 1, 1)] := by decide

/-- (ii) What has been read stays read, in order (any variant, any state): a Reconfigure never re-reads or drops. -/
theorem Mrt_processed_kept (v : Variant) (s : St) (es : List Ev) : s.processed <+: (run v s es).processed := by
  induction es generalizing s with
  | nil => exact List.prefix_refl _
  | cons e es ih => exact List.IsPrefix.trans (step_processed_prefix v s e) (ih (step v s e).1)

/-- (iii) A reload of the configuration in force changes nothing (any variant). -/
theorem Mrt_identical_noop (v : Variant) (s : St) (hs : s.apidir = s.cfg.updir) :
    (step v s (.reload s.cfg)).1 = s := by
  cases hv : v.mrt
  · simp [step, hv]
  · simp only [step, hv, filter_not_contains_self, List.map_nil, List.append_nil, ← hs]

end Mrt

/-! ## bmp-tcp-in (all five settings, every subset changed by one reload) -/
namespace BmpIn

/-- Full clause (i) for one reload: afterwards the unit holds **every** setting of the new configuration, the
    listener is on the new address and every router page is under the new path. -/
def BmpIn_adopted_full (v : Variant) : Prop :=
  ∀ (s : St) (c : Cfg), Inv s →
    (reload v s c).1.cfg = c ∧ (reload v s c).1.bound = c.listen ∧ ∀ r ∈ (reload v s c).1.routers, r.page = c.path

/-- As written it is false: `http_api_path` is bound to `_http_api_path` and dropped. -/
theorem BmpIn_adopted_counterexample_http_api_path : ¬ BmpIn_adopted_full asWritten := by
  intro h
  have := (h (init ⟨0, 0, 0, 0, 0⟩) ⟨0, 1, 0, 0, 0⟩ (inv_init _)).1
  revert this
  decide

/-- **Every subset**: whichever of the five settings one reload changes (`mix a b l p t f m` takes the flagged
    ones from `b`), the unit afterwards holds *all* of `listen`, `router_id_template`, `filter_name`,
    `tracing_mode` of the new configuration — no setting is adopted only when another one is unchanged — and,
    once `bmppath` is repaired, `http_api_path` too. Any variant, any state. -/
theorem BmpIn_adopts_every_subset (v : Variant) (s : St) (b : Cfg) (l p t f m : Bool) :
    let c := mix s.cfg b l p t f m
    let s' := (reload v s c).1
    s'.bound = c.listen ∧ s'.cfg.listen = c.listen ∧ s'.cfg.tmpl = c.tmpl ∧ s'.cfg.filter = c.filter ∧
      s'.cfg.mode = c.mode ∧ (v.bmppath = .repaired → s'.cfg.path = c.path) ∧
      (v.bmppath = .asWritten → s'.cfg.path = s.cfg.path) := by
  cases hv : v.bmppath <;> simp [reload, hv]

/-- Guarded partial (as written): with `http_api_path` unchanged — the one setting the arm ignores — the clause holds. -/
theorem BmpIn_adopted_partial (s : St) (c : Cfg) (hi : Inv s) (hp : c.path = s.cfg.path) :
    (reload asWritten s c).1.cfg = c ∧ (reload asWritten s c).1.bound = c.listen ∧
      ∀ r ∈ (reload asWritten s c).1.routers, r.page = c.path := by
  refine ⟨?_, rfl, ?_⟩
  · simp [reload, asWritten, ← hp]
  · intro r hr; rw [hp]; exact hi.2 r hr

example : Inv (step asWritten (init ⟨0, 0, 0, 0, 0⟩) (.conn 0)).1 := step_inv (inv_init _) _

/-- Repaired (`bmppath`): the full clause. -/
theorem BmpIn_adopted_repaired (v : Variant) (hv : v.bmppath = .repaired) : BmpIn_adopted_full v := by
  intro s c _
  refine ⟨by simp [reload, hv], by simp [reload, hv], ?_⟩
  intro r hr
  simp only [reload, hv, List.mem_map] at hr
  obtain ⟨x, _, rfl⟩ := hr
  rfl

/-- A router connecting after the reload is judged by the new configuration, every variant: refused off the new
    address; otherwise its id is formatted with the new template, its reads start under the new tracing mode
    and its page is registered under the path the unit holds. -/
theorem BmpIn_conn_after_reload (v : Variant) (s : St) (c : Cfg) (slot : Nat) :
    let s' := (reload v s c).1
    (slot ≠ c.listen → (conn s' slot).2 = .refused) ∧
    (slot = c.listen → (conn s' slot).2 = .ok s.next ∧
      ∃ r ∈ (conn s' slot).1.routers, r.id = s.next ∧ r.tmpl = c.tmpl ∧ r.readMode = c.mode ∧ r.page = s'.cfg.path) := by
  cases hv : v.bmppath <;> refine ⟨fun h => by simp [conn, reload, hv, h], fun h => ?_⟩ <;>
    simp [conn, reload, hv, h]

/-- Full clause for tracing: a message is read and traced per the mode **in force** when it arrives. -/
def BmpIn_trace_full (v : Variant) : Prop :=
  ∀ (s : St) (k t : Nat) (r : Router), s.routers.find? (·.conn == k) = some r →
    (initMsg v s k t).2 = (refMsg s.cfg.mode t s.tnext).1

/-- As written it is false: the read was started before the reload, with the old mode — Off→IfRequested loses
    the first message that carries a trace id … -/
def traceCexState : St := (reload asWritten (conn (init ⟨0, 0, 0, 0, 0⟩) 0).1 ⟨0, 0, 0, 0, 1⟩).1

theorem BmpIn_trace_counterexample : ¬ BmpIn_trace_full asWritten := by
  intro h
  have := h traceCexState 0 3 ⟨0, 2, 0, 0, 0⟩ (by decide)
  revert this
  decide

/-- Guarded partial (any variant): a router whose read was started under the mode in force, or any message without a
    trace id (`t = 0`: every ordinary BMP message), is handled per the mode in force. -/
theorem BmpIn_trace_partial (v : Variant) (s : St) (k t : Nat) (r : Router)
    (hr : s.routers.find? (·.conn == k) = some r) (hg : r.readMode = s.cfg.mode ∨ t = 0 ∨ v.bmptrace = .repaired) :
    (initMsg v s k t).2 = (refMsg s.cfg.mode t s.tnext).1 := by
  have key : ∀ rm, (rm = s.cfg.mode ∨ t = 0) → readPhase rm t = readPhase s.cfg.mode t := by
    intro rm h
    rcases h with h | h
    · rw [h]
    · subst h; simp [readPhase]
  have hrm : readPhase (readModeOf v r s.cfg.mode) t = readPhase s.cfg.mode t := by
    unfold readModeOf
    cases hv : v.bmptrace
    · rcases hg with h | h | h
      · exact key _ (Or.inl h)
      · exact key _ (Or.inr h)
      · rw [hv] at h; cases h
    · rfl
  unfold initMsg refMsg
  simp only [hr]
  rw [hrm]
  cases readPhase s.cfg.mode t <;> rfl

example : (initMsg asWritten traceCexState 0 0).2 = .msg true none := by decide

/-- Repaired (`bmptrace`): the full clause. -/
theorem BmpIn_trace_repaired (v : Variant) (hv : v.bmptrace = .repaired) : BmpIn_trace_full v :=
  fun s k t r hr => BmpIn_trace_partial v s k t r hr (Or.inr (Or.inr hv))

/-- (ii) Established sessions are kept by every reload, every variant: same routers, same ids, same current
    router ids and pending reads; nothing that was counted is forgotten. -/
theorem BmpIn_sessions_kept (v : Variant) (s : St) (c : Cfg) :
    (reload v s c).1.routers.map (fun r => (r.conn, r.id, r.tmpl, r.readMode)) =
      s.routers.map (fun r => (r.conn, r.id, r.tmpl, r.readMode)) ∧
    (reload v s c).1.seen = s.seen ∧ (reload v s c).1.next = s.next ∧ (reload v s c).1.tnext = s.tnext := by
  cases hv : v.bmppath <;> simp [reload, hv, List.map_map, Function.comp_def]

/-- (iii) A reload of the configuration in force changes nothing (every variant). -/
theorem BmpIn_identical_noop (v : Variant) (s : St) (hi : Inv s) : (reload v s s.cfg).1 = s := by
  cases hv : v.bmppath
  · have h1 := hi.1
    cases s with
    | mk cfg bound routers next nconn tnext seen =>
      cases cfg
      simp_all [reload]
  · have : s.routers.map (fun r => { r with page := s.cfg.path }) = s.routers := by
      conv => rhs; rw [← List.map_id s.routers]
      apply List.map_congr_left
      intro r hr
      have := hi.2 r hr
      cases r; simp_all
    simp only [reload, hv, this, ← hi.1]

/-- **History level**, every variant: after every history of connections, messages, closes and reloads the listener
    is on the configured address, every router page is under the path the unit holds, and the unit holds the
    settings of the **last** reload — all five when `bmppath` is repaired, all but the path as written. -/
theorem BmpIn_history (v : Variant) (c0 : Cfg) (es : List Ev) :
    Inv (run v (init c0) es) ∧
    (run v (init c0) es).cfg = match v.bmppath with
      | .asWritten => withPath c0.path (lastCfg c0 es)
      | .repaired => lastCfg c0 es :=
  ⟨run_inv (inv_init c0) es, run_cfg v (init c0) es⟩

example : (run asWritten (init ⟨0, 0, 0, 0, 0⟩) [.conn 0, .reload ⟨1, 1, 1, 1, 2⟩, .init 0 0, .conn 1]).cfg = ⟨1, 0, 1, 1, 2⟩ := by decide

end BmpIn

end Rotonda.ReconfUnits
