import RotondaModel.Model.GateReconf
import RotondaModel.Generated.GateCmd
/-!
# Extraction tie: the `GateCommand` arms of `Gate::process`

`Generated/GateCmd.lean` is regenerated from the source text of `src/comms.rs` on every run
(`tools/extract_gatecmd.py`): the commands, who may receive each (`assert!(self.is_clone())` & co.), how its arm
leaves the loop, which command it hands to `notify_clones`, and which commands `impl Clone for GateCommand` can
clone.  This file proves that `Model/GateReconf.lean` (`rootHandle`, `cloneHandle`; the bridge of C08/C13) gives
the root gate and a clone exactly these roles.
-/
namespace Rotonda.GateReconf
open Rotonda.Generated

/-- model command ↦ the `GateCommand` variant it stands for -/
def Cmd.gen : Cmd → GateCmd.Cmd
  | .subscribe _ => .subscribe | .unsubscribe _ => .unsubscribe | .attach _ => .attachClone | .detach _ => .detachClone
  | .terminate => .terminate | .reconfigure _ => .reconfigure
  | .followSub _ => .followSubscribe | .followUnsub _ => .followUnsubscribe | .followReconf => .followReconfigure

def afterOf : GateCmd.Exit → After
  | .cont => .cont | .ret => .ret | .term => .term

/-- **Root gate.** For every command the root gate may receive, `rootHandle` starts a notification of the clones iff
    the real arm calls `notify_clones`, of the command kind the real arm passes, over the current clone set, and
    afterwards leaves the loop the way the real arm does; an arm without `notify_clones` starts none. -/
theorem rootHandle_eq_generated (v : Variant) (st : St) (x : Cmd) (hg : GateCmd.guard x.gen ≠ .cloneOnly) :
    match GateCmd.notifies x.gen with
    | some y => ∃ b, (rootHandle v st x).busy = some b ∧ b.cmd.gen = y ∧ b.after = afterOf (GateCmd.exit x.gen)
        ∧ b.rest = (rootHandle v st x).clones ∧ b.blocked = false ∧ b.closedFound = false
    | none => (rootHandle v st x).busy = st.busy := by
  cases x <;> first
    | exact absurd rfl hg
    | exact ⟨_, rfl, rfl, rfl, rfl, rfl, rfl⟩
    | rfl

/-- Commands only a clone may receive (the root gate's `assert!(self.is_clone())` arms) are no-ops of `rootHandle`:
    the model leaves the panic out because no schedule of the model delivers them to the root. -/
theorem rootHandle_cloneOnly_noop (v : Variant) (st : St) (x : Cmd) (hg : GateCmd.guard x.gen = .cloneOnly) :
    rootHandle v st x = st := by
  cases x <;> first | rfl | (simp [Cmd.gen, GateCmd.guard] at hg)

/-- **Clone.** Commands only the root may receive change nothing in a clone; what a clone reacts to is inside the
    generated `cloneOnly` / `any` sets. -/
theorem cloneHandle_rootOnly_noop (v : Variant) (st : St) (c : Gate.Pub) (x : Cmd) (hg : GateCmd.guard x.gen = .rootOnly) :
    cloneHandle v st c x = st := by
  cases x <;> first | rfl | (simp [Cmd.gen, GateCmd.guard] at hg)

/-- who receives a command in the model: `step` delivers `subscribe`/`unsubscribe`/`attach`/`reconfigure` to the root gate
    only, the `follow*` commands to clones only (they come out of `notify_clones`), `detach`/`terminate` to either -/
def Cmd.role : Cmd → GateCmd.Guard
  | .subscribe _ => .rootOnly | .unsubscribe _ => .rootOnly | .attach _ => .rootOnly | .reconfigure _ => .rootOnly
  | .followSub _ => .cloneOnly | .followUnsub _ => .cloneOnly | .followReconf => .cloneOnly
  | .detach _ => .any | .terminate => .any

/-- **Roles.** The `assert!(self.is_clone())` / `assert!(!self.is_clone())` / `unreachable!()` guards of the real arms give
    every command of the model the role the model gives it. -/
theorem guard_eq_model_roles (x : Cmd) : GateCmd.guard x.gen = x.role := by cases x <;> rfl

/-- The roles, as a table: the model's root-side commands are exactly the generated non-`cloneOnly` ones among the
    nine it has, its `follow*` commands exactly the `cloneOnly` ones. -/
theorem roles_eq_generated : ∀ x : Cmd, (GateCmd.guard x.gen = .cloneOnly ↔ ∃ y, GateCmd.notifies y = some x.gen ∧ y ≠ x.gen) := by
  intro x
  cases x <;> simp only [Cmd.gen] <;> first
    | exact ⟨fun h => absurd h (by decide), fun ⟨y, hy, hne⟩ => by cases y <;> simp_all [GateCmd.notifies]⟩
    | exact ⟨fun _ => ⟨.subscribe, rfl, by decide⟩, fun _ => rfl⟩
    | exact ⟨fun _ => ⟨.unsubscribe, rfl, by decide⟩, fun _ => rfl⟩
    | exact ⟨fun _ => ⟨.reconfigure, rfl, by decide⟩, fun _ => rfl⟩

/-- Every command the *model's* root gate hands to `notify_clones` is one `impl Clone for GateCommand` can clone
    (`notify_clones` clones it once per open clone sender). -/
theorem model_notified_clonable (x : Cmd) (y : GateCmd.Cmd) (h : GateCmd.notifies x.gen = some y) :
    GateCmd.clonable y = true := by
  cases x <;> simp only [Cmd.gen, GateCmd.notifies] at h <;> first | (cases h; rfl) | cases h

/-- The full statement "every notified command is clonable" over *all* `GateCommand`s … -/
def notified_clonable_full : Prop := ∀ x y, GateCmd.notifies x = some y → GateCmd.clonable y = true

/-- … does not hold for the code as extracted: `Trigger` is handed to `notify_clones` but is not clonable, so a root
    gate with an open clone sender that receives `Trigger` runs into `panic!("Internal error: Unclonable GateCommand")`.
    (`Trigger` and `ReportLinks` are outside the model; this is read off the source, not reproduced on the real code.) -/
theorem notified_clonable_counterexample : ¬ notified_clonable_full := by
  intro h
  exact absurd (h .trigger .trigger rfl) (by decide)

/-- The commands the model leaves out are exactly `ReportLinks`, `Suspension`, `Trigger`. -/
theorem model_covers : ∀ g ∈ GateCmd.all, (g = .reportLinks ∨ g = .suspension ∨ g = .trigger)
    ∨ g ∈ [Cmd.gen (.subscribe 0), Cmd.gen (.unsubscribe 0), Cmd.gen (.attach 0), Cmd.gen (.detach 0), Cmd.gen .terminate,
           Cmd.gen (.reconfigure 0), Cmd.gen (.followSub 0), Cmd.gen (.followUnsub 0), Cmd.gen .followReconf] := by decide

end Rotonda.GateReconf
