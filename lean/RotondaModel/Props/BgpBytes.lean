import RotondaModel.Model.BgpBytes
/-!
# BgpBytes — property C06 for the BGP receiver

"Whatever bytes arrive on a BGP connection, the receiving component never panics and never stops making progress:
malformed input … at worst ends that one session. Other sessions … keep working."

For every byte stream (any length), every session state, every log level and every AS policy:
* `C06bgp_no_panic` — with the five defect sites repaired (or four of them and Debug logging off) no stream makes the
  connection's task panic; `C06bgp_no_panic_partial` — the code as written does not panic on streams that avoid the
  triggers (no OPEN frame, no declared length below 18, no NOTIFICATION shorter than 21 bytes under Debug logging);
  one kernel-checked counterexample per site for the code as written.
* `C06bgp_end_cleanup` / `C06bgp_negotiated_end_cleanup` — whenever the task does not panic the session's end is
  cleaned up: the key leaves `live_sessions` and a negotiated session's last output is its `Withdraw`;
  `C06bgp_panic_no_cleanup_*` — after a panic on an established session nothing is cleaned up.
* `C06bgp_frame_progress`, `C06bgp_fuel_irrelevant`, `C06bgp_work_linear`, `C06bgp_no_stall` — no wedge: every frame
  consumes at least 18 bytes of the stream, the loop needs no more iterations than that allows, the work is linear in
  the bytes received, and the reader never stalls in overflow-checked builds or with the framing repair;
  `C06bgp_stall_counterexample` — release builds of the code as written stall on a declared length below 18.
* `C06bgp_others_untouched` — feeding one connection changes no other connection's state or `live_sessions` entry.
-/
namespace Rotonda.BgpBytes

-- ------------------------------------------------------------------ helpers

def Step.panics : Step → Bool
  | .stop _ (.panic _) _ => true
  | _ => false

def Step.evs : Step → List Ev
  | .stop evs _ _ => evs
  | .cont _ evs => evs

def Step.sess : Step → Sess
  | .stop _ _ s => s
  | .cont s _ => s

theorem find65_no_panic {tr : List Item} (h : firstPanic tr = none) : ∀ s, find65 tr ≠ .panic s := by
  induction tr with
  | nil => intro s; simp [find65]
  | cons a rest ih =>
    cases a with
    | panic s' => simp [firstPanic] at h
    | cap t val =>
      intro s
      simp only [firstPanic] at h
      simp only [find65]
      split
      · simp
      · exact ih h s

theorem openCheck_trace {v : Variant} {f : Bytes} (hc : v.capiter = true) (h : openCheck v f = true) :
    firstPanic (capTrace v (f.length + 1) (openParams f)) = none := by
  unfold openCheck at h
  simp only [hc, if_true, Bool.and_eq_true] at h
  exact Option.isNone_iff_eq_none.mp h.2

theorem myAsn_ok {v : Variant} {f : Bytes} (hc : v.capiter = true) (ha : v.asn4 = true) (h : openCheck v f = true) :
    ∃ n, myAsn v f = .ok n := by
  have ht := openCheck_trace hc h
  unfold myAsn
  cases hf : find65 (capTrace v (f.length + 1) (openParams f)) with
  | panic s => exact absurd hf (find65_no_panic ht s)
  | none => exact ⟨_, rfl⟩
  | value val =>
    simp only [ha, if_true]
    split <;> exact ⟨_, rfl⟩

theorem addpathOk_ok {v : Variant} {f : Bytes} (hc : v.capiter = true) (h : openCheck v f = true) :
    ∃ b, addpathOk v f = .ok b := by
  have ht := openCheck_trace hc h
  unfold addpathOk
  simp only [ht]
  exact ⟨_, rfl⟩

theorem acceptOpen_no_panic {v : Variant} {cfg : Cfg} {s : Sess} {f : Bytes} {w : Bool}
    (hc : v.capiter = true) (ha : v.asn4 = true) (h : openCheck v f = true) :
    (acceptOpen v cfg s f w).panics = false := by
  obtain ⟨n, hn⟩ := myAsn_ok hc ha h
  obtain ⟨b, hb⟩ := addpathOk_ok hc h
  unfold acceptOpen
  cases b <;> simp only [hn, hb] <;> split <;> (try split) <;> simp_all [Step.panics]

theorem fromOctets_open {v : Variant} {f : Bytes} (h : fromOctets v f = some .open) : openCheck v f = true := by
  unfold fromOctets at h
  split at h
  · split at h
    · split at h
      · assumption
      · simp at h
    · split at h <;> simp at h
    · simp at h
    · split at h <;> simp at h
    · simp at h
  · simp at h

/-- What a parsed message says about the frame's type byte. -/
theorem fromOctets_type {v : Variant} {f : Bytes} {m : Msg} (h : fromOctets v f = some m) :
    (m = .open → f.getD 18 0 = 1) ∧ (m = .notification → f.getD 18 0 = 3) := by
  unfold fromOctets at h
  split at h
  · split at h
    · rename_i h18
      split at h
      · simp only [Option.some.injEq] at h; subst h; exact ⟨fun _ => h18, nofun⟩
      · simp at h
    · split at h
      · simp at h
      · simp only [Option.some.injEq] at h; subst h; exact ⟨nofun, nofun⟩
    · rename_i h18
      simp only [Option.some.injEq] at h; subst h; exact ⟨nofun, fun _ => h18⟩
    · split at h
      · simp only [Option.some.injEq] at h; subst h; exact ⟨nofun, nofun⟩
      · simp at h
    · simp at h
  · simp at h

/-- The conditions under which no received message can make the task panic. -/
structure Safe (v : Variant) (cfg : Cfg) : Prop where
  frame : v.frame = true
  capiter : v.capiter = true
  asn4 : v.asn4 = true
  fsmopen : v.fsmopen = true
  notiflog : v.notiflog = true ∨ cfg.debug = false

theorem handleMsg_no_panic {v : Variant} {cfg : Cfg} (hs : Safe v cfg) (s : Sess) {f : Bytes} {m : Msg}
    (hm : fromOctets v f = some m) : (handleMsg v cfg s f m).panics = false := by
  cases m with
  | «open» =>
    have hchk := fromOctets_open hm
    obtain ⟨n, hn⟩ := myAsn_ok hs.capiter hs.asn4 hchk
    unfold handleMsg
    have hd : (if cfg.debug = true then myAsn v f else Except.ok 0) = Except.ok (if cfg.debug = true then n else 0) := by
      split <;> simp [hn]
    simp only [hd]
    cases s.fsm
    · exact acceptOpen_no_panic hs.capiter hs.asn4 hchk
    · exact acceptOpen_no_panic hs.capiter hs.asn4 hchk
    · simp [hs.fsmopen, Step.panics]
    · simp [hs.fsmopen, Step.panics]
    · simp [Step.panics]
  | keepalive => unfold handleMsg; cases s.fsm <;> simp [Step.panics]
  | update r => unfold handleMsg; cases s.fsm <;> (try cases r) <;> simp [Step.panics]
  | notification =>
    unfold handleMsg
    rcases hs.notiflog with h | h <;> simp [h, Step.panics]

theorem parseFrame_repaired {v : Variant} (h : v.frame = true) (buf : Bytes) :
    parseFrame v buf ≠ .panic ∧ parseFrame v buf ≠ .stall := by
  unfold parseFrame
  simp only [h, Bool.true_and, Bool.or_eq_true, decide_eq_true_eq]
  split
  · simp
  · split
    · simp
    · split
      · omega
      · split <;> simp

theorem loop_no_panic {v : Variant} {cfg : Cfg} (hs : Safe v cfg) :
    ∀ (fuel : Nat) (s : Sess) (buf : Bytes), (loop v cfg fuel s buf).2.1.isPanic = false := by
  intro fuel
  induction fuel with
  | zero => intro s buf; simp [loop, Stop.isPanic]
  | succ n ih =>
    intro s buf
    unfold loop
    have hp := parseFrame_repaired hs.frame buf
    cases hpf : parseFrame v buf with
    | needMore => simp only []; split <;> simp [Stop.isPanic]
    | panic => exact absurd hpf hp.1
    | stall => exact absurd hpf hp.2
    | bad => simp [Stop.isPanic]
    | frame f rest =>
      simp only []
      cases hfo : fromOctets v f with
      | none => simp [Stop.isPanic]
      | some m =>
        simp only []
        have hh := handleMsg_no_panic hs s hfo
        cases hstep : handleMsg v cfg s f m with
        | stop evs why s' =>
          simp only []
          rw [hstep] at hh
          cases why <;> simp_all [Step.panics, Stop.isPanic]
        | cont s' evs => simp only []; exact ih s' rest

-- ------------------------------------------------------------------ clause 1: never panics

/-- **No panic (repaired).** With the five sites repaired — or four of them and Debug logging off — no byte stream, in no
session state, under no AS policy, makes the connection's task panic. -/
theorem C06bgp_no_panic {v : Variant} {cfg : Cfg} (hs : Safe v cfg) (s : Sess) (stream : Bytes) :
    (run v cfg s stream).stop.isPanic = false := by
  unfold run
  have h := loop_no_panic hs (stream.length + 1) s stream
  simp only [h]
  simpa using h

example : Safe Variant.repaired { debug := true, allowed := none } := ⟨rfl, rfl, rfl, rfl, Or.inl rfl⟩
example : Safe { Variant.repaired with notiflog := false } { debug := false, allowed := some 65001 } := ⟨rfl, rfl, rfl, rfl, Or.inr rfl⟩

/-- The full statement for the code as written (false: see the counterexamples). -/
def C06bgp_no_panic_full : Prop :=
  ∀ (cfg : Cfg) (s : Sess) (stream : Bytes), (run Variant.asWritten cfg s stream).stop.isPanic = false

/-- Streams the code as written survives: every frame as `parse_frame` cuts them declares at least 18 bytes, none is of
type OPEN, and under Debug logging no NOTIFICATION is shorter than 21 bytes. -/
def guard (v : Variant) (cfg : Cfg) : Nat → Bytes → Bool
  | 0, _ => true
  | fuel + 1, buf =>
    match parseFrame v buf with
    | .frame f rest =>
      f.getD 18 0 != 1 && !(cfg.debug && f.getD 18 0 == 3 && f.length < 21) && guard v cfg fuel rest
    | .panic => false
    | _ => true

theorem loop_no_panic_guarded {v : Variant} {cfg : Cfg} :
    ∀ (fuel : Nat) (s : Sess) (buf : Bytes), guard v cfg fuel buf = true → (loop v cfg fuel s buf).2.1.isPanic = false := by
  intro fuel
  induction fuel with
  | zero => intro s buf _; simp [loop, Stop.isPanic]
  | succ n ih =>
    intro s buf hg
    unfold loop
    unfold guard at hg
    cases hpf : parseFrame v buf with
    | needMore => simp only []; split <;> simp [Stop.isPanic]
    | panic => simp [hpf] at hg
    | stall => simp [Stop.isPanic]
    | bad => simp [Stop.isPanic]
    | frame f rest =>
      simp only [hpf, Bool.and_eq_true] at hg
      obtain ⟨⟨h1, h3⟩, hrest⟩ := hg
      simp only []
      cases hfo : fromOctets v f with
      | none => simp [Stop.isPanic]
      | some m =>
        simp only []
        have hty := fromOctets_type hfo
        have hnp : (handleMsg v cfg s f m).panics = false := by
          cases m with
          | «open» => have := hty.1 rfl; rw [this] at h1; simp at h1
          | keepalive => unfold handleMsg; cases s.fsm <;> simp [Step.panics]
          | update r => unfold handleMsg; cases s.fsm <;> (try cases r) <;> simp [Step.panics]
          | notification =>
            have h18 := hty.2 rfl
            unfold handleMsg
            simp only [h18] at h3
            by_cases hd : cfg.debug = true
            · by_cases hl : f.length < 21
              · simp [hd, hl] at h3
              · simp [hl, Step.panics]
            · simp [hd, Step.panics]
        cases hstep : handleMsg v cfg s f m with
        | stop evs why s' =>
          simp only []
          rw [hstep] at hnp
          cases why <;> simp_all [Step.panics, Stop.isPanic]
        | cont s' evs => simp only []; exact ih s' rest hrest

/-- **No panic (code as written, guarded).** -/
theorem C06bgp_no_panic_partial (v : Variant) (cfg : Cfg) (s : Sess) (stream : Bytes)
    (hg : guard v cfg (stream.length + 1) stream = true) : (run v cfg s stream).stop.isPanic = false := by
  unfold run
  have h := loop_no_panic_guarded (stream.length + 1) s stream hg
  simp only [h]
  simpa using h

def M16 : Bytes := List.replicate 16 255
/-- KEEPALIVE, NOTIFICATION 6/2, then an unparsable frame: the guard holds on the code as written. -/
example : guard .asWritten { debug := true, allowed := none } 64 (M16 ++ [0, 19, 4] ++ M16 ++ [0, 21, 3, 6, 2] ++ M16 ++ [0, 19, 9]) = true := by decide

-- ------------------------------------------------------------------ counterexamples (code as written)

def cfgInfo : Cfg := { debug := false, allowed := some 65001 }
def cfgDebug : Cfg := { debug := true, allowed := some 65001 }
/-- an OPEN (AS 65001, hold 90) whose single capabilities parameter holds `caps` -/
def openWith (caps : Bytes) : Bytes :=
  M16 ++ [0, 29 + 2 + caps.length, 1, 4, 253, 233, 0, 90, 10, 0, 0, 1, 2 + caps.length, 2, caps.length] ++ caps
def validOpen : Bytes := openWith [1, 4, 0, 1, 0, 1, 65, 4, 0, 0, 253, 233]
/-- UPDATE announcing 10.0.1.0/24 with ORIGIN, AS_PATH, NEXT_HOP -/
def validUpdate : Bytes :=
  M16 ++ [0, 47, 2, 0, 0, 0, 20, 64, 1, 1, 0, 64, 2, 6, 2, 1, 0, 0, 253, 233, 64, 3, 4, 10, 0, 0, 1, 24, 10, 0, 1]

/-- 19 bytes whose length field says 7: `parse_frame` panics; the established session's key stays live, nothing is withdrawn. -/
theorem C06bgp_frame_counterexample :
    run .asWritten cfgInfo (Sess.start .established) (validUpdate ++ M16 ++ [0, 7, 2])
      = { evs := [.bulk 1], stop := .panic .frameLen, live := true } := by decide

/-- A MultiProtocol capability of length 0 passes `OpenMessage::check` and panics `CapabilitiesIter::next`. -/
theorem C06bgp_capiter_counterexample :
    (run .asWritten cfgInfo (Sess.start .openSent) (openWith [1, 0])).stop = .panic .capIter := by decide

/-- A non-capability optional parameter (type 1) declaring 200 value bytes passes the check (its value is not skipped
there) and panics `ParametersParser::next`. -/
theorem C06bgp_paramiter_counterexample :
    (run .asWritten cfgInfo (Sess.start .openSent)
      (M16 ++ [0, 31, 1, 4, 253, 233, 0, 90, 10, 0, 0, 1, 2, 1, 200])).stop = .panic .paramIter := by decide

/-- A Multisession capability of length 0: `0..len-1` underflows in overflow-checked builds. -/
theorem C06bgp_capsub_counterexample :
    (run .asWritten cfgInfo (Sess.start .openSent) (openWith [68, 0, 2, 0])).stop = .panic .capSub := by decide

/-- A four-octet-AS capability of length 2 (followed by other capabilities): `my_asn` `expect`s 4 bytes. -/
theorem C06bgp_asn4_counterexample :
    (run .asWritten cfgInfo (Sess.start .openSent) (openWith [65, 2, 0, 1, 2, 0, 2, 0])).stop = .panic .asn4 := by decide

/-- A well-formed OPEN on an established session: `todo!()`; key stays live, no withdraw. -/
theorem C06bgp_fsm_established_counterexample :
    run .asWritten cfgInfo (Sess.start .established) (validUpdate ++ validOpen)
      = { evs := [.bulk 1], stop := .panic .fsmEstablished, live := true } := by decide

/-- A second well-formed OPEN before the first KEEPALIVE: `todo!()` in OpenConfirm; the key is already live. -/
theorem C06bgp_fsm_openconfirm_counterexample :
    run .asWritten cfgInfo (Sess.start .openSent) (validOpen ++ validOpen)
      = { evs := [.txKeepalive], stop := .panic .fsmOpenConfirm, live := true } := by decide

/-- A 19-byte NOTIFICATION with Debug logging enabled: `pdu.details()` indexes byte 20. -/
theorem C06bgp_notif_counterexample :
    run .asWritten cfgDebug (Sess.start .established) (validUpdate ++ M16 ++ [0, 19, 3] ++ validUpdate)
      = { evs := [.bulk 1], stop := .panic .notifDetails, live := true } := by decide

/-- … and without Debug logging the same stream is harmless (the precondition is part of the finding). -/
theorem C06bgp_notif_info_level :
    run .asWritten cfgInfo (Sess.start .established) (validUpdate ++ M16 ++ [0, 19, 3] ++ validUpdate)
      = { evs := [.bulk 1, .bulk 1, .withdraw], stop := .lost, live := false } := by decide

theorem C06bgp_no_panic_full_false : ¬ C06bgp_no_panic_full := by
  intro h
  have := h cfgInfo (Sess.start .established) (validUpdate ++ M16 ++ [0, 7, 2])
  rw [C06bgp_frame_counterexample] at this
  simp [Stop.isPanic] at this

/-- Every one of the witnesses is harmless once repaired. -/
theorem C06bgp_witnesses_repaired :
    (run .repaired cfgInfo (Sess.start .established) (validUpdate ++ M16 ++ [0, 7, 2])).evs = [.bulk 1, .withdraw]
    ∧ (run .repaired cfgInfo (Sess.start .established) (validUpdate ++ validOpen)).evs = [.bulk 1, .txNotif 5 3, .withdraw]
    ∧ (run .repaired cfgInfo (Sess.start .openSent) (openWith [1, 0])).stop = .tickErr
    ∧ (run .repaired cfgDebug (Sess.start .established) (validUpdate ++ M16 ++ [0, 19, 3] ++ validUpdate)).evs
        = [.bulk 1, .bulk 1, .withdraw] := by decide

-- ------------------------------------------------------------------ clause 2: at worst ends that one session, with cleanup

theorem handleMsg_no_withdraw (v : Variant) (cfg : Cfg) (s : Sess) (f : Bytes) (m : Msg) :
    Ev.withdraw ∉ (handleMsg v cfg s f m).evs := by
  cases m <;> unfold handleMsg <;> repeat' split
  all_goals (try unfold acceptOpen)
  all_goals repeat' split
  all_goals (try simp [Step.evs])

theorem loop_no_withdraw (v : Variant) (cfg : Cfg) :
    ∀ (fuel : Nat) (s : Sess) (buf : Bytes), Ev.withdraw ∉ (loop v cfg fuel s buf).1 := by
  intro fuel
  induction fuel with
  | zero => intro s buf; simp [loop]
  | succ n ih =>
    intro s buf
    unfold loop
    cases parseFrame v buf with
    | needMore => simp
    | panic => simp
    | stall => simp
    | bad => simp
    | frame f rest =>
      simp only []
      cases fromOctets v f with
      | none => simp
      | some m =>
        simp only []
        have h := handleMsg_no_withdraw v cfg s f m
        cases hstep : handleMsg v cfg s f m with
        | stop evs why s' => rw [hstep] at h; simpa [Step.evs] using h
        | cont s' evs =>
          rw [hstep] at h
          simp only [List.mem_append, not_or]
          exact ⟨by simpa [Step.evs] using h, ih s' rest⟩

/-- The state the connection is in when its loop is left. -/
def finalSess (v : Variant) (cfg : Cfg) (s : Sess) (stream : Bytes) : Sess := (loop v cfg (stream.length + 1) s stream).2.2

/-- **Cleanup.** Whenever the task does not panic — for every variant, stream, state — the key is gone from
`live_sessions`; a negotiated session's last output is its `Withdraw` (exactly one), a session that never got as far
emits none. -/
theorem C06bgp_end_cleanup (v : Variant) (cfg : Cfg) (s : Sess) (stream : Bytes)
    (hp : (run v cfg s stream).stop.isPanic = false) :
    (run v cfg s stream).live = false
    ∧ ((finalSess v cfg s stream).negotiated = true →
        ∃ pre, (run v cfg s stream).evs = pre ++ [Ev.withdraw] ∧ Ev.withdraw ∉ pre)
    ∧ ((finalSess v cfg s stream).negotiated = false → Ev.withdraw ∉ (run v cfg s stream).evs) := by
  have hnw := loop_no_withdraw v cfg (stream.length + 1) s stream
  unfold run at hp ⊢
  unfold finalSess
  by_cases h : (loop v cfg (stream.length + 1) s stream).2.1.isPanic = true
  · simp [h] at hp
  · simp only [h]
    refine ⟨by simp, ?_, ?_⟩
    · intro hn
      exact ⟨_, by simp [hn], hnw⟩
    · intro hn
      simpa [hn] using hnw

theorem handleMsg_negotiated (v : Variant) (cfg : Cfg) (s : Sess) (f : Bytes) (m : Msg) (hn : s.negotiated = true) :
    (handleMsg v cfg s f m).sess.negotiated = true := by
  cases m <;> unfold handleMsg <;> repeat' split
  all_goals (try unfold acceptOpen)
  all_goals repeat' split
  all_goals (try simp [Step.sess, hn])

theorem loop_negotiated (v : Variant) (cfg : Cfg) :
    ∀ (fuel : Nat) (s : Sess) (buf : Bytes), s.negotiated = true → (loop v cfg fuel s buf).2.2.negotiated = true := by
  intro fuel
  induction fuel with
  | zero => intro s buf hn; simpa [loop] using hn
  | succ n ih =>
    intro s buf hn
    unfold loop
    cases parseFrame v buf with
    | needMore => simpa using hn
    | panic => simpa using hn
    | stall => simpa using hn
    | bad => simpa using hn
    | frame f rest =>
      simp only []
      cases fromOctets v f with
      | none => simpa using hn
      | some m =>
        simp only []
        have h := handleMsg_negotiated v cfg s f m hn
        cases hstep : handleMsg v cfg s f m with
        | stop evs why s' => rw [hstep] at h; simpa [Step.sess] using h
        | cont s' evs => rw [hstep] at h; exact ih s' rest (by simpa [Step.sess] using h)

/-- **A negotiated session always gets its withdrawal** (OpenConfirm, Established: whatever bytes follow), unless the
task panics. -/
theorem C06bgp_negotiated_end_cleanup (v : Variant) (cfg : Cfg) (s : Sess) (stream : Bytes) (hn : s.negotiated = true)
    (hp : (run v cfg s stream).stop.isPanic = false) :
    (run v cfg s stream).live = false ∧ ∃ pre, (run v cfg s stream).evs = pre ++ [Ev.withdraw] ∧ Ev.withdraw ∉ pre := by
  have h := C06bgp_end_cleanup v cfg s stream hp
  exact ⟨h.1, h.2.1 (loop_negotiated v cfg _ s stream hn)⟩

/-- With the sites repaired: every stream on a negotiated session ends with the cleanup. -/
theorem C06bgp_repaired_end_cleanup {v : Variant} {cfg : Cfg} (hs : Safe v cfg) (s : Sess) (stream : Bytes)
    (hn : s.negotiated = true) :
    (run v cfg s stream).live = false ∧ ∃ pre, (run v cfg s stream).evs = pre ++ [Ev.withdraw] ∧ Ev.withdraw ∉ pre :=
  C06bgp_negotiated_end_cleanup v cfg s stream hn (C06bgp_no_panic hs s stream)

example : (Sess.start .established).negotiated = true := rfl
example : (run .repaired cfgDebug (Sess.start .established) (validUpdate ++ M16 ++ [0, 7, 2])).evs = [.bulk 1] ++ [.withdraw] := by decide

/-- After a panic nothing is cleaned up: the key stays exactly as the processor left it, nothing is withdrawn. -/
theorem C06bgp_panic_no_cleanup (v : Variant) (cfg : Cfg) (s : Sess) (stream : Bytes)
    (hp : (run v cfg s stream).stop.isPanic = true) :
    (run v cfg s stream).live = (finalSess v cfg s stream).inLive ∧ Ev.withdraw ∉ (run v cfg s stream).evs := by
  have hnw := loop_no_withdraw v cfg (stream.length + 1) s stream
  unfold run at hp ⊢
  unfold finalSess
  by_cases h : (loop v cfg (stream.length + 1) s stream).2.1.isPanic = true
  · simp only [h, if_true]; exact ⟨trivial, hnw⟩
  · simp [h] at hp

example : (run .asWritten cfgInfo (Sess.start .established) (validUpdate ++ validOpen)).stop.isPanic = true := by decide

-- ------------------------------------------------------------------ clause 3: never stops making progress

/-- Every frame `parse_frame` hands out takes at least 18 bytes off the stream (19 with the framing repair) and nothing
is lost or reordered. -/
theorem C06bgp_frame_progress {v : Variant} {buf f rest : Bytes} (h : parseFrame v buf = .frame f rest) :
    f ++ rest = buf ∧ 18 ≤ f.length ∧ rest.length + 18 ≤ buf.length ∧ (v.frame = true → 19 ≤ f.length) := by
  unfold parseFrame at h
  split at h
  · simp at h
  · split at h
    · simp at h
    · split at h
      · split at h <;> simp at h
      · split at h
        · simp at h
        · rename_i h18 hbad hlt hlen
          simp only [Frame.frame.injEq] at h
          obtain ⟨rfl, rfl⟩ := h
          simp only [List.take_append_drop, List.length_take, List.length_drop, true_and]
          refine ⟨by omega, by omega, ?_⟩
          intro hf
          simp only [hf, Bool.true_and, Bool.or_eq_true, decide_eq_true_eq] at hbad
          omega

example : parseFrame .asWritten (M16 ++ [0, 19, 4, 255]) = .frame (M16 ++ [0, 19, 4]) [255] := by decide

/-- The reader never stalls in overflow-checked builds, nor with the framing repair (any build). -/
theorem C06bgp_no_stall {v : Variant} (h : v.checked = true ∨ v.frame = true) (buf : Bytes) : parseFrame v buf ≠ .stall := by
  rcases h with h | h
  · unfold parseFrame
    simp only [h, if_true]
    split
    · simp
    · split
      · simp
      · split
        · simp
        · split <;> simp
  · exact (parseFrame_repaired h buf).2

/-- Release builds of the code as written: a declared length of 7 makes the reader wait for ~2^64 bytes; everything the
peer sends afterwards is buffered unprocessed (until end of input or the hold timer). -/
theorem C06bgp_stall_counterexample :
    (run { Variant.asWritten with checked := false } cfgInfo (Sess.start .established)
        (M16 ++ [0, 7, 2] ++ validUpdate ++ validUpdate)).evs = [.stalled 113, .withdraw] := by decide

/-- The loop needs no more iterations than the bytes allow: any fuel above the stream length gives the same result
(so `run`'s fuel never runs out: the model's loop is the real loop). -/
theorem C06bgp_fuel_irrelevant (v : Variant) (cfg : Cfg) :
    ∀ (fuel fuel' : Nat) (s : Sess) (buf : Bytes), buf.length < fuel → buf.length < fuel' →
      loop v cfg fuel s buf = loop v cfg fuel' s buf := by
  intro fuel
  induction fuel with
  | zero => intro fuel' s buf h; omega
  | succ n ih =>
    intro fuel' s buf h h'
    cases fuel' with
    | zero => omega
    | succ n' =>
      unfold loop
      cases hpf : parseFrame v buf with
      | needMore => rfl
      | panic => rfl
      | stall => rfl
      | bad => rfl
      | frame f rest =>
        simp only []
        have hp := C06bgp_frame_progress hpf
        cases fromOctets v f with
        | none => rfl
        | some m =>
          simp only []
          cases handleMsg v cfg s f m with
          | stop evs why s' => rfl
          | cont s' evs => simp only []; rw [ih n' s' rest (by omega) (by omega)]

theorem handleMsg_evs_le (v : Variant) (cfg : Cfg) (s : Sess) (f : Bytes) (m : Msg) :
    (handleMsg v cfg s f m).evs.length ≤ 2 := by
  cases m <;> unfold handleMsg <;> repeat' split
  all_goals (try unfold acceptOpen)
  all_goals repeat' split
  all_goals (try simp [Step.evs])

/-- **Work is linear in the bytes received**: at most two observable actions per frame, every frame at least 18 bytes. -/
theorem C06bgp_work_linear (v : Variant) (cfg : Cfg) :
    ∀ (fuel : Nat) (s : Sess) (buf : Bytes), 9 * (loop v cfg fuel s buf).1.length ≤ buf.length + 9 := by
  intro fuel
  induction fuel with
  | zero => intro s buf; simp [loop]
  | succ n ih =>
    intro s buf
    unfold loop
    cases hpf : parseFrame v buf with
    | needMore => simp
    | panic => simp
    | stall => simp
    | bad => simp
    | frame f rest =>
      simp only []
      have hp := C06bgp_frame_progress hpf
      cases fromOctets v f with
      | none => simp
      | some m =>
        simp only []
        have h := handleMsg_evs_le v cfg s f m
        cases hstep : handleMsg v cfg s f m with
        | stop evs why s' => rw [hstep] at h; simp only [Step.evs] at h ⊢; omega
        | cont s' evs =>
          rw [hstep] at h
          have := ih s' rest
          simp only [List.length_append, Step.evs] at h ⊢
          omega

example : (loop .asWritten cfgInfo 200 (Sess.start .established) (validUpdate ++ validUpdate)).1.length = 2 := by decide

-- ------------------------------------------------------------------ clause 4: other sessions untouched

/-- The unit as far as connections can see each other: every connection's task owns its session state; the shared
`live_sessions` map is touched only under the connection's own key. -/
structure World where
  sess : Nat → Sess
  live : Nat → Bool

/-- Connection `k` receives `stream` and then end of input. -/
def World.feed (v : Variant) (cfg : Cfg) (w : World) (k : Nat) (stream : Bytes) : World × Result :=
  let r := run v cfg (w.sess k) stream
  ({ sess := fun j => if j = k then finalSess v cfg (w.sess k) stream else w.sess j,
     live := fun j => if j = k then r.live else w.live j }, r)

/-- **Other sessions untouched**, whatever happens to connection `k` (clean end, error, panic, stall). -/
theorem C06bgp_others_untouched (v : Variant) (cfg : Cfg) (w : World) (k j : Nat) (stream : Bytes) (h : j ≠ k) :
    (w.feed v cfg k stream).1.sess j = w.sess j ∧ (w.feed v cfg k stream).1.live j = w.live j := by
  simp [World.feed, h]

example : ((World.mk (fun _ => Sess.start .established) (fun _ => true)).feed .asWritten cfgInfo 0 (M16 ++ [0, 7, 2])).1.live 1 = true := by
  simp [World.feed]

end Rotonda.BgpBytes
