import RotondaModel.Proofs.Reconf
import RotondaModel.Props.C13
/-!
# C13, executed part — a reload keeps the state of what it keeps, and applies the file's settings

`Props/C13.lean` proves which actions a (re)load emits. Here the actions are *executed*
(`Model/Reconf.lean`: the `Reconfiguring` arms of the rib and bmp-tcp-in units, spawn, terminate,
BMP traffic through the gates) and the clause "components whose name and type are unchanged keep
running with their state (RIB contents, established sessions) and adopt changed settings … while
traffic is flowing" is stated on the resulting pipeline state.

Quantifiers: every pipeline state, every document, every interleaving of reloads, router
connections and route announcements/withdrawals — no bounds.
-/
namespace Rotonda.Reconf
open Rotonda.Mgr

theorem lstep_ok (v : Variant) (s s' : Live) (l : LLoad) (acts : List Action)
    (h : lstep v s l = (s', .ok acts)) :
    Mgr.step v.mgr s.mgr l.load = (s'.mgr, .ok acts) ∧
      s'.units = bumpAll acts (acts.foldl (exec v l.settings) s.units) := by
  unfold lstep at h
  generalize hr : Mgr.step v.mgr s.mgr l.load = r at h
  obtain ⟨st, res⟩ := r
  cases res with
  | ok a =>
    simp only [Prod.mk.injEq, Result.ok.injEq] at h
    obtain ⟨h1, h2⟩ := h
    subst h2; subst h1
    exact ⟨rfl, rfl⟩
  | err => simp at h
  | panic => simp at h

theorem eq_of_nodup_name (us : List Comp) (h : (us.map Comp.name).Nodup) (a b : Comp)
    (ha : a ∈ us) (hb : b ∈ us) (hn : a.name = b.name) : a = b := by
  induction us with
  | nil => cases ha
  | cons x xs ih =>
    rw [List.map_cons, List.nodup_cons] at h
    rcases List.mem_cons.mp ha with ha | ha <;> rcases List.mem_cons.mp hb with hb | hb
    · rw [ha, hb]
    · exact absurd (List.mem_map.mpr ⟨b, hb, by rw [← hn, ha]⟩) h.1
    · exact absurd (List.mem_map.mpr ⟨a, ha, by rw [hn, hb]⟩) h.1
    · exact ih h.2 ha hb

/-- From a clean loader state: a unit of the file that is referenced and already runs with the
    file's type is reconfigured, and neither terminated nor spawned. (Unit names of a TOML table
    are distinct.) -/
theorem kept_actions (v : Mgr.Variant) (s s' : St) (l : Load) (acts : List Action)
    (hc : s.clean) (h : step v s l = (s', .ok acts)) :
    ∃ cfg, l.goodCfg v.unreach = some cfg ∧
      ∀ c ∈ cfg.units, cfg.unitNames.Nodup → c.name ∈ cfg.links → lookup c.name s.runU = some c.ty →
        .reconfU c.name ∈ acts ∧ (∀ t, .spawnU c.name t ∉ acts) ∧ .termU c.name ∉ acts := by
  obtain ⟨cfg, hgood, hs, hr, ht⟩ := C13_diff_units v s s' l acts hc h
  refine ⟨cfg, hgood, ?_⟩
  intro c hcm hnd hl hrun
  refine ⟨(hr c.name).mpr ⟨c, hcm, rfl, hl, hrun⟩, ?_, ?_⟩
  · intro t hm
    obtain ⟨u, hu, hname, hty, _, hne⟩ := (hs c.name t).mp hm
    have : u = c := eq_of_nodup_name cfg.units hnd u c hu hcm hname
    subst this
    exact hne (by rw [hrun, hty])
  · intro hm
    rcases (ht c.name).mp hm with ⟨u, hu, hname, ty, hlk, hor⟩ | ⟨ty, _, hnot⟩
    · have : u = c := eq_of_nodup_name cfg.units hnd u c hu hcm hname
      subst this
      rw [hrun] at hlk
      injection hlk with hlk
      rcases hor with hor | hor
      · exact hor hl
      · exact hor hlk.symm
    · exact hnot (List.mem_map.mpr ⟨c, hcm, rfl⟩)

/-! ### One reload -/

/-- **C13 (state kept, settings applied).** A successful (re)load from a clean loader state — any
    variant — leaves every unit whose name and type are unchanged (and that the file still
    references) running as *the same unit, reconfigured with the file's settings*: `reconf` is the
    transliterated `Reconfiguring` arm. -/
theorem C13_state_kept (v : Variant) (s s' : Live) (l : LLoad) (acts : List Action)
    (hc : s.mgr.clean) (h : lstep v s l = (s', .ok acts)) :
    ∃ cfg, l.load.goodCfg v.mgr.unreach = some cfg ∧
      ∀ c ∈ cfg.units, cfg.unitNames.Nodup → c.name ∈ cfg.links → lookup c.name s.mgr.runU = some c.ty →
        ∀ u, lookupU c.name s.units = some u →
          lookupU c.name s'.units = some (reconf v u (lookupS c.name l.settings)).bump := by
  obtain ⟨hstep, hunits⟩ := lstep_ok v s s' l acts h
  obtain ⟨cfg, hgood, hk⟩ := kept_actions v.mgr s.mgr s'.mgr l.load acts hc hstep
  refine ⟨cfg, hgood, ?_⟩
  intro c hcm hnd hl hrun u hu
  obtain ⟨hre, hsp, hte⟩ := hk c hcm hnd hl hrun
  rw [hunits, lookupU_bumpAll, lookupU_foldl_exec v l.settings c.name acts s.units hsp hte]
  simp [hre, hu]

/-- … for a rib unit: the store (the `Rib` behind the `Arc`) is the same, `sources`,
    `query_limits` and `filter_name` are the file's; the HTTP path is the file's in the repaired
    variant and the *old* one in the code as written. -/
theorem C13_state_kept_rib (v : Variant) (s s' : Live) (l : LLoad) (acts : List Action)
    (hc : s.mgr.clean) (h : lstep v s l = (s', .ok acts)) :
    ∃ cfg, l.load.goodCfg v.mgr.unreach = some cfg ∧
      ∀ c ∈ cfg.units, cfg.unitNames.Nodup → c.name ∈ cfg.links → lookup c.name s.mgr.runU = some c.ty →
        ∀ r new, lookupU c.name s.units = some (.rib r) → lookupS c.name l.settings = .rib new →
          ∃ r', lookupU c.name s'.units = some (.rib r') ∧ r'.store = r.store ∧
            r'.cfg.sources = new.sources ∧ r'.cfg.v4 = new.v4 ∧ r'.cfg.v6 = new.v6 ∧ r'.cfg.filter = new.filter ∧
            r'.cfg.path = (if v.pathIgnored then r.cfg.path else new.path) := by
  obtain ⟨cfg, hgood, hk⟩ := C13_state_kept v s s' l acts hc h
  refine ⟨cfg, hgood, ?_⟩
  intro c hcm hnd hl hrun r new hu hs
  have := hk c hcm hnd hl hrun (.rib r) hu
  rw [hs] at this
  exact ⟨reconfRib v.pathIgnored r new, this, rfl, rfl, rfl, rfl, rfl, rfl⟩

/-- … for a bmp-tcp-in unit: the router sessions are the same; unless the unit's gate is wedged
    (as written: six reloads with a router connected) the settings are the file's and the listener
    is bound to the file's address. -/
theorem C13_state_kept_bmp (v : Variant) (s s' : Live) (l : LLoad) (acts : List Action)
    (hc : s.mgr.clean) (h : lstep v s l = (s', .ok acts)) :
    ∃ cfg, l.load.goodCfg v.mgr.unreach = some cfg ∧
      ∀ c ∈ cfg.units, cfg.unitNames.Nodup → c.name ∈ cfg.links → lookup c.name s.mgr.runU = some c.ty →
        ∀ b new, lookupU c.name s.units = some (.bmp b) → lookupS c.name l.settings = .bmp new →
          ∃ b', lookupU c.name s'.units = some (.bmp b') ∧ b'.sessions = b.sessions ∧
            (b.wedged v.queueWedge = false →
              b'.cfg = new ∧ b'.bound = new.listen ∧ b'.stale = (b.stale || v.cloneStale)) := by
  obtain ⟨cfg, hgood, hk⟩ := C13_state_kept v s s' l acts hc h
  refine ⟨cfg, hgood, ?_⟩
  intro c hcm hnd hl hrun b new hu hs
  have := hk c hcm hnd hl hrun (.bmp b) hu
  rw [hs] at this
  by_cases hw : b.wedged v.queueWedge = true
  · refine ⟨{ b with reloads := if b.sessions.isEmpty then b.reloads else b.reloads + 1 },
      by simpa [reconf, reconfBmp, hw, Unit.bump] using this, rfl, ?_⟩
    intro h'; rw [hw] at h'; cases h'
  · refine ⟨{ cfg := new, bound := new.listen, sessions := b.sessions, stale := b.stale || v.cloneStale,
              reloads := if b.sessions.isEmpty then b.reloads else b.reloads + 1 },
      by simpa [reconf, reconfBmp, hw, Unit.bump] using this, rfl, ?_⟩
    intro _; exact ⟨rfl, rfl, rfl⟩

/-- **C13 (a failed load does not touch the pipeline).** Whatever the reason (`Err` or panic):
    every running unit, its store, sessions and settings are exactly as before. -/
theorem C13_failed_load_keeps_state (v : Variant) (s : Live) (l : LLoad)
    (h : ∀ acts, (lstep v s l).2 ≠ .ok acts) : (lstep v s l).1.units = s.units := by
  unfold lstep at h ⊢
  generalize Mgr.step v.mgr s.mgr l.load = r at h ⊢
  obtain ⟨st, res⟩ := r
  cases res with
  | ok a => exact absurd rfl (h a)
  | err => rfl
  | panic => rfl

/-! ### "adopt changed settings": the full clause, its counterexample and the repaired code -/

/-- Full clause: after such a reload the kept rib unit works with exactly the file's settings. -/
def C13_settings_adopted_full (v : Variant) : Prop :=
  ∀ (s s' : Live) (l : LLoad) (acts : List Action), s.mgr.clean → lstep v s l = (s', .ok acts) →
    ∀ cfg, l.load.goodCfg v.mgr.unreach = some cfg →
      ∀ c ∈ cfg.units, cfg.unitNames.Nodup → c.name ∈ cfg.links → lookup c.name s.mgr.runU = some c.ty →
        ∀ r new r', lookupU c.name s.units = some (.rib r) → lookupS c.name l.settings = .rib new →
          lookupU c.name s'.units = some (.rib r') → r'.cfg = new

def asWritten : Variant := ⟨Mgr.asWritten, true, true, true⟩
def repaired : Variant := ⟨Mgr.repaired, false, false, false⟩

/-- `b0 -> rib -> null`, one router with one route; the file changes the rib's limit and path. -/
def wDoc : RawDoc :=
  ⟨[⟨0, some 0, .absent, none, 0, none⟩, ⟨2, some 4, .many [.s 0], none, 0, none⟩],
   [⟨0, some 0, .many [.s 2], none, 0, none⟩]⟩
def wState : Live :=
  ⟨⟨[(0, 0), (2, 4)], [(0, 0)], [], []⟩,
   [(0, .bmp ⟨⟨5000⟩, 5000, [7], false, 0⟩), (2, .rib ⟨[⟨1, 7, true⟩], ⟨[0], 8, 19, 0, none⟩⟩)]⟩
def wLoad : LLoad :=
  ⟨⟨false, wDoc, false, [], []⟩, [(0, .bmp ⟨5000⟩), (2, .rib ⟨[0], 16, 19, 1, none⟩)]⟩

/-- As written the reload adopts the new limit (16), keeps the route and the session — and keeps
    answering at the *old* path 0 although the file says 1. -/
theorem C13_path_not_adopted_witness :
    (lstep asWritten wState wLoad).1.units
      = [(0, .bmp ⟨⟨5000⟩, 5000, [7], true, 1⟩), (2, .rib ⟨[⟨1, 7, true⟩], ⟨[0], 16, 19, 0, none⟩⟩)] := by
  decide

theorem C13_settings_adopted_counterexample : ¬ C13_settings_adopted_full asWritten := by
  intro h
  have hstep : lstep asWritten wState wLoad
      = (⟨⟨[(0, 0), (2, 4)], [(0, 0)], [], []⟩,
          [(0, .bmp ⟨⟨5000⟩, 5000, [7], true, 1⟩), (2, .rib ⟨[⟨1, 7, true⟩], ⟨[0], 16, 19, 0, none⟩⟩)]⟩,
         .ok [.reconfT 0, .reconfU 0, .reconfU 2]) := by decide
  have := h wState _ wLoad _ ⟨rfl, rfl⟩ hstep ⟨[⟨0, 0, []⟩, ⟨2, 4, [0]⟩], [⟨0, 0, [2]⟩]⟩ (by decide)
    ⟨2, 4, [0]⟩ (by decide) (by decide) (by decide) (by decide)
    ⟨[⟨1, 7, true⟩], ⟨[0], 8, 19, 0, none⟩⟩ ⟨[0], 16, 19, 1, none⟩ ⟨[⟨1, 7, true⟩], ⟨[0], 16, 19, 0, none⟩⟩
    (by decide) (by decide) (by decide)
  exact absurd this (by decide)

/-- Code as written, partial: everything except the path is the file's. -/
theorem C13_settings_adopted_partial (v : Variant) (s s' : Live) (l : LLoad) (acts : List Action)
    (hc : s.mgr.clean) (h : lstep v s l = (s', .ok acts)) :
    ∃ cfg, l.load.goodCfg v.mgr.unreach = some cfg ∧
      ∀ c ∈ cfg.units, cfg.unitNames.Nodup → c.name ∈ cfg.links → lookup c.name s.mgr.runU = some c.ty →
        ∀ r new r', lookupU c.name s.units = some (.rib r) → lookupS c.name l.settings = .rib new →
          lookupU c.name s'.units = some (.rib r') → { r'.cfg with path := new.path } = new := by
  obtain ⟨cfg, hgood, hk⟩ := C13_state_kept_rib v s s' l acts hc h
  refine ⟨cfg, hgood, ?_⟩
  intro c hcm hnd hl hrun r new r' hu hs hu'
  obtain ⟨r'', h1, _, h3, h4, h5, h6, _⟩ := hk c hcm hnd hl hrun r new hu hs
  rw [hu'] at h1
  injection h1 with h1; injection h1 with h1; subst h1
  cases new
  simp_all

/-- Repaired code (`pathIgnored = false`): the full clause. -/
theorem C13_settings_adopted_repaired (m : Mgr.Variant) (cs qw : Bool) : C13_settings_adopted_full ⟨m, false, cs, qw⟩ := by
  intro s s' l acts hc h cfg hgood c hcm hnd hl hrun r new r' hu hs hu'
  obtain ⟨cfg', hgood', hk⟩ := C13_state_kept_rib ⟨m, false, cs, qw⟩ s s' l acts hc h
  rw [hgood] at hgood'; injection hgood' with hgood'; subst hgood'
  obtain ⟨r'', h1, _, h3, h4, h5, h6, h7⟩ := hk c hcm hnd hl hrun r new hu hs
  rw [hu'] at h1
  injection h1 with h1; injection h1 with h1; subst h1
  cases new
  cases hcfg : r'.cfg
  simp_all

/-! ### Any interleaving of reloads and traffic -/

/-- The load `l` at state `s` neither terminates nor (re)spawns the unit `n`. By `kept_actions`
    this holds from a clean loader state whenever the file keeps `n`'s name and type and still
    references it. -/
def keeps (v : Variant) (n : Name) (s : Live) (l : LLoad) : Prop :=
  ∀ acts, (lstep v s l).2 = .ok acts → (∀ t, .spawnU n t ∉ acts) ∧ .termU n ∉ acts

def keptAlong (v : Variant) (n : Name) : Live → List Ev → Prop
  | _, [] => True
  | s, .load l :: es => keeps v n s l ∧ keptAlong v n (estep v s (.load l)).1 es
  | s, e :: es => keptAlong v n (estep v s e).1 es

theorem lookupU_connectTo (n : Name) (r port : Nat) (units : List (Name × Unit)) (u : Unit)
    (h : lookupU n units = some u) :
    ∃ u', lookupU n (connectTo r port units) = some u' ∧ u'.store = u.store ∧
      (∀ x ∈ u.sessions, x ∈ u'.sessions) := by
  induction units with
  | nil => cases h
  | cons e l ih =>
    obtain ⟨k, w⟩ := e
    by_cases hk : k = n
    · subst hk
      simp only [lookupU, if_true] at h
      injection h with h; subst h
      cases w with
      | bmp b =>
        by_cases hb : b.bound = port
        · by_cases hst : b.stale = true
          · exact ⟨.bmp b, by simp [connectTo, hb, hst, lookupU], rfl, fun x hx => hx⟩
          · exact ⟨.bmp { b with sessions := b.sessions ++ [r] }, by simp [connectTo, hb, hst, lookupU], rfl,
              fun x hx => by simp only [Unit.sessions] at hx ⊢; exact List.mem_append_left _ hx⟩
        · exact ⟨.bmp b, by simp [connectTo, hb, lookupU], rfl, fun x hx => hx⟩
      | rib r => exact ⟨.rib r, by simp [connectTo, lookupU], rfl, fun x hx => hx⟩
      | other t => exact ⟨.other t, by simp [connectTo, lookupU], rfl, fun x hx => hx⟩
    · simp only [lookupU, hk, if_false] at h
      obtain ⟨u', h1, h2, h3⟩ := ih h
      cases w with
      | bmp b =>
        by_cases hb : b.bound = port
        · by_cases hst : b.stale = true
          · exact ⟨u, by simp [connectTo, hb, hst, lookupU, hk, h], rfl, fun x hx => hx⟩
          · exact ⟨u, by simp [connectTo, hb, hst, lookupU, hk, h], rfl, fun x hx => hx⟩
        · exact ⟨u', by simp [connectTo, hb, lookupU, hk, h1], h2, h3⟩
      | rib r => exact ⟨u', by simp [connectTo, lookupU, hk, h1], h2, h3⟩
      | other t => exact ⟨u', by simp [connectTo, lookupU, hk, h1], h2, h3⟩

theorem lookupU_deliver (n b : Name) (recs : List Rec) (units : List (Name × Unit)) (u : Unit)
    (h : lookupU n units = some u) :
    ∃ u', lookupU n (deliver b recs units) = some u' ∧ u'.sessions = u.sessions ∧
      (∀ x ∈ u.store, ∃ y ∈ u'.store, y.pfx = x.pfx ∧ y.src = x.src) := by
  induction units with
  | nil => cases h
  | cons e l ih =>
    obtain ⟨k, w⟩ := e
    by_cases hk : k = n
    · subst hk
      simp only [lookupU, if_true] at h
      injection h with h; subst h
      cases w with
      | rib r =>
        simp only [deliver, List.map_cons]
        split
        · refine ⟨.rib { r with store := recs.foldl (fun st x => applyRec x st) r.store }, by simp [lookupU], rfl, ?_⟩
          intro x hx
          exact key_foldl_applyRec recs r.store x hx
        · exact ⟨.rib r, by simp [lookupU], rfl, fun x hx => ⟨x, hx, rfl, rfl⟩⟩
      | bmp b' => exact ⟨.bmp b', by simp [deliver, lookupU], rfl, fun x hx => ⟨x, hx, rfl, rfl⟩⟩
      | other t => exact ⟨.other t, by simp [deliver, lookupU], rfl, fun x hx => ⟨x, hx, rfl, rfl⟩⟩
    · simp only [lookupU, hk, if_false] at h
      obtain ⟨u', h1, h2, h3⟩ := ih h
      refine ⟨u', ?_, h2, h3⟩
      have : deliver b recs ((k, w) :: l) = (deliver b recs [(k, w)]) ++ deliver b recs l := by
        simp [deliver]
      rw [this, lookupU_append]
      have hk' : lookupU n (deliver b recs [(k, w)]) = none := by
        cases w with
        | rib r => simp only [deliver, List.map_cons, List.map_nil]; split <;> simp [lookupU, hk]
        | bmp b' => simp [deliver, lookupU, hk]
        | other t => simp [deliver, lookupU, hk]
      rw [hk']
      exact h1

/-- one event: the unit is still there, has every session it had and every record key it had -/
theorem estep_kept (v : Variant) (n : Name) (s : Live) (e : Ev) (u : Unit)
    (hk : ∀ l, e = .load l → keeps v n s l) (h : lookupU n s.units = some u) :
    ∃ u', lookupU n (estep v s e).1.units = some u' ∧ (∀ x ∈ u.sessions, x ∈ u'.sessions) ∧
      (∀ x ∈ u.store, ∃ y ∈ u'.store, y.pfx = x.pfx ∧ y.src = x.src) := by
  cases e with
  | load l =>
    have hkl := hk l rfl
    simp only [estep]
    cases hres : (lstep v s l).2 with
    | ok acts =>
      have hfull : lstep v s l = ((lstep v s l).1, .ok acts) := by rw [← hres]
      obtain ⟨_, hunits⟩ := lstep_ok v s _ l acts hfull
      obtain ⟨hsp, hte⟩ := hkl acts hres
      rw [hunits, lookupU_bumpAll, lookupU_foldl_exec v l.settings n acts s.units hsp hte, h]
      by_cases hr : Action.reconfU n ∈ acts
      · refine ⟨(reconf v u (lookupS n l.settings)).bump, by simp [hr], ?_, ?_⟩
        · intro x hx; rw [bump_sessions, reconf_sessions]; exact hx
        · intro x hx; rw [bump_store, reconf_store]; exact ⟨x, hx, rfl, rfl⟩
      · exact ⟨u, by simp [hr], fun x hx => hx, fun x hx => ⟨x, hx, rfl, rfl⟩⟩
    | err =>
      have := C13_failed_load_keeps_state v s l (by intro a; rw [hres]; exact fun h => by cases h)
      rw [this]
      exact ⟨u, h, fun x hx => hx, fun x hx => ⟨x, hx, rfl, rfl⟩⟩
    | panic =>
      have := C13_failed_load_keeps_state v s l (by intro a; rw [hres]; exact fun h => by cases h)
      rw [this]
      exact ⟨u, h, fun x hx => hx, fun x hx => ⟨x, hx, rfl, rfl⟩⟩
  | connect r port =>
    simp only [estep]
    obtain ⟨u', h1, h2, h3⟩ := lookupU_connectTo n r port s.units u h
    exact ⟨u', h1, h3, fun x hx => ⟨x, by rw [h2]; exact hx, rfl, rfl⟩⟩
  | route r active pfxs lost =>
    simp only [estep]
    cases hb : sessionUnit r s.units with
    | none => exact ⟨u, h, fun x hx => hx, fun x hx => ⟨x, hx, rfl, rfl⟩⟩
    | some b =>
      obtain ⟨u', h1, h2, h3⟩ := lookupU_deliver n b _ s.units u h
      exact ⟨u', h1, fun x hx => by rw [h2]; exact hx, h3⟩

/-- **C13 (RIB contents and sessions survive any history).** Along *any* sequence of events —
    reloads (successful or failed, changing anything else in the file), routers connecting,
    announcements and withdrawals, in any interleaving — in which no reload terminates or respawns
    the unit `n`: the unit is still running at the end, every router session it had is still
    there, and every (prefix, ingress) record it had is still in its store (with the status the
    traffic since gave it). -/
theorem C13_contents_survive_history (v : Variant) (n : Name) (evs : List Ev) (s : Live) (u : Unit)
    (hk : keptAlong v n s evs) (h : lookupU n s.units = some u) :
    ∃ u', lookupU n (erun v s evs).units = some u' ∧ (∀ x ∈ u.sessions, x ∈ u'.sessions) ∧
      (∀ x ∈ u.store, ∃ y ∈ u'.store, y.pfx = x.pfx ∧ y.src = x.src) := by
  induction evs generalizing s u with
  | nil => exact ⟨u, h, fun x hx => hx, fun x hx => ⟨x, hx, rfl, rfl⟩⟩
  | cons e es ih =>
    have hke : ∀ l, e = .load l → keeps v n s l := by
      intro l hl; subst hl; exact hk.1
    have hkr : keptAlong v n (estep v s e).1 es := by
      cases e with
      | load l => exact hk.2
      | connect r p => exact hk
      | route r a p q => exact hk
    obtain ⟨u1, h1, hs1, hr1⟩ := estep_kept v n s e u hke h
    obtain ⟨u2, h2, hs2, hr2⟩ := ih (estep v s e).1 u1 hkr h1
    refine ⟨u2, h2, fun x hx => hs2 x (hs1 x hx), ?_⟩
    intro x hx
    obtain ⟨y, hy, hky⟩ := hr1 x hx
    obtain ⟨z, hz, hkz⟩ := hr2 y hy
    exact ⟨z, hz, hkz.1.trans hky.1, hkz.2.trans hky.2⟩

/-! ### Traffic reaches the RIB, except inside the reconfigure window -/

theorem lookupU_deliver_rib (n b : Name) (recs : List Rec) (units : List (Name × Unit)) (r : RibUnit)
    (h : lookupU n units = some (.rib r)) (hs : r.cfg.sources.contains b = true) :
    lookupU n (deliver b recs units)
      = some (.rib { r with store := recs.foldl (fun st x => applyRec x st) r.store }) := by
  induction units with
  | nil => cases h
  | cons e l ih =>
    obtain ⟨k, w⟩ := e
    by_cases hk : k = n
    · subst hk
      simp only [lookupU, if_true] at h
      injection h with h; subst h
      have hs' : b ∈ r.cfg.sources := by simpa using hs
      simp [deliver, hs', lookupU]
    · simp only [lookupU, hk, if_false] at h
      have : deliver b recs ((k, w) :: l) = (deliver b recs [(k, w)]) ++ deliver b recs l := by
        simp [deliver]
      rw [this, lookupU_append]
      have hk' : lookupU n (deliver b recs [(k, w)]) = none := by
        cases w with
        | rib r => simp only [deliver, List.map_cons, List.map_nil]; split <;> simp [lookupU, hk]
        | bmp b' => simp [deliver, lookupU, hk]
        | other t => simp [deliver, lookupU, hk]
      rw [hk']
      exact ih h

/-- Full clause "while traffic is flowing": every prefix a router announces on its session is in
    the store of every rib unit wired to that session's unit. -/
def C13_traffic_delivered_full (v : Variant) : Prop :=
  ∀ (s : Live) (r : Nat) (pfxs lost : List Nat) (b n : Name) (ru : RibUnit),
    sessionUnit r s.units = some b → lookupU n s.units = some (.rib ru) → ru.cfg.sources.contains b = true →
      ∃ ru', lookupU n (estep v s (.route r true pfxs lost)).1.units = some (.rib ru') ∧
        ∀ p ∈ pfxs, ⟨p, r, true⟩ ∈ ru'.store

/-- Partial: nothing was published inside a reconfigure window (`lost = []`). Settings and all
    other records' keys are untouched (`lookupU_deliver`). -/
theorem C13_traffic_delivered_partial (v : Variant) (s : Live) (r : Nat) (pfxs : List Nat)
    (b n : Name) (ru : RibUnit)
    (hb : sessionUnit r s.units = some b) (hn : lookupU n s.units = some (.rib ru))
    (hs : ru.cfg.sources.contains b = true) :
    ∃ ru', lookupU n (estep v s (.route r true pfxs [])).1.units = some (.rib ru') ∧ ru'.cfg = ru.cfg ∧
      ∀ p ∈ pfxs, ⟨p, r, true⟩ ∈ ru'.store := by
  simp only [estep, hb]
  rw [lookupU_deliver_rib n b _ s.units ru hn hs]
  refine ⟨_, rfl, rfl, ?_⟩
  intro p hp
  have : (pfxs.filter (fun p => !([] : List Nat).contains p)) = pfxs := by simp
  simp only [this]
  exact mem_foldl_announce r pfxs ru.store p (Or.inl hp)

/-- The window: `b0 -> rib`, router 7 connected; an unchanged file is reloaded and the router's
    announcement of prefix 3 is published after the gate of `b0` installed the new (empty)
    subscriber set and before the rib unit subscribed again (`lost = [3]`, as observed on the real
    code): prefix 2, announced in the same message but delivered, is in the store; prefix 3 is not
    — and never will be unless the router sends it again. -/
def wSame : LLoad := ⟨⟨false, wDoc, false, [], []⟩, [(0, .bmp ⟨5000⟩), (2, .rib ⟨[0], 8, 19, 0, none⟩)]⟩

theorem C13_window_loss_witness :
    lookupU 2 (erun asWritten wState [.load wSame, .route 7 true [2, 3] [3]]).units
      = some (.rib ⟨[⟨1, 7, true⟩, ⟨2, 7, true⟩], ⟨[0], 8, 19, 0, none⟩⟩) := by
  decide

theorem C13_traffic_delivered_counterexample : ¬ C13_traffic_delivered_full asWritten := by
  intro h
  obtain ⟨ru', h1, h2⟩ := h wState 7 [3] [3] 0 2 ⟨[⟨1, 7, true⟩], ⟨[0], 8, 19, 0, none⟩⟩
    (by decide) (by decide) (by decide)
  have hlk : lookupU 2 (estep asWritten wState (.route 7 true [3] [3])).1.units
      = some (.rib ⟨[⟨1, 7, true⟩], ⟨[0], 8, 19, 0, none⟩⟩) := by decide
  rw [hlk] at h1
  injection h1 with h1; injection h1 with h1; subst h1
  exact absurd (h2 3 (by decide)) (by decide)

/-! ### A kept bmp-tcp-in unit must keep serving routers that connect after the reload -/

/-- Full clause: after a reload that keeps a healthy bmp-tcp-in unit, the unit's gate can still be
    cloned for a new router (`stale = false`), so the next router that connects gets a session. -/
def C13_new_sessions_full (v : Variant) : Prop :=
  ∀ (s s' : Live) (l : LLoad) (acts : List Action), s.mgr.clean → lstep v s l = (s', .ok acts) →
    ∀ cfg, l.load.goodCfg v.mgr.unreach = some cfg →
      ∀ c ∈ cfg.units, cfg.unitNames.Nodup → c.name ∈ cfg.links → lookup c.name s.mgr.runU = some c.ty →
        ∀ b new b', lookupU c.name s.units = some (.bmp b) → b.stale = false → lookupS c.name l.settings = .bmp new →
          lookupU c.name s'.units = some (.bmp b') → b'.stale = false

/-- As written: router 7's session survives the reload of an unchanged file, router 8, which
    connects afterwards to the same (still listening) port, is accepted and dropped; its routes
    never arrive. -/
theorem C13_new_router_dropped_witness :
    (erun asWritten wState [.load wSame, .connect 8 5000, .route 8 true [4] [], .route 7 true [2] []]).units
      = [(0, .bmp ⟨⟨5000⟩, 5000, [7], true, 1⟩), (2, .rib ⟨[⟨1, 7, true⟩, ⟨2, 7, true⟩], ⟨[0], 8, 19, 0, none⟩⟩)] := by
  decide

theorem C13_new_sessions_counterexample : ¬ C13_new_sessions_full asWritten := by
  intro h
  have hstep : lstep asWritten wState wLoad
      = (⟨⟨[(0, 0), (2, 4)], [(0, 0)], [], []⟩,
          [(0, .bmp ⟨⟨5000⟩, 5000, [7], true, 1⟩), (2, .rib ⟨[⟨1, 7, true⟩], ⟨[0], 16, 19, 0, none⟩⟩)]⟩,
         .ok [.reconfT 0, .reconfU 0, .reconfU 2]) := by decide
  have := h wState _ wLoad _ ⟨rfl, rfl⟩ hstep ⟨[⟨0, 0, []⟩, ⟨2, 4, [0]⟩], [⟨0, 0, [2]⟩]⟩ (by decide)
    ⟨0, 0, []⟩ (by decide) (by decide) (by decide) (by decide)
    ⟨⟨5000⟩, 5000, [7], false, 0⟩ ⟨5000⟩ ⟨⟨5000⟩, 5000, [7], true, 1⟩ (by decide) rfl (by decide) (by decide)
  exact absurd this (by decide)

/-- Repaired (`cloneStale = false`): the full clause. -/
theorem C13_new_sessions_repaired (m : Mgr.Variant) (pi : Bool) : C13_new_sessions_full ⟨m, pi, false, false⟩ := by
  intro s s' l acts hc h cfg hgood c hcm hnd hl hrun b new b' hu hst hs hu'
  obtain ⟨cfg', hgood', hk⟩ := C13_state_kept_bmp ⟨m, pi, false, false⟩ s s' l acts hc h
  rw [hgood] at hgood'; injection hgood' with hgood'; subst hgood'
  obtain ⟨b'', h1, _, h3⟩ := hk c hcm hnd hl hrun b new hu hs
  rw [hu'] at h1
  injection h1 with h1; injection h1 with h1; subst h1
  obtain ⟨_, _, h5⟩ := h3 (by simp [BmpUnit.wedged])
  rw [h5, hst]; rfl

/-- … and a router that connects to the port of a healthy unit gets its session. -/
theorem C13_connect_served (r port : Nat) (n : Name) (b : BmpUnit) (rest : List (Name × Unit))
    (hb : b.bound = port) (hs : b.stale = false) :
    connectTo r port ((n, .bmp b) :: rest) = (n, .bmp { b with sessions := b.sessions ++ [r] }) :: rest := by
  simp [connectTo, hb, hs]

/-! ### Repeated reloads with a router connected: the gate wedges -/

/-- Full clause for the listen address: a kept bmp-tcp-in unit listens where the file says. -/
def C13_listen_adopted_full (v : Variant) : Prop :=
  ∀ (s s' : Live) (l : LLoad) (acts : List Action), s.mgr.clean → lstep v s l = (s', .ok acts) →
    ∀ cfg, l.load.goodCfg v.mgr.unreach = some cfg →
      ∀ c ∈ cfg.units, cfg.unitNames.Nodup → c.name ∈ cfg.links → lookup c.name s.mgr.runU = some c.ty →
        ∀ b new b', lookupU c.name s.units = some (.bmp b) → lookupS c.name l.settings = .bmp new →
          lookupU c.name s'.units = some (.bmp b') → b'.bound = new.listen

def wPort : LLoad := ⟨⟨false, wDoc, false, [], []⟩, [(0, .bmp ⟨5001⟩), (2, .rib ⟨[0], 8, 19, 0, none⟩)]⟩

/-- As written: router 7 stays connected through six reloads of an unchanged file; the seventh
    reload moves the listener to port 5001 — and is never seen by the unit. -/
theorem C13_wedge_witness :
    lookupU 0 (erun asWritten wState
      [.load wSame, .load wSame, .load wSame, .load wSame, .load wSame, .load wSame, .load wPort]).units
      = some (.bmp ⟨⟨5000⟩, 5000, [7], true, 7⟩) := by
  decide

/-- the same history, repaired: the listener moves -/
example :
    lookupU 0 (erun repaired wState
      [.load wSame, .load wSame, .load wSame, .load wSame, .load wSame, .load wSame, .load wPort]).units
      = some (.bmp ⟨⟨5001⟩, 5001, [7], false, 7⟩) := by
  decide

def wWedged : Live :=
  ⟨⟨[(0, 0), (2, 4)], [(0, 0)], [], []⟩,
   [(0, .bmp ⟨⟨5000⟩, 5000, [7], true, 6⟩), (2, .rib ⟨[⟨1, 7, true⟩], ⟨[0], 8, 19, 0, none⟩⟩)]⟩

theorem C13_listen_adopted_counterexample : ¬ C13_listen_adopted_full asWritten := by
  intro h
  have hstep : lstep asWritten wWedged wPort
      = (⟨⟨[(0, 0), (2, 4)], [(0, 0)], [], []⟩,
          [(0, .bmp ⟨⟨5000⟩, 5000, [7], true, 7⟩), (2, .rib ⟨[⟨1, 7, true⟩], ⟨[0], 8, 19, 0, none⟩⟩)]⟩,
         .ok [.reconfT 0, .reconfU 0, .reconfU 2]) := by decide
  have := h wWedged _ wPort _ ⟨rfl, rfl⟩ hstep ⟨[⟨0, 0, []⟩, ⟨2, 4, [0]⟩], [⟨0, 0, [2]⟩]⟩ (by decide)
    ⟨0, 0, []⟩ (by decide) (by decide) (by decide) (by decide)
    ⟨⟨5000⟩, 5000, [7], true, 6⟩ ⟨5001⟩ ⟨⟨5000⟩, 5000, [7], true, 7⟩ (by decide) (by decide) (by decide)
  exact absurd this (by decide)

/-- Repaired (`queueWedge = false`): the full clause. (As written it holds under the guard
    `b.wedged = false`: `C13_state_kept_bmp`.) -/
theorem C13_listen_adopted_repaired (m : Mgr.Variant) (pi cs : Bool) : C13_listen_adopted_full ⟨m, pi, cs, false⟩ := by
  intro s s' l acts hc h cfg hgood c hcm hnd hl hrun b new b' hu hs hu'
  obtain ⟨cfg', hgood', hk⟩ := C13_state_kept_bmp ⟨m, pi, cs, false⟩ s s' l acts hc h
  rw [hgood] at hgood'; injection hgood' with hgood'; subst hgood'
  obtain ⟨b'', h1, _, h3⟩ := hk c hcm hnd hl hrun b new hu hs
  rw [hu'] at h1
  injection h1 with h1; injection h1 with h1; subst h1
  exact (h3 (by simp [BmpUnit.wedged])).2.1

/-- non-vacuity of `C13_state_kept` / `C13_contents_survive_history`: the witness state is clean,
    the reload is one that keeps both units, and a history with a failed load, a second router and a
    withdrawal in between ends with both sessions and the old route's key still there. -/
example : wState.mgr.clean ∧ keptAlong asWritten 2 wState
    [.load wLoad, .connect 8 5000, .load ⟨⟨true, wDoc, false, [], []⟩, []⟩, .route 8 true [1, 5] [], .route 7 false [1] []] := by
  refine ⟨⟨rfl, rfl⟩, ?_⟩
  simp only [keptAlong, keeps]
  refine ⟨?_, ?_, trivial⟩
  · intro acts h
    have : (lstep asWritten wState wLoad).2 = .ok [.reconfT 0, .reconfU 0, .reconfU 2] := by decide
    rw [this] at h; injection h with h; subst h
    exact ⟨fun t hm => by simp at hm, by decide⟩
  · intro acts h
    have : (lstep asWritten (estep asWritten (estep asWritten wState (Ev.load wLoad)).fst (Ev.connect 8 5000)).fst
        ⟨⟨true, wDoc, false, [], []⟩, []⟩).2 = .err := by decide
    rw [this] at h; cases h

example :
    (erun asWritten wState
      [.load wLoad, .connect 8 5000, .load ⟨⟨true, wDoc, false, [], []⟩, []⟩, .route 8 true [1, 5] [], .route 7 false [1] []]).units
      = [(0, .bmp ⟨⟨5000⟩, 5000, [7], true, 1⟩),
         (2, .rib ⟨[⟨1, 7, false⟩], ⟨[0], 16, 19, 0, none⟩⟩)] := by
  decide

/-- the same history on the repaired code: router 8 is served, its routes arrive, the path is adopted -/
example :
    (erun repaired wState
      [.load wLoad, .connect 8 5000, .load ⟨⟨true, wDoc, false, [], []⟩, []⟩, .route 8 true [1, 5] [], .route 7 false [1] []]).units
      = [(0, .bmp ⟨⟨5000⟩, 5000, [7, 8], false, 1⟩),
         (2, .rib ⟨[⟨1, 7, false⟩, ⟨1, 8, true⟩, ⟨5, 8, true⟩], ⟨[0], 16, 19, 1, none⟩⟩)] := by
  decide

/-! ### Query wiring of virtual RIBs: after every reload every link is current -/

/-- the unit an action of `spawn_internal` is about -/
def unitOf : Action → Option Name
  | .spawnU n _ => some n
  | .reconfU n => some n
  | .termU n => some n
  | _ => none

theorem unitOf_ne (a : Action) (m n : Name) (h : m ≠ n) (ha : unitOf a = some n) : unitOf a ≠ some m := by
  rw [ha]; intro hc; injection hc with hc; exact h hc.symm

theorem mem_linkOf (ups : Name → Option Name) (g : Nat) (n : Name) (e : Name × VLink) (h : e ∈ linkOf ups g n) :
    e.1 = n ∧ e.2.gen = g ∧ ups n = some e.2.up := by
  unfold linkOf at h
  cases hu : ups n with
  | none => simp [hu] at h
  | some u => simp [hu] at h; subst h; exact ⟨rfl, rfl, rfl⟩

theorem wexec_gen (adopt : Bool) (ups : Name → Option Name) (g : Nat) (w : Wire) (a : Action) :
    (wexec adopt ups g w a).gen = w.gen := by
  cases a <;> rfl

theorem foldl_wexec_gen (adopt : Bool) (ups : Name → Option Name) (g : Nat) (acts : List Action) (w : Wire) :
    (acts.foldl (wexec adopt ups g) w).gen = w.gen := by
  induction acts generalizing w with
  | nil => rfl
  | cons a rest ih => rw [List.foldl_cons, ih, wexec_gen]

theorem wexec_gates (adopt : Bool) (ups : Name → Option Name) (g : Nat) (w : Wire) (a : Action) (e : Name × Nat)
    (h : e ∈ (wexec adopt ups g w a).gates) :
    (e.2 = g ∧ ((∃ t, a = .spawnU e.1 t) ∨ a = .reconfU e.1)) ∨ (e ∈ w.gates ∧ unitOf a ≠ some e.1) := by
  cases a with
  | spawnU n t =>
    simp only [wexec, List.mem_cons, List.mem_filter] at h
    rcases h with h | ⟨h1, h2⟩
    · subst h; exact Or.inl ⟨rfl, Or.inl ⟨t, rfl⟩⟩
    · exact Or.inr ⟨h1, unitOf_ne _ _ _ (by simpa using h2) (by simp [unitOf])⟩
  | reconfU n =>
    simp only [wexec, List.mem_cons, List.mem_filter] at h
    rcases h with h | ⟨h1, h2⟩
    · subst h; exact Or.inl ⟨rfl, Or.inr rfl⟩
    · exact Or.inr ⟨h1, unitOf_ne _ _ _ (by simpa using h2) (by simp [unitOf])⟩
  | termU n =>
    simp only [wexec, List.mem_filter] at h
    exact Or.inr ⟨h.1, unitOf_ne _ _ _ (by simpa using h.2) (by simp [unitOf])⟩
  | spawnT n t => exact Or.inr ⟨h, by simp [unitOf]⟩
  | reconfT n => exact Or.inr ⟨h, by simp [unitOf]⟩
  | termT n => exact Or.inr ⟨h, by simp [unitOf]⟩

/-- the `Reconfiguring` arm as it is (`adopt = true`) -/
theorem wexec_links (ups : Name → Option Name) (g : Nat) (w : Wire) (a : Action) (e : Name × VLink)
    (h : e ∈ (wexec true ups g w a).links) :
    (e.2.gen = g ∧ ups e.1 = some e.2.up ∧ ((∃ t, a = .spawnU e.1 t) ∨ a = .reconfU e.1)) ∨ (e ∈ w.links ∧ unitOf a ≠ some e.1) := by
  cases a with
  | spawnU n t =>
    simp only [wexec, List.mem_append, List.mem_filter] at h
    rcases h with h | ⟨h1, h2⟩
    · obtain ⟨h1, h2, h3⟩ := mem_linkOf ups g n e h
      subst h1; exact Or.inl ⟨h2, h3, Or.inl ⟨t, rfl⟩⟩
    · exact Or.inr ⟨h1, unitOf_ne _ _ _ (by simpa using h2) (by simp [unitOf])⟩
  | reconfU n =>
    simp only [wexec, if_true, List.mem_append, List.mem_filter] at h
    rcases h with h | ⟨h1, h2⟩
    · obtain ⟨h1, h2, h3⟩ := mem_linkOf ups g n e h
      subst h1; exact Or.inl ⟨h2, h3, Or.inr rfl⟩
    · exact Or.inr ⟨h1, unitOf_ne _ _ _ (by simpa using h2) (by simp [unitOf])⟩
  | termU n =>
    simp only [wexec, List.mem_filter] at h
    exact Or.inr ⟨h.1, unitOf_ne _ _ _ (by simpa using h.2) (by simp [unitOf])⟩
  | spawnT n t => exact Or.inr ⟨h, by simp [unitOf]⟩
  | reconfT n => exact Or.inr ⟨h, by simp [unitOf]⟩
  | termT n => exact Or.inr ⟨h, by simp [unitOf]⟩

theorem foldl_wexec_gates (adopt : Bool) (ups : Name → Option Name) (g : Nat) (acts : List Action) (w : Wire) (e : Name × Nat)
    (h : e ∈ (acts.foldl (wexec adopt ups g) w).gates) :
    (e.2 = g ∧ ((∃ t, .spawnU e.1 t ∈ acts) ∨ .reconfU e.1 ∈ acts)) ∨ (e ∈ w.gates ∧ ∀ a ∈ acts, unitOf a ≠ some e.1) := by
  induction acts generalizing w with
  | nil => exact Or.inr ⟨h, fun a ha => by cases ha⟩
  | cons a rest ih =>
    rw [List.foldl_cons] at h
    rcases ih _ h with ⟨h1, h2⟩ | ⟨h1, h2⟩
    · refine Or.inl ⟨h1, ?_⟩
      rcases h2 with ⟨t, ht⟩ | h2
      · exact Or.inl ⟨t, List.mem_cons_of_mem _ ht⟩
      · exact Or.inr (List.mem_cons_of_mem _ h2)
    · rcases wexec_gates adopt ups g w a e h1 with ⟨h3, h4⟩ | ⟨h3, h4⟩
      · refine Or.inl ⟨h3, ?_⟩
        rcases h4 with ⟨t, ht⟩ | h4
        · exact Or.inl ⟨t, by rw [ht]; exact List.mem_cons_self⟩
        · exact Or.inr (by rw [h4]; exact List.mem_cons_self)
      · refine Or.inr ⟨h3, ?_⟩
        intro b hb
        rcases List.mem_cons.mp hb with hb | hb
        · rw [hb]; exact h4
        · exact h2 b hb

theorem foldl_wexec_links (ups : Name → Option Name) (g : Nat) (acts : List Action) (w : Wire) (e : Name × VLink)
    (h : e ∈ (acts.foldl (wexec true ups g) w).links) :
    (e.2.gen = g ∧ ups e.1 = some e.2.up ∧ ((∃ t, .spawnU e.1 t ∈ acts) ∨ .reconfU e.1 ∈ acts)) ∨ (e ∈ w.links ∧ ∀ a ∈ acts, unitOf a ≠ some e.1) := by
  induction acts generalizing w with
  | nil => exact Or.inr ⟨h, fun a ha => by cases ha⟩
  | cons a rest ih =>
    rw [List.foldl_cons] at h
    rcases ih _ h with ⟨h1, hu, h2⟩ | ⟨h1, h2⟩
    · refine Or.inl ⟨h1, hu, ?_⟩
      rcases h2 with ⟨t, ht⟩ | h2
      · exact Or.inl ⟨t, List.mem_cons_of_mem _ ht⟩
      · exact Or.inr (List.mem_cons_of_mem _ h2)
    · rcases wexec_links ups g w a e h1 with ⟨h3, hu, h4⟩ | ⟨h3, h4⟩
      · refine Or.inl ⟨h3, hu, ?_⟩
        rcases h4 with ⟨t, ht⟩ | h4
        · exact Or.inl ⟨t, by rw [ht]; exact List.mem_cons_self⟩
        · exact Or.inr (by rw [h4]; exact List.mem_cons_self)
      · refine Or.inr ⟨h3, ?_⟩
        intro b hb
        rcases List.mem_cons.mp hb with hb | hb
        · rw [hb]; exact h4
        · exact h2 b hb

theorem lookup_some_mem (n : Name) (t : Ty) (l : List (Name × Ty)) (h : lookup n l = some t) : (n, t) ∈ l := by
  induction l with
  | nil => cases h
  | cons x xs ih =>
    unfold lookup at h
    by_cases hx : x.1 = n
    · rw [if_pos hx] at h; injection h with h
      have : x = (n, t) := by cases x; simp at hx h; simp [hx, h]
      rw [this]; exact List.mem_cons_self
    · rw [if_neg hx] at h; exact List.mem_cons_of_mem _ (ih h)

theorem lookup_ne_none_of_mem (n : Name) (t : Ty) (l : List (Name × Ty)) (h : (n, t) ∈ l) : lookup n l ≠ none := by
  induction l with
  | nil => cases h
  | cons x xs ih =>
    unfold lookup
    by_cases hx : x.1 = n
    · rw [if_pos hx]; simp
    · rw [if_neg hx]
      rcases List.mem_cons.mp h with h | h
      · exact absurd (by rw [← h]) hx
      · exact ih h

/-- Every successful load — clean loader state or not — acts on every unit that was running:
    reconfigure, terminate, or terminate + spawn. -/
theorem step_touches_running (v : Mgr.Variant) (s s' : St) (l : Load) (acts : List Action)
    (h : step v s l = (s', .ok acts)) (n : Name) (hn : lookup n s.runU ≠ none) :
    ∃ a ∈ acts, unitOf a = some n := by
  obtain ⟨doc, cfg, _, _, _, _, _, hacts, _⟩ := step_ok v s s' l acts h
  rw [hacts, unitActions_eq]
  cases hl : lookup n s.runU with
  | none => exact absurd hl hn
  | some ty =>
    by_cases hmem : n ∈ cfg.units.map Comp.name
    · obtain ⟨u, hu, hname⟩ := List.mem_map.mp hmem
      generalize union (v.pending0 s) (union (v.gates0 s) cfg.links) = pending
      by_cases hk : n ∈ pending ∧ ty = u.ty
      · refine ⟨.reconfU n, ?_, rfl⟩
        apply List.mem_append_right; apply List.mem_append_left
        exact List.mem_flatMap.mpr ⟨u, hu, (mem_unitStep_reconf s.runU pending u n).mpr ⟨hname, hk.1, by rw [hl, hk.2]⟩⟩
      · refine ⟨.termU n, ?_, rfl⟩
        apply List.mem_append_right; apply List.mem_append_left
        refine List.mem_flatMap.mpr ⟨u, hu, (mem_unitStep_term s.runU pending u n).mpr ⟨hname, ty, hl, ?_⟩⟩
        by_cases hp : n ∈ pending
        · exact Or.inr (fun h => hk ⟨hp, h⟩)
        · exact Or.inl hp
    · refine ⟨.termU n, ?_, rfl⟩
      apply List.mem_append_right; apply List.mem_append_right
      exact List.mem_map.mpr ⟨(n, ty), List.mem_filter.mpr ⟨lookup_some_mem n ty s.runU hl, by simpa using hmem⟩, rfl⟩

theorem targetActions_no_unit (runT : List (Name × Ty)) (ts : List Comp) (a : Action) (h : a ∈ targetActions runT ts) :
    unitOf a = none := by
  rw [targetActions_eq] at h
  rcases List.mem_append.mp h with h | h
  · obtain ⟨t, _, ht⟩ := List.mem_flatMap.mp h
    rcases targetStep_kinds runT t a ht with ⟨_, _, rfl⟩ | ⟨_, rfl⟩ | ⟨_, rfl⟩ <;> rfl
  · obtain ⟨e, _, he⟩ := List.mem_map.mp h
    rw [← he]; rfl

/-- A unit a successful load spawns or reconfigures is running afterwards. -/
theorem step_started_runs (v : Mgr.Variant) (s s' : St) (l : Load) (acts : List Action)
    (h : step v s l = (s', .ok acts)) (n : Name)
    (hn : (∃ t, .spawnU n t ∈ acts) ∨ .reconfU n ∈ acts) : lookup n s'.runU ≠ none := by
  obtain ⟨doc, cfg, _, _, _, _, _, hacts, hs'⟩ := step_ok v s s' l acts h
  rw [hs']
  simp only
  generalize union (v.pending0 s) (union (v.gates0 s) cfg.links) = pending at hacts ⊢
  have key : ∀ a ∈ acts, ((∃ t, a = .spawnU n t) ∨ a = .reconfU n) → ∃ u ∈ cfg.units, u.name = n ∧ n ∈ pending := by
    intro a ha hk
    rw [hacts] at ha
    rcases List.mem_append.mp ha with ha | ha
    · have := targetActions_no_unit _ _ a ha
      rcases hk with ⟨t, rfl⟩ | rfl <;> simp [unitOf] at this
    · rw [unitActions_eq] at ha
      rcases List.mem_append.mp ha with ha | ha
      · obtain ⟨u, hu, hau⟩ := List.mem_flatMap.mp ha
        rcases hk with ⟨t, rfl⟩ | rfl
        · obtain ⟨h1, _, h3, _⟩ := (mem_unitStep_spawn s.runU pending u n t).mp hau
          exact ⟨u, hu, h1, h3⟩
        · obtain ⟨h1, h3, _⟩ := (mem_unitStep_reconf s.runU pending u n).mp hau
          exact ⟨u, hu, h1, h3⟩
      · obtain ⟨e, _, he⟩ := List.mem_map.mp ha
        rcases hk with ⟨t, rfl⟩ | rfl <;> cases he
  obtain ⟨u, hu, hname, hp⟩ : ∃ u ∈ cfg.units, u.name = n ∧ n ∈ pending := by
    rcases hn with ⟨t, ht⟩ | hr
    · exact key _ ht (Or.inl ⟨t, rfl⟩)
    · exact key _ hr (Or.inr rfl)
  apply lookup_ne_none_of_mem n u.ty
  exact List.mem_map.mpr ⟨u, List.mem_filter.mpr ⟨hu, by simpa [hname] using hp⟩, by rw [hname]⟩

theorem lstep_mgr (v : Variant) (s : Live) (l : LLoad) :
    (lstep v s l).1.mgr = (Mgr.step v.mgr s.mgr l.load).1 ∧ (lstep v s l).2 = (Mgr.step v.mgr s.mgr l.load).2 := by
  unfold lstep
  generalize Mgr.step v.mgr s.mgr l.load = r
  obtain ⟨st, res⟩ := r
  cases res <;> exact ⟨rfl, rfl⟩

/-- The wiring invariant: every running unit serves the command channel of the last successful
    load, and every virtual RIB's query link sends into a channel of that load. -/
def Wire.current (w : Wire) (runU : List (Name × Ty)) : Prop :=
  (∀ e ∈ w.gates, e.2 = w.gen ∧ lookup e.1 runU ≠ none) ∧
  (∀ e ∈ w.links, e.2.gen = w.gen ∧ lookup e.1 runU ≠ none)

theorem wstep_current (v : Variant) (s : LiveW) (l : LLoad) (h : s.wire.current s.live.mgr.runU) :
    (wstep true v s l).1.wire.current (wstep true v s l).1.live.mgr.runU := by
  unfold wstep
  generalize hr : lstep v s.live l = r
  obtain ⟨s', res⟩ := r
  cases res with
  | ok acts =>
    obtain ⟨hstep, _⟩ := lstep_ok v s.live s' l acts hr
    simp only
    have hgen := foldl_wexec_gen true (upsOfLoad v l) (s.wire.gen + 1) acts { s.wire with gen := s.wire.gen + 1 }
    refine ⟨?_, ?_⟩
    · intro e he
      rw [hgen]
      rcases foldl_wexec_gates true _ _ acts _ e he with ⟨h1, h2⟩ | ⟨h1, h2⟩
      · exact ⟨h1, step_started_runs v.mgr s.live.mgr s'.mgr l.load acts hstep e.1 h2⟩
      · obtain ⟨a, ha, hau⟩ := step_touches_running v.mgr s.live.mgr s'.mgr l.load acts hstep e.1 (h.1 e h1).2
        exact absurd hau (h2 a ha)
    · intro e he
      rw [hgen]
      rcases foldl_wexec_links _ _ acts _ e he with ⟨h1, _, h2⟩ | ⟨h1, h2⟩
      · exact ⟨h1, step_started_runs v.mgr s.live.mgr s'.mgr l.load acts hstep e.1 h2⟩
      · obtain ⟨a, ha, hau⟩ := step_touches_running v.mgr s.live.mgr s'.mgr l.load acts hstep e.1 (h.2 e h1).2
        exact absurd hau (h2 a ha)
  | err =>
    have hk : s'.mgr.runU = s.live.mgr.runU := by
      obtain ⟨h1, h2⟩ := lstep_mgr v s.live l
      rw [hr] at h1 h2
      simp only at h1 h2
      rw [h1]
      exact (C13_failed_load_keeps_running v.mgr s.live.mgr l.load (fun acts ha => by rw [← h2] at ha; cases ha)).1
    simp only [hk]; exact h
  | panic =>
    have hk : s'.mgr.runU = s.live.mgr.runU := by
      obtain ⟨h1, h2⟩ := lstep_mgr v s.live l
      rw [hr] at h1 h2
      simp only at h1 h2
      rw [h1]
      exact (C13_failed_load_keeps_running v.mgr s.live.mgr l.load (fun acts ha => by rw [← h2] at ha; cases ha)).1
    simp only [hk]; exact h

theorem westep_current (v : Variant) (s : LiveW) (e : Ev) (h : s.wire.current s.live.mgr.runU) :
    (westep true v s e).1.wire.current (westep true v s e).1.live.mgr.runU := by
  cases e with
  | load l => exact wstep_current v s l h
  | connect r port => exact h
  | route r active pfxs lost =>
    simp only [westep, estep]
    cases sessionUnit r s.live.units <;> exact h

/-- **C13 (wiring, every history).** Along every history of (re)loads — successful, failing, panicking,
    clean loader state or not, either variant — router connections, announcements and withdrawals, the
    wiring invariant holds: every running unit serves the command channel created by the last
    successful load and every running virtual RIB's query link was created by that load too. -/
theorem C13_wiring_current_history (v : Variant) (evs : List Ev) (s : LiveW) (h : s.wire.current s.live.mgr.runU) :
    (wrun true v s evs).wire.current (wrun true v s evs).live.mgr.runU := by
  induction evs generalizing s with
  | nil => exact h
  | cons e es ih => exact ih _ (westep_current v s e h)

theorem lookupG_mem (n : Name) (g : Nat) (l : List (Name × Nat)) (h : lookupG n l = some g) : (n, g) ∈ l := by
  induction l with
  | nil => cases h
  | cons x xs ih =>
    unfold lookupG at h
    by_cases hx : x.1 = n
    · rw [if_pos hx] at h; injection h with h
      have : x = (n, g) := by cases x; simp at hx h; simp [hx, h]
      rw [this]; exact List.mem_cons_self
    · rw [if_neg hx] at h; exact List.mem_cons_of_mem _ (ih h)

theorem lookupL_mem (n : Name) (k : VLink) (l : List (Name × VLink)) (h : lookupL n l = some k) : (n, k) ∈ l := by
  induction l with
  | nil => cases h
  | cons x xs ih =>
    unfold lookupL at h
    by_cases hx : x.1 = n
    · rw [if_pos hx] at h; injection h with h
      have : x = (n, k) := by cases x; simp at hx h; simp [hx, h]
      rw [this]; exact List.mem_cons_self
    · rw [if_neg hx] at h; exact List.mem_cons_of_mem _ (ih h)

/-- **C13 (after any sequence of reloads every kept virtual RIB's query link is current).** From
    start-up, after every history, a query to a running virtual RIB whose upstream unit runs is
    answered: its link sends into the command channel that unit serves *now*. -/
theorem C13_vrib_link_current (v : Variant) (evs : List Ev) (n : Name) (k : VLink) (g : Nat)
    (hl : lookupL n (wrun true v LiveW.init evs).wire.links = some k)
    (hg : lookupG k.up (wrun true v LiveW.init evs).wire.gates = some g) :
    k.gen = g ∧ (wrun true v LiveW.init evs).wire.answers n = true := by
  have h0 : LiveW.init.wire.current LiveW.init.live.mgr.runU := by
    refine ⟨fun e he => ?_, fun e he => ?_⟩ <;> simp [LiveW.init, Wire.init] at he
  have hinv := C13_wiring_current_history v evs LiveW.init h0
  have h1 := (hinv.2 (n, k) (lookupL_mem n k _ hl)).1
  have h2 := (hinv.1 (k.up, g) (lookupG_mem k.up g _ hg)).1
  simp only at h1 h2
  refine ⟨by rw [h1, h2], ?_⟩
  unfold Wire.answers
  rw [hl]; simp only [hg]
  simp [h1, h2]

/-! The shape of a violation: a unit whose `Reconfiguring` arm does not adopt the file's
    `vrib_upstream` (`adopt = false`) keeps sending its triggers into the channel its physical RIB
    served before the reload. `b0 -> rib (filter_names = [f0, f1]) -> null`: -/
def wVribDoc : RawDoc :=
  ⟨[⟨0, some 0, .absent, none, 0, none⟩, ⟨2, some 4, .many [.s 0], none, 2, none⟩],
   [⟨0, some 0, .many [.s 2], none, 0, none⟩]⟩
def wVribLoad : LLoad :=
  ⟨⟨false, wVribDoc, false, [], []⟩, [(0, .bmp ⟨5000⟩), (2, .rib ⟨[0], 8, 19, 0, none⟩), (120, .rib ⟨[2], 8, 19, 0, none⟩)]⟩

/-- start-up: the generated virtual RIB `rib-vRIB-0` (120) runs and its query is answered -/
theorem C13_vrib_answers_after_startup :
    (wrun true asWritten LiveW.init [.load wVribLoad]).wire = ⟨1, [(120, 1), (2, 1), (0, 1)], [(120, ⟨2, 1⟩)]⟩ ∧
    (wrun true asWritten LiveW.init [.load wVribLoad]).wire.answers 120 = true := by decide

/-- the code as it is: after a reload of the unchanged file (and a failed load, and traffic) still answered -/
theorem C13_vrib_answers_after_reload :
    (wrun true asWritten LiveW.init [.load wVribLoad, .connect 7 5000, .load wVribLoad, .load ⟨⟨true, wVribDoc, false, [], []⟩, []⟩, .route 7 true [1] []]).wire.answers 120 = true := by decide

/-- a unit that keeps the link it was started with: after one reload the query is never answered -/
theorem C13_vrib_stale_link_shape :
    (wrun false asWritten LiveW.init [.load wVribLoad, .load wVribLoad]).wire.links = [(120, ⟨2, 1⟩)] ∧
    lookupG 2 (wrun false asWritten LiveW.init [.load wVribLoad, .load wVribLoad]).wire.gates = some 2 ∧
    (wrun false asWritten LiveW.init [.load wVribLoad, .load wVribLoad]).wire.answers 120 = false := by decide

end Rotonda.Reconf
