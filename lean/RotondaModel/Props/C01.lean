import RotondaModel.Proofs.Rib
/-!
# C01 — RIB content equals the replay of every peer's announce/withdraw stream

Model: `Model/Rib.lean` (`run`, `Rib.query`), specification: `last` (three lines, SAFI-blind,
RFC 4271 §4.3). All theorems quantify over every history, prefix and source; no bound on length.

* `C01_refinement`      per SAFI table, every reachable RIB is the fold of the per-event spec
                         (any variant, any history including session-level withdrawals).
* `C01_exactly_one`     a query never reports two entries for one source.
* `C01_malformed_noop`  an UPDATE that fails to parse changes nothing, wherever it occurs.
* `C01_full`            the property as stated — FALSE of the code as written:
  `C01_overlap_counterexample` (one UPDATE withdrawing and announcing a prefix ends withdrawn) and
  `C01_xsafi_counterexample`   (a multicast-only route is hidden when another source has the prefix
                                in unicast).
* `C01_partial`         the full statement for the code as written under the two guards that name
                         exactly what is excluded (`Ev.noOverlap`, `singleSafi`).
* `C01_overlap_repaired` with the overlap repair (`overlapFix`) only `singleSafi` remains.
-/
namespace Rotonda.Rib

/-- Refinement: for every variant, history, SAFI table, prefix and source the stored record and the
    global marker are the fold of `specEv` over the history. -/
theorem C01_refinement (v : Variant) (h : History) (mc : Bool) (p : Prefix) (m : Mui) :
    (run v h).abs mc p m = specRun v mc p m h := abs_run v h mc p m

example : (run asWritten [.upd 1 (.ok 5 [⟨⟨.v4, 8, 10⟩, .unicast⟩] []), .upd 1 (.ok 0 [] [⟨⟨.v4, 8, 10⟩, .unicast⟩])]).abs
    false ⟨.v4, 8, 10⟩ 1 = ⟨some (.withdrawn, 5), false⟩ := by decide

/-- Exactly one entry per source in every answer (any variant, history, prefix, query options). -/
theorem C01_exactly_one (v : Variant) (h : History) (p : Prefix) (o : MatchOpts) :
    (((run v h).query p o).map Rec.mui).Nodup := Rib.nodup_query _ (WF_run v h) p o

example : ((run asWritten [.upd 1 (.ok 5 [⟨⟨.v4, 8, 10⟩, .unicast⟩] []), .upd 2 (.ok 6 [⟨⟨.v4, 8, 10⟩, .unicast⟩] []),
    .upd 1 (.ok 7 [⟨⟨.v4, 8, 10⟩, .unicast⟩] [])]).query ⟨.v4, 8, 10⟩).length = 2 := by decide

/-- An UPDATE that fails to parse changes nothing at all, wherever it sits in the history. -/
theorem C01_malformed_noop (v : Variant) (h1 h2 : History) (m : Mui) :
    run v (h1 ++ .upd m .malformed :: h2) = run v (h1 ++ h2) := by
  simp [run, runFrom, List.foldl_append, Ev.updates, ingest, explode, Rib.applyAll]

/-- The property as stated (for histories of UPDATEs). -/
def C01_full (v : Variant) : Prop :=
  ∀ h : History, h.all Ev.isUpd = true → ∀ (p : Prefix) (m : Mui) (st : Status) (a : AttrId),
    (⟨m, st, a⟩ : Rec) ∈ (run v h).query p ↔ last h p m = some (st, a)

def p24 : Prefix := ⟨.v4, 24, 655617⟩   -- 10.1.1.0/24

/-- One UPDATE that withdraws and announces 10.1.1.0/24 leaves it withdrawn (RFC 4271 §4.3 says active). -/
theorem C01_overlap_counterexample : ¬ C01_full asWritten := by
  intro hf
  have := hf [.upd 2 (.ok 7 [⟨p24, .unicast⟩] [⟨p24, .unicast⟩])] (by decide) p24 2 .active 7
  revert this
  decide

/-- Source 2 announces 10.1.1.0/24 in unicast, source 3 in multicast: the answer lacks source 3. -/
theorem C01_xsafi_counterexample : ¬ C01_full asWritten := by
  intro hf
  have := hf [.upd 2 (.ok 3 [⟨p24, .unicast⟩] []), .upd 3 (.ok 5 [⟨p24, .multicast⟩] [])] (by decide) p24 3 .active 5
  revert this
  decide

/-- The overlap repair alone does not make the statement true (the cross-SAFI defect remains). -/
theorem C01_xsafi_counterexample_repaired : ¬ C01_full { overlapFix := true } := by
  intro hf
  have := hf [.upd 2 (.ok 3 [⟨p24, .unicast⟩] []), .upd 3 (.ok 5 [⟨p24, .multicast⟩] [])] (by decide) p24 3 .active 5
  revert this
  decide

theorem C01_guarded (v : Variant) (h : History) (hu : h.all Ev.isUpd = true)
    (hov : v.overlapFix = true ∨ h.all Ev.noOverlap = true)
    (p : Prefix) (hs : singleSafi h p = true) (m : Mui) (st : Status) (a : AttrId) :
    (⟨m, st, a⟩ : Rec) ∈ (run v h).query p ↔ last h p m = some (st, a) := by
  have hwf := WF_run v h
  -- pick the table `mc` that `p` is used with; the other one is never addressed for `p`
  have key : ∀ mc : Bool, h.any (Ev.mentions (!mc) p) = false →
      ((⟨m, st, a⟩ : Rec) ∈ (run v h).query p ↔ last h p m = some (st, a)) := by
    intro mc hno
    have hother : ∀ m', (run v h).get (!mc) p m' = none := by
      intro m'
      have := congrArg Abs.e (C01_refinement v h (!mc) p m')
      simp only [Rib.abs] at this
      rw [Rib.get, this]
      exact specRun_untouched v (!mc) p m' h hno _ rfl
    rw [Rib.mem_query_of_empty _ hwf p mc hother, Rib.entry_eq_abs, C01_refinement]
    have hd := specRun_down_false v mc p m h hu ⟨none, false⟩ rfl
    have he := specRun_eq_last v mc p m h hu hov hno ⟨none, false⟩
    simp only [specRun, last] at hd he ⊢
    simp only [Abs.entry, hd, he, Bool.false_eq_true, if_false]
    cases h.foldl (lastStep p m) none <;> simp
  simp only [singleSafi, Bool.or_eq_true, Bool.not_eq_true'] at hs
  rcases hs with hs | hs
  · exact key true (by simpa using hs)
  · exact key false (by simpa using hs)

/-- **C01 for the code as written**, under the two guards: no UPDATE of the history both announces
    and withdraws one NLRI, and the queried prefix is used with only one of unicast / multicast. -/
theorem C01_partial (h : History) (hu : h.all Ev.isUpd = true) (hov : h.all Ev.noOverlap = true)
    (p : Prefix) (hs : singleSafi h p = true) (m : Mui) (st : Status) (a : AttrId) :
    (⟨m, st, a⟩ : Rec) ∈ (run asWritten h).query p ↔ last h p m = some (st, a) :=
  C01_guarded asWritten h hu (Or.inr hov) p hs m st a

-- the guards are satisfiable by a non-trivial history, and each excludes something real
example : let h : History := [.upd 2 (.ok 3 [⟨p24, .unicast⟩] []), .upd 3 (.ok 4 [⟨p24, .unicast⟩] []),
    .upd 2 (.ok 0 [] [⟨p24, .unicast⟩]), .upd 2 .malformed, .upd 3 (.ok 6 [⟨p24, .unicast⟩] [])]
    h.all Ev.isUpd = true ∧ h.all Ev.noOverlap = true ∧ singleSafi h p24 = true
      ∧ last h p24 2 = some (.withdrawn, 3) ∧ last h p24 3 = some (.active, 6) := by decide
example : ([.upd 2 (.ok 7 [⟨p24, .unicast⟩] [⟨p24, .unicast⟩])] : History).all Ev.noOverlap = false := by decide
example : singleSafi [.upd 2 (.ok 3 [⟨p24, .unicast⟩] []), .upd 3 (.ok 5 [⟨p24, .multicast⟩] [])] p24 = false := by decide

/-- **C01 with the overlap repair** (withdrawals of an UPDATE do not undo its own announcements):
    the RFC 4271 §4.3 clause holds; only the cross-SAFI guard remains. -/
theorem C01_overlap_repaired (h : History) (hu : h.all Ev.isUpd = true)
    (p : Prefix) (hs : singleSafi h p = true) (m : Mui) (st : Status) (a : AttrId) :
    (⟨m, st, a⟩ : Rec) ∈ (run { overlapFix := true } h).query p ↔ last h p m = some (st, a) :=
  C01_guarded { overlapFix := true } h hu (Or.inl rfl) p hs m st a

example : (run { overlapFix := true } [.upd 2 (.ok 7 [⟨p24, .unicast⟩] [⟨p24, .unicast⟩])]).query p24
    = [⟨2, .active, 7⟩] := by decide

end Rotonda.Rib
