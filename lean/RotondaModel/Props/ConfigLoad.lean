import RotondaModel.Model.ConfigLoad
import RotondaModel.Props.C13
/-!
Property theorems of the ConfigLoad area (loader entry of property C13: a configuration FILE on disk
through `ConfigFile::load` → `Config::from_config_file` / `from_arg_matches` → `spawn`).
-/
namespace Rotonda.ConfigLoad
open Rotonda.Mgr
open Rotonda.Http (Bytes parseUInt)

/-! ### A rejected file never changes what runs -/

/-- **Rejected ⇒ untouched.** Whatever the reason (file missing, not TOML, serde, roto script,
    unresolved link, even a loader panic), a load that is not accepted leaves the running units and
    targets exactly as they were — any variant, any history. (Carried over from
    `C13_failed_load_keeps_running`; a missing file touches nothing at all.) -/
theorem CL_rejected_keeps_running (v : Variant) (s : St) (l : FLoad)
    (hr : ∀ acts w, (fstep v s l).2 ≠ .ok acts w) :
    (fstep v s l).1.runU = s.runU ∧ (fstep v s l).1.runT = s.runT := by
  unfold fstep at hr ⊢
  by_cases he : l.fileExists = true
  · simp only [he, Bool.not_true, Bool.false_eq_true, if_false] at hr ⊢
    have key := C13_failed_load_keeps_running v.mgr s (Load.ofFile l)
    cases hst : step v.mgr s (Load.ofFile l) with
    | mk s' r =>
      cases r with
      | ok acts => simp [hst] at hr
      | err => simp only [hst] at key ⊢; exact key (by intro acts h; cases h)
      | panic => simp only [hst] at key ⊢; exact key (by intro acts h; cases h)
  · simp [he]

/-- a missing file changes no loader state at all -/
theorem CL_missing_file_changes_nothing (v : Variant) (s : St) (l : FLoad) (he : l.fileExists = false) :
    fstep v s l = (s, .io) := by
  simp [fstep, he]

/-- the error class is an error: `fstep` accepts exactly when C13's `step` accepts the file's document -/
theorem CL_accept_iff (v : Variant) (s : St) (l : FLoad) (he : l.fileExists = true) (acts : List Action) :
    (∃ w, (fstep v s l).2 = .ok acts w) ↔ (step v.mgr s (Load.ofFile l)).2 = .ok acts := by
  unfold fstep
  simp only [he, Bool.not_true, Bool.false_eq_true, if_false]
  cases hst : step v.mgr s (Load.ofFile l) with
  | mk s' r =>
    cases r with
    | ok a => simp
    | err =>
      simp only [reduceCtorEq, iff_false, not_exists]
      intro w h
      unfold classifyErr at h
      split at h
      · cases h
      · split at h
        · cases h
        · split at h
          · cases h
          · split at h <;> cases h
    | panic => simp

/-- a bmp-tcp-in unit and a null-out target fed by it, in a file with a compiling roto script -/
def exLoad : FLoad :=
  { fileExists := true, script := .good, lens := [3, 0], opts := [],
    load := { notToml := false, roto := false, residue := [], moved := [],
              doc := { units := [{ name := 0, ty := some 0, sources := .absent, source := none, filters := 0, upstream := none }],
                       targets := [{ name := 0, ty := some 0, sources := .one (.s 0), source := none, filters := 0, upstream := none }] } } }

example : (fstep ⟨Mgr.repaired, true, false⟩ St.init exLoad).2 = .ok [.spawnT 0 0, .spawnU 0 0] 0
    ∧ (fstep ⟨Mgr.repaired, true, false⟩ St.init { exLoad with script := .broken }).2 = .roto
    ∧ (fstep ⟨Mgr.repaired, true, false⟩ St.init { exLoad with fileExists := false }).2 = .io := by decide

/-! ### The position mark -/

theorem startsFrom_length (acc : Nat) (lens : List Nat) : (startsFrom acc lens).length = lens.length := by
  induction lens generalizing acc with
  | nil => rfl
  | cons l ls ih => simp [startsFrom, ih]

theorem startsFrom_getLast (acc : Nat) (lens : List Nat) :
    (acc :: startsFrom acc lens).getLast? = some (acc + lens.sum) := by
  induction lens generalizing acc with
  | nil => simp [startsFrom]
  | cons l ls ih =>
    simp only [startsFrom, List.sum_cons]
    rw [List.getLast?_cons_cons, ih]; simp [Nat.add_assoc]

/-- **What the code prints for a link (as written).** Every link's mark has offset 0, and
    `resolve_pos 0` is: line = the number of '\n'-separated pieces of the document, column = the sum of
    their lengths. -/
theorem CL_link_mark_as_written (lens : List Nat) : linkMark lens = .at lens.length lens.sum := by
  unfold linkMark resolvePosW lineStartsW
  have hfind : (0 :: startsFrom 0 lens).find? (fun s => decide (s < 0)) = none := by
    rw [List.find?_eq_none]; intro x _; simp
  simp only [hfind, List.length_cons, startsFrom_length]
  have hidx : (0 :: startsFrom 0 lens)[lens.length]? = some lens.sum := by
    have h := startsFrom_getLast 0 lens
    rw [List.getLast?_eq_getElem?] at h
    simpa [startsFrom_length] using h
  simp [hidx]

/-- The clause: the mark lies in the document — its line is one of the document's lines and the column
    is within that line (one past the end allowed). `lens` are the lengths of the '\n'-pieces;
    a document that ends in a newline has an empty last piece, which is not a line. -/
def markInside (lens : List Nat) : Pos → Bool
  | .panic => false
  | .at line col => 1 ≤ line && line ≤ lens.length && col ≤ lens.getD (line - 1) 0 + 1

/-- **Counterexample (code as written).** For the document the loader works on (it always ends in a
    newline: last piece empty) the printed column exceeds the addressed line as soon as the document has
    two characters: the mark of *every* unresolved link lies outside *every* such document. -/
theorem CL_link_mark_outside (lens : List Nat) (hne : lens ≠ []) (hlast : lens.getLast? = some 0)
    (hsum : 2 ≤ lens.sum) : markInside lens (linkMark lens) = false := by
  rw [CL_link_mark_as_written]
  unfold markInside
  have hlen : 1 ≤ lens.length := by cases lens with | nil => exact absurd rfl hne | cons _ _ => simp
  have hget : lens[lens.length - 1]?.getD 0 = 0 := by
    rw [List.getLast?_eq_getElem?] at hlast
    simp [hlast]
  simp [hget, hlen]; omega

theorem CL_link_mark_counterexample :
    linkMark [44, 0, 12, 17, 19, 0, 10, 18, 18, 0] = .at 10 138
    ∧ markInside [44, 0, 12, 17, 19, 0, 10, 18, 18, 0] (linkMark [44, 0, 12, 17, 19, 0, 10, 18, 18, 0]) = false := by
  decide

/-- **`resolve_pos` as written cannot position anything:** for every offset greater than zero — that is,
    for every real span — it panics (`0 - 1` on the line number; `ConfigError::new`, the one caller that
    has spans, is dead code). -/
theorem CL_resolve_pos_panics_for_every_span (lens : List Nat) (pos : Nat) (hp : 0 < pos) :
    resolvePosW (lineStartsW lens) pos = .panic := by
  unfold resolvePosW lineStartsW
  have : (0 :: startsFrom 0 lens).find? (fun s => decide (s < pos)) = some 0 := by
    simp [List.find?, hp]
  simp [this]

/-- **Repaired:** a link without a span prints no line and column: nothing points outside the document. -/
theorem CL_link_marks_repaired (v : Variant) (hv : v.markW = false) (l : FLoad) (marks : List Pos)
    (h : classifyErr v l = .unresolved marks) : marks = [] := by
  unfold classifyErr at h
  split at h
  · cases h
  · split at h
    · cases h
    · split at h
      · cases h
      · split at h
        · cases h
        · simp [hv] at h; exact h

/-- **The proposed `resolve_pos`** (not reached by a link any more; stated for the function the fix
    installs): for an offset inside the document the mark is a line of the document, a column of that
    line, and it is the position of that very offset. -/
theorem CL_resolve_pos_repaired (lens : List Nat) (pos : Nat) (hne : lens ≠ [])
    (hp : pos < (lens.map (· + 1)).sum) :
    1 ≤ (resolvePosR lens pos).1 ∧ (resolvePosR lens pos).1 ≤ lens.length
    ∧ 1 ≤ (resolvePosR lens pos).2 ∧ (resolvePosR lens pos).2 ≤ lens.getD ((resolvePosR lens pos).1 - 1) 0 + 1
    ∧ offsetOf lens (resolvePosR lens pos) = pos := by
  induction lens generalizing pos with
  | nil => exact absurd rfl hne
  | cons l ls ih =>
    unfold resolvePosR
    by_cases h : pos ≤ l
    · simp [h, offsetOf]
    · simp only [h, if_false]
      have hls : ls ≠ [] := by
        intro e; subst e; simp at hp; omega
      have hp' : pos - l - 1 < (ls.map (· + 1)).sum := by simp at hp ⊢; omega
      obtain ⟨a, b, c, d, e⟩ := ih (pos - l - 1) hls hp'
      refine ⟨by omega, by simp; omega, c, ?_, ?_⟩
      · have : (resolvePosR ls (pos - l - 1)).1 + 1 - 1 = ((resolvePosR ls (pos - l - 1)).1 - 1) + 1 := by omega
        rw [this]; simpa using d
      · obtain ⟨n, hn⟩ : ∃ n, (resolvePosR ls (pos - l - 1)).1 = n + 1 := ⟨_, (Nat.sub_add_cancel a).symm⟩
        have : offsetOf (l :: ls) ((resolvePosR ls (pos - l - 1)).1 + 1, (resolvePosR ls (pos - l - 1)).2)
            = l + 1 + offsetOf ls (resolvePosR ls (pos - l - 1)) := by
          rw [hn]; simp only [offsetOf]
          congr 2
          rw [← hn]
        rw [this, e]; omega

example : resolvePosR [44, 0, 12, 17] 47 = (3, 2) ∧ offsetOf [44, 0, 12, 17] (3, 2) = 47 := by decide

/-! ### `unit:queue-len` -/

/-- **What parses** (`usize::from_str`, transliterated as `Http.parseUInt`): an optional `+`, then
    digits, value at most `usize::MAX` — zero included, nothing else. -/
theorem CL_queue_len_parses :
    parseQueueLen [48] = some 0 ∧ parseQueueLen [49, 54] = some 16 ∧ parseQueueLen [43, 52] = some 4
    ∧ parseQueueLen [48, 48, 55] = some 7
    ∧ parseQueueLen [] = none ∧ parseQueueLen [45, 49] = none ∧ parseQueueLen [32, 56] = none
    ∧ parseQueueLen [49, 46, 53] = none ∧ parseQueueLen [97, 98, 99] = none ∧ parseQueueLen [56, 58, 57] = none
    ∧ parseQueueLen [49, 56, 52, 52, 54, 55, 52, 52, 48, 55, 51, 55, 48, 57, 53, 53, 49, 54, 49, 53] = some usizeMax
    ∧ parseQueueLen [49, 56, 52, 52, 54, 55, 52, 52, 48, 55, 51, 55, 48, 57, 53, 53, 49, 54, 49, 54] = none := by
  decide

theorem CL_queue_len_bound (opts : Bytes) (n : Nat) (h : parseQueueLen opts = some n) : n ≤ usizeMax := by
  unfold parseQueueLen parseUInt at h
  simp only at h
  repeat' split at h
  all_goals first
    | (cases h; assumption)
    | cases h

/-- **Counterexample (as written):** `0` and `2305843009213693952` parse, are taken as the queue
    length, and the gate cannot build its channel with them. -/
theorem CL_queue_len_counterexample :
    live ⟨Mgr.repaired, true, false⟩ [48] = .gatePanics
    ∧ live ⟨Mgr.repaired, true, false⟩ [50, 51, 48, 53, 56, 52, 51, 48, 48, 57, 50, 49, 51, 54, 57, 51, 57, 53, 50] = .gatePanics
    ∧ live ⟨Mgr.repaired, true, false⟩ [56] = .runs false
    ∧ live ⟨Mgr.repaired, true, false⟩ [97] = .runs true := by decide

theorem channelOk_default : channelOk defQueueLen = true := by decide

theorem live_runs_of_ok (v : Variant) (opts : Bytes) (h : channelOk (queueLen v.queueR opts).1 = true) :
    ∃ d, live v opts = .runs d := ⟨(queueLen v.queueR opts).2, by simp [live, h]⟩

/-- **Partial (as written):** an option that parses to a length between 1 and `MAX_PERMITS`, or does not
    parse at all, never panics the gate. -/
theorem CL_queue_len_partial (v : Variant) (opts : Bytes)
    (guard : ∀ n, parseQueueLen opts = some n → channelOk n = true) : ∃ d, live v opts = .runs d := by
  apply live_runs_of_ok
  unfold queueLen
  cases h : parseQueueLen opts with
  | none => exact channelOk_default
  | some n =>
    have hn := guard n h
    simp only
    split
    · exact channelOk_default
    · exact hn

/-- **Repaired: full strength.** Whatever follows the colon, the gate gets a length it can build a
    channel with. -/
theorem CL_queue_len_repaired (m : Mgr.Variant) (w : Bool) (opts : Bytes) :
    ∃ d, live ⟨m, w, true⟩ opts = .runs d := by
  apply live_runs_of_ok
  unfold queueLen
  cases h : parseQueueLen opts with
  | none => exact channelOk_default
  | some n =>
    simp only
    split
    · exact channelOk_default
    · rename_i hc
      simp only [Bool.true_and, Bool.not_eq_true', Bool.not_eq_false] at hc
      exact hc

example : live ⟨Mgr.repaired, false, true⟩ [48] = .runs true := by decide

end Rotonda.ConfigLoad
