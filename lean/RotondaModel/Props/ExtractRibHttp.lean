import RotondaModel.Model.RibQuery
import RotondaModel.Model.Http
import RotondaModel.Generated.RibHttp
/-!
# Extraction tie: the RIB HTTP API's recognised parameters, values and the `FilterOp` truth table

`Generated/RibHttp.lean` is regenerated from the source text of
`src/units/rib_unit/http/{request.rs,response.rs,types.rs}` on every run (`tools/extract_ribhttp.py`).
This file proves that the two hand-written models of that API — `Model/RibQuery.lean` (C11: what a query
answers) and `Model/Http.lean` (C12: which status a request gets) — recognise exactly the parameter names,
values and filter families read off the code, in the code's order, and combine filters with the quantifiers
the code uses for each `FilterOp`.
-/
namespace Rotonda.RibQuery
open Rotonda.Generated

/-- look a model string up in a generated `(literal, meaning)` table -/
def lookupLit {α} (x : Str) (t : List (String × α)) : Option α :=
  (t.find? (fun e => x == e.1.toList)).map (·.2)

/-- the indices one generated parameter use marks as used -/
def usesOf (ps : List Param) (e : String × Bool) : List Nat :=
  match e.2 with
  | true => (allIdx e.1.toList ps 0).map (·.1)
  | false => match firstIdx e.1.toList ps 0 with | some (i, _, _) => [i] | none => []

/-- **Recognised parameters (C11 model).** The parameters `handle_prefix_query` marks as used — everything else
    is "Unrecognized query parameters" — are the generated uses, in the generated order, each with the generated
    first/all discipline. -/
theorem usedIdx_eq_generated (ps : List Param) : usedIdx ps = RibHttp.paramUses.flatMap (usesOf ps) := by
  simp only [usedIdx, RibHttp.paramUses, usesOf, List.flatMap_cons, List.flatMap_nil, List.append_nil, List.append_assoc]
  rfl

def Includes.set (inc : Includes) : RibHttp.IncludeField → Includes
  | .less_specifics => { inc with less := true }
  | .more_specifics => { inc with more := true }

/-- **`include=` values.** One step of the loop of `parse_include_param`: the generated table decides. -/
theorem parseIncludeItems_eq_generated (x : Str) (xs : List Str) (inc : Includes) :
    parseIncludeItems (x :: xs) inc =
      match lookupLit x RibHttp.includeValues with
      | some f => parseIncludeItems xs (inc.set f)
      | none => .error .badInclude := by
  by_cases h1 : x = "lessSpecifics".toList
  · subst h1; rfl
  · by_cases h2 : x = "moreSpecifics".toList
    · subst h2; rfl
    · have b1 : (x == "lessSpecifics".toList) = false := by simpa using h1
      have b2 : (x == "moreSpecifics".toList) = false := by simpa using h2
      unfold parseIncludeItems lookupLit
      simp only [RibHttp.includeValues, List.find?, b1, b2]
      rfl

/-- **`details=` values.** -/
theorem parseDetails_eq_generated (ps : List Param) :
    parseDetails ps = match firstIdx "details".toList ps 0 with
      | some (_, _, v) =>
        if (splitComma v).all (fun x => RibHttp.detailsValues.any (fun s => x == s.toList)) then .ok () else .error .badDetails
      | none => .ok () := by
  unfold parseDetails
  cases firstIdx "details".toList ps 0 with
  | none => rfl
  | some t =>
    obtain ⟨i, fam, v⟩ := t
    simp only [RibHttp.detailsValues, List.any_cons, List.any_nil, Bool.or_false]

def opAll : RibHttp.FilterOp → Bool
  | .any => false | .all => true

/-- **`filter_op=` values and default.** -/
theorem parseFilters_eq_generated (ps : List Param) :
    parseFilters ps =
      match extractAll (allIdx "select".toList ps 0) with
      | .error e => .error e
      | .ok selects =>
        match extractAll (allIdx "discard".toList ps 0) with
        | .error e => .error e
        | .ok discards =>
          match firstIdx "filter_op".toList ps 0 with
          | none => .ok ⟨opAll RibHttp.filterOpDefault, selects, discards⟩
          | some (_, _, v) =>
            match lookupLit v RibHttp.filterOpValues with
            | some op => .ok ⟨opAll op, selects, discards⟩
            | none => .error .badFilterOp := by
  unfold parseFilters
  cases extractAll (allIdx "select".toList ps 0) with
  | error e => rfl
  | ok selects =>
    cases extractAll (allIdx "discard".toList ps 0) with
    | error e => rfl
    | ok discards =>
      cases firstIdx "filter_op".toList ps 0 with
      | none => rfl
      | some t =>
        obtain ⟨i, fam, v⟩ := t
        by_cases h1 : v = "any".toList
        · subst h1; rfl
        · by_cases h2 : v = "all".toList
          · subst h2; rfl
          · have b1 : (v == "any".toList) = false := by simpa using h1
            have b2 : (v == "all".toList) = false := by simpa using h2
            unfold lookupLit
            simp only [RibHttp.filterOpValues, List.find?, b1, b2]
            rfl

/-- **Filter families.** `extract_filter_kind` on `select[fam]=v`: the generated family table decides which
    `FilterKind` is built; an unknown family is an error. -/
theorem extractFilterKind_eq_generated (fam v : Str) :
    extractFilterKind (some fam, v) =
      match lookupLit fam RibHttp.filterFamilies with
      | some .asPath => (match parseAsnList (splitComma v) with | some l => .ok (.asPath l) | none => .error .badFilterValue)
      | some .peerAs => (match parseAsn v with | some a => .ok (.peerAs a) | none => .error .badFilterValue)
      | some .community => (match parseCommunity v with | some c => .ok (.community c) | none => .error .badFilterValue)
      | none => .error .badFilterFamily := by
  by_cases h1 : fam = "as_path".toList
  · subst h1; rfl
  · by_cases h2 : fam = "peer_as".toList
    · subst h2; rfl
    · by_cases h3 : fam = "community".toList
      · subst h3; rfl
      · have b1 : (fam == "as_path".toList) = false := by simpa using h1
        have b2 : (fam == "peer_as".toList) = false := by simpa using h2
        have b3 : (fam == "community".toList) = false := by simpa using h3
        unfold extractFilterKind lookupLit
        simp only [RibHttp.filterFamilies, List.find?, b1, b2, b3]
        rfl

def quant {α} (q : RibHttp.Quant) (l : List α) (p : α → Bool) : Bool :=
  match q with
  | .any => l.any p | .all => l.all p

def opOf (f : Filters) : RibHttp.FilterOp := match f.all with | true => .all | false => .any

/-- **The `FilterOp` truth table.** `include_item_in_results` of the model is the generated early return plus
    the generated quantifier over the selects and over the (negated) discards, for every filter set and record. -/
theorem includeItem_eq_generated (v : Variant) (reg : Register) (f : Filters) (r : Rec) :
    includeItem v reg f r =
      if f.selects.isEmpty && f.discards.isEmpty then RibHttp.emptyFiltersIncludeAll
      else (f.selects.isEmpty || quant (RibHttp.selectQuant (opOf f)) f.selects (matchesKind v reg r))
        && (f.discards.isEmpty || !quant (RibHttp.discardQuant (opOf f)) f.discards (matchesKind v reg r)) := by
  obtain ⟨all, sel, dis⟩ := f
  cases all <;> simp [includeItem, opOf, quant, RibHttp.selectQuant, RibHttp.discardQuant, RibHttp.emptyFiltersIncludeAll]

end Rotonda.RibQuery

namespace Rotonda.Http
open Rotonda.Generated

/-- **Recognised names (C12 model).** The byte strings the HTTP status model compares query parameter names,
    `include` / `details` / `filter_op` values and filter families with are the UTF-8 bytes of the generated
    lists (names in the code's order, value lists sorted by literal). -/
theorem http_names_eq_generated :
    [sInclude, sDetails, sSelect, sDiscard, sFilterOp, sSort, sFormat] = RibHttp.paramNamesB
    ∧ [sLess, sMore] = RibHttp.includeValuesB
    ∧ [sCommunities] = RibHttp.detailsValuesB
    ∧ [sAll, sAny] = RibHttp.filterOpValuesB
    ∧ [sAsPath, sCommunity, sPeerAs] = RibHttp.filterFamiliesB := by decide

/-- The same discipline as the code for each recognised name: `select`/`discard` use every occurrence,
    the others the first. -/
theorem http_param_uses_eq_generated :
    RibHttp.paramUses.map (·.2) = [false, false, true, true, false, false, false] := by decide

end Rotonda.Http
