import RotondaModel.Proofs.BmpMetrics
/-!
# C15 — gauges and counters agree with what happened (BMP state machine part)

Statements about the metric record of `Model/Bmp.lean`: `Metrics.apply` is the
transliteration of `state_machine/status_reporter.rs` (every `fetch_add`,
`fetch_sub`, `store` on `RouterBmpMetrics`), `step` emits the calls the state
machine makes, `MState.ev` adds what happens to the entry when the router
reconnects (nothing: it is kept, router_handler.rs:280-284 is the only remover
and sits on the never-taken abort path).

Scope: the per-router state machine metrics (`bmp_state_*`,
`bmp_state_machine_state`, `bmp_num_connected_routers`). The per-connection
counters of `bmp_tcp_in/metrics.rs` and the gate counters are not modelled.
-/
namespace Rotonda.Bmp

/-! ## Counters never decrease -/

structure CountersLe (a b : Metrics) : Prop where
  received : a.received ≤ b.received
  unknownPeer : a.unknownPeer ≤ b.unknownPeer
  softFail : a.softFail ≤ b.softFail
  hardFail : a.hardFail ≤ b.hardFail
  ann : a.ann ≤ b.ann
  wd : a.wd ≤ b.wd

theorem CountersLe.refl (a : Metrics) : CountersLe a a :=
  ⟨Nat.le_refl _, Nat.le_refl _, Nat.le_refl _, Nat.le_refl _, Nat.le_refl _, Nat.le_refl _⟩

theorem CountersLe.trans {a b c : Metrics} (h1 : CountersLe a b) (h2 : CountersLe b c) : CountersLe a c :=
  ⟨Nat.le_trans h1.received h2.received, Nat.le_trans h1.unknownPeer h2.unknownPeer,
   Nat.le_trans h1.softFail h2.softFail, Nat.le_trans h1.hardFail h2.hardFail,
   Nat.le_trans h1.ann h2.ann, Nat.le_trans h1.wd h2.wd⟩

theorem countersLe_apply (m : Metrics) (e : Eff) : CountersLe m (m.apply e) := by
  cases e with
  | peerDown eor => rcases eor with _ | _ | _ <;> constructor <;> simp [Metrics.apply]
  | _ => constructor <;> simp [Metrics.apply]

theorem countersLe_applyAll (m : Metrics) (es : List Eff) : CountersLe m (m.applyAll es) := by
  induction es generalizing m with
  | nil => exact CountersLe.refl m
  | cons e es ih => exact (countersLe_apply m e).trans (ih (m.apply e))

/-- **C15 (counters are monotone).** Over any history — messages in any order,
    any number of reconnects — none of the six counters ever decreases. -/
theorem C15_counters_monotone (v : Variant) (K : Hdr → Key) (s : MState) (evs : List Ev) :
    CountersLe s.mx (mrunEv v K s evs).mx := by
  induction evs generalizing s with
  | nil => exact CountersLe.refl _
  | cons e evs ih =>
    refine CountersLe.trans ?_ (ih _)
    cases e with
    | msg m => exact countersLe_applyAll _ _
    | reconnect => exact CountersLe.refl _

/-! ## Counters equal what was rejected / delivered -/

def outInvalid : Out → Nat | .invalid => 1 | _ => 0
def outAnn : Out → Nat | .routing (.bulk _ a _) => a | _ => 0
def outWd : Out → Nat | .routing (.bulk _ _ w) => w | _ => 0

def Zero (es : List Eff) : Prop := hardSum es = 0 ∧ annSum es = 0 ∧ wdSum es = 0

/-- no hard failure inside, and the route counters of the effects are those of the outcome -/
def Match (r : Res) : Prop :=
  hardSum r.effs = 0 ∧ annSum r.effs = outAnn r.out ∧ wdSum r.effs = outWd r.out

private theorem zero_append {a b : List Eff} (ha : Zero a) (hb : Zero b) : Zero (a ++ b) := by
  obtain ⟨s1, s2, s3⟩ := sums_append a b
  exact ⟨by rw [s1, ha.1, hb.1], by rw [s2, ha.2.1, hb.2.1], by rw [s3, ha.2.2, hb.2.2]⟩

theorem hardSum_append (a b : List Eff) : hardSum (a ++ b) = hardSum a + hardSum b := (sums_append a b).1
theorem annSum_append (a b : List Eff) : annSum (a ++ b) = annSum a + annSum b := (sums_append a b).2.1
theorem wdSum_append (a b : List Eff) : wdSum (a ++ b) = wdSum a + wdSum b := (sums_append a b).2.2

private theorem rmExtract_match (s : State) (p : Peer) (r : Rm) (e : List Eff) (he : Zero e) :
    Match (rmExtract s p r e) := by
  obtain ⟨z1, z2, z3⟩ := he
  unfold rmExtract
  split
  · exact ⟨z1, by simp [z2, outAnn], by simp [z3, outWd]⟩
  · split <;>
      (refine ⟨?_, ?_, ?_⟩ <;>
        simp [hardSum_append, annSum_append, wdSum_append, z1, z2, z3, hardSum, annSum, wdSum, outAnn, outWd])

private theorem rmEor_match (d : Bool) (s : State) (p : Peer) (r : Rm) (e : List Eff) (he : Zero e) :
    Match (rmEor d s p r e) := by
  unfold rmEor
  split
  · exact rmExtract_match s p r e he
  · split
    · have := zero_append he (b := [.pendingStore (totalPending s.peers), .changeState .updating]) ⟨rfl, rfl, rfl⟩
      exact ⟨this.1, by simp [this.2.1, outAnn], by simp [this.2.2, outWd]⟩
    · exact rmExtract_match s p r _ (zero_append he ⟨rfl, rfl, rfl⟩)

private theorem rmAfterParse_match (v : Variant) (d : Bool) (s : State) (p : Peer) (r : Rm) (e : List Eff)
    (he : Zero e) : Match (rmAfterParse v d s p r e) := by
  unfold rmAfterParse
  split
  · exact rmExtract_match s p r e he
  · exact rmEor_match d _ _ r e he

private theorem routeMon_match (v : Variant) (d : Bool) (s : State) (h : Hdr) (r : Rm) :
    Match (routeMon v d s h r) := by
  unfold routeMon
  split
  · exact ⟨rfl, rfl, rfl⟩
  · split
    · exact ⟨rfl, rfl, rfl⟩
    · exact rmAfterParse_match v d s _ r [] ⟨rfl, rfl, rfl⟩
    · exact rmAfterParse_match v d _ _ r _ ⟨rfl, rfl, rfl⟩

private theorem stepCore_match (v : Variant) (K : Hdr → Key) (s : State) (m : Msg) :
    Match (stepCore v K s m) := by
  unfold stepCore
  cases s.phase with
  | initiating => cases m <;> exact ⟨rfl, rfl, rfl⟩
  | terminated => exact ⟨rfl, rfl, rfl⟩
  | dumping =>
    cases m with
    | routeMon h r => exact routeMon_match v true s h r
    | peerUp h e c => simp only [peerUp]; split <;> exact ⟨rfl, rfl, rfl⟩
    | peerDown h => simp only [peerDown]; split <;> exact ⟨rfl, rfl, rfl⟩
    | term => simp only [terminate]; split <;> exact ⟨rfl, rfl, rfl⟩
    | _ => exact ⟨rfl, rfl, rfl⟩
  | updating =>
    cases m with
    | routeMon h r => exact routeMon_match v false s h r
    | peerUp h e c => simp only [peerUp]; split <;> exact ⟨rfl, rfl, rfl⟩
    | peerDown h => simp only [peerDown]; split <;> exact ⟨rfl, rfl, rfl⟩
    | term => simp only [terminate]; split <;> exact ⟨rfl, rfl, rfl⟩
    | _ => exact ⟨rfl, rfl, rfl⟩

/-- One message: the unprocessable counter grows by one iff the message is
    rejected; the announcement / withdrawal counters grow by exactly the
    numbers of routes handed downstream. -/
theorem step_counts (v : Variant) (K : Hdr → Key) (s : State) (m : Msg) :
    hardSum (step v K s m).effs = outInvalid (step v K s m).out ∧
    annSum (step v K s m).effs = outAnn (step v K s m).out ∧
    wdSum (step v K s m).effs = outWd (step v K s m).out := by
  obtain ⟨h1, h2, h3⟩ := stepCore_match v K s m
  cases ho : (stepCore v K s m).out with
  | invalid =>
    have e : step v K s m = ⟨(stepCore v K s m).st, .invalid, (stepCore v K s m).effs ++ [.hardFail]⟩ := by
      simp [step, ho]
    obtain ⟨s1, s2, s3⟩ := sums_append (stepCore v K s m).effs [.hardFail]
    rw [e]
    simp only [s1, s2, s3, h1, h2, h3, ho]
    exact ⟨rfl, rfl, rfl⟩
  | other => have e : step v K s m = stepCore v K s m := by simp [step, ho]
             rw [e, h1, h2, h3, ho]; exact ⟨rfl, rfl, rfl⟩
  | transition => have e : step v K s m = stepCore v K s m := by simp [step, ho]
                  rw [e, h1, h2, h3, ho]; exact ⟨rfl, rfl, rfl⟩
  | routing u => have e : step v K s m = stepCore v K s m := by simp [step, ho]
                 rw [e, h1, h2, h3, ho]; exact ⟨rfl, rfl, rfl⟩

/-- The outcomes along a run. -/
def mouts (v : Variant) (K : Hdr → Key) (s : MState) : List Msg → List Out
  | [] => []
  | m :: ms => (mstep v K s m).2 :: mouts v K (mstep v K s m).1 ms

/-- **C15 (counters agree).** After any message list on one connection:
    unprocessable = number of rejected messages; announcements / withdrawals =
    total number of routes delivered downstream as announced / withdrawn. -/
theorem C15_counts_agree (v : Variant) (K : Hdr → Key) (s : MState) (ms : List Msg) :
    (mrun v K s ms).mx.hardFail = s.mx.hardFail + ((mouts v K s ms).map outInvalid).sum ∧
    (mrun v K s ms).mx.ann = s.mx.ann + ((mouts v K s ms).map outAnn).sum ∧
    (mrun v K s ms).mx.wd = s.mx.wd + ((mouts v K s ms).map outWd).sum := by
  induction ms generalizing s with
  | nil => simp [mrun, mouts]
  | cons m ms ih =>
    obtain ⟨i1, i2, i3⟩ := ih (mstep v K s m).1
    obtain ⟨c1, c2, c3⟩ := counters_applyAll s.mx (step v K s.st m).effs
    obtain ⟨t1, t2, t3⟩ := step_counts v K s.st m
    simp only [mrun, mouts, List.map_cons, List.sum_cons]
    rw [i1, i2, i3]
    simp only [mstep, c1, c2, c3, t1, t2, t3]
    omega

/-! ## Gauges -/

/-- How one event changes the peer table and the three gauge fields. -/
inductive Delta (v : Variant) (s s' : MState) : Prop
  | keep (h : SameUp s'.st.peers s.st.peers) (hp : pf s'.mx = pf s.mx)
  | up (p : Peer) (hps : s'.st.peers = s.st.peers ++ [p]) (hnew : p.hdr ∉ s.st.peers.map (·.hdr))
      (hp : pf s'.mx = pfApply (pf s.mx) (.peerUp p.eor))
  | down (p : Peer) (h : Hdr) (hf : findPeer h s.st.peers = some p)
      (hps : s'.st.peers = erasePeer h s.st.peers)
      (hp : pf s'.mx = pfApply (pf s.mx)
        (.peerDown (match v.eorGaugeStale with | true => none | false => some p.eor)))
  | clear (hps : s'.st.peers = []) (hp : pf s'.mx = pf s.mx) (hph : s'.st.phase = .terminated)

private theorem pf_step (v : Variant) (K : Hdr → Key) (s : MState) (m : Msg) :
    pf (mstep v K s m).1.mx = (stepCore v K s.st m).effs.foldl pfApply (pf s.mx) := by
  simp only [mstep, pf_applyAll]
  cases ho : (stepCore v K s.st m).out <;> simp [step, ho, List.foldl_append, pfApply]

private theorem mstep_st (v : Variant) (K : Hdr → Key) (s : MState) (m : Msg) :
    (mstep v K s m).1.st = (stepCore v K s.st m).st := by
  simp only [mstep]
  cases ho : (stepCore v K s.st m).out <;> simp [step, ho]

theorem mstep_delta (v : Variant) (K : Hdr → Key) (s : MState) (m : Msg)
    (hn : (s.st.peers.map (·.hdr)).Nodup) : Delta v s (mstep v K s m).1 := by
  have keepSame : ∀ (r : Res), r.st.peers = s.st.peers → NoPeer r.effs →
      stepCore v K s.st m = r → Delta v s (mstep v K s m).1 := by
    intro r hps hne hr
    refine Delta.keep ?_ ?_
    · rw [mstep_st, hr, hps]; exact SameUp.refl _
    · rw [pf_step, hr]; exact foldl_nopeer _ _ hne
  have pu : ∀ h e c (extra : List Eff), NoPeer extra →
      stepCore v K s.st m = ⟨(peerUp K s.st h e c).st, (peerUp K s.st h e c).out,
        (peerUp K s.st h e c).effs ++ extra⟩ → Delta v s (mstep v K s m).1 := by
    intro h e c extra hex hr
    cases hf : findPeer h s.st.peers with
    | some p0 =>
      refine Delta.keep ?_ ?_
      · rw [mstep_st, hr]; simp only [peerUp, hf]; exact SameUp.refl _
      · rw [pf_step, hr]; simp only [peerUp, hf, List.nil_append]; exact foldl_nopeer _ _ hex
    | none =>
      refine Delta.up ⟨h, e, [], (regFor (K h) s.st).2.2, c⟩ ?_ ?_ ?_
      · rw [mstep_st, hr]; simp only [peerUp, hf]
      · intro hmem
        obtain ⟨q, hq, hqh⟩ := List.mem_map.mp hmem
        exact findPeer_none hf q hq hqh
      · rw [pf_step, hr]; simp only [peerUp, hf, List.cons_append, List.nil_append, List.foldl_cons]
        exact foldl_nopeer _ _ hex
  have pd : ∀ h, stepCore v K s.st m = peerDown v s.st h → Delta v s (mstep v K s m).1 := by
    intro h hr
    cases hf : findPeer h s.st.peers with
    | none =>
      refine Delta.keep ?_ ?_
      · rw [mstep_st, hr]; simp only [peerDown, hf]; exact SameUp.refl _
      · rw [pf_step, hr]; simp [peerDown, hf]
    | some p =>
      refine Delta.down p h hf ?_ ?_
      · rw [mstep_st, hr]; simp only [peerDown, hf]
      · rw [pf_step, hr]; simp only [peerDown, hf]; rfl
  have rm : ∀ d h r, stepCore v K s.st m = routeMon v d s.st h r → Delta v s (mstep v K s m).1 := by
    intro d h r hr
    refine Delta.keep ?_ ?_
    · rw [mstep_st, hr]; exact routeMon_sameUp v d s.st h r hn
    · rw [pf_step, hr]; exact foldl_nopeer _ _ (routeMon_nopeer v d s.st h r)
  have tm : stepCore v K s.st m = terminate s.st → Delta v s (mstep v K s m).1 := by
    intro hr
    refine Delta.clear ?_ ?_ ?_
    · rw [mstep_st, hr]; simp only [terminate]; split <;> rfl
    · rw [pf_step, hr]; simp only [terminate]; split <;> simp [pfApply]
    · rw [mstep_st, hr]; simp only [terminate]; split <;> rfl
  cases hph : s.st.phase with
  | initiating =>
    cases m with
    | init =>
      exact keepSame ⟨{ s.st with phase := .dumping }, .transition, [.changeState .dumping]⟩ rfl
          (noPeer_of_all _ rfl) (by unfold stepCore; rw [hph])
    | _ => exact keepSame ⟨s.st, .invalid, []⟩ rfl (noPeer_of_all _ rfl) (by unfold stepCore; rw [hph])
  | terminated => exact keepSame ⟨s.st, .invalid, []⟩ rfl (noPeer_of_all _ rfl) (by unfold stepCore; rw [hph])
  | dumping =>
    cases m with
    | init => exact keepSame ⟨s.st, .other, []⟩ rfl (noPeer_of_all _ rfl) (by unfold stepCore; rw [hph])
    | stats _ => exact keepSame ⟨s.st, .other, []⟩ rfl (noPeer_of_all _ rfl) (by unfold stepCore; rw [hph])
    | mirror _ => exact keepSame ⟨s.st, .other, []⟩ rfl (noPeer_of_all _ rfl) (by unfold stepCore; rw [hph])
    | peerUp h e c => exact pu h e c _ (noPeer_of_all _ rfl) (by unfold stepCore; rw [hph])
    | peerDown h => exact pd h (by unfold stepCore; rw [hph])
    | routeMon h r => exact rm true h r (by unfold stepCore; rw [hph])
    | term => exact tm (by unfold stepCore; rw [hph])
  | updating =>
    cases m with
    | init => exact keepSame ⟨s.st, .other, []⟩ rfl (noPeer_of_all _ rfl) (by unfold stepCore; rw [hph])
    | stats _ => exact keepSame ⟨s.st, .other, []⟩ rfl (noPeer_of_all _ rfl) (by unfold stepCore; rw [hph])
    | mirror _ => exact keepSame ⟨s.st, .other, []⟩ rfl (noPeer_of_all _ rfl) (by unfold stepCore; rw [hph])
    | peerUp h e c => exact pu h e c [] (noPeer_of_all _ rfl) (by unfold stepCore; rw [hph]; simp)
    | peerDown h => exact pd h (by unfold stepCore; rw [hph])
    | routeMon h r => exact rm false h r (by unfold stepCore; rw [hph])
    | term => exact tm (by unfold stepCore; rw [hph])

/-- Invariant over whole histories (reconnects included): the gauges are never
    below the truth and no `fetch_sub` ever hit zero. -/
structure GInv (s : MState) : Prop where
  nodup : (s.st.peers.map (·.hdr)).Nodup
  noUnder : s.mx.underflow = false
  upGe : s.st.peers.length ≤ s.mx.peersUp
  eorGe : eorCount s.st.peers ≤ s.mx.eorCap

private theorem pf_eq {a : Metrics} {x : Nat × Nat × Bool} (h : pf a = x) :
    a.peersUp = x.1 ∧ a.eorCap = x.2.1 ∧ a.underflow = x.2.2 := by
  subst h; exact ⟨rfl, rfl, rfl⟩

theorem ginv_of_delta {v : Variant} {s s' : MState} (d : Delta v s s') (hi : GInv s) : GInv s' := by
  obtain ⟨hn, hu, hup, he⟩ := hi
  cases d with
  | keep h hp =>
    obtain ⟨p1, p2, p3⟩ := pf_eq hp
    exact ⟨h.nodup hn, by rw [p3]; exact hu, by rw [p1, h.length]; exact hup, by rw [p2, h.eorCount]; exact he⟩
  | up p hps hnew hp =>
    obtain ⟨p1, p2, p3⟩ := pf_eq hp
    refine ⟨?_, by rw [p3]; exact hu, ?_, ?_⟩
    · rw [hps, List.map_append, List.nodup_append]
      refine ⟨hn, by simp, ?_⟩
      intro a ha b hb
      simp only [List.map_cons, List.map_nil, List.mem_singleton] at hb
      subst hb
      intro hab; subst hab; exact hnew ha
    · rw [p1, hps]; simp only [pfApply, pf, List.length_append, List.length_singleton]; omega
    · rw [p2, hps, eorCount_append_one]; simp only [pfApply, pf]; omega
  | down p h hf hps hp =>
    obtain ⟨p1, p2, p3⟩ := pf_eq hp
    obtain ⟨e1, e2⟩ := erasePeer_of_nodup hf hn
    have hpos : 0 < s.mx.peersUp := by omega
    refine ⟨by rw [hps]; exact erasePeer_nodup h _ hn, ?_, ?_, ?_⟩
    · rw [p3]
      cases hv : v.eorGaugeStale with
      | true => simp only [pfApply, pf, hu]; simp; omega
      | false =>
        cases hpe : p.eor with
        | false => simp only [pfApply, pf, hu]; simp; omega
        | true =>
          have : 0 < s.mx.eorCap := by simp only [hpe, b2n] at e2; omega
          simp only [pfApply, pf, hu]; simp; omega
    · rw [p1, hps]
      cases hv : v.eorGaugeStale with
      | true => simp only [pfApply, pf]; omega
      | false => cases hpe : p.eor <;> simp only [pfApply, pf] <;> omega
    · rw [p2, hps]
      cases hv : v.eorGaugeStale with
      | true => simp only [pfApply, pf]; omega
      | false =>
        cases hpe : p.eor with
        | false => simp only [pfApply, pf]; simp only [hpe, b2n] at e2; omega
        | true => simp only [pfApply, pf]; simp only [hpe, b2n] at e2; omega
  | clear hps hp hph =>
    obtain ⟨p1, p2, p3⟩ := pf_eq hp
    exact ⟨by rw [hps]; exact List.nodup_nil, by rw [p3]; exact hu,
      by rw [hps]; exact Nat.zero_le _, by rw [hps]; exact Nat.zero_le _⟩

theorem ginv_init : GInv MState.init :=
  ⟨List.nodup_nil, rfl, Nat.le_refl _, Nat.le_refl _⟩

theorem ginv_run (v : Variant) (K : Hdr → Key) (s : MState) (evs : List Ev) (hi : GInv s) :
    GInv (mrunEv v K s evs) := by
  induction evs generalizing s with
  | nil => exact hi
  | cons e evs ih =>
    apply ih
    cases e with
    | msg m => exact ginv_of_delta (mstep_delta v K s m hi.nodup) hi
    | reconnect =>
      exact ⟨List.nodup_nil, hi.noUnder, Nat.zero_le _, Nat.zero_le _⟩

/-- **C15 (no underflow).** Over any history with any number of reconnects, for
    the code as written and for the repaired gauge alike, no gauge decrement is
    ever applied to zero, and the up / EoR-capable gauges are never *below* the
    number of peers that are up / up and EoR capable. -/
theorem C15_no_underflow (v : Variant) (K : Hdr → Key) (evs : List Ev) :
    (mrunEv v K MState.init evs).mx.underflow = false ∧
    (mrunEv v K MState.init evs).st.peers.length ≤ (mrunEv v K MState.init evs).mx.peersUp ∧
    eorCount (mrunEv v K MState.init evs).st.peers ≤ (mrunEv v K MState.init evs).mx.eorCap :=
  let h := ginv_run v K MState.init evs ginv_init
  ⟨h.noUnder, h.upGe, h.eorGe⟩

/-- Exact agreement on a single connection that has not been terminated. -/
structure EInv (v : Variant) (s : MState) : Prop where
  up : s.st.phase ≠ .terminated → s.mx.peersUp = s.st.peers.length
  eor : v.eorGaugeStale = false → s.st.phase ≠ .terminated → s.mx.eorCap = eorCount s.st.peers

private theorem terminated_absorbing (v : Variant) (K : Hdr → Key) (s : MState) (m : Msg)
    (h : s.st.phase = .terminated) : (mstep v K s m).1.st.phase = .terminated := by
  rw [mstep_st]; unfold stepCore; rw [h]; exact h

theorem einv_step (v : Variant) (K : Hdr → Key) (s : MState) (m : Msg) (hg : GInv s) (hi : EInv v s) :
    EInv v (mstep v K s m).1 := by
  have hnt : (mstep v K s m).1.st.phase ≠ .terminated → s.st.phase ≠ .terminated :=
    fun h1 h2 => h1 (terminated_absorbing v K s m h2)
  have d := mstep_delta v K s m hg.nodup
  cases d with
  | keep h hp =>
    obtain ⟨p1, p2, _⟩ := pf_eq hp
    exact ⟨fun h' => by rw [p1, h.length]; exact hi.up (hnt h'),
           fun hv h' => by rw [p2, h.eorCount]; exact hi.eor hv (hnt h')⟩
  | up p hps hnew hp =>
    obtain ⟨p1, p2, _⟩ := pf_eq hp
    refine ⟨fun h' => ?_, fun hv h' => ?_⟩
    · rw [p1, hps]; simp only [pfApply, pf, List.length_append, List.length_singleton]
      rw [hi.up (hnt h')]
    · rw [p2, hps, eorCount_append_one]; simp only [pfApply, pf]
      rw [hi.eor hv (hnt h')]
  | down p h hf hps hp =>
    obtain ⟨p1, p2, _⟩ := pf_eq hp
    obtain ⟨e1, e2⟩ := erasePeer_of_nodup hf hg.nodup
    refine ⟨fun h' => ?_, fun hv h' => ?_⟩
    · have := hi.up (hnt h')
      rw [p1, hps]
      cases hv : v.eorGaugeStale with
      | true => simp only [pfApply, pf]; omega
      | false => cases hpe : p.eor <;> simp only [pfApply, pf] <;> omega
    · have := hi.eor hv (hnt h')
      rw [p2, hps, hv]
      cases hpe : p.eor with
      | false => simp only [pfApply, pf]; simp only [hpe, b2n] at e2; omega
      | true => simp only [pfApply, pf]; simp only [hpe, b2n] at e2; omega
  | clear hps hp hph => exact ⟨fun h' => absurd hph h', fun _ h' => absurd hph h'⟩

/-- **C15 (gauges agree), partial.** On one connection, after any message list
    and as long as no Termination message has been processed: the peers-up gauge
    equals the number of peers that are up (both variants), and with the
    repaired `peer_down` the EoR-capable gauge equals the number of up peers
    that advertised Graceful Restart. -/
theorem C15_gauges_agree_session (v : Variant) (K : Hdr → Key) (ms : List Msg) :
    (mrun v K MState.init ms).st.phase ≠ .terminated →
    (mrun v K MState.init ms).mx.peersUp = (mrun v K MState.init ms).st.peers.length ∧
    (v.eorGaugeStale = false →
      (mrun v K MState.init ms).mx.eorCap = eorCount (mrun v K MState.init ms).st.peers) := by
  have key : ∀ (s : MState), GInv s → EInv v s → GInv (mrun v K s ms) ∧ EInv v (mrun v K s ms) := by
    induction ms with
    | nil => intro s hg hi; exact ⟨hg, hi⟩
    | cons m ms ih =>
      intro s hg hi
      exact ih _ (ginv_of_delta (mstep_delta v K s m hg.nodup) hg) (einv_step v K s m hg hi)
  obtain ⟨_, he⟩ := key MState.init ginv_init ⟨fun _ => rfl, fun _ _ => rfl⟩
  exact fun h => ⟨he.up h, fun hv => he.eor hv h⟩

example : (mrun repaired id MState.init [.init, .peerUp 0 true false, .peerUp 1 false false, .peerDown 0]).mx.peersUp = 1 := by decide

/-! ## Where the code as written disagrees (each reproduced on the real code by the engine) -/

/-- "The exported gauges equal what the traffic implies", for every history. -/
def C15_agree_full (v : Variant) : Prop :=
  ∀ (K : Hdr → Key) (evs : List Ev),
    let s := mrunEv v K MState.init evs
    s.mx.peersUp = s.st.peers.length ∧
    s.mx.eorCap = eorCount s.st.peers ∧
    s.mx.dumping = (s.st.peers.filter (fun p => !p.pending.isEmpty)).length ∧
    (s.mx.created = true → s.mx.state = s.st.phase)

private def plainAnn : Rm := ⟨true, true, none, false, 1, 0, 257, true, true⟩

/-- (a) machine.rs:564 — `peer_down` asks `is_peer_eor_capable` after removing
    the peer: three GR-capable Peer Up / Peer Down cycles leave the EoR-capable
    gauge at 3 with nobody up. -/
theorem C15_eor_gauge_counterexample :
    (mrunEv asWritten id MState.init [.msg .init,
      .msg (.peerUp 0 true false), .msg (.peerDown 0), .msg (.peerUp 0 true false), .msg (.peerDown 0),
      .msg (.peerUp 0 true false), .msg (.peerDown 0)]).mx.eorCap = 3 := by decide

/-- … and the one-line repair makes the same history end at 0. -/
theorem C15_eor_gauge_repaired_witness :
    (mrunEv repaired id MState.init [.msg .init,
      .msg (.peerUp 0 true false), .msg (.peerDown 0), .msg (.peerUp 0 true false), .msg (.peerDown 0),
      .msg (.peerUp 0 true false), .msg (.peerDown 0)]).mx.eorCap = 0 := by decide

/-- (b) the gauges are not cleared when the session ends: Termination with a
    peer up, reconnect, Peer Up again — the gauge says 2, one peer is up.
    Holds for the repaired `peer_down` too. -/
theorem C15_session_end_drift_counterexample (v : Variant) :
    let s := mrunEv v id MState.init [.msg .init, .msg (.peerUp 0 false false), .msg .term,
      .reconnect, .msg .init, .msg (.peerUp 0 false false)]
    s.mx.peersUp = 2 ∧ s.st.peers.length = 1 := by
  rcases v with ⟨a, b⟩; cases a <;> cases b <;> decide

/-- (c) the "up peers with pending EoRs" gauge stores one peer's number of
    pending markers: two peers are still dumping, the gauge says 1. -/
theorem C15_dumping_gauge_counterexample (v : Variant) :
    let s := mrunEv v id MState.init [.msg .init, .msg (.peerUp 0 true false), .msg (.peerUp 1 true false),
      .msg (.routeMon 0 plainAnn), .msg (.routeMon 1 plainAnn)]
    s.mx.dumping = 1 ∧ (s.st.peers.filter (fun p => !p.pending.isEmpty)).length = 2 := by
  rcases v with ⟨a, b⟩; cases a <;> cases b <;> decide

/-- (d) a Termination with peers up returns a routing update, not a state
    transition, so the state metric still says Dumping. -/
theorem C15_state_metric_counterexample (v : Variant) :
    let s := mrunEv v id MState.init [.msg .init, .msg (.peerUp 0 false false), .msg .term]
    s.mx.state = .dumping ∧ s.st.phase = .terminated := by
  rcases v with ⟨a, b⟩; cases a <;> cases b <;> decide

/-- The full statement is false for both variants (witness (b)). -/
theorem C15_agree_counterexample (v : Variant) : ¬ C15_agree_full v := by
  intro h
  have h1 := (h id [.msg .init, .msg (.peerUp 0 false false), .msg .term,
      .reconnect, .msg .init, .msg (.peerUp 0 false false)]).1
  have h2 := C15_session_end_drift_counterexample v
  simp only at h1 h2
  omega

/-! ### The re-parse counter (session 7) -/

theorem rmExtract_soft (s : State) (p : Peer) (r : Rm) (e : List Eff) (h : Eff.softFail ∈ (rmExtract s p r e).effs) :
    Eff.softFail ∈ e := by
  unfold rmExtract at h
  split at h
  · exact h
  · split at h <;> simp at h <;> exact h

theorem rmEor_soft (dump : Bool) (s : State) (p : Peer) (r : Rm) (e : List Eff) (h : Eff.softFail ∈ (rmEor dump s p r e).effs) :
    Eff.softFail ∈ e := by
  unfold rmEor at h
  cases ha : allPendingEmpty s.peers with
  | false => rw [ha] at h; exact rmExtract_soft _ _ _ _ h
  | true =>
    rw [ha] at h
    cases dump with
    | true => simp at h; exact h
    | false => have := rmExtract_soft _ _ _ _ h; simpa using this

theorem rmAfterParse_soft (v : Variant) (dump : Bool) (s : State) (p : Peer) (r : Rm) (e : List Eff)
    (h : Eff.softFail ∈ (rmAfterParse v dump s p r e).effs) : Eff.softFail ∈ e := by
  unfold rmAfterParse at h
  split at h
  · exact rmExtract_soft _ _ _ _ h
  · exact rmEor_soft _ _ _ _ _ h

/-- The "parsed by not obeying the header flags" report is made only for a Route Monitoring message whose
    UPDATE parses with exactly one of the two AS-number widths. -/
theorem routeMon_soft (v : Variant) (dump : Bool) (s : State) (hd : Hdr) (r : Rm)
    (h : Eff.softFail ∈ (routeMon v dump s hd r).effs) : r.p4 ≠ r.p2 := by
  unfold routeMon at h
  split at h
  · simp at h
  · rename_i p _
    cases hp : parseOutcome p.cfg4 r with
    | none => rw [hp] at h; simp at h
    | some b =>
      cases b with
      | false => rw [hp] at h; have := rmAfterParse_soft _ _ _ _ _ _ h; simp at this
      | true =>
        unfold parseOutcome at hp
        cases h4 : p.cfg4 <;> cases a : r.p4 <;> cases b : r.p2 <;> simp_all

theorem peerUp_soft (K : Hdr → Key) (s : State) (hd : Hdr) (e c : Bool) : Eff.softFail ∉ (peerUp K s hd e c).effs := by
  unfold peerUp; simp only; split <;> simp

theorem peerDown_soft (v : Variant) (s : State) (hd : Hdr) : Eff.softFail ∉ (peerDown v s hd).effs := by
  unfold peerDown; split <;> simp

theorem terminate_soft (s : State) : Eff.softFail ∉ (terminate s).effs := by
  unfold terminate; split <;> simp

theorem stepCore_soft (v : Variant) (K : Hdr → Key) (s : State) (m : Msg)
    (h : Eff.softFail ∈ (stepCore v K s m).effs) : ∃ hd r, m = .routeMon hd r ∧ r.p4 ≠ r.p2 := by
  unfold stepCore at h
  cases hph : s.phase <;> rw [hph] at h <;> cases m <;> simp only [List.not_mem_nil, List.mem_append, List.mem_singleton] at h
  all_goals first
    | exact ⟨_, _, rfl, routeMon_soft _ _ _ _ _ h⟩
    | exact absurd h (peerUp_soft _ _ _ _ _)
    | exact absurd h (peerDown_soft _ _ _)
    | exact absurd h (terminate_soft _)
    | (rcases h with h | h
       · exact absurd h (peerUp_soft _ _ _ _ _)
       · simp at h)
    | (simp at h)

/-- **C15 (the re-parse counter).** Over one message: the soft-failure report — the only thing that moves
    `bmp_state_num_bgp_updates_reparsed_due_to_incorrect_header_flags` — is made only for a Route Monitoring
    message whose UPDATE parses with exactly one AS-number width. -/
theorem C15_soft_only_one_width (v : Variant) (K : Hdr → Key) (s : State) (m : Msg)
    (h : Eff.softFail ∈ (step v K s m).effs) : ∃ hd r, m = .routeMon hd r ∧ r.p4 ≠ r.p2 := by
  unfold step at h
  simp only at h
  split at h
  · simp only [List.mem_append, List.mem_singleton] at h
    rcases h with h | h
    · exact stepCore_soft v K s m h
    · simp at h
  · exact stepCore_soft v K s m h

end Rotonda.Bmp
