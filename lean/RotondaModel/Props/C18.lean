import RotondaModel.Proofs.Frim
/-!
# C18 — the shared copy-on-write map behaves like a sequential map under concurrency

Statements only (plus their top-level proofs and non-vacuity examples).
Model: `Model/Frim.lean`.  `asWritten` is `src/common/frim.rs` at the pinned
commit, `repaired` is the same code with `found` reset at the top of the
closure in `remove`.
-/
namespace Rotonda.Frim

/-- The simulation invariant: the published content is the sequential replay of
    the ghost linearization log, *and every value recorded as returned is the
    value the sequential map returns at that point* (that is what
    `replay … = some _` says). -/
structure Inv (m0 : Map) (s : Sys) : Prop where
  cur_lt : s.cur < s.heap.length
  lin_ok : replay m0 s.lin = some s.content
  pcs : ∀ t ∈ s.threads, ∀ op snap found, t.pc = .loaded op snap found →
          snap < s.heap.length ∧ Op.isRcu op = true

theorem inv_init (m0 : Map) (progs : List (List Op)) : Inv m0 (init m0 progs) := by
  refine ⟨by simp [init], by simp [init, replay, Sys.content], ?_⟩
  intro t ht op snap found hpc
  simp only [init, List.mem_map] at ht
  obtain ⟨p, _, rfl⟩ := ht
  cases hpc

private theorem mem_set_cases {ts : List Thread} {i : Nat} {t' t : Thread}
    (h : t ∈ ts.set i t') : t = t' ∨ t ∈ ts := by
  rcases List.mem_or_eq_of_mem_set h with h | h
  · exact Or.inr h
  · exact Or.inl h

theorem inv_step (m0 : Map) (s : Sys) (i : Nat) (h : Inv m0 s) : Inv m0 (step repaired s i) := by
  unfold step
  split
  · exact h
  · rename_i t hti
    have htmem : t ∈ s.threads := List.mem_of_getElem? hti
    split
    · -- idle
      split
      · exact h
      · rename_i op rest hprog
        split
        all_goals first
          | -- reads: one load
            refine ⟨h.cur_lt, ?_, ?_⟩
            · simp only [replay_append, h.lin_ok, Option.bind_some, if_true]
              simp [seqStep, Sys.content]
            · intro t' ht' op' snap found hpc
              rcases mem_set_cases ht' with rfl | hm
              · cases hpc
              · exact h.pcs t' hm op' snap found hpc
          | -- replace: one store
            refine ⟨by simp, ?_, ?_⟩
            · simp only [replay_append, h.lin_ok, Option.bind_some, seqStep, if_true]
              simp [Sys.content]
            · intro t' ht' op' snap found hpc
              rcases mem_set_cases ht' with rfl | hm
              · cases hpc
              · have := h.pcs t' hm op' snap found hpc
                exact ⟨by simp only [List.length_append, List.length_singleton]; omega, this.2⟩
          | -- rcu: initial load
            refine ⟨h.cur_lt, h.lin_ok, ?_⟩
            intro t' ht' op' snap found hpc
            rcases mem_set_cases ht' with rfl | hm
            · cases hpc
              exact ⟨h.cur_lt, rfl⟩
            · exact h.pcs t' hm op' snap found hpc
    · -- loaded
      rename_i op snap found hpc
      have hp := h.pcs t htmem op snap found hpc
      split
      · -- CAS succeeds
        rename_i hcur
        refine ⟨by simp, ?_, ?_⟩
        · have hseq := closure_repaired_eq_seq (s.heap.getD snap []) op found hp.2
          have hcont : s.content = s.heap.getD snap [] := by simp [Sys.content, hcur]
          simp only [replay_append, h.lin_ok, Option.bind_some, hcont, hseq, if_true]
          simp [Sys.content]
        · intro t' ht' op' snap' found' hpc'
          rcases mem_set_cases ht' with rfl | hm
          · cases hpc'
          · have := h.pcs t' hm op' snap' found' hpc'
            exact ⟨by simp only [List.length_append, List.length_singleton]; omega, this.2⟩
      · -- CAS fails: retry on the observed version
        refine ⟨h.cur_lt, h.lin_ok, ?_⟩
        intro t' ht' op' snap' found' hpc'
        rcases mem_set_cases ht' with rfl | hm
        · cases hpc'
          exact ⟨h.cur_lt, hp.2⟩
        · exact h.pcs t' hm op' snap' found' hpc'

/-- **C18 (linearizability), repaired code.** For every initial map, every set
    of thread programs and every schedule of any length: replaying the
    completed operations in the order of their linearization points on the
    sequential map reproduces every returned value and the final content. -/
theorem C18_linearizable (m0 : Map) (progs : List (List Op)) (sched : List Nat) :
    Inv m0 (run repaired (init m0 progs) sched) := by
  unfold run
  suffices ∀ s, Inv m0 s → Inv m0 (sched.foldl (step repaired) s) from this _ (inv_init m0 progs)
  induction sched with
  | nil => intro s h; exact h
  | cons i sched ih => intro s h; exact ih _ (inv_step m0 s i h)

/-- **C18 (a lookup returns its own key's value).** Whatever content a lookup
    is linearized at: the value it returns is stored under the key it asked
    for.  With `C18_linearizable` (every returned value is the sequential
    map's at the linearization point) this is the engine's
    `free:lookup-not-atomic` clause "a get never returns another key's value". -/
theorem C18_lookup_own_key (k v : Nat) (m : Map) (h : lookup k m = some v) : (k, v) ∈ m := by
  induction m with
  | nil => simp [lookup] at h
  | cons e m ih =>
    unfold lookup at h
    by_cases hk : e.1 = k
    · rw [if_pos hk] at h
      have hv : e.2 = v := by simpa using h
      have : e = (k, v) := by cases e; simp_all
      simp [this]
    · rw [if_neg hk] at h
      exact List.mem_cons_of_mem _ (ih h)

/-- **C18 (a lookup finds a key that is there).** If the content a lookup is
    linearized at holds the key, the lookup does not answer "absent": a key
    that is in every published content is found by every lookup, wherever the
    writers have moved it (the engine's pinned key). -/
theorem C18_lookup_finds (k : Nat) (m : Map) (h : ∃ v, (k, v) ∈ m) : (lookup k m).isSome = true := by
  obtain ⟨v, hv⟩ := h
  induction m with
  | nil => simp at hv
  | cons e m ih =>
    unfold lookup
    by_cases hk : e.1 = k
    · simp [hk]
    · rw [if_neg hk]
      rcases List.mem_cons.mp hv with h1 | h1
      · exact absurd (by rw [← h1]) hk
      · exact ih h1

/-- A write of another key, a removal of another key, a `retain` that keeps the
    key and a whole-map replace that carries it all leave the key in the
    content: the hypothesis of `C18_lookup_finds` holds along the engine's
    free-running histories. -/
theorem insertKV_keeps (k k' v v' : Nat) (m : Map) (h : (k, v) ∈ m) (hne : k' ≠ k) : (k, v) ∈ insertKV k' v' m := by
  unfold insertKV
  apply List.mem_append_left
  exact List.mem_filter.mpr ⟨h, by simp; exact fun e => hne e.symm⟩

theorem removeFirst_keeps (k k' v : Nat) (m : Map) (h : (k, v) ∈ m) (hne : k' ≠ k) : (k, v) ∈ removeFirst k' m := by
  induction m with
  | nil => simp at h
  | cons e m ih =>
    unfold removeFirst
    by_cases hk : e.1 = k'
    · rw [if_pos hk]
      rcases List.mem_cons.mp h with h1 | h1
      · exact absurd (by rw [← h1] at hk; exact hk.symm) hne
      · exact h1
    · rw [if_neg hk]
      rcases List.mem_cons.mp h with h1 | h1
      · rw [h1]; exact List.mem_cons_self
      · exact List.mem_cons_of_mem _ (ih h1)

example : lookup 9 [(1, 1000007), (9, 9000003), (2, 2000008)] = some 9000003 := by decide

/-- **C18 (snapshot).** An iteration (`guard()`) is a single load: what it
    returns is the content the sequential map has at its linearization point. -/
theorem C18_snapshot (v : Variant) (s : Sys) (i : Nat) (t : Thread) (rest : List Op)
    (ht : s.threads[i]? = some t) (hpc : t.pc = .idle) (hprog : t.prog = .iter :: rest) :
    (step v s i).lin = s.lin ++ [(i, .iter, .snap s.content)] ∧ (step v s i).cur = s.cur := by
  simp [step, ht, hpc, hprog, seqStep]

/-! ### The log is complete and per-thread ordered -/

/-- The ghost log restricted to thread `i` is exactly what thread `i` has returned so far. -/
def LogComplete (s : Sys) : Prop :=
  ∀ i t, s.threads[i]? = some t → (s.lin.filter (fun e => e.1 == i)).map (·.2) = t.rets

private theorem lc_append (s : Sys) (j : Nat) (t t' : Thread) (op : Op) (r : Ret)
    (h : LogComplete s) (hj : s.threads[j]? = some t) (hr : t'.rets = t.rets ++ [(op, r)])
    (heap : List Map) (cur : Nat) :
    LogComplete { heap := heap, cur := cur, threads := setThread s.threads j t', lin := s.lin ++ [(j, op, r)] } := by
  intro i ti hi
  simp only [setThread, List.getElem?_set] at hi
  by_cases hij : j = i
  · subst hij
    have hlt : j < s.threads.length := by
      rcases List.getElem?_eq_some_iff.mp hj with ⟨hl, _⟩; exact hl
    simp only [if_true, hlt] at hi
    cases hi
    simp [List.filter_append, hr, h j t hj]
  · simp only [hij, if_false] at hi
    have hne : (j == i) = false := by simp [hij]
    simp [List.filter_append, hne, h i ti hi]

private theorem lc_same (s : Sys) (j : Nat) (t t' : Thread)
    (h : LogComplete s) (hj : s.threads[j]? = some t) (hr : t'.rets = t.rets) :
    LogComplete { s with threads := setThread s.threads j t' } := by
  intro i ti hi
  simp only [setThread, List.getElem?_set] at hi
  by_cases hij : j = i
  · subst hij
    have hlt : j < s.threads.length := by
      rcases List.getElem?_eq_some_iff.mp hj with ⟨hl, _⟩; exact hl
    simp only [if_true, hlt] at hi
    cases hi
    rw [hr]; exact h j t hj
  · simp only [hij, if_false] at hi
    exact h i ti hi

theorem logComplete_step (v : Variant) (s : Sys) (j : Nat) (h : LogComplete s) : LogComplete (step v s j) := by
  unfold step
  split
  · exact h
  · rename_i t hj
    split
    · split
      · exact h
      · rename_i op rest hprog
        split
        all_goals first
          | exact lc_append s j t _ _ _ h hj rfl _ _
          | exact lc_same s j t _ h hj rfl
    · split
      · exact lc_append s j t _ _ _ h hj rfl _ _
      · exact lc_same s j t _ h hj rfl

/-- **C18 (log completeness), either variant.** In every execution the linearization log
    restricted to a thread is exactly the sequence of operations that thread has completed,
    with the values it was given, in program order: nothing completed is missing from the
    log, nothing is logged twice, and each entry was appended by a step of that very thread
    (i.e. between the operation's call and its return). -/
theorem C18_log_complete (v : Variant) (m0 : Map) (progs : List (List Op)) (sched : List Nat) :
    LogComplete (run v (init m0 progs) sched) := by
  unfold run
  suffices ∀ s, LogComplete s → LogComplete (sched.foldl (step v) s) from
    this _ (by
      intro i t hi
      simp only [init, List.getElem?_map] at hi
      cases hp : progs[i]? with
      | none => simp [hp] at hi
      | some p => simp [hp] at hi; subst hi; rfl)
  induction sched with
  | nil => intro s h; exact h
  | cons i sched ih => intro s h; exact ih _ (logComplete_step v s i h)

/-! ### An entry that is removed is handed to exactly one remover -/

def hW (k : Nat) (e : Nat × Op × Ret) : Nat :=
  match e.2 with
  | (.rem k', .val (some _)) => if k' = k then 1 else 0
  | _ => 0

def cW (k : Nat) (e : Nat × Op × Ret) : Nat :=
  match e.2.1 with
  | .ins k' _ => if k' = k then 1 else 0
  | .replace m' => if (lookup k m').isSome then 1 else 0
  | _ => 0

/-- How many removers were handed an entry for key `k`. -/
def handouts (k : Nat) : List (Nat × Op × Ret) → Nat
  | [] => 0
  | e :: l => hW k e + handouts k l

/-- How many times an entry for key `k` was put into the map. -/
def creations (k : Nat) : List (Nat × Op × Ret) → Nat
  | [] => 0
  | e :: l => cW k e + creations k l

def present (k : Nat) (m : Map) : Nat := if (lookup k m).isSome then 1 else 0

theorem present_le_one (k : Nat) (m : Map) : present k m ≤ 1 := by
  unfold present; split <;> omega

def ReplaceNodup (l : List (Nat × Op × Ret)) : Prop :=
  ∀ e ∈ l, ∀ m', e.2.1 = .replace m' → KeysNodup m'

/-- One sequential step: what is handed out plus what is present afterwards is
    bounded by what was present plus what was created. -/
theorem step_account (k j : Nat) (op : Op) (m : Map) (hn : KeysNodup m)
    (hrep : ∀ m', op = .replace m' → KeysNodup m') :
    hW k (j, op, (seqStep m op).2) + present k (seqStep m op).1 ≤ present k m + cW k (j, op, (seqStep m op).2)
    ∧ KeysNodup (seqStep m op).1 := by
  cases op with
  | ins k' v =>
    refine ⟨?_, keysNodup_insertKV k' v hn⟩
    by_cases hk : k' = k
    · subst hk
      have := present_le_one k' (insertKV k' v m)
      simp only [hW, cW, seqStep, if_true]; omega
    · have hk2 : k ≠ k' := fun e => hk e.symm
      simp [hW, cW, seqStep, hk, present, lookup_insertKV_ne hk2]
  | rem k' =>
    refine ⟨?_, keysNodup_removeFirst k' hn⟩
    by_cases hk : k' = k
    · subst hk
      cases hl : lookup k' m with
      | none => simp [hW, cW, seqStep, hl, present, removeFirst_of_lookup_none hl]
      | some x => simp [hW, cW, seqStep, hl, present, lookup_removeFirst_self _ hn]
    · have hk2 : k ≠ k' := fun e => hk e.symm
      cases hl : lookup k' m with
      | none => simp [hW, cW, seqStep, hl, present, lookup_removeFirst_ne hk2]
      | some x => simp [hW, cW, seqStep, hl, hk, present, lookup_removeFirst_ne hk2]
  | get k' => exact ⟨by simp [hW, cW, seqStep], hn⟩
  | retain p =>
    refine ⟨?_, keysNodup_filter p.eval hn⟩
    have hle : present k (m.filter p.eval) ≤ present k m := by
      unfold present
      by_cases hp : (lookup k m).isSome
      · simp only [hp, if_true]; split <;> omega
      · have : lookup k m = none := by simpa using hp
        rw [lookup_none_iff] at this
        have h2 : lookup k (m.filter p.eval) = none := by
          rw [lookup_none_iff]
          intro hmem
          exact this ((List.Sublist.map _ List.filter_sublist).subset hmem)
        simp [h2]
    simp only [hW, cW, seqStep]; omega
  | replace mr =>
    refine ⟨?_, hrep mr rfl⟩
    simp only [hW, cW, seqStep, present]
    by_cases hp : (lookup k mr).isSome = true
    · simp only [hp, if_true]; omega
    · simp only [hp]; omega
  | len => exact ⟨by simp [hW, cW, seqStep], hn⟩
  | iter => exact ⟨by simp [hW, cW, seqStep], hn⟩

/-- Sequential accounting: in any history accepted by the sequential map, the
    number of times key `k` was handed to a remover, plus one if it is still
    present, never exceeds the number of times it was put there. -/
theorem handouts_le_creations (k : Nat) (l : List (Nat × Op × Ret)) (m m' : Map)
    (hn : KeysNodup m) (hr : ReplaceNodup l) (h : replay m l = some m') :
    handouts k l + present k m' ≤ present k m + creations k l ∧ KeysNodup m' := by
  induction l generalizing m with
  | nil =>
    simp only [replay, Option.some.injEq] at h
    subst h
    simp [handouts, creations, hn]
  | cons e l ih =>
    obtain ⟨j, op, r⟩ := e
    simp only [replay] at h
    split at h
    case isFalse => cases h
    rename_i hret
    subst hret
    have hr' : ReplaceNodup l := fun e he => hr e (List.mem_cons_of_mem _ he)
    have hs := step_account k j op m hn (fun m' hm' => hr (j, op, _) List.mem_cons_self m' hm')
    have := ih _ hs.2 hr' h
    refine ⟨?_, this.2⟩
    have h1 := this.1
    have h2 := hs.1
    simp only [handouts, creations]
    omega

/-- **C18 (remove-once), repaired code.** In every execution, for every key,
    the number of removers that were handed an entry for that key is at most
    the number of times an entry for that key was put in the map (initial
    content, `insert`, `replace`). In particular an entry present once is
    handed to at most one remover. -/
theorem C18_remove_once (m0 : Map) (progs : List (List Op)) (sched : List Nat) (k : Nat)
    (hn : KeysNodup m0)
    (hr : ReplaceNodup (run repaired (init m0 progs) sched).lin) :
    handouts k (run repaired (init m0 progs) sched).lin
      ≤ present k m0 + creations k (run repaired (init m0 progs) sched).lin := by
  have hinv := C18_linearizable m0 progs sched
  have := (handouts_le_creations k _ m0 _ hn hr hinv.lin_ok).1
  omega

/-! ### The code as written violates remove-once (and linearizability) -/

/-- Two removers of key 1, one entry `(1,77)`. Schedule: A loads, B loads,
    B's closure+CAS (succeeds, gets 77), A's closure+CAS (finds 77, CAS
    fails), A's retry (does not find it, `found` still `some 77`, CAS succeeds). -/
def witnessSys : Sys := run asWritten (init [(1, 77)] [[.rem 1], [.rem 1]]) [0, 1, 1, 0, 0]

theorem C18_remove_once_counterexample :
    witnessSys.threads.map (·.rets)
      = [[(.rem 1, .val (some 77))], [(.rem 1, .val (some 77))]] := by decide

theorem C18_as_written_not_linearizable : replay [(1, 77)] witnessSys.lin = none := by decide

theorem C18_as_written_handouts : handouts 1 witnessSys.lin = 2 ∧ creations 1 witnessSys.lin = 0 := by decide

/-- The same schedule on the repaired code hands the entry out once. -/
theorem C18_repaired_witness :
    (run repaired (init [(1, 77)] [[.rem 1], [.rem 1]]) [0, 1, 1, 0, 0]).threads.map (·.rets)
      = [[(.rem 1, .val none)], [(.rem 1, .val (some 77))]] := by decide

/-! ### Non-vacuity -/

/-- A non-trivial reachable state of the repaired system: three threads, a
    failed CAS, a replace, an iteration; the invariant's conclusion is about a
    log of six operations. -/
example :
    let s := run repaired (init [(1, 10)] [[.ins 2 20, .rem 1], [.rem 1, .iter], [.replace [(5, 50)], .get 5]])
              [0, 1, 1, 0, 0, 2, 1, 0, 0, 2]
    s.lin.length = 6 ∧ replay [(1, 10)] s.lin = some s.content ∧ s.content = [(5, 50)] := by decide

end Rotonda.Frim
