import RotondaModel.Proofs.Rib
/-!
# C03 — Routes announced after a session comes back are active again

A session going down reaches the RIB unit as `Update::Withdraw(id, None)` (BMP Peer Down, BGP session
end, MRT) or `Update::WithdrawBulk(ids)` (BMP Termination / disconnect): events `Ev.down`, `Ev.downBulk`.
A BMP peer / router (and an MRT peer) that comes back gets its **previous ingress id** back
(`find_existing_peer`, `find_existing_bmp_router`), so "the returning session announces" is simply a later
`Ev.upd` of the same id. Statements are per SAFI table (`Rib.entry`, what a query with
include_withdrawn reports for that table; C01 relates tables to `Rib.query`).

* `C03_full v`            clause 1 as stated: an announcement that nothing later touches is reported
                          active with its attributes — whatever happened before it.
* `C03_flap_exact`        the code as written, exactly: it is reported `withdrawn` iff a session-level
                          withdrawal of that id occurred *anywhere earlier* (the store's global marker is
                          set by `withdraw_for_ingress` and nothing ever clears it).
* `C03_counterexample`    `¬ C03_full asWritten` (announce, down, announce again → withdrawn).
* `C03_partial`           as written, clause 1 holds for ids that were never withdrawn session-wide
                          (in particular for BGP sessions, which get a fresh id per connection).
* `C03_repaired`          `C03_full` for the per-record-withdrawal variant.
* `C03_stale`             clause 2, every variant: after a session-level withdrawal, a route that is not
                          re-announced stays reported withdrawn with its old attributes, whatever else happens.
-/
namespace Rotonda.Rib

/-- Clause 1: the last thing that touches `(mc, p, m)` is an announcement with attributes `a`. -/
def C03_full (v : Variant) : Prop :=
  ∀ (h1 h2 : History) (mc : Bool) (p : Prefix) (m : Mui) (a : AttrId) (ann wd : List Nlri),
    (⟨p, safiOf mc⟩ : Nlri) ∈ ann → (⟨p, safiOf mc⟩ : Nlri) ∉ wd →
    h2.all (fun e => !(e.touches mc p m)) = true →
    (run v (h1 ++ .upd m (.ok a ann wd) :: h2)).entry mc p m = some (.active, a)

theorem abs_after_announce (v : Variant) (h1 h2 : History) (mc : Bool) (p : Prefix) (m : Mui) (a : AttrId)
    (ann wd : List Nlri) (hA : (⟨p, safiOf mc⟩ : Nlri) ∈ ann) (hW : (⟨p, safiOf mc⟩ : Nlri) ∉ wd)
    (h2u : h2.all (fun e => !(e.touches mc p m)) = true) :
    (run v (h1 ++ .upd m (.ok a ann wd) :: h2)).abs mc p m
      = ⟨some (.active, a), ((run v h1).abs mc p m).down⟩ := by
  rw [entry_run_append, List.foldl_cons, foldl_untouched v mc p m h2 h2u]
  cases hv : v.overlapFix <;> simp [specEv, specUpd, hA, hW, hv]

/-- The code as written, exactly: after an announcement that nothing later touches, the report is
    `withdrawn` iff some session-level withdrawal of that id happened earlier, `active` otherwise. -/
theorem C03_flap_exact (h1 h2 : History) (mc : Bool) (p : Prefix) (m : Mui) (a : AttrId) (ann wd : List Nlri)
    (hA : (⟨p, safiOf mc⟩ : Nlri) ∈ ann) (hW : (⟨p, safiOf mc⟩ : Nlri) ∉ wd)
    (h2u : h2.all (fun e => !(e.touches mc p m)) = true) :
    (run asWritten (h1 ++ .upd m (.ok a ann wd) :: h2)).entry mc p m
      = some (if h1.any (Ev.downs m) then .withdrawn else .active, a) := by
  rw [Rib.entry_eq_abs, abs_after_announce asWritten h1 h2 mc p m a ann wd hA hW h2u, abs_run, specRun, down_asWritten]
  cases h1.any (Ev.downs m) <;> simp [Abs.entry, setWithdrawn]

theorem C03_counterexample : ¬ C03_full asWritten := by
  intro hf
  have := hf [.upd 2 (.ok 5 [⟨⟨.v4, 24, 655617⟩, .unicast⟩] []), .down 2] [] false ⟨.v4, 24, 655617⟩ 2 7
    [⟨⟨.v4, 24, 655617⟩, .unicast⟩] [] (by decide) (by decide) (by decide)
  revert this
  decide

/-- As written, clause 1 holds for a source that has never been withdrawn session-wide — e.g. a BGP
    session, which gets a fresh ingress id for every accepted connection. -/
theorem C03_partial (h1 h2 : History) (mc : Bool) (p : Prefix) (m : Mui) (a : AttrId) (ann wd : List Nlri)
    (hnd : h1.any (Ev.downs m) = false)
    (hA : (⟨p, safiOf mc⟩ : Nlri) ∈ ann) (hW : (⟨p, safiOf mc⟩ : Nlri) ∉ wd)
    (h2u : h2.all (fun e => !(e.touches mc p m)) = true) :
    (run asWritten (h1 ++ .upd m (.ok a ann wd) :: h2)).entry mc p m = some (.active, a) := by
  rw [C03_flap_exact h1 h2 mc p m a ann wd hA hW h2u, hnd]
  rfl

-- the guard is satisfiable with a flap of *another* source in the history, and it excludes something real
example : let h1 : History := [.upd 2 (.ok 5 [⟨⟨.v4, 24, 655617⟩, .unicast⟩] []), .upd 3 (.ok 4 [⟨⟨.v4, 24, 655617⟩, .unicast⟩] []), .down 3]
    h1.any (Ev.downs 2) = false ∧ h1.any (Ev.downs 3) = true := by decide

/-- Per-record withdrawal (no global marker): clause 1 holds for every history. -/
theorem C03_repaired (v : Variant) (hv : v.perRecordWithdraw = true) : C03_full v := by
  intro h1 h2 mc p m a ann wd hA hW h2u
  rw [Rib.entry_eq_abs, abs_after_announce v h1 h2 mc p m a ann wd hA hW h2u, abs_run, specRun,
    down_perRecord v hv]
  rfl

example : (run { perRecordWithdraw := true } [.upd 2 (.ok 5 [⟨⟨.v4, 24, 655617⟩, .unicast⟩] []), .down 2,
    .upd 2 (.ok 7 [⟨⟨.v4, 24, 655617⟩, .unicast⟩] [])]).query ⟨.v4, 24, 655617⟩ = [⟨2, .active, 7⟩] := by decide

/-- Clause 2, for every variant: once the source has been withdrawn session-wide, a route it does not
    announce again stays reported exactly as "withdrawn, attributes as before the outage", through any
    further events (other sources' traffic, further flaps, explicit withdrawals, malformed UPDATEs). -/
theorem C03_stale (v : Variant) (h1 h2 : History) (d : Ev) (mc : Bool) (p : Prefix) (m : Mui)
    (hd : d.downs m = true) (hna : h2.all (fun e => !(e.announces mc p m)) = true) :
    (run v (h1 ++ d :: h2)).entry mc p m = ((run v h1).entry mc p m).map setWithdrawn := by
  rw [Rib.entry_eq_abs, Rib.entry_eq_abs, entry_run_append, List.foldl_cons]
  have hstep : (specEv v mc p m ((run v h1).abs mc p m) d).entry = (((run v h1).abs mc p m).entry).map setWithdrawn := by
    cases d with
    | upd m' u => simp [Ev.downs] at hd
    | down m' =>
      simp only [Ev.downs, decide_eq_true_eq] at hd
      simp [specEv, hd, entry_specDown]
    | downBulk ms =>
      simp only [Ev.downs, List.contains_eq_mem, decide_eq_true_eq] at hd
      simp [specEv, hd, entry_specDown]
  have hset : (specEv v mc p m ((run v h1).abs mc p m) d).settled := by
    unfold Abs.settled
    rw [hstep, map_setWithdrawn_idem]
  rw [foldl_settled v mc p m h2 hna _ hset, hstep]

example : (run asWritten [.upd 2 (.ok 5 [⟨⟨.v4, 24, 655617⟩, .unicast⟩] []), .down 2,
    .upd 3 (.ok 6 [⟨⟨.v4, 24, 655617⟩, .unicast⟩] []), .upd 2 (.ok 7 [⟨⟨.v4, 8, 10⟩, .unicast⟩] [])]).entry false ⟨.v4, 24, 655617⟩ 2
    = some (.withdrawn, 5) := by decide

end Rotonda.Rib
