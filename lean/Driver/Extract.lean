import RotondaModel.Generated.BmpDispatch
import RotondaModel.Generated.RibUpdate
import RotondaModel.Generated.CodecAfi
import RotondaModel.Generated.MrtDispatch
/-! Line driver of the extraction ties (`checks/Xextract.json`). One case per input line:
`universe <area>` → the names of the enum variants the generated table of that area ranges over
(the engine `xextract` prints the same list from an exhaustive Rust `match` over the real type). -/
open Rotonda.Generated

def universeOf (area : String) : String :=
  match area with
  | "bmpdispatch" => " ".intercalate BmpDispatch.kindNames
  | "ribupdate" => " ".intercalate RibUpdate.kindNames
  | "codecafi" => " ".intercalate CodecAfi.kindNames
  | "mrtdispatch" => " ".intercalate MrtDispatch.kindNames
  | _ => "unknown-area"

def answer (line : String) : String :=
  match (line.trimAscii.toString.splitOn " ").filter (· ≠ "") with
  | ["universe", a] => universeOf a
  | _ => "bad-case"

partial def loop (h : IO.FS.Stream) : IO Unit := do
  let line ← h.getLine
  if line.isEmpty then return
  IO.println (answer line)
  loop h

def main : IO Unit := do loop (← IO.getStdin)
