import RotondaModel.Model.PipeBmp
/-! Line driver for the composition BMP state machine ∘ RIB (`Model/PipeBmp.lean`).

Case line:  `P|<query prefixes>|<event> <event> …`
  events   `c.<rk>.<k0,k1,…|->`                      a connection is accepted: router key class, key class of header 0, 1, …
           `<i>:i` `<i>:t` `<i>:u.<h>.<gr>.<c4>` `<i>:d.<h>` `<i>:s.<h>` `<i>:m.<h>`     message on connection i
           `<i>:x`                                   connection i is lost (end of input without a Termination message)
           `<i>:r.<h>~<p4><p2>.<eor|->.<pure>.<na>.<nw>.<fa>.<xok><avok>~<M | attr;ann;wd>~<ignored>`   Route Monitoring:
                                                       the real parser's report and the route content of the UPDATE
Output:    `<snapshot> | … | <final>`  — one snapshot (per query prefix the include_withdrawn answer) after every
           event that sent a session-level withdrawal to the RIB, then per prefix `T/F` as `rmodel-rib` prints it;
           after ` ## ` (not compared) one token per event.
A Route Monitoring token whose parser report contradicts its content (`Msg.consistent`) makes the whole line
`inconsistent-token <event>`: the parser contract the theorems rest on is checked on every case. -/
open Rotonda
open Rotonda.PipeBmp

def words (s : String) : List String := (s.splitOn " ").filter (· ≠ "")

def bit (c : Char) : Option Bool := if c == '1' then some true else if c == '0' then some false else none

def parsePrefix (s : String) : Option Rib.Prefix :=
  match s.splitOn "." with
  | [f, l, b] => do
    let fam ← (if f == "4" then some Rib.Fam.v4 else if f == "6" then some Rib.Fam.v6 else none)
    some ⟨fam, ← l.toNat?, ← b.toNat?⟩
  | _ => none

def parseNlri (s : String) : Option Rib.Nlri :=
  let rest := (s.drop 1).toString
  match s.take 1 |>.toString with
  | "u" => do some ⟨← parsePrefix rest, .unicast⟩
  | "m" => do some ⟨← parsePrefix rest, .multicast⟩
  | "x" => do some ⟨← parsePrefix rest, .unsupported⟩
  | _ => none

def parseList (s : String) : Option (List Rib.Nlri) :=
  if s == "-" then some [] else (s.splitOn ",").mapM parseNlri

def parseContent (s : String) : Option Rib.Upd :=
  if s == "M" then some .malformed else
  match s.splitOn ";" with
  | [a, ann, wd] => do some (.ok (← a.toNat?) (← parseList ann) (← parseList wd))
  | _ => none

def parseTok (s : String) : Option Bmp.Rm :=
  match s.splitOn "." with
  | [pp, eor, pure, na, nw, fa, ok] => do
    let pp := pp.toList; let ok := ok.toList
    let p4 ← bit (pp.getD 0 'x'); let p2 ← bit (pp.getD 1 'x')
    let xok ← bit (ok.getD 0 'x'); let avok ← bit (ok.getD 1 'x')
    let pure ← bit (pure.toList.getD 0 'x')
    let eor ← if eor == "-" then some none else (eor.toNat?).map some
    some ⟨p4, p2, eor, pure, ← na.toNat?, ← nw.toNat?, ← fa.toNat?, xok, avok⟩
  | _ => none

def parseMsg (s : String) : Option Msg :=
  match s.splitOn "~" with
  | [hd, tok, content, _] =>
    (match hd.splitOn "." with
     | ["r", h] => do some (.routeMon (← h.toNat?) (← parseTok tok) (← parseContent content))
     | _ => none)
  | [one] =>
    (match one.splitOn "." with
     | ["i"] => some .init
     | ["t"] => some .term
     | ["u", h, e, c] => do
       some (.peerUp (← h.toNat?) (← bit (e.toList.getD 0 'x')) (← bit (c.toList.getD 0 'x')))
     | ["d", h] => do some (.peerDown (← h.toNat?))
     | ["s", h] => do some (.stats (← h.toNat?))
     | ["m", h] => do some (.mirror (← h.toNat?))
     | _ => none)
  | _ => none

/-- An event and, for a `connect`, the key classes of the new connection's headers. -/
def parseEv (s : String) : Option (Ev × List Nat) :=
  match s.splitOn ":" with
  | [i, m] => if m == "x" then do some (.disconnect (← i.toNat?), []) else do some (.msg (← i.toNat?) (← parseMsg m), [])
  | [c] =>
    (match c.splitOn "." with
     | ["c", rk, ks] => do
       let ks ← if ks == "-" then some [] else (ks.splitOn ",").mapM (·.toNat?)
       some (.connect (← rk.toNat?), ks)
     | _ => none)
  | _ => none

def showRecs (rs : List Rib.Rec) : String :=
  let rs := (rs.toArray.qsort (fun a b => a.mui < b.mui || (a.mui == b.mui && (a.status == .active && b.status == .withdrawn
            || (a.status == b.status && a.attrs < b.attrs))))).toList
  if rs.isEmpty then "-" else
  ",".intercalate (rs.map fun r => s!"{r.mui}.{if r.status == .active then "A" else "W"}.{r.attrs}")

def showIds (ids : List Nat) : String :=
  ",".intercalate ((ids.toArray.qsort (· < ·)).toList.map toString)

def showOut : Bmp.Out → String
  | .invalid => "inv"
  | .other => "oth"
  | .transition => "tr"
  | .routing (.bulk mui na nw) => if na + nw == 0 then s!"b.-.0.0" else s!"b.{mui}.{na}.{nw}"
  | .routing (.withdraw m) => s!"w.{m}"
  | .routing (.withdrawBulk ids) => s!"wb.{showIds ids}"

def snapshot (r : Rib.Rib) (qs : List Rib.Prefix) : String :=
  " ".intercalate (qs.map fun p => showRecs (r.query p {}))

def final (r : Rib.Rib) (qs : List Rib.Prefix) : String :=
  " ".intercalate (qs.map fun p => showRecs (r.query p {}) ++ "/" ++ showRecs (r.query p { includeWithdrawn := false }))

/-- Is the update a session-level withdrawal? -/
def sessionLevel : Rib.Update → Bool
  | .withdraw .. => true
  | .withdrawBulk .. => true
  | _ => false

/-- Apply the updates one by one; one snapshot after every session-level withdrawal. -/
def applySnap (v : Variant) (qs : List Rib.Prefix) : Rib.Rib → List Rib.Update → List String → Rib.Rib × List String
  | r, [], acc => (r, acc)
  | r, u :: us, acc =>
    let r' := r.apply v.rib u
    applySnap v qs r' us (if sessionLevel u then snapshot r' qs :: acc else acc)

def runCase (v : Variant) (line : String) : String :=
  match line.splitOn "|" with
  | "P" :: qs :: evs :: _ =>
    match (words qs).mapM parsePrefix, (words evs).mapM parseEv with
    | some qs, some evs =>
      let keyTab : List (List Nat) := evs.filterMap fun (e, ks) => match e with | .connect _ => some ks | _ => none
      let K : Nat → Hdr → Key := fun i h => (keyTab.getD i []).getD h (100000 + 1000 * i + h)
      match evs.find? (fun (e, _) => match e with | .msg _ m => !m.consistent | _ => false) with
      | some (e, _) =>
        (match e with
         | .msg i (.routeMon h _ _) => s!"inconsistent-token {i}:r.{h}"
         | _ => "inconsistent-token")
      | none =>
        let rec go (w : World) (es : List (Ev × List Nat)) (snaps info : List String) : World × List String × List String :=
          match es with
          | [] => (w, snaps.reverse, info.reverse)
          | (e, _) :: rest =>
            let w' := w.step v K e
            match e with
            | .connect rk => go w' rest snaps (s!"c{(Bmp.regFor rk ⟨.initiating, [], w.reg, w.next⟩).2.2}" :: info)
            | .disconnect i =>
              match w.sess[i]? with
              | none => go w' rest snaps ("nc" :: info)
              | some s =>
                if lifeOf s.phase == .dead then go w' rest snaps ("closed" :: info) else
                let (r2, snaps) := applySnap v qs w.rib (epilogue (w.rids.getD i 0) w.par) snaps
                go w' rest (if r2 == w'.rib then snaps else "driver-desync" :: snaps) ("x" :: info)
            | .msg i m =>
              match w.sess[i]? with
              | none => go w' rest snaps ("nc" :: info)
              | some s =>
                let r := Bmp.step v.bmp (K i) (w.view s) m.toBmp
                let ups := emit v.rib m r.out
                let rid := w.rids.getD i 0
                let all := ups ++ (if endedBy (lifeOf s.phase) (lifeOf r.st.phase) then epilogue rid (w.par ++ newChildren rid w.next r.st.next) else [])
                let (r2, snaps) := applySnap v qs w.rib all snaps
                let snaps := if r2 == w'.rib then snaps else "driver-desync" :: snaps
                let o := match ups with
                  | [.bulk ps] =>
                    (match ps with
                     | [] => "b.-.0.0"
                     | p :: _ => s!"b.{p.mui}.{(ps.filter (fun (q : Rib.Payload) => q.status == Rib.Status.active)).length}.{(ps.filter (fun (q : Rib.Payload) => q.status == Rib.Status.withdrawn)).length}")
                  | _ => showOut r.out
                go w' rest snaps (s!"{r.st.phase.idx}:{o}" :: info)
        let (w, snaps, info) := go World.init evs [] []
        " | ".intercalate (snaps ++ [final w.rib qs]) ++ " ## " ++ " ".intercalate info
    | _, _ => "bad-case"
  | _ => "bad-case"

partial def loop (v : Variant) (h : IO.FS.Stream) (out : IO.FS.Stream) : IO Unit := do
  let line ← h.getLine
  if line.isEmpty then return ()
  out.putStrLn (runCase v (line.trimAscii.toString))
  loop v h out

def main (args : List String) : IO Unit := do
  let v : Variant :=
    { bmp := { eorGaugeStale := !(args.contains "eorgauge=repaired"),
               eorAnyUpdate := !(args.contains "eorswallow=repaired") },
      rib := { overlapFix := args.contains "overlap=repaired",
               perRecordWithdraw := args.contains "flap=repaired" } }
  loop v (← IO.getStdin) (← IO.getStdout)
