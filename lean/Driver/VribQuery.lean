import RotondaModel.Model.VribQuery
/-! Line driver for `Model/VribQuery.lean`. One case per input line (formats: see
`harness/src/bin/vribquery.rs`), one output line per case. Parsing / printing glue, unverified.
Arguments: `reprocess=as-written|repaired clientgone=as-written|repaired sortscope=as-written|repaired listing=as-observed|contract cmp=as-written|total`. -/
open Rotonda.VribQuery
open Rotonda.RibQuery (Str Prefix Fam Rec Store Rib Limits Url parseQuery)

def hexVal (c : Char) : Nat :=
  if '0' ≤ c ∧ c ≤ '9' then c.toNat - '0'.toNat
  else if 'a' ≤ c ∧ c ≤ 'f' then c.toNat - 'a'.toNat + 10 else 0

/-- hex of UTF-8 bytes -> one `Char` per byte -/
def unhex : List Char → Str
  | a :: b :: rest => Char.ofNat (hexVal a * 16 + hexVal b) :: unhex rest
  | _ => []

def parseIntTok (s : String) : Option Int :=
  if s.startsWith "-" then (s.drop 1).toNat?.map fun n => -(n : Int) else s.toNat?.map fun n => (n : Int)

/-- Values in the prefix code, every token closed by `;`. -/
partial def parseJ : List String → Option (J × List String)
  | [] => none
  | t :: rest =>
    let body := (t.drop 1).toString
    match (t.take 1).toString with
    | "n" => some (.null, rest)
    | "t" => some (.bool true, rest)
    | "f" => some (.bool false, rest)
    | "i" => match parseIntTok body with
      | some k => some (.num (if k < 0 then .neg (k.natAbs - 1) else .pos k.natAbs), rest)
      | none => none
    | "d" => (parseIntTok body).map fun k => (.num (.flt k), rest)
    | "s" => some (.str (unhex body.toList), rest)
    | "a" => do
      let n ← body.toNat?
      let mut xs : List J := []
      let mut r := rest
      for _ in [0:n] do
        let (x, r') ← parseJ r
        xs := x :: xs
        r := r'
      some (.arr xs.reverse, r)
    | "o" => do
      let n ← body.toNat?
      let mut ks : List Str := []
      let mut vs : List J := []
      let mut r := rest
      for _ in [0:n] do
        match r with
        | k :: r1 =>
          let (x, r') ← parseJ r1
          ks := unhex ((k.drop 1).toString.toList) :: ks
          vs := x :: vs
          r := r'
        | [] => none
      some (.obj ks.reverse vs.reverse, r)
    | _ => none

def tokens (s : String) : List String := (s.splitOn ";").filter (· != "")

def parseOne (s : String) : Option J := (parseJ (tokens s)).map (·.1)

partial def parseMany (ts : List String) : Option (List J) :=
  if ts.isEmpty then some [] else do
    let (x, r) ← parseJ ts
    let xs ← parseMany r
    some (x :: xs)

def showOrd : Ordering → String
  | .lt => "L" | .eq => "E" | .gt => "G"

def showIdx (l : List Nat) : String := "[" ++ " ".intercalate (l.map toString) ++ "]"

def parsePrefix (s : String) : Option Prefix :=
  match s.splitOn "/" with
  | [f, l, b] => do
    let fam ← if f == "4" then some Fam.v4 else if f == "6" then some Fam.v6 else none
    some ⟨fam, ← l.toNat?, ← b.toNat?⟩
  | _ => none

def showPrefix (p : Prefix) : String :=
  s!"{match p.fam with | .v4 => 4 | .v6 => 6}/{p.len}/{p.bits}"

/-- `<u|m>,<prefix>,<mui>,<A|W>,<aid>` -/
def parseRec (s : String) : Option (Bool × Rec) :=
  match s.splitOn "," with
  | [st, p, mui, status, aid] => do
    let r : Rec := {
      pfx := ← parsePrefix p, mui := ← mui.toNat?,
      status := if status == "A" then .active else .withdrawn,
      attrs := { id := ← aid.toNat?, asPath := none, communities := [] } }
    some (st == "m", r)
  | _ => none

def parseList {α} (f : String → Option α) (sep : String) (s : String) : Option (List α) :=
  if s.isEmpty then some [] else (s.splitOn sep).mapM f

def parseUp (s : String) : Option Upstream :=
  -- D<n>L<n|->M<n|->
  if !s.startsWith "D" then none else
  match (s.drop 1).toString.splitOn "L" with
  | [d, rest] =>
    match rest.splitOn "M" with
    | [l, m] => do
      let opt (t : String) : Option (Option Nat) := if t == "-" then some none else t.toNat?.map some
      some ⟨← d.toNat?, ← opt l, ← opt m⟩
    | _ => none
  | _ => none

def showUp (u : Upstream) : String :=
  let o (x : Option Nat) := match x with | some n => toString n | none => "-"
  s!"D{u.data}L{o u.less}M{o u.more}"

def showObs (o : VObs) : String :=
  let a := match o.answer with
    | .ok u => s!"200:{showUp u}" | .ok200 => "200" | .badRequest => "400" | .notFound => "404" | .hangs => "T"
  let p := match o.panic with
    | none => "" | some .reprocessTodo => "!unit.rs:todo" | some .resultSendUnwrap => "!unit.rs:unwrap-err"
  a ++ p

/-- `<endpoint>.<what>.<include>=<upstream answer>` -/
def parseVReq (k : Nat) (s : String) : Option VReq :=
  match s.splitOn "=" with
  | [q, up] =>
    match q.splitOn "." with
    | [ep, what, _inc] =>
      let upQ : What := match parseUp up with
        | some u => if what == "c" then .queryGone u else .query u
        | none => .refused
      let w : What := if what == "i" || what == "u" then .refused else upQ
      if ep == "x" then some ⟨.status, w⟩
      else if ep == "p" then some ⟨.physical, w⟩
      else if ep == "v" then some ⟨.virtual (k + 1), w⟩
      else match ep.toNat? with
        | some j => if j < k then some ⟨.virtual (j + 1), w⟩ else some ⟨.physical, .refused⟩
        | none => none
    | _ => none
  | _ => none

def runLine (vv : VVariant) (sv : SortVariant) (lv : ListVariant) (total : Bool) (line : String) : String :=
  match line.splitOn "|" with
  | ["C", a, b] =>
    match parseOne a, parseOne b with
    | some x, some y => showOrd (if total then cmpJsonT x y else cmpJson x y)
    | _, _ => "parse-error"
  | ["S", keys, vals] =>
    match parseMany (tokens vals) with
    | some xs =>
      let sort : Option Str := if keys == "-" then none else some (unhex keys.toList)
      showIdx (if total then sortSectionIdxT ⟨true⟩ sort xs else sortSectionIdx ⟨true⟩ sort xs)
    | none => "parse-error"
  | "R" :: pfx :: lim :: query :: d :: l :: m :: _ =>
    let sec (s : String) : Option (Option (List J)) := if s == "-" then some none else (parseMany (tokens s)).map some
    match lim.splitOn ",", parseMany (tokens d), sec l, sec m with
    | [a, b], some d, some l, some m =>
      let url : Url := ⟨parsePrefix pfx, parseQuery (unhex query.toList)⟩
      match (if total then handleSortedT sv ⟨a.toNat!, b.toNat!⟩ url d l m else handleSorted sv ⟨a.toNat!, b.toNat!⟩ url d l m) with
      | .badRequest => "400"
      | .dump => "200 dump"
      | .json d l m =>
        let o (x : Option (List Nat)) := match x with | some x => showIdx x | none => "-"
        s!"200 D{showIdx d} L{o l} M{o m}"
    | _, _, _, _ => "parse-error"
  | ["G", phys, text, recs, wd, obs] =>
    match parseList parseRec ";" recs, parseList (·.toNat?) "," wd, parseList parsePrefix "," (obs.drop 1).toString with
    | some recs, some wd, some obs =>
      let store (mc : Bool) : Store := { recs := (recs.filter (·.1 == mc)).map (·.2), wd := wd }
      let rib : Rib := ⟨store false, store true⟩
      match handleListing lv (phys == "1") rib (unhex text.toList) obs with
      | .badRequest => "400"
      | .ok routes =>
        let key (x : Prefix × Nat) : List Nat := [match x.1.fam with | .v4 => 4 | .v6 => 6, x.1.len, x.1.bits, x.2]
        let sorted := (routes.toArray.qsort fun a b => key a < key b).toList
        "200 [" ++ " ".intercalate (sorted.map fun (p, a) => s!"{showPrefix p}:{a}") ++ "]"
    | _, _, _ => "parse-error"
  | ["V", cfg, _ann, qs] =>
    match cfg.splitOn "." with
    | [k, _vr] =>
      match k.toNat?, (qs.splitOn ";").mapM (parseVReq (k.toNat?.getD 0)) with
      | some _, some reqs => " ".intercalate ((vrun vv ⟨true⟩ reqs).2.map showObs)
      | _, _ => "parse-error"
    | _ => "parse-error"
  | _ => "parse-error"

def flag (args : List String) (name : String) : Bool :=
  args.contains s!"{name}=repaired"

partial def loop (vv : VVariant) (sv : SortVariant) (lv : ListVariant) (total : Bool) (h : IO.FS.Stream) (out : IO.FS.Stream) : IO Unit := do
  let line ← h.getLine
  if line.isEmpty then return
  let l := line.trimAscii.toString
  if !l.isEmpty then out.putStrLn (runLine vv sv lv total l)
  loop vv sv lv total h out

def main (args : List String) : IO Unit := do
  let vv : VVariant := ⟨flag args "reprocess", flag args "clientgone"⟩
  let sv : SortVariant := ⟨flag args "sortscope"⟩
  let lv : ListVariant := ⟨args.contains "listing=contract"⟩
  loop vv sv lv (args.contains "cmp=total") (← IO.getStdin) (← IO.getStdout)
