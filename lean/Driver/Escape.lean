import RotondaModel.Model.EscapePages
/-! Line driver for the HTML page model (C19). One case per line, output = the page's structural skeleton.

`info|<sysName>|<sysDesc>|<extra;extra…>|<base>|<msg:pcap,msg:-,…>|<peers: - or n>|<focus>` and
`list|<- or sysName:sysDesc>`; every string is hex (bytes). -/
open Rotonda.Escape

def hexVal (c : Char) : Option Nat :=
  if '0' ≤ c ∧ c ≤ '9' then some (c.toNat - 48) else if 'a' ≤ c ∧ c ≤ 'f' then some (c.toNat - 87) else none

/-- hex → bytes as chars: ASCII bytes are themselves, bytes ≥ 128 (what `from_utf8_lossy` turns into
    non-ASCII characters) become `?`. -/
partial def unhex : List Char → Option (List Char)
  | [] => some []
  | a :: b :: rest => do
    let v := (← hexVal a) * 16 + (← hexVal b)
    let tl ← unhex rest
    some ((if v < 128 then Char.ofNat v else '?') :: tl)
  | _ => none

def unhexS (s : String) : Option (List Char) := if s == "-" then some [] else unhex s.toList

def parseErr (s : String) : Option ErrEntry :=
  match s.splitOn ":" with
  | [m, p] => do
    let m ← unhexS m
    if p == "-" then some ⟨m, none⟩ else do some ⟨m, some (← unhex p.toList)⟩
  | _ => none

def listOf (s : String) (sep : String) : List String := if s == "" then [] else s.splitOn sep

def runCase (line : String) : String :=
  match line.splitOn "|" with
  | ["info", n, d, ex, base, errs, peers, focus] =>
    match unhexS n, unhexS d, (listOf ex ";").mapM unhexS, unhexS base, (listOf errs ",").mapM parseErr, focus.toNat? with
    | some n, some d, some ex, some base, some errs, some focus =>
      let peers := if peers == "-" then none else peers.toNat?
      String.ofList (skeleton (infoPage ⟨n, d, ex, base, errs, peers, focus⟩))
    | _, _, _, _, _, _ => "bad-case"
  | ["list", row] =>
    if row == "-" then String.ofList (skeleton (listPage [none])) else
    match row.splitOn ":" with
    | [n, d] =>
      match unhexS n, unhexS d with
      | some n, some d => String.ofList (skeleton (listPage [some (n, d)]))
      | _, _ => "bad-case"
    | _ => "bad-case"
  | ["metrics", _, _, _] =>
    -- the exposition uses ids as label values and never the router's text: the model's answer is constant
    "same=true wellformed=true"
  | _ => "bad-case"

partial def loop (h : IO.FS.Stream) (out : IO.FS.Stream) : IO Unit := do
  let line ← h.getLine
  if line.isEmpty then return ()
  out.putStrLn (runCase (line.trimAscii.toString))
  loop h out

def main (_args : List String) : IO Unit := do
  loop (← IO.getStdin) (← IO.getStdout)
