import RotondaModel.Model.Rib
import RotondaModel.Model.Session
/-! Line driver for the RIB model (C01, C02, C03).
    case  `h|<prefixes>|<events>`  →  per prefix `T/F` (include_withdrawn = true / false record lists). -/
open Rotonda.Rib

def words (s : String) : List String := (s.splitOn " ").filter (· ≠ "")

def parsePrefix (s : String) : Option Prefix :=
  match s.splitOn "." with
  | [f, l, b] => do
    let fam ← (if f == "4" then some Fam.v4 else if f == "6" then some Fam.v6 else none)
    some ⟨fam, ← l.toNat?, ← b.toNat?⟩
  | _ => none

def parseNlri (s : String) : Option Nlri :=
  let rest := (s.drop 1).toString
  match s.take 1 |>.toString with
  | "u" => do some ⟨← parsePrefix rest, .unicast⟩
  | "m" => do some ⟨← parsePrefix rest, .multicast⟩
  | "x" => do some ⟨← parsePrefix rest, .unsupported⟩
  | _ => none

def parseList (s : String) : Option (List Nlri) :=
  if s == "-" then some [] else (s.splitOn ",").mapM parseNlri

def parseAf : String → AfiSafi
  | "v4u" => .v4u | "v6u" => .v6u | "v4m" => .v4m | "v6m" => .v6m | _ => .other

/-- One event token → the `Update`s the RIB unit receives for it. -/
def parseEv (v : Variant) (s : String) : Option (List Update) :=
  match s.splitOn ":" with
  | "u" :: m :: a :: ann :: wd :: _ => do
    some (ingest v .fresh (← m.toNat?) (.ok (← a.toNat?) (← parseList ann) (← parseList wd)))
  | "x" :: m :: _ => do some (ingest v .fresh (← m.toNat?) .malformed)
  | ["d", m] => do some [.withdraw (← m.toNat?) none]
  | ["D", ms] => if ms == "-" then some [.withdrawBulk []] else do some [.withdrawBulk (← (ms.splitOn ",").mapM (·.toNat?))]
  | ["da", m, af] => do some [.withdraw (← m.toNat?) (some (parseAf af))]
  | _ => none

def showRecs (rs : List Rec) : String :=
  let rs := (rs.toArray.qsort (fun a b => a.mui < b.mui || (a.mui == b.mui && (a.status == .active && b.status == .withdrawn
            || (a.status == b.status && a.attrs < b.attrs))))).toList
  if rs.isEmpty then "-" else
  ",".intercalate (rs.map fun r => s!"{r.mui}.{if r.status == .active then "A" else "W"}.{r.attrs}")

def stepAll (v : Variant) : Outcome → List Update → Outcome
  | .panic s, _ => .panic s
  | .ok r, [] => .ok r
  | .ok r, u :: us => stepAll v (r.step v u) us

/-! Session layer (C02): `s|<k=ptype,flags,dist,addr,asn,bgpid ...>|<U<k> | D<k> ...>` on a router with ingress id 1
    on a fresh register (next serial 2), as `BmpStepper::new()` builds it → `<k:id ...> | <ids_for_parent ...> | <withdrawn id per D or ->`. -/
open Rotonda.Session in
def runSession (hdrs ops : String) : String :=
  let parseH (t : String) : Option (Nat × Pph) :=
    match t.splitOn "=" with
    | [k, f] => match (f.splitOn ",").mapM (·.toNat?) with
      | some [a, b, c, d, e, g] => do some (← k.toNat?, ⟨a, b, c, d, e, g⟩)
      | _ => none
    | _ => none
  match (words hdrs).mapM parseH with
  | none => "bad-case"
  | some hs =>
    let w0 : World := World.connected ⟨2, [(1, ⟨0, 0, 0, 9⟩)]⟩ 1
    let go := (words ops).foldl (fun (acc : World × List String) o =>
      let k := ((o.drop 1).toString.toNat?).getD 0
      match hs.lookup k with
      | none => acc
      | some h =>
        if o.startsWith "U" then (peerUp acc.1 h, acc.2)
        else
          let r := peerDown acc.1 h
          (r.1, acc.2 ++ [match r.2 with | some id => toString id | none => "-"])) (w0, [])
    let w := go.1
    let up := hs.filterMap fun (k, h) => (w.rt.idOf h).map fun id => s!"{k}:{id}"
    let ids := (disconnectIds w).toArray.qsort (· < ·) |>.toList
    " ".intercalate up ++ " | " ++ " ".intercalate (ids.map toString) ++ " | " ++ " ".intercalate go.2

def runCase (v : Variant) (line : String) : String :=
  -- an optional 4th field (the scenario that produced the events, for replay) is ignored
  match (line.splitOn "|").take 3 with
  | ["s", hdrs, ops] => runSession hdrs ops
  | ["h", qs, evs] =>
    match (words qs).mapM parsePrefix, (words evs).mapM (parseEv v) with
    | some qs, some uss =>
      match stepAll v (.ok Rib.empty) uss.flatten with
      | .panic site => s!"panic {site}"
      | .ok r => " ".intercalate (qs.map fun p =>
          showRecs (r.query p {}) ++ "/" ++ showRecs (r.query p { includeWithdrawn := false }))
    | _, _ => "bad-case"
  | _ => "bad-case"

partial def loop (v : Variant) (h : IO.FS.Stream) (out : IO.FS.Stream) : IO Unit := do
  let line ← h.getLine
  if line.isEmpty then return ()
  out.putStrLn (runCase v (line.trimAscii.toString))
  loop v h out

def main (args : List String) : IO Unit := do
  let v : Variant := { overlapFix := args.contains "overlap=repaired",
                       perRecordWithdraw := args.contains "flap=repaired" }
  loop v (← IO.getStdin) (← IO.getStdout)
