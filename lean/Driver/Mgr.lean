import RotondaModel.Model.Mgr
import RotondaModel.Model.Reconf
/-! Line driver for the config (re)load model (C13). One reload *sequence* per line.

case := step ('/' step)*
step := flags ';U:' comps ';T:' comps ';r:' names ';m:' names
flags := '-' | subset of 'x' (not TOML) 'o' (roto script does not compile)
comps := '' | comp (',' comp)*          comp := name '.' ty '.' srcs '.' source '.' filters
ty := nat | '?'      srcs := '-' | '1' v | '[' (v ('+' v)*)? ']'     v := 's' nat | 'b'    source := '-' | v
names := '' | nat ('+' nat)*
-/
open Rotonda.Mgr

def parseV (s : String) : Option V :=
  if s == "b" then some .bad
  else match s.toList with
    | 's' :: rest => (String.ofList rest).toNat?.map V.s
    | _ => none

def parseSrcs (s : String) : Option Srcs :=
  if s == "-" then some .absent
  else match s.toList with
    | '1' :: rest => (parseV (String.ofList rest)).map Srcs.one
    | '[' :: rest =>
      let inner := String.ofList (rest.takeWhile (· != ']'))
      if inner == "" then some (.many [])
      else ((inner.splitOn "+").mapM parseV).map Srcs.many
    | _ => none

def parseComp (s : String) : Option RawComp :=
  match s.splitOn "." with
  | [n, ty, srcs, src, f] => do
    let n ← n.toNat?
    let ty ← (if ty == "?" then some none else ty.toNat?.map some)
    let srcs ← parseSrcs srcs
    let src ← (if src == "-" then some none else (parseV src).map some)
    let f ← f.toNat?
    some { name := n, ty := ty, sources := srcs, source := src, filters := f, upstream := none }
  | _ => none

def parseComps (s : String) : Option (List RawComp) :=
  if s == "" then some [] else (s.splitOn ",").mapM parseComp

def parseNames (s : String) : Option (List Nat) :=
  if s == "" then some [] else (s.splitOn "+").mapM (·.toNat?)

def dropPrefix (p s : String) : Option String :=
  if s.startsWith p then some (s.drop p.length).toString else none

def parseStep (s : String) : Option Load :=
  match s.splitOn ";" with
  | [fl, u, t, r, m] => do
    let us ← parseComps (← dropPrefix "U:" u)
    let ts ← parseComps (← dropPrefix "T:" t)
    let r ← parseNames (← dropPrefix "r:" r)
    let m ← parseNames (← dropPrefix "m:" m)
    some { notToml := fl.contains 'x', doc := ⟨us, ts⟩, roto := fl.contains 'o', residue := r, moved := m }
  | _ => none

def sortStrs (l : List String) : List String := (l.toArray.qsort (· < ·)).toList

def showAction : Action → String
  | .spawnU n t => s!"su{n}:{t}"
  | .reconfU n => s!"ru{n}"
  | .termU n => s!"tu{n}"
  | .spawnT n t => s!"st{n}:{t}"
  | .reconfT n => s!"rt{n}"
  | .termT n => s!"tt{n}"

def showResult : Result → String
  | .ok acts => "ok:" ++ ",".intercalate (sortStrs (acts.map showAction))
  | .err => "err"
  | .panic => "panic"

def showNames (l : List Nat) : String := ",".intercalate (sortStrs (l.map toString))

def runCase (v : Variant) (line : String) : String :=
  match (line.splitOn "/").mapM parseStep with
  | some loads =>
    let r := run v St.init loads
    " / ".intercalate (r.2.map showResult) ++ s!" => U={showNames (r.1.runU.map (·.1))} T={showNames (r.1.runT.map (·.1))}"
  | none => "bad-case"

/-! ### Live cases (`L|…`): the executed pipeline of `Model/Reconf.lean`

case  := 'L|' event ('|' event)*
event := 'c' r '@' port | ('a'|'w') r ':' pfxs '~' lost | ('L'|'F') doc '~' names '~' names '!' racing
doc   := b0 ',' b1 ',' rib ',' nulls ',' broken     b := '-' | port     rib := '-' | srcs '.' v4 '.' path
nulls := '' | n ':' srcs (';' n ':' srcs)*          racing := '' | ('A'|'W') r ':' pfxs '~' lost (';' …)*
-/
namespace LiveDriver
open Rotonda.Reconf

def nats (s : String) : Option (List Nat) :=
  if s == "" then some [] else (s.splitOn "+").mapM (·.toNat?)

structure Doc where
  b0 : Option Nat
  b1 : Option Nat
  rib : Option (List Nat × Nat × Nat)
  filters : Nat := 0      -- length of `filter_names`
  vr : Bool := false      -- the hand-written virtual RIB `vr` (unit 3) and its target `t8`
  nulls : List (Nat × List Nat)
  broken : Nat

def parseB (s : String) : Option (Option Nat) := if s == "-" then some none else s.toNat?.map some

def parseRib (s : String) : Option (Option (List Nat × Nat × Nat) × Nat × Bool) :=
  if s == "-" then some (none, 0, false) else
  match s.splitOn "." with
  | [srcs, v4, path] => do some (some (← nats srcs, ← v4.toNat?, ← path.toNat?), 0, false)
  | [srcs, v4, path, f, vr] => do some (some (← nats srcs, ← v4.toNat?, ← path.toNat?), ← f.toNat?, vr == "1")
  | _ => none

def parseNulls (s : String) : Option (List (Nat × List Nat)) :=
  if s == "" then some [] else
  (s.splitOn ";").mapM (fun t => match t.splitOn ":" with
    | [n, srcs] => do some (← n.toNat?, ← nats srcs)
    | _ => none)

def parseDoc (s : String) : Option Doc :=
  match s.splitOn "," with
  | [b0, b1, rib, nulls, broken] => do
    let r ← parseRib rib
    some { b0 := ← parseB b0, b1 := ← parseB b1, rib := r.1, filters := r.2.1, vr := r.2.2, nulls := ← parseNulls nulls, broken := ← broken.toNat? }
  | _ => none

def bmpComp (n : Nat) : RawComp := ⟨n, some 0, .absent, none, 0, none⟩

def Doc.toLoad (d : Doc) (residue moved : List Nat) : LLoad :=
  let units := (match d.b0 with | some _ => [bmpComp 0] | none => []) ++ (match d.b1 with | some _ => [bmpComp 1] | none => [])
    ++ (match d.rib with | some (srcs, _, _) => [⟨2, some 4, .many (srcs.map V.s), none, d.filters, none⟩] | none => [])
    ++ (if d.rib.isSome && d.vr then [⟨3, some 4, .many [.s 2], none, 0, some 2⟩] else [])
  let targets := d.nulls.map (fun t => (⟨t.1, some 0, .many (t.2.map V.s), none, 0, none⟩ : RawComp))
    ++ (if d.rib.isSome && d.vr then [⟨8, some 0, .many [.s 3], none, 0, none⟩] else [])
    ++ (if d.broken == 2 then [⟨9, none, .many [.s 0], none, 0, none⟩] else [])
  let settings := (match d.b0 with | some p => [(0, Settings.bmp ⟨p⟩)] | none => []) ++ (match d.b1 with | some p => [(1, Settings.bmp ⟨p⟩)] | none => [])
    ++ (match d.rib with | some (srcs, v4, path) => [(2, Settings.rib ⟨srcs, v4, 19, path, none⟩)] | none => [])
    -- virtual RIBs: rib units without a store; generated ones are clones of the rib's table (same path), the
    -- hand-written one answers below its own path (9)
    ++ (match d.rib with
        | some (_, v4, path) =>
          (if 2 ≤ d.filters then (List.range (d.filters - 1)).map (fun k => (vribName 2 k, Settings.rib ⟨[if k = 0 then 2 else vribName 2 (k - 1)], v4, 19, path, none⟩)) else [])
          ++ (if d.vr then [(3, Settings.rib ⟨[remapOf [⟨2, some 4, .absent, none, d.filters, none⟩] 2], 8, 19, 9, none⟩)] else [])
        | none => [])
  { load := { notToml := d.broken == 1, doc := ⟨units, targets⟩, roto := false, residue := residue, moved := moved }, settings := settings }

def parseRoute (s : String) : Option Ev :=
  match s.toList with
  | k :: rest =>
    let body := String.ofList rest
    match body.splitOn ":" with
    | [r, p] =>
      match p.splitOn "~" with
      | [pf, lost] => do some (.route (← r.toNat?) (k == 'a' || k == 'A') (← nats pf) (← nats lost))
      | [pf] => do some (.route (← r.toNat?) (k == 'a' || k == 'A') (← nats pf) [])
      | _ => none
    | _ => none
  | [] => none

/-- one event of the case line = a list of model events observed together -/
def parseEvent (s : String) : Option (List Ev) :=
  match s.toList with
  | 'c' :: rest =>
    match (String.ofList rest).splitOn "@" with
    | [r, p] => do some [.connect (← r.toNat?) (← p.toNat?)]
    | _ => none
  | 'a' :: _ => (parseRoute s).map (fun e => [e])
  | 'w' :: _ => (parseRoute s).map (fun e => [e])
  | k :: rest =>
    if k == 'L' || k == 'F' then
      match (String.ofList rest).splitOn "!" with
      | [head, racing] =>
        match head.splitOn "~" with
        | [doc, res, mov] => do
          let d ← parseDoc doc
          let rs ← (if racing == "" then some [] else (racing.splitOn ";").mapM parseRoute)
          some (.load (d.toLoad (← nats res) (← nats mov)) :: rs)
        | _ => none
      | _ => none
    else none
  | [] => none

def insertSorted (lt : α → α → Bool) (x : α) : List α → List α
  | [] => [x]
  | y :: ys => if lt x y then x :: y :: ys else y :: insertSorted lt x ys
def sortBy (lt : α → α → Bool) (l : List α) : List α := l.foldl (fun acc x => insertSorted lt x acc) []

def showNats (l : List Nat) : String := ",".intercalate ((sortBy (· < ·) l).map toString)

def showVirt (s : LiveW) : String :=
  let ls := sortBy (fun (a b : Name × VLink) => a.1 < b.1) s.wire.links
  ",".intercalate (ls.map (fun e =>
    let label := if e.1 == 3 then "v" else
      match lookupU e.1 s.live.units with
      | some (.rib u) => s!"{u.cfg.path}.{e.1 - 120}"
      | _ => s!"?.{e.1 - 120}"
    s!"{label}:{if s.wire.answers e.1 then "=" else "T"}"))

def showObs (s : Live) (res : Option Result) : String :=
  let r := match res with | some (.ok _) => "ok" | some .err => "err" | some .panic => "panic" | none => "-"
  let rib := match lookupU 2 s.units with
    | some (.rib u) =>
      let recs := sortBy (fun (a b : Rec) => a.pfx < b.pfx || (a.pfx == b.pfx && a.src < b.src)) u.store
      s!"{u.cfg.path}:{if u.cfg.v4 ≤ 8 then "8" else "16"}:" ++ ",".intercalate (recs.map (fun (x : Rec) => s!"{x.pfx}.{x.src}{if x.active then "A" else "W"}"))
    | _ => "-"
  let b (n : Nat) := match lookupU n s.units with | some (.bmp u) => "[" ++ showNats u.sessions ++ "]" | _ => "-"
  let ports := s.units.filterMap (fun e => match e.2 with | .bmp u => some u.bound | _ => none)
  let opens := s.units.flatMap (fun e => match e.2 with | .bmp u => u.sessions | _ => [])
  s!"{r} U={showNats (s.mgr.runU.map (·.1))} rib={rib} b0={b 0} b1={b 1} P={showNats ports} S={showNats opens}"

def lastResult (v : Rotonda.Reconf.Variant) : LiveW → List Ev → LiveW × Option Result
  | s, [] => (s, none)
  | s, e :: es =>
    let r := westep true v s e
    let rest := lastResult v r.1 es
    (rest.1, match r.2 with | some x => some x | none => rest.2)

def runLive (v : Rotonda.Reconf.Variant) (line : String) : String :=
  match ((line.splitOn "|").drop 1).mapM parseEvent with
  | none => "bad-case"
  | some groups =>
    let step := fun (acc : LiveW × List String) (g : List Ev) =>
      let r := lastResult v acc.1 g
      (r.1, acc.2 ++ [showObs r.1.live r.2 ++ " Q=" ++ showVirt r.1])
    " / ".intercalate (groups.foldl step (LiveW.init, [])).2

end LiveDriver

partial def loop (v : Variant) (lv : Rotonda.Reconf.Variant) (h : IO.FS.Stream) (out : IO.FS.Stream) : IO Unit := do
  let line ← h.getLine
  if line.isEmpty then return ()
  let l := line.trimAscii.toString
  out.putStrLn (if l.startsWith "L|" then LiveDriver.runLive lv l else runCase v l)
  loop v lv h out

def main (args : List String) : IO Unit := do
  let v : Variant := { unreach := !args.contains "unreach=repaired", stale := !args.contains "stale=repaired" }
  let lv : Rotonda.Reconf.Variant := { mgr := v, pathIgnored := !args.contains "apipath=repaired", cloneStale := !args.contains "clonesender=repaired", queueWedge := !args.contains "clonequeue=repaired" }
  loop v lv (← IO.getStdin) (← IO.getStdout)
