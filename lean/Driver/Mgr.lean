import RotondaModel.Model.Mgr
/-! Line driver for the config (re)load model (C13). One reload *sequence* per line.

case := step ('/' step)*
step := flags ';U:' comps ';T:' comps ';r:' names ';m:' names
flags := '-' | subset of 'x' (not TOML) 'o' (roto script does not compile)
comps := '' | comp (',' comp)*          comp := name '.' ty '.' srcs '.' source '.' filters
ty := nat | '?'      srcs := '-' | '1' v | '[' (v ('+' v)*)? ']'     v := 's' nat | 'b'    source := '-' | v
names := '' | nat ('+' nat)*
-/
open Rotonda.Mgr

def parseV (s : String) : Option V :=
  if s == "b" then some .bad
  else match s.toList with
    | 's' :: rest => (String.ofList rest).toNat?.map V.s
    | _ => none

def parseSrcs (s : String) : Option Srcs :=
  if s == "-" then some .absent
  else match s.toList with
    | '1' :: rest => (parseV (String.ofList rest)).map Srcs.one
    | '[' :: rest =>
      let inner := String.ofList (rest.takeWhile (· != ']'))
      if inner == "" then some (.many [])
      else ((inner.splitOn "+").mapM parseV).map Srcs.many
    | _ => none

def parseComp (s : String) : Option RawComp :=
  match s.splitOn "." with
  | [n, ty, srcs, src, f] => do
    let n ← n.toNat?
    let ty ← (if ty == "?" then some none else ty.toNat?.map some)
    let srcs ← parseSrcs srcs
    let src ← (if src == "-" then some none else (parseV src).map some)
    let f ← f.toNat?
    some { name := n, ty := ty, sources := srcs, source := src, filters := f, upstream := none }
  | _ => none

def parseComps (s : String) : Option (List RawComp) :=
  if s == "" then some [] else (s.splitOn ",").mapM parseComp

def parseNames (s : String) : Option (List Nat) :=
  if s == "" then some [] else (s.splitOn "+").mapM (·.toNat?)

def dropPrefix (p s : String) : Option String :=
  if s.startsWith p then some (s.drop p.length).toString else none

def parseStep (s : String) : Option Load :=
  match s.splitOn ";" with
  | [fl, u, t, r, m] => do
    let us ← parseComps (← dropPrefix "U:" u)
    let ts ← parseComps (← dropPrefix "T:" t)
    let r ← parseNames (← dropPrefix "r:" r)
    let m ← parseNames (← dropPrefix "m:" m)
    some { notToml := fl.contains 'x', doc := ⟨us, ts⟩, roto := fl.contains 'o', residue := r, moved := m }
  | _ => none

def sortStrs (l : List String) : List String := (l.toArray.qsort (· < ·)).toList

def showAction : Action → String
  | .spawnU n t => s!"su{n}:{t}"
  | .reconfU n => s!"ru{n}"
  | .termU n => s!"tu{n}"
  | .spawnT n t => s!"st{n}:{t}"
  | .reconfT n => s!"rt{n}"
  | .termT n => s!"tt{n}"

def showResult : Result → String
  | .ok acts => "ok:" ++ ",".intercalate (sortStrs (acts.map showAction))
  | .err => "err"
  | .panic => "panic"

def showNames (l : List Nat) : String := ",".intercalate (sortStrs (l.map toString))

def runCase (v : Variant) (line : String) : String :=
  match (line.splitOn "/").mapM parseStep with
  | some loads =>
    let r := run v St.init loads
    " / ".intercalate (r.2.map showResult) ++ s!" => U={showNames (r.1.runU.map (·.1))} T={showNames (r.1.runT.map (·.1))}"
  | none => "bad-case"

partial def loop (v : Variant) (h : IO.FS.Stream) (out : IO.FS.Stream) : IO Unit := do
  let line ← h.getLine
  if line.isEmpty then return ()
  out.putStrLn (runCase v (line.trimAscii.toString))
  loop v h out

def main (args : List String) : IO Unit := do
  let v : Variant := { unreach := !args.contains "unreach=repaired", stale := !args.contains "stale=repaired" }
  loop v (← IO.getStdin) (← IO.getStdout)
