import RotondaModel.Model.RotoMethods
/-! Line driver for `Model/RotoMethods.lean`. One case per input line, one output line per case.
    Parsing / printing glue only. -/
open Rotonda.RotoMethods

def words (s : String) : List String := (s.splitOn " ").filter (· ≠ "")

def kvs (s : String) : List (String × String) :=
  (words s).filterMap fun t => match t.splitOn "=" with
    | k :: v :: r => some (k, "=".intercalate (v :: r))
    | _ => none

def look (kv : List (String × String)) (k : String) : Option String := (kv.find? (·.1 == k)).map (·.2)

def undots (s : String) : Option (List Nat) :=
  if s == "" || s == "-" then some [] else (s.splitOn ".").mapM (·.toNat?)

def parseKind : String → Option SegKind
  | "1" => some .set | "2" => some .seq | "3" => some .confSeq | "4" => some .confSet | _ => none

def parseSeg (s : String) : Option Seg :=
  match s.splitOn ":" with
  | [k, a] => do some ⟨← parseKind k, ← undots a⟩
  | _ => none

def parseLarge (s : String) : Option Large :=
  match s.splitOn ":" with
  | [g, a, b] => do some ⟨← g.toNat?, ← a.toNat?, ← b.toNat?⟩
  | _ => none

def parseMp (s : String) : Option (Option Mp) :=
  if s == "~" then some none else
  match s.splitOn ":" with
  | [f, n] => do some (some ⟨← f.toNat?, ← undots n⟩)
  | _ => none

def parseUpd (kv : List (String × String)) : Option Upd := do
  let p ← look kv "p"
  let aspath ← if p == "~" then some none else if p == "e" then some (some []) else (p.splitOn ",").mapM parseSeg |>.map some
  let sc ← look kv "sc"
  let comms ← if sc == "~" then some none else if sc == "e" then some (some []) else (undots sc).map some
  let lc ← look kv "lc"
  let lcomms ← if lc == "~" then some none else if lc == "e" then some (some []) else (lc.splitOn ",").mapM parseLarge |>.map some
  let ec ← (← look kv "ec").toNat?
  let reach ← undots (← look kv "n")
  let unreach ← undots (← look kv "u")
  let mr ← parseMp (← look kv "mr")
  let mu ← parseMp (← look kv "mu")
  some ⟨aspath, comms, lcomms, ec, reach, unreach, mr, mu⟩

def parseBmpKind : String → BmpKind
  | "init" => .initiation | "pu" => .peerUp | "pd" => .peerDown | "rm" => .routeMon | "st" => .stats | _ => .termination

def parseBmp (kv : List (String × String)) : Option Bmp := do
  let k := parseBmpKind (← look kv "k")
  let pa ← (← look kv "pa").toNat?
  let bad := (← look kv "bad") == "1"
  let u ← parseUpd kv
  some ⟨k, pa, if bad then none else some u⟩

def enc (s : String) : String := if s == "" then "-" else s.replace " " "+"

def b01 (b : Bool) : String := if b then "1" else "0"

def showObs (o : Obs) : String :=
  s!"ac={o.annCount} wc={o.wdrCount} ap={enc o.aspath} ao={enc o.origin} sc={enc o.comms} lc={enc o.lcomms} cl={b01 o.hasLarge} ca={b01 o.hasAsn} mo={b01 o.originIs}"

def runM (unit input : String) : Option String := do
  let kv := kvs input
  let ql ← parseLarge (← look kv "ql")
  let qa ← (← look kv "qa").toNat?
  match unit with
  | "bgp" => some (showObs (obsBgp (← parseUpd kv) ql qa))
  | "bmp" => some (showObs (obsBmp (← parseBmp kv) ql qa))
  | "rib" =>
    let u ← parseUpd kv
    let i ← (← look kv "i").toNat?
    let r : Route := ⟨if i < (announcements u).length then some u else none⟩
    some (showObs (obsRoute r ql qa))
  | _ => none

def parseOp (s : String) : Option Op :=
  match s.splitOn ":" with
  | ["oa"] => some .originAs | ["pa"] => some .peerAs | ["ah"] => some .asPathHops | ["cr"] => some .convReach
  | ["cw"] => some .convUnreach | ["mr"] => some .mpReach | ["mu"] => some .mpUnreach | ["la"] => some .logAll
  | ["we"] => some .writeEntry
  | ["cu", t] => some (.custom t)
  | ["lc", a, b] => do some (.logCustom (← a.toNat?) (← b.toNat?))
  | _ => none

def parseOps (s : String) : Option (List Op) := if s == "-" then some [] else (s.splitOn ",").mapM parseOp

def showOpt {α} [ToString α] : Option α → String
  | some x => toString x
  | none => "-"

def showEntry (e : Entry) : String :=
  s!"E({b01 e.ts};{showOpt e.originAs};{showOpt e.peerAs};{showOpt e.asPathHops};{e.convReach};{e.convUnreach};{showOpt e.mpReach};{showOpt e.mpReachFam};{showOpt e.mpUnreach};{showOpt e.mpUnreachFam};{showOpt e.custom})"

def showOut : Out → String
  | .custom a b => s!"C({a};{b})"
  | .entry e => showEntry e

def showOuts (l : List Out) : String := if l.isEmpty then "-" else " ".intercalate (l.map showOut)

/-- what the drain loops make of an output: topic + record -/
def showOsm : Out → String
  | .custom a b => s!"custom:C({a};{b})"
  | .entry e => s!"log_entry:{showEntry e}"

def showGroups (g : List (List Out)) : String :=
  let g := g.filter (!·.isEmpty)
  if g.isEmpty then "-" else " / ".intercalate (g.map fun v => "os[" ++ " ".intercalate (v.map showOsm) ++ "]")

def runL (v : Variant) (unit ops input : String) : Option String := do
  let ops ← parseOps ops
  let m ← if unit == "bmp" then parseBmp (kvs input) else some noBmp
  let s := run v m ops Stream.new
  some s!"{showOuts s.msgs} | P={showEntry s.entry}"

def runHBmp (v : Variant) (ops input : String) : Option String := do
  some (showGroups [runFresh v (← parseBmp (kvs input)) (← parseOps ops)])

def runHRib (v : Variant) (ops input : String) : Option String := do
  match ops.splitOn ";" with
  | [a, w] =>
    let a ← parseOps a
    let w ← parseOps w
    let u ← parseUpd (kvs input)
    some (showGroups (runRoutes v (List.replicate (announcements u).length a ++ List.replicate (withdrawals u).length w)))
  | _ => none

/-- every message produces an `Update::OutputStream` here (the scripts start with a marker), so
    groups are not filtered: one group per message -/
def showGroupsAll (g : List (List Out)) : String :=
  if g.isEmpty then "-" else " / ".intercalate (g.map fun v => "os[" ++ " ".intercalate (v.map showOsm) ++ "]")

/-- `msg_stream_bgp=per-session` / `msg_stream_bmp=per-session` select the hoisted stream per site -/
structure SiteFlags where
  bgpShared : Bool
  bmpShared : Bool

def runS (fl : SiteFlags) (v : Variant) (unit ops msgs : String) : Option String := do
  let v := { v with perMsg := !(if unit == "bgp" then fl.bgpShared else fl.bmpShared) }
  match ops.splitOn ";" with
  | [a, b] =>
    let a ← parseOps a
    let b ← parseOps b
    let ms ← (msgs.splitOn ";").mapM fun t =>
      if unit == "bgp" then (parseUpd (kvs t)).map bgpMsg else parseBmp (kvs t)
    some (showGroupsAll (runSession v 64999 a b ms))
  | _ => none

def runCase (fl : SiteFlags) (v : Variant) (line : String) : String :=
  let r := match line.splitOn "|" with
    | ["T", "registry"] => some (" ".intercalate registry)
    | ["M", unit, input] => runM unit input
    | ["L", unit, ops, input] => runL v unit ops input
    | ["H", "bmp", ops, input] => runHBmp v ops input
    | ["H", "rib", ops, input] => runHRib v ops input
    | ["S", unit, ops, msgs] => runS fl v unit ops msgs
    | _ => none
  r.getD "bad-case"

partial def loop (fl : SiteFlags) (v : Variant) (h : IO.FS.Stream) (out : IO.FS.Stream) : IO Unit := do
  let line ← h.getLine
  if line.isEmpty then return ()
  out.putStrLn (runCase fl v (line.trimAscii.toString))
  loop fl v h out

def main (args : List String) : IO Unit := do
  loop ⟨args.contains "msg_stream_bgp=per-session", args.contains "msg_stream_bmp=per-session"⟩
    ⟨args.contains "take_entry=repaired", args.contains "rib_stream=per-route", true⟩ (← IO.getStdin) (← IO.getStdout)
