import RotondaModel.Model.HttpPages
/-! Line driver for the HttpPages model. One case per line.

case   := 'req|' api '|' routers '|' rib '|' traces '|' method '|' path '|' query '|' deps '|' world-tag (ignored)
        | 'idx|' (n (',' n)*)?                      -- extract_msg_indices of these message indices
        | 'busy|' ('rm'|'pd') '|' close '|' again '|' ('b'|'i') '|' npeers '|' page (',' page)* '|' tag (ignored)
            -- pages requested while the router's handler is parked on its gate by a Route Monitoring / Peer Down
            -- (close = 1: its connection is closed while parked; again = 1: asked again right after the release;
            -- 'b'/'i': the busy / the idle router connected first);
            -- page := 'L' (list) | ('B' busy router | 'I' idle router) ('i'|'n'|'a') (('f'|'p') peer)?
            -- output: 'busy during=' row ' again=' (row | '-') ' after=' row, row = per page its status, or 'ans'
            -- (answered, any status) for a page of the busy router when its connection was closed meanwhile.
            -- Every page asked for exists, a request that finds the router's state in use waits: all 200.
hex    := 'x' (two hex digits)*
routers:= '-' | router (';' router)*                (connection order)
router := id ',' addr ',' routerId ',' tlvs ',' peers ',' sortvals
tlvs   := '-' | sysName ':' sysDesc ':' ('-' | hex ('+' hex)*)
peers  := '-' | peer ('+' peer)*      peer := key ':' announced
sortvals := n ('.' n)*
rib    := base ':' v4min ':' v6min ':' ribs
traces := '-' | trace (';' trace)*    trace := id ':' ('-' | hex ('+' hex)*)
query  := hex | '-'
deps   := as in Driver/Http.lean
output := status ' ' content-type ' ids=' (n (',' n)* | '-') ' skel=' (skeleton | '-')   |   'panic ## site=…'
-/
open Rotonda.Http (Bytes Deps PfxRes PRes FsRes Req)
open Rotonda.HttpPages

def hexDigit (c : Char) : Option Nat :=
  if '0' ≤ c && c ≤ '9' then some (c.toNat - 48)
  else if 'a' ≤ c && c ≤ 'f' then some (c.toNat - 87)
  else none

def parseHexList : List Char → Option Bytes
  | [] => some []
  | [_] => none
  | a :: b :: rest => do
    let h ← hexDigit a
    let l ← hexDigit b
    let r ← parseHexList rest
    some ((h * 16 + l) :: r)

def parseHex (s : String) : Option Bytes :=
  match s.toList with
  | 'x' :: rest => parseHexList rest
  | _ => none

def parseOptHex (s : String) : Option (Option Bytes) :=
  if s == "-" then some none else (parseHex s).map some

def listOf (s : String) (sep : String) : List String := if s == "-" || s == "" then [] else s.splitOn sep

structure DepTab where
  p : List (Bytes × PfxRes) := []
  a : List (Bytes × PRes) := []
  c : List (Bytes × PRes) := []

def parsePRes (r : String) : Option PRes :=
  if r == "1" then some .ok else if r == "0" then some .err else if r == "p" then some .panic else none

def parseDep (t : DepTab) (s : String) : Option DepTab :=
  match s.splitOn "=" with
  | [kv, r] =>
    match kv.splitOn ":" with
    | ["p", h] => do
      let k ← parseHex h
      let v ← (if r == "e" then some PfxRes.err else
        match r.splitOn "." with
        | ["4", l] => do some (PfxRes.ok true (← l.toNat?))
        | ["6", l] => do some (PfxRes.ok false (← l.toNat?))
        | _ => none)
      some { t with p := (k, v) :: t.p }
    | ["a", h] => do some { t with a := ((← parseHex h), (← parsePRes r)) :: t.a }
    | ["c", h] => do some { t with c := ((← parseHex h), (← parsePRes r)) :: t.c }
    | _ => none
  | _ => none

def lookupD {β} (k : Bytes) (dflt : β) : List (Bytes × β) → β
  | [] => dflt
  | e :: l => if e.1 == k then e.2 else lookupD k dflt l

def mkDeps (t : DepTab) (alt : Bool) : Deps where
  pfx k := lookupD k (if alt then .ok true 24 else .err) t.p
  asn k := lookupD k (if alt then .ok else .err) t.a
  community k := lookupD k (if alt then .ok else .err) t.c
  fs _ := .missing

def parsePeer (s : String) : Option Peer :=
  match s.splitOn ":" with
  | [k, n] => do some ⟨← parseHex k, ← n.toNat?⟩
  | _ => none

def parseTlvs (s : String) : Option (Option Tlvs) :=
  if s == "-" then some none else
  match s.splitOn ":" with
  | [n, d, ex] => do some (some ⟨← parseHex n, ← parseHex d, ← (listOf ex "+").mapM parseHex⟩)
  | _ => none

def parseRouter (s : String) : Option Router :=
  match s.splitOn "," with
  | [id, addr, rid, tlvs, peers, sv] => do
    some { id := ← id.toNat?, addr := ← parseHex addr, routerId := ← parseHex rid, tlvs := ← parseTlvs tlvs,
           peers := ← (listOf peers "+").mapM parsePeer, sortVals := ← (listOf sv ".").mapM (·.toNat?) }
  | _ => none

def parseTrace (s : String) : Option (Nat × List Bytes) :=
  match s.splitOn ":" with
  | [id, ms] => do some (← id.toNat?, ← (listOf ms "+").mapM parseHex)
  | _ => none

def showSite : Site → String
  | .listSlice => "router-list-slice"
  | .dep => "dependency-from-str"

def showOut : Out → String
  | .panic s => s!"panic ## site={showSite s}"
  | .resp r =>
    let ids := if r.ids.isEmpty then "-" else ",".intercalate (r.ids.map toString)
    let sk := match r.page with
      | .json => "-"
      | .text => "-"
      | p => String.ofList (Rotonda.Escape.skeleton p.render)
    s!"{r.status} {r.page.ctype} ids={ids} skel={sk}"

def words (s : String) : List String := (s.splitOn " ").filter (· ≠ "")

def busyRow (close : Bool) (pages : List String) : String :=
  ",".intercalate (pages.map fun t => if close && t.startsWith "B" then "ans" else "200")

def runCase (v : Variant) (line : String) : String :=
  match line.splitOn "|" with
  | ["busy", park, close, again, first, _npeers, pages, _tag] =>
    if (park == "rm" || park == "pd") && (first == "b" || first == "i") && (close == "0" || close == "1") && (again == "0" || again == "1") && pages != "" then
      let row := busyRow (close == "1") (pages.splitOn ",")
      s!"busy during={row} again={if again == "1" then row else "-"} after={row}"
    else "bad-case"
  | ["idx", ns] =>
    match (listOf ns ",").mapM (·.toNat?) with
    | some l => extractMsgIndices l
    | none => "bad-case"
  | ["req", api, routers, rib, traces, m, path, q, deps, _tag] =>
    match parseHex api, (listOf routers ";").mapM parseRouter, rib.splitOn ":", (listOf traces ";").mapM parseTrace,
          parseHex path, parseOptHex q,
          (if deps == "-" then some {} else (words deps).foldlM parseDep ({} : DepTab)) with
    | some api, some routers, [rb, v4, v6, nr], some traces, some path, some q, some t =>
      match parseHex rb, v4.toNat?, v6.toNat?, nr.toNat? with
      | some rb, some v4, some v6, some nr =>
        let w : World := { api := api, routers := routers, ribBase := rb, v4min := v4, v6min := v6, ribs := nr, traces := traces }
        let req : Req := { method := if m == "GET" then .get else .other, path := path, query := q, acceptEnc := none }
        let o1 := respond v (mkDeps t false) w req
        let o2 := respond v (mkDeps t true) w req
        if o1 == o2 then showOut o1 else "dep-missing"
      | _, _, _, _ => "bad-case"
    | _, _, _, _, _, _, _ => "bad-case"
  | _ => "bad-case"

partial def loop (v : Variant) (h : IO.FS.Stream) (out : IO.FS.Stream) : IO Unit := do
  let line ← h.getLine
  if line.isEmpty then return ()
  out.putStrLn (runCase v (line.trimAscii.toString))
  loop v h out

def main (args : List String) : IO Unit := do
  let v : Variant := { listSlice := !args.contains "listslice=repaired" }
  loop v (← IO.getStdin) (← IO.getStdout)
