import RotondaModel.Model.RibConc
/-! Line driver for the concurrent-RIB model (C09). One case per input line, one output line per case.

* `seq|prog`        the update-level sequential specification `seqRun`.
* `conc|p0/p1/..`   the step-level concurrent model under a completing schedule (each writer
                    in turn); by `C09_last_write_final` every completing schedule gives the same view.
* `hammer|T|N`      T writers × N session-wide withdrawals under the lock-step schedule
                    (round-robin, one atomic action each): `stalled` if some writer has not
                    finished after every writer had more than its cost in turns.
-/
open Rotonda.RibConc

def parsePl (s : String) : Option Pl :=
  match s.splitOn ":" with
  | ["a", p, m, a] => do some (.ann (← p.toNat?) (← m.toNat?) (← a.toNat?))
  | ["w", p, m] => do some (.wd (← p.toNat?) (← m.toNat?))
  | _ => none

def parseList (s : String) (f : String → Option α) : Option (List α) :=
  ((s.splitOn ",").filter (· ≠ "")).mapM f

def parseOp (s : String) : Option Op :=
  match s.splitOn "." with
  | ["s", pl] => do some (.single (← parsePl pl))
  | ["b", pls] => do some (.bulk (← parseList pls parsePl))
  | ["w", m, "n"] => do some (.withdraw (← m.toNat?) none)
  | ["w", m, t] => do some (.withdraw (← m.toNat?) (some (← t.toNat?)))
  | ["W", ms] => do some (.withdrawBulk (← parseList ms (·.toNat?)))
  | _ => none

def words (s : String) : List String := (s.splitOn " ").filter (· ≠ "")

def parseProg (s : String) : Option (List Op) :=
  if s.trimAscii.toString == "-" then some [] else (words s).mapM parseOp

def insertSorted (x : Nat × Nat) : List (Nat × Nat) → List (Nat × Nat)
  | [] => [x]
  | y :: l => if x = y then y :: l else if x.1 < y.1 || (x.1 == y.1 && x.2 < y.2) then x :: y :: l else y :: insertSorted x l

/-- Canonical rendering: prefixes ascending, entries by ingress id. -/
def showView (keys : List (Nat × Nat)) (view : Nat → Nat → Option (Bool × Nat)) : String :=
  let ks := keys.foldl (fun acc k => insertSorted k acc) []
  let ps := (ks.map (·.1)).eraseDups
  let groups := ps.filterMap fun p =>
    let es := (ks.filter (·.1 == p)).filterMap fun k =>
      (view k.1 k.2).map fun x => s!"{k.2}:{if x.1 then "W" else "A"}:{x.2}"
    if es.isEmpty then none else some s!"{p}={",".intercalate es}"
  if groups.isEmpty then "-" else ";".intercalate groups

def allFinished (s : Sys) : Bool := s.threads.all (·.finished)

/-- Each writer in turn, as many steps as it needs when nobody interferes. -/
def completingSchedule (v : Variant) (progs : List (List Op)) : List Nat :=
  (progs.zipIdx.map fun (p, i) => List.replicate (cost (compile v p)) i).flatten

partial def lockstep (s : Sys) (n : Nat) (rounds : Nat) : Sys :=
  if rounds == 0 || allFinished s then s
  else lockstep ((List.range n).foldl step s) n (rounds - 1)

def runCase (v : Variant) (line : String) : String :=
  match line.splitOn "|" with
  | ["seq", prog] =>
    match parseProg prog with
    | some prog =>
      let r := seqRun prog
      "done " ++ showView (r.recs.map (·.1)) r.view
    | none => "bad-case"
  | ["conc", progs] =>
    match (progs.splitOn "/").mapM parseProg with
    | some progs =>
      let s := run (init v progs) (completingSchedule v progs)
      if allFinished s then "done " ++ showView (s.recs.map (·.1)) s.view else "stalled"
    | none => "bad-case"
  | ["hammer", t, n] =>
    match t.toNat?, n.toNat? with
    | some t, some n =>
      let progs := (List.range t).map fun i => (List.range n).map fun j => Op.withdraw (1 + i * n + j) none
      let total := (progs.map fun p => cost (compile v p)).foldl (· + ·) 0
      let s := lockstep (init v progs) t (total + 1)
      if allFinished s then "done" else "stalled"
    | _, _ => "bad-case"
  | _ => "bad-case"

partial def loop (v : Variant) (h : IO.FS.Stream) (out : IO.FS.Stream) : IO Unit := do
  let line ← h.getLine
  if line.isEmpty then return ()
  out.putStrLn (runCase v (line.trimAscii.toString))
  loop v h out

def main (args : List String) : IO Unit := do
  let v : Variant := if args.contains "cas=repaired" then repaired else asWritten
  loop v (← IO.getStdin) (← IO.getStdout)
