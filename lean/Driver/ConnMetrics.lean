import RotondaModel.Model.ConnMetrics
/-! Line driver for the unit / gate metrics model and the Prometheus exposition model (ConnMetrics: C15, C19).

`w|<template, ignored>|<k0,k1,…>|<ev> <ev> …`   one unit; output: one metrics snapshot per event
   events  `+<c>.<rid>.<ip, ignored>`  accept           `<c>:<bmp message token of Driver/Bmp.lean>`  message
           `<c>!u` unparsable frame   `<c>!n` non-fatal read error   `<c>!f` `<c>!e` `<c>!s` `<c>!p` fatal ones
           `L+<slot>.<q|d><a|s>` subscribe (queue/direct, active/suspended)  `Ls<slot>` suspend  `Ln<slot>` unsuspend
           `Lx<slot>` unsubscribe   `Lk<slot>` receiver closed / target dropped
   snapshot `a<accepted>l<lost>b<bound>c<clients>|g<updates>.<dropped>.<set size>.<updated>|<rid>[r0,…,r6;processed;invalid;ioerrors]/…|s<slots in updates>.<slots in suspended>`
`p|<call>;<call>…`   `Target` calls; output: hex of the text + what the grammar's parser makes of it
   call `<name>,<help>,<type c|g|h|s|t>,<unit 0-6>,<unit name|->,<rec>/<rec>…`  rec `<suffix|->:<value>:<-|lname=lvalue&…>`
   strings are `x<hex of UTF-8>`
-/
open Rotonda.ConnMetrics
open Rotonda

def words (s : String) : List String := (s.splitOn " ").filter (· ≠ "")

/- ---------- message tokens (same grammar as Driver/Bmp.lean) ---------- -/
def bit (c : Char) : Option Bool := if c == '1' then some true else if c == '0' then some false else none

def parseMsg (s : String) : Option Bmp.Msg :=
  match s.splitOn "." with
  | ["i"] => some .init
  | ["t"] => some .term
  | ["u", h, e, c] => do
      let e ← bit (e.toList.getD 0 'x'); let c ← bit (c.toList.getD 0 'x')
      some (.peerUp (← h.toNat?) e c)
  | ["d", h] => do some (.peerDown (← h.toNat?))
  | ["s", h] => do some (.stats (← h.toNat?))
  | ["m", h] => do some (.mirror (← h.toNat?))
  | ["r", h, pp, eor, pure, na, nw, fa, ok, _kind] => do
      let pp := pp.toList; let ok := ok.toList
      let p4 ← bit (pp.getD 0 'x'); let p2 ← bit (pp.getD 1 'x')
      let xok ← bit (ok.getD 0 'x'); let avok ← bit (ok.getD 1 'x')
      let pure ← bit (pure.toList.getD 0 'x')
      let eor ← if eor == "-" then some none else (eor.toNat?).map some
      some (.routeMon (← h.toNat?) ⟨p4, p2, eor, pure, ← na.toNat?, ← nw.toNat?, ← fa.toNat?, xok, avok⟩)
  | _ => none

def parseEv (s : String) : Option CEv :=
  if s.startsWith "+" then
    match (s.drop 1).toString.splitOn "." with
    | c :: r :: _ => do some (.ev (.accept (← c.toNat?) (← r.toNat?)))
    | _ => none
  else if s.startsWith "L+" then
    match (s.drop 2).toString.splitOn "." with
    | [slot, k] => do
      let susp ← match k.toList with | [_, 'a'] => some false | [_, 's'] => some true | _ => none
      some (.ev (.sub (← slot.toNat?) susp))
    | _ => none
  else if s.startsWith "Ls" then do some (.ev (.suspend (← (s.drop 2).toString.toNat?)))
  else if s.startsWith "Ln" then do some (.ev (.unsuspend (← (s.drop 2).toString.toNat?)))
  else if s.startsWith "Lx" then do some (.ev (.unsub (← (s.drop 2).toString.toNat?)))
  else if s.startsWith "Lk" then do some (.ev (.kill (← (s.drop 2).toString.toNat?)))
  else
    match s.splitOn ":" with
    | [c, tok] => do some (.msg (← c.toNat?) (← parseMsg tok))
    | _ =>
      match s.splitOn "!" with
      | [c, "u"] => do some (.ev (.unparsed (← c.toNat?)))
      | [c, "n"] => do some (.ev (.fault (← c.toNat?) false))
      | [c, k] => if k == "f" || k == "e" || k == "s" || k == "p" then do some (.ev (.fault (← c.toNat?) true)) else none
      | _ => none

def showRouter (r : Nat) (x : RouterMetrics) : String :=
  s!"{r}[" ++ ",".intercalate (MType.all.map (fun t => toString (x.recv t))) ++ s!";{x.processed};{x.invalid};{x.ioErrors}]"

def showSlots (ls : List Link) : String :=
  s!"|s{(ls.filter (·.inUpd)).length}.{(ls.filter (·.inSusp)).length}"

def showMx (rids : List Nat) (m : Metrics) : String :=
  let cl := if m.lost > m.accepted then "P" else toString m.clients
  let rs := rids.filterMap (fun r => (m.routers r).map (showRouter r))
  s!"a{m.accepted}l{m.lost}b{m.bound}c{cl}|g{m.gate.numUpdates}.{m.gate.dropped}.{m.gate.setSize}.{if m.gate.updated then 1 else 0}|" ++
    (if rs.isEmpty then "-" else "/".intercalate rs)

def ridsOf (evs : List CEv) : List Nat :=
  let l := evs.filterMap (fun | .ev (.accept _ r) => some r | _ => none)
  (l.eraseDups.toArray.qsort (· < ·)).toList

def runWorld (v : Bmp.Variant) (keys : List Nat) (evs : List CEv) : String :=
  let K : Bmp.Hdr → Bmp.Key := fun h => keys.getD h h
  let rids := ridsOf evs
  let rec go (cw : CWorld) (es : List CEv) (acc : List String) : List String :=
    match es with
    | [] => acc.reverse
    | e :: rest => let cw' := cw.step v K e; go cw' rest ((showMx rids cw'.w.mx ++ showSlots cw'.w.links) :: acc)
  " ".intercalate (go CWorld.init evs [])

/- ---------- exposition cases ---------- -/
def hexVal (c : Char) : Option Nat :=
  if '0' ≤ c ∧ c ≤ '9' then some (c.toNat - 48) else if 'a' ≤ c ∧ c ≤ 'f' then some (c.toNat - 87) else none

partial def unhexBytes : List Char → Option (List UInt8)
  | [] => some []
  | a :: b :: rest => do
    let v := (← hexVal a) * 16 + (← hexVal b)
    some (UInt8.ofNat v :: (← unhexBytes rest))
  | _ => none

/-- `x<hex>` → characters -/
def unhex (s : String) : Option Str :=
  match s.toList with
  | 'x' :: h => do
    let bs ← unhexBytes h
    let str ← String.fromUTF8? (ByteArray.mk bs.toArray)
    some str.toList
  | _ => none

def hexDigit (n : Nat) : Char := if n < 10 then Char.ofNat (48 + n) else Char.ofNat (87 + n)
def toHex (s : Str) : String :=
  String.ofList ((String.ofList s).toUTF8.toList.flatMap (fun b => [hexDigit (b.toNat / 16), hexDigit (b.toNat % 16)]))

def optStr (s : String) : Option (Option Str) := if s == "-" then some none else (unhex s).map some

def parsePairTok (s : String) : Option (Str × Str) :=
  match s.splitOn "=" with
  | [n, v] => do some (← unhex n, ← unhex v)
  | _ => none

def parseRec (s : String) : Option Rec :=
  match s.splitOn ":" with
  | [suf, v, ls] => do
    let labels ← if ls == "-" then some none else if ls == "" then some (some []) else ((ls.splitOn "&").mapM parsePairTok).map some
    some ⟨labels, ← optStr suf, ← unhex v⟩
  | _ => none

def parsePType : String → Option PType
  | "c" => some .counter | "g" => some .gauge | "h" => some .histogram | "s" => some .summary | "t" => some .text | _ => none
def parsePUnit : String → Option MUnit
  | "0" => some .second | "1" => some .millisecond | "2" => some .microsecond | "3" => some .byte
  | "4" => some .total | "5" => some .state | "6" => some .info | _ => none

def parseCall (s : String) : Option Call :=
  match s.splitOn "," with
  | [n, h, t, u, un, recs] => do
    let rs ← if recs == "" then some [] else (recs.splitOn "/").mapM parseRec
    some ⟨⟨← unhex n, ← unhex h, ← parsePType t, ← parsePUnit u⟩, ← optStr un, rs⟩
  | _ => none

def showParse : Option (List Line) → String
  | none => "parse=fail"
  | some ls =>
    let pairs := ls.flatMap (fun | .sample _ (some l) _ => l | _ => [])
    let samples := ls.filter (fun | .sample .. => true | _ => false)
    s!"parse=ok lines={ls.length} samples={samples.length} pairs={pairs.length} values=" ++
      ",".intercalate (pairs.map (fun p => toHex p.1 ++ "=" ++ toHex p.2))

def runProm (esc group : Bool) (calls : List Call) : String :=
  let text := renderV esc group calls
  s!"x{toHex text} {showParse (parse text)}"

def runCase (v : Bmp.Variant) (esc group : Bool) (line : String) : String :=
  match line.splitOn "|" with
  | ["w", _tmpl, keys, evs] =>
    (match (if keys == "" then some [] else (keys.splitOn ",").mapM (·.toNat?)), (words evs).mapM parseEv with
     | some keys, some evs => runWorld v keys evs
     | _, _ => "bad-case")
  | ["p", calls] =>
    (match (if calls == "" then some [] else (calls.splitOn ";").mapM parseCall) with
     | some cs => runProm esc group cs
     | none => "bad-case")
  | _ => "bad-case"

partial def loop (v : Bmp.Variant) (esc group : Bool) (h : IO.FS.Stream) (out : IO.FS.Stream) : IO Unit := do
  let line ← h.getLine
  if line.isEmpty then return ()
  out.putStrLn (runCase v esc group (line.trimAscii.toString))
  loop v esc group h out

def main (args : List String) : IO Unit := do
  let v : Bmp.Variant :=
    { eorGaugeStale := !(args.contains "eorgauge=repaired"),
      eorAnyUpdate := !(args.contains "eorswallow=repaired") }
  loop v (args.contains "promescape=repaired") (args.contains "promgroup=repaired") (← IO.getStdin) (← IO.getStdout)
