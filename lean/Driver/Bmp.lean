import RotondaModel.Model.Bmp
/-! Line driver for the BMP state machine model (C05, C15).

Case line:  `<kind>|<k0,k1,…>|<msg> <msg> …`
  kind `sm` : per step `<phase idx>:<outcome>`
  kind `mx` : per step `<phase idx>:<outcome>{<metrics>}`
  `k_i` is the ingress-register key class of header `i`.
Events: `/` (the router reconnects) or a message: `i` | `u.h.e.c4` | `d.h` | `r.h.<p4><p2>.<eor|->.<pure>.na.nw.fa.<xok><avok>.<catalogue id, ignored>` | `s.h` | `m.h` | `t`
-/
open Rotonda.Bmp

def bit (c : Char) : Option Bool := if c == '1' then some true else if c == '0' then some false else none

def parseMsg (s : String) : Option Msg :=
  match s.splitOn "." with
  | ["i"] => some .init
  | ["t"] => some .term
  | ["u", h, e, c] => do
      let e ← bit (e.toList.getD 0 'x'); let c ← bit (c.toList.getD 0 'x')
      some (.peerUp (← h.toNat?) e c)
  | ["d", h] => do some (.peerDown (← h.toNat?))
  | ["s", h] => do some (.stats (← h.toNat?))
  | ["m", h] => do some (.mirror (← h.toNat?))
  | ["r", h, pp, eor, pure, na, nw, fa, ok, _kind] => do
      let pp := pp.toList; let ok := ok.toList
      let p4 ← bit (pp.getD 0 'x'); let p2 ← bit (pp.getD 1 'x')
      let xok ← bit (ok.getD 0 'x'); let avok ← bit (ok.getD 1 'x')
      let pure ← bit (pure.toList.getD 0 'x')
      let eor ← if eor == "-" then some none else (eor.toNat?).map some
      some (.routeMon (← h.toNat?) ⟨p4, p2, eor, pure, ← na.toNat?, ← nw.toNat?, ← fa.toNat?, xok, avok⟩)
  | _ => none

def showIds (ids : List Nat) : String :=
  ",".intercalate ((ids.toArray.qsort (· < ·)).toList.map toString)

def showOut : Out → String
  | .invalid => "inv"
  | .other => "oth"
  | .transition => "tr"
  | .routing (.bulk mui na nw) => if na + nw == 0 then s!"b.-.0.0" else s!"b.{mui}.{na}.{nw}"
  | .routing (.withdraw m) => s!"w.{m}"
  | .routing (.withdrawBulk ids) => s!"wb.{showIds ids}"

def showMx (m : Metrics) : String :=
  if !m.created then "{-}" else
  if m.underflow then "{UNDERFLOW}" else
  "{" ++ s!"s{m.state.idx},r{m.received},u{m.unknownPeer},sf{m.softFail},hf{m.hardFail},a{m.ann},w{m.wd},up{m.peersUp},ec{m.eorCap},d{m.dumping}" ++ "}"

def words (s : String) : List String := (s.splitOn " ").filter (· ≠ "")

def runCase (v : Variant) (line : String) : String :=
  match line.splitOn "|" with
  | [kind, keys, msgs] =>
    match (if keys == "" then some [] else (keys.splitOn ",").mapM (·.toNat?)),
          (words msgs).mapM (fun w => if w == "/" then some none else (parseMsg w).map some) with
    | some keys, some msgs =>
      let K : Hdr → Key := fun h => keys.getD h h
      let withMx := kind == "mx"
      let rec go (s : MState) (ms : List (Option Msg)) (acc : List String) : List String :=
        match ms with
        | [] => acc.reverse
        | none :: rest => go (s.ev v K .reconnect) rest ("/" :: acc)
        | some m :: rest =>
          let r := mstep v K s m
          let o := s!"{r.1.st.phase.idx}:{showOut r.2}" ++ (if withMx then showMx r.1.mx else "")
          go r.1 rest (o :: acc)
      " ".intercalate (go MState.init msgs [])
    | _, _ => "bad-case"
  | _ => "bad-case"

partial def loop (v : Variant) (h : IO.FS.Stream) (out : IO.FS.Stream) : IO Unit := do
  let line ← h.getLine
  if line.isEmpty then return ()
  out.putStrLn (runCase v (line.trimAscii.toString))
  loop v h out

def main (args : List String) : IO Unit := do
  let v : Variant :=
    { eorGaugeStale := !(args.contains "eorgauge=repaired"),
      eorAnyUpdate := !(args.contains "eorswallow=repaired") }
  loop v (← IO.getStdin) (← IO.getStdout)
