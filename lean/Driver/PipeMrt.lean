import RotondaModel.Model.PipeMrt
/-! Line driver for the bridge MRT import ∘ RIB (`Model/PipeMrt.lean`). One case per input line:
`q|<file>#<file>…` (the case syntax of the c16 engine) →
`<k>:<T>/<F> …|r:<ok|dead,…>|n=<next ingress id>|ids:<id>=<addr>.<asn>,…`
Variant flags: `sc=`, `iso=`, `overlap=`, `flap=`, `dumpreg=` `as-written` | `repaired` (default as-written). -/
open Rotonda Rotonda.Mrt Rotonda.PipeMrt

/-- Number of IPv4 / IPv6 prefixes the engine queries (its tables `PFX4`, `PFX6`). -/
def N4 : Nat := 7
def N6 : Nat := 5

def parsePeer (s : String) : Option Peer :=
  match s.splitOn "." with
  | [a, n] => do some ⟨← a.toNat?, ← n.toNat?⟩
  | _ => none
def parseList (s : String) : Option (List Nat) := if s == "-" then some [] else (s.splitOn ",").mapM (·.toNat?)
def parseEntry (s : String) : Option (Nat × Nat) :=
  match s.splitOn "." with
  | [i, a] => do some (← i.toNat?, ← a.toNat?)
  | _ => none

def parseRec (s : String) : Option Rec :=
  match s.splitOn " " with
  | ["PI", ps] => if ps == "-" then some (.peerIndex []) else (ps.splitOn ",").mapM parsePeer |>.map .peerIndex
  | ["R4", p, es] => do some (.rib false (← p.toNat?) (← if es == "-" then some [] else (es.splitOn ",").mapM parseEntry))
  | ["R6", p, es] => do some (.rib true (← p.toNat?) (← if es == "-" then some [] else (es.splitOn ",").mapM parseEntry))
  | ["RO", _] => some .ribOther
  | [m, p, "K"] => if m.startsWith "M" then (parsePeer p).map (.msg · .other) else none
  | [m, p, "O"] => if m.startsWith "M" then (parsePeer p).map (.msg · .other) else none
  | [m, p, "G"] => if m.startsWith "M" then (parsePeer p).map (.msg · .garbage) else none
  | [_, p, u, ann, wd, a] => do some (.msg (← parsePeer p) (.update (u == "U6") (← parseList ann) (← parseList wd) (← a.toNat?)))
  | [sc, p, o, n] => if sc.startsWith "SC" then do some (.stateChange (← parsePeer p) (← o.toNat?) (← n.toNat?)) else none
  | ["L", _] => some .localMsg
  | ["OT", _] => some .otherType
  | ["TR"] => some .otherType
  | _ => none

def parseFile (s : String) : Option File :=
  match s.splitOn ":" with
  | [c, r] => do
    let comp ← match c with
      | "p" => some Comp.plain | "g" => some .gzip | "b" => some .bzip2 | "m" => some .missing | "x" => some .undecodable | _ => none
    some ⟨comp, ← if r == "-" then some [] else (r.splitOn ";").mapM parseRec⟩
  | _ => none

/-- The smallest id registered with the same (parent, peer) as `id`. -/
def canonId (r : Reg) (id : Nat) : Nat :=
  match r.infos.find? (fun e => e.1 = id) with
  | none => id
  | some e => ((r.infos.filter fun x => x.2 = e.2).map (·.1)).foldl min id

def showRecs (r : Reg) (rs : List Rib.Rec) : String :=
  let key (x : Rib.Rec) : Nat × Nat × Nat := (canonId r x.mui, if x.status == .active then 0 else 1, x.attrs)
  let lt (a b : Nat × Nat × Nat) : Bool := a.1 < b.1 || (a.1 == b.1 && (a.2.1 < b.2.1 || (a.2.1 == b.2.1 && a.2.2 < b.2.2)))
  let ks := ((rs.map key).toArray.qsort lt).toList
  ",".intercalate (ks.map fun k => s!"c{k.1}.{if k.2.1 == 0 then "A" else "W"}.{k.2.2}")

def showKey (s : State) (v6 : Bool) (i : Nat) : Option String :=
  let t := s.rib.query (ιNum v6 i) {}
  let f := s.rib.query (ιNum v6 i) { includeWithdrawn := false }
  if t.isEmpty && f.isEmpty then none
  else some s!"{if v6 then 6 else 4}.{i}:{showRecs s.reg t}/{showRecs s.reg f}"

def runCase (v : PipeMrt.Variant) (line : String) : String :=
  match line.splitOn "|" with
  | ["q", files] =>
    match (files.splitOn "#").mapM parseFile with
    | some fs =>
      let q := importQueue ιNum v 1 State.init fs
      let ks := (List.range N4).filterMap (showKey q.st false) ++ (List.range N6).filterMap (showKey q.st true)
      let ids := (q.st.reg.infos.filter fun e => e.2.1 = 1).map fun e => s!"{e.1}={e.2.2.addr}.{e.2.2.asn}"
      s!"{if ks.isEmpty then "-" else " ".intercalate ks}|r:{",".intercalate (q.resps.map fun b => if b then "ok" else "dead")}|n={q.st.reg.next}|ids:{if ids.isEmpty then "-" else ",".intercalate ids}"
    | none => "bad-case"
  | _ => "bad-case"

partial def loop (v : PipeMrt.Variant) (h : IO.FS.Stream) (out : IO.FS.Stream) : IO Unit := do
  let line ← h.getLine
  if line.isEmpty then return ()
  out.putStrLn (runCase v (line.trimAscii.toString))
  loop v h out

def main (args : List String) : IO Unit := do
  let site (k : String) : Site := if args.contains (k ++ "=repaired") then .repaired else .asWritten
  let v : PipeMrt.Variant :=
    { mrt := ⟨site "sc", site "iso", site "overlap"⟩, dumpreg := site "dumpreg",
      rib := { overlapFix := false, perRecordWithdraw := args.contains "flap=repaired" } }
  loop v (← IO.getStdin) (← IO.getStdout)
