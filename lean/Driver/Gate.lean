import RotondaModel.Model.Gate
/-! Line driver for the Gate/Link model (C08).  One case per input line:
    `cap=<n>|<step> <step> …`; the output is `bad-step <i> <token>` if the i-th recorded
    step is not an enabled step of the model, otherwise the canonical final observation. -/
open Rotonda.Gate

def cmdTag : Cmd → String
  | .subscribe _ _ => "sub" | .unsubscribe _ => "unsub"
  | .suspension _ true => "susp" | .suspension _ false => "unsusp"
  | .attach _ => "att" | .detach _ => "det" | .terminate => "term"
  | .followSub _ => "fsub" | .followUnsub _ => "funsub"

/-- A recorded step and, for command-processing steps, the command kind the real gate announced. -/
def parseStep (t : String) : Option (Step × Option String) :=
  match t.splitOn "." with
  | ["pb", p] => do some (.pubBegin (← p.toNat?), none)
  | ["pd", p, s] => do some (.pubDeliver (← p.toNat?) (← s.toNat?), none)
  | ["pe", p] => do some (.pubEnd (← p.toNat?), none)
  | ["ls", s, k, b] => do
    let k ← (if k == "q" then some Kind.queue else if k == "d" then some Kind.direct else none)
    some (.linkSubscribe (← s.toNat?) k (b == "1"), none)
  | ["lc", s] => do some (.linkCancel (← s.toNat?), none)
  | ["lu", s, b] => do some (.linkSuspend (← s.toNat?) (b == "1"), none)
  | ["ld", s] => do some (.linkDisconnect (← s.toNat?), none)
  | ["lx", s] => do some (.linkClose (← s.toNat?), none)
  | ["lr", s] => do some (.linkRecv (← s.toNat?), none)
  | ["lg", s] => do some (.linkGone (← s.toNat?), none)
  | ["at"] => some (.agentTerminate, none)
  | ["rp", k] => some (.rootProc, some k)
  | ["rp"] => some (.rootProc, none)
  | ["rr"] => some (.rootRespond, none)
  | ["rd"] => some (.rootDrop, none)
  | ["cn", c] => do some (.cloneNew (← c.toNat?), none)
  | ["cp", c, k] => do some (.cloneProc (← c.toNat?), some k)
  | ["cp", c] => do some (.cloneProc (← c.toNat?), none)
  | ["cc", c] => do some (.cloneClosed (← c.toNat?), none)
  | ["cd", c] => do some (.cloneDrop (← c.toNat?), none)
  | _ => none

/-- The command the step is about to take off a queue. -/
def headCmd (st : St) : Step → Option Cmd
  | .rootProc => st.rootq.head?
  | .cloneProc c => (st.pubs c).cmdq.head?
  | _ => none

def runChecked (st : St) : List (String × Step × Option String) → Nat → Except String St
  | [], _ => .ok st
  | (tok, x, k) :: xs, i =>
    let kindOk := match k with
      | none => true
      | some k => match headCmd st x with | some c => cmdTag c == k | none => false
    if !kindOk then .error s!"bad-step {i} {tok} (command kind)" else
    match step st x with
    | some st' => runChecked st' xs (i + 1)
    | none => .error s!"bad-step {i} {tok}"

def sortNat (l : List Nat) : List Nat := (l.toArray.qsort (· < ·)).toList
def showNats (l : List Nat) : String := if l.isEmpty then "-" else ",".intercalate (l.map toString)

def showChan (npubs : Nat) (s : Nat) (ch : Chan) : String :=
  let k := match ch.kind with | .queue => "q" | .direct => "d"
  let per := (List.range npubs).filterMap fun p =>
    let q := seqsOf p ch.received
    if q.isEmpty then none else some s!"{p}={showNats q}"
  s!"{s}:{k}:" ++ (if per.isEmpty then "-" else "/".intercalate per) ++ (if ch.sawGone then ":gone" else "")

def observe (st : St) : String :=
  let anyAlive := (List.range st.npubs).any fun p => (st.pubs p).alive
  let maps := if anyAlive then s!"U={showNats (sortNat st.updates)} S={showNats (sortNat st.suspended)}" else "U=x S=x"
  let links := (List.range st.nslots).filterMap fun s =>
    if (st.chans s).acked then some (showChan st.npubs s (st.chans s)) else none
  let term := (List.range st.npubs).filter fun p => (st.pubs p).terminated
  let pend := (List.range st.npubs).filterMap fun p =>
    if (st.pubs p).alive then some s!"{p}:{if p == 0 then st.rootq.length else (st.pubs p).cmdq.length}" else none
  s!"ok {maps} L=" ++ (if links.isEmpty then "-" else " ".intercalate links) ++ s!" T={showNats term} RT={st.rootTerminated} Q=" ++ (if pend.isEmpty then "-" else ",".intercalate pend)

def words (s : String) : List String := (s.splitOn " ").filter (· ≠ "")

def runCase (line : String) : String :=
  match line.splitOn "|" with
  | capS :: tr :: _ =>
    match (capS.splitOn "=") with
    | ["cap", c] =>
      match c.toNat?, (words tr).mapM (fun t => (parseStep t).map fun (x, k) => (t, x, k)) with
      | some cap, some steps =>
        match runChecked (init cap) steps 0 with
        | .ok st => observe st
        | .error e => e
      | _, _ => "bad-case"
    | _ => "bad-case"
  | _ => "bad-case"

partial def loop (h : IO.FS.Stream) (out : IO.FS.Stream) : IO Unit := do
  let line ← h.getLine
  if line.isEmpty then return ()
  out.putStrLn (runCase (line.trimAscii.toString))
  loop h out

def main (_args : List String) : IO Unit := do
  loop (← IO.getStdin) (← IO.getStdout)
