import RotondaModel.Model.MrtApi
/-! Line driver for the MRT queue endpoint model (C20). One case per input line, one output line
per case.

Case line (fields separated by `|`, byte strings in lower-case hex, `-` = absent):

`v1|<method>|<api path>|<uri path>|<uri query or ->|<update_path or ->|<rx: o|c>|<reply: ok|err|drop|silent>|<canon table>|<fs spec>`

* canon table: `,`-separated `<path hex>=<result hex>` or `<path hex>=!` (`canonicalize` failed):
  what the real `std::fs::canonicalize` returned for the paths the endpoint asks about
* fs spec: `,`-separated `d<path hex>` / `f<path hex>` / `l<path hex>=<target hex>` (absolute
  paths, creation order): the scratch tree of the case, for the model's own `canonFs`

Output: `none` (not handled) · `<status> enq=<path hex or ->` · `panic <site>` ·
`oracle-miss <path hex>` (the model asked `canonicalize` about a path the table lacks)
followed by ` ## ` and informational text.
-/
open Rotonda.MrtApi

def hexDigit (c : Char) : Option Nat :=
  if '0' ≤ c ∧ c ≤ '9' then some (c.toNat - 48)
  else if 'a' ≤ c ∧ c ≤ 'f' then some (c.toNat - 87)
  else none

def unhexAux : List Char → Option Bytes
  | [] => some []
  | [_] => none
  | a :: b :: rest => do
    let h ← hexDigit a
    let l ← hexDigit b
    let r ← unhexAux rest
    some ((h * 16 + l) :: r)

def unhex (s : String) : Option Bytes := unhexAux s.toList

def hexChar (n : Nat) : Char := if n < 10 then Char.ofNat (48 + n) else Char.ofNat (87 + n)

def hex (b : Bytes) : String := String.ofList (b.flatMap fun x => [hexChar (x / 16), hexChar (x % 16)])

def unhexOpt (s : String) : Option (Option Bytes) :=
  if s == "-" then some none else (unhex s).map some

def parseReply (s : String) : Option Reply :=
  if s == "ok" then some .ok else if s == "err" then some .err
  else if s == "drop" then some .dropped else if s == "silent" then some .silent else none

def parseEntry (s : String) : Option (Bytes × Option Bytes) :=
  match s.splitOn "=" with
  | [k, v] => do
    let k ← unhex k
    if v == "!" then some (k, none) else do
      let v ← unhex v
      some (k, some v)
  | _ => none

def parseTable (s : String) : Option (List (Bytes × Option Bytes)) :=
  if s.isEmpty then some [] else (s.splitOn ",").mapM parseEntry

def lookup (t : List (Bytes × Option Bytes)) (k : Bytes) : Option (Option Bytes) :=
  (t.find? (·.1 == k)).map (·.2)

def showOutcome : Outcome → String
  | .notHandled => "none"
  | .resp st e => s!"{st} enq=" ++ (match e with | none => "-" | some p => hex p)
  | .panic site => s!"panic {site}"

def pathNames (p : Bytes) : List Bytes := (splitOn 47 p).filter (fun x => !x.isEmpty)

def parseFsEntry (s : String) : Option (List Bytes × Node) :=
  match s.toList with
  | 'd' :: r => do some (pathNames (← unhexAux r), .dir)
  | 'f' :: r => do some (pathNames (← unhexAux r), .file)
  | 'l' :: r =>
    match (String.ofList r).splitOn "=" with
    | [p, t] => do some (pathNames (← unhex p), .link (← unhex t))
    | _ => none
  | _ => none

/-- Later entries for a path that already exists are dropped (creation fails in the real tree);
    an entry whose parent is missing or not a directory is dropped too, except that `d` creates
    missing parents (`create_dir_all`). -/
def addEntry (acc : List (List Bytes × Node)) (e : List Bytes × Node) : List (List Bytes × Node) :=
  if acc.any (·.1 == e.1) then acc else acc ++ [e]

def parseFs (s : String) : Option Fs :=
  if s.isEmpty then some ⟨[]⟩ else do
    let es ← (s.splitOn ",").mapM parseFsEntry
    some ⟨es.foldl addEntry []⟩

def showCanon : CanonRes → String
  | .ok p => hex (render p)
  | .err => "!"
  | .escaped => "escaped"
  | .fuelOut => "fuel-out"

def underRoot (q : Bytes) : Bool := q == 47 :: rootName || startsWith q (47 :: rootName ++ [47])

/-- Is the model's `realpath` consistent with what the real `canonicalize` returned? -/
def canonAgrees (m : CanonRes) (real : Option Bytes) : Bool :=
  match m, real with
  | .ok p, some q => render p == q
  | .err, none => true
  | .escaped, none => true
  | .escaped, some q => !underRoot q
  | _, _ => false

def runCase (line : String) : String :=
  match line.splitOn "|" with
  | ["v1", method, api, path, query, upd, rx, reply, table, fs] =>
    match unhex api, unhex path, unhexOpt query, unhexOpt upd, parseReply reply, parseTable table, parseFs fs with
    | some api, some path, some query, some upd, some reply, some table, some fs =>
      let canon : Bytes → Option Bytes := fun k => (lookup table k).getD none
      match (canonQueries upd canon query).find? (fun k => (lookup table k).isNone) with
      | some k => s!"oracle-miss {hex k}"
      | none =>
        match table.find? (fun e => !canonAgrees (canonFs fs e.1) e.2) with
        | some e => s!"canon-mismatch {hex e.1} model={showCanon (canonFs fs e.1)} real=" ++
            (match e.2 with | none => "!" | some q => hex q)
        | none =>
          let env : Env := { canon := canon, rxOpen := rx == "o", reply := reply }
          let esc := (table.filter fun e => canonFs fs e.1 == .escaped).length
          showOutcome (processRequest api upd env (method == "GET") path query)
            ++ s!" ## canonFs agrees on {table.length} paths ({esc} escaped)"
    | _, _, _, _, _, _, _ => "bad-case"
  | _ => "bad-case"

partial def loop (h : IO.FS.Stream) (out : IO.FS.Stream) : IO Unit := do
  let line ← h.getLine
  if line.isEmpty then return ()
  out.putStrLn (runCase (line.trimAscii.toString))
  loop h out

def main (_args : List String) : IO Unit := do
  loop (← IO.getStdin) (← IO.getStdout)
