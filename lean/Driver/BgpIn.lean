import RotondaModel.Model.BgpIn
/-! Line driver for `Model/BgpIn.lean`. One case per input line:
`B|<prefixes>|<config entries>|<ops>` (the case syntax of the bgpin engine) →
`<token per op> | live=<addr.asn,…> | next=<n> | <T/F per prefix>`.
Variant flags: `fsmdrop=`, `frame=` `as-written` | `repaired`; `flap=repaired` (RIB per-record withdrawal). -/
open Rotonda Rotonda.BgpIn

def words (s : String) : List String := (s.splitOn " ").filter (· ≠ "")

def parsePrefix (s : String) : Option Rib.Prefix :=
  match s.splitOn "." with
  | [f, l, b] => do
    let fam ← (if f == "4" then some Rib.Fam.v4 else if f == "6" then some Rib.Fam.v6 else none)
    some ⟨fam, ← l.toNat?, ← b.toNat?⟩
  | _ => none

def parseNlri (s : String) : Option Rib.Nlri :=
  let rest := (s.drop 1).toString
  match s.take 1 |>.toString with
  | "u" => do some ⟨← parsePrefix rest, .unicast⟩
  | "m" => do some ⟨← parsePrefix rest, .multicast⟩
  | "x" => do some ⟨← parsePrefix rest, .unsupported⟩
  | _ => none

def parseList (s : String) : Option (List Rib.Nlri) :=
  if s == "-" then some [] else (s.splitOn ",").mapM parseNlri

def parseEntry (s : String) : Option Entry :=
  match s.splitOn "~" with
  | [k, a, h] => do
    let key ← match k.splitOn ":" with
      | ["e", x] => do some (Key.exact (← x.toNat?))
      | ["p", l, b] => do some (Key.pfx (← l.toNat?) (← b.toNat?))
      | _ => none
    let asns ← if a == "a" then some (Asns.many [])
      else if a.startsWith "o" then do some (Asns.one (← (a.drop 1).toString.toNat?))
      else if a.startsWith "m" then do some (Asns.many (← ((a.drop 1).toString.splitOn "+").mapM (·.toNat?)))
      else none
    some ⟨key, asns, ← h.toNat?⟩
  | _ => none

def parseOp (s : String) : Option Op :=
  match s.splitOn ":" with
  | ["c", a, n] => do some (.conn (← a.toNat?) (← n.toNat?))
  | ["u", k, a, ann, wd] => do some (.upd (← k.toNat?) (.ok (← a.toNat?) (← parseList ann) (← parseList wd)))
  | ["n", k] => do some (.notif (← k.toNat?))
  | ["x", k] => do some (.fin (← k.toNat?))
  | ["r", k] => do some (.rst (← k.toNat?))
  | ["g", k, w] => do some (.garbage (← k.toNat?) (← w.toNat?))
  | ["h", k] => do some (.hold (← k.toNat?))
  | ["t"] => some .terminate
  | _ => none

def showOut : Out → String
  | .refused => "refused" | .nocfg => "nocfg" | .badas => "badas" | .rejected => "rejected" | .neg => "neg" | .nc => "nc"
  | .sent id n => s!"sent>B{id}.{n}"
  | .lostupd => "lostupd"
  | .notified => "sent"
  | .ended id => s!"ended>W{id}"
  | .endedQuiet => "ended"
  | .noend => "noend"
  | .expired none => "expired-noend"
  | .expired (some id) => s!"expired-ended>W{id}"
  | .term ws => if ws.isEmpty then "term-unit-ended" else "term-unit-ended>" ++ ",".intercalate (ws.map fun i => s!"W{i}")

def showRecs (rs : List Rib.Rec) : String :=
  let rs := (rs.toArray.qsort (fun a b => a.mui < b.mui || (a.mui == b.mui && (a.status == .active && b.status == .withdrawn
            || (a.status == b.status && a.attrs < b.attrs))))).toList
  if rs.isEmpty then "-" else
  ",".intercalate (rs.map fun r => s!"{r.mui}.{if r.status == .active then "A" else "W"}.{r.attrs}")

def runCase (v : BgpIn.Variant) (line : String) : String :=
  match line.splitOn "|" with
  | ["B", ps, cfg, ops] =>
    match (words ps).mapM parsePrefix, (if cfg.trimAscii.toString == "-" then some [] else (words cfg).mapM parseEntry), (words ops).mapM parseOp with
    | some qs, some cfg, some ops =>
      let r := run v cfg ops
      let w := r.1
      let lt (a b : Nat × Nat) : Bool := a.1 < b.1 || (a.1 == b.1 && a.2 < b.2)
      let live := (w.live.toArray.qsort lt).toList
      let liveS := if live.isEmpty then "-" else ",".intercalate (live.map fun k => s!"{k.1}.{k.2}")
      let obs := " ".intercalate (qs.map fun p => s!"{showRecs (w.rib.query p {})}/{showRecs (w.rib.query p { includeWithdrawn := false })}")
      s!"{" ".intercalate (r.2.map showOut)} | live={liveS} | next={w.next} | {obs}"
    | _, _, _ => "bad-case"
  | _ => "bad-case"

partial def loop (v : BgpIn.Variant) (h : IO.FS.Stream) (out : IO.FS.Stream) : IO Unit := do
  let line ← h.getLine
  if line.isEmpty then return ()
  out.putStrLn (runCase v (line.trimAscii.toString))
  loop v h out

def main (args : List String) : IO Unit := do
  let site (k : String) : Site := if args.contains (k ++ "=repaired") then .repaired else .asWritten
  let v : BgpIn.Variant := { fsmdrop := site "fsmdrop", frame := site "frame",
                             rib := { overlapFix := true, perRecordWithdraw := args.contains "flap=repaired" } }
  loop v (← IO.getStdin) (← IO.getStdout)
