import RotondaModel.Model.UnitMetrics
/-! Line driver for the UnitMetrics model (C15; Prometheus clause of C19).

`q|<unit>|<cfg>;<cfg>…|<step>;<step>…`   mqtt-out target on a scripted broker (case syntax of Driver/MqttConn.lean;
     `<unit>` indexes `unitNames`); output per step, joined by ` ; `:
     `up=<0|1> lost=<n> err=<n> infl=<n> perr=<n> lib=<n> pub=<n> T=<x topic hex>:<n>,… st=<x status text hex> ok=<0|1> txt=<chars>:<fnv1a hex>`
     and at the end ` ; wf=<0|1>`.
`r|<unit>|<call> <call> …`   calls on the status reporter (`c d e l f p<topic idx> i<n>`); output per call as for `q` (lib=0)
`f|<unit>|<ev> <ev> …`   filter unit: `m<ingress>` `message_filtered`, `e` an `EndOfStream` through `direct_update`;
     output per event `R=<ingress>:<n>,… tot=<n> g=<updates>.<dropped>.<updated> txt=<chars>:<fnv1a hex>`
`a|<src>;<src>…`   `Collection`: sources in registration order, `<src>` = `<name idx>.<kind>.<state…>`
     kinds `m.<up>.<lost>.<errs>.<infl>.<perr>.<topic idx>=<n>&…` mqtt record, `f.<total>.<ingress>=<n>&…` filter record
     (fresh gate), `t` the tokio task metrics (nothing instrumented), `g.<updates>.<dropped>` gate; output `order=<name idx>,… txt=<chars>:<fnv1a hex> uniq=<0|1> conflict=<0|1>`
Flags: `void= retry= cred=` (MqttConn variants), `promescape= promgroup= lostcount=` `as-written|repaired`.
-/
open Rotonda.UnitMetrics
open Rotonda.ConnMetrics (Str Call renderV linesOfV helpNames typeNames)
open Rotonda.MqttConn (Cfg Inp Step Variants)

/-- Component names (the `component` label): plain ones and ones that need escaping. -/
def unitNames : List Str :=
  [ "mqtt-out".toList, "m\"q".toList, "b\\s".toList, "n\nl".toList, "x\",evil=\"1".toList, "filter".toList,
    "a-unit".toList, "z-unit".toList ]

def hexDigit (n : Nat) : Char := if n < 10 then Char.ofNat (48 + n) else Char.ofNat (87 + n)
def toHex (s : Str) : String :=
  String.ofList ((String.ofList s).toUTF8.toList.flatMap (fun b => [hexDigit (b.toNat / 16), hexDigit (b.toNat % 16)]))
def hex64 (h : UInt64) : String := String.ofList (Nat.toDigits 16 h.toNat)

def parseCfg (s : String) : Option Cfg :=
  match (s.splitOn ".").mapM (·.toNat?) with
  | some [a, b, c, d, e, f, g, h] => some ⟨a, b, c, d, e, f, g, h⟩
  | _ => none

def parseInp (s : String) : Option Inp :=
  if s == "x" then some (.cmd .term)
  else if s.startsWith "m" then (s.drop 1).toString.toNat?.map .msg
  else if s.startsWith "r" then (s.drop 1).toString.toNat?.map (fun k => .cmd (.reconf k))
  else none

def parseStep (s : String) : Option Step :=
  if s == "T" then some .tick
  else if s == "Ea" then some (.ev .accept) else if s == "Er" then some (.ev .refuse)
  else if s == "Ed" then some (.ev .drop) else if s == "Eo" then some (.ev .other)
  else if s == "Pa" then some (.mode .accept) else if s == "Pf" then some (.mode .fail)
  else if s.startsWith "Ps" then (s.drop 2).toString.toNat?.map (fun d => .mode (.slow d))
  else if s == "I" then some (.burst [])
  else if s.startsWith "I" then ((s.drop 1).toString.splitOn ",").mapM parseInp |>.map .burst
  else none

structure Flags where
  v : Variants
  esc : Bool
  group : Bool
  lostFix : Bool

def b2s (b : Bool) : String := if b then "1" else "0"

def showText (fl : Flags) (cs : List Call) : String :=
  let t := renderV fl.esc fl.group cs
  s!"txt={t.length}:{hex64 (fnv1a t)}"

def showMqtt (fl : Flags) (unit : Str) (lib : Nat) (r : MqttRec) : String :=
  let ts := r.topics.map (fun p => s!"x{toHex p.1}:{p.2}")
  s!"up={b2s r.up} lost={r.lost} err={r.errs} infl={r.inflight} perr={r.pubErrs} lib={lib} pub={r.published} T=" ++
    (if ts.isEmpty then "-" else ",".intercalate ts) ++
    s!" st=x{toHex r.statusText} ok={match r.okay with | some b => b2s b | none => "-"} " ++ showText fl (mqttCalls unit r)

/-- One step: the new entries of the event history are scanned with `scanObs` (the calls one event causes do not
    depend on the calls made before: `scanObs_out_split`), the calls applied to the record. -/
def scanNew (fix : Bool) (tbl : List Rotonda.MqttConn.QMsg) : Scan × MqttRec → List Rotonda.MqttConn.Obs → Scan × MqttRec
  | acc, [] => acc
  | (sc, r), o :: os =>
    let sc' := scanObs tbl { sc with out := [] } o
    scanNew fix tbl ({ sc' with out := [] }, r.applyAllV fix sc'.out) os

def runMqtt (fl : Flags) (unit : Str) : MSt → Scan × MqttRec → Option (Nat × MqttRec × String) → List Step → List String
  | _, _, _, [] => []
  | m, acc, prev, s :: ss =>
    let m' := m.step fl.v s
    let acc' := scanNew fl.lostFix m'.tbl acc (m'.st.log.drop m.st.log.length)
    -- a step that changes nothing is shown as the step before (same record, same text)
    let shown := match prev with
      | some (l, r, t) => if l == acc'.1.lib && r == acc'.2 then t else showMqtt fl unit acc'.1.lib acc'.2
      | none => showMqtt fl unit acc'.1.lib acc'.2
    shown :: runMqtt fl unit m' acc' (some (acc'.1.lib, acc'.2, shown)) ss

def caseMqtt (fl : Flags) (u cs ss : String) : String :=
  match u.toNat?, (cs.splitOn ";").mapM parseCfg, (ss.splitOn ";").mapM parseStep with
  | some u, some cfgs, some steps =>
    let fin := MSt.run fl.v cfgs steps
    " ; ".intercalate (runMqtt fl (unitNames.getD u []) (MSt.init cfgs) (Scan.zero, MqttRec.zero) none steps)
      ++ s!" ; wf={b2s (openedWhileDown false fin.st.log)}"
  | _, _, _ => "bad-case"

/- ---------- reporter calls ---------- -/
def topicOfIdx (i : Nat) : Str := Rotonda.UnitMetrics.topicText ⟨0, i / 8, (i % 8) % 7⟩

def parseCall (s : String) : Option MEv :=
  if s == "c" then some .connected else if s == "d" then some .disconnected
  else if s == "e" then some .connErr else if s == "l" then some .reconnecting
  else if s == "f" then some .publishErr
  else if s.startsWith "p" then (s.drop 1).toString.toNat?.map (fun i => .publishOk (topicOfIdx i))
  else if s.startsWith "i" then (s.drop 1).toString.toNat?.map .inflight
  else none

def runCalls (fl : Flags) (unit : Str) : MqttRec → List MEv → List String
  | _, [] => []
  | r, e :: es => let r' := r.applyV fl.lostFix e; showMqtt fl unit 0 r' :: runCalls fl unit r' es

def caseCalls (fl : Flags) (u cs : String) : String :=
  match u.toNat?, ((cs.splitOn " ").filter (· ≠ "")).mapM parseCall with
  | some u, some calls => " ; ".intercalate (runCalls fl (unitNames.getD u []) MqttRec.zero calls)
  | _, _ => "bad-case"

/- ---------- filter ---------- -/
inductive FEv where | filtered (i : Nat) | eos

def parseFEv (s : String) : Option FEv :=
  if s == "e" then some .eos
  else if s.startsWith "m" then (s.drop 1).toString.toNat?.map .filtered
  else none

def showFilter (fl : Flags) (unit : Str) (g : GateRec) (r : FilterRec) : String :=
  let rs := r.routers.map (fun p => s!"{p.1}:{p.2}")
  "R=" ++ (if rs.isEmpty then "-" else ",".intercalate rs) ++
    s!" tot={r.total} g={g.updates}.{g.dropped}.{b2s g.updated} " ++ showText fl (filterCalls unit g ['0'] r)

def runFilter (fl : Flags) (unit : Str) : GateRec → FilterRec → List FEv → List String
  | _, _, [] => []
  | g, r, .filtered i :: es => let r' := r.filtered i; showFilter fl unit g r' :: runFilter fl unit g r' es
  | g, r, .eos :: es => let g' := g.update false; showFilter fl unit g' r :: runFilter fl unit g' r es

def caseFilter (fl : Flags) (u es : String) : String :=
  match u.toNat?, ((es.splitOn " ").filter (· ≠ "")).mapM parseFEv with
  | some u, some evs => " ; ".intercalate (runFilter fl (unitNames.getD u []) GateRec.zero FilterRec.zero evs)
  | _, _ => "bad-case"

/- ---------- collection ---------- -/
def parseKV (s : String) : Option (List (Nat × Nat)) :=
  if s == "-" then some [] else
  (s.splitOn "&").mapM (fun p => match p.splitOn "=" with
    | [a, b] => do some (← a.toNat?, ← b.toNat?)
    | _ => none)

def parseSrc (s : String) : Option (Nat × Source) :=
  match s.splitOn "." with
  | [n, "m", up, lost, errs, infl, perr, ts] => do
    let n ← n.toNat?
    let r : MqttRec := ⟨up == "1", ← lost.toNat?, ← errs.toNat?, ← perr.toNat?, ← infl.toNat?,
      (← parseKV ts).map (fun p => (topicOfIdx p.1, p.2))⟩
    some (n, ⟨unitNames.getD n [], fun u => mqttCalls u r⟩)
  | [n, "f", tot, rs] => do
    let n ← n.toNat?
    let r : FilterRec := ⟨← parseKV rs, ← tot.toNat?⟩
    some (n, ⟨unitNames.getD n [], fun u => filterCalls u GateRec.zero ['0'] r⟩)
  | [n, "t"] => do
    let n ← n.toNat?
    some (n, ⟨unitNames.getD n [], fun u => tokioCalls u⟩)
  | [n, "g", up, dr] => do
    let n ← n.toNat?
    let g : GateRec := ⟨← up.toNat?, ← dr.toNat?, 0, (← up.toNat?) > 0⟩
    some (n, ⟨unitNames.getD n [], fun u => gateCalls u g ['0']⟩)
  | _ => none

def nodupB (l : List Str) : Bool := l.eraseDups.length == l.length

def caseAssemble (fl : Flags) (ss : String) : String :=
  match (ss.splitOn ";").mapM parseSrc with
  | some srcs =>
    let coll := registerAll (srcs.map (·.2))
    let order := coll.map (fun s => match srcs.find? (fun p => p.2.name == s.name) with | some p => toString p.1 | none => "?")
    let cs := assembleCalls coll ['0']
    let ls := linesOfV fl.group cs
    s!"order={",".intercalate order} " ++ showText fl cs ++
      s!" uniq={b2s (nodupB (helpNames ls) && nodupB (typeNames ls))}"
  | none => "bad-case"

def runCase (fl : Flags) (line : String) : String :=
  match line.splitOn "|" with
  | ["q", u, cs, ss] => caseMqtt fl u cs ss
  | ["r", u, cs] => caseCalls fl u cs
  | ["f", u, es] => caseFilter fl u es
  | ["a", ss] => caseAssemble fl ss
  | _ => "bad-case"

partial def loop (fl : Flags) (h : IO.FS.Stream) (out : IO.FS.Stream) : IO Unit := do
  let line ← h.getLine
  if line.isEmpty then return ()
  out.putStrLn (runCase fl (line.trimAscii.toString))
  loop fl h out

def main (args : List String) : IO Unit := do
  let fl : Flags :=
    { v := { voidFix := args.contains "void=repaired", retryFix := args.contains "retry=repaired",
             credFix := args.contains "cred=repaired" },
      esc := args.contains "promescape=repaired",
      group := args.contains "promgroup=repaired",
      lostFix := args.contains "lostcount=repaired" }
  loop fl (← IO.getStdin) (← IO.getStdout)
