import RotondaModel.Model.OutStream
/-! Line driver for the output-stream targets model (C17). One case per input line. -/
open Rotonda.OutStream

def decStr (s : String) : Option Str :=
  if s == "e" then some [] else (s.splitOn ".").mapM fun x => x.toNat?.map Char.ofNat
def decOpt (s : String) : Option (Option Str) := if s == "_" then some none else (decStr s).map some
def natOpt (s : String) : Option (Option Nat) := if s == "_" then some none else s.toNat?.map some
def rawOpt (s : String) : Option Str := if s == "_" then none else some s.toList

def hexStr (n : Nat) : String := String.ofList (Nat.toDigits 16 n)

/-- Readable escaping of observed text (same function in the harness). -/
def esc (l : Str) : String :=
  String.join (l.map fun c =>
    let u := c.toNat
    if 0x21 ≤ u && u ≤ 0x7e && c != '\\' && c != '|' && c != '#' && c != '@' then String.singleton c
    else "\\u{" ++ hexStr u ++ "}")

def parseRec : List String → Option Record
  | ["R", "_"] => some (.route none)
  | ["R", pfx, k] => some (.route (some ⟨pfx.toList, k.toList.getD 1 'p' == 'p'⟩))
  | ["P", ip, asn] => do some (.peerdown ip.toList (← asn.toNat?))
  | ["C", i, v] => do some (.custom (← i.toNat?) (← v.toNat?))
  | ["L", ts, oas, pas, hops, cr, cu, mpr, mpra, mpu, mpua, custom] => do
    some (.entry ⟨← ts.toNat?, ← natOpt oas, ← natOpt pas, ← natOpt hops, ← cr.toNat?, ← cu.toNat?,
      ← natOpt mpr, ← decOpt mpra, ← natOpt mpu, ← decOpt mpua, ← decOpt custom⟩)
  | _ => none

def parseMsg (s : String) : Option Msg :=
  match s.splitOn " " with
  | name :: topic :: ing :: rest => do some ⟨← decStr name, ← decStr topic, ← natOpt ing, ← parseRec rest⟩
  | _ => none

def parseUpd (s : String) : Option Update :=
  if s == "S" then some .single else if s == "W" then some .withdraw else if s == "WB" then some .withdrawBulk
  else if s == "Q" then some .queryResult else if s == "E" then some .upstreamStatusChange
  else if s.startsWith "B" then (s.drop 1).toString.toNat?.map .bulk
  else if s == "O" then some (.outputStream [])
  else if s.startsWith "O" then ((s.drop 1).toString.splitOn ",").mapM parseMsg |>.map .outputStream
  else none

def parseUpds (s : String) : Option (List Update) :=
  if s == "-" then some [] else (s.splitOn ";").mapM parseUpd

def parseFmt : String → Option Format
  | "csv" => some .csv | "json" => some .json | "json-min" => some .jsonMin | _ => none

def parseInfo (s : String) : Option (Nat × IngressInfo) :=
  match s.splitOn " " with
  | [id, unit, parent, addr, asn, filename, name, desc] => do
    some (← id.toNat?, ⟨← decOpt unit, ← natOpt parent, rawOpt addr, ← natOpt asn, ← decOpt filename, ← decOpt name, ← decOpt desc⟩)
  | _ => none

def parseEv (s : String) : Option Ev :=
  if s.startsWith "I" then (parseInfo (s.drop 1).toString).map fun (id, i) => .info id i
  else (parseUpd s).map .upd

def parseEvs (s : String) : Option (List Ev) :=
  if s == "-" then some [] else (s.splitOn ";").mapM parseEv

def showLine : Line → String
  | .text l => "T" ++ esc l
  | .route p => "R" ++ String.ofList p

def showPayload : Payload → String
  | .text l => "T" ++ esc l
  | .withRoute b p a => "W" ++ esc b ++ " " ++ String.ofList p ++ " " ++ esc a

def runCase (v : Variant) (line : String) : String :=
  match line.splitOn "|" with
  | ["file", fmt, us] =>
    match parseFmt fmt, parseUpds us with
    | some fmt, some us =>
      match write v fmt us with
      | .panic _ => "panic"
      | .ok [] => "ok -"
      | .ok ls => "ok " ++ "|".intercalate (ls.map showLine)
    | _, _ => "bad-case"
  | ["mqtt", comp, tmpl, reg, us] =>
    match decStr comp, decStr tmpl, (if reg == "-" then some [] else (reg.splitOn ";").mapM parseInfo), parseEvs us with
    | some comp, some tmpl, some reg, some evs =>
      match session comp tmpl reg evs with
      | [] => "ok -"
      | out => "ok " ++ "|".intercalate (out.map fun (t, p) => esc t ++ " " ++ showPayload p)
    | _, _, _, _ => "bad-case"
  | _ => "bad-case"

partial def loop (v : Variant) (h : IO.FS.Stream) (out : IO.FS.Stream) : IO Unit := do
  let line ← h.getLine
  if line.isEmpty then return ()
  out.putStrLn (runCase v ((line.dropEndWhile (· == '\n')).toString))
  loop v h out

def main (args : List String) : IO Unit := do
  let site (k : String) : Site := if args.contains (k ++ "=repaired") then .repaired else .asWritten
  loop ⟨site "entry", site "nl", site "csv"⟩ (← IO.getStdin) (← IO.getStdout)
