import RotondaModel.Model.ReconfUnits
/-! Line driver for `Model/ReconfUnits.lean`. One case per line:
    `G|<cfg>|<ev>;…` bgp-tcp-in: cfg = `listen,asn,bgpid/peer/peer…`, peer = `key~asns~hold~protos~addpath~name`
      (key `e<addr>` | `p<len>.<bits>`, asns `a` | `o<n>` | `m<n>+<n>`); events `c<slot>.<addr>.<asn>`, `u<k>`,
      `x<k>`, `R<cfg>`. Output per event `<token>@P<bound>:L<live keys>:O<open connections>`.
    `F|<cfg>|<ev>;…` file-out: cfg = `<c|j|m><file>`; events `e<r>`, `b`, `L<cfg>` / `M<cfg>`.
      Output `<a|d per event> | f0=… f1=… f2=…`.
    `X|n<name>,<u>+<u>|<ev>;…` filter: events `s<u>.<tag>` (upstream u publishes an end-of-stream notice), `R<cfg>`.
      Output per event `f<tag>` | `-` | `n<name>:S<subscribed upstreams>`.
    `M|<f>+<f>,<d|->|<ev>;…` mrt-file-in: events `q<name>` (GET queue?file=), `R<cfg>`. Output per event
      `200>d<dir>.<name>` | `400` | `r` | `r>s<f>,s<f>`; the first token is what was read at start.
    `B|<l>,<p>,<t>,<f>,<m>|<ev>;…` bmp-tcp-in: events `c<slot>`, `i<k>.<t>`, `x<k>`, `R<cfg>`. Output per event
      `<token>@P<bound>:H<list path>:I<id>=<page>/<template>,…:N<template>.<id>,…:S<template>.<filter>.<mode>`.
    `N|<u>+<u>|<ev>;…` null-out: events `r` (ReportLinks), `R<srcs>`. Output per event the reported `<u>.<gen>,…`.
    Flags: `bgpeq=`, `bgpmatch=`, `bgplisten=`, `fileout=`, `mrt=`, `bmppath=`, `bmptrace=` `as-written|repaired`. -/
open Rotonda.ReconfUnits

def nat? (s : String) : Option Nat := s.toNat?

/-! ### bgp-tcp-in -/
open Bgp in
def parseKey (s : String) : Option Key :=
  if s.startsWith "e" then (nat? (s.drop 1).toString).map .exact
  else if s.startsWith "p" then
    match ((s.drop 1).toString.splitOn ".").mapM nat? with
    | some [l, b] => some (.pfx l b)
    | _ => none
  else none

open Bgp in
def parseAsns (s : String) : Option Asns :=
  if s == "a" then some (.many [])
  else if s.startsWith "o" then (nat? (s.drop 1).toString).map .one
  else if s.startsWith "m" then (((s.drop 1).toString.splitOn "+").mapM nat?).map .many
  else none

open Bgp in
def parsePeer (s : String) : Option Peer :=
  match s.splitOn "~" with
  | [k, a, h, p, ap, n] => do
    let k ← parseKey k; let a ← parseAsns a
    let h ← nat? h; let p ← nat? p; let ap ← nat? ap; let n ← nat? n
    pure ⟨k, a, h, p, ap, n⟩
  | _ => none

open Bgp in
def parseCfg (s : String) : Option Cfg :=
  match s.splitOn "/" with
  | h :: ps =>
    match (h.splitOn ",").mapM nat?, ps.mapM parsePeer with
    | some [l, a, b], some peers => some ⟨l, a, b, peers⟩
    | _, _ => none
  | [] => none

open Bgp in
def parseEv (s : String) : Option Ev :=
  let r := (s.drop 1).toString
  if s.startsWith "c" then
    match (r.splitOn ".").mapM nat? with
    | some [p, a, n] => some (.conn p a n)
    | _ => none
  else if s.startsWith "u" then (nat? r).map .upd
  else if s.startsWith "x" then (nat? r).map .fin
  else if s.startsWith "R" then (parseCfg r).map .reconf
  else none

def insertPair (x : Nat × Nat) : List (Nat × Nat) → List (Nat × Nat)
  | [] => [x]
  | y :: ys => if x.1 < y.1 || (x.1 == y.1 && x.2 ≤ y.2) then x :: y :: ys else y :: insertPair x ys

def sortPairs (l : List (Nat × Nat)) : List (Nat × Nat) := l.foldr insertPair []

def orDash (l : List String) : String := if l.isEmpty then "-" else ",".intercalate l

open Bgp in
def showFate : Fate → String
  | .endPeer => "n6.6"
  | .panic => "panic"
  | _ => "x"

open Bgp in
def showOut : Out → String
  | .refused => "refused" | .nocfg => "nocfg" | .badas => "badas" | .rejected => "rejected"
  | .neg id o => s!"neg{id}({o.asn}.{o.bgpid}.{o.hold}.{o.protos}.{o.addpath})"
  | .nc => "nc"
  | .sent id => s!"sent>B{id}"
  | .ended id => s!"ended>W{id}"
  | .reconf l => "r[" ++ ",".intercalate (l.map (fun (id, f) => s!"W{id}{showFate f}")) ++ "]"

open Bgp in
def showUnit (u : Bgp.Unit) : String :=
  let live := sortPairs (u.live.map (fun s => (s.addr, s.ras)))
  s!"P{u.bound}:L{orDash (live.map (fun (a, n) => s!"{a}.{n}"))}:O{orDash (u.live.map (fun s => toString s.conn))}"

def runBgp (v : Variant) (cfg evs : String) : String :=
  match parseCfg cfg, (if evs.isEmpty then some [] else (evs.splitOn ";").mapM parseEv) with
  | some c, some es =>
    " ".intercalate ((Bgp.runOut v (Bgp.init c) es).map (fun (o, u) => showOut o ++ "@" ++ showUnit u))
  | _, _ => "bad-case"

/-! ### file-out -/
open FileOut in
def parseFCfg (s : String) : Option Cfg :=
  let f := (s.drop 1).toString
  if s.startsWith "c" then (nat? f).map (⟨.csv, ·⟩)
  else if s.startsWith "j" then (nat? f).map (⟨.json, ·⟩)
  else if s.startsWith "m" then (nat? f).map (⟨.jsonMin, ·⟩)
  else none

open FileOut in
def parseFEv (s : String) : Option Ev :=
  let r := (s.drop 1).toString
  if s == "b" then some .pass
  else if s.startsWith "e" then (nat? r).map .emit
  else if s.startsWith "L" then (parseFCfg r).map (.reload true)
  else if s.startsWith "M" then (parseFCfg r).map (.reload false)
  else none

open FileOut in
def showFmt : Fmt → String
  | .csv => "c" | .json => "j" | .jsonMin => "m"

open FileOut in
def showFile (opened : List Nat) (log : List Line) (f : Nat) : String :=
  let ls := (log.filter (·.file == f)).map (fun l => showFmt l.fmt ++ toString l.r)
  s!"f{f}=" ++ (if ls.isEmpty then (if opened.contains f then "." else "-") else ",".intercalate ls)

/-- the files the target has created: the one of the start configuration, and (repaired) every adopted one -/
def openedFiles (v : Variant) (c : FileOut.Cfg) (es : List FileOut.Ev) : List Nat :=
  let rec go (s : FileOut.St) : List FileOut.Ev → List Nat
    | [] => []
    | e :: es => let s' := FileOut.step v s e; s'.cfg.file :: go s' es
  c.file :: go (FileOut.init c) es

def runFile (v : Variant) (cfg evs : String) : String :=
  match parseFCfg cfg, (if evs.isEmpty then some [] else (evs.splitOn ";").mapM parseFEv) with
  | some c, some es =>
    let fin := FileOut.run v (FileOut.init c) es
    let tr := FileOut.trace v (FileOut.init c) es
    let opened := (openedFiles v c es).map (· % 3)
    let log := fin.log.map (fun l => { l with file := l.file % 3 })
    (if tr.isEmpty then "-" else String.join (tr.map (fun a => if a then "a" else "d"))) ++ " | " ++
      " ".intercalate ([0, 1, 2].map (showFile opened log))
  | _, _ => "bad-case"


/-! ### filter -/
def parseUnits (s : String) : Option (List Nat) :=
  if s == "-" then some [] else (s.splitOn "+").mapM nat?

open Filter in
def parseXCfg (s : String) : Option Cfg :=
  match s.splitOn "," with
  | [n, us] => if n.startsWith "n" then do
      let n ← nat? (n.drop 1).toString; let us ← parseUnits us; pure ⟨n, us⟩ else none
  | _ => none

open Filter in
def parseXEv (s : String) : Option Ev :=
  let r := (s.drop 1).toString
  if s.startsWith "s" then
    match (r.splitOn ".").mapM nat? with
    | some [u, t] => some (.eos u t)
    | _ => none
  else if s.startsWith "R" then (parseXCfg r).map .reload
  else none

def insertNat (x : Nat) : List Nat → List Nat
  | [] => [x]
  | y :: ys => if x < y then x :: y :: ys else if x == y then y :: ys else y :: insertNat x ys

def showXStep (before after : Filter.St) : Filter.Ev → String
  | .eos _ t => if after.out.length > before.out.length then s!"f{t}" else "-"
  | .reload _ =>
    let subs := (after.sources.map (·.1)).foldr insertNat []
    s!"n{after.name}:S{String.join (subs.map toString)}"

def runFilter (cfg evs : String) : String :=
  match parseXCfg cfg, (if evs.isEmpty then some [] else (evs.splitOn ";").mapM parseXEv) with
  | some c, some es =>
    let rec go (s : Filter.St) : List Filter.Ev → List String
      | [] => []
      | e :: es => let s' := Filter.step s e; showXStep s s' e :: go s' es
    " ".intercalate (go (Filter.init c) es)
  | _, _ => "bad-case"

/-! ### mrt-file-in -/
open Mrt in
def parseMCfg (s : String) : Option Cfg :=
  match s.splitOn "," with
  | [fs, d] => do
    let fs ← parseUnits fs
    let d ← if d == "-" then some none else (nat? d).map some
    pure ⟨fs, d⟩
  | _ => none

open Mrt in
def parseMEv (s : String) : Option Ev :=
  let r := (s.drop 1).toString
  if s.startsWith "q" then (nat? r).map .api
  else if s.startsWith "R" then (parseMCfg r).map .reload
  else none

open Mrt in
def showMOut : Out → String
  | .ok d n => s!"200>d{d}.{n}"
  | .refused => "400"
  | .reloaded [] => "r"
  | .reloaded l => "r>" ++ ",".intercalate (l.map (fun f => s!"s{f}"))

def runMrt (v : Variant) (cfg evs : String) : String :=
  match parseMCfg cfg, (if evs.isEmpty then some [] else (evs.splitOn ";").mapM parseMEv) with
  | some c, some es =>
    let start := "start>" ++ orDash (c.files.map (fun f => s!"s{f}"))
    " ".intercalate (start :: (Mrt.outs v (Mrt.init c) es).map showMOut)
  | _, _ => "bad-case"

/-! ### bmp-tcp-in -/
open BmpIn in
def parsePCfg (s : String) : Option Cfg :=
  match (s.splitOn ",").mapM nat? with
  | some [l, p, t, f, m] => some ⟨l % 3, p % 2, t % 3, f % 3, m % 3⟩
  | _ => none

open BmpIn in
def parsePEv (s : String) : Option Ev :=
  let r := (s.drop 1).toString
  if s.startsWith "c" then (nat? r).map (fun x => .conn (x % 3))
  else if s.startsWith "i" then
    match (r.splitOn ".").mapM nat? with
    | some [k, t] => some (.init k t)
    | _ => none
  else if s.startsWith "x" then (nat? r).map .close
  else if s.startsWith "R" then (parsePCfg r).map .reload
  else none

open BmpIn in
def showPOut : Out → String
  | .refused => "refused" | .ok id => s!"ok{id}" | .nc => "nc" | .closed => "closed" | .reloaded => "r"
  | .msg p tr => s!"m{if p then 1 else 0}t" ++ (match tr with | some t => toString t | none => "-")

open BmpIn in
def showPSt (s : St) : String :=
  let rs := s.routers.map (fun r => s!"{r.id}={r.page}/{r.tmpl}")
  let ls := (sortPairs s.seen).map (fun (i, t) => s!"{t}.{i}")
  s!"P{s.bound}:H{s.cfg.path}:I{orDash rs}:N{orDash ls}:S{s.cfg.tmpl}.{s.cfg.filter}.{s.cfg.mode}"

def runBmp (v : Variant) (cfg evs : String) : String :=
  match parsePCfg cfg, (if evs.isEmpty then some [] else (evs.splitOn ";").mapM parsePEv) with
  | some c, some es =>
    " ".intercalate ((BmpIn.runOut v (BmpIn.init c) es).map (fun (o, s) => showPOut o ++ "@" ++ showPSt s))
  | _, _ => "bad-case"

/-! ### null-out -/
open NullOut in
def parseNEv (s : String) : Option Ev :=
  if s == "r" then some .report
  else if s.startsWith "R" then (parseUnits (s.drop 1).toString).map .reload
  else none

def runNull (cfg evs : String) : String :=
  match parseUnits cfg, (if evs.isEmpty then some [] else (evs.splitOn ";").mapM parseNEv) with
  | some c, some es =>
    " ".intercalate ((NullOut.trace (NullOut.init c) es).map (fun s =>
      orDash (s.sources.map (fun (u, g) => s!"{u}.{g}"))))
  | _, _ => "bad-case"

def runCase (v : Variant) (line : String) : String :=
  match line.splitOn "|" with
  | ["G", c, e] => runBgp v c e
  | ["F", c, e] => runFile v c e
  | ["X", c, e] => runFilter c e
  | ["N", c, e] => runNull c e
  | ["M", c, e] => runMrt v c e
  | ["B", c, e] => runBmp v c e
  | _ => "bad-case"

partial def loop (v : Variant) (h : IO.FS.Stream) (out : IO.FS.Stream) : IO Unit := do
  let line ← h.getLine
  if line.isEmpty then return ()
  out.putStrLn (runCase v (line.trimAscii.toString))
  loop v h out

def main (args : List String) : IO Unit := do
  let s (k : String) : Site := if args.contains (k ++ "=repaired") then .repaired else .asWritten
  let v : Variant := { bgpeq := s "bgpeq", bgpmatch := s "bgpmatch", bgplisten := s "bgplisten", fileout := s "fileout", mrt := s "mrt", bmppath := s "bmppath", bmptrace := s "bmptrace" }
  loop v (← IO.getStdin) (← IO.getStdout)
