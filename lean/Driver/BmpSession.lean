import RotondaModel.Model.BmpSession
/-! Line driver for the session model (C07).

`cut|<items>|<valid>|<toks>|<router>.<next>[|crash=<k>]` and `tcp|…` (same fields)
  items/valid as in Driver/BmpIo.lean (`i` = the connection stays open and silent)
  toks  = one token per completely read frame (classification by the real parser):
          `I` initiation, `U.<p>.<q>` peer up, `D.<p>` peer down, `T` termination, `O` other, `-` none
  output: the withdraw-ish updates in order (`W<id>`, `B[ids sorted]`, `E<router>`; route payloads are
          not compared), `end=` and — compared only for `tcp` cases, which go through the real
          `accept_config` — `list=` (router still in the router maps)
`bgp|<id>|<events>`: the BGP processor loop.
Args: `minlen=<n>` (as Driver/BmpIo.lean), `term=as-written|repaired` (does a Termination message end the loop). -/
open Rotonda.BmpIo Rotonda.BmpSession

-- script / validity parsing: same text format as Driver/BmpIo.lean (copied: each driver is a
-- stand-alone executable root)
def hexVal (c : Char) : Nat :=
  if '0' ≤ c ∧ c ≤ '9' then c.toNat - '0'.toNat
  else if 'a' ≤ c ∧ c ≤ 'f' then c.toNat - 'a'.toNat + 10
  else if 'A' ≤ c ∧ c ≤ 'F' then c.toNat - 'A'.toNat + 10 else 0

def hexBytes : List Char → List Item
  | a :: b :: r => .byte (hexVal a * 16 + hexVal b) :: hexBytes r
  | _ => []

def kindOf (s : String) : Kind :=
  match s with
  | "notFound" => .notFound | "permissionDenied" => .permissionDenied
  | "connectionRefused" => .connectionRefused | "connectionReset" => .connectionReset
  | "connectionAborted" => .connectionAborted | "notConnected" => .notConnected
  | "addrInUse" => .addrInUse | "addrNotAvailable" => .addrNotAvailable
  | "brokenPipe" => .brokenPipe | "alreadyExists" => .alreadyExists
  | "wouldBlock" => .wouldBlock | "invalidInput" => .invalidInput
  | "invalidData" => .invalidData | "timedOut" => .timedOut | "writeZero" => .writeZero
  | "interrupted" => .interrupted | "unsupported" => .unsupported
  | "unexpectedEof" => .unexpectedEof | "outOfMemory" => .outOfMemory | "other" => .other
  | _ => .unlisted

def kindName : Kind → String
  | .notFound => "notFound" | .permissionDenied => "permissionDenied"
  | .connectionRefused => "connectionRefused" | .connectionReset => "connectionReset"
  | .connectionAborted => "connectionAborted" | .notConnected => "notConnected"
  | .addrInUse => "addrInUse" | .addrNotAvailable => "addrNotAvailable"
  | .brokenPipe => "brokenPipe" | .alreadyExists => "alreadyExists"
  | .wouldBlock => "wouldBlock" | .invalidInput => "invalidInput"
  | .invalidData => "invalidData" | .timedOut => "timedOut" | .writeZero => "writeZero"
  | .interrupted => "interrupted" | .unsupported => "unsupported"
  | .unexpectedEof => "unexpectedEof" | .outOfMemory => "outOfMemory" | .other => "other"
  | .unlisted => "unlisted"

def parseItems (s : String) : Src :=
  if s == "-" then [] else
  ((s.splitOn " ").filter (· ≠ "")).flatMap fun tok =>
    match tok.toList with
    | 'x' :: r => hexBytes r
    | 'z' :: r => List.replicate ((String.ofList r).toNat?.getD 0) (.byte 0)
    | 'f' :: '.' :: r => [.fault (kindOf (String.ofList r))]
    | ['t'] => [.term]
    | ['i'] => [.idle]
    | _ => []

def parseValid (s : String) : Nat → List Nat → Verdict :=
  let a := (s.toList.map fun c => if c == '1' then Verdict.accept else if c == 'p' then .crash else .reject).toArray
  fun i _ => a.getD i .reject


def parseTok (s : String) : Tok :=
  match s.splitOn "." with
  | ["I"] => .init
  | ["U", p, q] => .up (p.toNat?.getD 0) (q.toNat?.getD 0)
  | ["D", p] => .down (p.toNat?.getD 0)
  | ["T"] => .term
  | _ => .other

def parseToks (s : String) : Nat → Tok :=
  let a := (((s.splitOn " ").filter (· ≠ "")).map parseTok).toArray
  fun i => a.getD i .other

def showOut : Out → Option String
  | .data => none
  | .withdraw id => some s!"W{id}"
  | .withdrawBulk ids => some ("B[" ++ ",".intercalate ((ids.toArray.qsort (· < ·)).toList.map toString) ++ "]")
  | .endOfStream r => some s!"E{r}"

/-- The real handler crashed on the k-th accepted message: wrap the peer handler. -/
def crashingPeerHandler (termEnds : Bool) (toks : Nat → Tok) (k : Option Nat) : Handler (PState × Nat) Out :=
  ⟨fun st i bs =>
    let r := (peerHandler termEnds toks).step st.1 i bs
    ((r.1, st.2 + 1), r.2.1, if k = some st.2 then .crash else r.2.2)⟩

def sessionCase (v : Variant) (termEnds : Bool) (withList : Bool) (items valid toks ids : String) (crash : Option Nat) : String :=
  let s := parseItems items
  let (router, next) := match ids.splitOn "." with
    | [a, b] => (a.toNat?.getD 0, b.toNat?.getD 0)
    | _ => (0, 0)
  let r := run v (crashingPeerHandler termEnds (parseToks toks) crash) (fun st => st.1.children) router (parseValid valid) s (PState.init next, 0)
  let outs := " ".intercalate (r.outs.filterMap showOut)
  let fin := match r.fin with | .panicked => "panic" | .fuel => "fuel" | .waiting => "waiting" | _ => "done"
  let lst := if r.inList then "1" else "0"
  let base := s!"{if outs.isEmpty then "-" else outs} end={fin}"
  if withList then s!"{base} list={lst}" else s!"{base} ## list={lst}"

def parseBgpEv (s : String) : Option BgpEv :=
  match s with
  | "neg" => some .negotiated | "dup" => some .negotiatedDuplicate | "upd" => some .update
  | "notif" => some .notification | "lost" => some .connectionLost | "closed" => some .channelClosed
  | "tickerr" => some .tickError | "term" => some .gateTerminated | "reconf" => some .reconfiguredUnit
  | _ => none

def runSessCase (v : Variant) (termEnds : Bool) (line : String) : String :=
  match line.splitOn "|" with
  | ["cut", items, valid, toks, ids] => sessionCase v termEnds false items valid toks ids none
  | ["cut", items, valid, toks, ids, crash] => sessionCase v termEnds false items valid toks ids ((crash.drop 6).toNat?)
  | ["tcp", items, valid, toks, ids] => sessionCase v termEnds true items valid toks ids none
  | ["tcp", items, valid, toks, ids, crash] => sessionCase v termEnds true items valid toks ids ((crash.drop 6).toNat?)
  | ["bgp", id, evs] =>
    let r := bgpRun (id.toNat?.getD 0) (((evs.splitOn " ").filter (· ≠ "")).filterMap parseBgpEv)
    let outs := " ".intercalate (r.outs.filterMap showOut)
    s!"{if outs.isEmpty then "-" else outs} ended={r.ended} live={r.live}"
  | _ => "bad-case"

partial def sessLoop (v : Variant) (te : Bool) (h : IO.FS.Stream) (out : IO.FS.Stream) : IO Unit := do
  let line ← h.getLine
  if line.isEmpty then return ()
  out.putStrLn (runSessCase v te (line.trimAscii.toString))
  sessLoop v te h out

def main (args : List String) : IO Unit := do
  let minlen := (args.filterMap fun a => if a.startsWith "minlen=" then (a.drop 7).toNat? else none).headD 0
  sessLoop ⟨minlen, .invalidData⟩ (args.contains "term=repaired") (← IO.getStdin) (← IO.getStdout)
