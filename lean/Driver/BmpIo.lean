import RotondaModel.Model.BmpIo
/-! Line driver for the BMP framing / read-loop model (C06). One case per input line.

Case lines:  `frame|<items>|<valid>`,  `sess|<items>|<valid>[|crash=<k>][|abort=<k>]`  and  `fatal|<kind>` (the extracted table)
  items  = space separated: `x<hex>` a run of bytes, `z<n>` n zero bytes, `f.<kind>` a fault,
           `t` gate termination; `-` for the empty script
  valid  = one char per completely read frame, in order (`-` = none): what the real
           `BmpMsg::from_octets` does with that frame: `1` accepts, `0` rejects, `p` panics
Args: `minlen=<n>` (the length guard detected on the real code; 0 = as written). -/
open Rotonda.BmpIo

def hexVal (c : Char) : Nat :=
  if '0' ≤ c ∧ c ≤ '9' then c.toNat - '0'.toNat
  else if 'a' ≤ c ∧ c ≤ 'f' then c.toNat - 'a'.toNat + 10
  else if 'A' ≤ c ∧ c ≤ 'F' then c.toNat - 'A'.toNat + 10 else 0

def hexBytes : List Char → List Item
  | a :: b :: r => .byte (hexVal a * 16 + hexVal b) :: hexBytes r
  | _ => []

def kindOf (s : String) : Kind :=
  match s with
  | "notFound" => .notFound | "permissionDenied" => .permissionDenied
  | "connectionRefused" => .connectionRefused | "connectionReset" => .connectionReset
  | "connectionAborted" => .connectionAborted | "notConnected" => .notConnected
  | "addrInUse" => .addrInUse | "addrNotAvailable" => .addrNotAvailable
  | "brokenPipe" => .brokenPipe | "alreadyExists" => .alreadyExists
  | "wouldBlock" => .wouldBlock | "invalidInput" => .invalidInput
  | "invalidData" => .invalidData | "timedOut" => .timedOut | "writeZero" => .writeZero
  | "interrupted" => .interrupted | "unsupported" => .unsupported
  | "unexpectedEof" => .unexpectedEof | "outOfMemory" => .outOfMemory | "other" => .other
  | _ => .unlisted

def kindName : Kind → String
  | .notFound => "notFound" | .permissionDenied => "permissionDenied"
  | .connectionRefused => "connectionRefused" | .connectionReset => "connectionReset"
  | .connectionAborted => "connectionAborted" | .notConnected => "notConnected"
  | .addrInUse => "addrInUse" | .addrNotAvailable => "addrNotAvailable"
  | .brokenPipe => "brokenPipe" | .alreadyExists => "alreadyExists"
  | .wouldBlock => "wouldBlock" | .invalidInput => "invalidInput"
  | .invalidData => "invalidData" | .timedOut => "timedOut" | .writeZero => "writeZero"
  | .interrupted => "interrupted" | .unsupported => "unsupported"
  | .unexpectedEof => "unexpectedEof" | .outOfMemory => "outOfMemory" | .other => "other"
  | .unlisted => "unlisted"

def parseItems (s : String) : Src :=
  if s == "-" then [] else
  ((s.splitOn " ").filter (· ≠ "")).flatMap fun tok =>
    match tok.toList with
    | 'x' :: r => hexBytes r
    | 'z' :: r => List.replicate ((String.ofList r).toNat?.getD 0) (.byte 0)
    | 'f' :: '.' :: r => [.fault (kindOf (String.ofList r))]
    | ['t'] => [.term]
    | ['i'] => [.idle]
    | _ => []

def parseValid (s : String) : Nat → List Nat → Verdict :=
  let a := (s.toList.map fun c => if c == '1' then Verdict.accept else if c == 'p' then .crash else .reject).toArray
  fun i _ => a.getD i .reject

def showOutcome : Outcome → String
  | .frame bs => s!"ok {bs.length}"
  | .ioErr k => s!"io {kindName k}"
  | .parseErr => "parse"
  | .panic _ => "panic"
  | .terminated => "term"
  | .pending => "pending"

/-- `crash = some k`: the real `process_msg` panicked on the k-th accepted message (reported by
    the engine; the handler is a parameter of the model). The real counter `msgs` is incremented
    before processing, so the crashing message is counted. -/
def sessCase (v : Variant) (items valid : String) (opts : List String) : String :=
  let s := parseItems items
  let crash := (opts.filterMap fun o => if o.startsWith "crash=" then (o.drop 6).toNat? else none).head?
  let abort := (opts.filterMap fun o => if o.startsWith "abort=" then (o.drop 6).toNat? else none).head?
  let r := runLoop v (scriptedHandler crash abort) (parseValid valid) s 0
  let fatal := match r.fin with | .fatal _ => 1 | _ => 0
  let fin := match r.fin with | .panicked => "panic" | .fuel => "fuel" | .waiting => "waiting" | _ => "done"
  let hc := if r.evs.any (fun e => match e with | .panic .handler => true | _ => false) then 1 else 0
  -- the counters are read at the start of the last read: a message that makes the handler leave
  -- the loop (`aborted`) is processed after that
  let ab := match r.fin with | .aborted => 1 | _ => 0
  s!"ioerrs={countIoErrs r.evs - fatal} msgs={countMsgs r.evs + hc - ab} rest={r.rest.length} end={fin}"

def runCase (v : Variant) (line : String) : String :=
  let sess := sessCase v
  match line.splitOn "|" with
  | ["frame", items, valid] =>
    let s := parseItems items
    let r := readFrame v (parseValid valid 0) s
    s!"{showOutcome r.1} rest={r.2.length}"
  | "sess" :: items :: valid :: opts => sess items valid opts
  | ["fatal", k] => s!"{isFatal (kindOf k)}"
  | _ => "bad-case"

partial def mainLoop (v : Variant) (h : IO.FS.Stream) (out : IO.FS.Stream) : IO Unit := do
  let line ← h.getLine
  if line.isEmpty then return ()
  out.putStrLn (runCase v (line.trimAscii.toString))
  mainLoop v h out

def main (args : List String) : IO Unit := do
  let minlen := (args.filterMap fun a => if a.startsWith "minlen=" then (a.drop 7).toNat? else none).headD 0
  mainLoop ⟨minlen, .invalidData⟩ (← IO.getStdin) (← IO.getStdout)
