import RotondaModel.Model.Http
/-! Line driver for the HTTP model (C12). One case per input line, one output line per case.

case  := reg '|' method '|' path '|' query '|' ae '|' deps
reg   := 'z' ('0'|'1') (';' proc)*          proc := 'T' | 'G' | 'Ge' (empty graph) | 'D' | 'L:' hex | 'R:' hex ':' v4min ':' v6min | 'M:' hex ':' ('0'|'1')
hex   := 'x' (two hex digits)*              query, ae := hex | '-'
deps  := '-' | dep (' ' dep)*               dep := 'p:' hex '=' ('e' | '4.' len | '6.' len) | 'a:' hex '=' bit
                                                 | 'c:' hex '=' bit   (bit := '0' | '1' | 'p' = the parser itself panics) | 'f:' hex '=' ('m'|'o'|'i')
-/
open Rotonda.Http

def hexDigit (c : Char) : Option Nat :=
  if '0' ≤ c && c ≤ '9' then some (c.toNat - 48)
  else if 'a' ≤ c && c ≤ 'f' then some (c.toNat - 87)
  else none

def parseHexList : List Char → Option Bytes
  | [] => some []
  | [_] => none
  | a :: b :: rest => do
    let h ← hexDigit a
    let l ← hexDigit b
    let r ← parseHexList rest
    some ((h * 16 + l) :: r)

def parseHex (s : String) : Option Bytes :=
  match s.toList with
  | 'x' :: rest => parseHexList rest
  | _ => none

def parseOptHex (s : String) : Option (Option Bytes) :=
  if s == "-" then some none else (parseHex s).map some

def parseProc (s : String) : Option Proc :=
  match s.splitOn ":" with
  | ["T"] => some .tracer
  | ["G"] => some (.graph false)
  | ["Ge"] => some (.graph true)
  | ["L", b] => do some (.routerList (← parseHex b))
  | ["D"] => some .dead
  | ["R", b, v4, v6] => do some (.rib (← parseHex b) (← v4.toNat?) (← v6.toNat?))
  | ["M", b, d] => do some (.mrt (← parseHex b) (d == "1"))
  | _ => none

def parseReg (s : String) : Option Registry :=
  match s.splitOn ";" with
  | z :: procs => do
    let ps ← procs.mapM parseProc
    if z == "z1" then some ⟨true, ps⟩ else if z == "z0" then some ⟨false, ps⟩ else none
  | [] => none

structure DepTab where
  p : List (Bytes × PfxRes) := []
  a : List (Bytes × PRes) := []
  c : List (Bytes × PRes) := []
  f : List (Bytes × FsRes) := []

def parsePRes (r : String) : Option PRes :=
  if r == "1" then some .ok else if r == "0" then some .err else if r == "p" then some .panic else none

def parseDep (t : DepTab) (s : String) : Option DepTab :=
  match s.splitOn "=" with
  | [kv, r] =>
    match kv.splitOn ":" with
    | ["p", h] => do
      let k ← parseHex h
      let v ← (if r == "e" then some PfxRes.err else
        match r.splitOn "." with
        | ["4", l] => do some (PfxRes.ok true (← l.toNat?))
        | ["6", l] => do some (PfxRes.ok false (← l.toNat?))
        | _ => none)
      some { t with p := (k, v) :: t.p }
    | ["a", h] => do some { t with a := ((← parseHex h), (← parsePRes r)) :: t.a }
    | ["c", h] => do some { t with c := ((← parseHex h), (← parsePRes r)) :: t.c }
    | ["f", h] => do
      let k ← parseHex h
      let v ← (if r == "m" then some FsRes.missing else if r == "o" then some FsRes.outside
               else if r == "i" then some FsRes.inside else none)
      some { t with f := (k, v) :: t.f }
    | _ => none
  | _ => none

def lookupD {β} (k : Bytes) (dflt : β) : List (Bytes × β) → β
  | [] => dflt
  | e :: l => if e.1 == k then e.2 else lookupD k dflt l

/-- Dependencies from the table; `alt` selects what an entry the engine did not supply answers
    (the case is run with both settings: a difference means a needed entry is missing). -/
def mkDeps (t : DepTab) (alt : Bool) : Deps where
  pfx k := lookupD k (if alt then .ok true 24 else .err) t.p
  asn k := lookupD k (if alt then .ok else .err) t.a
  community k := lookupD k (if alt then .ok else .err) t.c
  fs k := lookupD k (if alt then .inside else .missing) t.f

def showOutcome : Outcome → String
  | .ok r =>
    let g := if r.gzip then "g1" else "g0"
    let rs := if r.status == 400 then (if r.reason then "r1" else "r0") else "r-"
    s!"{r.status} {g} {rs}"
  | .panic .aeToStr => "panic ## site=accept-encoding-to-str"
  | .panic .graphSplitAt => "panic ## site=graph-traces-split-at"
  | .panic .graphEmpty => "panic ## site=graph-empty-layout"
  | .panic .depFromStr => "panic ## site=dependency-from-str"

def words (s : String) : List String := (s.splitOn " ").filter (· ≠ "")

def runCase (v : Variant) (line : String) : String :=
  match line.splitOn "|" with
  | [reg, m, path, q, ae, deps] =>
    match parseReg reg, parseHex path, parseOptHex q, parseOptHex ae,
          (if deps == "-" then some {} else (words deps).foldlM parseDep ({} : DepTab)) with
    | some reg, some path, some q, some ae, some t =>
      let req : Req := { method := if m == "GET" then .get else .other, path := path, query := q, acceptEnc := ae }
      let o1 := handle v (mkDeps t false) reg req
      let o2 := handle v (mkDeps t true) reg req
      if o1 == o2 then showOutcome o1 else "dep-missing"
    | _, _, _, _, _ => "bad-case"
  | _ => "bad-case"

partial def loop (v : Variant) (h : IO.FS.Stream) (out : IO.FS.Stream) : IO Unit := do
  let line ← h.getLine
  if line.isEmpty then return ()
  out.putStrLn (runCase v (line.trimAscii.toString))
  loop v h out

def main (args : List String) : IO Unit := do
  let v : Variant := {
    aeUnwrap := !args.contains "ae=repaired",
    graphSplit := !args.contains "graph=repaired",
    graphEmpty := !args.contains "graphempty=repaired",
    depPanic := !args.contains "deppanic=repaired" }
  loop v (← IO.getStdin) (← IO.getStdout)
