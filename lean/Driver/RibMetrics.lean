import RotondaModel.Model.RibMetrics
/-! Line driver for the RIB-unit metrics model.
    case  `m|<tokens>`  →  one metric record per token (after the updates of that token), joined by " ".
    Tokens: those of `Driver/Rib.lean` (`u: x: d: D: da:`) plus `u1:` (a Bulk of exactly one payload is
    sent as `Update::Single`), `um:` (Mrt route context) and `ur:` (Reprocess route context). -/
open Rotonda.Rib Rotonda.RibMetrics

def words (s : String) : List String := (s.splitOn " ").filter (· ≠ "")

def parsePrefix (s : String) : Option Prefix :=
  match s.splitOn "." with
  | [f, l, b] => do
    let fam ← (if f == "4" then some Fam.v4 else if f == "6" then some Fam.v6 else none)
    some ⟨fam, ← l.toNat?, ← b.toNat?⟩
  | _ => none

def parseNlri (s : String) : Option Nlri :=
  let rest := (s.drop 1).toString
  match s.take 1 |>.toString with
  | "u" => do some ⟨← parsePrefix rest, .unicast⟩
  | "m" => do some ⟨← parsePrefix rest, .multicast⟩
  | "x" => do some ⟨← parsePrefix rest, .unsupported⟩
  | _ => none

def parseList (s : String) : Option (List Nlri) :=
  if s == "-" then some [] else (s.splitOn ",").mapM parseNlri

def parseAf : String → AfiSafi
  | "v4u" => .v4u | "v6u" => .v6u | "v4m" => .v4m | "v6m" => .v6m | _ => .other

def single1 : List Update → List Update
  | [.bulk [p]] => [.single p]
  | us => us

def parseEv (rv : Rotonda.Rib.Variant) (s : String) : Option (List Update) :=
  match s.splitOn ":" with
  | hd :: m :: a :: ann :: wd :: _ =>
    if hd == "x" then some [] else do
    let ctx ← (if hd == "u" || hd == "u1" then some Ctx.fresh else if hd == "um" then some Ctx.mrt
               else if hd == "ur" then some Ctx.reprocess else none)
    let us := ingest rv ctx (← m.toNat?) (.ok (← a.toNat?) (← parseList ann) (← parseList wd))
    some (if hd == "u1" then single1 us else us)
  | ["d", m] => do some [.withdraw (← m.toNat?) none]
  | ["D", ms] => if ms == "-" then some [.withdrawBulk []] else do some [.withdrawBulk (← (ms.splitOn ",").mapM (·.toNat?))]
  | ["da", m, af] => do some [.withdraw (← m.toNat?) (some (parseAf af))]
  | _ => none

def runCase (rv : Rotonda.Rib.Variant) (v : MVariant) (line : String) : String :=
  match line.splitOn "|" with
  | "m" :: evs :: _ =>
    match (words evs).mapM (parseEv rv) with
    | some uss =>
      let (_, out) := uss.foldl (fun (acc : St × List String) us =>
        let s := St.runFrom rv v acc.1 us
        (s, s.mx.show v :: acc.2)) (St.empty, [])
      " ".intercalate out.reverse
    | none => "bad-case"
  | _ => "bad-case"

partial def loop (rv : Rotonda.Rib.Variant) (v : MVariant) (h : IO.FS.Stream) (out : IO.FS.Stream) : IO Unit := do
  let line ← h.getLine
  if line.isEmpty then return ()
  out.putStrLn (runCase rv v (line.trimAscii.toString))
  loop rv v h out

def main (args : List String) : IO Unit := do
  let rv : Rotonda.Rib.Variant := { overlapFix := args.contains "overlap=repaired",
                                    perRecordWithdraw := args.contains "flap=repaired" }
  let v : MVariant := { durationFix := args.contains "ribmetrics-duration=repaired",
                        wdEffectFix := args.contains "ribmetrics-wdeffect=repaired" }
  loop rv v (← IO.getStdin) (← IO.getStdout)
