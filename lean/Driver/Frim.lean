import RotondaModel.Model.Frim
/-! Line driver for the FrimMap model (C18). One case per input line, one output line per case. -/
open Rotonda.Frim

def parseMap (s : String) : Option Map :=
  if s == "-" then some [] else
  (s.splitOn ",").mapM fun kv =>
    match kv.splitOn ":" with
    | [k, v] => do some ((← k.toNat?), (← v.toNat?))
    | _ => none

/-- Canonical: sorted by key then value (iteration order of the real map is unspecified). -/
def showMap (m : Map) : String :=
  let m := (m.toArray.qsort (fun a b => a.1 < b.1 || (a.1 == b.1 && a.2 < b.2))).toList
  if m.isEmpty then "-" else ",".intercalate (m.map fun e => s!"{e.1}:{e.2}")

def parseOp (s : String) : Option Op :=
  match s.splitOn "." with
  | ["i", k, v] => do some (.ins (← k.toNat?) (← v.toNat?))
  | ["r", k] => do some (.rem (← k.toNat?))
  | ["g", k] => do some (.get (← k.toNat?))
  | ["t", "kne", k] => do some (.retain (.keyNe (← k.toNat?)))
  | ["t", "klt", k] => do some (.retain (.keyLt (← k.toNat?)))
  | ["t", "vne", k] => do some (.retain (.valNe (← k.toNat?)))
  | ["t", "all"] => some (.retain .all)
  | ["t", "none"] => some (.retain .none)
  | ["p", m] => do some (.replace (← parseMap m))
  | ["l"] => some .len
  | ["it"] => some .iter
  | _ => none

def showRet : Ret → String
  | .unit => "u"
  | .val none => "N"
  | .val (some v) => s!"S{v}"
  | .num n => s!"n{n}"
  | .snap m => s!"m{showMap m}"

def words (s : String) : List String := (s.splitOn " ").filter (· ≠ "")

def runCase (v : Variant) (line : String) : String :=
  match line.splitOn "|" with
  | ["seq", m0, ops] =>
    match parseMap m0, (words ops).mapM parseOp with
    | some m0, some ops =>
      let r := seqRun m0 ops
      " ".intercalate (r.2.map showRet) ++ " => " ++ showMap r.1
    | _, _ => "bad-case"
  | ["conc", m0, progs, sched] =>
    match parseMap m0, (progs.splitOn "/").mapM (fun p => (words p).mapM parseOp), (words sched).mapM (·.toNat?) with
    | some m0, some progs, some sched =>
      let s := run v (init m0 progs) sched
      let rets := "/".intercalate (s.threads.map fun t => " ".intercalate (t.rets.map fun x => showRet x.2))
      let pend := s.threads.any fun t => !(t.prog.isEmpty && t.pc == .idle)
      let lin := match replay m0 s.lin with | some m => if m == s.content then "yes" else "no" | none => "no"
      s!"{rets} => {showMap s.content} ## pending={pend} linearizable={lin}"
    | _, _, _ => "bad-case"
  | ["free", _, _, _] =>
    -- free-running writers, observed at rest: in the model every view reads the one published content
    -- (`len`, `iter`, `get` are functions of `content`), so all four agreements hold for every history
    -- and a lookup next to the writers reads one published content: the value it returns is the one stored under
    -- its key in that content, and a key present in every published content is found
    "rest len-agrees=true empty-agrees=true gets-agree=true keys-unique=true reads-own-key=true pinned-key-seen=true"
  | _ => "bad-case"

partial def loop (v : Variant) (h : IO.FS.Stream) (out : IO.FS.Stream) : IO Unit := do
  let line ← h.getLine
  if line.isEmpty then return ()
  out.putStrLn (runCase v (line.trimAscii.toString))
  loop v h out

def main (args : List String) : IO Unit := do
  let v : Variant := if args.contains "found=repaired" then repaired else asWritten
  loop v (← IO.getStdin) (← IO.getStdout)
