import RotondaModel.Model.RotoRib
/-! Line driver for the bridge RotoRib (roto filter composed with the RIB).
    Parsing/printing glue only; every decision is taken by `Model/RotoRib.lean` (and through it by
    `Model/Roto.lean` and `Model/Rib.lean`). The program / constant syntax is the C10 driver's.

    `P|<bgp-in program or ->|<rib-in-pre program or ->|<attribute table>|<queried prefixes>|<events>`
       → per prefix `T/F` record lists (include_withdrawn = true / false), ` | `, what left the RIB unit's gate
    `F|<events>`  the separate `filter` unit, update by update -/
open Rotonda.Roto
open Rotonda.RotoRib

def words (s : String) : List String := (s.splitOn " ").filter (· ≠ "")

def dotsOf (s : String) : List String := if s == "-" then [] else s.splitOn "."

def parsePfx (s : String) : Option Pfx :=
  match s.splitOn "/" with
  | [fa, l] =>
    match fa.splitOn "." with
    | [f, a] => do some ⟨← f.toNat?, ← a.toNat?, ← l.toNat?⟩
    | _ => none
  | _ => none

def showPfx (p : Pfx) : String := s!"{p.fam}.{p.addr}/{p.len}"

def parseConst (s : String) : Option Const :=
  let r := (s.drop 1).toString
  match (s.take 1).toString with
  | "a" => r.toNat?.map .asn
  | "c" => r.toNat?.map .comm
  | "p" => (parsePfx r).map .pfx
  | "u" => r.toNat?.map .u8
  | _ => none

def parseArg (s : String) : Option Arg :=
  match (s.take 1).toString with
  | "l" => (parseConst (s.drop 1).toString).map .lit
  | "v" => (s.drop 1).toString.toNat?.map .var
  | _ => none

def parsePred : List String → Option (Pred × List String)
  | "ac" :: a :: r => (parseArg a).map fun x => (.aspathContains x, r)
  | "or" :: a :: r => (parseArg a).map fun x => (.originIs x, r)
  | "hc" :: a :: r => (parseArg a).map fun x => (.hasComm x, r)
  | "ha" :: a :: r => (parseArg a).map fun x => (.hasAttr x, r)
  | "pa" :: a :: r => (parseArg a).map fun x => (.peerAsnIs x, r)
  | "ib" :: a :: r => (parseArg a).map fun x => (.isIbgp x, r)
  | "px" :: a :: r => (parseArg a).map fun x => (.prefixIs x, r)
  | "rm" :: r => some (.isRouteMon, r)
  | "pd" :: r => some (.isPeerDown, r)
  | _ => none

partial def parseCond : List String → Option (Cond × List String)
  | "t" :: r => some (.tt, r)
  | "f" :: r => some (.ff, r)
  | "p" :: r => (parsePred r).map fun (p, r) => (.pred p, r)
  | "~" :: r => (parseCond r).map fun (c, r) => (.not c, r)
  | "*" :: r => do let (a, r) ← parseCond r; let (b, r) ← parseCond r; some (.and a b, r)
  | "+" :: r => do let (a, r) ← parseCond r; let (b, r) ← parseCond r; some (.or a b, r)
  | _ => none

def parseOut : List String → Option (OutCall × List String)
  | "lp" :: a :: r => (parseArg a).map fun x => (.logPrefix x, r)
  | "la" :: a :: r => (parseArg a).map fun x => (.logAsn x, r)
  | "lo" :: a :: r => (parseArg a).map fun x => (.logOrigin x, r)
  | "lc" :: a :: r => (parseArg a).map fun x => (.logComm x, r)
  | "pd" :: r => some (.logPeerDown, r)
  | "we" :: r => some (.writeEntry, r)
  | "cu" :: i :: v :: r => do some (.logCustom (← i.toNat?) (← v.toNat?), r)
  | _ => none

partial def parseProg : List String → Option (Prog × List String)
  | "A" :: r => some (.ret .accept, r)
  | "R" :: r => some (.ret .reject, r)
  | "F" :: r => some (.fall, r)
  | "O" :: r => do let (o, r) ← parseOut r; let (k, r) ← parseProg r; some (.out o k, r)
  | "I" :: r => do let (c, r) ← parseCond r; let (t, r) ← parseProg r; let (e, r) ← parseProg r; some (.ite c t e, r)
  | "B" :: r => do let (b, r) ← parseProg r; let (k, r) ← parseProg r; some (.blk b k, r)
  | _ => none

/-- `-` is "no filter installed" -/
def parseProgram (s : String) : Option (Option Program) :=
  if s == "-" then some none else
  match words s with
  | l :: r => do
    let n ← (l.drop 1).toString.toNat?
    let lets ← (r.take n).mapM parseConst
    let (body, rest) ← parseProg (r.drop n)
    if rest.isEmpty && body.closed then some (some ⟨lets, body⟩) else none
  | [] => none

def kvs (s : String) : List (String × String) :=
  (words s).filterMap fun t => match t.splitOn "=" with | [k, v] => some (k, v) | _ => none

def look (kv : List (String × String)) (k : String) : Option String := (kv.find? (·.1 == k)).map (·.2)

def parseHop (s : String) : Option Hop :=
  if (s.take 1).toString == "s" then (((s.drop 1).toString.splitOn ":").mapM fun (x : String) => x.toNat?).map .seg
  else s.toNat?.map .asn

def parsePfxs (s : String) : Option (List Pfx) := if s == "-" then some [] else (s.splitOn ",").mapM parsePfx

def showOsm : Osm → String
  | .prefix => "prefix" | .community => "community" | .asn => "asn" | .origin => "origin"
  | .peerDown => "peerdown" | .custom i v => s!"custom:{i}:{v}" | .entry => "log_entry"


/-- `a=<id> h=.. c=.. t=..;…` : the decoding of the attribute ids (id 0 / unlisted = the empty map) -/
def parseTable (s : String) : Option (List (Nat × Upd)) :=
  if s == "-" then some [] else
  (s.splitOn ";").mapM fun e => do
    let kv := kvs e
    let h ← look kv "h"
    let aspath ← if h == "~" then some none else ((dotsOf h).mapM parseHop).map some
    let comms ← (dotsOf (← look kv "c")).mapM (·.toNat?)
    let attrs ← (dotsOf (← look kv "t")).mapM (·.toNat?)
    some (← (← look kv "a").toNat?, ⟨aspath, comms, attrs⟩)

def decOf (t : List (Nat × Upd)) : Dec := fun a => (t.find? (·.1 == a)).map (·.2)

def ribPrefix (p : Pfx) : Rotonda.Rib.Prefix :=
  ⟨if p.fam == 6 then .v6 else .v4, p.len, p.addr >>> ((if p.fam == 6 then 128 else 32) - p.len)⟩

def parseNlris (s : String) : Option (List Rotonda.Rib.Nlri) :=
  if s == "-" then some [] else (s.splitOn ",").mapM fun t => (parsePfx t).map fun p => ⟨ribPrefix p, .unicast⟩

def parseEv (s : String) : Option Rotonda.Rib.Ev :=
  match s.splitOn ":" with
  | ["u", m, a, n, w] => do some (.upd (← m.toNat?) (.ok (← a.toNat?) (← parseNlris n) (← parseNlris w)))
  | ["d", m] => do some (.down (← m.toNat?))
  | ["D", ms] => if ms == "-" then some (.downBulk []) else do some (.downBulk (← (ms.splitOn ",").mapM (·.toNat?)))
  | _ => none

def showRecs (rs : List Rotonda.Rib.Rec) : String :=
  let rs := (rs.toArray.qsort (fun a b => a.mui < b.mui || (a.mui == b.mui && (a.status == .active && b.status == .withdrawn
            || (a.status == b.status && a.attrs < b.attrs))))).toList
  if rs.isEmpty then "-" else
  ",".intercalate (rs.map fun r => s!"{r.mui}.{if r.status == .active then "A" else "W"}.{r.attrs}")

def showOut : Out → String
  | .os ms => "os(" ++ ",".intercalate (ms.map showOsm) ++ ")"
  | .single _ => "single"
  | .bulk ps => s!"bulk:{ps.length}"
  | .eos => "eos"

def showOuts (os : List Out) : String := if os.isEmpty then "-" else " ".intercalate (os.map showOut)

structure Flags where
  rv : Rotonda.Rib.Variant
  rov : Variant
  fuAsWritten : Bool

/-- the bgp-in handler runs of the engine always see `NegotiatedConfig::dummy()`: AS12345 -/
def asnOf : Rotonda.Rib.Mui → Nat := fun _ => 12345

def runP (fl : Flags) (ing pre table qs evs : String) : Option String := do
  let ing ← parseProgram ing
  let pre ← parseProgram pre
  let t ← parseTable table
  let qs ← (words qs).mapM parsePfx
  let h ← (words evs).mapM parseEv
  let c := cfgOf fl.rv fl.rov (decOf t) asnOf ing pre
  let r := pipe c h
  let ans := qs.map fun p =>
    showRecs (r.1.query (ribPrefix p) {}) ++ "/" ++ showRecs (r.1.query (ribPrefix p) { includeWithdrawn := false })
  some (" ".intercalate ans ++ " | " ++ showOuts r.2)

/-- `F` items: events as above, `e:<m>` = EndOfStream, `o` = an OutputStream update -/
def parseItem (rv : Rotonda.Rib.Variant) (s : String) : Option (List In) :=
  if s == "o" then some [.os []] else
  match s.splitOn ":" with
  | ["e", _] => some [.upd .endOfStream]
  | _ => (parseEv s).map (evIns { rv := rv })

def showIn : In → String
  | .os _ => "os"
  | .upd (.single _) => "single"
  | .upd (.bulk ps) => s!"bulk:{ps.length}"
  | .upd (.withdraw ..) => "withdraw"
  | .upd (.withdrawBulk ms) => s!"wbulk:{ms.length}"
  | .upd .endOfStream => "eos"
  | .upd _ => "other"

def runFu (fl : Flags) (items : String) : Option String := do
  let ins := (← (words items).mapM (parseItem fl.rv)).flatten
  let rec go : List In → List String
    | [] => []
    | i :: is =>
      match filterUnit fl.fuAsWritten false none i with
      | .panic _ => ["panic"]
      | .fwd js => (if js.isEmpty then "-" else ",".intercalate (js.map showIn)) :: go is
  some (" ".intercalate (go ins))

def runCase (fl : Flags) (line : String) : String :=
  let r := match line.splitOn "|" with
    | ["P", ing, pre, table, qs, evs] => runP fl ing pre table qs evs
    | ["F", items] => runFu fl items
    | _ => none
  r.getD "bad-case"

partial def loop (fl : Flags) (h : IO.FS.Stream) (out : IO.FS.Stream) : IO Unit := do
  let line ← h.getLine
  if line.isEmpty then return ()
  out.putStrLn (runCase fl (line.trimAscii.toString))
  loop fl h out

def main (args : List String) : IO Unit := do
  let fl : Flags :=
    { rv := { overlapFix := args.contains "overlap=repaired", perRecordWithdraw := args.contains "flap=repaired" },
      rov := { pdBgp := args.contains "pd_bgp=repaired", pdBmp := false, pdRib := args.contains "pd_rib=repaired", asWidth := true },
      fuAsWritten := !(args.contains "filter_unit=repaired") }
  loop fl (← IO.getStdin) (← IO.getStdout)
