import RotondaModel.Model.MqttConn
/-! Line driver for the MqttConn model. One case per line:
    `<cfg>;<cfg>…|<step>;<step>…` with `cfg = cid.dest.qs.tmpl.retry.pmax.qos.user` and steps
    `I<inputs>` (`m<topic>`, `r<k>`, `x`, comma separated), `Ea|Er|Ed|Eo`, `Pa|Pf|Ps<d>`, `T`.
    Flags: `void=`, `retry=`, `cred=` `as-written|repaired`.
    Output: per step `<run loop> / <event loop> / <counters>`, joined by ` ; `. -/
open Rotonda.MqttConn

def parseCfg (s : String) : Option Cfg :=
  match (s.splitOn ".").mapM (·.toNat?) with
  | some [a, b, c, d, e, f, g, h] => some ⟨a, b, c, d, e, f, g, h⟩
  | _ => none

def parseInp (s : String) : Option Inp :=
  if s == "x" then some (.cmd .term)
  else if s.startsWith "m" then (s.drop 1).toString.toNat?.map .msg
  else if s.startsWith "r" then (s.drop 1).toString.toNat?.map (fun k => .cmd (.reconf k))
  else none

def parseStep (s : String) : Option Step :=
  if s == "T" then some .tick
  else if s == "Ea" then some (.ev .accept) else if s == "Er" then some (.ev .refuse)
  else if s == "Ed" then some (.ev .drop) else if s == "Eo" then some (.ev .other)
  else if s == "Pa" then some (.mode .accept) else if s == "Pf" then some (.mode .fail)
  else if s.startsWith "Ps" then (s.drop 2).toString.toNat?.map (fun d => .mode (.slow d))
  else if s == "I" then some (.burst [])
  else if s.startsWith "I" then ((s.drop 1).toString.splitOn ",").mapM parseInp |>.map .burst
  else none

def showEv : Ev → String
  | .accept => "a" | .refuse => "r" | .drop => "e" | .other => "n"

def showT : Obs → Option String
  | .publish c m qos out =>
    some s!"p{c}:{topicStr m}:{m.id}:{qos}{match out with | .ok => "+" | .err => "!" | .pending => "~"}"
  | .done id => some s!"d{id}"
  | .cancel id => some s!"c{id}"
  | .disconnect c => some s!"x{c}"
  | _ => none

def showE : Obs → Option String
  | .opened c cfg =>
    let user := if cfg.user = 0 then "-" else s!"u{cfg.user}+pw"
    some s!"o{c}:h{cfg.dest}:{1883 + cfg.dest}:cid{cfg.cid}:{10 * (cfg.qs + 1)}:{user}"
  | .enter c => some s!"w{c}"
  | .polled c e => some s!"{showEv e}{c}"
  | _ => none

def b2s (b : Bool) : String := if b then "1" else "0"

def showStep (news : List Obs) (st : St) : String :=
  let t := news.filterMap showT
  let e := news.filterMap showE
  (if t.isEmpty then "-" else " ".intercalate t) ++ " / " ++ (if e.isEmpty then "-" else " ".intercalate e)
    ++ s!" / up={b2s st.up} ok={st.okCnt} pe={st.peCnt} ce={st.ceCnt} cl={st.clCnt} fin={b2s st.term}"

def runSteps (v : Variants) : St → List Step → List String
  | _, [] => []
  | st, s :: ss =>
    let st' := step v st s
    showStep (st'.log.drop st.log.length) st' :: runSteps v st' ss

def runCase (v : Variants) (line : String) : String :=
  match line.splitOn "|" with
  | [cs, ss] =>
    match (cs.splitOn ";").mapM parseCfg, (ss.splitOn ";").mapM parseStep with
    | some cfgs, some steps => " ; ".intercalate (runSteps v (init cfgs) steps)
    | _, _ => "bad-case"
  | _ => "bad-case"

partial def loop (v : Variants) (h : IO.FS.Stream) (out : IO.FS.Stream) : IO Unit := do
  let line ← h.getLine
  if line.isEmpty then return ()
  out.putStrLn (runCase v (line.trimAscii.toString))
  loop v h out

def main (args : List String) : IO Unit := do
  let v : Variants :=
    { voidFix := args.contains "void=repaired",
      retryFix := args.contains "retry=repaired",
      credFix := args.contains "cred=repaired" }
  loop v (← IO.getStdin) (← IO.getStdout)
