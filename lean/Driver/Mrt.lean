import RotondaModel.Model.Mrt
/-! Line driver for the mrt-file-in model (C16). One case per input line.
Variant flags: `sc=`, `iso=`, `overlap=`, `dumpreg=` `as-written` | `repaired` (default as-written). -/
open Rotonda.Mrt

def ADDRS : List String := ["10.0.0.1", "10.0.0.2", "192.0.2.7", "2001:db8::1", "2001:db8::2", "fe80::7"]
def PFX4 : List String := ["10.0.0.0/8", "10.1.0.0/16", "192.0.2.0/24", "0.0.0.0/0", "203.0.113.7/32"]
def PFX6 : List String := ["2001:db8::/32", "2001:db8:1::/48", "::/0", "2001:db8::1/128"]

def parsePeer (s : String) : Option Peer :=
  match s.splitOn "." with
  | [a, n] => do some ⟨← a.toNat?, ← n.toNat?⟩
  | _ => none
def parseList (s : String) : Option (List Nat) := if s == "-" then some [] else (s.splitOn ",").mapM (·.toNat?)
def parseEntry (s : String) : Option (Nat × Nat) :=
  match s.splitOn "." with
  | [i, a] => do some (← i.toNat?, ← a.toNat?)
  | _ => none

def parseRec (s : String) : Option Rec :=
  match s.splitOn " " with
  | ["PI", ps] => if ps == "-" then some (.peerIndex []) else (ps.splitOn ",").mapM parsePeer |>.map .peerIndex
  | ["R4", p, es] => do some (.rib false (← p.toNat?) (← if es == "-" then some [] else (es.splitOn ",").mapM parseEntry))
  | ["R6", p, es] => do some (.rib true (← p.toNat?) (← if es == "-" then some [] else (es.splitOn ",").mapM parseEntry))
  | ["RO", _] => some .ribOther
  | [m, p, "K"] => if m.startsWith "M" then (parsePeer p).map (.msg · .other) else none
  | [m, p, "O"] => if m.startsWith "M" then (parsePeer p).map (.msg · .other) else none
  | [m, p, "G"] => if m.startsWith "M" then (parsePeer p).map (.msg · .garbage) else none
  | [_, p, u, ann, wd, a] => do some (.msg (← parsePeer p) (.update (u == "U6") (← parseList ann) (← parseList wd) (← a.toNat?)))
  | [sc, p, o, n] => if sc.startsWith "SC" then do some (.stateChange (← parsePeer p) (← o.toNat?) (← n.toNat?)) else none
  | ["L", _] => some .localMsg
  | ["OT", _] => some .otherType
  | ["TR"] => some .otherType
  | _ => none

def parseFile (s : String) : Option File :=
  match s.splitOn ":" with
  | [c, r] => do
    let comp ← match c with
      | "p" => some Comp.plain | "g" => some .gzip | "b" => some .bzip2 | "m" => some .missing | "x" => some .undecodable | _ => none
    some ⟨comp, ← if r == "-" then some [] else (r.splitOn ";").mapM parseRec⟩
  | _ => none

def pfxName (v6 : Bool) (i : Nat) : String := if v6 then PFX6.getD i "?" else PFX4.getD i "?"

def showUpd : Upd → String
  | .single v6 pfx id a => s!"S{if v6 then 6 else 4} {pfxName v6 pfx} i{id} a{a}"
  | .bulk _ _ [] [] => "B i0"      -- an empty `Update::Bulk` carries no payload to read the id from
  | .bulk id v6 ann wd => s!"B i{id}" ++ String.join (ann.map fun p => " +" ++ pfxName v6 p) ++ String.join (wd.map fun p => " -" ++ pfxName v6 p)
  | .withdraw id => s!"W i{id}"

def runCase (d : Site) (v : Variant) (line : String) : String :=
  match line.splitOn "|" with
  | ["q", files] =>
    match (files.splitOn "#").mapM parseFile with
    | some fs =>
      let q := runQueueD d v 1 ⟨2, []⟩ fs
      let ups := if q.out.isEmpty then "-" else ",".intercalate (q.out.map showUpd)
      s!"{ups}|r:{",".intercalate (q.resps.map fun b => if b then "ok" else "dead")}|n={q.reg.next}"
    | none => "bad-case"
  | _ => "bad-case"

partial def loop (d : Site) (v : Variant) (h : IO.FS.Stream) (out : IO.FS.Stream) : IO Unit := do
  let line ← h.getLine
  if line.isEmpty then return ()
  out.putStrLn (runCase d v (line.trimAscii.toString))
  loop d v h out

def main (args : List String) : IO Unit := do
  let site (k : String) : Site := if args.contains (k ++ "=repaired") then .repaired else .asWritten
  loop (site "dumpreg") ⟨site "sc", site "iso", site "overlap"⟩ (← IO.getStdin) (← IO.getStdout)
