import RotondaModel.Model.ConfigLoad
/-! Line driver for the ConfigLoad model (loader entry; attached to C13). One reload sequence per line.

case := step ('/' step)*  |  'Q|' hex
step := <C13 step: flags ';U:' comps ';T:' comps ';r:' names ';m:' names> ';f:' E S V pad listen ';l:' lens ';q:' opts
(the C13 part is parsed as in `Driver/Mgr.lean`, copied: that module has its own `main`)
-/
open Rotonda.Mgr Rotonda.ConfigLoad

def parseV (s : String) : Option V :=
  if s == "b" then some .bad
  else match s.toList with
    | 's' :: rest => (String.ofList rest).toNat?.map V.s
    | _ => none

def parseSrcs (s : String) : Option Srcs :=
  if s == "-" then some .absent
  else match s.toList with
    | '1' :: rest => (parseV (String.ofList rest)).map Srcs.one
    | '[' :: rest =>
      let inner := String.ofList (rest.takeWhile (· != ']'))
      if inner == "" then some (.many [])
      else ((inner.splitOn "+").mapM parseV).map Srcs.many
    | _ => none

def parseComp (s : String) : Option RawComp :=
  match s.splitOn "." with
  | [n, ty, srcs, src, f] => do
    let n ← n.toNat?
    let ty ← (if ty == "?" then some none else ty.toNat?.map some)
    let srcs ← parseSrcs srcs
    let src ← (if src == "-" then some none else (parseV src).map some)
    let f ← f.toNat?
    some { name := n, ty := ty, sources := srcs, source := src, filters := f, upstream := none }
  | _ => none

def parseComps (s : String) : Option (List RawComp) :=
  if s == "" then some [] else (s.splitOn ",").mapM parseComp

def parseNames (s : String) : Option (List Nat) :=
  if s == "" then some [] else (s.splitOn "+").mapM (·.toNat?)

def dropPrefix (p s : String) : Option String :=
  if s.startsWith p then some (s.drop p.length).toString else none

def hexDigit (c : Char) : Option Nat :=
  if '0' ≤ c && c ≤ '9' then some (c.toNat - 48)
  else if 'a' ≤ c && c ≤ 'f' then some (c.toNat - 87)
  else none

def parseHexList : List Char → Option (List Nat)
  | [] => some []
  | [_] => none
  | a :: b :: rest => do
    let h ← hexDigit a
    let l ← hexDigit b
    let r ← parseHexList rest
    some ((h * 16 + l) :: r)

def parseHex (s : String) : Option (List Nat) :=
  match s.toList with
  | 'x' :: rest => parseHexList rest
  | _ => none

def parseStep (s : String) : Option FLoad :=
  match s.splitOn ";" with
  | [fl, u, t, r, m, f, l, q] => do
    let us ← parseComps (← dropPrefix "U:" u)
    let ts ← parseComps (← dropPrefix "T:" t)
    let r ← parseNames (← dropPrefix "r:" r)
    let m ← parseNames (← dropPrefix "m:" m)
    let f ← dropPrefix "f:" f
    let lens ← parseNames (← dropPrefix "l:" l)
    let q ← dropPrefix "q:" q
    let opts ← (if q == "" then some [] else (q.splitOn "+").mapM parseHex)
    let script ← (match f.toList[1]? with
      | some '-' => some Script.absent | some 'm' => some Script.missing | some 'b' => some Script.broken
      | some 'g' => some Script.good | some 'G' => some Script.good | _ => none)
    some { fileExists := f.toList[0]? == some 'e',
           load := { notToml := fl.contains 'x', doc := ⟨us, ts⟩, roto := false, residue := r, moved := m },
           script := script, lens := lens, opts := opts }
  | _ => none

def sortStrs (l : List String) : List String := (l.toArray.qsort (· < ·)).toList

def showAction : Action → String
  | .spawnU n t => s!"su{n}:{t}"
  | .reconfU n => s!"ru{n}"
  | .termU n => s!"tu{n}"
  | .spawnT n t => s!"st{n}:{t}"
  | .reconfT n => s!"rt{n}"
  | .termT n => s!"tt{n}"

def showPos : Pos → String
  | .panic => "P"
  | .at l c => s!"{l}.{c}"

def showRes : Res → String
  | .ok acts w => "ok:" ++ ",".intercalate (sortStrs (acts.map showAction)) ++ s!" q{w}"
  | .io => "err:io"
  | .parse => "err:parse"
  | .serde => "err:serde"
  | .roto => "err:roto"
  | .unresolved marks => "err:unresolved:" ++ ",".intercalate (marks.map showPos)
  | .panic => "panic"

def showNames (l : List Nat) : String := ",".intercalate ((l.toArray.qsort (· < ·)).toList.map toString)

def runCase (v : Rotonda.ConfigLoad.Variant) (line : String) : String :=
  if line.startsWith "Q|" then
    match parseHex (line.drop 2).toString with
    | some o => (match live v o with | .runs false => "runs" | .runs true => "runs default" | .gatePanics => "panic")
    | none => "bad-case"
  else
    match (line.splitOn "/").mapM parseStep with
    | some loads =>
      let r := frun v St.init loads
      " / ".intercalate (r.2.map showRes) ++ s!" => U={showNames (r.1.runU.map (·.1))} T={showNames (r.1.runT.map (·.1))}"
    | none => "bad-case"

partial def loop (v : Rotonda.ConfigLoad.Variant) (h : IO.FS.Stream) (out : IO.FS.Stream) : IO Unit := do
  let line ← h.getLine
  if line.isEmpty then return ()
  out.putStrLn (runCase v (line.trimAscii.toString))
  loop v h out

def main (args : List String) : IO Unit := do
  let mv : Rotonda.Mgr.Variant := { unreach := args.contains "unreach=as-written", stale := args.contains "stale=as-written" }
  let v : Rotonda.ConfigLoad.Variant := { mgr := mv, markW := !args.contains "mark=repaired", queueR := args.contains "queue=repaired" }
  loop v (← IO.getStdin) (← IO.getStdout)
