import RotondaModel.Model.BgpMetrics
/-! Line driver for `Model/BgpMetrics.lean`. One case per input line:
`M|<link>|<startfail>|<cfg0> ; <cfg1> …|<ops>` (the case syntax of the bgpmetrics engine) →
`start@<rec> <token>@<rec> …`, `<rec>` = bound,accepted,lost,disconnect,gate updates,gate dropped,set size.
Variant flags: `frame=`, `lostfin=`, `losterr=`, `discdup=`, `discmain=`, `discpeer=` `as-written` | `repaired`.
`fsmdrop=as-written` (the tree before 588c795) is not modelled: the driver answers `unmodelled-tree`. -/
open Rotonda Rotonda.BgpIn Rotonda.BgpMetrics

def words (s : String) : List String := (s.splitOn " ").filter (· ≠ "")

def parsePrefix (s : String) : Option Rib.Prefix :=
  match s.splitOn "." with
  | [f, l, b] => do
    let fam ← (if f == "4" then some Rib.Fam.v4 else if f == "6" then some Rib.Fam.v6 else none)
    some ⟨fam, ← l.toNat?, ← b.toNat?⟩
  | _ => none

def parseNlri (s : String) : Option Rib.Nlri :=
  let rest := (s.drop 1).toString
  match s.take 1 |>.toString with
  | "u" => do some ⟨← parsePrefix rest, .unicast⟩
  | "m" => do some ⟨← parsePrefix rest, .multicast⟩
  | "x" => do some ⟨← parsePrefix rest, .unsupported⟩
  | _ => none

def parseList (s : String) : Option (List Rib.Nlri) :=
  if s == "-" then some [] else (s.splitOn ",").mapM parseNlri

def parseEntry (s : String) : Option Entry :=
  match s.splitOn "~" with
  | [k, a, h] => do
    let key ← match k.splitOn ":" with
      | ["e", x] => do some (Key.exact (← x.toNat?))
      | ["p", l, b] => do some (Key.pfx (← l.toNat?) (← b.toNat?))
      | _ => none
    let asns ← if a == "a" then some (Asns.many [])
      else if a.startsWith "o" then do some (Asns.one (← (a.drop 1).toString.toNat?))
      else if a.startsWith "m" then do some (Asns.many (← ((a.drop 1).toString.splitOn "+").mapM (·.toNat?)))
      else none
    some ⟨key, asns, ← h.toNat?⟩
  | _ => none

def parseCfg (s : String) : Option (List Entry) :=
  if s.trimAscii.toString == "-" then some [] else (words s).mapM parseEntry

def parseOp (cfgs : List (List Entry)) (s : String) : Option MOp :=
  match s.splitOn ":" with
  | ["c", a, n] => do some (.base (.conn (← a.toNat?) (← n.toNat?)))
  | ["u", k, a, ann, wd] => do some (.base (.upd (← k.toNat?) (.ok (← a.toNat?) (← parseList ann) (← parseList wd))))
  | ["n", k] => do some (.base (.notif (← k.toNat?)))
  | ["x", k] => do some (.base (.fin (← k.toNat?)))
  | ["r", k] => do some (.base (.rst (← k.toNat?)))
  | ["g", k, w] => do some (.base (.garbage (← k.toNat?) (← w.toNat?)))
  | ["h", k] => do some (.base (.hold (← k.toNat?)))
  | ["t"] => some (.base .terminate)
  | ["R", c, l, a] => do
    let ci ← c.toNat?
    if cfgs.isEmpty then none else
    some (.reconf (cfgs.getD (ci % cfgs.length) []) (← l.toNat?) (← a.toNat?))
  | ["A"] => some .acceptErr
  | ["F"] => some .bindFail
  | _ => none

def showOut : MOut → String
  | .base .refused => "refused" | .base .nocfg => "nocfg" | .base .badas => "badas" | .base .rejected => "rejected"
  | .base .neg => "neg" | .base .nc => "nc"
  | .base (.sent ..) => "sent"
  | .base .lostupd => "lostupd"
  | .base .notified => "notified"
  | .base (.ended _) => "ended"
  | .base .endedQuiet => "ended"
  | .base .noend => "noend"
  | .base (.expired none) => "expired-noend"
  | .base (.expired (some _)) => "expired-ended"
  | .base (.term _) => "term-unit-ended"
  | .term .. => "term-unit-ended"
  | .reconf .. => "reconf"
  | .accErr => "accerr" | .armed => "armed" | .nc => "nc"

def showRec (m : Metrics) : String :=
  let gs := match m.exportedSetSize with | none => "-" | some n => toString n
  s!"{m.bound},{m.accepted},{m.lost},{m.disc},{m.gUpdates},{m.gDropped},{gs}"

def runCase (mv : MVariant) (line : String) : String :=
  match line.splitOn "|" with
  | ["M", link, _sf, cfgs, ops] =>
    match (cfgs.splitOn ";").mapM parseCfg with
    | some (cfg0 :: more) =>
      let all := cfg0 :: more
      match (words ops).mapM (parseOp all) with
      | some ops =>
        let rec go (s : MWorld) (ops : List MOp) (acc : List String) : List String :=
          match ops with
          | [] => acc.reverse
          | o :: os =>
            let r := mstep mv s o
            go r.1 os (s!"{showOut r.2}@{showRec r.1.m}" :: acc)
        let s0 := MWorld.init cfg0 (link.trimAscii.toString == "1")
        " ".intercalate (go s0 ops [s!"start@{showRec s0.m}"])
      | none => "bad-case"
    | _ => "bad-case"
  | _ => "bad-case"

partial def loop (f : String → String) (h : IO.FS.Stream) (out : IO.FS.Stream) : IO Unit := do
  let line ← h.getLine
  if line.isEmpty then return ()
  out.putStrLn (f (line.trimAscii.toString))
  loop f h out

def main (args : List String) : IO Unit := do
  let site (k : String) : Site := if args.contains (k ++ "=repaired") then .repaired else .asWritten
  let mv : MVariant := { frame := site "frame", lostfin := site "lostfin", losterr := site "losterr",
                         discdup := site "discdup", discmain := site "discmain", discpeer := site "discpeer",
                         rib := { overlapFix := true } }
  let unmodelled := args.contains "fsmdrop=as-written"
  loop (fun l => if unmodelled then "unmodelled-tree" else runCase mv l) (← IO.getStdin) (← IO.getStdout)
