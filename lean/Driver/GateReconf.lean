import RotondaModel.Model.GateReconf
/-! Line driver for the GateReconf model.  One case per input line:
    `ccap=<n>|<token> <token> …|…`; flags `clonesender=as-written|repaired`,
    `notifypanic=as-written|repaired`, `followedit=as-written|repaired`.  The output is `bad-step <i> <token>` if the i-th recorded
    action is not an enabled step of the model (or the command kind the real gate announced is not
    the head of the model's queue), otherwise the canonical final observation.

    Tokens are single steps, except the three `rn` forms which stand for what the real root gate
    does between two pause points of `notify_clones`: `rn*` = `rootNotify` until the notification
    is complete, `rn-` = `rootNotify` while it is enabled, then the root is parked on the head
    clone's full queue (`rootBlock`), `rn!` = `rootNotify` until the panic. -/
open Rotonda.GateReconf
open Rotonda.Gate (seqsOf)

def cmdTag : Cmd → String
  | .subscribe _ => "sub" | .unsubscribe _ => "unsub"
  | .attach _ => "att" | .detach _ => "det" | .terminate => "term" | .reconfigure _ => "reconf"
  | .followSub _ => "fsub" | .followUnsub _ => "funsub" | .followReconf => "frec"

inductive Tok where
  | one (x : Step) (kind : Option String)
  | notifyAll | notifyBlock | notifyPanic

def parseTok (t : String) : Option Tok :=
  match t.splitOn "." with
  | ["pb", p] => do some (.one (.pubBegin (← p.toNat?)) none)
  | ["pd", p, s] => do some (.one (.pubDeliver (← p.toNat?) (← s.toNat?)) none)
  | ["pe", p] => do some (.one (.pubEnd (← p.toNat?)) none)
  | ["ls", s, d, g] => do some (.one (.linkSubscribe (← s.toNat?) (← d.toNat?) (← g.toNat?)) none)
  | ["ld", s, k] => do some (.one (.linkDisconnect (← s.toNat?) (k == "1")) none)
  | ["ar"] => some (.one .agentReconfigure none)
  | ["at"] => some (.one .agentTerminate none)
  | ["rp", k] => some (.one .rootProc (some k))
  | ["rn*"] => some .notifyAll
  | ["rn-"] => some .notifyBlock
  | ["rn!"] => some .notifyPanic
  | ["cn", c] => do some (.one (.cloneNew (← c.toNat?)) none)
  | ["ca", c] => do some (.one (.cloneAttach (← c.toNat?)) none)
  | ["cp", c, k] => do some (.one (.cloneProc (← c.toNat?)) (some k))
  | ["cc", c] => do some (.one (.cloneClosed (← c.toNat?)) none)
  | ["cd", c] => do some (.one (.cloneDrop (← c.toNat?)) none)
  | _ => none

def headCmd (st : St) : Step → Option Cmd
  | .rootProc => (st.chq st.rx).head?
  | .cloneProc c => (st.pubs c).cmdq.head?
  | _ => none

/-- `rootNotify` while it is enabled (at most `fuel` times). -/
def notifyWhile (v : Variant) : Nat → St → St
  | 0, st => st
  | n + 1, st => match st.busy with
    | none => st
    | some _ => match step v st .rootNotify with
      | some st' => if st'.rootPanicked then st' else notifyWhile v n st'
      | none => st

def runTok (v : Variant) (st : St) : Tok → Option St
  | .one x k =>
    let kindOk := match k with
      | none => true
      | some k => match headCmd st x with | some c => cmdTag c == k | none => false
    if kindOk then step v st x else none
  | .notifyAll =>
    if st.busy.isNone then none else
    let st' := notifyWhile v (st.npubs + 2) st
    if st'.busy.isNone && !st'.rootPanicked then some st' else none
  | .notifyBlock =>
    if st.busy.isNone then none else
    let st' := notifyWhile v (st.npubs + 2) st
    if st'.rootPanicked then none else
    match st'.busy with
    | none => none
    | some b => if b.blocked then some st' else step v st' .rootBlock
  | .notifyPanic =>
    if st.busy.isNone then none else
    let st' := notifyWhile v (st.npubs + 2) st
    if st'.rootPanicked then some st' else none

def runChecked (v : Variant) (st : St) : List (String × Tok) → Nat → Except String St
  | [], _ => .ok st
  | (tok, x) :: xs, i =>
    match runTok v st x with
    | some st' => runChecked v st' xs (i + 1)
    | none => .error s!"bad-step {i} {tok}"

def sortNat (l : List Nat) : List Nat := (l.toArray.qsort (· < ·)).toList
def showNats (l : List Nat) : String := if l.isEmpty then "-" else ",".intercalate (l.map toString)

def showChan (st : St) (s : Nat) : String :=
  let ch := st.chans s
  if ch.acked then
    let per := (List.range st.npubs).filterMap fun p =>
      let q := seqsOf p ch.hist
      if q.isEmpty then none else some s!"{p}={showNats q}"
    s!"{s}:" ++ (if per.isEmpty then "-" else "/".intercalate per)
  else if ch.via < st.rx || !ch.open_ then s!"{s}:refused"
  else s!"{s}:pending"

def observe (st : St) : String :=
  let links := (List.range st.nslots).map (showChan st)
  let clones := (List.range st.npubs).filterMap fun c =>
    if c != 0 && (st.pubs c).alive then
      some s!"{c}:q{(st.pubs c).cmdq.length}:r{(st.pubs c).reconfSeen}:t{if (st.pubs c).terminated then 1 else 0}"
    else none
  let root :=
    if st.rootPanicked then "panic" else if st.rootTerminated then "term" else
    match st.busy with
    | some b => if b.blocked then "blocked" else "busy"
    | none => "idle"
  s!"ok G={st.rx} U={showNats (sortNat st.updates)} L=" ++ (if links.isEmpty then "-" else " ".intercalate links)
    ++ " C=" ++ (if clones.isEmpty then "-" else " ".intercalate clones)
    ++ s!" N={st.clones.length} Q={(st.chq st.rx).length} R={root} H={st.handled}"

def words (s : String) : List String := (s.splitOn " ").filter (· ≠ "")

def runCase (v : Variant) (line : String) : String :=
  match line.splitOn "|" with
  | capS :: tr :: _ =>
    match (capS.splitOn "=") with
    | ["ccap", c] =>
      match c.toNat?, (words tr).mapM (fun t => (parseTok t).map fun x => (t, x)) with
      | some cap, some toks =>
        match runChecked v (init cap) toks 0 with
        | .ok st => observe st
        | .error e => e
      | _, _ => "bad-case"
    | _ => "bad-case"
  | _ => "bad-case"

partial def loop (v : Variant) (h : IO.FS.Stream) (out : IO.FS.Stream) : IO Unit := do
  let line ← h.getLine
  if line.isEmpty then return ()
  out.putStrLn (runCase v (line.trimAscii.toString))
  loop v h out

def main (args : List String) : IO Unit := do
  let v : Variant :=
    { staleSender := args.contains "clonesender=as-written",
      notifyPanics := !args.contains "notifypanic=repaired",
      followEdits := !args.contains "followedit=repaired" }
  loop v (← IO.getStdin) (← IO.getStdout)
