import RotondaModel.Model.RibQuery
import RotondaModel.Model.RibBridge
/-! Line driver for the RIB HTTP query model (C11). One case per input line (format: see
`harness/src/bin/c11.rs`), one output line per case. Parsing/printing glue, unverified.
Lines starting with `H` (the RibBridge stream) carry a C01-style history instead of a population:
they are answered by the composed function `Bridge.httpOfHistory` (shared RIB model `run`, abstraction
`ribToQ`, then this model's `handle`). -/
open Rotonda.RibQuery

def parsePrefix (s : String) : Option Prefix :=
  match s.splitOn "/" with
  | [f, l, b] => do
    let fam ← if f == "4" then some Fam.v4 else if f == "6" then some Fam.v6 else none
    some ⟨fam, ← l.toNat?, ← b.toNat?⟩
  | _ => none

def showPrefix (p : Prefix) : String :=
  s!"{match p.fam with | .v4 => 4 | .v6 => 6}/{p.len}/{p.bits}"

def parseHops (s : String) : Option (Option (List Hop)) :=
  if s == "-" then some none
  else if s == "e" then some (some [])
  else do
    let hs ← (s.splitOn ".").mapM fun h =>
      if h == "s" then some Hop.other
      else if h.startsWith "n" then (h.drop 1).toNat?.map Hop.asn
      else none
    some (some hs)

def parseComms (s : String) : Option (List Community) :=
  if s == "-" then some [] else
  (s.splitOn ".").mapM fun c =>
    let body := (c.drop 1).toString
    match (c.take 1).toString, body.splitOn ":" with
    | "c", [a, t] => do some (.std (← a.toNat?) (← t.toNat?))
    | "l", [g, l1, l2] => do some (.large (← g.toNat?) (← l1.toNat?) (← l2.toNat?))
    | _, _ => none

/-- `<u|m>,<prefix>,<mui>,<A|W>,<aid>,<path>,<communities>` -/
def parseRec (s : String) : Option (Bool × Rec) :=
  match s.splitOn "," with
  | [st, p, mui, status, aid, path, comms] => do
    let r : Rec := {
      pfx := ← parsePrefix p, mui := ← mui.toNat?,
      status := if status == "A" then .active else .withdrawn,
      attrs := { id := ← aid.toNat?, asPath := ← parseHops path, communities := ← parseComms comms } }
    some (st == "m", r)
  | _ => none

def parseList {α} (f : String → Option α) (sep : String) (s : String) : Option (List α) :=
  if s.isEmpty then some [] else (s.splitOn sep).mapM f

def showRecs (l : List Rec) : String :=
  let key (r : Rec) : String := s!"{showPrefix r.pfx}@{r.mui}:{match r.status with | .active => "A" | .withdrawn => "W"}:{r.attrs.id}"
  -- canonical: sorted like the harness's BTreeSet<(Pfx{fam,len,bits}, mui, active, aid)>
  let lt (a b : Rec) : Bool :=
    let fa := match a.pfx.fam with | .v4 => 4 | .v6 => 6
    let fb := match b.pfx.fam with | .v4 => 4 | .v6 => 6
    let sa := match a.status with | .active => 1 | .withdrawn => 0
    let sb := match b.status with | .active => 1 | .withdrawn => 0
    let ka := [fa, a.pfx.len, a.pfx.bits, a.mui, sa, a.attrs.id]
    let kb := [fb, b.pfx.len, b.pfx.bits, b.mui, sb, b.attrs.id]
    ka < kb
  let sorted := (l.toArray.qsort lt).toList
  let dedup := sorted.eraseDups
  let body := " ".intercalate (dedup.map key)
  s!"[{body}]" ++ (if dedup.length != sorted.length then "!" else "")

def showErr : ErrKind → String
  | .badPrefix => "bad-prefix" | .badInclude => "bad-include" | .limit => "limit"
  | .badDetails => "bad-details" | .badFilterFamily => "bad-filter-family"
  | .badFilterValue => "bad-filter-value" | .badFilterOp => "bad-filter-op"
  | .unknownParams => "unknown-params" | .badFormat => "bad-format"

def showResp : Resp → String
  | .badRequest k => s!"400 ## {showErr k}"
  | .dump => "200 dump"
  | .json d l m =>
    let sec (o : Option (List Rec)) := match o with | some x => showRecs x | none => "-"
    let out := s!"200 D{showRecs d} L{sec l} M{sec m}"
    if out.contains '!' then (out.replace "!" "") ++ " dup" else out

/-! ### The `H` stream: events of `Model/Rib.lean` (tokens of `harness/src/rib.rs::Ev`) -/

namespace H
open Rotonda

def parsePfx (s : String) : Option Rib.Prefix :=
  match s.splitOn "." with
  | [f, l, b] => do
    let fam ← (if f == "4" then some Rib.Fam.v4 else if f == "6" then some Rib.Fam.v6 else none)
    some ⟨fam, ← l.toNat?, ← b.toNat?⟩
  | _ => none

def parseNlri (s : String) : Option Rib.Nlri :=
  let rest := (s.drop 1).toString
  match s.take 1 |>.toString with
  | "u" => do some ⟨← parsePfx rest, .unicast⟩
  | "m" => do some ⟨← parsePfx rest, .multicast⟩
  | "x" => do some ⟨← parsePfx rest, .unsupported⟩
  | _ => none

def parseNlris (s : String) : Option (List Rib.Nlri) :=
  if s == "-" then some [] else (s.splitOn ",").mapM parseNlri

def parseAf : String → Rib.AfiSafi
  | "v4u" => .v4u | "v6u" => .v6u | "v4m" => .v4m | "v6m" => .v6m | _ => .other

/-- An event of a history, or (for `Withdraw(id, Some(afi/safi))`, which `Ev` does not have) a bare `Update`. -/
def parseEv (s : String) : Option (Rib.Ev ⊕ Rib.Update) :=
  match s.splitOn ":" with
  | "u" :: m :: a :: ann :: wd :: _ => do
    some (.inl (.upd (← m.toNat?) (.ok (← a.toNat?) (← parseNlris ann) (← parseNlris wd))))
  | "x" :: m :: _ => do some (.inl (.upd (← m.toNat?) .malformed))
  | ["d", m] => do some (.inl (.down (← m.toNat?)))
  | ["D", ms] => if ms == "-" then some (.inl (.downBulk [])) else do some (.inl (.downBulk (← (ms.splitOn ",").mapM (·.toNat?))))
  | ["da", m, af] => do some (.inr (.withdraw (← m.toNat?) (some (parseAf af))))
  | _ => none

/-- `<aid>~<path>~<communities>`: what attribute id `aid` stands for. -/
def parseAttr (s : String) : Option (Nat × Attrs) :=
  match s.splitOn "~" with
  | [a, path, comms] => do
    let id ← a.toNat?
    some (id, { id := id, asPath := ← parseHops path, communities := ← parseComms comms })
  | _ => none

def interp (tab : List (Nat × Attrs)) : Bridge.AttrInterp := fun a =>
  match tab.lookup a with
  | some x => x
  | none => ⟨a, some [], []⟩

def run (vr : Rib.Variant) (v : Variant) (lim : Limits) (reg : Register) (tab : List (Nat × Attrs))
    (evs : List (Rib.Ev ⊕ Rib.Update)) (url : Url) (obsU obsM : List Prefix) : Resp :=
  let hist := evs.filterMap fun e => match e with | .inl ev => some ev | .inr _ => none
  if hist.length == evs.length then
    -- the composed function of the theorems
    Bridge.httpOfHistory vr v (interp tab) hist lim reg url obsU obsM
  else
    Bridge.httpOfUpdates vr v (interp tab)
      (evs.flatMap fun e => match e with | .inl ev => ev.updates vr | .inr u => [u]) lim reg url obsU obsM

end H

def parseLimits (l : String) : Option Limits :=
  match (l.drop 1).toString.splitOn "," with
  | [a, b] => do some (Limits.mk (← a.toNat?) (← b.toNat?))
  | _ => none

def parseReg (i : String) : Option Register :=
  parseList (fun e => match e.splitOn ":" with
    | [id, a] => do some ((← id.toNat?), if a == "-" then none else a.toNat?)
    | _ => none) "," (i.drop 1).toString

def runHCase (vr : Rotonda.Rib.Variant) (v : Variant) (line : String) : String :=
  match line.splitOn "|" with
  | l :: i :: a :: e :: _p :: x :: s :: qs =>
    let q := "|".intercalate qs
    let res : Option String := do
      let lim ← parseLimits l
      let reg ← parseReg i
      let tab ← parseList H.parseAttr ";" (a.drop 1).toString
      let evs ← (((e.drop 1).toString.splitOn " ").filter (· ≠ "")).mapM H.parseEv
      let xs := (x.drop 1).toString
      let pfx ← if xs == "bad" then some none else (parsePrefix xs).map some
      let (obsU, obsM) ← match (s.drop 1).toString.splitOn "~" with
        | [u, m] => do some ((← parseList parsePrefix "," u), (← parseList parsePrefix "," m))
        | _ => none
      let params := parseQuery (q.drop 1).toString.toList
      some (showResp (H.run vr v lim reg tab evs ⟨pfx, params⟩ obsU obsM))
    res.getD "bad-case"
  | _ => "bad-case"

def runCase (v : Variant) (line : String) : String :=
  match line.splitOn "|" with
  | l :: i :: r :: w :: _p :: x :: s :: qs =>
    let q := "|".intercalate qs
    let res : Option String := do
      let lim ← match (l.drop 1).toString.splitOn "," with
        | [a, b] => do some (Limits.mk (← a.toNat?) (← b.toNat?))
        | _ => none
      let reg ← parseList (fun e => match e.splitOn ":" with
        | [id, a] => do some ((← id.toNat?), if a == "-" then none else a.toNat?)
        | _ => none) "," (i.drop 1).toString
      let recs ← parseList parseRec ";" (r.drop 1).toString
      -- `W<mui>,…[;<u|m><prefix>,…]`: store-wide withdrawn ids, then the record-less prefix slots
      let (wds, slots) := match (w.drop 1).toString.splitOn ";" with
        | [a, b] => (a, b)
        | a :: _ => (a, "")
        | [] => ("", "")
      let wd ← parseList (·.toNat?) "," wds
      let empties ← parseList (fun t => do some ((t.take 1).toString == "m", ← parsePrefix (t.drop 1).toString)) "," slots
      let rib : Rib := {
        unicast := ⟨(recs.filter (!·.1)).map (·.2), wd, (empties.filter (!·.1)).map (·.2)⟩,
        multicast := ⟨(recs.filter (·.1)).map (·.2), wd, (empties.filter (·.1)).map (·.2)⟩ }
      let xs := (x.drop 1).toString
      let pfx ← if xs == "bad" then some none else (parsePrefix xs).map some
      let (obsU, obsM) ← match (s.drop 1).toString.splitOn "~" with
        | [u, m] => do some ((← parseList parsePrefix "," u), (← parseList parsePrefix "," m))
        | _ => none
      let params := parseQuery (q.drop 1).toString.toList
      some (showResp (handle v rib lim reg ⟨pfx, params⟩ obsU obsM))
    res.getD "bad-case"
  | _ => "bad-case"

partial def loop (vr : Rotonda.Rib.Variant) (v : Variant) (h : IO.FS.Stream) (out : IO.FS.Stream) : IO Unit := do
  let line ← h.getLine
  if line.isEmpty then return ()
  let line := line.trimAscii.toString
  out.putStrLn (if line.startsWith "H" then runHCase vr v line else runCase v line)
  loop vr v h out

def main (args : List String) : IO Unit := do
  let v : Variant := {
    community := args.contains "community=repaired"
    lesszero := args.contains "lesszero=repaired"
    mcast := args.contains "mcast=repaired"
    more := args.contains "more=contract"
    lessstop := args.contains "lessstop=repaired" }
  -- the shared RIB model's defect-site switches (as `rmodel-rib`): C01 overlap, C03 flap
  let vr : Rotonda.Rib.Variant := {
    overlapFix := args.contains "overlap=repaired"
    perRecordWithdraw := args.contains "flap=repaired" }
  loop vr v (← IO.getStdin) (← IO.getStdout)
