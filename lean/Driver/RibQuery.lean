import RotondaModel.Model.RibQuery
/-! Line driver for the RIB HTTP query model (C11). One case per input line (format: see
`harness/src/bin/c11.rs`), one output line per case. Parsing/printing glue, unverified. -/
open Rotonda.RibQuery

def parsePrefix (s : String) : Option Prefix :=
  match s.splitOn "/" with
  | [f, l, b] => do
    let fam ← if f == "4" then some Fam.v4 else if f == "6" then some Fam.v6 else none
    some ⟨fam, ← l.toNat?, ← b.toNat?⟩
  | _ => none

def showPrefix (p : Prefix) : String :=
  s!"{match p.fam with | .v4 => 4 | .v6 => 6}/{p.len}/{p.bits}"

def parseHops (s : String) : Option (Option (List Hop)) :=
  if s == "-" then some none
  else if s == "e" then some (some [])
  else do
    let hs ← (s.splitOn ".").mapM fun h =>
      if h == "s" then some Hop.other
      else if h.startsWith "n" then (h.drop 1).toNat?.map Hop.asn
      else none
    some (some hs)

def parseComms (s : String) : Option (List Community) :=
  if s == "-" then some [] else
  (s.splitOn ".").mapM fun c =>
    let body := (c.drop 1).toString
    match (c.take 1).toString, body.splitOn ":" with
    | "c", [a, t] => do some (.std (← a.toNat?) (← t.toNat?))
    | "l", [g, l1, l2] => do some (.large (← g.toNat?) (← l1.toNat?) (← l2.toNat?))
    | _, _ => none

/-- `<u|m>,<prefix>,<mui>,<A|W>,<aid>,<path>,<communities>` -/
def parseRec (s : String) : Option (Bool × Rec) :=
  match s.splitOn "," with
  | [st, p, mui, status, aid, path, comms] => do
    let r : Rec := {
      pfx := ← parsePrefix p, mui := ← mui.toNat?,
      status := if status == "A" then .active else .withdrawn,
      attrs := { id := ← aid.toNat?, asPath := ← parseHops path, communities := ← parseComms comms } }
    some (st == "m", r)
  | _ => none

def parseList {α} (f : String → Option α) (sep : String) (s : String) : Option (List α) :=
  if s.isEmpty then some [] else (s.splitOn sep).mapM f

def showRecs (l : List Rec) : String :=
  let key (r : Rec) : String := s!"{showPrefix r.pfx}@{r.mui}:{match r.status with | .active => "A" | .withdrawn => "W"}:{r.attrs.id}"
  -- canonical: sorted like the harness's BTreeSet<(Pfx{fam,len,bits}, mui, active, aid)>
  let lt (a b : Rec) : Bool :=
    let fa := match a.pfx.fam with | .v4 => 4 | .v6 => 6
    let fb := match b.pfx.fam with | .v4 => 4 | .v6 => 6
    let sa := match a.status with | .active => 1 | .withdrawn => 0
    let sb := match b.status with | .active => 1 | .withdrawn => 0
    let ka := [fa, a.pfx.len, a.pfx.bits, a.mui, sa, a.attrs.id]
    let kb := [fb, b.pfx.len, b.pfx.bits, b.mui, sb, b.attrs.id]
    ka < kb
  let sorted := (l.toArray.qsort lt).toList
  let dedup := sorted.eraseDups
  let body := " ".intercalate (dedup.map key)
  s!"[{body}]" ++ (if dedup.length != sorted.length then "!" else "")

def showErr : ErrKind → String
  | .badPrefix => "bad-prefix" | .badInclude => "bad-include" | .limit => "limit"
  | .badDetails => "bad-details" | .badFilterFamily => "bad-filter-family"
  | .badFilterValue => "bad-filter-value" | .badFilterOp => "bad-filter-op"
  | .unknownParams => "unknown-params" | .badFormat => "bad-format"

def showResp : Resp → String
  | .badRequest k => s!"400 ## {showErr k}"
  | .dump => "200 dump"
  | .json d l m =>
    let sec (o : Option (List Rec)) := match o with | some x => showRecs x | none => "-"
    let out := s!"200 D{showRecs d} L{sec l} M{sec m}"
    if out.contains '!' then (out.replace "!" "") ++ " dup" else out

def runCase (v : Variant) (line : String) : String :=
  match line.splitOn "|" with
  | l :: i :: r :: w :: _p :: x :: s :: qs =>
    let q := "|".intercalate qs
    let res : Option String := do
      let lim ← match (l.drop 1).toString.splitOn "," with
        | [a, b] => do some (Limits.mk (← a.toNat?) (← b.toNat?))
        | _ => none
      let reg ← parseList (fun e => match e.splitOn ":" with
        | [id, a] => do some ((← id.toNat?), if a == "-" then none else a.toNat?)
        | _ => none) "," (i.drop 1).toString
      let recs ← parseList parseRec ";" (r.drop 1).toString
      let wd ← parseList (·.toNat?) "," (w.drop 1).toString
      let rib : Rib := {
        unicast := ⟨(recs.filter (!·.1)).map (·.2), wd⟩,
        multicast := ⟨(recs.filter (·.1)).map (·.2), wd⟩ }
      let xs := (x.drop 1).toString
      let pfx ← if xs == "bad" then some none else (parsePrefix xs).map some
      let (obsU, obsM) ← match (s.drop 1).toString.splitOn "~" with
        | [u, m] => do some ((← parseList parsePrefix "," u), (← parseList parsePrefix "," m))
        | _ => none
      let params := parseQuery (q.drop 1).toString.toList
      some (showResp (handle v rib lim reg ⟨pfx, params⟩ obsU obsM))
    res.getD "bad-case"
  | _ => "bad-case"

partial def loop (v : Variant) (h : IO.FS.Stream) (out : IO.FS.Stream) : IO Unit := do
  let line ← h.getLine
  if line.isEmpty then return ()
  out.putStrLn (runCase v (line.trimAscii.toString))
  loop v h out

def main (args : List String) : IO Unit := do
  let v : Variant := {
    community := args.contains "community=repaired"
    lesszero := args.contains "lesszero=repaired"
    mcast := args.contains "mcast=repaired"
    more := args.contains "more=contract" }
  loop v (← IO.getStdin) (← IO.getStdout)
