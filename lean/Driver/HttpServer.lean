import RotondaModel.Model.HttpServer
import RotondaModel.Model.HttpRegistry
/-! Line driver for the HttpServer model (production HTTP server; attached to C12). One connection per line.

case  := reg '|' shape '|' stream '|' deps '|' meta
reg, deps as in `Driver/Http.lean` (copied: that module has its own `main`); stream := 'x' (two hex digits)*
= every byte the client sends on the connection; `shape` (how the bytes are put on the wire) and `meta`
(the generator's item boundaries) do not concern the model, except that for shape `half-now` (the client shuts its
sending side down right after its last byte: what hyper still answers depends on timing) the line is `race`.

output := (resp ' ')* 'end:' ('closed' | 'h2')      resp := ver '/' status '/g' bit '/' ('k' | '-') '/' ('h' | 'r1' | 'r0' | '-')
-/
open Rotonda.Http Rotonda.HttpServer

def hexNib (c : UInt8) : Option Nat :=
  if 48 ≤ c && c ≤ 57 then some (c.toNat - 48)
  else if 97 ≤ c && c ≤ 102 then some (c.toNat - 87)
  else none

/-- hex pairs of `ba` from `start` on, built back to front (tail recursive: streams of a megabyte) -/
def parseHexFrom (ba : ByteArray) (start : Nat) : Option Bytes :=
  let n := ba.size - start
  if n % 2 ≠ 0 then none
  else
    let rec go : Nat → Bytes → Option Bytes
      | 0, acc => some acc
      | k + 1, acc =>
        match hexNib (ba.get! (start + 2 * k)), hexNib (ba.get! (start + 2 * k + 1)) with
        | some h, some l => go k ((h * 16 + l) :: acc)
        | _, _ => none
    go (n / 2) []

def parseHex (s : String) : Option Bytes :=
  let ba := s.toUTF8
  if ba.size ≥ 1 && ba.get! 0 == 120 then parseHexFrom ba 1 else none

def parseProc (s : String) : Option Proc :=
  match s.splitOn ":" with
  | ["T"] => some .tracer
  | ["G"] => some (.graph false)
  | ["Ge"] => some (.graph true)
  | ["L", b] => do some (.routerList (← parseHex b))
  | ["D"] => some .dead
  | ["R", b, v4, v6] => do some (.rib (← parseHex b) (← v4.toNat?) (← v6.toNat?))
  | ["M", b, d] => do some (.mrt (← parseHex b) (d == "1"))
  | _ => none

def parseReg (s : String) : Option Registry :=
  match s.splitOn ";" with
  | z :: procs => do
    let ps ← procs.mapM parseProc
    if z == "z1" then some ⟨true, ps⟩ else if z == "z0" then some ⟨false, ps⟩ else none
  | [] => none

structure DepTab where
  p : List (Bytes × PfxRes) := []
  a : List (Bytes × PRes) := []
  c : List (Bytes × PRes) := []
  f : List (Bytes × FsRes) := []

def parsePRes (r : String) : Option PRes :=
  if r == "1" then some .ok else if r == "0" then some .err else if r == "p" then some .panic else none

def parseDep (t : DepTab) (s : String) : Option DepTab :=
  match s.splitOn "=" with
  | [kv, r] =>
    match kv.splitOn ":" with
    | ["p", h] => do
      let k ← parseHex h
      let v ← (if r == "e" then some PfxRes.err else
        match r.splitOn "." with
        | ["4", l] => do some (PfxRes.ok true (← l.toNat?))
        | ["6", l] => do some (PfxRes.ok false (← l.toNat?))
        | _ => none)
      some { t with p := (k, v) :: t.p }
    | ["a", h] => do some { t with a := ((← parseHex h), (← parsePRes r)) :: t.a }
    | ["c", h] => do some { t with c := ((← parseHex h), (← parsePRes r)) :: t.c }
    | ["f", h] => do
      let k ← parseHex h
      let v ← (if r == "m" then some FsRes.missing else if r == "o" then some FsRes.outside
               else if r == "i" then some FsRes.inside else none)
      some { t with f := (k, v) :: t.f }
    | _ => none
  | _ => none

def lookupD {β} (k : Bytes) (dflt : β) : List (Bytes × β) → β
  | [] => dflt
  | e :: l => if e.1 == k then e.2 else lookupD k dflt l

def mkDeps (t : DepTab) (alt : Bool) : Deps where
  pfx k := lookupD k (if alt then .ok true 24 else .err) t.p
  asn k := lookupD k (if alt then .ok else .err) t.a
  community k := lookupD k (if alt then .ok else .err) t.c
  fs k := lookupD k (if alt then .inside else .missing) t.f

def showOut : Out → String
  | .resp r =>
    let v := if r.v11 then "11" else "10"
    let g := if r.gzip then "g1" else "g0"
    let k := if r.connKA then "k" else "-"
    let b := if r.headOnly then "h" else if r.status == 400 then (if r.reason then "r1" else "r0") else "-"
    s!"{v}/{r.status}/{g}/{k}/{b}"
  | .err v11 code => s!"{if v11 then "11" else "10"}/{code}/g0/-/{if code == 400 then "r0" else "-"}"
  | .h2 => "H2"
  | .dropped _ => "DROPPED"
  | .unsupported => "UNSUPPORTED"

def showOuts (os : List Out) : String :=
  if os.contains .unsupported then "unsupported"
  else
    let toks := (os.filter fun o => o != .h2 && (match o with | .dropped _ => false | _ => true)).map showOut
    let e := if os.contains .h2 then "end:h2" else "end:closed"
    " ".intercalate (toks ++ [e])

def words (s : String) : List String := (s.splitOn " ").filter (· ≠ "")

/-! registry churn cases: `R|<mode>|ev ev …` (ev := 'r' id '.' ('s'|'n') '.' claims | 'd' id | 'q' path | 'b' path | 'f') -/
namespace RegistryDriver
open Rotonda.HttpRegistry

def parseEv (t : String) : Option Ev :=
  match t.toList with
  | 'r' :: rest =>
    match (String.ofList rest).splitOn "." with
    | [id, sub, claims] => do
      let cs ← (if claims == "" then some [] else (claims.splitOn "+").mapM (·.toNat?))
      some (.reg (← id.toNat?) (sub == "s") cs)
    | _ => none
  | 'd' :: rest => (String.ofList rest).toNat?.map Ev.drop
  | 'q' :: rest => (String.ofList rest).toNat?.map Ev.req
  | 'b' :: rest => (String.ofList rest).toNat?.map Ev.begin
  | ['f'] => some .finish
  | _ => none

def showAns : Ans → String
  | .proc id => s!"P{id}"
  | .notFound => "404"
  | .fixed => "S"

def runLine (line : String) : String :=
  match line.splitOn "|" with
  | [_, _, evs] =>
    match ((evs.splitOn " ").filter (· ≠ "")).mapM parseEv with
    | some h => " ".intercalate ((answers h).map showAns)
    | none => "bad-case"
  | _ => "bad-case"
end RegistryDriver

def runCase (v : Rotonda.HttpServer.Variant) (line : String) : String :=
  if line.startsWith "R|" then RegistryDriver.runLine line else
  match line.splitOn "|" with
  | [reg, shape, stream, deps, _meta] =>
    if shape == "listen-conflict" then "listen-conflict"
    else if shape.startsWith "half-now" then "race"
    else
      match parseReg reg, parseHex stream,
            (if deps == "-" then some {} else (words deps).foldlM parseDep ({} : DepTab)) with
      | some reg, some stream, some t =>
        let o1 := serve { v := v, d := mkDeps t false, reg := reg } stream
        let o2 := serve { v := v, d := mkDeps t true, reg := reg } stream
        if o1 == o2 then showOuts o1 else "dep-missing"
      | _, _, _ => "bad-case"
  | _ => "bad-case"

partial def loop (v : Rotonda.HttpServer.Variant) (h : IO.FS.Stream) (out : IO.FS.Stream) : IO Unit := do
  let line ← h.getLine
  if line.isEmpty then return ()
  out.putStrLn (runCase v (line.trimAscii.toString))
  loop v h out

def main (args : List String) : IO Unit := do
  let hv : Rotonda.Http.Variant := {
    aeUnwrap := args.contains "ae=as-written",
    graphSplit := args.contains "graph=as-written",
    graphEmpty := args.contains "graphempty=as-written",
    depPanic := args.contains "deppanic=as-written" }
  let v : Rotonda.HttpServer.Variant := { http := hv, aeGzip := !args.contains "aegzip=repaired" }
  loop v (← IO.getStdin) (← IO.getStdout)
