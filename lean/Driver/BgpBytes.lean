import RotondaModel.Model.BgpBytes
/-! Line driver for `Model/BgpBytes.lean`. One case per input line:
`Y|<d|n>|<A|S|C|E>|<allowed AS or ->|<split>|<hex chunk> <hex chunk> …` (the case syntax of the bgpbytes engine; the stream is
the concatenation of the chunks, followed by end of input) →
`tx=<O,K,N<code>.<sub>…|-> rx=<B<n>,B?,W…|-> live=<0|1> panic=<site|-> ## <stop reason>`.
Variant flags: `frame=`, `capiter=`, `asn4=`, `fsmopen=`, `notiflog=` `as-written` | `repaired`; `build=checked|wrapping`. -/
open Rotonda Rotonda.BgpBytes

def hexVal (c : Char) : Option Nat :=
  if '0' ≤ c && c ≤ '9' then some (c.toNat - '0'.toNat)
  else if 'a' ≤ c && c ≤ 'f' then some (c.toNat - 'a'.toNat + 10)
  else if 'A' ≤ c && c ≤ 'F' then some (c.toNat - 'A'.toNat + 10)
  else none

def parseHex : List Char → Option Bytes
  | [] => some []
  | a :: b :: rest => do
    let x ← hexVal a
    let y ← hexVal b
    let r ← parseHex rest
    some ((x * 16 + y) :: r)
  | _ => none

def showSite : Site → String
  | .frameLen => "frameLen" | .paramIter => "paramIter" | .capIter => "capIter" | .capSub => "capSub"
  | .asn4 => "asn4" | .fsmOpenConfirm => "fsmOpenConfirm" | .fsmEstablished => "fsmEstablished"
  | .notifDetails => "notifDetails"

def showStop : Stop → String
  | .tickErr => "tick-err" | .fsmDropped => "fsm-dropped" | .procBreak => "proc-break" | .lost => "lost"
  | .panic s => "panic-" ++ showSite s

def isTx : Ev → Bool
  | .txOpen | .txKeepalive | .txNotif _ _ => true
  | _ => false

def showEv : Ev → String
  | .txOpen => "O" | .txKeepalive => "K" | .txNotif c s => s!"N{c}.{s}"
  | .bulk n => s!"B{n}" | .bulkMp => "B?" | .withdraw => "W" | .stalled n => s!"STALL{n}"

def commaOr (l : List String) : String := if l.isEmpty then "-" else ",".intercalate l

def runCase (v : Variant) (line : String) : String :=
  match line.splitOn "|" with
  | ["Y", lg, st, al, _split, chunks] =>
    let fsm? : Option Fsm := match st with
      | "A" => some .active | "S" => some .openSent | "C" => some .openConfirm | "E" => some .established | _ => none
    let allowed? : Option (Option Nat) := if al == "-" then some none else al.toNat?.map some
    let bytes? : Option Bytes := ((chunks.splitOn " ").filter (· ≠ "")).foldl
      (fun acc c => do let a ← acc; let b ← parseHex c.toList; some (a ++ b)) (some [])
    match fsm?, allowed?, bytes? with
    | some fsm, some allowed, some bytes =>
      let r := run v { debug := lg == "d", allowed := allowed } (Sess.start fsm) bytes
      let tx := (r.evs.filter isTx).map showEv
      let rx := (r.evs.filter (fun e => !isTx e)).map showEv
      let pn := match r.stop with | .panic s => showSite s | _ => "-"
      s!"tx={commaOr tx} rx={commaOr rx} live={if r.live then 1 else 0} panic={pn} ## {showStop r.stop}"
    | _, _, _ => "bad-case"
  | _ => "bad-case"

def flag (args : List String) (k : String) : Bool := args.contains (k ++ "=repaired")

partial def mainLoop (v : Variant) (h : IO.FS.Stream) (out : IO.FS.Stream) : IO Unit := do
  let line ← h.getLine
  if line.isEmpty then return ()
  let l := line.trimAscii.toString
  if l ≠ "" then out.putStrLn (runCase v l)
  mainLoop v h out

def main (args : List String) : IO Unit := do
  let v : Variant := { frame := flag args "frame", capiter := flag args "capiter", asn4 := flag args "asn4",
                       fsmopen := flag args "fsmopen", notiflog := flag args "notiflog",
                       checked := !args.contains "build=wrapping" }
  mainLoop v (← IO.getStdin) (← IO.getStdout)
