import RotondaModel.Model.Roto
/-! Line driver for the roto-filter model (C10). One case per input line, one output line per case.
    Parsing/printing glue only; every decision is taken by `Model/Roto.lean`. -/
open Rotonda.Roto

def words (s : String) : List String := (s.splitOn " ").filter (· ≠ "")

def dotsOf (s : String) : List String := if s == "-" then [] else s.splitOn "."

def parsePfx (s : String) : Option Pfx :=
  match s.splitOn "/" with
  | [fa, l] =>
    match fa.splitOn "." with
    | [f, a] => do some ⟨← f.toNat?, ← a.toNat?, ← l.toNat?⟩
    | _ => none
  | _ => none

def showPfx (p : Pfx) : String := s!"{p.fam}.{p.addr}/{p.len}"

def parseConst (s : String) : Option Const :=
  let r := (s.drop 1).toString
  match (s.take 1).toString with
  | "a" => r.toNat?.map .asn
  | "c" => r.toNat?.map .comm
  | "p" => (parsePfx r).map .pfx
  | "u" => r.toNat?.map .u8
  | _ => none

def parseArg (s : String) : Option Arg :=
  match (s.take 1).toString with
  | "l" => (parseConst (s.drop 1).toString).map .lit
  | "v" => (s.drop 1).toString.toNat?.map .var
  | _ => none

def parsePred : List String → Option (Pred × List String)
  | "ac" :: a :: r => (parseArg a).map fun x => (.aspathContains x, r)
  | "or" :: a :: r => (parseArg a).map fun x => (.originIs x, r)
  | "hc" :: a :: r => (parseArg a).map fun x => (.hasComm x, r)
  | "ha" :: a :: r => (parseArg a).map fun x => (.hasAttr x, r)
  | "pa" :: a :: r => (parseArg a).map fun x => (.peerAsnIs x, r)
  | "ib" :: a :: r => (parseArg a).map fun x => (.isIbgp x, r)
  | "px" :: a :: r => (parseArg a).map fun x => (.prefixIs x, r)
  | "rm" :: r => some (.isRouteMon, r)
  | "pd" :: r => some (.isPeerDown, r)
  | _ => none

partial def parseCond : List String → Option (Cond × List String)
  | "t" :: r => some (.tt, r)
  | "f" :: r => some (.ff, r)
  | "p" :: r => (parsePred r).map fun (p, r) => (.pred p, r)
  | "~" :: r => (parseCond r).map fun (c, r) => (.not c, r)
  | "*" :: r => do let (a, r) ← parseCond r; let (b, r) ← parseCond r; some (.and a b, r)
  | "+" :: r => do let (a, r) ← parseCond r; let (b, r) ← parseCond r; some (.or a b, r)
  | _ => none

def parseOut : List String → Option (OutCall × List String)
  | "lp" :: a :: r => (parseArg a).map fun x => (.logPrefix x, r)
  | "la" :: a :: r => (parseArg a).map fun x => (.logAsn x, r)
  | "lo" :: a :: r => (parseArg a).map fun x => (.logOrigin x, r)
  | "lc" :: a :: r => (parseArg a).map fun x => (.logComm x, r)
  | "pd" :: r => some (.logPeerDown, r)
  | "we" :: r => some (.writeEntry, r)
  | "cu" :: i :: v :: r => do some (.logCustom (← i.toNat?) (← v.toNat?), r)
  | _ => none

partial def parseProg : List String → Option (Prog × List String)
  | "A" :: r => some (.ret .accept, r)
  | "R" :: r => some (.ret .reject, r)
  | "F" :: r => some (.fall, r)
  | "O" :: r => do let (o, r) ← parseOut r; let (k, r) ← parseProg r; some (.out o k, r)
  | "I" :: r => do let (c, r) ← parseCond r; let (t, r) ← parseProg r; let (e, r) ← parseProg r; some (.ite c t e, r)
  | "B" :: r => do let (b, r) ← parseProg r; let (k, r) ← parseProg r; some (.blk b k, r)
  | _ => none

/-- `-` is "no filter installed" -/
def parseProgram (s : String) : Option (Option Program) :=
  if s == "-" then some none else
  match words s with
  | l :: r => do
    let n ← (l.drop 1).toString.toNat?
    let lets ← (r.take n).mapM parseConst
    let (body, rest) ← parseProg (r.drop n)
    if rest.isEmpty && body.closed then some (some ⟨lets, body⟩) else none
  | [] => none

def kvs (s : String) : List (String × String) :=
  (words s).filterMap fun t => match t.splitOn "=" with | [k, v] => some (k, v) | _ => none

def look (kv : List (String × String)) (k : String) : Option String := (kv.find? (·.1 == k)).map (·.2)

def parseHop (s : String) : Option Hop :=
  if (s.take 1).toString == "s" then (((s.drop 1).toString.splitOn ":").mapM fun (x : String) => x.toNat?).map .seg
  else s.toNat?.map .asn

def parsePfxs (s : String) : Option (List Pfx) := if s == "-" then some [] else (s.splitOn ",").mapM parsePfx

structure UpdLine where
  upd : Upd
  nlri : List Pfx
  wd : List Pfx

def parseUpd (kv : List (String × String)) : Option UpdLine := do
  let h ← look kv "h"
  let aspath ← if h == "~" then some none else ((dotsOf h).mapM parseHop).map some
  let comms ← (dotsOf (← look kv "c")).mapM (·.toNat?)
  let attrs ← (dotsOf (← look kv "t")).mapM (·.toNat?)
  some ⟨⟨aspath, comms, attrs⟩, ← parsePfxs (← look kv "n"), ← parsePfxs (← look kv "w")⟩

def parseKind : String → Option BmpKind
  | "init" => some .initiation | "pu" => some .peerUp | "pd" => some .peerDown
  | "rm" => some .routeMon | "st" => some .stats | "tm" => some .termination | _ => none

def parseBgp (kv : List (String × String)) : Option BgpIn := do
  some ⟨(← parseUpd kv).upd, ← (← look kv "asn").toNat?⟩

def parseBmp (kv : List (String × String)) : Option BmpIn := do
  let k ← parseKind (← look kv "k")
  let pa := (← look kv "pa").toNat?
  let u ← parseUpd kv
  some ⟨k, pa, (← look kv "lg") == "1", if k = .routeMon then some u.upd else none, ← (← look kv "prov").toNat?⟩

/-- routes of an UPDATE in `explode_announcements ++ explode_withdrawals` order -/
def routesOf (u : UpdLine) : List RouteIn :=
  u.nlri.map (fun p => ⟨p, some u.upd⟩) ++ u.wd.map (fun p => ⟨p, none⟩)

def showOutput : Output → String
  | .prefix p => s!"pfx:{showPfx p}"
  | .asn n => s!"asn:{n}"
  | .origin n => s!"org:{n}"
  | .community n => s!"com:{n}"
  | .peerDown => "pd"
  | .custom i v => s!"cus:{i}:{v}"
  | .entry => "ent"

def showOsm : Osm → String
  | .prefix => "prefix" | .community => "community" | .asn => "asn" | .origin => "origin"
  | .peerDown => "peerdown" | .custom i v => s!"custom:{i}:{v}" | .entry => "log_entry"

def showObs (r : Verdict × List Output) : String :=
  (if r.1 = .accept then "A " else "R ") ++ (if r.2.isEmpty then "-" else ",".intercalate (r.2.map showOutput))

def showDown (showF : F → String) : Down F → String
  | .os ms => "os(" ++ ",".intercalate (ms.map showOsm) ++ ")"
  | .fwd f => showF f

def showDowns (showF : F → String) (ds : List (Down F)) : String :=
  if ds.isEmpty then "-" else " ".intercalate (ds.map (showDown showF))

def commaList (s : String) : List String := if s == "-" then [] else s.splitOn ","

def runF (v : Variant) (unit prog input : String) : Option String := do
  let p ← (← parseProgram prog)
  let kv := kvs input
  match unit with
  | "bgp" => some (showObs (bgpFilter p (← parseBgp kv)))
  | "bmp" => some (showObs (bmpFilter v p (← parseBmp kv)))
  | "rib" =>
    let u ← parseUpd kv
    let r ← (routesOf u)[(← (← look kv "i").toNat?)]?
    some (showObs (ribInPre p r))
  | _ => none

def runHBgp (v : Variant) (prog input : String) : Option String := do
  let p ← parseProgram prog
  let kv := kvs input
  let i ← parseBgp kv
  let nf := commaList (← look kv "nf")
  let r := bgpHandle (σ := Unit) (F := String) v p (fun s _ => (s, nf)) () i
  some (showDowns id r.2)

/-- per message: the unfiltered behaviour recorded from the twin (`nf=<state>~<downs>`), `-` if the twin did not see it -/
def runHBmp (v : Variant) (prog msgs : String) : Option String := do
  let p ← parseProgram prog
  let step (st : String) (m : String) : Option (String × String) := do
    let kv := kvs m
    let i ← parseBmp kv
    let process : String → BmpIn → String × List String := fun _ _ =>
      match (look kv "nf").map (·.splitOn "~") with
      | some [s, d] => (s, commaList d)
      | _ => ("?", ["?"])
    let r := bmpHandle v p process st i
    some (r.1, s!"{r.1} {showDowns id r.2}")
  let rec go (st : String) : List String → Option (List String)
    | [] => some []
    | m :: ms => do let (st', o) ← step st m; some (o :: (← go st' ms))
  some (" ; ".intercalate (← go "0/unknown" (msgs.splitOn ";")))

def runHRib (v : Variant) (prog input : String) : Option String := do
  let p ← parseProgram prog
  let kv := kvs input
  let u ← parseUpd kv
  let routes := routesOf u
  let idx : List (Nat × RouteIn) := (List.range routes.length).zip routes
  let r := ribFilter (σ := List Nat) v.pdRib (p.map fun prog => fun (x : Nat × RouteIn) => ribInPre prog x.2)
    (fun s x => s ++ [x.1]) [] idx
  -- RIB content per prefix. The engine seeds every to-be-withdrawn prefix as active beforehand, so:
  -- announcement inserted -> A, not inserted -> absent; withdrawal inserted -> W, not inserted -> still A.
  let content := idx.map fun x =>
    if x.2.upd.isSome then (if r.1.contains x.1 then "A" else "-") else (if r.1.contains x.1 then "W" else "A")
  let showF : RibFwd (Nat × RouteIn) → String
    | .single _ => "single"
    | .bulk ps => s!"bulk:{ps.length}"
  some (s!"{",".intercalate content} {showDowns showF r.2}")

def parseVariant (args : List String) : Variant :=
  { pdBgp := args.contains "pd_bgp=repaired", pdBmp := args.contains "pd_bmp=repaired",
    pdRib := args.contains "pd_rib=repaired", asWidth := args.contains "as_width=repaired" }

def runCase (v : Variant) (line : String) : String :=
  let r := match line.splitOn "|" with
    | ["F", unit, prog, input] => runF v unit prog input
    | ["H", "bgp", prog, input] => runHBgp v prog input
    | ["H", "bmp", prog, msgs] => runHBmp v prog msgs
    | ["H", "rib", prog, input] => runHRib v prog input
    | _ => none
  r.getD "bad-case"

partial def loop (v : Variant) (h : IO.FS.Stream) (out : IO.FS.Stream) : IO Unit := do
  let line ← h.getLine
  if line.isEmpty then return ()
  out.putStrLn (runCase v (line.trimAscii.toString))
  loop v h out

def main (args : List String) : IO Unit := do
  loop (parseVariant args) (← IO.getStdin) (← IO.getStdout)
