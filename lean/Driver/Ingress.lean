import RotondaModel.Model.Ingress
/-! Line driver for the ingress `Register` model (C14). One case per input line, one output line per case.

Case kinds (fields separated by `|`):
* `seq|<serial>|<ops>|<probe ids>`                       a sequential history
* `conc|<serial>|<ops>|<prog>/<prog>/…|<sched>|<probes>`   set-up history, thread programs, the recorded linearization
* `site|<serial>|<ops>|<micro prog>/…|<sched>|<probes>`    call-site programs as separate atomic steps
* `peerup|…` same fields as `site`: the real `PeerStates::add_peer_config` call site (only the table is printed)

Op syntax: `R` · `U.<id>.<info>` · `G.<id>` · `K.<parent>` · `F.<p|r>.<info>.<hint>` · `A.<p|r>.<info>.<hint>`;
micro ops: `f.<p|r>.<info>.<hint>` · `r` · `u.<info>`; `<info>` = eight `,`-separated fields, `-` = None.
-/
open Rotonda.Ingress

def M32 : Nat := 4294967296

def words (s : String) : List String := (s.splitOn " ").filter (· ≠ "")

def parseOpt (s : String) : Option (Option Nat) :=
  if s == "-" then some none else s.toNat?.map some

def parseInfo (s : String) : Option Info :=
  match (s.splitOn ",").mapM parseOpt with
  | some [a, b, c, d, e, f, g, h] => some ⟨a, b, c, d, e, f, g, h⟩
  | _ => none

def parseLvl (s : String) : Option Level :=
  if s == "p" then some .peer else if s == "r" then some .router else none

def parseOp (s : String) : Option Op :=
  match s.splitOn "." with
  | ["R"] => some .reg
  | ["U", id, i] => do some (.upd (← id.toNat?) (← parseInfo i))
  | ["G", id] => do some (.get (← id.toNat?))
  | ["K", p] => do some (.kids (← p.toNat?))
  | ["F", l, q, h] => do some (.find (← parseLvl l) (← parseInfo q) (← parseOpt h))
  | ["A", l, q, h] => do some (.findOrReg (← parseLvl l) (← parseInfo q) (← parseOpt h))
  | _ => none

def parseMicro (s : String) : Option Micro :=
  match s.splitOn "." with
  | ["f", l, q, h] => do some (.find (← parseLvl l) (← parseInfo q) (← parseOpt h))
  | ["r"] => some .regIfNone
  | ["u", q] => do some (.updIfNew (← parseInfo q))
  | _ => none

def showOpt : Option Nat → String
  | none => "-"
  | some n => toString n

def showInfo (i : Info) : String :=
  ",".intercalate ([i.unitName, i.parent, i.addr, i.asn, i.ribType, i.filename, i.name, i.desc].map showOpt)

def sortNat (l : List Nat) : List Nat := (l.toArray.qsort (· < ·)).toList

def showRet : Ret → String
  | .id n => s!"i{n}"
  | .info none => "N"
  | .info (some i) => s!"S{showInfo i}"
  | .ids l => "k[" ++ ";".intercalate ((sortNat l).map toString) ++ "]"
  | .found none => "N"
  | .found (some e) => s!"f{e.1}:{showInfo e.2}"

def showProbes (r : Register) (probes : List Nat) : String :=
  let l := probes.filterMap fun id => (get r id).map fun i => s!"{id}:{showInfo i}"
  if l.isEmpty then "-" else " ".intercalate l

def showRets (l : List Ret) : String := if l.isEmpty then "-" else " ".intercalate (l.map showRet)

/-- Hand the results of a merged run back to the threads that issued the operations. -/
def perThread (n : Nat) (tags : List Nat) (rets : List Ret) : List (List Ret) :=
  (List.range n).map fun t => ((tags.zip rets).filter (·.1 == t)).map (·.2)

def runCase (line : String) : String :=
  match line.splitOn "|" with
  | ["seq", ser, ops, probes] =>
    match ser.toNat?, (words ops).mapM parseOp, (words probes).mapM (·.toNat?) with
    | some ser, some ops, some probes =>
      let r := run M32 ⟨ser, []⟩ ops
      s!"{showRets r.2} => {showProbes r.1 probes}"
    | _, _, _ => "bad-case"
  | ["conc", ser, pre, progs, sched, probes] =>
    match ser.toNat?, (words pre).mapM parseOp, (progs.splitOn "/").mapM (fun p => (words p).mapM parseOp),
          (words sched).mapM (·.toNat?), (words probes).mapM (·.toNat?) with
    | some ser, some pre, some progs, some sched, some probes =>
      let r0 := (run M32 ⟨ser, []⟩ pre).1
      let merged := interleave progs sched
      let r := run M32 r0 (merged.map (·.2))
      let per := perThread progs.length (merged.map (·.1)) r.2
      "/".intercalate (per.map showRets) ++ s!" => {showProbes r.1 probes}"
    | _, _, _, _, _ => "bad-case"
  | ["site", ser, pre, progs, sched, probes] =>
    match ser.toNat?, (words pre).mapM parseOp, (progs.splitOn "/").mapM (fun p => (words p).mapM parseMicro),
          (words sched).mapM (·.toNat?), (words probes).mapM (·.toNat?) with
    | some ser, some pre, some progs, some sched, some probes =>
      let r0 := (run M32 ⟨ser, []⟩ pre).1
      let s := runSite M32 r0 progs sched
      "/".intercalate (s.ts.map fun t => s!"i{t.cur}") ++ s!" => {showProbes s.reg probes}"
    | _, _, _, _, _ => "bad-case"
  | ["race", ser, pre, progs, parent] =>
    -- free-running threads all calling the atomic find-or-register for the same identities: the shape that every
    -- merge of the programs yields (one id per distinct query, one child per identity) is printed for one merge
    match ser.toNat?, (words pre).mapM parseOp, (progs.splitOn "/").mapM (fun p => (words p).mapM parseOp), parent.toNat? with
    | some ser, some pre, some progs, some parent =>
      let r0 := (run M32 ⟨ser, []⟩ pre).1
      let ops := progs.flatten
      let r := run M32 r0 ops
      let qs := (progs.headD []).map fun o => (ops.zip r.2).filterMap fun (o', ret) =>
        if o' == o then (match ret with | .id n => some n | _ => none) else none
      let sizes := qs.zip (progs.headD []) |>.map (fun (ids, _) => (ids.eraseDups).length)
      -- sizes are reported per identity in identity order: thread 0's program is a permutation, so sort by query text
      let keyed := ((progs.headD []).map fun o => match o with | .findOrReg _ q _ => q.addr.getD 0 | _ => 0).zip sizes
      let sorted := (keyed.toArray.qsort (fun a b => a.1 < b.1)).toList.map (·.2)
      s!"ids {" ".intercalate (sorted.map toString)} kids {(idsForParent r.1 parent).length}"
    | _, _, _, _ => "bad-case"
  | ["peerup", ser, pre, progs, sched, probes] =>
    -- the real `add_peer_config` call site: only the register is observable
    match ser.toNat?, (words pre).mapM parseOp, (progs.splitOn "/").mapM (fun p => (words p).mapM parseMicro),
          (words sched).mapM (·.toNat?), (words probes).mapM (·.toNat?) with
    | some ser, some pre, some progs, some sched, some probes =>
      let r0 := (run M32 ⟨ser, []⟩ pre).1
      let s := runSite M32 r0 progs sched
      s!"=> {showProbes s.reg probes}"
    | _, _, _, _, _ => "bad-case"
  | _ => "bad-case"

partial def loop (h : IO.FS.Stream) (out : IO.FS.Stream) : IO Unit := do
  let line ← h.getLine
  if line.isEmpty then return ()
  out.putStrLn (runCase (line.trimAscii.toString))
  loop h out

def main (_args : List String) : IO Unit := do
  loop (← IO.getStdin) (← IO.getStdout)
