import RotondaModel.Model.Codec
/-! Line driver for the UPDATE codec model (C04).
Case line:  `<stream> <asoctets> <hex PDU>`   stream = wf | mal (direct), bgp (BGP session call site), bmpd / bmpu (BMP Route Monitoring, Dumping / Updating phase), mrt, asoctets = 2 | 4.
Variant flags: `padbits=`, `bmpeor=`, `mrtas=`, `overlap=` `as-written` | `repaired` (default as-written).
Output:     `err`  or  `ok <events> | <attribute table>`; for `mal` only `ok` / `err` is compared. -/
open Rotonda.Codec

def hexVal (c : Char) : Option Nat :=
  if '0' ≤ c ∧ c ≤ '9' then some (c.toNat - '0'.toNat)
  else if 'a' ≤ c ∧ c ≤ 'f' then some (c.toNat - 'a'.toNat + 10)
  else none

def parseHex : List Char → Option (List Nat)
  | [] => some []
  | a :: b :: rest => do
    let x ← hexVal a
    let y ← hexVal b
    let r ← parseHex rest
    some ((x * 16 + y) :: r)
  | _ => none

def hexDigit (n : Nat) : Char := if n < 10 then Char.ofNat (48 + n) else Char.ofNat (87 + n)
def hex2 (n : Nat) : String := String.ofList [hexDigit (n / 16 % 16), hexDigit (n % 16)]
def hexs (bs : List Nat) : String := String.join (bs.map hex2)

def showFam : Fam → String
  | .v4u => "4u" | .v4m => "4m" | .v6u => "6u" | .v6m => "6m"

/-- canonical attribute set: sorted `code.flags.value` strings -/
def showAttrs (as4 : Bool) (attrs : List Attr) : String :=
  let ss := attrs.map fun a => s!"{hex2 a.code}.{hex2 a.flags}.{hexs a.value}"
  let ss := (ss.toArray.qsort (· < ·)).toList
  (if as4 then "4:[" else "2:[") ++ " ".intercalate ss ++ "]"

def showEvents (es : List Event) : String :=
  let step := fun (acc : List String × List String) (e : Event) =>
    let (tbl, out) := acc
    let k := showAttrs e.as4 e.attrs
    let (tbl, idx) := match tbl.idxOf? k with
      | some i => (tbl, i)
      | none => (tbl ++ [k], tbl.length)
    let kind := match e.kind with | .announce => "A" | .withdraw => "W"
    (tbl, out ++ [s!"{kind} {showFam e.fam} {e.pfx.len}/{hexs e.pfx.addr} @{idx}"])
  let (tbl, out) := es.foldl step ([], [])
  let tbls := (List.range tbl.length).zip tbl |>.map fun (i, k) => s!"@{i}={k}"
  "ok " ++ ";".intercalate out ++ " | " ++ " ".intercalate tbls

def runCase (v : Variant) (line : String) : String :=
  match (line.splitOn " ").filter (· ≠ "") with
  | [stream, asn, hex] =>
    match (if hex == "-" then some [] else parseHex hex.toList) with
    | none => "bad-case"
    | some bs =>
      let as4 := asn == "4"
      match (if stream == "bmpd" then runBmpDumping v as4 bs
             else if stream == "mrt" then runMrt v as4 bs
             else if stream == "bgp" || stream == "bmpu" then runCaller v as4 bs
             else run v as4 bs) with
      | none => "err"
      | some es => if stream == "mal" then "ok ## " ++ showEvents es else showEvents es
  | _ => "bad-case"

partial def loop (v : Variant) (h : IO.FS.Stream) (out : IO.FS.Stream) : IO Unit := do
  let line ← h.getLine
  if line.isEmpty then return ()
  out.putStrLn (runCase v (line.trimAscii.toString))
  loop v h out

def main (args : List String) : IO Unit := do
  let v : Variant := ⟨args.contains "padbits=repaired", !args.contains "bmpeor=repaired",
    !args.contains "mrtas=repaired", !args.contains "overlap=repaired"⟩
  loop v (← IO.getStdin) (← IO.getStdout)
