//! Shared helpers for the verification harness engines.
//!
//! Every engine binary (`src/bin/cNN.rs`) drives the *real* rotonda code
//! in-process and writes four files into `--out DIR`:
//!   cases.txt   one case per line, the exact text piped to the Lean driver
//!   impl.txt    one line per case: the canonical observation of the real code
//!   oracle.txt  one line per case: `ok` or `fail <signature> <detail>` — the
//!               property evaluated directly on the implementation's behaviour
//!   meta.json   measured counts, generator distribution, samples, variants
pub mod rng;
pub mod bmp;

use std::collections::{BTreeMap, HashSet};
use std::fmt::Write as _;
use std::hash::{Hash, Hasher};
use std::io::Write;

pub struct Args {
    pub seed: u64,
    pub thorough: bool,
    pub out: std::path::PathBuf,
    pub replay: Option<std::path::PathBuf>,
    pub rest: Vec<String>,
}

/// A range of `width` loopback ports that no other engine process uses while this process lives: slots are claimed
/// through lock files under the temp dir (`verif-portslots/slot-K`, holding the owner's pid; a slot whose owner is gone is
/// taken over). Engines that start real listeners take their ports from their slot, so that two engines running at
/// the same time (several checks in parallel) never meet on a port — an engine that found another process's
/// listener on "its" port used to report what that listener did.
pub fn port_slot(width: usize) -> usize {
    static SLOT: std::sync::OnceLock<usize> = std::sync::OnceLock::new();
    *SLOT.get_or_init(|| {
        let dir = std::env::temp_dir().join("verif-portslots");
        let _ = std::fs::create_dir_all(&dir);
        let nslots = (32000 - 12000) / width.max(1);   // below the ephemeral range (32768..)
        let me = std::process::id();
        for round in 0..2 {
            for k in 0..nslots {
                let f = dir.join(format!("slot-{width}-{k}"));
                match std::fs::OpenOptions::new().write(true).create_new(true).open(&f) {
                    Ok(mut h) => { use std::io::Write; let _ = write!(h, "{me}"); return 12000 + k * width; }
                    Err(_) if round == 1 => {
                        // stale? (the owner is gone)
                        let owner = std::fs::read_to_string(&f).ok().and_then(|t| t.trim().parse::<u32>().ok());
                        let alive = owner.map(|p| std::path::Path::new(&format!("/proc/{p}")).exists()).unwrap_or(false);
                        if !alive { let _ = std::fs::remove_file(&f); if let Ok(mut h) = std::fs::OpenOptions::new().write(true).create_new(true).open(&f) { use std::io::Write; let _ = write!(h, "{me}"); return 12000 + k * width; } }
                    }
                    Err(_) => {}
                }
            }
        }
        12000 + (me as usize % nslots.max(1)) * width
    })
}

static JOURNAL: std::sync::OnceLock<std::path::PathBuf> = std::sync::OnceLock::new();

/// Note which case lines the real code is about to run (`<out>/journal.txt`, rewritten each time). If the
/// engine process dies while running them (abort on allocation failure, stack overflow, kill), `check` reads
/// the journal, replays each noted case alone, and reports the one that kills the engine again as the failing input.
pub fn journal<S: AsRef<str>>(lines: &[S]) {
    if let Some(p) = JOURNAL.get() {
        let mut t = String::new();
        for l in lines { t.push_str(l.as_ref()); t.push('\n'); }
        let _ = std::fs::write(p, t);
    }
}

pub fn parse_args() -> Args {
    let mut seed = std::env::var("VERIF_SEED").ok().and_then(|s| s.parse().ok()).unwrap_or(1u64);
    let mut thorough = std::env::var("VERIF_TIER").map(|t| t == "thorough").unwrap_or(false);
    let mut out = std::path::PathBuf::from("out");
    let mut replay = None;
    let mut rest = vec![];
    let mut it = std::env::args().skip(1);
    while let Some(a) = it.next() {
        match a.as_str() {
            "--seed" => seed = it.next().and_then(|s| s.parse().ok()).expect("--seed N"),
            "--tier" => thorough = it.next().expect("--tier quick|thorough") == "thorough",
            "--out" => out = it.next().expect("--out DIR").into(),
            "--replay" => replay = Some(it.next().expect("--replay FILE").into()),
            _ => rest.push(a),
        }
    }
    let _ = std::fs::create_dir_all(&out);
    let _ = JOURNAL.set(out.join("journal.txt"));
    Args { seed, thorough, out, replay, rest }
}

/// Collects the per-case lines and the measured statistics of one engine run.
pub struct Recorder {
    pub cases: Vec<String>,
    pub impls: Vec<String>,
    pub oracles: Vec<String>,
    distinct: HashSet<u64>,
    nontrivial: HashSet<u64>,
    pub dist: BTreeMap<String, u64>,
    pub variants: BTreeMap<String, String>,
    pub samples: Vec<serde_json::Value>,
    pub rule: String,
    pub extra: BTreeMap<String, serde_json::Value>,
}

impl Recorder {
    pub fn new(rule: &str) -> Self {
        Recorder {
            cases: vec![], impls: vec![], oracles: vec![], distinct: HashSet::new(),
            nontrivial: HashSet::new(), dist: BTreeMap::new(), variants: BTreeMap::new(),
            samples: vec![], rule: rule.to_string(), extra: BTreeMap::new(),
        }
    }
    /// Record one case. `nontrivial` is the engine's own stated rule evaluated on this case.
    pub fn case(&mut self, case: String, imp: String, oracle: String, nontrivial: bool) {
        assert!(!case.contains('\n') && !imp.contains('\n') && !oracle.contains('\n'));
        let mut h = std::collections::hash_map::DefaultHasher::new();
        case.hash(&mut h);
        let hv = h.finish();
        let new = self.distinct.insert(hv);
        if nontrivial { self.nontrivial.insert(hv); }
        if new && nontrivial && self.samples.len() < 3 || oracle != "ok" && self.samples.len() < 8 {
            self.samples.push(serde_json::json!({"case": case, "impl": imp, "oracle": oracle}));
        }
        self.cases.push(case);
        self.impls.push(imp);
        self.oracles.push(oracle);
    }
    pub fn bump(&mut self, key: &str) { *self.dist.entry(key.to_string()).or_insert(0) += 1; }
    pub fn bump_by(&mut self, key: &str, n: u64) { *self.dist.entry(key.to_string()).or_insert(0) += n; }
    pub fn variant(&mut self, site: &str, v: &str) { self.variants.insert(site.into(), v.into()); }

    pub fn finish(self, args: &Args, wall_s: f64) {
        std::fs::create_dir_all(&args.out).unwrap();
        let w = |name: &str, lines: &Vec<String>| {
            let mut f = std::io::BufWriter::new(std::fs::File::create(args.out.join(name)).unwrap());
            for l in lines { writeln!(f, "{}", l).unwrap(); }
        };
        w("cases.txt", &self.cases);
        w("impl.txt", &self.impls);
        w("oracle.txt", &self.oracles);
        let meta = serde_json::json!({
            "seed": args.seed,
            "tier": if args.thorough { "thorough" } else { "quick" },
            "evaluations": self.cases.len(),
            "distinct": self.distinct.len(),
            "distinct_nontrivial": self.nontrivial.len(),
            "rule": self.rule,
            "distribution": self.dist,
            "variants": self.variants,
            "samples": self.samples,
            "extra": self.extra,
            "wall_s": wall_s,
        });
        std::fs::write(args.out.join("meta.json"), serde_json::to_string_pretty(&meta).unwrap()).unwrap();
        // The results are on disk. If the real code left a thread spinning in a synchronous loop (a wedge the
        // oracle has already reported as such), dropping the async runtime never returns and the engine would sit
        // there until `check` times out: leave after a grace period instead.
        std::thread::spawn(|| { std::thread::sleep(std::time::Duration::from_secs(20)); std::process::exit(0); });
    }
}

pub fn join<T: std::fmt::Display>(xs: impl IntoIterator<Item = T>, sep: &str) -> String {
    let mut s = String::new();
    for (i, x) in xs.into_iter().enumerate() {
        if i > 0 { s.push_str(sep); }
        write!(s, "{}", x).unwrap();
    }
    s
}

/// Read the case lines of a replay file (lines starting with `case: `).
pub fn replay_cases(path: &std::path::Path) -> Vec<String> {
    std::fs::read_to_string(path).unwrap_or_default().lines()
        .filter_map(|l| l.strip_prefix("case: ").map(|s| s.to_string())).collect()
}
pub mod rib;
pub mod bmpio;
