//! Shared by the C06 / C07 engines: a scripted in-memory `AsyncRead` (bytes,
//! I/O faults, gate termination), the text encoding of scripts used in case
//! lines, the reference framer that asks the real parser for the validity
//! tokens, BMP message builders and the panic-site recorder.
use std::collections::{HashMap, VecDeque};
use std::io::ErrorKind;
use std::pin::Pin;
use std::sync::atomic::{AtomicUsize, Ordering::SeqCst};
use std::sync::{Arc, Mutex};
use std::task::{Context, Poll};

use tokio::io::{AsyncRead, ReadBuf};

use crate::rng::Rng;

// ------------------------------------------------------------------ kinds

/// (lean name, ErrorKind) — the kinds `is_fatal` names, in the order of the generated table.
pub const NAMED_KINDS: [(&str, ErrorKind); 20] = [
    ("notFound", ErrorKind::NotFound), ("permissionDenied", ErrorKind::PermissionDenied),
    ("connectionRefused", ErrorKind::ConnectionRefused), ("connectionReset", ErrorKind::ConnectionReset),
    ("connectionAborted", ErrorKind::ConnectionAborted), ("notConnected", ErrorKind::NotConnected),
    ("addrInUse", ErrorKind::AddrInUse), ("addrNotAvailable", ErrorKind::AddrNotAvailable),
    ("brokenPipe", ErrorKind::BrokenPipe), ("alreadyExists", ErrorKind::AlreadyExists),
    ("wouldBlock", ErrorKind::WouldBlock), ("invalidInput", ErrorKind::InvalidInput),
    ("invalidData", ErrorKind::InvalidData), ("timedOut", ErrorKind::TimedOut),
    ("writeZero", ErrorKind::WriteZero), ("interrupted", ErrorKind::Interrupted),
    ("unsupported", ErrorKind::Unsupported), ("unexpectedEof", ErrorKind::UnexpectedEof),
    ("outOfMemory", ErrorKind::OutOfMemory), ("other", ErrorKind::Other),
];
/// Kinds `is_fatal` does not name (its catch-all arm): written `unlisted:<name>` in case lines.
pub const UNLISTED_KINDS: [(&str, ErrorKind); 4] = [
    ("unlisted:hostUnreachable", ErrorKind::HostUnreachable),
    ("unlisted:networkUnreachable", ErrorKind::NetworkUnreachable),
    ("unlisted:networkDown", ErrorKind::NetworkDown),
    ("unlisted:storageFull", ErrorKind::StorageFull),
];
pub fn kind_name(k: ErrorKind) -> &'static str {
    NAMED_KINDS.iter().chain(UNLISTED_KINDS.iter()).find(|e| e.1 == k).map(|e| e.0).unwrap_or("unlisted:?")
}
/// The name the model prints (every unlisted kind is `unlisted`).
pub fn kind_model_name(k: ErrorKind) -> &'static str {
    NAMED_KINDS.iter().find(|e| e.1 == k).map(|e| e.0).unwrap_or("unlisted")
}
pub fn kind_of(name: &str) -> ErrorKind {
    NAMED_KINDS.iter().chain(UNLISTED_KINDS.iter()).find(|e| e.0 == name).map(|e| e.1).unwrap_or(ErrorKind::HostUnreachable)
}

// ----------------------------------------------------------------- script

#[derive(Clone, Debug, PartialEq)]
pub enum Item { Data(Vec<u8>), Zeros(usize), Fault(ErrorKind), Term, Idle }

pub type Script = Vec<Item>;

pub fn script_len(s: &Script) -> usize {
    s.iter().map(|i| match i { Item::Data(d) => d.len(), Item::Zeros(n) => *n, _ => 1 }).sum()
}

pub fn show_script(s: &Script) -> String {
    if s.is_empty() || script_len(s) == 0 { return "-".into(); }
    let mut out = String::new();
    for it in s {
        match it {
            Item::Data(d) if d.is_empty() => continue,
            Item::Zeros(0) => continue,
            _ => {}
        }
        if !out.is_empty() { out.push(' '); }
        match it {
            Item::Data(d) => { out.push('x'); for b in d { out.push_str(&format!("{:02x}", b)); } }
            Item::Zeros(n) => out.push_str(&format!("z{}", n)),
            Item::Fault(k) => { out.push_str("f."); out.push_str(kind_name(*k)); }
            Item::Term => out.push('t'),
            Item::Idle => out.push('i'),
        }
    }
    out
}

pub fn parse_script(s: &str) -> Script {
    if s == "-" { return vec![]; }
    s.split_whitespace().filter_map(|tok| {
        let (h, r) = tok.split_at(1);
        match h {
            "x" => Some(Item::Data((0..r.len() / 2).map(|i| u8::from_str_radix(&r[2 * i..2 * i + 2], 16).unwrap_or(0)).collect())),
            "z" => Some(Item::Zeros(r.parse().unwrap_or(0))),
            "f" => Some(Item::Fault(kind_of(r.trim_start_matches('.')))),
            "t" => Some(Item::Term),
            "i" => Some(Item::Idle),
            _ => None,
        }
    }).collect()
}

/// Flatten into single events (for the reference framer).
#[derive(Clone, Copy, Debug, PartialEq)]
pub enum Flat { B(u8), F(ErrorKind), T, I }
pub fn flatten(s: &Script) -> Vec<Flat> {
    let mut v = vec![];
    for it in s {
        match it {
            Item::Data(d) => v.extend(d.iter().map(|b| Flat::B(*b))),
            Item::Zeros(n) => v.extend(std::iter::repeat(Flat::B(0)).take(*n)),
            Item::Fault(k) => v.push(Flat::F(*k)),
            Item::Term => v.push(Flat::T),
            Item::Idle => v.push(Flat::I),
        }
    }
    v
}

// ----------------------------------------------------------------- reader

#[derive(Default)]
pub struct ReaderShared {
    /// scripted items (bytes + faults + terminations) handed to the code under test
    pub consumed: AtomicUsize,
    pub polls: AtomicUsize,
    /// set when the reader parked on a `Term` item and wants the gate terminated
    pub want_term: tokio::sync::Notify,
    /// end of input was delivered more than `EOF_SPIN` times: the caller keeps reading a closed
    /// stream (busy loop); the reader parks and tells the engine
    pub eofs: AtomicUsize,
    pub spinning: tokio::sync::Notify,
    /// the reader reached an `Idle` item: everything before it has been processed
    pub idle_reached: tokio::sync::Notify,
}
pub const EOF_SPIN: usize = 64;

/// Called at the start of every `read_exact` (first poll with nothing filled yet) and right before
/// every fault / end-of-input / termination event is delivered: everything read before has been
/// completely processed by the (sequential) session loop at that moment.
pub type EventFn = Arc<dyn Fn() + Send + Sync>;

pub struct ScriptReader {
    items: VecDeque<Item>,
    off: usize,
    rng: Rng,
    pub shared: Arc<ReaderShared>,
    on_event: Option<EventFn>,
    parked: bool,
}

impl ScriptReader {
    pub fn new(script: &Script, chunk_seed: u64, on_event: Option<EventFn>) -> (Self, Arc<ReaderShared>) {
        let shared = Arc::new(ReaderShared::default());
        (ScriptReader { items: script.iter().cloned().collect(), off: 0, rng: Rng::new(chunk_seed), shared: shared.clone(), on_event, parked: false }, shared)
    }
}

impl AsyncRead for ScriptReader {
    fn poll_read(self: Pin<&mut Self>, cx: &mut Context<'_>, buf: &mut ReadBuf<'_>) -> Poll<std::io::Result<()>> {
        let me = self.get_mut();
        me.shared.polls.fetch_add(1, SeqCst);
        if me.parked { return Poll::Pending; }
        // now and then: not ready yet (exercises the pending path of read_exact / select)
        if me.rng.chance(1, 9) {
            cx.waker().wake_by_ref();
            return Poll::Pending;
        }
        if buf.filled().is_empty() && !me.items.is_empty() {
            if let Some(f) = &me.on_event { f(); }
        }
        loop {
            match me.items.front() {
                None => {
                    if me.shared.eofs.fetch_add(1, SeqCst) >= EOF_SPIN {
                        me.parked = true;
                        me.shared.spinning.notify_one();
                        return Poll::Pending;
                    }
                    if let Some(f) = &me.on_event { f(); }
                    return Poll::Ready(Ok(())); // end of input: zero bytes
                }
                Some(Item::Data(d)) if me.off >= d.len() => { me.items.pop_front(); me.off = 0; }
                Some(Item::Zeros(n)) if me.off >= *n => { me.items.pop_front(); me.off = 0; }
                Some(Item::Data(d)) => {
                    let want = buf.remaining().min(d.len() - me.off);
                    if want == 0 { return Poll::Ready(Ok(())); }
                    let n = if me.rng.chance(1, 2) { want } else { 1 + me.rng.below(want as u64) as usize };
                    buf.put_slice(&d[me.off..me.off + n]);
                    me.off += n;
                    me.shared.consumed.fetch_add(n, SeqCst);
                    return Poll::Ready(Ok(()));
                }
                Some(Item::Zeros(total)) => {
                    let want = buf.remaining().min(*total - me.off);
                    if want == 0 { return Poll::Ready(Ok(())); }
                    let n = if me.rng.chance(1, 2) { want } else { 1 + me.rng.below(want as u64) as usize };
                    buf.initialize_unfilled_to(n).iter_mut().for_each(|b| *b = 0);
                    buf.advance(n);
                    me.off += n;
                    me.shared.consumed.fetch_add(n, SeqCst);
                    return Poll::Ready(Ok(()));
                }
                Some(Item::Fault(k)) => {
                    let k = *k;
                    me.items.pop_front();
                    me.shared.consumed.fetch_add(1, SeqCst);
                    if let Some(f) = &me.on_event { f(); }
                    return Poll::Ready(Err(k.into()));
                }
                Some(Item::Idle) => {
                    if let Some(f) = &me.on_event { f(); }
                    me.parked = true;
                    me.shared.idle_reached.notify_one();
                    return Poll::Pending; // open and silent for good (never consumed)
                }
                Some(Item::Term) => {
                    me.items.pop_front();
                    me.shared.consumed.fetch_add(1, SeqCst);
                    if let Some(f) = &me.on_event { f(); }
                    me.parked = true;
                    me.shared.want_term.notify_one();
                    return Poll::Pending; // silent connection; the engine terminates the gate
                }
            }
        }
    }
}

// ------------------------------------------------------- reference framer

pub fn be32(h: &[u8]) -> usize { u32::from_be_bytes([h[1], h[2], h[3], h[4]]) as usize }

/// What the real parser does with a complete frame: `'1'` accepts, `'0'` rejects, `'p'` panics.
pub fn parser_verdict(frame: &[u8]) -> char {
    let f = frame.to_vec();
    match std::panic::catch_unwind(move || routecore::bmp::message::Message::from_octets(&f[..]).is_ok()) {
        Ok(true) => '1',
        Ok(false) => '0',
        Err(_) => 'p',
    }
}

/// Result of walking a script the way the *as-written* framing does.
pub struct Walk {
    /// every completely read frame, in order
    pub frames: Vec<Vec<u8>>,
    /// the walk ended at a complete header declaring a length < 5
    pub short_len: bool,
    /// the largest declared length met (the real code allocates and zeroes that much)
    pub max_len: usize,
    /// number of loop iterations (reads attempted)
    pub iterations: usize,
}

/// Walk the script the way the as-written framing does (stopping at a declared length < 5, a
/// fault the real table calls fatal, a termination or end of input). Used only to obtain the
/// validity / message tokens from the real parser, to keep generated inputs from declaring
/// gigabyte frames, and to classify a panic for the oracle's signature.
pub fn walk(s: &Script, is_fatal: &dyn Fn(ErrorKind) -> bool) -> Walk {
    let flat = flatten(s);
    let mut pos = 0usize;
    let mut w = Walk { frames: vec![], short_len: false, max_len: 0, iterations: 0 };
    enum R { Ok(Vec<u8>), Err(ErrorKind), Stop }
    let read_exact = |n: usize, pos: &mut usize| -> R {
        let mut acc = Vec::with_capacity(n.min(1 << 16));
        while acc.len() < n {
            match flat.get(*pos) {
                None => return R::Stop,
                Some(Flat::B(b)) => { acc.push(*b); *pos += 1; }
                Some(Flat::F(k)) => { *pos += 1; return R::Err(*k); }
                Some(Flat::T) => { *pos += 1; return R::Stop; }
                Some(Flat::I) => return R::Stop,
            }
        }
        R::Ok(acc)
    };
    let parse_err_fatal = is_fatal(ErrorKind::Other);
    loop {
        w.iterations += 1;
        let hdr = match read_exact(5, &mut pos) {
            R::Ok(h) => h,
            R::Err(k) => { if is_fatal(k) { break } else { continue } }
            R::Stop => break,
        };
        let len = be32(&hdr);
        w.max_len = w.max_len.max(len);
        if len < 5 { w.short_len = true; break; }
        let body = match read_exact(len - 5, &mut pos) {
            R::Ok(b) => b,
            R::Err(k) => { if is_fatal(k) { break } else { continue } }
            R::Stop => break,
        };
        let mut f = hdr; f.extend(body);
        let verdict = parser_verdict(&f);
        w.frames.push(f);
        if verdict == 'p' || (verdict == '0' && parse_err_fatal) { break; }
    }
    w
}

// ------------------------------------------------------------ panic sites

static PANICS: Mutex<Option<HashMap<String, String>>> = Mutex::new(None);

/// Install a quiet panic hook that remembers `file:line: message` per tokio task (or thread).
pub fn install_panic_recorder() {
    std::panic::set_hook(Box::new(|info| {
        let key = tokio::task::try_id().map(|i| format!("task{}", i)).unwrap_or_else(|| format!("{:?}", std::thread::current().id()));
        let loc = info.location().map(|l| format!("{}:{}", l.file(), l.line())).unwrap_or_default();
        let msg = if let Some(s) = info.payload().downcast_ref::<&str>() { s.to_string() } else if let Some(s) = info.payload().downcast_ref::<String>() { s.clone() } else { String::new() };
        if tokio::task::try_id().is_none() && !loc.contains("/routecore-") { eprintln!("engine thread panicked at {}: {}", loc, msg); }
        let mut g = PANICS.lock().unwrap_or_else(|e| e.into_inner());
        g.get_or_insert_with(HashMap::new).insert(key, format!("{}: {}", loc, msg));
    }));
}
pub fn take_panic(task: tokio::task::Id) -> String {
    let mut g = PANICS.lock().unwrap_or_else(|e| e.into_inner());
    g.get_or_insert_with(HashMap::new).remove(&format!("task{}", task)).unwrap_or_default()
}
/// Any recorded panic (for engines that run one case at a time); clears the record.
pub fn take_any_panic() -> String {
    let mut g = PANICS.lock().unwrap_or_else(|e| e.into_inner());
    let m = g.get_or_insert_with(HashMap::new);
    let v = m.values().next().cloned().unwrap_or_default();
    m.clear();
    v
}
/// `src/units/bmp_tcp_in/io.rs:79: range start index 5 out of range …` → `bmp_tcp_in/io.rs`
pub fn panic_file(site: &str) -> String {
    let file = site.split(':').next().unwrap_or("");
    let parts: Vec<&str> = file.rsplit('/').take(2).collect();
    parts.into_iter().rev().collect::<Vec<_>>().join("/")
}
/// Signature of a panic: file (last three path components, no line) + the first words of the
/// message with digits removed — stable under unrelated edits, different for a different mechanism.
pub fn panic_signature(site: &str) -> String {
    let file = site.split(':').next().unwrap_or("");
    let comps: Vec<&str> = file.rsplit('/').take(3).collect();
    let file = comps.into_iter().rev().collect::<Vec<_>>().join("/");
    let msg = site.splitn(3, ':').nth(2).unwrap_or("");
    let words: Vec<String> = msg.split_whitespace().take(4).map(|w| w.chars().filter(|c| c.is_ascii_alphabetic()).collect::<String>()).filter(|w| !w.is_empty()).collect();
    format!("panic:{}:{}", file, words.join("-"))
}
pub fn sanitize(s: &str) -> String {
    { let t: String = s.chars().map(|c| if c.is_ascii_graphic() { c } else { '_' }).collect(); let n = t.len(); if n > 160 { format!("{}..{}", &t[..40], &t[n - 110..]) } else { t } }
}

// --------------------------------------------------------------- messages

use rotonda::bgp::encode;

pub fn pph(i: usize) -> encode::PerPeerHeader {
    encode::mk_per_peer_header(&format!("10.0.0.{}", i + 1), 65001 + i as u32)
}
/// The encode helpers stamp `Utc::now()` into the per-peer header (bytes 40..48 of the message):
/// fixed here so that case lines are reproducible from the seed.
fn fix_ts(mut m: Vec<u8>) -> Vec<u8> { if m.len() >= 48 { m[40..48].copy_from_slice(&[0x65, 0, 0, 0, 0, 0, 0, 1]); } m }
pub fn initiation() -> Vec<u8> { encode::mk_initiation_msg("verif-sys", "verif-descr").to_vec() }
pub fn peer_up(i: usize) -> Vec<u8> {
    fix_ts(encode::mk_peer_up_notification_msg(&pph(i), "10.0.0.100".parse().unwrap(), 11019, 4567, 111, 222, 0, 0, vec![], i % 2 == 0).to_vec())
}
pub fn peer_down(i: usize) -> Vec<u8> { fix_ts(encode::mk_peer_down_notification_msg(&pph(i)).to_vec()) }
pub fn route_monitoring(i: usize, n: usize) -> Vec<u8> {
    use std::str::FromStr;
    let ann = encode::Announcements::from_str(&format!("e [{},{}] 10.0.0.{} BLACKHOLE,123:44 127.0.{}.0/24", 65001 + i, 100 + n, i + 1, n % 200)).unwrap();
    fix_ts(encode::mk_route_monitoring_msg(&pph(i), &encode::Prefixes::default(), &ann, &[]).to_vec())
}
pub fn statistics(i: usize) -> Vec<u8> { fix_ts(encode::mk_statistics_report_msg(&pph(i)).to_vec()) }
pub fn termination() -> Vec<u8> { encode::mk_termination_msg().to_vec() }

// ----- legal variants of each message kind (RFC 7854 / 8671 / 9069), beyond what the encode helpers build

fn frame(typ: u8, body: &[u8]) -> Vec<u8> {
    let mut v = vec![3u8]; v.extend(((6 + body.len()) as u32).to_be_bytes()); v.push(typ); v.extend_from_slice(body); v
}
fn tlv(t: u16, val: &[u8]) -> Vec<u8> { let mut v = t.to_be_bytes().to_vec(); v.extend((val.len() as u16).to_be_bytes()); v.extend_from_slice(val); v }
fn set_len(mut m: Vec<u8>) -> Vec<u8> { let n = m.len() as u32; m[1..5].copy_from_slice(&n.to_be_bytes()); m }
/// The 42-byte per-peer header of peer `i` as the encode helpers write it (timestamp fixed).
fn pph_bytes(i: usize) -> Vec<u8> { peer_down(i)[6..48].to_vec() }
fn notification_pdu(code: u8, sub: u8, data: &[u8]) -> Vec<u8> {
    let mut v = vec![0xff; 16]; v.extend(((21 + data.len()) as u16).to_be_bytes()); v.push(3); v.push(code); v.push(sub); v.extend_from_slice(data); v
}
pub const N_TERMINATION_VARIANTS: u64 = 10;
/// Termination (type 5): information TLVs are type 0 = free-form string (any number, any length) and
/// type 1 = 2-byte reason code, in any order.
pub fn termination_variant(k: u64) -> Vec<u8> {
    let reason = |r: u16| tlv(1, &r.to_be_bytes());
    let body: Vec<u8> = match k {
        0 => reason(0),
        1 => tlv(0, b"maintenance window"),
        2 => [tlv(0, b"going down"), reason(1)].concat(),
        3 => [reason(2), tlv(0, b"out of resources")].concat(),
        4 => [tlv(0, b"a"), tlv(0, b"b"), reason(3)].concat(),
        5 => [tlv(0, b""), reason(4)].concat(),
        6 => [tlv(0, &[b'x'; 300]), reason(0)].concat(),
        7 => [tlv(0, "r\u{e9}seau <b>&".as_bytes()), reason(1)].concat(),
        8 => vec![],                                   // no TLV at all
        _ => [reason(1), reason(2)].concat(),
    };
    frame(5, &body)
}
pub const N_INITIATION_VARIANTS: u64 = 8;
/// Initiation (type 4): TLVs 0 = string, 1 = sysDescr, 2 = sysName, any number and order.
pub fn initiation_variant(k: u64) -> Vec<u8> {
    let body: Vec<u8> = match k {
        0 => [tlv(2, b"verif-sys"), tlv(1, b"verif-descr")].concat(),
        1 => [tlv(1, b"verif-descr"), tlv(2, b"verif-sys")].concat(),
        2 => [tlv(2, b"verif-sys"), tlv(1, b"verif-descr"), tlv(0, b"extra one"), tlv(0, b"extra two")].concat(),
        3 => [tlv(0, b"only a string")].concat(),
        4 => [tlv(2, b""), tlv(1, b"")].concat(),
        5 => [tlv(2, b"verif-sys"), tlv(2, b"second-name"), tlv(1, b"d")].concat(),
        6 => [tlv(2, &[b'n'; 255]), tlv(1, &[b'd'; 1000])].concat(),
        _ => [tlv(2, "n\u{e9}<&\"".as_bytes()), tlv(1, b"verif-descr"), tlv(0, b"")].concat(),
    };
    frame(4, &body)
}
pub const N_PEER_DOWN_VARIANTS: u64 = 7;
/// Peer Down (type 2): reason 1 = local NOTIFICATION PDU, 2 = local FSM event code, 3 = remote NOTIFICATION PDU,
/// 4 = remote without data, 5 = peer de-configured, 6 = local system closed, TLV data (RFC 9069).
pub fn peer_down_variant(i: usize, k: u64) -> Vec<u8> {
    let mut b = pph_bytes(i);
    match k {
        0 => { b.push(1); b.extend(notification_pdu(6, 2, &[])); }
        1 => { b.push(2); b.extend([0u8, 9]); }
        2 => { b.push(3); b.extend(notification_pdu(6, 4, &[])); }
        3 => { b.push(4); }
        4 => { b.push(5); }
        5 => { b.push(3); b.extend(notification_pdu(4, 0, &[1, 2, 3])); }
        _ => { b.push(6); b.extend(tlv(3, b"vrf-blue")); }
    }
    frame(2, &b)
}
pub const N_STATISTICS_VARIANTS: u64 = 4;
/// Statistics Report (type 1): a count and that many stat TLVs (4-byte counters, 8-byte gauges, per-AFI/SAFI 11-byte ones).
pub fn statistics_variant(i: usize, k: u64) -> Vec<u8> {
    let mut b = pph_bytes(i);
    let stats: Vec<Vec<u8>> = match k {
        0 => vec![],
        1 => vec![tlv(0, &7u32.to_be_bytes())],
        2 => vec![tlv(0, &1u32.to_be_bytes()), tlv(7, &900u64.to_be_bytes()), tlv(8, &800u64.to_be_bytes())],
        _ => vec![tlv(9, &[0, 1, 1, 0, 0, 0, 0, 0, 0, 0, 5]), tlv(65000, &[1, 2, 3])],
    };
    b.extend((stats.len() as u32).to_be_bytes());
    for t in stats { b.extend(t); }
    frame(1, &b)
}
/// Route Mirroring (type 6): TLV 0 = a BGP message (here a KEEPALIVE), TLV 1 = 2-byte information code.
pub fn route_mirroring(i: usize, k: u64) -> Vec<u8> {
    let mut b = pph_bytes(i);
    let mut keepalive = vec![0xffu8; 16]; keepalive.extend([0, 19, 4]);
    match k % 3 { 0 => b.extend(tlv(0, &keepalive)), 1 => b.extend(tlv(1, &[0, 1])), _ => { b.extend(tlv(1, &[0, 0])); b.extend(tlv(0, &keepalive)); } }
    frame(6, &b)
}
/// Peer Up followed by information TLVs (type 0 strings), as RFC 7854 4.10 allows.
pub fn peer_up_with_info(i: usize, k: u64) -> Vec<u8> {
    let mut m = peer_up(i);
    match k % 3 { 0 => m.extend(tlv(0, b"peer note")), 1 => { m.extend(tlv(0, b"")); m.extend(tlv(0, b"second")); } _ => m.extend(tlv(3, b"vrf-red")) }
    set_len(m)
}
/// A long text for an information TLV: `total` bytes (around the sizes at which a receiver may cap, copy or index:
/// 255 / 256 / 1024 / 4096), `lead` ASCII bytes followed by one repeated character of 2, 3 or 4 UTF-8 bytes, or by
/// bytes that are not UTF-8 at all (lossy decoding turns each into a 3-byte U+FFFD) — so that every byte offset near
/// a limit falls inside a character for some choice.
pub fn long_text(g: &mut crate::rng::Rng) -> Vec<u8> {
    let total = *g.pick(&[250usize, 254, 255, 256, 257, 300, 1023, 1024, 1025, 4095, 4096, 4097]) + g.below(4) as usize;
    let lead = g.below(5) as usize;
    let unit: &[u8] = match g.below(5) { 0 => "\u{e9}".as_bytes(), 1 => "\u{20ac}".as_bytes(), 2 => "\u{1f600}".as_bytes(), 3 => &[0xff], _ => b"<" };
    let mut v = vec![b'a'; lead];
    while v.len() + unit.len() <= total { v.extend_from_slice(unit); }
    while v.len() < total { v.push(b'z'); }
    v
}
/// Initiation whose sysName, sysDescr or free-form string TLV is a `long_text`.
pub fn initiation_long(g: &mut crate::rng::Rng) -> Vec<u8> {
    let t = long_text(g);
    let body: Vec<u8> = match g.below(4) {
        0 => [tlv(2, &t), tlv(1, b"verif-descr")].concat(),
        1 => [tlv(2, b"verif-sys"), tlv(1, &t)].concat(),
        2 => [tlv(2, b"verif-sys"), tlv(1, b"verif-descr"), tlv(0, &t)].concat(),
        _ => { let u = long_text(g); [tlv(2, &t), tlv(1, &u)].concat() }
    };
    frame(4, &body)
}
/// Termination / Peer Up carrying a long free-form string.
pub fn termination_long(g: &mut crate::rng::Rng) -> Vec<u8> { let t = long_text(g); frame(5, &[tlv(0, &t), tlv(1, &[0, 1])].concat()) }
pub fn peer_up_long(i: usize, g: &mut crate::rng::Rng) -> Vec<u8> { let t = long_text(g); let mut m = peer_up(i); m.extend(tlv(0, &t)); set_len(m) }

/// Any legal variant of any message kind for peers 0..3 (the plain encode-helper forms included).
pub fn any_variant(g: &mut crate::rng::Rng) -> Vec<u8> {
    let i = g.below(3) as usize;
    match g.below(12) {
        9 => initiation_long(g),
        10 => termination_long(g),
        11 => peer_up_long(i, g),
        0 => initiation_variant(g.below(N_INITIATION_VARIANTS)),
        1 => termination_variant(g.below(N_TERMINATION_VARIANTS)),
        2 => peer_down_variant(i, g.below(N_PEER_DOWN_VARIANTS)),
        3 => statistics_variant(i, g.below(N_STATISTICS_VARIANTS)),
        4 => route_mirroring(i, g.below(3)),
        5 => peer_up_with_info(i, g.below(3)),
        6 => peer_up(i),
        _ => route_monitoring(i, g.below(50) as usize),
    }
}

/// Sum of all samples of one metric family in a Prometheus text dump.
pub fn metric_sum(text: &str, name: &str) -> u64 {
    text.lines().filter(|l| !l.starts_with('#') && l.contains(name))
        .filter_map(|l| l.rsplit(' ').next().and_then(|v| v.trim().parse::<f64>().ok())).map(|v| v as u64).sum()
}

/// A long session that keeps violating the lifecycle and sending damaged payloads inside intact
/// frames: 12..64 messages for random peers in random order (Route Monitoring / Peer Down for peers
/// that are not up, repeated Peer Up and Initiation), a third of them with a damaged payload, type or
/// flag byte. Whatever the receiver keeps per session (counters, bounded buffers of recent errors,
/// per-peer tables) is driven well past any small capacity. No Termination before the end, so the
/// session is as long as the script on every variant.
pub fn long_stream(g: &mut crate::rng::Rng) -> Vec<Vec<u8>> {
    let mut v = vec![];
    if g.chance(9, 10) { v.push(initiation()); }
    let n = g.range(12, 64);
    for k in 0..n {
        let mut m = match g.below(8) {
            0 => initiation(),
            1 => peer_up(g.below(3) as usize),
            2 | 3 => peer_down(g.below(3) as usize),
            4 => statistics(g.below(3) as usize),
            _ => route_monitoring(g.below(3) as usize, k as usize),
        };
        if g.chance(1, 3) && m.len() > 50 {
            match g.below(3) {
                0 => { m[7] = g.below(256) as u8; }
                1 => { let i = g.range(48, m.len() as u64 - 1) as usize; m[i] = m[i].wrapping_add(g.range(1, 255) as u8); }
                _ => { for _ in 0..g.range(1, 4) { let i = g.range(6, m.len() as u64 - 1) as usize; m[i] = g.below(256) as u8; } }
            }
        }
        v.push(m);
    }
    if g.chance(1, 3) { v.push(termination()); }
   
    v
}


/// Run lengths around the places where a receiver may keep a bound, a counter or a threshold.
pub const RUN_LENGTHS: [u64; 22] = [2, 3, 7, 8, 9, 10, 11, 15, 16, 17, 31, 32, 33, 63, 64, 65, 100, 127, 128, 129, 255, 257];

/// A session with peers up and route traffic, then a *run* of k consecutive messages of one kind the
/// state machine rejects (Route Monitoring / Peer Down / Statistics for a peer that is not up, a
/// repeated Peer Up, a payload damaged the same way each time), k from `RUN_LENGTHS`, with no
/// accepted message in between; then optionally more valid traffic and an ending. Whatever a receiver
/// counts per session *in a row* (consecutive-error counters, rate limits, back-off, fixed-size
/// buffers) is driven to and past its bound while peers with routes are up.
pub fn run_stream(g: &mut crate::rng::Rng) -> Vec<Vec<u8>> {
    let mut v = vec![initiation()];
    let up = g.range(1, 2) as usize;                                // peers 0..up are up, peer 2 never is
    for p in 0..up { v.push(peer_up(p)); }
    for k in 0..g.below(4) { v.push(route_monitoring(g.below(up as u64) as usize, k as usize)); }
    let k = RUN_LENGTHS[g.below(RUN_LENGTHS.len() as u64) as usize];
    let kind = g.below(6);
    for i in 0..k {
        let m = match kind {
            0 => peer_down(2),
            1 => route_monitoring(2, i as usize),
            2 => statistics(2),
            3 => peer_up(0),                                         // repeated Peer Up of an up peer
            4 => { let mut m = route_monitoring(0, i as usize); let j = m.len() - 1; m[j] = m[j].wrapping_add(1); if m.len() > 60 { m[50] ^= 0xff; } m }
            _ => { let mut m = peer_down(0); m[5] = 9; m }           // unknown message type in an intact frame
        };
        v.push(m);
    }
    for k in 0..g.below(3) { v.push(route_monitoring(g.below(up as u64) as usize, 100 + k as usize)); }
    if g.chance(1, 4) { v.push(termination()); }
    v
}

/// An Initiation message whose sysDescr makes the whole message `total` bytes long (any size up to
/// 64 KiB + header: one information TLV): a well-formed message far beyond one BGP PDU.
pub fn big_initiation(total: usize) -> Vec<u8> {
    let base = encode::mk_initiation_msg("verif-sys", "").len();
    let descr: String = std::iter::repeat('d').take(total.saturating_sub(base)).collect();
    encode::mk_initiation_msg("verif-sys", &descr).to_vec()
}
