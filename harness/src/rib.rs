//! Shared by the RIB-level engines (c01, c02, c03): the case-line vocabulary
//! (`Model/Rib.lean`'s `Ev`/`Upd`/`Nlri`/`Prefix`), a BGP UPDATE encoder, two
//! ways of turning an UPDATE into the real `Update` the RIB unit receives,
//! and the canonical observation of the real `Rib`.
//!
//! * BMP source  : real BMP bytes -> `BmpStepper` (the real `BmpState`) -> the real
//!   `extract_route_monitoring_routes` call site -> `Update`.
//! * BGP source  : the real `Processor::process_update` of a BGP session (`router_handler.rs:560`).
//! * glue source : real `explode_announcements/_withdrawals` on the real parsed PDU,
//!   followed by a transliteration *in this file* of the dozen lines with which
//!   mrt `unit.rs:218-260` builds the `Bulk` (a private function that needs a file and a gate).
//!   Because it is a copy, generators never give it an UPDATE that announces and withdraws the
//!   same prefix (the one place where the assembly order matters).
//! Either way the `Update` goes to the real `RibUnitRunner::process_update`.
use std::collections::HashMap;
use std::net::{IpAddr, Ipv4Addr, Ipv6Addr};

use bytes::Bytes;
use rotonda::bgp::encode::{
    mk_initiation_msg, mk_peer_down_notification_msg, mk_peer_up_notification_msg,
    mk_raw_route_monitoring_msg, mk_termination_msg, PerPeerHeader,
};
use rotonda::payload::{Payload, Update};
use rotonda::roto_runtime::types::{FreshRouteContext, MrtContext, Provenance, RouteContext};
use rotonda::verif::bmp_sm::{BmpStepper, StepOutcome};
use rotonda::verif::codec::{explode_announcements, explode_withdrawals};
use rotonda::verif::rib as vrib;
use rotonda_store::prelude::multi::RouteStatus;
use rotonda_store::{MatchOptions, MatchType};
use routecore::bgp::message::{SessionConfig, UpdateMessage};
use routecore::bgp::types::AfiSafiType;
use routecore::bmp::message::PeerType;
use smallvec::SmallVec;

// ------------------------------------------------------------------ vocabulary

#[derive(Clone, Copy, PartialEq, Eq, Hash, PartialOrd, Ord, Debug)]
pub struct Pfx { pub v6: bool, pub len: u8, pub bits: u128 }

impl Pfx {
    pub fn v4(a: [u8; 4], len: u8) -> Pfx {
        let x = u32::from_be_bytes(a) as u128;
        Pfx { v6: false, len, bits: if len == 0 { 0 } else { x >> (32 - len as u32) } }
    }
    pub fn v6(a: Ipv6Addr, len: u8) -> Pfx {
        let x = u128::from_be_bytes(a.octets());
        Pfx { v6: true, len, bits: if len == 0 { 0 } else { x >> (128 - len as u32) } }
    }
    pub fn show(&self) -> String { format!("{}.{}.{}", if self.v6 { 6 } else { 4 }, self.len, self.bits) }
    pub fn parse(s: &str) -> Option<Pfx> {
        let p: Vec<&str> = s.split('.').collect();
        if p.len() != 3 { return None; }
        let v6 = match p[0] { "4" => false, "6" => true, _ => return None };
        let len: u8 = p[1].parse().ok()?;
        let bits: u128 = p[2].parse().ok()?;
        let w = if v6 { 128 } else { 32 };
        if len as u32 > w || (len < 128 && bits >> len != 0) { return None; }
        Some(Pfx { v6, len, bits })
    }
    fn addr(&self) -> u128 {
        let w: u32 = if self.v6 { 128 } else { 32 };
        if self.len == 0 { 0 } else { self.bits << (w - self.len as u32) }
    }
    pub fn ip(&self) -> IpAddr {
        if self.v6 { IpAddr::V6(Ipv6Addr::from(self.addr().to_be_bytes())) } else { IpAddr::V4(Ipv4Addr::from((self.addr() as u32).to_be_bytes())) }
    }
    pub fn to_prefix(&self) -> inetnum::addr::Prefix { inetnum::addr::Prefix::new(self.ip(), self.len).unwrap() }
    /// `<len> <ceil(len/8) address bytes>` as in a BGP NLRI field.
    fn wire(&self, out: &mut Vec<u8>) {
        out.push(self.len);
        let n = (self.len as usize + 7) / 8;
        let all: Vec<u8> = if self.v6 { self.addr().to_be_bytes().to_vec() } else { (self.addr() as u32).to_be_bytes().to_vec() };
        out.extend_from_slice(&all[..n]);
    }
}

#[derive(Clone, Copy, PartialEq, Eq, Hash, Debug)]
pub enum Safi { U, M, X }

#[derive(Clone, Copy, PartialEq, Eq, Hash, Debug)]
pub struct Nlri { pub pfx: Pfx, pub safi: Safi }
impl Nlri {
    pub fn show(&self) -> String { format!("{}{}", match self.safi { Safi::U => 'u', Safi::M => 'm', Safi::X => 'x' }, self.pfx.show()) }
    pub fn parse(s: &str) -> Option<Nlri> {
        let safi = match s.chars().next()? { 'u' => Safi::U, 'm' => Safi::M, 'x' => Safi::X, _ => return None };
        Some(Nlri { pfx: Pfx::parse(&s[1..])?, safi })
    }
}

/// One BGP UPDATE above the codec. `mp4`: encode IPv4-unicast NLRI in MP attributes when the
/// MP attribute of that half is not needed for another family (an encoding hint, ignored by the model).
/// `corrupt`: 0 = well-formed, otherwise the kind of framing damage applied to the encoded PDU.
#[derive(Clone, PartialEq, Eq, Debug)]
pub struct Upd { pub attr: u32, pub ann: Vec<Nlri>, pub wd: Vec<Nlri>, pub mp4: bool, pub corrupt: u8 }

#[derive(Clone, PartialEq, Eq, Debug)]
pub enum Ev {
    Upd(u32, Upd),
    /// `Update::Withdraw(m, None)`
    Down(u32),
    /// `Update::WithdrawBulk(ms)`
    DownBulk(Vec<u32>),
    /// `Update::Withdraw(m, Some(afisafi))`: v4u v6u v4m v6m other
    DownAf(u32, String),
}

fn show_list(ns: &[Nlri]) -> String { if ns.is_empty() { "-".into() } else { crate::join(ns.iter().map(|n| n.show()), ",") } }
fn parse_list(s: &str) -> Option<Vec<Nlri>> { if s == "-" { Some(vec![]) } else { s.split(',').map(Nlri::parse).collect() } }

impl Ev {
    pub fn show(&self) -> String {
        match self {
            Ev::Upd(m, u) if u.corrupt == 0 => format!("u:{}:{}:{}:{}:{}", m, u.attr, show_list(&u.ann), show_list(&u.wd), if u.mp4 { 'm' } else { 'c' }),
            Ev::Upd(m, u) => format!("x:{}:{}:{}:{}:{}:{}", m, u.attr, show_list(&u.ann), show_list(&u.wd), if u.mp4 { 'm' } else { 'c' }, u.corrupt),
            Ev::Down(m) => format!("d:{}", m),
            Ev::DownBulk(ms) => format!("D:{}", if ms.is_empty() { "-".to_string() } else { crate::join(ms.iter(), ",") }),
            Ev::DownAf(m, af) => format!("da:{}:{}", m, af),
        }
    }
    pub fn parse(s: &str) -> Option<Ev> {
        let p: Vec<&str> = s.split(':').collect();
        match p[0] {
            "u" | "x" if p.len() >= 6 => Some(Ev::Upd(p[1].parse().ok()?, Upd {
                attr: p[2].parse().ok()?, ann: parse_list(p[3])?, wd: parse_list(p[4])?, mp4: p[5] == "m",
                corrupt: if p[0] == "x" { p.get(6).and_then(|k| k.parse().ok()).unwrap_or(1) } else { 0 },
            })),
            "d" if p.len() == 2 => Some(Ev::Down(p[1].parse().ok()?)),
            "D" if p.len() == 2 => Some(Ev::DownBulk(if p[1] == "-" { vec![] } else { p[1].split(',').map(|x| x.parse().ok()).collect::<Option<Vec<u32>>>()? })),
            "da" if p.len() == 3 => Some(Ev::DownAf(p[1].parse().ok()?, p[2].to_string())),
            _ => None,
        }
    }
    pub fn mui(&self) -> Vec<u32> {
        match self { Ev::Upd(m, _) | Ev::Down(m) | Ev::DownAf(m, _) => vec![*m], Ev::DownBulk(ms) => ms.clone() }
    }
}

/// The pool of nested / sibling prefixes every RIB engine draws from (collisions are the norm).
pub fn pool() -> Vec<Pfx> {
    vec![
        Pfx::v4([10, 0, 0, 0], 8), Pfx::v4([10, 1, 0, 0], 16), Pfx::v4([10, 1, 1, 0], 24), Pfx::v4([10, 1, 2, 0], 24),
        Pfx::v4([10, 1, 1, 128], 25), Pfx::v4([192, 0, 2, 0], 24), Pfx::v4([192, 0, 2, 1], 32),
        Pfx::v6("2001:db8::".parse().unwrap(), 32), Pfx::v6("2001:db8:1::".parse().unwrap(), 48),
        Pfx::v6("2001:db8:1:1::".parse().unwrap(), 64), Pfx::v6("2001:db8::1".parse().unwrap(), 128),
        Pfx::v6("2001:db8:8000::".parse().unwrap(), 33),
    ]
}

// ------------------------------------------------------------------ UPDATE encoder

fn afi_safi(v6: bool, safi: Safi) -> (u16, u8) { (if v6 { 2 } else { 1 }, match safi { Safi::U => 1, Safi::M => 2, Safi::X => 4 }) }

fn nlri_wire(n: &Nlri, withdraw: bool, out: &mut Vec<u8>) {
    if n.safi == Safi::X {
        // RFC 8277 labelled unicast: length covers the 24-bit label stack entry + the prefix
        let mut tmp = vec![];
        n.pfx.wire(&mut tmp);
        out.push(tmp[0] + 24);
        out.extend_from_slice(if withdraw { &[0x80, 0x00, 0x00] } else { &[0x00, 0x06, 0x41] });
        out.extend_from_slice(&tmp[1..]);
    } else {
        n.pfx.wire(out);
    }
}

fn attr(flags: u8, ty: u8, val: &[u8], out: &mut Vec<u8>) {
    // always extended length: keeps the encoder trivially right for long MP attributes
    out.push(flags | 0x10);
    out.push(ty);
    out.extend_from_slice(&(val.len() as u16).to_be_bytes());
    out.extend_from_slice(val);
}

/// Split one half of an UPDATE into (conventional IPv4-unicast NLRI, MP family, MP NLRI).
fn split_half(ns: &[Nlri], mp4: bool) -> Result<(Vec<Nlri>, Option<(bool, Safi)>, Vec<Nlri>), String> {
    let is_v4u = |n: &Nlri| !n.pfx.v6 && n.safi == Safi::U;
    let others: Vec<Nlri> = ns.iter().filter(|n| !is_v4u(n)).cloned().collect();
    let v4u: Vec<Nlri> = ns.iter().filter(|n| is_v4u(n)).cloned().collect();
    if others.is_empty() {
        return Ok(if mp4 && !v4u.is_empty() { (vec![], Some((false, Safi::U)), v4u) } else { (v4u, None, vec![]) });
    }
    let fam = (others[0].pfx.v6, others[0].safi);
    if others.iter().any(|n| (n.pfx.v6, n.safi) != fam) { return Err("one MP attribute carries one AFI/SAFI".into()); }
    Ok((v4u, Some(fam), others))
}

/// Returns (the BGP PDU, its path-attribute section as encoded).
pub fn encode_update(u: &Upd) -> Result<(Vec<u8>, Vec<u8>), String> { encode_update_with(u, &[], &[]) }

/// `encode_update` with a caller-chosen AS_PATH attribute *value* (4-octet segments) and further
/// already encoded path attributes (e.g. COMMUNITIES) placed after the MED. With two empty slices
/// this is byte for byte `encode_update`. Only used when the UPDATE announces something.
pub fn encode_update_with(u: &Upd, as_path_value: &[u8], extra_attrs: &[u8]) -> Result<(Vec<u8>, Vec<u8>), String> {
    let (a_conv, a_fam, a_mp) = split_half(&u.ann, u.mp4)?;
    let (w_conv, w_fam, w_mp) = split_half(&u.wd, u.mp4)?;
    let mut wdr = vec![];
    for n in &w_conv { nlri_wire(n, true, &mut wdr); }
    if u.corrupt == 3 { wdr.extend_from_slice(&[40, 1, 2, 3, 4, 5]); }
    let mut pas = vec![];
    if !u.ann.is_empty() {
        attr(0x40, 1, &[0], &mut pas); // ORIGIN IGP
        attr(0x40, 2, as_path_value, &mut pas); // AS_PATH (empty: same bytes for 2- and 4-octet sessions)
        if !a_conv.is_empty() { attr(0x40, 3, &[10, 0, 0, 1], &mut pas); }
        let med = u.attr.to_be_bytes();
        attr(0x80, 4, &med, &mut pas); // MED carries the attribute id
        pas.extend_from_slice(extra_attrs);
    }
    if let Some((v6, safi)) = a_fam {
        let (afi, s) = afi_safi(v6, safi);
        let mut v = vec![];
        v.extend_from_slice(&afi.to_be_bytes());
        v.push(s);
        if v6 { v.push(16); v.extend_from_slice(&"2001:db8::ffff".parse::<Ipv6Addr>().unwrap().octets()); } else { v.push(4); v.extend_from_slice(&[10, 0, 0, 1]); }
        v.push(0);
        for n in &a_mp { nlri_wire(n, false, &mut v); }
        if u.corrupt == 5 { v.extend_from_slice(&[200, 1, 2, 3]); }
        attr(0x80, 14, &v, &mut pas);
    }
    if let Some((v6, safi)) = w_fam {
        let (afi, s) = afi_safi(v6, safi);
        let mut v = vec![];
        v.extend_from_slice(&afi.to_be_bytes());
        v.push(s);
        for n in &w_mp { nlri_wire(n, true, &mut v); }
        // 6: the MP_UNREACH_NLRI list goes on, after its well-formed prefixes, with one of impossible length: the
        // whole UPDATE is malformed and must change nothing (not even for the prefixes listed before the bad one)
        if u.corrupt == 6 { v.extend_from_slice(&[200, 1, 2, 3]); }
        attr(0x80, 15, &v, &mut pas);
    }
    let mut nlri = vec![];
    for n in &a_conv { nlri_wire(n, false, &mut nlri); }
    match u.corrupt {
        1 => nlri.extend_from_slice(&[33, 1, 2, 3, 4, 5]), // IPv4 prefix length 33
        2 => nlri.extend_from_slice(&[24, 10]),            // NLRI truncated
        _ => {}
    }
    let mut pdu = vec![0xFF; 16];
    pdu.extend_from_slice(&[0, 0, 2]);
    pdu.extend_from_slice(&(wdr.len() as u16).to_be_bytes());
    pdu.extend_from_slice(&wdr);
    let palen = pas.len() as u16 + if u.corrupt == 4 { 50 } else { 0 }; // 4: attribute section longer than the PDU
    pdu.extend_from_slice(&palen.to_be_bytes());
    pdu.extend_from_slice(&pas);
    pdu.extend_from_slice(&nlri);
    let len = pdu.len() as u16;
    pdu[16..18].copy_from_slice(&len.to_be_bytes());
    Ok((pdu, pas))
}

/// Does corruption kind `k` apply to this UPDATE (the damaged field must exist)?
pub fn corrupt_applicable(u: &Upd, k: u8) -> bool {
    match k {
        1 | 2 | 3 | 4 => true,
        // (not for labelled unicast: routecore 0.5.1 panics on an over-long labelled NLRI, which is C06's business)
        5 => split_half(&u.ann, u.mp4).map(|x| matches!(x.1, Some((_, s)) if s != Safi::X)).unwrap_or(false),
        6 => split_half(&u.wd, u.mp4).map(|x| matches!(x.1, Some((_, s)) if s != Safi::X)).unwrap_or(false),
        _ => false,
    }
}

// ------------------------------------------------------------------ the real RIB

pub struct RealRib {
    pub runner: vrib::RibUnitRunner,
    _agent: rotonda::comms::GateAgent,
    rt: tokio::runtime::Runtime,
    /// raw path-attribute section -> attribute id, filled by whoever encodes UPDATEs
    pub blobs: HashMap<Vec<u8>, u32>,
}

impl RealRib {
    pub fn new() -> RealRib {
        let (runner, agent) = vrib::mk_runner();
        let rt = tokio::runtime::Builder::new_current_thread().enable_all().build().unwrap();
        RealRib { runner, _agent: agent, rt, blobs: HashMap::new() }
    }
    /// The real `RibUnitRunner::process_update`. `Err` = it panicked.
    pub fn process(&self, u: Update) -> Result<(), String> {
        let r = std::panic::catch_unwind(std::panic::AssertUnwindSafe(|| self.rt.block_on(vrib::process_update(&self.runner, u))));
        match r { Ok(_) => Ok(()), Err(e) => Err(e.downcast_ref::<String>().cloned().or_else(|| e.downcast_ref::<&str>().map(|s| s.to_string())).unwrap_or_default()) }
    }
    /// Sorted `(ingress id, status, attribute id)` of `Rib::match_prefix(p, exact)`.
    pub fn query(&self, p: &Pfx, include_withdrawn: bool) -> Vec<(u32, char, String)> {
        let rib = vrib::rib(&self.runner);
        let opts = MatchOptions { match_type: MatchType::ExactMatch, include_withdrawn, include_less_specifics: false, include_more_specifics: false, mui: None };
        let mut v: Vec<(u32, char, String)> = match rib.match_prefix(&p.to_prefix(), &opts) {
            Ok(res) => res.prefix_meta.iter().map(|r| {
                let st = match r.status { RouteStatus::Active => 'A', RouteStatus::Withdrawn => 'W', _ => 'I' };
                let raw = r.meta.0.clone().into_vec();
                (r.multi_uniq_id, st, self.blobs.get(&raw).map(|a| a.to_string()).unwrap_or_else(|| "?".into()))
            }).collect(),
            Err(_) => vec![(0, 'E', "err".into())],
        };
        v.sort();
        v
    }
    /// `T/F` per prefix: include_withdrawn=true list `/` include_withdrawn=false list.
    pub fn observe(&self, prefixes: &[Pfx]) -> String {
        crate::join(prefixes.iter().map(|p| format!("{}/{}", show_recs(&self.query(p, true)), show_recs(&self.query(p, false)))), " ")
    }
}

pub fn show_recs(v: &[(u32, char, String)]) -> String {
    if v.is_empty() { "-".into() } else { crate::join(v.iter().map(|(m, s, a)| format!("{m}.{s}.{a}")), ",") }
}

// ------------------------------------------------------------------ sources

/// What one UPDATE became on the way to the RIB unit.
pub enum Ingested { Update(Update), Rejected(String) }

/// The real BGP-session call site: `Processor::process_update` (bgp `router_handler.rs:560`) on the PDU
/// parsed with `SessionConfig::modern()`.
pub struct BgpSource { p: vrib::BgpUpdateProcessor, rt: tokio::runtime::Runtime }
impl BgpSource {
    pub fn new() -> BgpSource {
        let rt = tokio::runtime::Builder::new_current_thread().enable_all().build().unwrap();
        let p = rt.block_on(async { vrib::BgpUpdateProcessor::new() });
        BgpSource { p, rt }
    }
    pub fn ingest(&mut self, pdu: &[u8], mui: u32) -> Ingested {
        let msg = match UpdateMessage::from_octets(Bytes::copy_from_slice(pdu), &SessionConfig::modern()) {
            Ok(m) => m,
            Err(e) => return Ingested::Rejected(format!("from_octets:{e}")),
        };
        let prov = Provenance::for_bgp(mui, "192.0.2.200".parse().unwrap(), inetnum::asn::Asn::from_u32(64500));
        match self.rt.block_on(self.p.process_update(msg, prov)) {
            Ok(u) => Ingested::Update(u),
            Err(e) => Ingested::Rejected(format!("bgp:{}", e.chars().take(60).collect::<String>())),
        }
    }
}

/// The glue path (see the file comment): real parse, real explode, transliterated Bulk assembly.
pub fn glue_ingest(pdu: &[u8], mui: u32, mrt: bool) -> Ingested {
    let msg = match UpdateMessage::from_octets(Bytes::copy_from_slice(pdu), &SessionConfig::modern()) {
        Ok(m) => m,
        Err(e) => return Ingested::Rejected(format!("from_octets:{e}")),
    };
    let reach = match explode_announcements(&msg) { Ok(r) => r, Err(e) => return Ingested::Rejected(format!("announcements:{e}")) };
    let unreach = match explode_withdrawals(&msg) { Ok(r) => r, Err(e) => return Ingested::Rejected(format!("withdrawals:{e}")) };
    let prov = Provenance::for_bgp(mui, "192.0.2.200".parse().unwrap(), inetnum::asn::Asn::from_u32(64500));
    let ctx = |st: RouteStatus| -> RouteContext {
        if mrt { RouteContext::Mrt(MrtContext { status: st, provenance: prov }) } else { FreshRouteContext::new(msg.clone(), st, prov).into() }
    };
    let received = std::time::Instant::now();
    let mut payloads: SmallVec<[Payload; 8]> = SmallVec::new();
    let c = ctx(RouteStatus::Active);
    payloads.extend(reach.into_iter().map(|rr| Payload::with_received(rr, c.clone(), None, received)));
    let c = ctx(RouteStatus::Withdrawn);
    payloads.extend(unreach.into_iter().map(|rr| Payload::with_received(rr, c.clone(), None, received)));
    Ingested::Update(Update::Bulk(payloads))
}

/// One monitored router: a real `BmpState` fed real BMP bytes. Peers are numbered by the harness;
/// their ingress ids are whatever the real `Register` hands out.
pub struct BmpRouter {
    pub stepper: BmpStepper,
    pub peers: Vec<BmpPeer>,
}
#[derive(Clone, Debug)]
pub struct BmpPeer { pub addr: Ipv4Addr, pub asn: u32, pub bgp_id: [u8; 4], pub flags: u8, pub distinguisher: [u8; 8], pub peer_type: u8, pub up: bool,
    /// the peer's OPEN carries the Graceful Restart capability (the state machine then expects End-of-RIB markers)
    pub gr: bool }

impl BmpPeer {
    pub fn plain(i: u32) -> BmpPeer {
        BmpPeer { addr: Ipv4Addr::new(198, 51, 100, 1 + i as u8), asn: 65000 + i, bgp_id: [1, 1, 1, 1 + i as u8], flags: 0, distinguisher: [0; 8], peer_type: 0, up: false, gr: false }
    }
    pub fn pph(&self) -> PerPeerHeader {
        let pt = match self.peer_type { 1 => PeerType::RdInstance, 2 => PeerType::LocalInstance, _ => PeerType::GlobalInstance };
        PerPeerHeader { peer_type: pt.into(), peer_flags: self.flags, peer_distinguisher: self.distinguisher, peer_address: IpAddr::V4(self.addr), peer_as: inetnum::asn::Asn::from_u32(self.asn), peer_bgp_id: self.bgp_id }
    }
}

impl BmpRouter {
    /// A router in phase Dumping (Initiation sent) on its own fresh register.
    pub fn new() -> BmpRouter { Self::from_stepper(BmpStepper::new()) }
    pub fn from_stepper(mut stepper: BmpStepper) -> BmpRouter {
        let _ = stepper.step(mk_initiation_msg("verif-router", "verif"));
        BmpRouter { stepper, peers: vec![] }
    }
    pub fn step(&mut self, msg: Bytes) -> Ingested {
        match self.stepper.step(msg) {
            Ok((_, StepOutcome::Routing(u))) => Ingested::Update(u),
            Ok((_, StepOutcome::Invalid(e))) => Ingested::Rejected(format!("invalid:{}", e.chars().take(60).collect::<String>())),
            Ok((_, o)) => Ingested::Rejected(format!("{:?}", std::mem::discriminant(&o))),
            Err(e) => Ingested::Rejected(format!("bmp:{e}")),
        }
    }
    pub fn peer_up_msg(p: &BmpPeer) -> Bytes {
        mk_peer_up_notification_msg(&p.pph(), "10.0.0.1".parse().unwrap(), 11019, 4567, 12345, (p.asn & 0xFFFF) as u16, 0x0A000001, u32::from_be_bytes(p.bgp_id), vec![], p.gr)
    }
    /// Peer Up; returns the ingress id the real state machine stored for it.
    pub fn peer_up(&mut self, idx: usize) -> Option<u32> {
        let p = self.peers[idx].clone();
        let _ = self.stepper.step(Self::peer_up_msg(&p));
        self.peers[idx].up = true;
        self.ingress_of(idx)
    }
    pub fn ingress_of(&self, idx: usize) -> Option<u32> {
        let p = &self.peers[idx];
        self.stepper.peers().iter().find(|v| v.address == IpAddr::V4(p.addr) && v.asn == p.asn && v.bgp_id == p.bgp_id && v.flags == p.flags && v.distinguisher == p.distinguisher && v.peer_type == p.peer_type).map(|v| v.ingress_id)
    }
    pub fn route_monitoring(&mut self, idx: usize, pdu: &[u8]) -> Ingested {
        let pph = self.peers[idx].pph();
        self.step(mk_raw_route_monitoring_msg(&pph, Bytes::copy_from_slice(pdu)))
    }
    pub fn peer_down(&mut self, idx: usize) -> Ingested {
        let pph = self.peers[idx].pph();
        self.peers[idx].up = false;
        self.step(mk_peer_down_notification_msg(&pph))
    }
    pub fn terminate(&mut self) -> Ingested {
        for p in self.peers.iter_mut() { p.up = false; }
        self.step(mk_termination_msg())
    }
}

/// `AfiSafiType` for the `DownAf` tokens.
pub fn afisafi(s: &str) -> AfiSafiType {
    match s { "v4u" => AfiSafiType::Ipv4Unicast, "v6u" => AfiSafiType::Ipv6Unicast, "v4m" => AfiSafiType::Ipv4Multicast, "v6m" => AfiSafiType::Ipv6Multicast, _ => AfiSafiType::Ipv4FlowSpec }
}

// ------------------------------------------------------------------ independent specification (Rust)

/// The property's reading of a history, independent of the Lean model: per `(prefix, mui)` the
/// status and attribute id a query must report. Flags select the two *known* deviations so the
/// oracle can tell them apart from anything else:
/// * `overlap_withdraws`: a prefix both announced and withdrawn in one UPDATE ends withdrawn;
/// * `per_safi`: unicast and multicast are separate tables and a query sees the multicast table only
///   when the unicast one has nothing for the prefix;
/// * `sticky_down`: after a session-level withdrawal of an id, everything it announces later is
///   still reported withdrawn.
#[derive(Clone, Copy, Default, PartialEq, Eq, Debug)]
pub struct SpecFlags { pub overlap_withdraws: bool, pub per_safi: bool, pub sticky_down: bool }

pub fn spec_observe(h: &[Ev], prefixes: &[Pfx], f: SpecFlags) -> Vec<Vec<(u32, char, String)>> {
    // key: (prefix, mui, table) ; table = 0 when !per_safi
    let mut tab: HashMap<(Pfx, u32, u8), (char, u32)> = HashMap::new();
    let mut down: Vec<u32> = vec![];
    let t = |s: Safi| -> Option<u8> { match s { Safi::U => Some(0), Safi::M => Some(if f.per_safi { 1 } else { 0 }), Safi::X => None } };
    let withdraw_all = |tab: &mut HashMap<(Pfx, u32, u8), (char, u32)>, m: u32, sel: &dyn Fn(&Pfx, u8) -> bool| {
        for (k, v) in tab.iter_mut() { if k.1 == m && sel(&k.0, k.2) { v.0 = 'W'; } }
    };
    for e in h {
        match e {
            Ev::Upd(_, u) if u.corrupt != 0 => {}
            Ev::Upd(m, u) => {
                let mut ann_keys = vec![];
                for n in &u.ann { if let Some(tb) = t(n.safi) { ann_keys.push((n.pfx, tb)); tab.insert((n.pfx, *m, tb), ('A', u.attr)); } }
                for n in &u.wd {
                    if let Some(tb) = t(n.safi) {
                        let overlapped = if f.per_safi { ann_keys.contains(&(n.pfx, tb)) } else { ann_keys.iter().any(|k| k.0 == n.pfx) };
                        if overlapped && !f.overlap_withdraws { continue; }
                        if let Some(v) = tab.get_mut(&(n.pfx, *m, tb)) { v.0 = 'W'; }
                    }
                }
            }
            Ev::Down(m) => { withdraw_all(&mut tab, *m, &|_, _| true); if f.sticky_down { down.push(*m); } }
            Ev::DownBulk(ms) => for m in ms { withdraw_all(&mut tab, *m, &|_, _| true); if f.sticky_down { down.push(*m); } },
            Ev::DownAf(..) => {}
        }
    }
    prefixes.iter().map(|p| {
        let collect = |tb: u8| -> Vec<(u32, char, String)> {
            let mut v: Vec<(u32, char, String)> = tab.iter().filter(|(k, _)| k.0 == *p && k.2 == tb)
                .map(|(k, v)| (k.1, if down.contains(&k.1) { 'W' } else { v.0 }, v.1.to_string())).collect();
            v.sort();
            v
        };
        let u = collect(0);
        if f.per_safi && u.is_empty() { collect(1) } else { u }
    }).collect()
}

// ------------------------------------------------------------------ session-level world (C02 / C03)

use rotonda::verif::ingress as ving;
use std::sync::Arc;

/// Scenario operations on a small population of BMP routers and their monitored peers.
#[derive(Clone, Debug, PartialEq)]
pub enum Op {
    /// TCP connection accepted (`bmp_tcp_in/unit.rs:420-432`: look the router up by (unit, remote IP), else register) + Initiation.
    Connect(usize),
    /// Connection lost: the epilogue of `router_handler.rs:291-318`, `WithdrawBulk(ids_for_parent(router id))`.
    Disconnect(usize),
    /// BMP Termination message.
    Terminate(usize),
    PeerUp(usize, usize),
    PeerDown(usize, usize),
    /// Route Monitoring for peer `k` of router `r`.
    Rm(usize, usize, Upd),
}

impl Op {
    pub fn show(&self) -> String {
        match self {
            Op::Connect(r) => format!("c{r}"), Op::Disconnect(r) => format!("x{r}"), Op::Terminate(r) => format!("t{r}"),
            Op::PeerUp(r, k) => format!("u{r}.{k}"), Op::PeerDown(r, k) => format!("d{r}.{k}"),
            Op::Rm(r, k, u) => format!("m{r}.{k}={}", Ev::Upd(0, u.clone()).show().replace(':', ";")),
        }
    }
    pub fn parse(s: &str) -> Option<Op> {
        let rk = |t: &str| -> Option<(usize, usize)> { let (a, b) = t.split_once('.')?; Some((a.parse().ok()?, b.parse().ok()?)) };
        let (c, rest) = s.split_at(1);
        match c {
            "c" => Some(Op::Connect(rest.parse().ok()?)), "x" => Some(Op::Disconnect(rest.parse().ok()?)), "t" => Some(Op::Terminate(rest.parse().ok()?)),
            "u" => rk(rest).map(|(r, k)| Op::PeerUp(r, k)), "d" => rk(rest).map(|(r, k)| Op::PeerDown(r, k)),
            "m" => { let (a, b) = rest.split_once('=')?; let (r, k) = rk(a)?; match Ev::parse(&b.replace(';', ":"))? { Ev::Upd(_, u) => Some(Op::Rm(r, k, u)), _ => None } }
            _ => None,
        }
    }
}

pub struct WRouter { pub ip: IpAddr, pub conn: Option<BmpRouter>, pub id: Option<u32>, pub peers: Vec<BmpPeer> }

/// One BMP unit: a real `ingress::Register` shared by all routers, each router a real `BmpState`.
pub struct BmpWorld { pub register: Arc<ving::Register>, pub unit_id: u32, pub routers: Vec<WRouter>, metrics_src: BmpStepper }

/// What one op produced: the real `Update` (if any) and its abstraction as a model event.
pub struct Emitted { pub update: Update, pub ev: Ev }

impl BmpWorld {
    pub fn new(routers: Vec<(IpAddr, Vec<BmpPeer>)>) -> BmpWorld {
        let register = Arc::new(ving::new_register());
        let unit_id = ving::register(&register);
        BmpWorld { register, unit_id, routers: routers.into_iter().map(|(ip, peers)| WRouter { ip, conn: None, id: None, peers }).collect(), metrics_src: BmpStepper::new() }
    }
    /// Ingress ids of the peers of router `r` that are currently up, by peer index.
    pub fn up_ids(&self, r: usize) -> Vec<(usize, u32)> {
        let w = &self.routers[r];
        match &w.conn { None => vec![], Some(c) => (0..c.peers.len()).filter(|k| c.peers[*k].up).filter_map(|k| c.ingress_of(k).map(|i| (k, i))).collect() }
    }
    pub fn apply(&mut self, op: &Op, blobs: &mut HashMap<Vec<u8>, u32>) -> (Option<Emitted>, String) {
        match op {
            Op::Connect(r) => {
                let w = &mut self.routers[*r];
                if w.conn.is_some() { return (None, "already-connected".into()); }
                // bmp_tcp_in/unit.rs:420-432, with the real Register functions
                let q = ving::IngressInfo::new().with_parent(self.unit_id).with_remote_addr(w.ip);
                let id = match self.register.find_existing_bmp_router(&q) {
                    Some((id, _)) => id,
                    None => { let id = ving::register(&self.register); ving::update_info(&self.register, id, q); id }
                };
                w.id = Some(id);
                let stepper = BmpStepper::with_parts(self.register.clone(), id, &format!("r{r}"), self.metrics_src.sm_metrics());
                let mut br = BmpRouter::from_stepper(stepper);
                br.peers = w.peers.clone();
                for p in br.peers.iter_mut() { p.up = false; }
                w.conn = Some(br);
                (None, format!("connected-as-{id}"))
            }
            Op::Disconnect(r) => {
                let w = &mut self.routers[*r];
                if w.conn.take().is_none() { return (None, "not-connected".into()); }
                let mut ids = self.register.ids_for_parent(w.id.unwrap());
                ids.sort();
                let update = Update::WithdrawBulk(ids.clone().into());
                (Some(Emitted { update, ev: Ev::DownBulk(ids) }), "disconnect".into())
            }
            Op::Terminate(r) => {
                let w = &mut self.routers[*r];
                let Some(c) = w.conn.as_mut() else { return (None, "not-connected".into()) };
                let res = c.terminate();
                w.conn = None; // the handler drops the connection after a Termination
                match res {
                    Ingested::Update(Update::WithdrawBulk(ids)) => { let mut v: Vec<u32> = ids.to_vec(); v.sort(); (Some(Emitted { update: Update::WithdrawBulk(ids), ev: Ev::DownBulk(v) }), "terminate".into()) }
                    Ingested::Update(_) => (None, "terminate-unexpected-update".into()),
                    Ingested::Rejected(w) => (None, format!("terminate-no-update:{w}")),
                }
            }
            Op::PeerUp(r, k) => {
                let Some(c) = self.routers[*r].conn.as_mut() else { return (None, "not-connected".into()) };
                if *k >= c.peers.len() { return (None, "no-such-peer".into()); }
                let id = c.peer_up(*k);
                (None, format!("peer-up-as-{:?}", id))
            }
            Op::PeerDown(r, k) => {
                let Some(c) = self.routers[*r].conn.as_mut() else { return (None, "not-connected".into()) };
                if *k >= c.peers.len() { return (None, "no-such-peer".into()); }
                match c.peer_down(*k) {
                    Ingested::Update(Update::Withdraw(id, None)) => (Some(Emitted { update: Update::Withdraw(id, None), ev: Ev::Down(id) }), "peer-down".into()),
                    Ingested::Update(_) => (None, "peer-down-unexpected-update".into()),
                    Ingested::Rejected(w) => (None, format!("peer-down-no-update:{w}")),
                }
            }
            Op::Rm(r, k, u) => {
                let Some(c) = self.routers[*r].conn.as_mut() else { return (None, "not-connected".into()) };
                if *k >= c.peers.len() { return (None, "no-such-peer".into()); }
                let Ok((pdu, blob)) = encode_update(u) else { return (None, "bad-update".into()) };
                if u.corrupt == 0 && !u.ann.is_empty() { blobs.insert(blob, u.attr); }
                match c.route_monitoring(*k, &pdu) {
                    Ingested::Update(update) => {
                        let id = match &update {
                            Update::Bulk(ps) => ps.iter().find_map(|p| match &p.context { RouteContext::Fresh(f) => Some(f.provenance.ingress_id), RouteContext::Mrt(m) => Some(m.provenance.ingress_id), _ => None }),
                            _ => None,
                        }.or_else(|| c.ingress_of(*k));
                        match id { Some(id) => (Some(Emitted { update, ev: Ev::Upd(id, u.clone()) }), "rm".into()), None => (None, "rm-without-id".into()) }
                    }
                    Ingested::Rejected(w) => (None, format!("rm-rejected:{}", w.chars().take(40).collect::<String>())),
                }
            }
        }
    }
}
