//! C12 engine: the real `Server::handle_request` (+ the real `/status/graph`, `/status/traces`,
//! RIB `PrefixesApi` and mrt-file-in queue processors) vs the Lean model `Model/Http.lean`.
//!
//! `hyper::Request`s are built directly (arbitrary header bytes, percent-encoded / non-UTF-8 /
//! over-long paths, all methods) and handed to the real handler under `catch_unwind`.
//! Observation per case: status, `Content-Encoding: gzip` present, body non-empty (for a 400),
//! or `panic`. After every case a follow-up `GET /status` must still answer 200.
//!
//! Case line (exact input of the Lean driver, see `lean/Driver/Http.lean`):
//!   reg|method|path-hex|query-hex|accept-encoding-hex|deps
//! `deps` are the answers of code outside /repo (inetnum / routecore parsers, the file system)
//! for the strings found in the request; the model looks them up by exact string.
use std::collections::BTreeMap;
use std::panic::{catch_unwind, AssertUnwindSafe};
use std::path::PathBuf;
use std::str::FromStr;
use std::sync::Arc;
use std::time::Instant;

use hyper::header::HeaderValue;
use hyper::{Body, Method, Request, Uri};
use rotonda::verif::http as vh;
use rotonda::verif::http::PercentDecodedPath;
use verif_harness::{join, parse_args, rng::Rng, Recorder};

thread_local! { static PANIC_AT: std::cell::RefCell<String> = const { std::cell::RefCell::new(String::new()) }; }

fn hex(b: &[u8]) -> String {
    let mut s = String::with_capacity(1 + 2 * b.len());
    s.push('x');
    for x in b { s.push_str(&format!("{:02x}", x)); }
    s
}
fn unhex(s: &str) -> Option<Vec<u8>> {
    let s = s.strip_prefix('x')?;
    if s.len() % 2 != 0 { return None; }
    (0..s.len() / 2).map(|i| u8::from_str_radix(&s[2 * i..2 * i + 2], 16).ok()).collect()
}

// ------------------------------------------------------------------ registry

#[derive(Clone)]
enum ProcDesc { Tracer, Graph(bool), Rib(String, u8, u8), Mrt(String, bool), RouterList(String), Dead }

struct Registry {
    desc: String,
    compress: bool,
    procs: Vec<ProcDesc>,
    /// generator expectations (`expect`) are only valid where no processor shadows another
    plain: bool,
    resources: vh::Resources,
    metrics: vh::MetricsCollection,
    // keep the processors (the registry holds weak pointers) and the manager alive
    _keep: Vec<Arc<dyn vh::ProcessRequest>>,
    _manager: Arc<rotonda::manager::Manager>,
}

fn desc_of(compress: bool, procs: &[ProcDesc]) -> String {
    let mut parts = vec![format!("z{}", compress as u8)];
    for p in procs {
        parts.push(match p {
            ProcDesc::Tracer => "T".into(),
            ProcDesc::Graph(empty) => if *empty { "Ge".into() } else { "G".into() },
            ProcDesc::RouterList(b) => format!("L:{}", hex(b.as_bytes())),
            ProcDesc::Dead => "D".into(),
            ProcDesc::Rib(b, a, c) => format!("R:{}:{}:{}", hex(b.as_bytes()), a, c),
            ProcDesc::Mrt(b, d) => format!("M:{}:{}", hex(b.as_bytes()), *d as u8),
        });
    }
    parts.join(";")
}

/// `layout`: list of (descriptor, is_sub_resource) registered in that order *after* the
/// manager's own `/status/graph` and `/status/traces` (which `Manager::new` registers as
/// sub-resources: order `[tracer, graph]`).
fn build_registry(rt: &tokio::runtime::Runtime, compress: bool, layout: &[(ProcDesc, bool)], mrt_dir: &PathBuf, plain: bool) -> Registry {
    let _g = rt.enter();
    let manager = Arc::new(rotonda::manager::Manager::new());
    let mut resources = manager.http_resources();
    vh::set_compress_responses(&mut resources, compress);
    let ingresses = Arc::new(rotonda::ingress::Register::default());
    let mut order: Vec<ProcDesc> = vec![ProcDesc::Tracer, ProcDesc::Graph(true)];
    let mut keep: Vec<Arc<dyn vh::ProcessRequest>> = vec![];
    let mut dead: Vec<Arc<dyn vh::ProcessRequest>> = vec![];
    for (d, sub) in layout {
        let p: Arc<dyn vh::ProcessRequest> = match d {
            ProcDesc::Rib(base, v4, v6) => vh::mk_physical_prefixes_api(base, *v4, *v6, ingresses.clone()),
            ProcDesc::Mrt(base, has_dir) => {
                let (p, mut rx) = vh::mk_mrt_processor(base, if *has_dir { Some(mrt_dir.clone()) } else { None }, 16);
                // the harness plays the unit's queue consumer: every enqueued file "is processed"
                rt.spawn(async move {
                    while let Some((_path, tx)) = rx.recv().await {
                        if let Some(tx) = tx { let _ = tx.send(Ok("done".to_string())); }
                    }
                });
                p
            }
            ProcDesc::Dead => vh::mk_physical_prefixes_api("/", 0, 0, ingresses.clone()),
            _ => unreachable!(),
        };
        let base = match d { ProcDesc::Rib(b, _, _) | ProcDesc::Mrt(b, _) => b.clone(), _ => "/".into() };
        resources.register(Arc::downgrade(&p), "c".into(), "rib", &base, *sub);
        if *sub { order.insert(0, d.clone()); } else { order.push(d.clone()); }
        if matches!(d, ProcDesc::Dead) { dead.push(p); } else { keep.push(p); }
    }
    drop(dead); // registered, then the component went away: the weak pointer no longer upgrades
    Registry { desc: desc_of(compress, &order), compress, procs: order, plain, resources, metrics: Default::default(), _keep: keep, _manager: manager }
}

/// A registry produced by the real start-up path: `Manager::load` + `prepare` + `spawn` of a
/// real configuration (bmp-tcp-in -> rib -> null-out, plus an mrt-file-in unit) on the harness
/// runtime. The units register their own processors; the link report (and with it a non-empty
/// `/status/graph`) appears once all components run.
fn build_live(rt: &tokio::runtime::Runtime, compress: bool) -> Option<Registry> {
    use rotonda::config::{ConfigFile, Source};
    let toml = r#"
http_listen = ["127.0.0.1:0"]

[units.bmp-in]
type = "bmp-tcp-in"
listen = "127.0.0.1:0"

[units.mrt-in]
type = "mrt-file-in"
filename = []

[units.rib]
type = "rib"
sources = ["bmp-in", "mrt-in"]

[targets.null]
type = "null-out"
sources = ["rib"]
"#;
    let _g = rt.enter();
    let mut manager = rotonda::manager::Manager::new();
    let file = ConfigFile::new(toml.as_bytes().to_vec(), Source::default()).ok()?;
    let mut config = manager.load(&file).ok()?;
    manager.prepare(&config, &file).ok()?;
    let before = manager.link_report_updated_at();
    manager.spawn(&mut config);
    let ready = rt.block_on(async {
        for _ in 0..1500 {
            if manager.link_report_updated_at() != before { return true; }
            tokio::time::sleep(std::time::Duration::from_millis(10)).await;
        }
        false
    });
    if !ready { return None; }
    let mut resources = manager.http_resources();
    vh::set_compress_responses(&mut resources, compress);
    // units register in start-up order; their base paths do not overlap, so the order among them is immaterial
    let procs = vec![ProcDesc::Tracer, ProcDesc::Graph(false), ProcDesc::RouterList("/routers/".into()),
        ProcDesc::Mrt("/mrt/mrt-in/".into(), false), ProcDesc::Rib("/prefixes/".into(), 8, 19)];
    Some(Registry { desc: desc_of(compress, &procs), compress, procs, plain: true, resources, metrics: manager.metrics(), _keep: vec![], _manager: Arc::new(manager) })
}

// --------------------------------------------------------------------- cases

#[derive(Clone, Debug)]
struct Case { method: String, path: Vec<u8>, query: Option<Vec<u8>>, ae: Option<Vec<u8>>, ae2: Option<Vec<u8>>, expect: Option<u16>, kind: &'static str }

#[derive(Debug, PartialEq)]
enum Obs { Resp { status: u16, gzip: bool, body_nonempty: bool, gzip_valid: bool }, Panic(String) }

fn build_request(c: &Case) -> Option<Request<Body>> {
    let mut target = c.path.clone();
    if let Some(q) = &c.query { target.push(b'?'); target.extend_from_slice(q); }
    let uri = Uri::from_maybe_shared(bytes::Bytes::from(target)).ok()?;
    let method = Method::from_bytes(c.method.as_bytes()).ok()?;
    let mut b = Request::builder().method(method).uri(uri);
    if let Some(ae) = &c.ae { b = b.header("Accept-Encoding", HeaderValue::from_bytes(ae).ok()?); }
    if let Some(ae) = &c.ae2 { b = b.header("Accept-Encoding", HeaderValue::from_bytes(ae).ok()?); }
    b.body(Body::empty()).ok()
}

fn gunzip(b: &[u8]) -> Option<Vec<u8>> {
    use std::io::Read;
    let mut out = vec![];
    flate2::read::GzDecoder::new(b).read_to_end(&mut out).ok()?;
    Some(out)
}

fn run_real(rt: &tokio::runtime::Runtime, reg: &Registry, req: Request<Body>) -> Obs {
    PANIC_AT.with(|p| p.borrow_mut().clear());
    let r = catch_unwind(AssertUnwindSafe(|| {
        rt.block_on(async {
            let res = vh::handle_request(req, &reg.metrics, &reg.resources).await;
            let status = res.status().as_u16();
            let gzip = res.headers().get_all("Content-Encoding").iter().any(|v| v.as_bytes() == b"gzip");
            let body = hyper::body::to_bytes(res.into_body()).await.map(|b| b.to_vec()).unwrap_or_default();
            (status, gzip, body)
        })
    }));
    match r {
        Ok((status, gzip, body)) => {
            let (plain, gzip_valid) = if gzip { match gunzip(&body) { Some(p) => (p, true), None => (vec![], false) } } else { (body, true) };
            Obs::Resp { status, gzip, body_nonempty: !plain.is_empty(), gzip_valid }
        }
        Err(_) => Obs::Panic(PANIC_AT.with(|p| p.borrow().clone())),
    }
}

fn show_obs(o: &Obs) -> String {
    match o {
        Obs::Resp { status, gzip, body_nonempty, .. } => format!("{} g{} r{}", status, *gzip as u8,
            if *status == 400 { if *body_nonempty { "1" } else { "0" } } else { "-" }),
        Obs::Panic(at) => format!("panic ## at={}", at),
    }
}

/// Own percent-decoding + lossy UTF-8 (the oracle does not call rotonda for its judgement).
fn oracle_decode(raw: &[u8]) -> String {
    let mut out = vec![];
    let mut i = 0;
    while i < raw.len() {
        if raw[i] == b'%' && i + 2 < raw.len() {
            let h = (raw[i + 1] as char).to_digit(16);
            let l = (raw[i + 2] as char).to_digit(16);
            if let (Some(h), Some(l)) = (h, l) { out.push((h * 16 + l) as u8); i += 3; continue; }
        }
        out.push(raw[i]);
        i += 1;
    }
    String::from_utf8_lossy(&out).into_owned()
}

/// RFC 9110 §12.5.3 reading of a *well-formed* header: is `gzip` listed with a non-zero weight?
/// `None` = the oracle does not judge this header (not visible ASCII, wildcard, odd syntax).
fn clearly_accepts_gzip(h: &[u8]) -> Option<bool> {
    if !h.iter().all(|b| *b == b'\t' || (32..127).contains(b)) { return None; }
    let s = std::str::from_utf8(h).ok()?;
    let mut verdict = Some(false);
    for el in s.split(',') {
        let el = el.trim();
        let (coding, params) = match el.split_once(';') { Some((c, p)) => (c.trim(), Some(p.trim())), None => (el, None) };
        if coding == "*" { return None; }
        if coding.eq_ignore_ascii_case("gzip") {
            if coding != "gzip" { return None; }
            match params {
                None => verdict = Some(true),
                Some(_) => return None, // weights: judged separately, not by this oracle
            }
        } else if coding.to_ascii_lowercase().contains("gzip") { return None; }
    }
    verdict
}

fn classify_panic(at: &str) -> String {
    let file = at.split(':').next().unwrap_or("");
    if file.ends_with("src/http.rs") && at.contains("ToStrError") { "panic:http.rs:accept-encoding-to-str-unwrap".into() }
    else if at.contains("is_not_a_char_boundary") && at.contains("/traces/") { "panic:manager.rs:graph-traces-split-at".into() }
    else if file.contains("layout-rs") && at.contains("Sorting_an_empty_graph") { "panic:manager.rs:graph-empty-layout".into() }
    else if file.contains("inetnum") && file.ends_with("asn.rs") && at.contains("char_boundary") { "panic:rib-request.rs:asn-from-str-on-non-ascii".into() }
    else { format!("panic:other:{}", at.split(' ').next().unwrap_or("?")) }
}

fn deps_of(reg: &Registry, req: &Request<Body>, mrt_dir: &PathBuf) -> String {
    let mut d: BTreeMap<String, String> = BTreeMap::new();
    let dec = req.uri().decoded_path().into_owned();
    for p in &reg.procs {
        if let ProcDesc::Rib(base, _, _) = p {
            if let Some(suffix) = dec.strip_prefix(base.as_str()) {
                let v = match catch_unwind(|| inetnum::addr::Prefix::from_str(suffix)) {
                    Ok(Ok(p)) => format!("{}.{}", if p.is_v4() { 4 } else { 6 }, p.len()),
                    _ => "e".into(),
                };
                d.insert(format!("p:{}", hex(suffix.as_bytes())), v);
            }
        }
    }
    let params = rotonda::http::extract_params(req);
    let canon_dir = mrt_dir.canonicalize().ok();
    for p in params.iter().take(12) {
        let v = p.value();
        // the model asks the ASN / community parsers only about values of `select…` / `discard…` parameters (every comma
        // piece); short values of other parameters are supplied as well (a model that asked for them would be told), long
        // ones are not repeated three times on the case line
        let filterish = matches!(p.name().split(&['[', ']'][..]).next(), Some("select") | Some("discard"));
        let mut pieces: Vec<&str> = if filterish { v.split(',').collect() } else if v.len() <= 64 { v.split(',').take(8).collect() } else { vec![] };
        if filterish || v.len() <= 64 { pieces.push(v); }
        for piece in pieces {
            // "1" Ok, "0" Err, "p" the dependency's parser panics itself
            let tri = |r: std::thread::Result<bool>| match r { Ok(true) => "1", Ok(false) => "0", Err(_) => "p" }.to_string();
            let a = tri(catch_unwind(|| inetnum::asn::Asn::from_str(piece).is_ok()));
            let c = tri(catch_unwind(|| routecore::bgp::communities::HumanReadableCommunity::from_str(piece).is_ok()));
            d.insert(format!("a:{}", hex(piece.as_bytes())), a);
            d.insert(format!("c:{}", hex(piece.as_bytes())), c);
        }
        if p.name() == "file" {
            let verdict = match &canon_dir {
                None => "m",
                Some(dir) => {
                    let mut full = dir.clone();
                    full.push(std::path::Path::new(v));
                    match full.canonicalize() {
                        Err(_) => "m",
                        Ok(c) => if c.ancestors().any(|a| a == dir) { "i" } else { "o" },
                    }
                }
            };
            d.insert(format!("f:{}", hex(v.as_bytes())), verdict.into());
        }
    }
    if d.is_empty() { "-".into() } else { join(d.iter().map(|(k, v)| format!("{k}={v}")), " ") }
}

fn run_case(rec: &mut Recorder, rt: &tokio::runtime::Runtime, reg: &Registry, c: &Case, mrt_dir: &PathBuf) -> Option<Obs> {
    let req = match build_request(c) { Some(r) => r, None => { rec.bump("gen.rejected-by-http-parser"); return None; } };
    // what the handler sees after hyper's parsing
    let path = req.uri().path().as_bytes().to_vec();
    let query = req.uri().query().map(|q| q.as_bytes().to_vec());
    let deps = deps_of(reg, &req, mrt_dir);
    let case = format!("{}|{}|{}|{}|{}|{}", reg.desc, c.method, hex(&path),
        query.as_ref().map(|q| hex(q)).unwrap_or("-".into()), c.ae.as_ref().map(|a| hex(a)).unwrap_or("-".into()), deps);
    let obs = run_real(rt, reg, req);

    // ---- the property, judged on the real behaviour only
    let mut fails: Vec<String> = vec![];
    let dec = oracle_decode(&path);
    match &obs {
        Obs::Panic(at) => fails.push(format!("{} a request made the handler panic at {}", classify_panic(at), at)),
        Obs::Resp { status, gzip, body_nonempty, gzip_valid } => {
            if ![200u16, 400, 404, 405].contains(status) { fails.push(format!("unexpected-status:{} not one of 200/400/404/405", status)); }
            if c.method != "GET" && *status != 405 { fails.push(format!("non-get-not-405 method {} answered {}", c.method, status)); }
            if c.method == "GET" && *status == 405 { fails.push("get-answered-405".into()); }
            if *status == 400 && !*body_nonempty { fails.push("bad-request-without-reason 400 with an empty body".into()); }
            if *gzip {
                if !*gzip_valid { fails.push("gzip-body-invalid Content-Encoding: gzip but the body does not gunzip".into()); }
                if !reg.compress { fails.push("gzip-while-compression-off".into()); }
                let accepts = c.ae.as_ref().map(|h| h.windows(4).any(|w| w == b"gzip")).unwrap_or(false);
                if !accepts { fails.push("gzip-not-accepted gzip-encoded although the client did not list gzip".into()); }
            } else if reg.compress && c.method == "GET" {
                if let Some(true) = c.ae.as_ref().and_then(|h| clearly_accepts_gzip(h)) { fails.push("gzip-missing client accepts gzip, compression on, answer not encoded".into()); }
            }
            if c.method == "GET" {
                let claimed = dec == "/metrics" || dec == "/status" || dec == "/status/traces" || dec.starts_with("/status/graph")
                    || reg.procs.iter().any(|p| match p { ProcDesc::Rib(b, _, _) | ProcDesc::Mrt(b, _) => dec.starts_with(b.as_str()), ProcDesc::RouterList(b) => dec == *b, _ => false });
                if !claimed && *status != 404 { fails.push(format!("unknown-path-not-404 answered {}", status)); }
                if let Some(e) = c.expect.filter(|_| reg.plain) { if *status != e { fails.push(format!("expected-{}-got-{} generator class {}", e, status, c.kind)); } }
            }
        }
    }
    // the server keeps answering afterwards
    let follow = build_request(&Case { method: "GET".into(), path: b"/status".to_vec(), query: None, ae: None, ae2: None, expect: None, kind: "follow-up" }).unwrap();
    match run_real(rt, reg, follow) {
        Obs::Resp { status: 200, .. } => {}
        o => fails.push(format!("wedged-after-request follow-up GET /status gave {}", show_obs(&o))),
    }
    let oracle = if fails.is_empty() { "ok".to_string() } else { format!("fail {}", fails[0]) };
    let nontrivial = c.method == "GET" && match &obs { Obs::Panic(_) => true, Obs::Resp { status, .. } => *status == 200 || *status == 400 || c.ae.is_some() };
    rec.bump(&format!("kind.{}", c.kind));
    rec.bump(&match &obs { Obs::Panic(_) => "obs.panic".to_string(), Obs::Resp { status, gzip, .. } => format!("obs.{}{}", status, if *gzip { ".gzip" } else { "" }) });
    rec.case(case, show_obs(&obs), oracle, nontrivial);
    Some(obs)
}

// ----------------------------------------------------------------- generator

fn pct(b: u8) -> Vec<u8> { format!("%{:02X}", b).into_bytes() }

struct Gen { rng: Rng, brackets: u64 }
impl Gen {
    fn maybe_pct(&mut self, s: &[u8], num: u64) -> Vec<u8> {
        // percent-encode some characters of an ASCII path (a client may do that to any byte)
        let mut out = vec![];
        for &b in s { if self.rng.chance(num, 100) { out.extend(pct(b)); } else { out.push(b); } }
        out
    }
    fn junk_segment(&mut self) -> Vec<u8> {
        let n = self.rng.range(0, 12);
        let mut out = vec![];
        for _ in 0..n {
            match self.rng.below(8) {
                0 => out.extend(pct(self.rng.below(256) as u8)),                  // any byte, incl. invalid UTF-8
                1 => out.extend("€".bytes().flat_map(pct)),                      // 3-byte char
                2 => out.extend("é".bytes().flat_map(pct)),                      // 2-byte char
                3 => out.extend("😀".bytes().flat_map(pct)),                     // 4-byte char
                4 => out.extend(pct(*self.rng.pick(&[0xE2u8, 0xF0, 0xC3, 0x80, 0xBF, 0xED, 0xA0]))), // truncated / lone
                5 => out.push(*self.rng.pick(b"%/:+.-_~!$&'()*,;=@")),
                _ => out.push(*self.rng.pick(b"abcdefghijklmnopqrstuvwxyzABCXYZ0123456789")),
            }
        }
        out
    }
    fn prefix_str(&mut self) -> (String, Option<u16>) {
        match self.rng.below(12) {
            0 => (format!("{}.{}.{}.0/24", self.rng.below(256), self.rng.below(256), self.rng.below(256)), Some(200)),
            1 => (format!("{}.0.0.0/8", self.rng.below(224)), Some(200)),
            2 => (format!("{}.{}.{}.{}/32", self.rng.below(256), self.rng.below(256), self.rng.below(256), self.rng.below(256)), Some(200)),
            3 => ("2001:db8::/32".into(), Some(200)),
            4 => (format!("2804:{:x}:100::/48", self.rng.below(65536)), Some(200)),
            5 => ("1.2.3.4/24".into(), Some(400)),              // host bits set
            6 => (format!("10.0.0.0/{}", self.rng.range(33, 300)), Some(400)),
            7 => ("not_a_valid_prefix".into(), Some(400)),
            8 => ("::/0".into(), Some(200)),
            9 => ("0.0.0.0/0".into(), Some(200)),
            10 => ("2001:db8::1/64".into(), Some(400)),
            _ => (format!("{}.{}.0.0/16", self.rng.below(256), self.rng.below(256)), Some(200)),
        }
    }
    /// A parameter whose *name* has one of the bracket shapes a hand-written name parser can trip over:
    /// unclosed, empty, doubled, trailing text, percent-encoded brackets, a multi-byte character next to a
    /// bracket. `needles` are names the addressed endpoint looks up.
    fn bracket_param(&mut self, needles: &[&str], value: &str) -> String {
        let n = *self.rng.pick(needles);
        let f = *self.rng.pick(&["as_path", "peer_as", "community", "x", "", "%C3%A9", "a%E2%82%AC", "]", "["]);
        let name = match self.rng.below(16) {
            0 => format!("{n}["), 1 => format!("{n}[]"), 2 => format!("{n}]"), 3 => format!("{n}[{f}"), 4 => format!("{n}[{f}]x"),
            5 => format!("{n}[{f}]b[c]"), 6 => format!("{n}[[{f}]]"), 7 => format!("[{n}]"), 8 => format!("{n}%5B{f}%5D"), 9 => format!("{n}%5B"),
            10 => format!("{n}%5B{f}"), 11 => format!("{n}[{f}]%C3%A9"), 12 => format!("{n}][{f}"), 13 => format!("{n}[{f}]]"), 14 => format!("{n}%5D"),
            _ => format!("{n}[{f}]"),
        };
        self.brackets += 1;
        if self.rng.chance(1, 6) { name } else { format!("{name}={value}") }
    }
    fn rib_query(&mut self) -> (Option<Vec<u8>>, bool) {
        // returns (query, all parameters certainly valid and harmless)
        if self.rng.chance(35, 100) { return (None, true); }
        let mut parts: Vec<String> = vec![];
        let mut good = true;
        for _ in 0..self.rng.range(1, 4) {
            let (p, ok): (&str, bool) = *self.rng.pick(&[
                ("include=lessSpecifics", true), ("include=moreSpecifics", false), ("include=lessSpecifics,moreSpecifics", false),
                ("include=", false), ("include=bogus", false), ("details=communities", true), ("details=x", false),
                ("select[as_path]=AS1,AS2", true), ("select[as_path]=1,x", false), ("select[peer_as]=65000", true), ("select[peer_as]=", false),
                ("discard[community]=BLACKHOLE", true), ("discard[community]=65000:1", true), ("select[community]=zzz", false),
                ("select=1", false), ("select[nope]=1", false), ("filter_op=any", true), ("filter_op=all", true), ("filter_op=some", false),
                ("sort=/a/b", true), ("format=dump", true), ("format=json", false), ("unknown=1", false), ("include[x]=lessSpecifics", true),
                ("select%5Bas_path%5D=1", true), ("include=less%53pecifics", true), ("a+b=c+d", false), ("=", false), ("&", true), ("format", false),
                ("select[as_path]=4294967296", false), ("select[as_path", false), ("details=communities,communities", true),
                ("select[peer_as]=a%C3%A9", false), ("select[as_path]=1,a%C3%A9", false), ("discard[peer_as]=%E2%82%AC1", false), ("select[community]=a%C3%A9", false),
                ("select[as_path]=x,a%C3%A9", false), ("discard[as_path]=AS1,%F0%9F%98%80", false), ("select[peer_as]=AS%C3%A9", false),
            ]);
            good &= ok;
            parts.push(p.to_string());
        }
        if self.rng.chance(1, 5) {
            let v = *self.rng.pick(&["1", "AS1", "lessSpecifics", "", "65000:1"]);
            let p = self.bracket_param(&["select", "discard", "include", "details", "sort", "format", "filter_op"], v);
            let at = self.rng.below(parts.len() as u64 + 1) as usize;
            parts.insert(at, p);
            good = false;
        }
        // duplicates of single-valued parameters are "unrecognized" (only the first is marked used)
        let names: Vec<&str> = parts.iter().map(|p| p.split(['=', '[', '%']).next().unwrap()).collect();
        for n in ["include", "details", "filter_op", "sort", "format"] { if names.iter().filter(|x| **x == n).count() > 1 { good = false; } }
        (Some(parts.join("&").into_bytes()), good)
    }
    fn accept_encoding(&mut self) -> Option<Vec<u8>> {
        match self.rng.below(20) {
            0..=6 => None,
            7 | 8 => Some(b"gzip".to_vec()),
            9 => Some(b"gzip, deflate, br".to_vec()),
            10 => Some(b"identity".to_vec()),
            11 => Some(b"deflate,\tgzip".to_vec()),
            12 => Some(b"GZIP".to_vec()),
            13 => Some(b"br;q=1.0, gzip;q=0.8".to_vec()),
            14 => Some(vec![0xff, b'g']),
            15 => { let mut v = b"gzip".to_vec(); v.insert(self.rng.below(5) as usize, self.rng.range(128, 255) as u8); Some(v) }
            16 => Some(b"".to_vec()),
            17 => Some("gzip, ünicode".as_bytes().to_vec()),
            18 => { let n = self.rng.range(1, 10); Some((0..n).map(|_| { let b = self.rng.range(32, 255) as u8; if b == 127 { 9 } else { b } }).collect()) }
            _ => Some(b"xgzipx".to_vec()),
        }
    }
    fn case(&mut self, reg: &Registry) -> Case {
        let method = if self.rng.chance(88, 100) { "GET".to_string() } else { self.rng.pick(&["POST", "HEAD", "PUT", "DELETE", "OPTIONS", "PATCH", "TRACE", "CONNECT", "FOO", "get"]).to_string() };
        let ribs: Vec<String> = reg.procs.iter().filter_map(|p| if let ProcDesc::Rib(b, _, _) = p { Some(b.clone()) } else { None }).collect();
        let mrts: Vec<(String, bool)> = reg.procs.iter().filter_map(|p| if let ProcDesc::Mrt(b, d) = p { Some((b.clone(), *d)) } else { None }).collect();
        let mut query = None;
        let mut expect = None;
        let kind;
        let path: Vec<u8> = match self.rng.below(100) {
            0..=9 => { kind = "fixed"; expect = Some(200); self.rng.pick(&["/metrics", "/status", "/status/traces"]).as_bytes().to_vec() }
            10..=14 => { kind = "fixed-encoded"; let p = self.rng.pick(&["/metrics", "/status", "/status/traces"]).as_bytes().to_vec(); let mut e = self.maybe_pct(&p[1..], 25); e.insert(0, b'/'); expect = Some(200); e }
            15..=19 => { kind = "fixed-near"; let mut p = self.rng.pick(&["/metrics", "/status", "/status/traces", "/Status", "/metrics/"]).as_bytes().to_vec(); p.extend(self.junk_segment()); p }
            20..=27 => { kind = "graph-traces"; if reg.procs.iter().any(|p| matches!(p, ProcDesc::Graph(false))) { expect = Some(200); } format!("/status/graph/traces/{}", self.rng.pick(&["0", "7", "255", "256", "abc", "", "+1", "-1"])).into_bytes() }
            28..=37 => { kind = "graph-junk"; let mut p = b"/status/graph".to_vec(); p.extend(self.junk_segment()); if self.rng.chance(70, 100) { p.extend(b"/traces/"); p.extend(self.junk_segment()); } p }
            38..=57 => {
                kind = "rib-prefix";
                let base = self.rng.pick(&ribs).clone();
                let (pfx, exp) = self.prefix_str();
                let (q, good) = self.rib_query();
                query = q;
                let enc = if self.rng.chance(30, 100) { self.maybe_pct(pfx.as_bytes(), 20).into_iter().collect::<Vec<u8>>() } else { pfx.clone().into_bytes() };
                let slash_kept = enc.iter().filter(|b| **b == b'/').count() == pfx.bytes().filter(|b| *b == b'/').count();
                let segs = base.matches('/').count() + pfx.matches('/').count() + 1;
                if slash_kept && segs != 3 { expect = if exp == Some(200) && !good { None } else if exp == Some(200) { Some(200) } else { exp }; }
                let mut p = base.into_bytes(); p.extend(enc); p
            }
            58..=65 => {
                kind = "rib-ingress";
                let base = self.rng.pick(&ribs).clone();
                let id = self.rng.pick(&["0", "1", "42", "4294967295", "4294967296", "+7", "-1", "abc", "", "1.2.3.4", "００７"]).to_string();
                let mut p = base.into_bytes(); p.extend(self.maybe_pct(id.as_bytes(), if id.is_ascii() { 10 } else { 100 })); p
            }
            66..=71 => { kind = "rib-junk"; let mut p = self.rng.pick(&ribs).clone().into_bytes(); p.extend(self.junk_segment()); if self.rng.chance(50, 100) { p.push(b'/'); p.extend(self.junk_segment()); } query = self.rib_query().0; p }
            72..=83 => {
                kind = "mrt";
                let (base, has_dir) = self.rng.pick(&mrts).clone();
                let file = self.rng.pick(&["a.mrt", "sub/b.mrt", "missing.mrt", "../outside.mrt", "/etc/passwd", "", "sub/../a.mrt", "sub/../../outside.mrt", "a.mrt%00", "link-out", "sub"]).to_string();
                let q = match self.rng.below(9) { 0 => None, 8 => Some(self.bracket_param(&["file"], &file)), 1 => Some(format!("file[x]={file}")), 2 => Some(format!("x=1&file={file}")), 3 => Some(format!("file={file}&file=a.mrt")), _ => Some(format!("file={file}")) };
                query = q.map(|s| s.into_bytes());
                let action = self.rng.pick(&["queue", "queue/", "queued", "que", "", "Queue", "queue%2F"]).to_string();
                if !has_dir && action.starts_with("queue") { expect = Some(400); }
                let mut p = base.into_bytes(); p.extend(action.bytes()); p
            }
            84..=86 if reg.procs.iter().any(|p| matches!(p, ProcDesc::RouterList(_))) => {
                kind = "router-list";
                let sb = self.rng.pick(&["addr", "sys_name", "sys_desc", "state", "peers_up", "peers_up_eor_capable", "peers_up_dumping", "peers_up_eor_capable_pc", "peers_up_dumping_pc", "invalid_messages", "soft_parse_errors", "hard_parse_errors", "bogus", "", "Addr"]).to_string();
                let so = self.rng.pick(&["asc", "desc", "up", ""]).to_string();
                query = match self.rng.below(7) { 0 => None, 6 => Some(format!("{}&sort_order={so}", self.bracket_param(&["sort_by", "sort_order"], &sb))), 1 => Some(format!("sort_by={sb}")), 2 => Some(format!("sort_order={so}")), 3 => Some(format!("sort_by[x]={sb}&sort_order={so}&other=1")), _ => Some(format!("sort_by={sb}&sort_order={so}")) }.map(|s| s.into_bytes());
                self.rng.pick(&["/routers/", "/routers", "/routers/1", "/Routers/", "/routers/%2F"]).as_bytes().to_vec()
            }
            84..=89 => { kind = "unknown"; let mut p = b"/".to_vec(); p.extend(self.junk_segment()); if self.rng.chance(40, 100) { p.push(b'/'); p.extend(self.junk_segment()); } p }
            90..=92 => { kind = "overlong"; let n = self.rng.range(2000, 20000) as usize; let mut p = self.rng.pick(&["/", "/status/graph", "/prefixes/", "/status"]).as_bytes().to_vec(); let unit = self.rng.pick(&["a", "%E2%82%AC", "/", "%FF", "/traces/"]).as_bytes().to_vec(); while p.len() < n { p.extend(&unit); } p }
            93..=95 => { kind = "other-form"; self.rng.pick(&["*", "http://example.net/status", "http://example.net/prefixes/1.2.3.0/24", "example.net:80", "/status#frag", "//status", "/./status", "/status/../metrics"]).as_bytes().to_vec() }
            _ => { kind = "raw-bytes"; let n = self.rng.range(1, 10); let mut p = b"/".to_vec(); for _ in 0..n { p.push(self.rng.range(1, 255) as u8); } p }
        };
        if query.is_none() && self.rng.chance(8, 100) { query = Some(self.junk_segment()); if kind == "rib-prefix" { expect = None; } }
        if method != "GET" { expect = None; }
        let ae = self.accept_encoding();
        let ae2 = if ae.is_some() && self.rng.chance(5, 100) { Some(b"gzip".to_vec()) } else { None };
        Case { method, path, query, ae, ae2, expect, kind }
    }
    /// byte-level mutation of a structured case: the malformed stream
    fn mutate(&mut self, mut c: Case) -> Case {
        c.expect = None; c.kind = "mutated";
        for _ in 0..self.rng.range(1, 3) {
            if c.path.is_empty() { break; }
            let i = self.rng.below(c.path.len() as u64) as usize;
            match self.rng.below(5) {
                0 => { c.path.remove(i); }
                1 => { let j = self.junk_segment(); c.path.splice(i..i, j); }
                2 => { c.path[i] = b'%'; }
                3 => { let b = c.path[i]; c.path.splice(i..=i, pct(b)); }
                _ => { c.path.insert(i, b'/'); }
            }
        }
        if !c.path.starts_with(b"/") { c.path.insert(0, b'/'); }
        if let Some(q) = &mut c.query { if !q.is_empty() && self.rng.chance(50, 100) { let i = self.rng.below(q.len() as u64) as usize; q[i] = *self.rng.pick(b"&=[]%+,"); } }
        c
    }
}


// ------------------------------------------------------------ long text values
//
// "Every request" includes requests whose text fields are long. For every endpoint and every place a request can carry
// text (path after the base path, every query parameter name the endpoints look up and its value, unknown parameter
// names, the header the handler reads) a stream of values of 63/64/65 … 4095/4096/4097 bytes and a few random lengths up
// to 16 KiB, built from 1-, 2-, 3- and 4-byte UTF-8 characters behind 0..3 leading ASCII bytes (so that a character
// straddles any fixed byte offset in one of the four), percent-encoded / raw / fully percent-encoded, naming things
// that exist (files and directories below the update directory, accepted parameter values) and things that do not.

#[derive(Clone, Copy, PartialEq, Debug)]
enum Cls { One, Two, Three, Four, Mix }
#[derive(Clone, Copy, PartialEq, Debug)]
enum Enc { Raw, Pct, PctAll }
const CLASSES: [Cls; 5] = [Cls::One, Cls::Two, Cls::Three, Cls::Four, Cls::Mix];
const LONG_LENS: [usize; 18] = [63, 64, 65, 127, 128, 129, 255, 256, 257, 511, 512, 513, 1023, 1024, 1025, 4095, 4096, 4097];
/// lengths for which files with such names exist below the update directory (NAME_MAX = 255)
const DISK_NAME_LENS: [usize; 7] = [63, 64, 65, 127, 128, 129, 255];
const CHAIN_COMP: usize = 31;
const CHAIN_DEPTH: usize = 118;

/// Exactly `len` bytes of UTF-8: `lead` ASCII bytes, characters of the class, ASCII padding (< 4 bytes) at the end.
/// Only characters that are literal in a path segment, a query component and a file name.
fn long_text(len: usize, cls: Cls, lead: usize, salt: usize) -> String {
    let mut s = String::with_capacity(len + 4);
    for i in 0..lead.min(len) { s.push(b"xyz"[(i + salt) % 3] as char); }
    let units: &[&str] = match cls {
        Cls::One => &["x", "y", "z", "w", "_", "-"],
        Cls::Two => &["é", "ß", "ü"],
        Cls::Three => &["€", "語", "ア"],
        Cls::Four => &["😀", "𝄞", "🦀"],
        Cls::Mix => &["é", "€", "😀", "z"],
    };
    let mut i = salt;
    loop { let u = units[i % units.len()]; if s.len() + u.len() > len { break; } s.push_str(u); i += 1; }
    while s.len() < len { s.push('w'); }
    s
}

fn enc_text(s: &str, enc: Enc) -> Vec<u8> {
    let mut out = Vec::with_capacity(s.len() * 3);
    for &b in s.as_bytes() {
        let literal = match enc { Enc::Raw => true, Enc::Pct => b < 128 && b != b' ', Enc::PctAll => false };
        if literal { out.push(b); } else { out.extend(pct(b)); }
    }
    out
}

/// Long names that exist below the update directory: files whose name is `long_text(len, cls, lead, 0)` for the lengths a
/// file name can have, and per class a chain of nested directories (every component the same 31-byte name), reached with
/// `.` + slashes in front so that a path of any length up to ~3.7 kB exists.
fn make_long_names(mrt_dir: &PathBuf) {
    for cls in CLASSES { for lead in 0..4 { for len in DISK_NAME_LENS {
        let _ = std::fs::write(mrt_dir.join(long_text(len, cls, lead, 0)), b"x");
    } } }
    for cls in CLASSES {
        let comp = long_text(CHAIN_COMP, cls, 0, 0);
        let mut d = mrt_dir.clone();
        for _ in 0..CHAIN_DEPTH { d.push(&comp); }
        let _ = std::fs::create_dir_all(&d);
    }
}

/// A relative path of exactly `len` bytes that exists below the update directory (if the generator could build one).
fn existing_long_value(len: usize, cls: Cls, lead: usize, via_chain: bool) -> String {
    if !via_chain && DISK_NAME_LENS.contains(&len) { return long_text(len, cls, lead, 0); }
    let comp = long_text(CHAIN_COMP, cls, 0, 0);
    let k = ((len.saturating_sub(1)) / (CHAIN_COMP + 1)).clamp(1, CHAIN_DEPTH);
    let body = vec![comp; k].join("/");
    let pad = len.saturating_sub(body.len()).max(2);
    format!(".{}{}", "/".repeat(pad - 1), body)
}

const RIB_VALUE_NAMES: [&str; 13] = ["include", "details", "filter_op", "sort", "format", "select", "discard",
    "select[as_path]", "select[peer_as]", "select[community]", "discard[as_path]", "discard[peer_as]", "discard[community]"];
const N_PLACES: usize = 66;

impl Gen {
    /// One request with a long text at place number `place` (`< N_PLACES`).
    fn long_case(&mut self, reg: &Registry, mrt_dir: &PathBuf, place: usize, len: usize, cls: Cls, lead: usize, enc: Enc) -> (Case, &'static str) {
        let salt = self.rng.below(6) as usize;
        let t = long_text(len, cls, lead, salt);
        let e = enc_text(&t, enc);
        let es = |x: &str| -> Vec<u8> { enc_text(x, enc) };
        let cat = |parts: &[&[u8]]| -> Vec<u8> { parts.concat() };
        let ribs: Vec<String> = reg.procs.iter().filter_map(|p| if let ProcDesc::Rib(b, _, _) = p { Some(b.clone()) } else { None }).collect();
        let mrts: Vec<(String, bool)> = reg.procs.iter().filter_map(|p| if let ProcDesc::Mrt(b, d) = p { Some((b.clone(), *d)) } else { None }).collect();
        let lists: Vec<String> = reg.procs.iter().filter_map(|p| if let ProcDesc::RouterList(b) = p { Some(b.clone()) } else { None }).collect();
        let rib = self.rng.pick(&ribs).clone().into_bytes();
        let (mrt, has_dir) = { let with_dir: Vec<&(String, bool)> = mrts.iter().filter(|m| m.1).collect();
            let m = if !with_dir.is_empty() && self.rng.chance(3, 4) { (*self.rng.pick(&with_dir)).clone() } else { self.rng.pick(&mrts).clone() }; (m.0.into_bytes(), m.1) };
        let list = if lists.is_empty() { b"/routers/".to_vec() } else { self.rng.pick(&lists).clone().into_bytes() };
        let good_prefix: &[u8] = *self.rng.pick(&[&b"10.0.0.0/8"[..], b"1.2.3.0/24", b"2001:db8::/32"]);
        let mut path: Vec<u8> = b"/status".to_vec();
        let mut query: Option<Vec<u8>> = None;
        let mut ae: Option<Vec<u8>> = None;
        let mut expect: Option<u16> = None;
        // realpath resolves component by component: a path longer than PATH_MAX exists as long as what it resolves to is shorter
        let on_disk = |v: &str| -> bool { !v.contains('\0') && std::fs::canonicalize(mrt_dir.join(v)).is_ok() };
        let name: &'static str = match place {
            // ---- the path
            0 => { path = cat(&[b"/", &e]); expect = Some(404); "path./T" }
            1 => { path = cat(&[b"/status/", &e]); "path./status/T" }
            2 => { path = cat(&[b"/status", &e]); "path./statusT" }
            3 => { path = cat(&[b"/metrics", &e]); expect = Some(404); "path./metricsT" }
            4 => { path = cat(&[b"/metrics/", &e]); expect = Some(404); "path./metrics/T" }
            5 => { path = cat(&[b"/status/traces", &e]); "path./status/tracesT" }
            6 => { path = cat(&[b"/status/traces/", &e]); "path./status/traces/T" }
            7 => { path = cat(&[b"/status/graph", &e]); "path./status/graphT" }
            8 => { path = cat(&[b"/status/graph/", &e]); "path./status/graph/T" }
            9 => { path = cat(&[b"/status/graph/traces/", &e]); "path./status/graph/traces/T" }
            10 => { path = cat(&[b"/status/graph", &e, b"/traces/7"]); "path./status/graphT/traces/7" }
            11 => { path = cat(&[b"/status/graph/", &e, b"/traces/", &e]); "path./status/graph/T/traces/T" }
            12 => { path = cat(&[&rib, &e]); "path.ribT" }
            13 => { path = cat(&[&rib, &e, b"/24"]); "path.ribT/24" }
            14 => { path = cat(&[&rib, b"10.0.0.0/", &e]); "path.rib-10.0.0.0/T" }
            15 => { path = cat(&[&rib, good_prefix, b"/", &e]); "path.rib-prefix/T" }
            16 => { path = cat(&[&rib, &e, b"/", &e]); "path.ribT/T" }
            17 => { path = cat(&[&mrt, b"queue", &e]); query = Some(b"file=a.mrt".to_vec()); expect = Some(if has_dir { 200 } else { 400 }); "path.mrt-queueT" }
            18 => { path = cat(&[&mrt, b"queue/", &e]); query = Some(b"file=missing.mrt".to_vec()); expect = Some(400); "path.mrt-queue/T" }
            19 => { path = cat(&[&mrt, &e]); query = Some(b"file=a.mrt".to_vec()); "path.mrtT" }
            20 => { path = cat(&[&list, &e]); "path.routersT" }
            21 => { path = cat(&[&list[..list.len() - 1], &e]); "path.routers-no-slash-T" }
            // ---- RIB query: the value of every parameter the endpoint looks up
            22..=34 => {
                let n = RIB_VALUE_NAMES[place - 22];
                path = cat(&[&rib, good_prefix]);
                query = Some(cat(&[&es(n), b"=", &e]));
                if n == "sort" { expect = Some(200); } else { expect = Some(400); }
                // leading ASCII "xyz" is never a keyword, an ASN or a community
                ["rib.include=T", "rib.details=T", "rib.filter_op=T", "rib.sort=T", "rib.format=T", "rib.select=T", "rib.discard=T", "rib.select[as_path]=T", "rib.select[peer_as]=T",
                 "rib.select[community]=T", "rib.discard[as_path]=T", "rib.discard[peer_as]=T", "rib.discard[community]=T"][place - 22]
            }
            35 => { path = cat(&[&rib, good_prefix]); query = Some(cat(&[b"select[as_path]=AS1,", &e])); expect = Some(400); "rib.select[as_path]=AS1,T" }
            36 => { path = cat(&[&rib, good_prefix]); query = Some(cat(&[b"discard[as_path]=", &e, b",AS1"])); expect = Some(400); "rib.discard[as_path]=T,AS1" }
            // accepted long values ("names that exist"): repeated keywords, a long AS path, a long sort pointer
            37 => { path = cat(&[&rib, good_prefix]); let kw = *self.rng.pick(&["include=lessSpecifics", "details=communities"]);
                    let (k, v) = kw.split_once('=').unwrap(); let mut val = v.to_string(); while val.len() + v.len() + 1 <= len { val.push(','); val.push_str(v); }
                    query = Some(cat(&[k.as_bytes(), b"=", &es(&val)])); expect = Some(200); "rib.keyword-list-long-valid" }
            38 => { path = cat(&[&rib, good_prefix]); let mut val = "AS64496".to_string(); let mut i = 0u32; while val.len() + 9 <= len { val.push_str(&format!(",{}", 64497 + (i % 500))); i += 1; }
                    let n = *self.rng.pick(&["select[as_path]", "discard[as_path]"]);
                    query = Some(cat(&[&es(n), b"=", &es(&val)])); expect = Some(200); "rib.as_path-long-valid" }
            39 => { path = cat(&[&rib, good_prefix]); query = Some(cat(&[b"select[", &e, b"]=1"])); expect = Some(400); "rib.select[T]=1" }
            40 => { path = cat(&[&rib, good_prefix]); query = Some(cat(&[b"include[", &e, b"]=lessSpecifics"])); expect = Some(200); "rib.include[T]=ok" }
            41 => { path = cat(&[&rib, good_prefix]); query = Some(cat(&[&e, b"=1"])); expect = Some(400); "rib.T=1" }
            42 => { path = cat(&[&rib, good_prefix]); query = Some(e.clone()); expect = Some(400); "rib.T" }
            43 => { path = cat(&[&rib, good_prefix]); let n = *self.rng.pick(&["include", "select", "sort", "format", "details", "discard", "filter_op"]);
                    query = Some(cat(&[n.as_bytes(), &e, b"=", &e])); expect = Some(400); "rib.nameT=T" }
            44 => { path = cat(&[&rib, b"not_a_prefix"]); query = Some(cat(&[b"sort=", &e])); expect = Some(400); "rib.bad-prefix?sort=T" }
            45 => { path = cat(&[&rib, b"17"]); query = Some(cat(&[&e, b"=", &e])); "rib.ingress?T=T" }
            // ---- mrt queue: `file`
            46 => { path = cat(&[&mrt, b"queue"]); query = Some(cat(&[b"file=", &e])); expect = Some(if has_dir && on_disk(&t) { 200 } else { 400 }); "mrt.file=T" }
            47 | 48 => {
                let v = existing_long_value(len, cls, lead, place == 48);
                path = cat(&[&mrt, b"queue"]); query = Some(cat(&[b"file=", &es(&v)]));
                expect = Some(if has_dir && on_disk(&v) { 200 } else { 400 });
                if place == 47 { "mrt.file=existing-name" } else { "mrt.file=existing-deep-path" }
            }
            49 => { path = cat(&[&mrt, b"queue"]); query = Some(cat(&[b"file=sub/", &e])); expect = Some(400); "mrt.file=sub/T" }
            50 => { path = cat(&[&mrt, b"queue"]); query = Some(cat(&[b"file=", &e, b"/../a.mrt"])); expect = Some(400); "mrt.file=T/../a.mrt" }
            51 => { path = cat(&[&mrt, b"queue"]); query = Some(cat(&[b"file=/", &e])); expect = Some(400); "mrt.file=/T" }
            52 => { path = cat(&[&mrt, b"queue"]); query = Some(cat(&[b"file=../", &e])); expect = Some(400); "mrt.file=../T" }
            53 => { path = cat(&[&mrt, b"queue"]); query = Some(cat(&[b"file[", &e, b"]=a.mrt"])); expect = Some(400); "mrt.file[T]=a.mrt" }
            54 => { path = cat(&[&mrt, b"queue"]); query = Some(cat(&[b"file", &e, b"=a.mrt"])); expect = Some(400); "mrt.fileT=a.mrt" }
            55 => { path = cat(&[&mrt, b"queue"]); query = Some(cat(&[&e, b"=", &e, b"&file=a.mrt"])); expect = Some(if has_dir { 200 } else { 400 }); "mrt.T=T&file=ok" }
            56 => { path = cat(&[&mrt, b"queue"]); query = Some(cat(&[b"file=a.mrt&file=", &e])); expect = Some(if has_dir { 200 } else { 400 }); "mrt.file=ok&file=T" }
            57 => { path = cat(&[&mrt, b"queue"]); query = Some(cat(&[b"file=", &e, b"&file=a.mrt"])); expect = Some(if has_dir && on_disk(&t) { 200 } else { 400 }); "mrt.file=T&file=ok" }
            // ---- router list
            58 => { path = list.clone(); query = Some(cat(&[b"sort_by=", &e])); if !lists.is_empty() { expect = Some(400); } "routers.sort_by=T" }
            59 => { path = list.clone(); query = Some(cat(&[b"sort_order=", &e])); if !lists.is_empty() { expect = Some(400); } "routers.sort_order=T" }
            60 => { path = list.clone(); query = Some(cat(&[b"sort_by[", &e, b"]=addr&sort_order=asc"])); if !lists.is_empty() { expect = Some(200); } "routers.sort_by[T]=addr" }
            61 => { path = list.clone(); query = Some(cat(&[b"sort_by=addr&", &e, b"=", &e])); if !lists.is_empty() { expect = Some(200); } "routers.T=T" }
            // ---- fixed endpoints with a long query
            62 => { path = self.rng.pick(&["/status", "/metrics", "/status/traces"]).as_bytes().to_vec(); query = Some(cat(&[&e, b"=", &e])); expect = Some(200); "fixed?T=T" }
            // ---- the header the handler reads (header values are not percent-decoded: the text goes in as it is)
            63 => { path = self.rng.pick(&["/status", "/metrics", "/prefixes/x"]).as_bytes().to_vec(); ae = Some(e.clone()); "accept-encoding.T" }
            64 => { ae = Some(cat(&[b"gzip, ", &e])); "accept-encoding.gzip,T" }
            _ => { ae = Some(if self.rng.chance(1, 2) { cat(&[&e, b", gzip"]) } else { cat(&[&e, b"gzip"]) }); "accept-encoding.T,gzip" }
        };
        let method = if self.rng.chance(97, 100) { "GET".to_string() } else { self.rng.pick(&["POST", "HEAD", "PUT"]).to_string() };
        if method != "GET" { expect = None; }
        if ae.is_none() && place < 63 { ae = match self.rng.below(4) { 0 => Some(b"gzip".to_vec()), 1 => Some(b"identity".to_vec()), _ => None }; }
        (Case { method, path, query, ae, ae2: None, expect, kind: "long" }, name)
    }
}

fn run_long(rec: &mut Recorder, rt: &tokio::runtime::Runtime, reg: &Registry, mrt_dir: &PathBuf, g: &mut Gen, place: usize, len: usize, listed: bool, cls: Cls, lead: usize, enc: Enc) {
    let (c, name) = g.long_case(reg, mrt_dir, place, len, cls, lead, enc);
    let raw_len = c.path.len() + c.query.as_ref().map(|q| q.len() + 1).unwrap_or(0);
    if raw_len > 65000 { rec.bump("long.skipped-over-http-uri-limit"); return; }
    match run_case(rec, rt, reg, &c, mrt_dir) {
        // http::Uri takes raw bytes >= 0x80 in the path but not in the query: where the raw form is not a legal request the
        // same text is sent percent-encoded
        None if enc == Enc::Raw => { rec.bump(&format!("long.raw-not-legal.{}", name.split('.').next().unwrap_or("?"))); run_long(rec, rt, reg, mrt_dir, g, place, len, listed, cls, lead, Enc::Pct); }
        None => rec.bump(&format!("long.rejected-by-http-parser.{:?}", enc)),
        Some(_) => {
            rec.bump(&format!("long.place.{}", name));
            rec.bump(&if listed { format!("long.len.{:04}", len) } else { "long.len.random<=16384".to_string() });
            rec.bump(&format!("long.chars.{:?}", cls));
            rec.bump(&format!("long.lead.{}", lead));
            rec.bump(&format!("long.enc.{:?}", enc));
        }
    }
}

fn main() {
    let args = parse_args();
    let t0 = Instant::now();
    std::panic::set_hook(Box::new(|info| {
        let loc = info.location().map(|l| format!("{}:{}", l.file(), l.line())).unwrap_or("?".into());
        let msg = info.payload().downcast_ref::<String>().cloned().or_else(|| info.payload().downcast_ref::<&str>().map(|s| s.to_string())).unwrap_or_default();
        let msg: String = msg.chars().map(|c| if c.is_ascii_graphic() { c } else { '_' }).take(120).collect();
        PANIC_AT.with(|p| *p.borrow_mut() = format!("{} {}", loc, msg));
    }));
    let mut rec = Recorder::new("hyper::Requests (all methods; fixed, graph/traces, RIB prefix + ingress-id, mrt queue, unknown, over-long, other request-target forms; percent-encoded incl. invalid UTF-8; structured + mutated query strings; Accept-Encoding absent / valid / bytes >= 0x80; long values: for every place a request carries text (path after each base, every looked-up parameter name and its value, unknown names, Accept-Encoding) 63..4097-byte and random <= 16 KiB texts of 1-/2-/3-/4-byte characters behind 0..3 ASCII bytes, percent-encoded / raw where the URI parser takes it, existing and non-existing names) into the real Server::handle_request against two registries x compression on/off, each followed by GET /status; non-trivial = a GET that reached a 200/400 answer or a panic, or carried an Accept-Encoding header; distinct = distinct case lines");
    let rt = tokio::runtime::Builder::new_current_thread().enable_all().build().unwrap();

    // a directory for the mrt queue endpoint: files inside, a file outside, a symlink leading out
    let root = std::env::temp_dir().join(format!("verif-c12-{:010}", std::process::id()));
    let mrt_dir = root.join("updates");
    std::fs::create_dir_all(mrt_dir.join("sub")).unwrap();
    std::fs::write(mrt_dir.join("a.mrt"), b"x").unwrap();
    std::fs::write(mrt_dir.join("sub/b.mrt"), b"x").unwrap();
    std::fs::write(root.join("outside.mrt"), b"x").unwrap();
    let _ = std::os::unix::fs::symlink(root.join("outside.mrt"), mrt_dir.join("link-out"));
    make_long_names(&mrt_dir);

    let layout_a = vec![(ProcDesc::Rib("/prefixes/".into(), 8, 19), false), (ProcDesc::Dead, false), (ProcDesc::Mrt("/mrt/".into(), false), false), (ProcDesc::Mrt("/mrtq/".into(), true), false)];
    let layout_b = vec![(ProcDesc::Rib("/status/gr".into(), 0, 0), true), (ProcDesc::Rib("/p".into(), 0, 0), false), (ProcDesc::Mrt("/p/m/".into(), true), false), (ProcDesc::Rib("/prefixes/".into(), 8, 19), false), (ProcDesc::Rib("/rib/ipv4/".into(), 24, 48), false)];
    let mut regs: Vec<Registry> = vec![
        build_registry(&rt, true, &layout_a, &mrt_dir, true), build_registry(&rt, false, &layout_a, &mrt_dir, true),
        build_registry(&rt, true, &layout_b, &mrt_dir, false), build_registry(&rt, false, &layout_b, &mrt_dir, false),
    ];
    // the registry of a really started pipeline (twice as likely to be picked: it is the realistic one)
    for compress in [true, false, true] {
        match build_live(&rt, compress) {
            Some(r) => { rec.bump("live-registry.started"); regs.push(r); }
            None => rec.bump("live-registry.failed-to-start"),
        }
    }

    if let Some(path) = &args.replay {
        for line in verif_harness::replay_cases(path) {
            let f: Vec<&str> = line.split('|').collect();
            if f.len() != 6 { continue; }
            let Some(reg) = regs.iter().find(|r| r.desc == f[0]) else { continue };
            let c = Case { method: f[1].into(), path: unhex(f[2]).unwrap_or_default(), query: if f[3] == "-" { None } else { unhex(f[3]) },
                ae: if f[4] == "-" { None } else { unhex(f[4]) }, ae2: None, expect: None, kind: "replay" };
            run_case(&mut rec, &rt, reg, &c, &mrt_dir);
        }
        rec.finish(&args, t0.elapsed().as_secs_f64());
        let _ = std::fs::remove_dir_all(&root);
        return;
    }

    // 0. witnesses of the counterexample theorems: they decide which variant this tree is
    let w1 = Case { method: "GET".into(), path: b"/status".to_vec(), query: None, ae: Some(vec![0xff, b'g']), ae2: None, expect: None, kind: "witness-ae" };
    let o1 = run_case(&mut rec, &rt, &regs[0], &w1, &mrt_dir);
    rec.variant("ae", if matches!(o1, Some(Obs::Panic(_))) { "as-written" } else { "repaired" });
    let w2 = Case { method: "GET".into(), path: b"/status/graphaaaaaaa%E2%82%AC/traces/".to_vec(), query: None, ae: None, ae2: None, expect: None, kind: "witness-graph" };
    let o2 = run_case(&mut rec, &rt, &regs[0], &w2, &mrt_dir);
    rec.variant("graph", if matches!(&o2, Some(Obs::Panic(at)) if at.contains("char_boundary")) { "as-written" } else { "repaired" });
    let w3 = Case { method: "GET".into(), path: b"/status/graph".to_vec(), query: None, ae: None, ae2: None, expect: None, kind: "witness-graph-empty" };
    let o3 = run_case(&mut rec, &rt, &regs[1], &w3, &mrt_dir);
    rec.variant("graphempty", if matches!(o3, Some(Obs::Panic(_))) { "as-written" } else { "repaired" });
    let w4 = Case { method: "GET".into(), path: b"/prefixes/10.0.0.0/8".to_vec(), query: Some(b"select[peer_as]=a%C3%A9".to_vec()), ae: None, ae2: None, expect: None, kind: "witness-dependency-panic" };
    let o4 = run_case(&mut rec, &rt, &regs[1], &w4, &mrt_dir);
    rec.variant("deppanic", if matches!(o4, Some(Obs::Panic(_))) { "as-written" } else { "repaired" });
    // corpus: hand-made realistic requests
    for (p, q, e) in [("/prefixes/1.2.3.0/24", None, 200u16), ("/prefixes/2804:1398:100::/48", None, 200), ("/prefixes/2804%3A1398%3A100%3A%3A/48", None, 200),
        ("/prefixes/1.2.3.0/24", Some("include=lessSpecifics,moreSpecifics&details=communities"), 200), ("/prefixes/1.0.0.0/7", Some("include=moreSpecifics"), 400),
        ("/prefixes/not_a_valid_prefix", None, 400), ("/prefixes/1.2.3.4/24", None, 400), ("/prefixes/17", None, 200), ("/prefixes/x", None, 400),
        ("/mrt/queue", Some("file=a.mrt"), 400), ("/mrtq/queue", Some("file=a.mrt"), 200), ("/mrtq/queue", Some("file=../outside.mrt"), 400),
        ("/mrtq/queue", Some("file=link-out"), 400), ("/mrtq/queue", None, 400), ("/nothing/here", None, 404), ("/", None, 404)] {
        let c = Case { method: "GET".into(), path: p.as_bytes().to_vec(), query: q.map(|s: &str| s.as_bytes().to_vec()), ae: Some(b"gzip".to_vec()), ae2: None, expect: Some(e), kind: "corpus" };
        run_case(&mut rec, &rt, &regs[0], &c, &mrt_dir);
    }

    let budget = if args.thorough { 420.0 } else { 50.0 };
    // 1. long text values: every place x every listed length x every alignment (0..3 leading ASCII bytes); character class,
    //    encoding and registry drawn per case (thorough: every class). Own generator state: the stream below is unchanged.
    let mut lg = Gen { rng: Rng::new(args.seed ^ 0x4c4f_4e47), brackets: 0 };
    'long: for place in 0..N_PLACES {
        let mut lens: Vec<(usize, bool)> = LONG_LENS.iter().map(|l| (*l, true)).collect();
        for _ in 0..(if args.thorough { 6 } else { 2 }) { lens.push((lg.rng.range(66, 16384) as usize, false)); }
        for (len, listed) in lens {
            if t0.elapsed().as_secs_f64() > budget * 0.6 { rec.bump("gen.long-stopped-by-time-budget"); break 'long; }
            // quick tier: the 4 KiB and random lengths get one alignment per character class instead of all four
            let leads: Vec<usize> = if args.thorough || len <= 1025 { vec![0, 1, 2, 3] } else { vec![lg.rng.below(4) as usize] };
            for lead in leads {
                let classes: Vec<Cls> = if args.thorough { CLASSES.to_vec() } else if len <= 1025 { vec![*lg.rng.pick(&CLASSES)] } else { vec![*lg.rng.pick(&CLASSES[1..])] };
                for cls in classes {
                    let enc = *lg.rng.pick(&[Enc::Pct, Enc::Pct, Enc::Raw, Enc::Raw, Enc::PctAll]);
                    let reg = &regs[lg.rng.below(regs.len() as u64) as usize];
                    run_long(&mut rec, &rt, reg, &mrt_dir, &mut lg, place, len, listed, cls, lead, enc);
                }
            }
        }
    }

    let mut g = Gen { rng: Rng::new(args.seed), brackets: 0 };
    let n = if args.thorough { 600_000 } else { 30_000 };
    for i in 0..n {
        if i % 256 == 0 && t0.elapsed().as_secs_f64() > budget { rec.bump("gen.stopped-by-time-budget"); break; }
        let reg = &regs[g.rng.below(regs.len() as u64) as usize];
        if g.rng.chance(2, 100) {
            // long values also inside the random stream: any place, listed or random length, any class / alignment / encoding
            let place = g.rng.below(N_PLACES as u64) as usize;
            let (len, listed) = if g.rng.chance(3, 4) { (*g.rng.pick(&LONG_LENS), true) } else { { let hi = if g.rng.chance(1, 8) { 16384 } else { 2048 }; (g.rng.range(66, hi) as usize, false) } };
            let (cls, lead, enc) = (*g.rng.pick(&CLASSES), g.rng.below(4) as usize, *g.rng.pick(&[Enc::Pct, Enc::Raw, Enc::PctAll]));
            run_long(&mut rec, &rt, reg, &mrt_dir, &mut g, place, len, listed, cls, lead, enc);
            continue;
        }
        let mut c = g.case(reg);
        if g.rng.chance(15, 100) { c = g.mutate(c); }
        run_case(&mut rec, &rt, reg, &c, &mrt_dir);
    }
    rec.bump_by("gen.bracket-shaped-param-name", g.brackets);
    rec.finish(&args, t0.elapsed().as_secs_f64());
    let _ = std::fs::remove_dir_all(&root);
}
