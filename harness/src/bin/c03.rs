//! C03 engine: routes announced after a session comes back are active again.
//!
//! A case is a scenario over a small BMP unit (1-2 routers x 1-3 monitored peers on one real
//! `ingress::Register`) or over BGP sessions, with at least one down/up cycle:
//!   case   `h|<prefixes>|<events>|<scenario ops>`   events = what really left the sources, abstracted
//!          to `Ev` tokens with the ingress ids the real code used; the 4th field replays the scenario
//!   impl   per prefix `T/F` as in c01 (real `RibUnitRunner::process_update`, real `Rib::match_prefix`)
//! Real code per op: BMP bytes -> real `BmpState` (Peer Up / Peer Down / Route Monitoring /
//! Termination; ids from the real `Register::find_existing_peer`), router (re)connect through the real
//! `Register::find_existing_bmp_router` / `register` / `update_info` in the order of `bmp_tcp_in/unit.rs:420-432`,
//! disconnect epilogue = `WithdrawBulk(real ids_for_parent)` as in `router_handler.rs:291-318` (these two call
//! sites live in connection tasks and are transliterated in `rib::BmpWorld`). BGP scenarios: one real
//! `Register::register()` per connection (`bgp_tcp_in/unit.rs:347`), UPDATEs through the real
//! `Processor::process_update`, session end = `Update::Withdraw(id, None)` (`router_handler.rs:541`).
//! Oracle (Rust, no Lean): the property's reading — after the history every route announced after the last
//! session-level withdrawal of its source must be active with the new attributes, every other route of a
//! withdrawn source withdrawn with its old attributes (`spec_observe` with `sticky_down = false`).
use std::collections::HashMap;
use std::net::{IpAddr, Ipv4Addr};
use std::time::Instant;

use rotonda::payload::Update;
use rotonda::verif::ingress as ving;
use verif_harness::rib::*;
use verif_harness::{join, parse_args, replay_cases, rng::Rng, Recorder};

#[derive(Clone, Debug)]
enum Scenario {
    /// routers: number of peers each; ops
    Bmp(Vec<usize>, Vec<Op>),
    /// BGP: ops are `C<s>` connect session slot s, `E<s>` end it, `U<s>=<upd>` an UPDATE on it
    Bgp(Vec<String>),
}

fn show_scn(s: &Scenario) -> String {
    match s {
        Scenario::Bmp(rs, ops) => format!("bmp {} {}", join(rs.iter(), ","), join(ops.iter().map(|o| o.show()), " ")),
        Scenario::Bgp(ops) => format!("bgp {}", ops.join(" ")),
    }
}
fn parse_scn(s: &str) -> Option<Scenario> {
    let mut it = s.split_whitespace();
    match it.next()? {
        "bmp" => { let rs = it.next()?.split(',').map(|x| x.parse().ok()).collect::<Option<Vec<usize>>>()?; Some(Scenario::Bmp(rs, it.map(Op::parse).collect::<Option<Vec<Op>>>()?)) }
        "bgp" => Some(Scenario::Bgp(it.map(|x| x.to_string()).collect())),
        _ => None,
    }
}

struct Outcome { case: String, imp: String, oracle: String, nontrivial: bool, notes: Vec<String> }

fn run_scenario(scn: &Scenario, queries: &[Pfx]) -> Outcome {
    let mut rib = RealRib::new();
    let mut evs: Vec<Ev> = vec![];
    let mut notes = vec![];
    match scn {
        Scenario::Bmp(rs, ops) => {
            let routers = rs.iter().enumerate().map(|(r, n)| (IpAddr::V4(Ipv4Addr::new(203, 0, 113, 1 + r as u8)), (0..*n).map(|k| BmpPeer::plain(k as u32)).collect())).collect();
            let mut w = BmpWorld::new(routers);
            for op in ops {
                let r = match op { Op::Connect(r) | Op::Disconnect(r) | Op::Terminate(r) | Op::PeerUp(r, _) | Op::PeerDown(r, _) | Op::Rm(r, _, _) => *r };
                if r >= w.routers.len() { notes.push("no-such-router".into()); continue; }
                let (em, note) = w.apply(op, &mut rib.blobs);
                notes.push(note.split(|c| c == ':' || c == '(').next().unwrap_or("").to_string());
                if let Some(em) = em {
                    if let Err(p) = rib.process(em.update) { notes.push(format!("panic:{p}")); }
                    evs.push(em.ev);
                }
            }
        }
        Scenario::Bgp(ops) => {
            let reg = ving::new_register();
            let _unit = ving::register(&reg);
            let mut src = BgpSource::new();
            let mut slots: HashMap<String, u32> = HashMap::new();
            for op in ops {
                let (c, rest) = op.split_at(1);
                match c {
                    "C" => { slots.insert(rest.to_string(), ving::register(&reg)); notes.push("bgp-connect".into()); }
                    "E" => if let Some(id) = slots.remove(rest) {
                        if let Err(p) = rib.process(Update::Withdraw(id, None)) { notes.push(format!("panic:{p}")); }
                        evs.push(Ev::Down(id)); notes.push("bgp-end".into());
                    },
                    "U" => if let Some((s, u)) = rest.split_once('=') { if let (Some(id), Some(Ev::Upd(_, u))) = (slots.get(s), Ev::parse(&u.replace(';', ":"))) {
                        if let Ok((pdu, blob)) = encode_update(&u) {
                            if u.corrupt == 0 && !u.ann.is_empty() { rib.blobs.insert(blob, u.attr); }
                            if let Ingested::Update(up) = src.ingest(&pdu, *id) { let _ = rib.process(up); evs.push(Ev::Upd(*id, u)); notes.push("bgp-update".into()); }
                        }
                    } },
                    _ => {}
                }
            }
        }
    }
    let case = format!("h|{}|{}|{}", join(queries.iter().map(|p| p.show()), " "), join(evs.iter().map(|e| e.show()), " "), show_scn(scn));
    let imp = rib.observe(queries);
    let got: Vec<Vec<(u32, char, String)>> = queries.iter().map(|p| rib.query(p, true)).collect();
    let want = spec_observe(&evs, queries, SpecFlags::default());
    let oracle = if got == want { "ok".to_string() } else {
        let first = queries.iter().zip(got.iter().zip(want.iter())).find(|(_, (g, f))| g != f).map(|(p, (g, f))| format!("prefix {} got {} want {}", p.show(), show_recs(g), show_recs(f))).unwrap_or_default();
        if got == spec_observe(&evs, queries, SpecFlags { sticky_down: true, ..Default::default() }) {
            format!("fail flap:global-withdrawn-marker-never-cleared {first}")
        } else { format!("fail flap-mismatch {first}") }
    };
    // non-trivial: some source announces something after a session-level withdrawal of that same source
    let mut downed: Vec<u32> = vec![];
    let mut nontrivial = false;
    for e in &evs { match e {
        Ev::Down(m) => downed.push(*m), Ev::DownBulk(ms) => downed.extend(ms.iter()),
        Ev::Upd(m, u) => if u.corrupt == 0 && !u.ann.is_empty() && downed.contains(m) { nontrivial = true; },
        _ => {}
    } }
    Outcome { case, imp, oracle, nontrivial, notes }
}

fn gen_upd(rng: &mut Rng, pool: &[Pfx]) -> Upd {
    // unicast only and no announce+withdraw overlap: C01's two known defects are kept out of C03's cases
    let v6 = rng.chance(1, 3);
    let mut cands: Vec<&Pfx> = pool.iter().filter(|p| p.v6 == v6).collect();
    if cands.is_empty() { cands = pool.iter().collect(); }
    let fam = cands[0].v6;
    cands.retain(|p| p.v6 == fam);
    let n = rng.range(1, 2) as usize;
    let mut ns: Vec<Nlri> = (0..n).map(|_| Nlri { pfx: **rng.pick(&cands), safi: Safi::U }).collect();
    ns.dedup();
    let (ann, wd) = if rng.chance(3, 4) { (ns, vec![]) } else { (vec![], ns) };
    Upd { attr: rng.range(1, 9) as u32, ann, wd, mp4: rng.chance(1, 4), corrupt: if rng.chance(1, 25) { rng.range(1, 4) as u8 } else { 0 } }
}

fn gen_bmp(rng: &mut Rng, pool: &[Pfx], rec: &mut Recorder) -> Scenario {
    let nr = rng.range(1, 2) as usize;
    let rs: Vec<usize> = (0..nr).map(|_| rng.range(1, 3) as usize).collect();
    let focus: Vec<Pfx> = (0..rng.range(2, 4)).map(|_| *rng.pick(pool)).collect();
    let mut ops = vec![];
    for r in 0..nr { ops.push(Op::Connect(r)); for k in 0..rs[r] { ops.push(Op::PeerUp(r, k)); } }
    let n = rng.range(6, 30);
    let mut flapped = false;
    for i in 0..n {
        let r = rng.below(nr as u64) as usize;
        let k = rng.below(rs[r] as u64) as usize;
        let c = if !flapped && i + 3 >= n { 60 } else { rng.below(100) };
        match c {
            0..=57 => { ops.push(Op::Rm(r, k, gen_upd(rng, &focus))); rec.bump("op-route-monitoring"); }
            58..=72 => { ops.push(Op::PeerDown(r, k)); if rng.chance(4, 5) { ops.push(Op::PeerUp(r, k)); } flapped = true; rec.bump("op-peer-flap"); }
            73..=80 => { ops.push(Op::Terminate(r)); ops.push(Op::Connect(r)); for k in 0..rs[r] { if rng.chance(4, 5) { ops.push(Op::PeerUp(r, k)); } } flapped = true; rec.bump("op-terminate-reconnect"); }
            81..=90 => { ops.push(Op::Disconnect(r)); ops.push(Op::Connect(r)); for k in 0..rs[r] { if rng.chance(4, 5) { ops.push(Op::PeerUp(r, k)); } } flapped = true; rec.bump("op-disconnect-reconnect"); }
            91..=94 => { ops.push(Op::PeerUp(r, k)); rec.bump("op-peer-up"); }
            _ => { ops.push(Op::PeerDown(r, k)); flapped = true; rec.bump("op-peer-down"); }
        }
    }
    Scenario::Bmp(rs, ops)
}

fn gen_bgp(rng: &mut Rng, pool: &[Pfx], rec: &mut Recorder) -> Scenario {
    let focus: Vec<Pfx> = (0..rng.range(2, 4)).map(|_| *rng.pick(pool)).collect();
    let slots = rng.range(1, 3);
    let mut ops: Vec<String> = (0..slots).map(|s| format!("C{s}")).collect();
    for _ in 0..rng.range(5, 25) {
        let s = rng.below(slots);
        if rng.chance(1, 5) { ops.push(format!("E{s}")); ops.push(format!("C{s}")); rec.bump("op-bgp-reconnect"); }
        else { ops.push(format!("U{s}={}", Ev::Upd(0, gen_upd(rng, &focus)).show().replace(':', ";"))); rec.bump("op-bgp-update"); }
    }
    Scenario::Bgp(ops)
}

fn main() {
    if std::env::var("VERIF_VERBOSE").is_err() { std::panic::set_hook(Box::new(|_| {})); }
    let args = parse_args();
    let t0 = Instant::now();
    let mut rec = Recorder::new("a scenario is non-trivial when some source announces a route after a session-level withdrawal (peer down, termination, disconnect, BGP session end) of that same ingress id");
    let pool = pool();
    let p24 = pool[2];
    let ann = |attr: u32| Upd { attr, ann: vec![Nlri { pfx: p24, safi: Safi::U }], wd: vec![], mp4: false, corrupt: 0 };

    // ---- variant detection: announce, Peer Down, Peer Up (same id comes back), announce again
    let witness = Scenario::Bmp(vec![1], vec![Op::Connect(0), Op::PeerUp(0, 0), Op::Rm(0, 0, ann(5)), Op::PeerDown(0, 0), Op::PeerUp(0, 0), Op::Rm(0, 0, ann(7))]);
    let o = run_scenario(&witness, &[p24]);
    rec.variant("flap", if o.imp.contains(".W.7/") { "as-written" } else { "repaired" });

    let mut emit = |rec: &mut Recorder, scn: &Scenario, queries: &[Pfx]| {
        let o = run_scenario(scn, queries);
        for n in &o.notes { if !n.is_empty() { rec.bump(&format!("note-{}", n.split("-as-").next().unwrap())); } }
        rec.bump(if o.oracle == "ok" { "oracle-ok" } else { "oracle-fail" });
        rec.case(o.case, o.imp, o.oracle, o.nontrivial);
    };

    if let Some(path) = &args.replay {
        for line in replay_cases(path) {
            let parts: Vec<&str> = line.split('|').collect();
            if parts.len() != 4 { continue; }
            let queries: Vec<Pfx> = parts[1].split_whitespace().filter_map(Pfx::parse).collect();
            if let Some(scn) = parse_scn(parts[3]) { emit(&mut rec, &scn, &queries); }
        }
        rec.finish(&args, t0.elapsed().as_secs_f64());
        return;
    }

    // ---- witnesses / corpus
    let wd = Upd { attr: 0, ann: vec![], wd: vec![Nlri { pfx: p24, safi: Safi::U }], mp4: false, corrupt: 0 };
    let corpus = vec![
        witness.clone(),                                                                                   // C03_counterexample at peer level
        Scenario::Bmp(vec![1], vec![Op::Connect(0), Op::PeerUp(0, 0), Op::Rm(0, 0, ann(5)), Op::Terminate(0), Op::Connect(0), Op::PeerUp(0, 0), Op::Rm(0, 0, ann(7))]),
        Scenario::Bmp(vec![1], vec![Op::Connect(0), Op::PeerUp(0, 0), Op::Rm(0, 0, ann(5)), Op::Disconnect(0), Op::Connect(0), Op::PeerUp(0, 0), Op::Rm(0, 0, ann(7))]),
        Scenario::Bmp(vec![2], vec![Op::Connect(0), Op::PeerUp(0, 0), Op::PeerUp(0, 1), Op::Rm(0, 0, ann(5)), Op::Rm(0, 1, ann(6)), Op::PeerDown(0, 0), Op::PeerUp(0, 0), Op::Rm(0, 1, wd.clone())]), // stale
        Scenario::Bgp(vec!["C0".into(), format!("U0={}", Ev::Upd(0, ann(5)).show().replace(':', ";")), "E0".into(), "C0".into(), format!("U0={}", Ev::Upd(0, ann(7)).show().replace(':', ";"))]),
    ];
    for scn in &corpus { emit(&mut rec, scn, &[p24]); emit(&mut rec, scn, &pool); }

    // ---- generated scenarios
    let mut rng = Rng::new(args.seed);
    let budget = if args.thorough { 300.0 } else { 35.0 };
    let max_cases = if args.thorough { 30_000 } else { 3000 };
    let mut n = 0;
    while n < max_cases && t0.elapsed().as_secs_f64() < budget {
        let scn = if rng.chance(4, 5) { gen_bmp(&mut rng, &pool, &mut rec) } else { gen_bgp(&mut rng, &pool, &mut rec) };
        emit(&mut rec, &scn, &pool);
        n += 1;
    }
    rec.finish(&args, t0.elapsed().as_secs_f64());
}
