//! C09 engine: T OS threads on one real `RibUnitRunner` vs the Lean model
//! `Model/RibConc.lean`.
//!
//! * `seq|prog`        one writer, sequential `process_update` calls.
//! * `conc|p0/p1/..`   T writers (disjoint ingress ids, shared prefixes) plus
//!                     one reader thread, all on one runner, released by a barrier.
//! * `hammer|T|N`      the starvation witness: T threads each issue N session-wide
//!                     withdrawals (`Update::Withdraw(fresh id, None)`).
//!
//! Every concurrent case runs in a CHILD PROCESS (this binary re-executed with
//! the sub-command `child`) under a watchdog: a writer that is still inside an
//! operation when the deadline expires is an observation (`stalled`), the
//! child exits (that is the only way to get rid of a spinning thread) and the
//! parent continues with a fresh child.
//!
//! Oracle (independent of the Lean model): a per-writer last-write log
//! (plain HashMap replay of each writer's own op list) vs the final
//! `Rib::match_prefix(include_withdrawn)` of every pool prefix; every
//! session-wide withdrawal visible; every operation back within the deadline;
//! the reader never sees an entry its owner never wrote.
use std::collections::{BTreeMap, BTreeSet, HashMap, HashSet};
use std::io::{BufRead, Write};
use std::net::IpAddr;
use std::str::FromStr;
use std::sync::atomic::{AtomicBool, AtomicUsize, Ordering};
use std::sync::{Arc, Barrier};
use std::time::{Duration, Instant};

use inetnum::addr::Prefix;
use rotonda::payload::{Payload, RotondaPaMap, RotondaRoute, Update};
use rotonda::roto_runtime::types::{FreshRouteContext, Provenance, RouteContext};
use rotonda::verif::c09::ConcRib;
use rotonda_store::prelude::multi::RouteStatus;
use rotonda_store::{MatchOptions, MatchType};
use routecore::bgp::message::{PduParseInfo, SessionConfig, UpdateMessage};
use routecore::bgp::nlri::afisafi::{Ipv4MulticastNlri, Ipv4UnicastNlri, Ipv6MulticastNlri, Ipv6UnicastNlri};
use routecore::bgp::path_attributes::OwnedPathAttributes;
use routecore::bgp::types::AfiSafiType;
use verif_harness::{join, parse_args, rng::Rng, Recorder};

const LIVELOCK_SIG: &str = "cas-livelock:mark-mui-as-withdrawn-stale-current";

// ------------------------------------------------------------------ vocabulary

/// The prefix pool. Prefix id `p` lives in tree `p % 4`
/// (0 = unicast v4, 1 = unicast v6, 2 = multicast v4, 3 = multicast v6).
/// Unicast and multicast prefixes use different addresses, so the unicast-first
/// lookup of `Rib::match_prefix` never hides a multicast entry.
const POOL: [&str; 12] = [
    "10.0.0.0/8", "2001:db8::/32", "11.0.0.0/8", "2001:db9::/32",
    "10.1.0.0/16", "2001:db8:1::/48", "11.1.0.0/16", "2001:db9:1::/48",
    "10.1.2.0/24", "2001:db8:1:2::/64", "11.1.2.0/24", "2001:db9:1:2::/64",
];
fn tree_of(p: usize) -> usize { p % 4 }

#[derive(Clone, Debug, PartialEq)]
enum Pl { Ann(usize, u32, u32), Wd(usize, u32) } // (prefix, mui, attr) / (prefix, mui)

#[derive(Clone, Debug, PartialEq)]
enum Op {
    Single(Pl),
    Bulk(Vec<Pl>),
    Withdraw(u32, Option<usize>), // mui, Some(tree) or None = all families
    WithdrawBulk(Vec<u32>),
}

fn show_pl(p: &Pl) -> String {
    match p { Pl::Ann(p, m, a) => format!("a:{p}:{m}:{a}"), Pl::Wd(p, m) => format!("w:{p}:{m}") }
}
fn show_op(o: &Op) -> String {
    match o {
        Op::Single(p) => format!("s.{}", show_pl(p)),
        Op::Bulk(ps) => format!("b.{}", join(ps.iter().map(show_pl), ",")),
        Op::Withdraw(m, None) => format!("w.{m}.n"),
        Op::Withdraw(m, Some(t)) => format!("w.{m}.{t}"),
        Op::WithdrawBulk(ms) => format!("W.{}", join(ms.iter(), ",")),
    }
}
fn parse_pl(s: &str) -> Pl {
    let x: Vec<&str> = s.split(':').collect();
    match x[0] {
        "a" => Pl::Ann(x[1].parse().unwrap(), x[2].parse().unwrap(), x[3].parse().unwrap()),
        _ => Pl::Wd(x[1].parse().unwrap(), x[2].parse().unwrap()),
    }
}
fn parse_op(s: &str) -> Op {
    let (k, rest) = s.split_once('.').unwrap();
    match k {
        "s" => Op::Single(parse_pl(rest)),
        "b" => Op::Bulk(rest.split(',').filter(|x| !x.is_empty()).map(parse_pl).collect()),
        "w" => { let (m, t) = rest.split_once('.').unwrap(); Op::Withdraw(m.parse().unwrap(), if t == "n" { None } else { Some(t.parse().unwrap()) }) }
        _ => Op::WithdrawBulk(rest.split(',').filter(|x| !x.is_empty()).map(|m| m.parse().unwrap()).collect()),
    }
}
fn parse_prog(s: &str) -> Vec<Op> { s.split_whitespace().map(parse_op).collect() }
fn show_prog(p: &[Op]) -> String { if p.is_empty() { "-".into() } else { join(p.iter().map(show_op), " ") } }
fn parse_progs(s: &str) -> Vec<Vec<Op>> { s.split('/').map(|p| if p.trim() == "-" { vec![] } else { parse_prog(p) }).collect() }

// ---------------------------------------------------------- real-code adapters

fn attr_bytes(a: u32) -> Vec<u8> {
    // one optional non-transitive MULTI_EXIT_DISC attribute carrying the attr id
    let mut v = vec![0x80, 4, 4];
    v.extend_from_slice(&a.to_be_bytes());
    v
}
fn attr_of(bytes: &[u8]) -> u32 {
    if bytes.len() == 7 && bytes[..3] == [0x80, 4, 4] { u32::from_be_bytes([bytes[3], bytes[4], bytes[5], bytes[6]]) } else { u32::MAX }
}

fn empty_update() -> UpdateMessage<bytes::Bytes> {
    let mut b = vec![0xffu8; 16];
    b.extend_from_slice(&[0, 23, 2, 0, 0, 0, 0]);
    UpdateMessage::from_octets(bytes::Bytes::from(b), &SessionConfig::modern()).unwrap()
}

fn mk_payload(pl: &Pl) -> Payload {
    let (p, m, a, status) = match pl { Pl::Ann(p, m, a) => (*p, *m, *a, RouteStatus::Active), Pl::Wd(p, m) => (*p, *m, 0, RouteStatus::Withdrawn) };
    let prefix = Prefix::from_str(POOL[p]).unwrap();
    let pamap = RotondaPaMap(OwnedPathAttributes::new(PduParseInfo::modern(), attr_bytes(a)));
    let route = match tree_of(p) {
        0 => RotondaRoute::Ipv4Unicast(Ipv4UnicastNlri::try_from(prefix).unwrap(), pamap),
        1 => RotondaRoute::Ipv6Unicast(Ipv6UnicastNlri::try_from(prefix).unwrap(), pamap),
        2 => RotondaRoute::Ipv4Multicast(Ipv4MulticastNlri::try_from(prefix).unwrap(), pamap),
        _ => RotondaRoute::Ipv6Multicast(Ipv6MulticastNlri::try_from(prefix).unwrap(), pamap),
    };
    let peer_ip: IpAddr = format!("192.0.2.{}", m % 250 + 1).parse().unwrap();
    let prov = Provenance::for_bgp(m, peer_ip, inetnum::asn::Asn::from_u32(64512 + m));
    let ctx: RouteContext = FreshRouteContext::new(empty_update(), status, prov).into();
    Payload::new(route, ctx, None)
}

fn afisafi(t: usize) -> AfiSafiType {
    match t { 0 => AfiSafiType::Ipv4Unicast, 1 => AfiSafiType::Ipv6Unicast, 2 => AfiSafiType::Ipv4Multicast, _ => AfiSafiType::Ipv6Multicast }
}

fn mk_update(op: &Op) -> Update {
    match op {
        Op::Single(pl) => Update::Single(mk_payload(pl)),
        Op::Bulk(pls) => Update::Bulk(pls.iter().map(mk_payload).collect()),
        Op::Withdraw(m, t) => Update::Withdraw(*m, t.map(afisafi)),
        Op::WithdrawBulk(ms) => Update::WithdrawBulk(ms.iter().copied().collect()),
    }
}

/// The real operation: `RibUnitRunner::process_update` (what `direct_update` runs).
fn apply(rib: &ConcRib, op: &Op) -> Result<(), String> {
    let upd = mk_update(op);
    match std::panic::catch_unwind(std::panic::AssertUnwindSafe(|| futures::executor::block_on(rib.process_update(upd)))) {
        Ok(r) => r,
        Err(_) => Err("panic".into()),
    }
}

/// rotonda-store 0.4.1 computes `next_level - this_level` on u8 when it creates a trie
/// node (macros.rs:285); for every IPv6 node below the root that is `0 - 4`. A build with
/// overflow checks (this harness' dev profile) panics there, a release build wraps. The
/// engine therefore probes once whether IPv6 inserts work in this build and otherwise keeps
/// its records in the two IPv4 trees (the four session-wide marker sets are always used).
fn v6_inserts_work() -> bool {
    let rib = ConcRib::new();
    apply(&rib, &Op::Single(Pl::Ann(1, 1, 1))).is_ok() && query(&rib, 1).map(|v| v.len() == 1).unwrap_or(false)
}

type View = BTreeMap<usize, Vec<(u32, bool, u32)>>; // prefix -> sorted (mui, withdrawn, attr)

fn query(rib: &ConcRib, p: usize) -> Result<Vec<(u32, bool, u32)>, String> {
    let opts = MatchOptions { match_type: MatchType::ExactMatch, include_less_specifics: false, include_more_specifics: false, include_withdrawn: true, mui: None };
    let prefix = Prefix::from_str(POOL[p]).unwrap();
    let res = rib.rib().match_prefix(&prefix, &opts)?;
    if res.prefix != Some(prefix) && !res.prefix_meta.is_empty() { return Err(format!("answer for another prefix {:?}", res.prefix)); }
    let mut v: Vec<(u32, bool, u32)> = res.prefix_meta.iter().map(|r| {
        (r.multi_uniq_id, r.status != RouteStatus::Active, attr_of(&r.meta.0.clone().into_vec()))
    }).collect();
    v.sort();
    Ok(v)
}
fn snapshot(rib: &ConcRib) -> View {
    let mut v = View::new();
    for p in 0..POOL.len() { match query(rib, p) { Ok(e) if !e.is_empty() => { v.insert(p, e); } Ok(_) => {} Err(_) => { v.insert(p, vec![(u32::MAX, true, u32::MAX)]); } } }
    v
}
fn show_view(v: &View) -> String {
    if v.is_empty() { return "-".into(); }
    join(v.iter().map(|(p, es)| format!("{p}={}", join(es.iter().map(|(m, w, a)| format!("{m}:{}:{a}", if *w { 'W' } else { 'A' })), ","))), ";")
}

// ------------------------------------------------- independent reference (oracle)

/// Plain replay of ONE writer's op list: last value written per (prefix, mui) and the
/// session-wide marks it placed. No interleaving, no model.
#[derive(Default)]
struct LastWrite { rec: HashMap<(usize, u32), (bool, u32)>, marks: HashSet<(usize, u32)>, ever: HashMap<(usize, u32), HashSet<u32>> }
impl LastWrite {
    fn pl(&mut self, pl: &Pl) {
        match pl {
            Pl::Ann(p, m, a) => { self.rec.insert((*p, *m), (false, *a)); self.ever.entry((*p, *m)).or_default().insert(*a); }
            Pl::Wd(p, m) => { if let Some(e) = self.rec.get_mut(&(*p, *m)) { e.0 = true; } }
        }
    }
    fn op(&mut self, op: &Op) {
        match op {
            Op::Single(pl) => self.pl(pl),
            Op::Bulk(pls) => pls.iter().for_each(|p| self.pl(p)),
            Op::Withdraw(m, None) => (0..4).for_each(|t| { self.marks.insert((t, *m)); }),
            Op::Withdraw(m, Some(t)) => { self.marks.insert((*t, *m)); }
            Op::WithdrawBulk(ms) => for m in ms { (0..4).for_each(|t| { self.marks.insert((t, *m)); }) },
        }
    }
}
fn expected_view(progs: &[Vec<Op>]) -> View {
    let mut v = View::new();
    for prog in progs {
        let mut lw = LastWrite::default();
        prog.iter().for_each(|o| lw.op(o));
        for ((p, m), (wd, a)) in &lw.rec {
            v.entry(*p).or_default().push((*m, *wd || lw.marks.contains(&(tree_of(*p), *m)), *a));
        }
    }
    v.values_mut().for_each(|e| e.sort());
    v
}
fn has_session_withdraw(prog: &[Op]) -> bool { prog.iter().any(|o| matches!(o, Op::Withdraw(..) | Op::WithdrawBulk(..))) }

// ------------------------------------------------------------------- child side

struct ConcOutcome {
    stalled: bool,
    progress: Vec<usize>,
    view: View,
    max_op_us: u128,
    reader_bad: Option<String>,
    reader_rounds: usize,
    errors: usize,
}

fn run_conc(progs: &[Vec<Op>], deadline: Duration) -> ConcOutcome {
    let rib = Arc::new(ConcRib::new());
    let t = progs.len();
    let barrier = Arc::new(Barrier::new(t + 2));
    let done = Arc::new(AtomicUsize::new(0));
    let stop = Arc::new(AtomicBool::new(false));
    let progress: Arc<Vec<AtomicUsize>> = Arc::new((0..t).map(|_| AtomicUsize::new(0)).collect());
    let max_us = Arc::new(std::sync::Mutex::new(0u128));
    let errors = Arc::new(AtomicUsize::new(0));
    let mut handles = vec![];
    for (i, prog) in progs.iter().cloned().enumerate() {
        let (rib, barrier, done, progress, max_us, errors) = (rib.clone(), barrier.clone(), done.clone(), progress.clone(), max_us.clone(), errors.clone());
        handles.push(std::thread::spawn(move || {
            let updates: Vec<Op> = prog;
            barrier.wait();
            let mut mx = 0u128;
            for (j, op) in updates.iter().enumerate() {
                let t0 = Instant::now();
                if apply(&rib, op).is_err() { errors.fetch_add(1, Ordering::SeqCst); }
                mx = mx.max(t0.elapsed().as_micros());
                progress[i].store(j + 1, Ordering::SeqCst);
            }
            { let mut g = max_us.lock().unwrap(); *g = (*g).max(mx); }
            done.fetch_add(1, Ordering::SeqCst);
        }));
    }
    // what any reader may legitimately see: attrs the owner wrote at some time
    let mut ever: HashMap<(usize, u32), HashSet<u32>> = HashMap::new();
    for prog in progs { let mut lw = LastWrite::default(); prog.iter().for_each(|o| lw.op(o)); for (k, s) in lw.ever { ever.entry(k).or_default().extend(s); } }
    let reader = {
        let (rib, barrier, stop) = (rib.clone(), barrier.clone(), stop.clone());
        std::thread::spawn(move || {
            barrier.wait();
            let mut rounds = 0usize;
            let mut bad = None;
            loop {
                let last = stop.load(Ordering::SeqCst);
                for p in 0..POOL.len() {
                    match query(&rib, p) {
                        Ok(es) => {
                            let mut seen = BTreeSet::new();
                            for (m, _, a) in es {
                                if !seen.insert(m) { bad.get_or_insert(format!("two entries for prefix {p} mui {m}")); }
                                if !ever.get(&(p, m)).map(|s| s.contains(&a)).unwrap_or(false) { bad.get_or_insert(format!("prefix {p} mui {m} attr {a} was never written")); }
                            }
                        }
                        Err(e) => { bad.get_or_insert(format!("match_prefix error {e}")); }
                    }
                }
                rounds += 1;
                if last { break; }
            }
            (rounds, bad)
        })
    };
    barrier.wait();
    let t0 = Instant::now();
    let mut stalled = false;
    while done.load(Ordering::SeqCst) < t {
        if t0.elapsed() > deadline { stalled = true; break; }
        std::thread::sleep(Duration::from_micros(200));
    }
    stop.store(true, Ordering::SeqCst);
    let (reader_rounds, reader_bad) = reader.join().unwrap_or((0, Some("reader panicked".into())));
    if !stalled { for h in handles { let _ = h.join(); } }
    let view = snapshot(&rib);
    let mx = *max_us.lock().unwrap();
    ConcOutcome { stalled, progress: progress.iter().map(|p| p.load(Ordering::SeqCst)).collect(), view, max_op_us: mx, reader_bad, reader_rounds, errors: errors.load(Ordering::SeqCst) }
}

/// T threads, each N session-wide withdrawals of its own fresh ingress ids.
fn run_hammer(t: usize, n: usize, deadline: Duration) -> (bool, Vec<usize>) {
    let rib = Arc::new(ConcRib::new());
    let barrier = Arc::new(Barrier::new(t + 1));
    let done = Arc::new(AtomicUsize::new(0));
    let progress: Arc<Vec<AtomicUsize>> = Arc::new((0..t).map(|_| AtomicUsize::new(0)).collect());
    for i in 0..t {
        let (rib, barrier, done, progress) = (rib.clone(), barrier.clone(), done.clone(), progress.clone());
        std::thread::spawn(move || {
            barrier.wait();
            for j in 0..n {
                let _ = apply(&rib, &Op::Withdraw((1 + i * n + j) as u32, None));
                progress[i].store(j + 1, Ordering::Relaxed);
            }
            done.fetch_add(1, Ordering::SeqCst);
        });
    }
    barrier.wait();
    let t0 = Instant::now();
    let mut stalled = false;
    while done.load(Ordering::SeqCst) < t {
        if t0.elapsed() > deadline { stalled = true; break; }
        std::thread::sleep(Duration::from_millis(1));
    }
    (stalled, progress.iter().map(|p| p.load(Ordering::Relaxed)).collect())
}

/// Child protocol: one case per stdin line; one answer line per case on stdout.
/// After a stalled case the child exits (code 3): its spinning threads die with it.
fn child_main() {
    std::panic::set_hook(Box::new(|_| {}));
    let stdin = std::io::stdin();
    let out = std::io::stdout();
    for line in stdin.lock().lines() {
        let line = line.unwrap();
        let parts: Vec<&str> = line.split('|').collect();
        let deadline = Duration::from_millis(parts[0].parse().unwrap());
        let (answer, stalled) = match parts[1] {
            "hammer" => {
                let (st, prog) = run_hammer(parts[2].parse().unwrap(), parts[3].parse().unwrap(), deadline);
                (format!("{} progress={}", if st { "stalled" } else { "done" }, join(prog.iter(), ",")), st)
            }
            _ => {
                let progs = parse_progs(parts[2]);
                let o = run_conc(&progs, deadline);
                (format!("{}|{}|{}|{}|{}|{}|{}", if o.stalled { "stalled" } else { "done" }, join(o.progress.iter(), ","), show_view(&o.view), o.max_op_us, o.reader_rounds, o.errors, o.reader_bad.unwrap_or_default()), o.stalled)
            }
        };
        { let mut o = out.lock(); writeln!(o, "{answer}").unwrap(); o.flush().unwrap(); }
        if stalled { std::process::exit(3); }
    }
}

// ------------------------------------------------------------------ parent side

struct Child { proc: std::process::Child, rx: std::sync::mpsc::Receiver<String> }
impl Child {
    fn spawn() -> Child {
        let mut proc = std::process::Command::new(std::env::current_exe().unwrap()).arg("child")
            .stdin(std::process::Stdio::piped()).stdout(std::process::Stdio::piped()).stderr(std::process::Stdio::null()).spawn().unwrap();
        let so = proc.stdout.take().unwrap();
        let (tx, rx) = std::sync::mpsc::channel();
        std::thread::spawn(move || { for l in std::io::BufReader::new(so).lines() { match l { Ok(l) => { if tx.send(l).is_err() { break; } } Err(_) => break } } });
        Child { proc, rx }
    }
    fn kill(mut self) { let _ = self.proc.kill(); let _ = self.proc.wait(); }
}

/// Runs concurrent cases in child processes. `None` = the child did not even answer
/// (hard watchdog: killed).
struct Pool { child: Option<Child>, spawned: usize }
impl Pool {
    fn ask(&mut self, req: &str, deadline_ms: u64) -> Option<String> {
        if self.child.is_none() { self.child = Some(Child::spawn()); self.spawned += 1; }
        let c = self.child.as_mut().unwrap();
        let ok = writeln!(c.proc.stdin.as_mut().unwrap(), "{deadline_ms}|{req}").and_then(|_| c.proc.stdin.as_mut().unwrap().flush()).is_ok();
        let ans = if ok { c.rx.recv_timeout(Duration::from_millis(deadline_ms + 10_000)).ok() } else { None };
        let dead = match &ans { None => true, Some(a) => a.starts_with("stalled") };
        if dead { self.child.take().unwrap().kill(); }
        ans
    }
}

struct Gen { rng: Rng, next_attr: u32, v6: bool }
impl Gen {
    fn pl(&mut self, muis: &[u32], npfx: usize) -> Pl {
        let mut p = self.rng.below(npfx as u64) as usize;
        if !self.v6 && p % 2 == 1 { p -= 1; }
        let m = *self.rng.pick(muis);
        if self.rng.chance(7, 10) {
            // mostly fresh attribute ids; sometimes an old one again (re-announcement of the same route)
            let a = if self.next_attr > 100 && self.rng.chance(1, 4) { self.next_attr - self.rng.below(3.min((self.next_attr - 100) as u64)) as u32 } else { self.next_attr += 1; self.next_attr };
            Pl::Ann(p, m, a)
        } else { Pl::Wd(p, m) }
    }
    fn op(&mut self, muis: &[u32], npfx: usize, session_wd: bool) -> Op {
        let k = self.rng.below(100);
        if session_wd && k < 14 { return Op::Withdraw(*self.rng.pick(muis), if self.rng.chance(1, 2) { None } else { Some(self.rng.below(4) as usize) }); }
        if session_wd && k < 20 {
            let n = self.rng.range(1, muis.len() as u64) as usize;
            let mut v = muis[..n].to_vec();
            // one WithdrawBulk in four names many sessions (sizes around 8 / 16 / 32): ids of sessions without routes are
            // mixed in at random places, so that anything that batches or caps the list is driven past its size and a
            // session with routes can sit anywhere in it
            if self.rng.chance(1, 4) {
                let total = *self.rng.pick(&[9usize, 10, 15, 16, 17, 20, 31, 33]);
                let mut phantom = 900u32;
                while v.len() < total { let at = self.rng.below(v.len() as u64 + 1) as usize; v.insert(at, phantom); phantom += 1; }
            }
            return Op::WithdrawBulk(v);
        }
        // one Bulk in eight is large (sizes around 16 / 20 / 32 / 64, where a batch may be chunked, sorted or handled by
        // another algorithm) and, having few prefixes to draw from, writes the same (prefix, ingress) several times:
        // the last write of the Bulk is the one that must stand
        if k < 60 { Op::Single(self.pl(muis, npfx)) } else { let n = if self.rng.chance(1, 8) { *self.rng.pick(&[15u64, 16, 17, 20, 21, 24, 31, 32, 33, 49, 64, 65]) } else { self.rng.range(0, 5) }; Op::Bulk((0..n).map(|_| self.pl(muis, npfx)).collect()) }
    }
    /// `racy`: how many writers may issue session-wide withdrawals.
    fn progs(&mut self, t: usize, racy: usize) -> Vec<Vec<Op>> {
        let npfx = *self.rng.pick(&[2usize, 4, 8, 12]);
        (0..t).map(|i| {
            let nm = self.rng.range(1, 2) as u32;
            let muis: Vec<u32> = (0..nm).map(|k| (i as u32) * 4 + k + 1).collect();
            let n = self.rng.range(1, 8);
            (0..n).map(|_| self.op(&muis, npfx, i < racy)).collect()
        }).collect()
    }
}

const SMALL_DEADLINE_MS: u64 = 4000;

fn seq_case(rec: &mut Recorder, prog: &[Op]) {
    let rib = ConcRib::new();
    let mut errs = 0;
    for op in prog { if apply(&rib, op).is_err() { errs += 1; } }
    let view = snapshot(&rib);
    let exp = expected_view(&[prog.to_vec()]);
    let oracle = if errs > 0 { format!("fail process-update-error-or-panic {errs} update(s) returned an error or panicked") } else if view == exp { "ok".to_string() } else { format!("fail sequential-last-write-mismatch expected {} got {}", show_view(&exp), show_view(&view)) };
    let kinds: HashSet<_> = prog.iter().map(std::mem::discriminant).collect();
    rec.bump("seq.cases");
    for o in prog { rec.bump(&format!("op.{}", &show_op(o)[..1])); }
    rec.case(format!("seq|{}", show_prog(prog)), format!("done {} ## errors={errs}", show_view(&view)), oracle, kinds.len() >= 2);
}

/// One concurrent case. A stalled attempt is an oracle failure (the property's
/// boundedness clause); for the correspondence the case is re-run (fresh RIB, fresh
/// child) until an attempt completes, because only a completed run has a
/// schedule-independent final content to compare.
fn conc_case(rec: &mut Recorder, pool: &mut Pool, progs: &[Vec<Op>]) {
    let req = format!("conc|{}", join(progs.iter().map(|p| show_prog(p)), "/"));
    let mut stalls = 0;
    let mut last: Option<Vec<String>> = None;
    let mut stall_detail = String::new();
    for _attempt in 0..4 {
        match pool.ask(&req, SMALL_DEADLINE_MS) {
            None => { stalls += 1; stall_detail = "child killed by the hard watchdog".into(); }
            Some(a) => {
                let f: Vec<String> = a.split('|').map(|s| s.to_string()).collect();
                if f[0] == "stalled" { stalls += 1; stall_detail = format!("ops completed per writer {} of {}", f[1], join(progs.iter().map(|p| p.len()), ",")); last = Some(f); }
                else { last = Some(f); break; }
            }
        }
    }
    let t = progs.len();
    let racy = progs.iter().filter(|p| has_session_withdraw(p)).count();
    rec.bump(&format!("conc.T{t}"));
    rec.bump(&format!("conc.session-withdrawing-writers.{}", racy.min(3)));
    for p in progs { for o in p { rec.bump(&format!("op.{}", &show_op(o)[..1])); } }
    let exp = expected_view(progs);
    let (imp, oracle) = match &last {
        Some(f) if f[0] == "done" => {
            let view = &f[2];
            rec.bump_by("conc.reader_rounds", f[4].parse().unwrap_or(0));
            let oracle = if stalls > 0 {
                format!("fail {LIVELOCK_SIG} {stalls} attempt(s): a writer never returned from a session-wide withdrawal within {SMALL_DEADLINE_MS} ms; {stall_detail}")
            } else if *view != show_view(&exp) {
                format!("fail lost-or-corrupt-update final content {} but the writers' last writes are {}", view, show_view(&exp))
            } else if f[5] != "0" {
                format!("fail process-update-error-or-panic {} update(s) returned an error or panicked", f[5])
            } else if !f[6].is_empty() {
                format!("fail reader-saw-corrupt-entry {}", f[6])
            } else { "ok".into() };
            (format!("done {} ## stalls={stalls} max_op_us={} reader_rounds={} errors={}", view, f[3], f[4], f[5]), oracle)
        }
        _ => ("stalled ## every attempt stalled".to_string(),
              format!("fail {LIVELOCK_SIG} all {stalls} attempts: a writer never returned from a session-wide withdrawal within {SMALL_DEADLINE_MS} ms; {stall_detail}")),
    };
    if stalls > 0 { rec.bump("conc.cases_with_stall"); }
    rec.case(req, imp, oracle, t >= 2 && exp.values().any(|e| e.len() >= 2));
}

fn hammer_case(rec: &mut Recorder, pool: &mut Pool, t: usize, n: usize, deadline_ms: u64) -> bool {
    let req = format!("hammer|{t}|{n}");
    let ans = pool.ask(&req, deadline_ms);
    let (stalled, detail) = match &ans { None => (true, "child killed by the hard watchdog".to_string()), Some(a) => (a.starts_with("stalled"), a.clone()) };
    let imp = format!("{} ## {}", if stalled { "stalled" } else { "done" }, detail);
    let oracle = if stalled {
        format!("fail {LIVELOCK_SIG} {t} writers x {n} session-wide withdrawals: a writer was still inside Rib::withdraw_for_ingress after {deadline_ms} ms ({detail})")
    } else { "ok".into() };
    rec.bump("hammer.cases");
    if stalled { rec.bump("hammer.stalled"); }
    rec.case(req, imp, oracle, true);
    stalled
}

fn main() {
    if std::env::args().nth(1).as_deref() == Some("child") { child_main(); return; }
    let args = parse_args();
    let t0 = Instant::now();
    if std::env::var("VERIF_DEBUG").is_err() { std::panic::set_hook(Box::new(|_| {})); }
    let mut rec = Recorder::new("seq: one writer, 1-14 Single/Bulk/Withdraw/WithdrawBulk updates through the real RibUnitRunner::process_update; conc: T in {2,4,8} OS threads (disjoint ingress ids, 2-12 shared prefixes over 4 address families) plus a reader thread on one runner, each case in a child process under a watchdog; hammer: T threads x N session-wide withdrawals; observation = sorted (ingress, status, attribute) per pool prefix from Rib::match_prefix(include_withdrawn); non-trivial = a seq case with >= 2 update kinds, a conc case whose final content has a prefix with entries of >= 2 ingress ids, every hammer case; distinct = distinct case lines");
    let mut pool = Pool { child: None, spawned: 0 };

    if let Some(path) = &args.replay {
        for line in verif_harness::replay_cases(path) {
            let parts: Vec<&str> = line.split('|').collect();
            match parts[0] {
                "seq" => seq_case(&mut rec, &if parts[1] == "-" { vec![] } else { parse_prog(parts[1]) }),
                "conc" => conc_case(&mut rec, &mut pool, &parse_progs(parts[1])),
                "hammer" => { hammer_case(&mut rec, &mut pool, parts[1].parse().unwrap(), parts[2].parse().unwrap(), 6000); }
                _ => {}
            }
        }
        rec.finish(&args, t0.elapsed().as_secs_f64());
        return;
    }

    // 0. the starvation witness decides which variant this tree is.
    //    (2 x 5000: on the code as written a collision within the first few hundred calls is
    //    practically certain - 10/10 runs already at 2 x 1000; a repaired tree needs < 1 s.
    //    Every successful CAS leaks the replaced bitmap in rotonda-store, hence not larger.)
    let stalled = hammer_case(&mut rec, &mut pool, 2, 5000, 6000);
    rec.variant("cas", if stalled { "as-written" } else { "repaired" });

    let v6 = v6_inserts_work();
    rec.extra.insert("ipv6_inserts_work_in_this_build".into(), serde_json::json!(v6));
    let mut g = Gen { rng: Rng::new(args.seed), next_attr: 100, v6 };

    // 1. sequential
    let nseq = if args.thorough { 20000 } else { 1000 };
    for _ in 0..nseq {
        let n = g.rng.range(1, 14);
        let muis = [1u32, 2, 3];
        let npfx = *g.rng.pick(&[2usize, 4, 12]);
        let prog: Vec<Op> = (0..n).map(|_| g.op(&muis, npfx, true)).collect();
        seq_case(&mut rec, &prog);
    }

    // 2. concurrent. On the code as written only one writer per case issues session-wide
    //    withdrawals in the bulk of the cases (such a case cannot stall); a smaller share
    //    lets every writer do so (those may stall: re-run, see conc_case).
    let nconc = if args.thorough { 5000 } else { 500 };
    for k in 0..nconc {
        let t = *g.rng.pick(&[2usize, 4, 8]);
        let racy = if k % 5 == 4 { t } else { g.rng.below(2) as usize };
        let progs = g.progs(t, racy);
        conc_case(&mut rec, &mut pool, &progs);
    }

    // 3. more hammering (thorough): other thread counts
    if args.thorough {
        for t in [4usize, 8] { hammer_case(&mut rec, &mut pool, t, 2000, 8000); }
    }
    rec.extra.insert("child_processes_spawned".into(), serde_json::json!(pool.spawned));
    if let Some(c) = pool.child.take() { c.kill(); }
    rec.finish(&args, t0.elapsed().as_secs_f64());
}
